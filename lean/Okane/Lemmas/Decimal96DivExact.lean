import Okane.Lemmas.Decimal96Div
/-!
# `rust_decimal` division is exact whenever the quotient is a decimal with at most 28 places that fits 96 bits

`DivExInv` strengthens the loop invariant of `div_impl` with the existence of the exact quotient `m'` at `j` more places
(`m'·B = A·10^(e+j)`, `m' < 2^96`, `0 ≤ σ + j ≤ 28`).  Under it a pass of the loop never rounds and never overflows: it
either stops with remainder zero or adds places (`divStep_exact`); since the scale grows in every pass and is capped at 28,
64 passes are more than enough (`divLoop_exact`).  `unscale` then strips zeros, keeping the value.
-/
namespace Okane.Dec96

/-- exact postcondition -/
structure DivPostEx (A B sa sb m : Nat) (s : Int) : Prop where
  s_nonneg : 0 ≤ s
  s_le : s ≤ 28
  m_lt : m < 2 ^ 96
  ex : ∃ x y : Nat, s + sb + x = sa + y ∧ m * 10 ^ x * B = A * 10 ^ y

structure DivExInv (A B sa sb q r : Nat) (σ : Int) : Prop where
  ex : ∃ e j m' : Nat, σ + sb = sa + e ∧ A * 10 ^ e = q * B + r ∧ m' * B = A * 10 ^ (e + j) ∧ m' < 2 ^ 96 ∧
    0 ≤ σ + j ∧ σ + j ≤ 28
  r_lt : r < B
  q_lt : q < 2 ^ 96

/-- `K·B = q·B + r` with `r < B` forces `r = 0` and `K = q`. -/
theorem mul_eq_divmod (K q r B : Nat) (h : K * B = q * B + r) (hr : r < B) : r = 0 ∧ K = q := by
  rcases Nat.lt_trichotomy K q with hlt | heq | hgt
  · have : (K + 1) * B ≤ q * B := Nat.mul_le_mul_right B hlt
    rw [Nat.add_mul, Nat.one_mul] at this; omega
  · subst heq; omega
  · have : (q + 1) * B ≤ K * B := Nat.mul_le_mul_right B hgt
    rw [Nat.add_mul, Nat.one_mul] at this; omega

theorem maxFit_fits : ∀ (n q : Nat), q < 2 ^ 96 → q * 10 ^ maxFit n q < 2 ^ 96
  | 0, q, h => by simpa [maxFit] using h
  | n + 1, q, h => by
    unfold maxFit
    split
    · rename_i hf; unfold two96 at hf; exact hf
    · exact maxFit_fits n q h

theorem maxFit_max : ∀ (n q x : Nat), x ≤ n → q * 10 ^ x < 2 ^ 96 → x ≤ maxFit n q
  | 0, _, x, hx, _ => by simp [maxFit]; omega
  | n + 1, q, x, hx, hf => by
    unfold maxFit
    split
    · exact hx
    · rename_i hnf
      by_cases hxn : x = n + 1
      · subst hxn; unfold two96 at hnf; omega
      · exact maxFit_max n q x (by omega) hf

/-- under the exactness invariant with a non-zero remainder, `find_scale` offers between 1 and 9 more places, all fitting -/
theorem findScale_exact (q : Nat) (σ : Int) (j : Nat) (hq : q < 2 ^ 96) (hj : 1 ≤ j) (hqj : q * 10 ^ j < 2 ^ 96)
    (h0 : 0 ≤ σ + j) (h28 : σ + j ≤ 28) :
    ∃ x, findScale q σ = some x ∧ 1 ≤ x ∧ x ≤ 9 ∧ q * 10 ^ x < 2 ^ 96 ∧ σ + x ≤ 28 := by
  have hfit := maxFit_fits 9 q hq
  have hle := maxFit_le 9 q
  have hmin : min j 9 ≤ maxFit 9 q := by
    apply maxFit_max 9 q (min j 9) (by omega)
    have : q * 10 ^ (min j 9) ≤ q * 10 ^ j := Nat.mul_le_mul_left _ (pow10_mono _ _ (by omega))
    omega
  unfold findScale
  generalize maxFit 9 q = fit at hfit hle hmin
  by_cases h19 : σ > 19
  · simp only [h19, if_true]
    have hcap : (28 - σ).toNat ≤ 8 := by omega
    have hx9 : ¬ min (28 - σ).toNat fit = 9 := by omega
    have hnn : ¬ ((min (28 - σ).toNat fit : Nat) : Int) + σ < 0 := by omega
    simp only [hx9, hnn, if_false]
    refine ⟨_, rfl, by omega, by omega, ?_, by omega⟩
    have : q * 10 ^ (min (28 - σ).toNat fit) ≤ q * 10 ^ fit := Nat.mul_le_mul_left _ (pow10_mono _ _ (by omega))
    omega
  · simp only [h19, if_false]
    by_cases h9 : fit = 9
    · simp only [h9, if_true]
      exact ⟨9, rfl, by omega, by omega, by rw [← h9]; exact hfit, by omega⟩
    · have hnn : ¬ ((fit : Nat) : Int) + σ < 0 := by omega
      simp only [h9, hnn, if_false]
      exact ⟨fit, rfl, by omega, by omega, hfit, by omega⟩

/-- what a pass of the loop delivers under the exactness invariant -/
def StepEx (A B sa sb : Nat) (σ : Int) : DivStep → Prop
  | .done none => False
  | .done (some (m, s)) => DivPostEx A B sa sb m s
  | .next q' r' s' => DivExInv A B sa sb q' r' s' ∧ σ < s' ∧ s' ≤ 28

/-- a scaling step under the exactness invariant (`1 ≤ p ≤ 9`, `q·10^p` fits, `p ≤ j` unless the remainder is non-zero) -/
theorem divGrow_exact (A B sa sb q r p : Nat) (σ : Int) (e j m' : Nat)
    (he : σ + sb = sa + e) (hA : A * 10 ^ e = q * B + r) (hm : m' * B = A * 10 ^ (e + j)) (hm' : m' < 2 ^ 96)
    (h0 : 0 ≤ σ + j) (h28 : σ + j ≤ 28) (hr : r < B) (hp1 : 1 ≤ p) (hp9 : p ≤ 9)
    (hfit : q * 10 ^ p < 2 ^ 96) (hσp : σ + p ≤ 28) :
    StepEx A B sa sb σ (divGrow q r B p σ) := by
  have hB : 0 < B := by omega
  unfold divGrow
  simp only
  have hq1 : ¬ q * 10 ^ p ≥ two96 := by unfold two96; omega
  simp only [hq1, if_false]
  have hA' : A * 10 ^ (e + p) = (q * 10 ^ p + r * 10 ^ p / B) * B + r * 10 ^ p % B := by
    have hdm := Nat.div_add_mod (r * 10 ^ p) B
    rw [Nat.pow_add, ← Nat.mul_assoc, hA]
    generalize r * 10 ^ p / B = d at hdm ⊢
    generalize r * 10 ^ p % B = f at hdm ⊢
    generalize 10 ^ p = P at hdm ⊢
    grind
  have hr2 : r * 10 ^ p % B < B := Nat.mod_lt _ hB
  have h1 : r * 10 ^ p < B * 10 ^ p := Nat.mul_lt_mul_of_pos_right hr (natpow10_pos p)
  have h2 : r * 10 ^ p / B < 10 ^ p := Nat.div_lt_of_lt_mul h1
  generalize r * 10 ^ p / B = d at hA' h2 ⊢
  generalize r * 10 ^ p % B = r2 at hA' hr2 ⊢
  by_cases hpj : p ≤ j
  · -- the exact quotient is still ahead: the new quotient is below it
    have hm2 : m' * B = A * 10 ^ (e + p) * 10 ^ (j - p) := by
      rw [hm, Nat.mul_assoc, ← Nat.pow_add]; congr 2; omega
    have hq2 : q * 10 ^ p + d ≤ m' := by
      apply Nat.le_of_mul_le_mul_right _ hB
      rw [hm2, hA']
      have := natpow10_pos (j - p)
      calc (q * 10 ^ p + d) * B ≤ (q * 10 ^ p + d) * B + r2 := Nat.le_add_right _ _
        _ ≤ ((q * 10 ^ p + d) * B + r2) * 10 ^ (j - p) := Nat.le_mul_of_pos_right _ this
    have hlt : ¬ q * 10 ^ p + d ≥ two96 := by unfold two96; omega
    simp only [hlt, if_false]
    refine ⟨⟨⟨e + p, j - p, m', by omega, hA', ?_, hm', by omega, by omega⟩, hr2, by omega⟩, by omega, hσp⟩
    rw [hm]; congr 2; omega
  · -- the exact quotient is reached (and passed by `p − j` zeros)
    have hm2 : (m' * 10 ^ (p - j)) * B = A * 10 ^ (e + p) := by
      have : e + p = (e + j) + (p - j) := by omega
      rw [this, Nat.pow_add, ← Nat.mul_assoc, ← hm]; grind
    rw [hA'] at hm2
    obtain ⟨hr0, hK⟩ := mul_eq_divmod _ _ _ _ hm2 hr2
    subst hr0
    by_cases hlt : q * 10 ^ p + d ≥ two96
    · simp only [hlt, if_true]
      have h10 : (q * 10 ^ p + d) % 10 = 0 := by
        rw [← hK]
        have : p - j = (p - j - 1) + 1 := by omega
        rw [this, Nat.pow_succ, ← Nat.mul_assoc]
        exact Nat.mul_mod_left _ _
      show StepEx A B sa sb σ (.done (unscaleFromOverflow (q * 10 ^ p + d) (σ + p) (0 != 0)))
      unfold unscaleFromOverflow
      have hs1 : ¬ σ + p - 1 < 0 := by omega
      simp only [hs1, if_false, h10]
      show DivPostEx A B sa sb ((q * 10 ^ p + d) / 10) (σ + p - 1)
      have hd10 := Nat.div_add_mod (q * 10 ^ p + d) 10
      have hpp : 10 ^ p ≤ 10 ^ 9 := pow10_mono _ _ hp9
      refine ⟨by omega, by omega, by omega, 1, e + p, by omega, ?_⟩
      rw [hA', Nat.pow_one]
      have : (q * 10 ^ p + d) / 10 * 10 = q * 10 ^ p + d := by omega
      rw [this]; omega
    · simp only [hlt, if_false]
      refine ⟨⟨⟨e + p, 0, q * 10 ^ p + d, by omega, hA', by simpa using hA'.symm, by unfold two96 at hlt; omega,
        by omega, by omega⟩, hr2, by unfold two96 at hlt; omega⟩, by omega, hσp⟩

theorem divStep_exact (A B sa sb q r : Nat) (σ : Int) (inv : DivExInv A B sa sb q r σ) :
    StepEx A B sa sb σ (divStep q r B σ).1 := by
  obtain ⟨⟨e, j, m', he, hA, hm, hm', h0, h28⟩, hr, hq⟩ := inv
  have hB : 0 < B := by omega
  -- q·10^j ≤ m'
  have hqj : q * 10 ^ j ≤ m' := by
    apply Nat.le_of_mul_le_mul_right _ hB
    rw [hm, Nat.pow_add, ← Nat.mul_assoc, hA]
    calc q * 10 ^ j * B = q * B * 10 ^ j := by grind
      _ ≤ (q * B + r) * 10 ^ j := Nat.mul_le_mul_right _ (Nat.le_add_right _ _)
  unfold divStep
  by_cases hr0 : r = 0
  · simp only [hr0, if_true]
    by_cases hσ : σ ≥ 0
    · simp only [hσ, if_true]
      subst hr0
      show DivPostEx A B sa sb q σ
      exact ⟨hσ, by omega, hq, 0, e, by omega, by simpa using hA.symm⟩
    · simp only [hσ, if_false]
      have hpj : min 9 (-σ).toNat ≤ j := by omega
      have hfit : q * 10 ^ (min 9 (-σ).toNat) < 2 ^ 96 := by
        have : q * 10 ^ (min 9 (-σ).toNat) ≤ q * 10 ^ j := Nat.mul_le_mul_left _ (pow10_mono _ _ hpj)
        omega
      subst hr0
      exact divGrow_exact A B sa sb q 0 _ σ e j m' he hA hm hm' h0 h28 hr (by omega) (by omega) hfit (by omega)
  · simp only [hr0, if_false]
    have hj1 : 1 ≤ j := by
      rcases Nat.eq_zero_or_pos j with hj | hj
      · subst hj
        rw [Nat.add_zero, hA] at hm
        exact absurd (mul_eq_divmod _ _ _ _ hm hr).1 hr0
      · exact hj
    have h28' : ¬ σ = 28 := by omega
    simp only [h28', if_false]
    obtain ⟨x, hx, hx1, hx9, hxf, hxs⟩ := findScale_exact q σ j hq hj1 (by omega) h0 h28
    rw [hx]
    have hx0 : ¬ x = 0 := by omega
    simp only [hx0, if_false]
    exact divGrow_exact A B sa sb q r x σ e j m' he hA hm hm' h0 h28 hr hx1 hx9 hxf hxs

/-- the loop under the exactness invariant: with fuel beyond the places still available it returns, and exactly. -/
theorem divLoop_exact (A B sa sb : Nat) : ∀ (fuel q r : Nat) (σ : Int) (flag : Bool), DivExInv A B sa sb q r σ →
    σ ≤ 28 → (28 - σ).toNat < fuel → ∃ m s f, divLoop fuel q r B σ flag = some (m, s, f) ∧ DivPostEx A B sa sb m s
  | 0, _, _, _, _, _, _, h => by omega
  | fuel + 1, q, r, σ, flag, inv, hσ, hf => by
    unfold divLoop
    have hs := divStep_exact A B sa sb q r σ inv
    cases hst : divStep q r B σ with
    | mk st fl =>
      rw [hst] at hs
      simp only at hs
      cases st with
      | done res =>
        cases res with
        | none => exact absurd hs (by simp [StepEx])
        | some ms => exact ⟨ms.1, ms.2, flag || fl, rfl, hs⟩
      | next q' r' s' =>
        obtain ⟨inv', hlt, hle⟩ := hs
        exact divLoop_exact A B sa sb fuel q' r' s' _ inv' hle (by omega)

/-! ## `unscale` keeps exactness -/

theorem postEx_unscale_step (A B sa sb m : Nat) (s : Int) (k : Nat) (post : DivPostEx A B sa sb m s)
    (hs : s ≥ k) (hd : m % 10 ^ k = 0) : DivPostEx A B sa sb (m / 10 ^ k) (s - k) := by
  obtain ⟨h0, h28, hm, x, y, he, hb⟩ := post
  have hmk : m / 10 ^ k * 10 ^ k = m := Nat.div_mul_cancel (Nat.dvd_of_mod_eq_zero hd)
  refine ⟨by omega, by omega, ?_, x + k, y, by omega, ?_⟩
  · have : m / 10 ^ k ≤ m := Nat.div_le_self _ _
    omega
  · rw [← hb, Nat.pow_add]
    calc m / 10 ^ k * (10 ^ x * 10 ^ k) * B = (m / 10 ^ k * 10 ^ k) * 10 ^ x * B := by grind
      _ = m * 10 ^ x * B := by rw [hmk]

theorem unscale8_postEx (A B sa sb : Nat) : ∀ (fuel m : Nat) (s : Int), DivPostEx A B sa sb m s →
    DivPostEx A B sa sb (unscale8 fuel m s).1 (unscale8 fuel m s).2
  | 0, _, _, h => h
  | fuel + 1, m, s, h => by
    unfold unscale8
    split
    · rename_i hc
      exact unscale8_postEx A B sa sb fuel _ _ (postEx_unscale_step A B sa sb m s 8 h (by omega) hc.2.2)
    · exact h

theorem unscale_postEx (A B sa sb m : Nat) (s : Int) (h : DivPostEx A B sa sb m s) :
    DivPostEx A B sa sb (unscale m s).1 (unscale m s).2 := by
  unfold unscale
  have h8 := unscale8_postEx A B sa sb 4 m s h
  generalize unscale8 4 m s = p8 at h8
  obtain ⟨m1, s1⟩ := p8
  simp only at h8 ⊢
  have h4 : DivPostEx A B sa sb
      (if m1 % 16 = 0 ∧ s1 ≥ 4 ∧ m1 % 10 ^ 4 = 0 then (m1 / 10 ^ 4, s1 - 4) else (m1, s1)).1
      (if m1 % 16 = 0 ∧ s1 ≥ 4 ∧ m1 % 10 ^ 4 = 0 then (m1 / 10 ^ 4, s1 - 4) else (m1, s1)).2 := by
    split
    · rename_i hc; exact postEx_unscale_step A B sa sb m1 s1 4 h8 (by omega) hc.2.2
    · exact h8
  generalize (if m1 % 16 = 0 ∧ s1 ≥ 4 ∧ m1 % 10 ^ 4 = 0 then (m1 / 10 ^ 4, s1 - 4) else (m1, s1)) = p4 at h4
  obtain ⟨m2, s2⟩ := p4
  simp only at h4 ⊢
  have h2 : DivPostEx A B sa sb
      (if m2 % 4 = 0 ∧ s2 ≥ 2 ∧ m2 % 10 ^ 2 = 0 then (m2 / 10 ^ 2, s2 - 2) else (m2, s2)).1
      (if m2 % 4 = 0 ∧ s2 ≥ 2 ∧ m2 % 10 ^ 2 = 0 then (m2 / 10 ^ 2, s2 - 2) else (m2, s2)).2 := by
    split
    · rename_i hc; exact postEx_unscale_step A B sa sb m2 s2 2 h4 (by omega) hc.2.2
    · exact h4
  generalize (if m2 % 4 = 0 ∧ s2 ≥ 2 ∧ m2 % 10 ^ 2 = 0 then (m2 / 10 ^ 2, s2 - 2) else (m2, s2)) = p2 at h2
  obtain ⟨m3, s3⟩ := p2
  simp only at h2 ⊢
  split
  · rename_i hc
    have := postEx_unscale_step A B sa sb m3 s3 1 h2 (by omega) (by simpa using hc.2.2)
    simpa using this
  · exact h2

/-! ## `div_impl` -/

/-- the exact quotient exists: `m0 / 10^s = (A/10^sa) / (B/10^sb)` cross-multiplied -/
def QuotRepr (A B sa sb : Nat) : Prop := ∃ s m0 : Nat, s ≤ 28 ∧ m0 < 2 ^ 96 ∧ m0 * B * 10 ^ sa = A * 10 ^ (sb + s)

theorem divImpl_exact_int (a b : D96) (ha : a.wf) (hb : b.wf) (ha0 : a.mant ≠ 0) (hb0 : b.mant ≠ 0)
    (hq : QuotRepr a.mant b.mant a.scale b.scale) :
    ∃ m : Nat, ∃ s : Int, DivPostEx a.mant b.mant a.scale b.scale m s ∧
      divImpl a b = .ok (fromParts (a.neg != b.neg) m s.toNat) := by
  obtain ⟨s, m0, hs, hm0, hx⟩ := hq
  have hB : 0 < b.mant := by omega
  have inv : DivExInv a.mant b.mant a.scale b.scale (a.mant / b.mant) (a.mant % b.mant) ((a.scale : Int) - b.scale) := by
    have hdm : a.mant * 10 ^ 0 = a.mant / b.mant * b.mant + a.mant % b.mant := by
      have := Nat.div_add_mod a.mant b.mant
      simp only [Nat.pow_zero, Nat.mul_one]; rw [Nat.mul_comm]; omega
    have hqlt : a.mant / b.mant < 2 ^ 96 := by
      have : a.mant / b.mant ≤ a.mant := Nat.div_le_self _ _
      have := ha.1; omega
    refine ⟨?_, Nat.mod_lt _ hB, hqlt⟩
    by_cases hc : a.scale ≤ b.scale + s
    · refine ⟨0, b.scale + s - a.scale, m0, by omega, hdm, ?_, hm0, by omega, by omega⟩
      apply Nat.eq_of_mul_eq_mul_right (natpow10_pos a.scale)
      rw [hx, Nat.zero_add, Nat.mul_assoc, ← Nat.pow_add]; congr 2; omega
    · have hd : a.scale = (b.scale + s) + (a.scale - b.scale - s) := by omega
      have hx' : m0 * 10 ^ (a.scale - b.scale - s) * b.mant = a.mant := by
        apply Nat.eq_of_mul_eq_mul_right (natpow10_pos (b.scale + s))
        rw [← hx]
        have : 10 ^ a.scale = 10 ^ (b.scale + s) * 10 ^ (a.scale - b.scale - s) := by
          rw [← Nat.pow_add]; congr 1
        rw [this]; grind
      refine ⟨0, 0, m0 * 10 ^ (a.scale - b.scale - s), by omega, hdm, by simpa using hx', ?_, by omega,
        by have := ha.2; omega⟩
      have : m0 * 10 ^ (a.scale - b.scale - s) ≤ a.mant := by
        rw [← hx']; exact Nat.le_mul_of_pos_right _ hB
      have := ha.1; omega
  obtain ⟨q, sc, flag, hl, post⟩ := divLoop_exact a.mant b.mant a.scale b.scale 64 _ _ _ false inv
    (by have := ha.2; omega) (by have := hb.2; omega)
  unfold divImpl
  simp only [hb0, ha0, if_false, hl]
  cases flag
  · exact ⟨q, sc, post, by simp⟩
  · exact ⟨_, _, unscale_postEx _ _ _ _ q sc post, by simp⟩

theorem rat_exact (m A B s sa sb x y : Nat) (hB : 0 < B) (he : s + sb + x = sa + y) (h1 : m * 10 ^ x * B = A * 10 ^ y) :
    (m : Rat) / 10 ^ s = ((A : Rat) / 10 ^ sa) / ((B : Rat) / 10 ^ sb) := by
  have hu := rat_bound_upper m A B s sa sb x y hB he (by omega)
  have hl := rat_bound_lower m A B s sa sb x y hB he (by omega)
  -- sharpen: use the equality itself
  have hBr : (B : Rat) ≠ 0 := by
    have : (0 : Rat) < (B : Rat) := by exact_mod_cast hB
    grind
  have ps := pow10_ne_zero s
  have psa := pow10_ne_zero sa
  have psb := pow10_ne_zero sb
  have px := pow10_ne_zero x
  have hpow : (10 : Rat) ^ sb * 10 ^ s * 10 ^ x = 10 ^ sa * 10 ^ y := by
    rw [← pow10_add, ← pow10_add, ← pow10_add]; congr 1; omega
  have h3 : (((m * 10 ^ x * B : Nat)) : Rat) = ((A * 10 ^ y : Nat) : Rat) := by rw [h1]
  simp only [Rat.natCast_mul, natCast_pow10] at h3
  have key : (m : Rat) * (B * 10 ^ sa) * 10 ^ x = A * (10 ^ sb * 10 ^ s) * 10 ^ x := by
    calc (m : Rat) * (B * 10 ^ sa) * 10 ^ x = 10 ^ sa * ((m : Rat) * 10 ^ x * B) := by grind
      _ = 10 ^ sa * ((A : Rat) * 10 ^ y) := by rw [h3]
      _ = A * (10 ^ sa * 10 ^ y) := by grind
      _ = A * (10 ^ sb * 10 ^ s * 10 ^ x) := by rw [hpow]
      _ = A * (10 ^ sb * 10 ^ s) * 10 ^ x := by grind
  have key2 : (m : Rat) * (B * 10 ^ sa) = A * (10 ^ sb * 10 ^ s) := by grind
  grind

/-- **`/`, `checked_div` are exact when the quotient is representable**: if `val a / val b` is a decimal with some `s ≤ 28`
places whose mantissa fits 96 bits, the crate returns a well-formed decimal with exactly that value (its scale may differ
from `s`: the algorithm extends in steps of up to 9 places and strips trailing zeros only partly). -/
theorem div_exact (a b : D96) (ha : a.wf) (hb : b.wf) (hb0 : b.mant ≠ 0)
    (hq : QuotRepr a.mant b.mant a.scale b.scale) :
    ∃ r, divImpl a b = .ok r ∧ r.wf ∧ val r = val a / val b := by
  by_cases ha0 : a.mant = 0
  · refine ⟨zero, divImpl_zero a b ha0 hb0, zero_wf, ?_⟩
    rw [val_zero, val_of_mant_zero a ha0]; simp [Rat.div_def]
  · obtain ⟨m, s, ⟨h0, h28, hm, x, y, he, hb1⟩, hr⟩ := divImpl_exact_int a b ha hb ha0 hb0 hq
    refine ⟨_, hr, ⟨hm, by simp; omega⟩, ?_⟩
    have hs : ((s.toNat : Nat) : Int) = s := Int.toNat_of_nonneg h0
    have he' : s.toNat + b.scale + x = a.scale + y := by omega
    have hB : 0 < b.mant := by omega
    have ex := rat_exact m a.mant b.mant s.toNat a.scale b.scale x y hB he' hb1
    rw [val_eq_sgnR a, val_eq_sgnR b]
    unfold val
    rw [fromParts_int, fromParts_scale]
    have em : ((sgn (a.neg != b.neg) * (m : Int) : Int) : Rat) / 10 ^ s.toNat
        = sgnR (a.neg != b.neg) * ((m : Rat) / 10 ^ s.toNat) := by
      cases (a.neg != b.neg) <;> simp [sgn, sgnR, Rat.neg_mul, Rat.div_def, Rat.intCast_natCast]
    rw [em, ex]
    generalize ((a.mant : Rat) / 10 ^ a.scale) = X
    generalize ((b.mant : Rat) / 10 ^ b.scale) = Y
    cases a.neg <;> cases b.neg <;> simp [sgnR] <;> grind

/-! ## the hypothesis over `Rat` -/

theorem natAbs_cast (m : Int) : ((m.natAbs : Nat) : Rat) = (m : Rat) ∨ ((m.natAbs : Nat) : Rat) = -(m : Rat) := by
  rcases Int.natAbs_eq m with h | h
  · left; rw [← Rat.intCast_natCast]; congr 1; omega
  · right; rw [← Rat.intCast_natCast, ← Rat.intCast_neg]; congr 1; omega

theorem quotRepr_of_reprAt (a b : D96) (hb0 : b.mant ≠ 0) (s : Nat) (hs : s ≤ 28) (h : ReprAt (val a / val b) s) :
    QuotRepr a.mant b.mant a.scale b.scale := by
  obtain ⟨m, hm, he⟩ := h
  refine ⟨s, m.natAbs, hs, hm, ?_⟩
  have hB : (b.mant : Rat) ≠ 0 := by
    have : (0 : Rat) < (b.mant : Rat) := by exact_mod_cast (by omega : 0 < b.mant)
    grind
  have ps := pow10_ne_zero s
  have psa := pow10_ne_zero a.scale
  have psb := pow10_ne_zero b.scale
  rw [val_eq_sgnR a, val_eq_sgnR b] at he
  -- cleared of denominators
  have hX : ((a.mant * 10 ^ (b.scale + s) : Nat) : Rat) = (a.mant : Rat) * (10 ^ b.scale * 10 ^ s) := by
    rw [Rat.natCast_mul, natCast_pow10, pow10_add]
  have hY : ((m.natAbs * b.mant * 10 ^ a.scale : Nat) : Rat) = ((m.natAbs : Nat) : Rat) * b.mant * 10 ^ a.scale := by
    rw [Rat.natCast_mul, Rat.natCast_mul, natCast_pow10]
  have hXn : (0 : Rat) ≤ ((a.mant * 10 ^ (b.scale + s) : Nat) : Rat) := Rat.natCast_nonneg
  have hYn : (0 : Rat) ≤ ((m.natAbs * b.mant * 10 ^ a.scale : Nat) : Rat) := Rat.natCast_nonneg
  have hpm : ((m.natAbs * b.mant * 10 ^ a.scale : Nat) : Rat) = ((a.mant * 10 ^ (b.scale + s) : Nat) : Rat) ∨
      ((m.natAbs * b.mant * 10 ^ a.scale : Nat) : Rat) = -((a.mant * 10 ^ (b.scale + s) : Nat) : Rat) := by
    rw [hX, hY]
    generalize (a.mant : Rat) = A at *
    generalize (b.mant : Rat) = B at *
    rcases natAbs_cast m with hc | hc <;> rw [hc] <;> cases a.neg <;> cases b.neg <;> simp [sgnR] at he <;> grind
  have : ((m.natAbs * b.mant * 10 ^ a.scale : Nat) : Rat) = ((a.mant * 10 ^ (b.scale + s) : Nat) : Rat) := by
    rcases hpm with h | h
    · exact h
    · grind
  exact Rat.natCast_inj.mp this

/-- **`div_exact` over `Rat`**: a non-zero divisor and a quotient that is a decimal with `s ≤ 28` places and a mantissa
below `2^96`. -/
theorem div_exact_rat (a b : D96) (ha : a.wf) (hb : b.wf) (hb0 : val b ≠ 0) (s : Nat) (hs : s ≤ 28)
    (h : ReprAt (val a / val b) s) :
    ∃ r, divImpl a b = .ok r ∧ checkedDiv a b = some r ∧ opDiv a b = .val r ∧ r.wf ∧ val r = val a / val b := by
  have hb0' : b.mant ≠ 0 := fun hz => hb0 (val_of_mant_zero b hz)
  obtain ⟨r, h1, h2, h3⟩ := div_exact a b ha hb hb0' (quotRepr_of_reprAt a b hb0' s hs h)
  exact ⟨r, h1, by simp [checkedDiv, h1, Calc.toOption], by simp [opDiv, h1], h2, h3⟩

end Okane.Dec96
