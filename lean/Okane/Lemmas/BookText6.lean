import Okane.Lemmas.BookText4
import Okane.Props.C05Text
/-!
# C12 on EVERY text, through `format`

`C12_text_token` (`Lemmas/BookText4.lean`) replaces a token in the text `format` writes for a printable tree.  Here the
tree comes from an arbitrary text:

* `process_canon` — book-keeping does not see `canonEntry` (the grouping tag of numbers below 1000 that `format` drops):
  `process (es.map canonEntry) = process es`;
* `format_denotes_same` — for every text `t` (ASCII white space only — `TextOK`, the hypothesis of C05's image theorem) that
  parses, `format w t` parses and denotes the same ledger as `t`;
* `C12_text_format_token` — **for every such text `t`** whose entries are `pre ++ es'`, `pre` declaring the account written on
  posting line `j` of entry `k` of `es'` an alias of `canonical`, and any width function that gives both names the same width:
  `format w t = L ++ alias ++ R`, the text `L ++ canonical ++ R` (that one token replaced) parses to the entries with that
  account replaced, and it is accepted iff `t` is, with the same `process` result.
-/
set_option linter.unusedSectionVars false
set_option linter.unusedVariables false
set_option linter.unusedSimpArgs false
namespace Okane.BookText
open Okane Okane.Spec Okane.Unparse

/-! ## `process` does not see `canonEntry` -/

theorem toRat_canonPDec (d : PDec) : (canonPDec d).toRat = d.toRat := by
  unfold canonPDec
  split <;> rfl

theorem leafMut_canon (s : Store) (d : PDec) (c : String) : leafMut s (canonPDec d) c = leafMut s d c := by
  simp only [leafMut, toRat_canonPDec]

mutual
theorem evalExpr_canon : ∀ (e : Expr) (s : Store), evalExprWith leafMut s (canonExpr e) = evalExprWith leafMut s e
  | .neg a, s => by simp only [canonExpr, evalExprWith, evalExpr_canon a s]
  | .bin o l r, s => by
    simp only [canonExpr, evalExprWith, evalExpr_canon l s]
    cases evalExprWith leafMut s l with
    | ok x => obtain ⟨lv, s1⟩ := x; simp only [evalExpr_canon r s1]
    | err x => rfl
    | panic p => rfl
    | fuelOut => rfl
  | .val v, s => by simp only [canonExpr, evalExprWith, evalVExpr_canon v s]
theorem evalVExpr_canon : ∀ (v : VExpr) (s : Store), evalVExprWith leafMut s (canonVExpr v) = evalVExprWith leafMut s v
  | .paren a, s => by simp only [canonVExpr, evalVExprWith, evalExpr_canon a s]
  | .amt d c, s => by simp only [canonVExpr, evalVExprWith, leafMut_canon]
end

theorem evalMut_canon (s : Store) (v : VExpr) : evalMut s (canonVExpr v) = evalMut s v := evalVExpr_canon v s

theorem evalPostingAmt_canon (s : Store) (v : VExpr) : evalPostingAmt s (canonVExpr v) = evalPostingAmt s v := by
  simp only [evalPostingAmt, evalMut_canon]

theorem resolveExchange_canon (s : Store) (a : PostingAmt String) (x : Exchange) :
    resolveExchange s a (canonExchange x) = resolveExchange s a x := by
  cases x <;> simp only [canonExchange, resolveExchange, evalMut_canon] <;> rfl

theorem resolveOptExchange_canon (s : Store) (a : PostingAmt String) (x : Option Exchange) :
    resolveOptExchange s a (x.map canonExchange) = resolveOptExchange s a x := by
  cases x with
  | none => rfl
  | some x => simp only [Option.map_some, resolveOptExchange, resolveExchange_canon]

theorem resolveAmount_canon (s : Store) (pa : PostingAmount) :
    resolveAmount s (canonPostingAmount pa) = resolveAmount s pa := by
  simp only [resolveAmount, canonPostingAmount, evalPostingAmt_canon, resolveOptExchange_canon]

theorem resolveOptBalance_canon (s : Store) (x : Option VExpr) :
    resolveOptBalance s (x.map canonVExpr) = resolveOptBalance s x := by
  cases x with
  | none => rfl
  | some x => simp only [Option.map_some, resolveOptBalance, evalPostingAmt_canon]

theorem resolvePosting_canon (c : Ctx) (p : Posting) : resolvePosting c (canonPosting p) = resolvePosting c p := by
  unfold resolvePosting canonPosting
  cases hp : p.amount with
  | none => simp only [hp, Option.map_none, resolveOptBalance_canon]
  | some pa => simp only [hp, Option.map_some, resolveAmount_canon, resolveOptBalance_canon]

theorem loopSyntax_canon (date : Date) : ∀ (ps : List Posting) (c : Ctx) (st : TxnState String String) (idx : Nat),
    loopSyntax date c st idx (ps.map canonPosting) = loopSyntax date c st idx ps
  | [], _, _, _ => rfl
  | p :: ps, c, st, idx => by
    simp only [List.map_cons, loopSyntax, resolvePosting_canon]
    cases resolvePosting c p with
    | ok r =>
      obtain ⟨rp, c1⟩ := r
      simp only
      cases stepPosting date st idx rp with
      | ok st1 => simp only [loopSyntax_canon date ps c1 st1 (idx + 1)]
      | err e => rfl
      | panic e => rfl
      | fuelOut => rfl
    | err e => rfl
    | panic e => rfl
    | fuelOut => rfl

theorem applyCommodityDetails_canon (k : String) (f : CommodityDetail → CommodityDetail)
    (hf : ∀ d c, f (.format d c) = .format (canonPDec d) c) (ha : ∀ a, f (.alias a) = .alias a)
    (hc : ∀ a, f (.comment a) = .comment a) (hn : ∀ a, f (.note a) = .note a) : ∀ (ds : List CommodityDetail) (c : Ctx),
    applyCommodityDetails c k (ds.map f) = applyCommodityDetails c k ds
  | [], _ => rfl
  | d :: ds, c => by
    cases d with
    | «alias» a =>
      simp only [List.map_cons, ha, applyCommodityDetails]
      cases c.commodities.insertAlias a k with
      | ok s' => simp only [applyCommodityDetails_canon k f hf ha hc hn ds]
      | err e => rfl
      | panic e => rfl
      | fuelOut => rfl
    | format v cm =>
      simp only [List.map_cons, hf, applyCommodityDetails]
      have : (canonPDec v).scale = v.scale := by unfold canonPDec; split <;> rfl
      rw [this, applyCommodityDetails_canon k f hf ha hc hn ds]
    | comment s => simp only [List.map_cons, hc, applyCommodityDetails, applyCommodityDetails_canon k f hf ha hc hn ds]
    | note s => simp only [List.map_cons, hn, applyCommodityDetails, applyCommodityDetails_canon k f hf ha hc hn ds]

theorem stepEntry_canon (st : ProcState) (e : Entry) : stepEntry st (canonEntry e) = stepEntry st e := by
  cases e with
  | txn t => simp only [canonEntry, stepEntry, addTransactionSyntax, loopSyntax_canon]
  | commodity n ds =>
    simp only [canonEntry, stepEntry]
    cases st.ctx.commodities.insertCanonical n with
    | ok r =>
      obtain ⟨k, s1⟩ := r
      simp only
      rw [applyCommodityDetails_canon k _ (fun _ _ => rfl) (fun _ => rfl) (fun _ => rfl) (fun _ => rfl)]
    | err e => rfl
    | panic e => rfl
    | fuelOut => rfl
  | _ => rfl

theorem processFrom_canon : ∀ (es : List Entry) (st : ProcState) (i : Nat),
    processFrom st i (es.map canonEntry) = processFrom st i es
  | [], _, _ => rfl
  | e :: es, st, i => by
    simp only [List.map_cons, processFrom, stepEntry_canon]
    cases stepEntry st e with
    | ok st1 => simp only [processFrom_canon es st1 (i + 1)]
    | err x => rfl
    | panic x => rfl
    | fuelOut => rfl

/-- **book-keeping does not see the normalisation `format` applies to numbers** -/
theorem process_canon (es : List Entry) : process (es.map canonEntry) = process es := processFrom_canon es {} 0

/-! ## `format` keeps the ledger -/

theorem formatEntries_canon (w : List Char → Nat) (es : List Entry) :
    formatEntries w (es.map canonEntry) = formatEntries w es := by
  unfold formatEntries
  rw [List.flatMap_map]
  congr 1
  funext e
  rw [C05Image.printEntry_canon]

/-- **format_denotes_same**: for every text (ASCII white space only) that parses, the formatted text parses — to the same
entries up to `canonEntry` — and book-keeping gives the same result on both: same ledger, or the same error at the same
entry; one is accepted iff the other is. -/
theorem format_denotes_same (w : List Char → Nat) (t : List Char) (es : List Entry) (ht : C05Image.TextOK t)
    (hp : Parse.parseEntries t = .ok es) :
    format w t = .ok (formatEntries w es) ∧
    Parse.parseEntries (formatEntries w es) = .ok (es.map canonEntry) ∧
    process (es.map canonEntry) = process es ∧
    (okaneAccepts (formatEntries w es) ↔ okaneAccepts t) := by
  have hf : format w t = .ok (formatEntries w es) := by simp [format, hp, Outcome.map']
  have hrt := C05.C05_roundtrip_text w t es ht hp
  obtain ⟨f, h1, h2⟩ := hrt
  rw [hf] at h1
  simp only [Outcome.ok.injEq] at h1
  subst h1
  refine ⟨hf, h2, process_canon es, ?_⟩
  constructor
  · rintro ⟨es1, st, g1, g2⟩
    have := parse_unique h2 g1
    subst this
    exact ⟨es, st, hp, by rw [← process_canon]; exact g2⟩
  · rintro ⟨es1, st, g1, g2⟩
    have := parse_unique hp g1
    subst this
    exact ⟨_, st, h2, by rw [process_canon]; exact g2⟩

theorem declaresAccount_canon {pre : List Entry} {a k : String} (h : DeclaresAccount pre a k) :
    DeclaresAccount (pre.map canonEntry) a k := by
  obtain ⟨ds, hm, ha⟩ := h
  exact ⟨ds, List.mem_map.2 ⟨_, hm, rfl⟩, ha⟩

/-- **C12_text_format_token** — the token replacement for EVERY text, through `format`.  Let `t` be any text (ASCII white
space only) that parses to `pre ++ es'`; let posting line `j` of entry `k` of `es'` write an account name that `pre` declares
an alias of `canonical` (a posting-account name); let the display-width function give both names the same width.  Then
there are `L`, `R` such that
* `format w t = L ++ alias ++ R`: the alias token stands in the formatted text;
* the text `L ++ canonical ++ R` — that one token replaced — parses, to the (normalised) entries with that account replaced;
* book-keeping gives the same result on it as on `t`; it is accepted iff `t` is, and then denotes the same ledger. -/
theorem C12_text_format_token (w : List Char → Nat) (t : List Char) (ht : C05Image.TextOK t) (pre es' : List Entry)
    (hp : Parse.parseEntries t = .ok (pre ++ es')) (k j : Nat) (tx : Transaction) (p : Posting) (canonical : String)
    (hk : es'[k]? = some (.txn tx)) (hj : tx.posts[j]? = some p)
    (hw : w p.account.toList = w canonical.toList)
    (hdecl : DeclaresAccount pre p.account canonical) (hname : accountNameOk p canonical = true) :
    ∃ L R,
      format w t = .ok (L ++ (p.account.toList ++ R)) ∧
      Parse.parseEntries (L ++ (canonical.toList ++ R)) =
        .ok (pre.map canonEntry ++ substAccountAt (es'.map canonEntry) k j canonical) ∧
      process (pre.map canonEntry ++ substAccountAt (es'.map canonEntry) k j canonical) = process (pre ++ es') ∧
      (okaneAccepts (L ++ (canonical.toList ++ R)) ↔ okaneAccepts t) := by
  have himg := C05.C05_image t (pre ++ es') ht hp
  have hwf : ∀ e ∈ pre.map canonEntry ++ es'.map canonEntry, wfEntry e = true ∧ C05.plainEntry e = true := by
    intro e he
    rw [← List.map_append] at he
    obtain ⟨e0, he0, rfl⟩ := List.mem_map.1 he
    exact himg e0 he0
  have hk' : (es'.map canonEntry)[k]? = some (.txn { tx with posts := tx.posts.map canonPosting }) := by
    rw [List.getElem?_map, hk]; rfl
  have hj' : (tx.posts.map canonPosting)[j]? = some (canonPosting p) := by
    rw [List.getElem?_map, hj]; rfl
  obtain ⟨L, R, h1, h2, h3, h4, h5⟩ := C12_text_token w (pre.map canonEntry) (es'.map canonEntry) k j
    { tx with posts := tx.posts.map canonPosting } (canonPosting p) canonical hk' hj' hw (declaresAccount_canon hdecl)
    hwf hname
  have hfmt : formatEntries w (pre.map canonEntry ++ es'.map canonEntry) = formatEntries w (pre ++ es') := by
    rw [← List.map_append, formatEntries_canon]
  obtain ⟨g1, g2, g3, g4⟩ := format_denotes_same w t (pre ++ es') ht hp
  have hacc : (canonPosting p).account = p.account := rfl
  rw [hacc] at h1 h5
  refine ⟨L, R, ?_, h3, ?_, ?_⟩
  · rw [g1, ← hfmt, h1]
  · rw [← h4, ← List.map_append, process_canon]
  · rw [← h5, ← h1, hfmt]
    exact g4

end Okane.BookText
