import Okane.Lemmas.Decimal96Round
import Okane.Lemmas.Num
/-!
# `round_dp_with_strategy(dp, MidpointNearestEven)` IS `Okane.roundHalfEven` on values

The report-layer models (C01–C04, C09, …) round amounts with `Okane.roundHalfEven : Rat → Nat → Rat` (`Base/Num.lean`:
floor, fractional part, ties to the even integer).  `val_roundDp_even` proves that the crate's algorithm — divide the
mantissa by `10^(scale − dp)`, compare the dropped part with half a unit, bump on `>` or on `=` with an odd quotient, keep
the sign flag — computes exactly that function of the value, for every decimal (well-formed or not) and every `dp`.
-/
namespace Okane.Dec96
open Okane

theorem floor_eq (x : Rat) (n : Int) (h1 : (n : Rat) ≤ x) (h2 : x < ((n + 1 : Int) : Rat)) : x.floor = n := by
  have a : n ≤ x.floor := Rat.le_floor_iff.mpr h1
  have b : ((x.floor : Int) : Rat) < ((n + 1 : Int) : Rat) := by have := Rat.floor_le x; grind
  have c : x.floor < n + 1 := Rat.intCast_lt_intCast.mp b
  omega

theorem rheInt_div (q : Int) (f p : Nat) (hp : 0 < p) (hf : f < p) :
    roundHalfEvenInt (((q * p + f : Int) : Rat) / (p : Rat)) =
      if 2 * f < p then q else if 2 * f > p then q + 1 else if q % 2 = 0 then q else q + 1 := by
  have hpr : (0 : Rat) < (p : Rat) := by exact_mod_cast hp
  have hpne : (p : Rat) ≠ 0 := by grind
  have hx : ((q * p + f : Int) : Rat) / (p : Rat) = (q : Rat) + (f : Rat) / p := by
    rw [Rat.intCast_add, Rat.intCast_mul, Rat.intCast_natCast, Rat.intCast_natCast]; grind
  rw [hx]
  have hfp0 : (0 : Rat) ≤ (f : Rat) / p := by
    have : (0 : Rat) ≤ (f : Rat) := Rat.natCast_nonneg
    rw [Rat.div_def]; exact Rat.mul_nonneg this (Rat.le_of_lt (Rat.inv_pos.mpr hpr))
  have hfp1 : (f : Rat) / p < 1 := by
    rw [Rat.div_lt_iff hpr, Rat.one_mul]; exact_mod_cast hf
  have hfl : ((q : Rat) + (f : Rat) / p).floor = q := by
    apply floor_eq
    · grind
    · rw [Rat.intCast_add]; have : ((1 : Int) : Rat) = 1 := rfl; rw [this]; grind
  unfold roundHalfEvenInt
  simp only [hfl]
  have hr : (q : Rat) + (f : Rat) / p - (q : Rat) = (f : Rat) / p := by grind
  rw [hr]
  have hlt : (f : Rat) / p < 1 / 2 ↔ 2 * f < p := by
    rw [Rat.div_lt_iff hpr]
    constructor
    · intro h
      have : 2 * (f : Rat) < p := by grind
      exact_mod_cast this
    · intro h
      have : 2 * (f : Rat) < p := by exact_mod_cast h
      grind
  have hgt : (f : Rat) / p > 1 / 2 ↔ 2 * f > p := by
    show 1 / 2 < (f : Rat) / p ↔ _
    rw [Rat.lt_div_iff hpr]
    constructor
    · intro h
      have : (p : Rat) < 2 * (f : Rat) := by grind
      exact_mod_cast this
    · intro h
      have : (p : Rat) < 2 * (f : Rat) := by exact_mod_cast h
      grind
  simp only [hlt, hgt]

theorem rheInt_int (n : Int) : roundHalfEvenInt (n : Rat) = n := by
  have := rheInt_div n 0 1 (by decide) (by decide)
  have e : (((n * (1 : Nat) + (0 : Nat) : Int)) : Rat) / ((1 : Nat) : Rat) = (n : Rat) := by
    have : (n * ((1 : Nat) : Int) + ((0 : Nat) : Int)) = n := by omega
    rw [this]
    have h1 : ((1 : Nat) : Rat) = 1 := rfl
    rw [h1]; grind
  rw [e] at this
  simpa using this

theorem val_mul_pow10 (d : D96) (dp : Nat) (h : dp < d.scale) :
    val d * pow10 dp = (d.int : Rat) / ((10 ^ (d.scale - dp) : Nat) : Rat) := by
  unfold val pow10
  have e : d.scale = dp + (d.scale - dp) := by omega
  have hp1 := pow10_ne_zero dp
  have hp2 := pow10_ne_zero (d.scale - dp)
  rw [Rat.natCast_pow]
  have : (10 : Rat) ^ d.scale = 10 ^ dp * 10 ^ (d.scale - dp) := by rw [← pow10_add, ← e]
  rw [this]
  have h10 : ((10 : Nat) : Rat) = 10 := rfl
  rw [h10]
  grind

/-- **the crate's half-even rounding is `roundHalfEven` on values** -/
theorem val_roundDp_even (d : D96) (dp : Nat) :
    val (roundDp d dp .midpointNearestEven) = roundHalfEven (val d) dp := by
  unfold roundHalfEven
  by_cases hs : d.scale ≤ dp
  · rw [roundDp_of_le d dp _ hs]
    have e : val d * pow10 dp = ((d.int * 10 ^ (dp - d.scale) : Int) : Rat) := by
      unfold val pow10
      have e : dp = d.scale + (dp - d.scale) := by omega
      have hp1 := pow10_ne_zero d.scale
      rw [Rat.intCast_mul, intCast_pow10]
      have : (10 : Rat) ^ dp = 10 ^ d.scale * 10 ^ (dp - d.scale) := by rw [← pow10_add, ← e]
      rw [this]; grind
    rw [e, rheInt_int, ← e]
    have hp := pow10_ne_zero dp
    unfold pow10; grind
  · have hlt : dp < d.scale := by omega
    by_cases hm : d.mant = 0
    · have hv : val d = 0 := val_of_mant_zero d hm
      rw [hv, Rat.zero_mul, roundHalfEvenInt_zero]
      have : val (roundDp d dp .midpointNearestEven) = 0 := by
        apply val_of_mant_zero
        unfold roundDp; simp [hs, hm]
      rw [this]
      have h0 : ((0 : Int) : Rat) = 0 := rfl
      rw [h0, Rat.div_def, Rat.zero_mul]
    · rw [roundDp_eq d dp _ hlt hm, val_mul_pow10 d dp hlt]
      unfold val
      rw [fromParts_int, fromParts_scale]
      have hsplit := pow_split d.scale dp hlt
      have hc := natpow10_pos (d.scale - dp - 1)
      generalize 10 ^ (d.scale - dp - 1) = c at hsplit hc
      generalize 10 ^ (d.scale - dp) = p at hsplit
      have hp : 0 < p := by omega
      have hdm := Nat.div_add_mod d.mant p
      have hfl : d.mant % p < p := Nat.mod_lt _ hp
      generalize hq : d.mant / p = q at hdm
      generalize hf : d.mant % p = f at hdm hfl
      unfold roundUp
      simp only
      unfold pow10
      have hint : d.int = sgn d.neg * ((p * q + f : Nat) : Int) := by unfold D96.int; rw [hdm]
      have hcap : p = 2 * (5 * c) := by omega
      generalize 5 * c = cap at hcap
      cases hn : d.neg
      · -- positive
        have e : d.int = (q : Int) * p + f := by rw [hint, hn]; simp [sgn]; grind
        rw [e, rheInt_div (q : Int) f p hp hfl]
        apply congrArg (fun z : Int => (z : Rat) / (10 : Rat) ^ dp)
        simp only [sgn_false, Int.one_mul, Bool.or_eq_true, Bool.and_eq_true, decide_eq_true_eq, beq_iff_eq]
        split <;> (try split) <;> (try split) <;> (try split) <;> omega
      · -- negative
        by_cases hf0 : f = 0
        · subst hf0
          have e : d.int = (-(q : Int)) * p + (0 : Nat) := by rw [hint, hn]; simp [sgn]; grind
          rw [e, rheInt_div (-(q : Int)) 0 p hp hp]
          apply congrArg (fun z : Int => (z : Rat) / (10 : Rat) ^ dp)
          simp only [sgn_true, Bool.or_eq_true, Bool.and_eq_true, decide_eq_true_eq, beq_iff_eq]
          split <;> (try split) <;> (try split) <;> (try split) <;> omega
        · have e : d.int = (-((q : Int) + 1)) * p + ((p - f : Nat) : Int) := by
            rw [hint, hn]; simp [sgn]
            have : ((p - f : Nat) : Int) = (p : Int) - f := by omega
            rw [this]; grind
          rw [e, rheInt_div (-((q : Int) + 1)) (p - f) p hp (by omega)]
          apply congrArg (fun z : Int => (z : Rat) / (10 : Rat) ^ dp)
          simp only [sgn_true, Bool.or_eq_true, Bool.and_eq_true, decide_eq_true_eq, beq_iff_eq]
          split <;> (try split) <;> (try split) <;> (try split) <;> omega


/-! ## comparison on values -/

theorem val_aligned' (d : D96) (s : Nat) (h : d.scale ≤ s) :
    val d = ((d.int * 10 ^ (s - d.scale) : Int) : Rat) / (10 : Rat) ^ s := by
  have := val_of_int_scaled d (s - d.scale)
  have e : d.scale + (s - d.scale) = s := by omega
  rw [e] at this; exact this

theorem div_pow_lt_iff (x y : Int) (s : Nat) : (x : Rat) / (10 : Rat) ^ s < (y : Rat) / (10 : Rat) ^ s ↔ x < y := by
  have hp := pow10_pos s
  have hne := pow10_ne_zero s
  rw [Rat.div_lt_iff hp]
  have : (y : Rat) / 10 ^ s * 10 ^ s = y := by grind
  rw [this]
  exact Rat.intCast_lt_intCast

theorem div_pow_eq_iff (x y : Int) (s : Nat) : (x : Rat) / (10 : Rat) ^ s = (y : Rat) / (10 : Rat) ^ s ↔ x = y := by
  constructor
  · intro h
    have hne := pow10_ne_zero s
    have : (x : Rat) = y := by grind
    exact_mod_cast this
  · intro h; rw [h]

/-- **`cmp`, `==`, `<` on `Decimal` are those of the values** (so `1.0 == 1.00`, `-0 == 0`) -/
theorem cmpImpl_val (a b : D96) (ha : a.wf) (hb : b.wf) :
    (cmpImpl a b = .lt ↔ val a < val b) ∧ (cmpImpl a b = .eq ↔ val a = val b) ∧ (cmpImpl a b = .gt ↔ val b < val a) ∧
    (decEq a b = true ↔ val a = val b) := by
  rw [cmpImpl_eq_cmpAligned a b ha hb]
  have hva := val_aligned' a (max a.scale b.scale) (by omega)
  have hvb := val_aligned' b (max a.scale b.scale) (by omega)
  have hdec : decEq a b = true ↔ cmpAligned a b = .eq := by
    unfold decEq; rw [cmpImpl_eq_cmpAligned a b ha hb]; simp
  rw [hdec]
  unfold cmpAligned
  rw [hva, hvb, div_pow_lt_iff, div_pow_lt_iff, div_pow_eq_iff]
  generalize a.int * 10 ^ (max a.scale b.scale - a.scale) = X
  generalize b.int * 10 ^ (max a.scale b.scale - b.scale) = Y
  exact ⟨Int.compare_eq_lt, Int.compare_eq_eq, Int.compare_eq_gt, Int.compare_eq_eq⟩


/-! ## `rescale` upwards never changes the value -/

/-- `Decimal::rescale(n)` with `n ≥ scale` (the only direction okane uses: `max(v.scale(), precision)`): the value is kept
whatever happens; the scale reached is `n` if the mantissa allows it and the largest possible one otherwise. -/
theorem rescale_up_val (d : D96) (n : Nat) (h : d.scale ≤ n) (hn : n ≤ 28) :
    val (rescale d n) = val d ∧ d.scale ≤ (rescale d n).scale ∧ (rescale d n).scale ≤ n ∧ (rescale d n).neg = d.neg := by
  unfold rescale
  by_cases he : d.scale = n
  · rw [if_pos he]; exact ⟨rfl, Nat.le_refl _, by omega, rfl⟩
  · rw [if_neg he]
    by_cases h0 : d.mant = 0
    · rw [if_pos h0]
      refine ⟨?_, ?_, ?_, rfl⟩
      · rw [val_of_mant_zero d h0]; exact val_of_mant_zero _ rfl
      · show d.scale ≤ min n 28; omega
      · show min n 28 ≤ n; omega
    · have hlt : ¬ n < d.scale := by omega
      rw [if_neg h0, if_neg hlt]
      obtain ⟨j, hj, hs, _, _⟩ := scaleUp_spec (n - d.scale) d.mant h0
      rw [hs]
      refine ⟨?_, ?_, ?_, rfl⟩
      · apply val_eq_of_aligned _ d (d.scale + j)
        · show n - (n - d.scale - j) ≤ d.scale + j; omega
        · omega
        · show D96.int ⟨d.neg, d.mant * 10 ^ j, n - (n - d.scale - j)⟩ * 10 ^ (d.scale + j - (n - (n - d.scale - j)))
              = d.int * 10 ^ (d.scale + j - d.scale)
          have e1 : d.scale + j - (n - (n - d.scale - j)) = 0 := by omega
          have e2 : d.scale + j - d.scale = j := by omega
          rw [e1, e2]
          unfold D96.int
          simp only [Int.pow_zero, Int.mul_one, Int.natCast_mul, Int.natCast_pow]
          rw [Int.mul_assoc]; rfl
      · show d.scale ≤ n - (n - d.scale - j); omega
      · show n - (n - d.scale - j) ≤ n; omega

end Okane.Dec96
