import Okane.Lemmas.Book
import Okane.Spec.Book
/-! # Relating the book-keeping loop to the Spec predicates -/
set_option linter.unusedSectionVars false
namespace Okane
variable {α κ : Type} [DecidableEq α] [DecidableEq κ]
open Spec

/-- the model's balance delta of an amount posting is the spec's balancing value -/
theorem balanceAmount_eq_spec (ra : RAmount κ) : ra.balanceAmount = Spec.balancingValue ra := by
  cases ra with
  | plain a => rfl
  | priced s cost lot =>
    cases lot with
    | some l =>
      cases l <;> simp [RAmount.balanceAmount, Spec.balancingValue, Option.orElse, RExchange.exchange,
        Spec.exchangeValue, SingleAmount.mul, SingleAmount.withSignOf_eq]
    | none =>
      cases cost with
      | some c =>
        cases c <;> simp [RAmount.balanceAmount, Spec.balancingValue, Option.orElse, RExchange.exchange,
          Spec.exchangeValue, SingleAmount.mul, SingleAmount.withSignOf_eq]
      | none => simp [RAmount.balanceAmount, Spec.balancingValue, Option.orElse]

/-- how posting `p`, its emitted posting and its delta relate -/
def StepRel (p : RPosting α κ) (out : OutPosting α κ) (d : PostingAmt κ) : Prop :=
  out.account = p.account ∧
  match p.amount, p.balance with
  | some ra, _ => d = ra.balanceAmount ∧ out.amount = ra.postingAmt.toAmount
  | none, none => d = .zero ∧ out.amount = []
  | none, some _ => d.toAmount = out.amount

theorem stepPosting_rel (date : Date) (st st' : TxnState α κ) (idx : Nat) (p : RPosting α κ)
    (h : stepPosting date st idx p = .ok st') :
    ∃ out d, st'.postings = st.postings ++ [out] ∧ st'.deltas = st.deltas ++ [d] ∧ StepRel p out d := by
  cases ha : p.amount with
  | some ra =>
    rw [stepPosting_amount date st idx p ra ha] at h
    split at h
    · simp at h
    · simp only [Outcome.ok.injEq] at h
      subst h
      exact ⟨_, ra.balanceAmount, rfl, rfl, rfl, by simp [ha]⟩
  | none =>
    cases hb : p.balance with
    | none =>
      rw [stepPosting_omitted date st idx p ha hb] at h
      split at h
      · simp at h
      · simp only [Outcome.ok.injEq] at h
        subst h
        exact ⟨_, .zero, rfl, rfl, rfl, by simp [ha, hb]⟩
    | some x =>
      rw [stepPosting_assign date st idx p x ha hb] at h
      split at h
      · split at h
        · simp only [Outcome.ok.injEq] at h
          subst h
          exact ⟨_, _, rfl, rfl, rfl, by simp [ha, hb]⟩
        all_goals simp at h
      all_goals simp at h

/-- alignment of postings, emitted postings and deltas -/
def Aligned : List (RPosting α κ) → List (OutPosting α κ) → List (PostingAmt κ) → Prop
  | [], [], [] => True
  | p :: ps, o :: os, d :: ds => StepRel p o d ∧ Aligned ps os ds
  | _, _, _ => False

theorem loop_aligned (date : Date) (ps : List (RPosting α κ)) (st st' : TxnState α κ) (idx : Nat)
    (h : loopPostings date st idx ps = .ok st') :
    ∃ outs ds, st'.postings = st.postings ++ outs ∧ st'.deltas = st.deltas ++ ds ∧ Aligned ps outs ds := by
  induction ps generalizing st idx with
  | nil => simp [loopPostings] at h; subst h; exact ⟨[], [], by simp, by simp, trivial⟩
  | cons p ps ih =>
    simp only [loopPostings] at h
    split at h
    · rename_i st1 h1
      obtain ⟨out, d, hp, hd, hrel⟩ := stepPosting_rel date st st1 idx p h1
      obtain ⟨outs, ds, hp2, hd2, hal⟩ := ih st1 (idx + 1) h
      exact ⟨out :: outs, d :: ds, by rw [hp2, hp]; simp, by rw [hd2, hd]; simp, hrel, hal⟩
    all_goals simp at h

/-- under alignment, the sum of deltas is the spec total -/
theorem aligned_total (ps : List (RPosting α κ)) (outs : List (OutPosting α κ)) (ds : List (PostingAmt κ))
    (h : Aligned ps outs ds) (c : κ) :
    deltaSum ds c = Spec.total ps (outs.map (·.amount)) c := by
  induction ps generalizing outs ds with
  | nil =>
    cases outs <;> cases ds <;> simp [Aligned] at h
    simp [Spec.total]
  | cons p ps ih =>
    cases outs with
    | nil => cases ds <;> simp [Aligned] at h
    | cons o os =>
      cases ds with
      | nil => simp [Aligned] at h
      | cons d ds =>
        simp only [Aligned] at h
        obtain ⟨⟨_, hrel⟩, hal⟩ := h
        have ih' := ih os ds hal
        simp only [deltaSum, List.map_cons, List.sum_cons, Spec.total] at ih' ⊢
        rw [ih']
        congr 1
        unfold Spec.contribution
        split at hrel
        · rename_i ra _ ha
          simp only [ha]
          rw [hrel.1, balanceAmount_eq_spec]
        · rename_i ha hb
          simp only [ha, hb]
          rw [hrel.1]; simp [PostingAmt.toAmount]
        · rename_i x ha hb
          simp only [ha, hb]
          rw [hrel]

end Okane
