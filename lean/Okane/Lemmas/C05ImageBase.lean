import Okane.Lemmas.C05ImageComb
import Okane.Lemmas.C05Round
/-!
# Image lemmas for C05, part 3: the hypotheses on the text, trimming, dates

* `TextOK t`: the decidable condition on the TEXT under which the image property is proved
  - `asciiSpaceOnly t`: the only white space (`char::is_whitespace`) in the text is blank, tab, LF, CR — excludes the known
    findings F27 / F28 (white space that Rust's `trim` strips but the parser's `space0` / `space1` do not skip).
  It passes to every suffix of the text (`TextOK.suffix`), hence to the input of every sub-parser.
  (A second condition, "every `(` is followed later in the text by a `)`", was needed while `paren_str` searched for the
  closing parenthesis across line ends; since the transaction code must be closed on its line, a payee such as `(abc` is
  read back as it is printed, `wfPayee` admits it, and the condition is gone.)
* what `trim`, `trim_start`, `trim_end` return;
* `date_image`: a parsed date satisfies `wfDate`.
-/
set_option linter.unusedSimpArgs false
set_option linter.unusedVariables false
namespace Okane.C05Image
open Okane Okane.Comb Okane.Parse Okane.Unparse

/-! ## the hypotheses on the text -/

/-- a character that is not white space, or is one of the four white-space characters the grammar knows -/
def okWs (c : Char) : Bool := !isRustWhitespace c || c == ' ' || c == '\t' || c == '\n' || c == '\r'

/-- no white space other than blank, tab, LF, CR -/
def asciiSpaceOnly (t : List Char) : Bool := t.all okWs

/-- the hypothesis on the text (decidable) -/
structure TextOK (t : List Char) : Prop where
  ws : asciiSpaceOnly t = true

instance (t : List Char) : Decidable (TextOK t) :=
  if h : asciiSpaceOnly t = true then isTrue ⟨h⟩ else isFalse fun ⟨a⟩ => h a

theorem textOK_iff (t : List Char) : TextOK t ↔ asciiSpaceOnly t = true := ⟨fun h => h.ws, fun h => ⟨h⟩⟩

theorem TextOK.suffix {t r : List Char} (h : TextOK t) (hs : r <:+ t) : TextOK r := by
  obtain ⟨a, rfl⟩ := hs
  refine ⟨?_⟩
  have := h.ws
  simp only [asciiSpaceOnly, List.all_append, Bool.and_eq_true] at this ⊢
  exact this.2

theorem TextOK.mem {t : List Char} (h : TextOK t) {c : Char} (hc : c ∈ t) : okWs c = true := by
  have := h.ws
  simp only [asciiSpaceOnly, List.all_eq_true] at this
  exact this c hc

/-- under `asciiSpaceOnly`, a white-space character that is not a line end is a blank or a tab -/
theorem okWs_space {c : Char} (h : okWs c = true) (hw : isRustWhitespace c = true) (he : isEol c = false) : isSpace c = true := by
  simp only [okWs, hw, Bool.not_true, Bool.false_or, Bool.or_eq_true, beq_iff_eq] at h
  simp only [isEol, Bool.or_eq_false_iff, beq_eq_false_iff_ne] at he
  rcases h with ((h | h) | h) | h
  · simp [isSpace, h]
  · simp [isSpace, h]
  · exact absurd h he.2
  · exact absurd h he.1

/-! ## trimming -/

theorem dropWhile_head_not (p : Char → Bool) (l : List Char) : ∀ c t, l.dropWhile p = c :: t → p c = false :=
  dropWhile_Stop p l

theorem trimEnd_split (s : List Char) : ∃ ws, s = trimEnd s ++ ws ∧ ∀ c ∈ ws, isRustWhitespace c = true := by
  refine ⟨(s.reverse.takeWhile isRustWhitespace).reverse, ?_, ?_⟩
  · have := List.takeWhile_append_dropWhile (p := isRustWhitespace) (l := s.reverse)
    have h2 := congrArg List.reverse this
    simp only [List.reverse_append, List.reverse_reverse] at h2
    exact h2.symm
  · intro c hc
    exact mem_takeWhile (List.mem_reverse.mp hc)

theorem trimEnd_endTrimmed (s : List Char) : endTrimmed (trimEnd s) = true := by
  unfold endTrimmed trimEnd
  rw [List.getLast?_reverse]
  cases h : s.reverse.dropWhile isRustWhitespace with
  | nil => rfl
  | cons c t => simp [dropWhile_head_not _ _ c t h]

theorem trimStart_split (s : List Char) : ∃ ws, s = ws ++ trimStart s ∧ ∀ c ∈ ws, isRustWhitespace c = true :=
  ⟨s.takeWhile isRustWhitespace, (List.takeWhile_append_dropWhile).symm, fun c hc => mem_takeWhile hc⟩

theorem trimStart_startTrimmed (s : List Char) : startTrimmed (trimStart s) = true := by
  unfold startTrimmed trimStart
  cases h : s.dropWhile isRustWhitespace with
  | nil => rfl
  | cons c t => simp [dropWhile_head_not _ _ c t h]

theorem mem_trimEnd {s : List Char} {c : Char} (h : c ∈ trimEnd s) : c ∈ s := by
  obtain ⟨ws, hs, _⟩ := trimEnd_split s
  rw [hs]; exact List.mem_append_left _ h

theorem mem_trimStart {s : List Char} {c : Char} (h : c ∈ trimStart s) : c ∈ s := by
  obtain ⟨ws, hs, _⟩ := trimStart_split s
  rw [hs]; exact List.mem_append_right _ h

theorem mem_trim {s : List Char} {c : Char} (h : c ∈ trim s) : c ∈ s := mem_trimStart (mem_trimEnd h)

/-- the head of `trim_end s` is the head of `s` -/
theorem trimEnd_head {s : List Char} {c : Char} {t : List Char} (h : trimEnd s = c :: t) : ∃ t', s = c :: t' := by
  obtain ⟨ws, hs, _⟩ := trimEnd_split s
  rw [h] at hs
  exact ⟨t ++ ws, by simpa using hs⟩

theorem trimEnd_startTrimmed {s : List Char} (h : startTrimmed s = true) : startTrimmed (trimEnd s) = true := by
  cases ht : trimEnd s with
  | nil => rfl
  | cons c t =>
    obtain ⟨t', rfl⟩ := trimEnd_head ht
    simpa [startTrimmed] using h

theorem trimEnd_notBlankStart {s : List Char} (h : Stop isSpace s) : notBlankStart (trimEnd s) = true := by
  cases ht : trimEnd s with
  | nil => rfl
  | cons c t =>
    obtain ⟨t', rfl⟩ := trimEnd_head ht
    simpa [notBlankStart] using h c t' rfl

theorem noEol_of_forall {s : List Char} (h : ∀ c ∈ s, isEol c = false) : noEol s = true := by
  simp only [noEol, List.all_eq_true]
  intro c hc; simp [h c hc]

theorem trim_wfMetaText {x : List Char} (h : ∀ c ∈ x, isEol c = false) : wfMetaText (trim x) = true := by
  simp only [wfMetaText, Bool.and_eq_true]
  refine ⟨⟨noEol_of_forall (fun c hc => h c (mem_trim hc)), ?_⟩, trimEnd_endTrimmed _⟩
  exact trimEnd_startTrimmed (trimStart_startTrimmed x)

/-- a rest-of-line field: `trim_end` of a line that does not begin with a blank -/
theorem trimEnd_wfRestOfLine {l : List Char} (h : ∀ c ∈ l, isEol c = false) (hs : Stop isSpace l) :
    wfRestOfLine (trimEnd l) = true := by
  simp only [wfRestOfLine, Bool.and_eq_true]
  exact ⟨⟨noEol_of_forall (fun c hc => h c (mem_trimEnd hc)), trimEnd_notBlankStart hs⟩, trimEnd_endTrimmed _⟩

/-- under `asciiSpaceOnly`, what `trim_end` strips from a line are blanks and tabs -/
theorem trimEnd_split_space {l : List Char} (hok : ∀ c ∈ l, okWs c = true) (h : ∀ c ∈ l, isEol c = false) :
    ∃ ws, l = trimEnd l ++ ws ∧ ∀ c ∈ ws, isSpace c = true := by
  obtain ⟨ws, hs, hws⟩ := trimEnd_split l
  refine ⟨ws, hs, ?_⟩
  intro c hc
  have hcl : c ∈ l := by rw [hs]; exact List.mem_append_right _ hc
  exact okWs_space (hok c hcl) (hws c hc) (h c hcl)

/-! ## dates -/

theorem isDigit_val {c : Char} (h : c.isDigit = true) : c.toNat - 48 ≤ 9 := by
  simp only [Char.isDigit, Bool.and_eq_true, decide_eq_true_eq] at h
  have h2 : c.val.toNat ≤ 57 := h.2
  show c.val.toNat - 48 ≤ 9
  omega

theorem digitsVal_lt : ∀ (ds : List Char) (n : Nat), (∀ c ∈ ds, c.isDigit = true) →
    ds.foldl (fun n c => n * 10 + (c.toNat - 48)) n < (n + 1) * 10 ^ ds.length := by
  intro ds
  induction ds with
  | nil => intro n _; simp
  | cons c t ih =>
    intro n h
    have hc := isDigit_val (h c (by simp))
    have := ih (n * 10 + (c.toNat - 48)) (fun d hd => h d (by simp [hd]))
    simp only [List.foldl_cons, List.length_cons]
    calc _ < (n * 10 + (c.toNat - 48) + 1) * 10 ^ t.length := this
      _ ≤ ((n + 1) * 10) * 10 ^ t.length := Nat.mul_le_mul_right _ (by omega)
      _ = (n + 1) * 10 ^ (t.length + 1) := by rw [Nat.pow_succ, Nat.mul_assoc, Nat.mul_comm 10]

theorem dateShape_digits {sep : Char} {i r : List Char} {y m d : List Char} (h : dateShape sep i = .ok (y, m, d) r) :
    ∀ c ∈ y, c.isDigit = true := by
  simp only [dateShape, bind_ok_iff, pure_ok_iff] at h
  obtain ⟨y', r1, hy, _, r2, _, m', r3, _, _, r4, _, d', r5, _, he, _⟩ := h
  simp only [Prod.mk.injEq] at he
  obtain ⟨rfl, _, _⟩ := he
  exact (takeWhile1_ok hy).2.2.1

/-- **image of `primitive::date`** -/
theorem date_image {i r : List Char} {d : Date} (h : date i = .ok d r) : wfDate d = true := by
  obtain ⟨⟨y, m, dd⟩, hs, hf⟩ := tryMap_ok_iff.1 h
  have hy : ∀ c ∈ y, c.isDigit = true := by
    rcases alt2_ok_iff.1 hs with h1 | ⟨_, h1⟩
    · exact dateShape_digits h1
    · exact dateShape_digits h1
  simp only [dateOf] at hf
  split at hf
  · rename_i hlen
    split at hf
    · rename_i hv
      cases hf
      have hlt := digitsVal_lt y 0 hy
      have hpow : 10 ^ y.length ≤ 10 ^ 4 := Nat.pow_le_pow_right (by decide) hlen.1
      have hb : List.foldl (fun n c => n * 10 + (c.toNat - 48)) 0 y ≤ 9999 := by omega
      unfold wfDate
      refine Bool.and_eq_true_iff.2 ⟨Bool.and_eq_true_iff.2 ⟨hv, decide_eq_true ?_⟩, decide_eq_true ?_⟩
      · exact Int.natCast_nonneg _
      · show ((digitsVal y : Nat) : Int) ≤ 9999
        unfold digitsVal
        omega
    · cases hf
  · cases hf

example : date "2024/02/29 x".toList = .ok ⟨2024, 2, 29⟩ " x".toList := by decide +kernel

end Okane.C05Image
