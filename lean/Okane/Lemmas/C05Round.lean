import Okane.Lemmas.C05Comb
/-!
# Round-trip lemmas for C05, construct by construct: `parser (printed ++ rest) = ok tree rest`
-/
set_option linter.unusedSimpArgs false
namespace Okane.Unparse
open Okane Okane.Comb Okane.Parse

/-! ## trimming and character-class facts -/

theorem trimEnd_eq {s : List Char} (h : endTrimmed s = true) : trimEnd s = s := by
  unfold trimEnd
  unfold endTrimmed at h
  rw [List.getLast?_eq_head?_reverse] at h
  cases hr : s.reverse with
  | nil => simp [List.reverse_eq_nil_iff.mp hr]
  | cons c t =>
    rw [hr] at h
    simp at h
    simp [List.dropWhile, h]
    have := congrArg List.reverse hr
    simp at this
    exact this.symm

theorem trimStart_eq {s : List Char} (h : startTrimmed s = true) : trimStart s = s := by
  cases s with
  | nil => rfl
  | cons c t =>
    simp [startTrimmed] at h
    simp [trimStart, List.dropWhile, h]

theorem trim_eq {s : List Char} (h1 : startTrimmed s = true) (h2 : endTrimmed s = true) : trim s = s := by
  simp [trim, trimStart_eq h1, trimEnd_eq h2]

theorem stop_space_of_notBlankStart {s : List Char} (h : notBlankStart s = true) (r : List Char) :
    Stop isSpace (s ++ '\n' :: r) := by
  cases s with
  | nil => simp [isSpace]
  | cons c t => simpa [notBlankStart] using h

theorem noEol_mem {s : List Char} (h : noEol s = true) : ∀ c ∈ s, isEol c = false := by
  intro c hc
  simp [noEol, List.all_eq_true] at h
  simpa using h c hc

@[simp] theorem lineEndingOrEof_nl (r : List Char) : lineEndingOrEof ('\n' :: r) = .ok () r := rfl

/-! ## rest-of-line fields -/

/-- `restOfLine` once its prefix parser has run -/
theorem restOfLine_rt {α : Type} {pfx : Parser α} {inp s r : List Char} {x : α}
    (hp : pfx inp = .ok x (s ++ '\n' :: r)) (hs : wfRestOfLine s = true) :
    restOfLine pfx inp = .ok (String.ofList s) r := by
  simp [wfRestOfLine] at hs
  obtain ⟨⟨h1, _⟩, h3⟩ := hs
  simp [restOfLine, hp, tillLineEnding_nl (noEol_mem h1), trimEnd_eq h3]

/-- `(literal(kw), space1)` on `kw ++ " " ++ rest` -/
theorem kw_space1 (kw rest : List Char) (h : Stop isSpace rest) :
    pair (literal kw) space1 (kw ++ ' ' :: rest) = .ok (kw, [' ']) rest := by
  have := space1_append (a := [' ']) (rest := rest) (by simp) (by simp [isSpace]) h
  simp at this
  simp [literal_append, this]

/-! ## include -/

theorem include_rt (w : List Char → Nat) (p : String) (h : wfRestOfLine p.toList = true) (rest : List Char) :
    includeDirective (printEntry w (.include p) ++ rest) = .ok (.include p) rest := by
  have hs := h
  simp [wfRestOfLine] at hs
  have h1 := kw_space1 kwInclude (p.toList ++ '\n' :: rest) (stop_space_of_notBlankStart hs.1.2 rest)
  have h2 := restOfLine_rt h1 h
  simp [includeDirective, printEntry, h2]

/-! ## end apply tag -/

theorem endApplyTag_rt (w : List Char → Nat) (rest : List Char) :
    endApplyTag (printEntry w .endApplyTag ++ rest) = .ok .endApplyTag rest := by
  have hs : Stop isSpace (kwApply ++ ' ' :: (kwTag ++ '\n' :: rest)) := by simp [kwApply, isSpace]
  have ht : Stop isSpace (kwTag ++ '\n' :: rest) := by simp [kwTag, isSpace]
  have h1 := space1_append (a := [' ']) (by simp) (by simp [isSpace]) hs
  have h2 := space1_append (a := [' ']) (by simp) (by simp [isSpace]) ht
  have h3 : space0 ('\n' :: rest) = .ok [] ('\n' :: rest) := space0_stop (by simp [isSpace])
  simp at h1 h2
  simp [endApplyTag, printEntry, take, withTaken, literal_append, h1, h2, h3]

/-! ## tags, metadata values, apply tag -/

theorem tagKey_rt {k X : List Char} (hk : wfTag k = true)
    (hX : ∀ c r, X = c :: r → (isAsciiWhitespace c || c == ':') = true) : tagKey (k ++ X) = .ok k X := by
  simp [wfTag, List.all_eq_true, isTagChar] at hk
  apply takeTill1_append
  · intro h; simp [h] at hk
  · intro c hc; have := hk.2 c hc; simp [this]
  · exact hX

theorem trim_blank_cons {t : List Char} (h1 : startTrimmed t = true) (h2 : endTrimmed t = true) :
    trim (' ' :: t) = t := by
  have : trimStart (' ' :: t) = trimStart t := by simp [trimStart, List.dropWhile, isRustWhitespace]
  simp [trim, this, trimStart_eq h1, trimEnd_eq h2]

theorem metadataValue_rt (v : MetaValue) (h : wfMetaValue v = true) (r : List Char) :
    metadataValue (printMetaValue v ++ '\n' :: r) = .ok v ('\n' :: r) := by
  cases v with
  | text t =>
    simp [wfMetaValue, wfMetaText] at h
    obtain ⟨⟨h1, h2⟩, h3⟩ := h
    have hl : tillLineEnding (' ' :: t.toList ++ '\n' :: r) = .ok (' ' :: t.toList) ('\n' :: r) :=
      tillLineEnding_nl (a := ' ' :: t.toList) (by
        intro c hc
        rcases List.mem_cons.mp hc with rfl | hc
        · simp [isEol]
        · exact noEol_mem h1 c hc) r
    simp at hl
    simp [metadataValue, printMetaValue, alt2, literal, hl, trim_blank_cons h2 h3]
  | expr t =>
    simp [wfMetaValue, wfMetaText] at h
    obtain ⟨⟨h1, h2⟩, h3⟩ := h
    have hl : tillLineEnding (' ' :: t.toList ++ '\n' :: r) = .ok (' ' :: t.toList) ('\n' :: r) :=
      tillLineEnding_nl (a := ' ' :: t.toList) (by
        intro c hc
        rcases List.mem_cons.mp hc with rfl | hc
        · simp [isEol]
        · exact noEol_mem h1 c hc) r
    simp at hl
    have hlit := literal_append [':', ':'] (' ' :: (t.toList ++ '\n' :: r))
    simp at hlit
    simp [metadataValue, printMetaValue, alt2, hlit, hl, trim_blank_cons h2 h3]

theorem metadataValue_nl (r : List Char) : metadataValue ('\n' :: r) = .bt ('\n' :: r) := by
  simp [metadataValue, alt2, literal, char_cons_ne]

theorem applyTag_rt (w : List Char → Nat) (k : String) (v : Option MetaValue) (hk : wfTag k.toList = true)
    (hv : ∀ x, v = some x → wfMetaValue x = true) (rest : List Char) :
    applyTag (printEntry w (.applyTag k v) ++ rest) = .ok (.applyTag k v) rest := by
  have hk' := hk
  have hne : k.toList ≠ [] := by intro h; simp [wfTag, h] at hk
  simp [wfTag, List.all_eq_true, isTagChar] at hk'
  have hkstop : ∀ X, Stop isSpace (k.toList ++ X) := by
    intro X
    cases hkl : k.toList with
    | nil => exact absurd hkl hne
    | cons c t =>
      have := hk'.2 c (by simp [hkl])
      simp [isAsciiWhitespace] at this
      simp [isSpace, this]
  have hs2 := fun X => space1_append (a := [' ']) (by simp) (by simp [isSpace]) (hkstop X)
  have hs1 := fun X => space1_append (a := [' ']) (rest := kwTag ++ X) (by simp) (by simp [isSpace]) (by simp [kwTag, isSpace])
  simp at hs1 hs2
  cases v with
  | none =>
    have htk := tagKey_rt (X := '\n' :: rest) hk (by intro c r e; cases e; simp [isAsciiWhitespace])
    have h3 : space0 ('\n' :: rest) = .ok [] ('\n' :: rest) := space0_stop (by simp [isSpace])
    simp [applyTag, printEntry, literal_append, hs1, hs2, htk, h3, opt, metadataValue_nl]
  | some x =>
    have hx := hv x rfl
    have hX : ∀ c r, printMetaValue x ++ '\n' :: rest = c :: r → (isAsciiWhitespace c || c == ':') = true := by
      intro c r e
      cases x <;> simp [printMetaValue] at e <;> simp [← e.1]
    have htk := tagKey_rt (X := printMetaValue x ++ '\n' :: rest) hk hX
    have h3 : space0 (printMetaValue x ++ '\n' :: rest) = .ok [] (printMetaValue x ++ '\n' :: rest) :=
      space0_stop (by cases x <;> simp [printMetaValue, isSpace])
    simp [applyTag, printEntry, literal_append, hs1, hs2, htk, h3, opt, metadataValue_rt x hx]

/-! ## repetition over printed lists; multi-line text -/

/-- `repeat0Loop` over the printed forms of a list of items -/
theorem repeat0Loop_list {α : Type} {p : Parser α} {pr : α → List Char} (F : List Char → Prop) (rest z : List Char)
    (hstop : p rest = .bt z) (hFrest : F rest) :
    ∀ (xs : List α), (∀ x ∈ xs, ∀ X, F X → p (pr x ++ X) = .ok x X) → (∀ x ∈ xs, pr x ≠ []) →
      (∀ x ∈ xs, ∀ X, F (pr x ++ X)) →
      ∀ (n : Nat) (acc : List α), xs.length < n →
        repeat0Loop p n (xs.flatMap pr ++ rest) acc = .ok (acc ++ xs) rest := by
  intro xs
  induction xs with
  | nil =>
    intro _ _ _ n acc hn
    cases n with
    | zero => omega
    | succ n => simp [repeat0Loop_stop hstop]
  | cons x xs ih =>
    intro hstep hne hF n acc hn
    cases n with
    | zero => omega
    | succ n =>
      have hFnext : F (xs.flatMap pr ++ rest) := by
        cases xs with
        | nil => simpa using hFrest
        | cons y ys => simpa [List.append_assoc] using hF y (by simp) (ys.flatMap pr ++ rest)
      have h1 := hstep x (by simp) (xs.flatMap pr ++ rest) hFnext
      have hlen : (xs.flatMap pr ++ rest).length < (pr x ++ (xs.flatMap pr ++ rest)).length := by
        have : (pr x).length > 0 := List.length_pos_iff.mpr (hne x (by simp))
        simp; omega
      have := repeat0Loop_step (n := n) (acc := acc) h1 hlen
      simp only [List.flatMap_cons, List.append_assoc]
      rw [this, ih (fun y hy => hstep y (by simp [hy])) (fun y hy => hne y (by simp [hy]))
        (fun y hy => hF y (by simp [hy])) n (acc ++ [x]) (by simp at hn; omega)]
      simp

theorem splitLines_lines : ∀ (s cur : List Char) (ls : List (List Char)), splitLines s cur = some ls →
    (∀ l ∈ ls, ∀ c ∈ l, c ≠ '\r') → linesAux s cur = ls ∧ cur.reverse ++ s = ls.flatMap (· ++ ['\n']) := by
  intro s
  induction s with
  | nil =>
    intro cur ls h _
    cases cur with
    | nil => simp [splitLines] at h; subst h; simp [linesAux]
    | cons c t => simp [splitLines] at h
  | cons c r ih =>
    intro cur ls h hno
    by_cases hc : c = '\n'
    · subst hc
      simp [splitLines] at h
      obtain ⟨ls', h1, h2⟩ := h
      subst h2
      have hr := ih [] ls' h1 (fun l hl => hno l (by simp [hl]))
      have hcur : ∀ c ∈ cur, c ≠ '\r' := by
        intro c hc'; exact hno cur.reverse (by simp) c (by simp [hc'])
      have hl : stripCr cur = cur := by
        cases cur with
        | nil => rfl
        | cons d t =>
          have : d ≠ '\r' := hcur d (by simp)
          simp [stripCr, this]
      simp [linesAux, hl, hr.1]
      have := hr.2; simp at this; simp [this]
    · have h' : splitLines (c :: r) cur = splitLines r (c :: cur) := by
        simp [splitLines, hc]
      rw [h'] at h
      have hr := ih (c :: cur) ls h hno
      have hl' : linesAux (c :: r) cur = linesAux r (c :: cur) := by
        simp [linesAux, hc]
      rw [hl']
      refine ⟨hr.1, ?_⟩
      have := hr.2; simpa using this


theorem splitLines_noNl : ∀ (s cur : List Char) (ls : List (List Char)), splitLines s cur = some ls →
    (∀ c ∈ cur, c ≠ '\n') → ∀ l ∈ ls, ∀ c ∈ l, c ≠ '\n' := by
  intro s
  induction s with
  | nil =>
    intro cur ls h _
    cases cur with
    | nil => simp [splitLines] at h; subst h; simp
    | cons c t => simp [splitLines] at h
  | cons c r ih =>
    intro cur ls h hcur
    by_cases hc : c = '\n'
    · subst hc
      simp [splitLines] at h
      obtain ⟨ls', h1, h2⟩ := h
      subst h2
      intro l hl
      rcases List.mem_cons.mp hl with rfl | hl
      · intro c hc; exact hcur c (by simpa using hc)
      · exact ih [] ls' h1 (by simp) l hl
    · have h' : splitLines (c :: r) cur = splitLines r (c :: cur) := by
        simp [splitLines, hc]
      rw [h'] at h
      exact ih (c :: cur) ls h (by
        intro d hd
        rcases List.mem_cons.mp hd with rfl | hd
        · exact hc
        · exact hcur d hd)

theorem length_le_flatMap {α : Type} (pr : α → List Char) (xs : List α) (h : ∀ x ∈ xs, pr x ≠ []) :
    xs.length ≤ (xs.flatMap pr).length := by
  induction xs with
  | nil => simp
  | cons a t ih =>
    have h1 : (pr a).length > 0 := List.length_pos_iff.mpr (h a (by simp))
    have h2 := ih (fun y hy => h y (by simp [hy]))
    simp only [List.flatMap_cons, List.length_append, List.length_cons]
    omega

/-- `multiline_text(prefix)` reads back the lines `LineWrapStr` printed -/
theorem multilineText_rt {α : Type} {pfx : Parser α} {P : List Char} {x : α} (startBad : Char → Bool) (s : String)
    (hwf : wfMultiline startBad s.toList = true)
    (hp : ∀ l X, (∀ c r, l = c :: r → startBad c = false) → pfx (P ++ (l ++ '\n' :: X)) = .ok x (l ++ '\n' :: X))
    (hPne : P ≠ []) (rest z : List Char) (hstop : pfx rest = .bt z) :
    multilineText pfx (lineWrap P s ++ rest) = .ok s rest := by
  unfold wfMultiline at hwf
  cases hsp : splitLines s.toList [] with
  | none => simp [hsp] at hwf
  | some ls =>
    simp [hsp, List.all_eq_true] at hwf
    obtain ⟨hne, hall⟩ := hwf
    have hnoCr : ∀ l ∈ ls, ∀ c ∈ l, c ≠ '\r' := fun l hl c hc => (hall l hl).1 c hc
    have hnoNl := splitLines_noNl s.toList [] ls hsp (by simp)
    have hlines := splitLines_lines s.toList [] ls hsp hnoCr
    have hnoEol : ∀ l ∈ ls, ∀ c ∈ l, isEol c = false := by
      intro l hl c hc
      simp [isEol, hnoCr l hl c hc, hnoNl l hl c hc]
    let line : Parser (List Char) := delimited pfx tillLineEnding lineEndingOrEof
    let pr : List Char → List Char := fun l => P ++ (l ++ ['\n'])
    have hline : ∀ l ∈ ls, ∀ X, True → line (pr l ++ X) = .ok l X := by
      intro l hl X _
      have hb : ∀ c r, l = c :: r → startBad c = false := by
        intro c r e; have := (hall l hl).2; subst e; simpa using this
      have h1 := hp l X hb
      simp [line, pr, List.append_assoc] at h1 ⊢
      simp [h1, tillLineEnding_nl (hnoEol l hl)]
    have hlstop : line rest = .bt z := by simp [line, hstop]
    have hlw : lineWrap P s = ls.flatMap pr := by
      simp [lineWrap, lines, hlines.1, pr]
    cases ls with
    | nil => simp at hne
    | cons l0 ls' =>
      have h0 := hline l0 (by simp) (ls'.flatMap pr ++ rest) trivial
      have hrest := repeat0Loop_list (p := line) (pr := pr) (fun _ => True) rest z hlstop trivial ls'
        (fun y hy => hline y (by simp [hy])) (fun y _ => by simp [pr, hPne]) (fun _ _ _ => trivial)
        ((ls'.flatMap pr ++ rest).length + 1) [l0] (by
          have := length_le_flatMap pr ls' (fun y _ => by simp [pr, hPne])
          rw [List.length_append]; omega)
      have hs : s = String.ofList ((l0 :: ls').flatMap (· ++ ['\n'])) := by
        have := hlines.2; simp at this
        rw [← String.ofList_toList (s := s)]; simp [this]
      simp only [multilineText, map_apply, hlw, List.flatMap_cons, List.append_assoc, repeat1]
      rw [show line = delimited pfx tillLineEnding lineEndingOrEof from rfl] at h0 hrest
      rw [h0]
      simp only [hrest]
      simp [hs]

end Okane.Unparse
