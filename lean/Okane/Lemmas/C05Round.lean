import Okane.Lemmas.C05Comb
/-!
# Round-trip lemmas for C05, construct by construct: `parser (printed ++ rest) = ok tree rest`
-/
set_option linter.unusedSimpArgs false
namespace Okane.Unparse
open Okane Okane.Comb Okane.Parse

/-! ## trimming and character-class facts -/

theorem trimEnd_eq {s : List Char} (h : endTrimmed s = true) : trimEnd s = s := by
  unfold trimEnd
  unfold endTrimmed at h
  rw [List.getLast?_eq_head?_reverse] at h
  cases hr : s.reverse with
  | nil => simp [List.reverse_eq_nil_iff.mp hr]
  | cons c t =>
    rw [hr] at h
    simp at h
    simp [List.dropWhile, h]
    have := congrArg List.reverse hr
    simp at this
    exact this.symm

theorem trimStart_eq {s : List Char} (h : startTrimmed s = true) : trimStart s = s := by
  cases s with
  | nil => rfl
  | cons c t =>
    simp [startTrimmed] at h
    simp [trimStart, List.dropWhile, h]

theorem trim_eq {s : List Char} (h1 : startTrimmed s = true) (h2 : endTrimmed s = true) : trim s = s := by
  simp [trim, trimStart_eq h1, trimEnd_eq h2]

theorem stop_space_of_notBlankStart {s : List Char} (h : notBlankStart s = true) (r : List Char) :
    Stop isSpace (s ++ '\n' :: r) := by
  cases s with
  | nil => simp [isSpace]
  | cons c t => simpa [notBlankStart] using h

theorem noEol_mem {s : List Char} (h : noEol s = true) : ∀ c ∈ s, isEol c = false := by
  intro c hc
  simp [noEol, List.all_eq_true] at h
  simpa using h c hc

@[simp] theorem lineEndingOrEof_nl (r : List Char) : lineEndingOrEof ('\n' :: r) = .ok () r := rfl

/-! ## rest-of-line fields -/

/-- `restOfLine` once its prefix parser has run -/
theorem restOfLine_rt {α : Type} {pfx : Parser α} {inp s r : List Char} {x : α}
    (hp : pfx inp = .ok x (s ++ '\n' :: r)) (hs : wfRestOfLine s = true) :
    restOfLine pfx inp = .ok (String.ofList s) r := by
  simp [wfRestOfLine] at hs
  obtain ⟨⟨h1, _⟩, h3⟩ := hs
  simp [restOfLine, hp, tillLineEnding_nl (noEol_mem h1), trimEnd_eq h3]

/-- `(literal(kw), space1)` on `kw ++ " " ++ rest` -/
theorem kw_space1 (kw rest : List Char) (h : Stop isSpace rest) :
    pair (literal kw) space1 (kw ++ ' ' :: rest) = .ok (kw, [' ']) rest := by
  have := space1_append (a := [' ']) (rest := rest) (by simp) (by simp [isSpace]) h
  simp at this
  simp [literal_append, this]

/-! ## include -/

theorem include_rt (w : List Char → Nat) (p : String) (h : wfRestOfLine p.toList = true) (rest : List Char) :
    includeDirective (printEntry w (.include p) ++ rest) = .ok (.include p) rest := by
  have hs := h
  simp [wfRestOfLine] at hs
  have h1 := kw_space1 kwInclude (p.toList ++ '\n' :: rest) (stop_space_of_notBlankStart hs.1.2 rest)
  have h2 := restOfLine_rt h1 h
  simp [includeDirective, printEntry, h2]

/-! ## end apply tag -/

theorem endApplyTag_rt (w : List Char → Nat) (rest : List Char) :
    endApplyTag (printEntry w .endApplyTag ++ rest) = .ok .endApplyTag rest := by
  have hs : Stop isSpace (kwApply ++ ' ' :: (kwTag ++ '\n' :: rest)) := by simp [kwApply, isSpace]
  have ht : Stop isSpace (kwTag ++ '\n' :: rest) := by simp [kwTag, isSpace]
  have h1 := space1_append (a := [' ']) (by simp) (by simp [isSpace]) hs
  have h2 := space1_append (a := [' ']) (by simp) (by simp [isSpace]) ht
  have h3 : space0 ('\n' :: rest) = .ok [] ('\n' :: rest) := space0_stop (by simp [isSpace])
  simp at h1 h2
  simp [endApplyTag, printEntry, take, withTaken, literal_append, h1, h2, h3]

/-! ## tags, metadata values, apply tag -/

theorem tagKey_rt {k X : List Char} (hk : wfTag k = true)
    (hX : ∀ c r, X = c :: r → (isAsciiWhitespace c || c == ':') = true) : tagKey (k ++ X) = .ok k X := by
  simp [wfTag, List.all_eq_true, isTagChar] at hk
  apply takeTill1_append
  · intro h; simp [h] at hk
  · intro c hc; have := hk.2 c hc; simp [this]
  · exact hX

theorem trim_blank_cons {t : List Char} (h1 : startTrimmed t = true) (h2 : endTrimmed t = true) :
    trim (' ' :: t) = t := by
  have : trimStart (' ' :: t) = trimStart t := by simp [trimStart, List.dropWhile, isRustWhitespace]
  simp [trim, this, trimStart_eq h1, trimEnd_eq h2]

theorem metadataValue_rt (v : MetaValue) (h : wfMetaValue v = true) (r : List Char) :
    metadataValue (printMetaValue v ++ '\n' :: r) = .ok v ('\n' :: r) := by
  cases v with
  | text t =>
    simp [wfMetaValue, wfMetaText] at h
    obtain ⟨⟨h1, h2⟩, h3⟩ := h
    have hl : tillLineEnding (' ' :: t.toList ++ '\n' :: r) = .ok (' ' :: t.toList) ('\n' :: r) :=
      tillLineEnding_nl (a := ' ' :: t.toList) (by
        intro c hc
        rcases List.mem_cons.mp hc with rfl | hc
        · simp [isEol]
        · exact noEol_mem h1 c hc) r
    simp at hl
    simp [metadataValue, printMetaValue, alt2, literal, hl, trim_blank_cons h2 h3]
  | expr t =>
    simp [wfMetaValue, wfMetaText] at h
    obtain ⟨⟨h1, h2⟩, h3⟩ := h
    have hl : tillLineEnding (' ' :: t.toList ++ '\n' :: r) = .ok (' ' :: t.toList) ('\n' :: r) :=
      tillLineEnding_nl (a := ' ' :: t.toList) (by
        intro c hc
        rcases List.mem_cons.mp hc with rfl | hc
        · simp [isEol]
        · exact noEol_mem h1 c hc) r
    simp at hl
    have hlit := literal_append [':', ':'] (' ' :: (t.toList ++ '\n' :: r))
    simp at hlit
    simp [metadataValue, printMetaValue, alt2, hlit, hl, trim_blank_cons h2 h3]

theorem metadataValue_nl (r : List Char) : metadataValue ('\n' :: r) = .bt ('\n' :: r) := by
  simp [metadataValue, alt2, literal, char_cons_ne]

theorem applyTag_rt (w : List Char → Nat) (k : String) (v : Option MetaValue) (hk : wfTag k.toList = true)
    (hv : ∀ x, v = some x → wfMetaValue x = true) (rest : List Char) :
    applyTag (printEntry w (.applyTag k v) ++ rest) = .ok (.applyTag k v) rest := by
  have hk' := hk
  simp [wfTag, List.all_eq_true, isTagChar] at hk'
  have hkstop : ∀ X, Stop isSpace (k.toList ++ X) := by
    intro X
    cases hkl : k.toList with
    | nil => simp [hkl] at hk'
    | cons c t =>
      have := hk'.2 c (by simp [hkl])
      simp [isAsciiWhitespace] at this
      simp [isSpace, this]
  have hs2 := fun X => space1_append (a := [' ']) (by simp) (by simp [isSpace]) (hkstop X)
  have hs1 := fun X => space1_append (a := [' ']) (rest := kwTag ++ X) (by simp) (by simp [isSpace]) (by simp [kwTag, isSpace])
  simp at hs1 hs2
  cases v with
  | none =>
    have htk := tagKey_rt (X := '\n' :: rest) hk (by intro c r e; cases e; simp [isAsciiWhitespace])
    have h3 : space0 ('\n' :: rest) = .ok [] ('\n' :: rest) := space0_stop (by simp [isSpace])
    simp [applyTag, printEntry, literal_append, hs1, hs2, htk, h3, opt, metadataValue_nl]
  | some x =>
    have hx := hv x rfl
    have hX : ∀ c r, printMetaValue x ++ '\n' :: rest = c :: r → (isAsciiWhitespace c || c == ':') = true := by
      intro c r e
      cases x <;> simp [printMetaValue] at e <;> simp [← e.1]
    have htk := tagKey_rt (X := printMetaValue x ++ '\n' :: rest) hk hX
    have h3 : space0 (printMetaValue x ++ '\n' :: rest) = .ok [] (printMetaValue x ++ '\n' :: rest) :=
      space0_stop (by cases x <;> simp [printMetaValue, isSpace])
    simp [applyTag, printEntry, literal_append, hs1, hs2, htk, h3, opt, metadataValue_rt x hx]

end Okane.Unparse
