import Okane.Lemmas.C05Comb
/-!
# Round-trip lemmas for C05, construct by construct: `parser (printed ++ rest) = ok tree rest`
-/
set_option linter.unusedSimpArgs false
namespace Okane.Unparse
open Okane Okane.Comb Okane.Parse

/-! ## trimming and character-class facts -/

theorem trimEnd_eq {s : List Char} (h : endTrimmed s = true) : trimEnd s = s := by
  unfold trimEnd
  unfold endTrimmed at h
  rw [List.getLast?_eq_head?_reverse] at h
  cases hr : s.reverse with
  | nil => simp [List.reverse_eq_nil_iff.mp hr]
  | cons c t =>
    rw [hr] at h
    simp at h
    simp [List.dropWhile, h]
    have := congrArg List.reverse hr
    simp at this
    exact this.symm

theorem trimStart_eq {s : List Char} (h : startTrimmed s = true) : trimStart s = s := by
  cases s with
  | nil => rfl
  | cons c t =>
    simp [startTrimmed] at h
    simp [trimStart, List.dropWhile, h]

theorem trim_eq {s : List Char} (h1 : startTrimmed s = true) (h2 : endTrimmed s = true) : trim s = s := by
  simp [trim, trimStart_eq h1, trimEnd_eq h2]

theorem stop_space_of_notBlankStart {s : List Char} (h : notBlankStart s = true) (r : List Char) :
    Stop isSpace (s ++ '\n' :: r) := by
  cases s with
  | nil => simp [isSpace]
  | cons c t => simpa [notBlankStart] using h

theorem noEol_mem {s : List Char} (h : noEol s = true) : ∀ c ∈ s, isEol c = false := by
  intro c hc
  simp [noEol, List.all_eq_true] at h
  simpa using h c hc

@[simp] theorem lineEndingOrEof_nl (r : List Char) : lineEndingOrEof ('\n' :: r) = .ok () r := rfl

/-! ## rest-of-line fields -/

/-- `restOfLine` once its prefix parser has run -/
theorem restOfLine_rt {α : Type} {pfx : Parser α} {inp s r : List Char} {x : α}
    (hp : pfx inp = .ok x (s ++ '\n' :: r)) (hs : wfRestOfLine s = true) :
    restOfLine pfx inp = .ok (String.ofList s) r := by
  simp [wfRestOfLine] at hs
  obtain ⟨⟨h1, _⟩, h3⟩ := hs
  simp [restOfLine, hp, tillLineEnding_nl (noEol_mem h1), trimEnd_eq h3]

/-- `(literal(kw), space1)` on `kw ++ " " ++ rest` -/
theorem kw_space1 (kw rest : List Char) (h : Stop isSpace rest) :
    pair (literal kw) space1 (kw ++ ' ' :: rest) = .ok (kw, [' ']) rest := by
  have := space1_append (a := [' ']) (rest := rest) (by simp) (by simp [isSpace]) h
  simp at this
  simp [literal_append, this]

/-! ## include -/

theorem include_rt (w : List Char → Nat) (p : String) (h : wfRestOfLine p.toList = true) (rest : List Char) :
    includeDirective (printEntry w (.include p) ++ rest) = .ok (.include p) rest := by
  have hs := h
  simp [wfRestOfLine] at hs
  have h1 := kw_space1 kwInclude (p.toList ++ '\n' :: rest) (stop_space_of_notBlankStart hs.1.2 rest)
  have h2 := restOfLine_rt h1 h
  simp [includeDirective, printEntry, h2]

/-! ## end apply tag -/

theorem endApplyTag_rt (w : List Char → Nat) (rest : List Char) :
    endApplyTag (printEntry w .endApplyTag ++ rest) = .ok .endApplyTag rest := by
  have hs : Stop isSpace (kwApply ++ ' ' :: (kwTag ++ '\n' :: rest)) := by simp [kwApply, isSpace]
  have ht : Stop isSpace (kwTag ++ '\n' :: rest) := by simp [kwTag, isSpace]
  have h1 := space1_append (a := [' ']) (by simp) (by simp [isSpace]) hs
  have h2 := space1_append (a := [' ']) (by simp) (by simp [isSpace]) ht
  have h3 : space0 ('\n' :: rest) = .ok [] ('\n' :: rest) := space0_stop (by simp [isSpace])
  simp at h1 h2
  simp [endApplyTag, printEntry, take, withTaken, literal_append, h1, h2, h3]

/-! ## tags, metadata values, apply tag -/

theorem tagKey_rt {k X : List Char} (hk : wfTag k = true)
    (hX : ∀ c r, X = c :: r → (isAsciiWhitespace c || c == ':') = true) : tagKey (k ++ X) = .ok k X := by
  simp [wfTag, List.all_eq_true, isTagChar] at hk
  apply takeTill1_append
  · intro h; simp [h] at hk
  · intro c hc; have := hk.2 c hc; simp [this]
  · exact hX

theorem trim_blank_cons {t : List Char} (h1 : startTrimmed t = true) (h2 : endTrimmed t = true) :
    trim (' ' :: t) = t := by
  have : trimStart (' ' :: t) = trimStart t := by simp [trimStart, List.dropWhile, isRustWhitespace]
  simp [trim, this, trimStart_eq h1, trimEnd_eq h2]

theorem metadataValue_rt (v : MetaValue) (h : wfMetaValue v = true) (r : List Char) :
    metadataValue (printMetaValue v ++ '\n' :: r) = .ok v ('\n' :: r) := by
  cases v with
  | text t =>
    simp [wfMetaValue, wfMetaText] at h
    obtain ⟨⟨h1, h2⟩, h3⟩ := h
    have hl : tillLineEnding (' ' :: t.toList ++ '\n' :: r) = .ok (' ' :: t.toList) ('\n' :: r) :=
      tillLineEnding_nl (a := ' ' :: t.toList) (by
        intro c hc
        rcases List.mem_cons.mp hc with rfl | hc
        · simp [isEol]
        · exact noEol_mem h1 c hc) r
    simp at hl
    simp [metadataValue, printMetaValue, alt2, literal, hl, trim_blank_cons h2 h3]
  | expr t =>
    simp [wfMetaValue, wfMetaText] at h
    obtain ⟨⟨h1, h2⟩, h3⟩ := h
    have hl : tillLineEnding (' ' :: t.toList ++ '\n' :: r) = .ok (' ' :: t.toList) ('\n' :: r) :=
      tillLineEnding_nl (a := ' ' :: t.toList) (by
        intro c hc
        rcases List.mem_cons.mp hc with rfl | hc
        · simp [isEol]
        · exact noEol_mem h1 c hc) r
    simp at hl
    have hlit := literal_append [':', ':'] (' ' :: (t.toList ++ '\n' :: r))
    simp at hlit
    simp [metadataValue, printMetaValue, alt2, hlit, hl, trim_blank_cons h2 h3]

theorem metadataValue_nl (r : List Char) : metadataValue ('\n' :: r) = .bt ('\n' :: r) := by
  simp [metadataValue, alt2, literal, char_cons_ne]

theorem applyTag_rt (w : List Char → Nat) (k : String) (v : Option MetaValue) (hk : wfTag k.toList = true)
    (hv : ∀ x, v = some x → wfMetaValue x = true) (rest : List Char) :
    applyTag (printEntry w (.applyTag k v) ++ rest) = .ok (.applyTag k v) rest := by
  have hk' := hk
  have hne : k.toList ≠ [] := by intro h; simp [wfTag, h] at hk
  simp [wfTag, List.all_eq_true, isTagChar] at hk'
  have hkstop : ∀ X, Stop isSpace (k.toList ++ X) := by
    intro X
    cases hkl : k.toList with
    | nil => exact absurd hkl hne
    | cons c t =>
      have := hk'.2 c (by simp [hkl])
      simp [isAsciiWhitespace] at this
      simp [isSpace, this]
  have hs2 := fun X => space1_append (a := [' ']) (by simp) (by simp [isSpace]) (hkstop X)
  have hs1 := fun X => space1_append (a := [' ']) (rest := kwTag ++ X) (by simp) (by simp [isSpace]) (by simp [kwTag, isSpace])
  simp at hs1 hs2
  cases v with
  | none =>
    have htk := tagKey_rt (X := '\n' :: rest) hk (by intro c r e; cases e; simp [isAsciiWhitespace])
    have h3 : space0 ('\n' :: rest) = .ok [] ('\n' :: rest) := space0_stop (by simp [isSpace])
    simp [applyTag, printEntry, literal_append, hs1, hs2, htk, h3, opt, metadataValue_nl]
  | some x =>
    have hx := hv x rfl
    have hX : ∀ c r, printMetaValue x ++ '\n' :: rest = c :: r → (isAsciiWhitespace c || c == ':') = true := by
      intro c r e
      cases x <;> simp [printMetaValue] at e <;> simp [← e.1]
    have htk := tagKey_rt (X := printMetaValue x ++ '\n' :: rest) hk hX
    have h3 : space0 (printMetaValue x ++ '\n' :: rest) = .ok [] (printMetaValue x ++ '\n' :: rest) :=
      space0_stop (by cases x <;> simp [printMetaValue, isSpace])
    simp [applyTag, printEntry, literal_append, hs1, hs2, htk, h3, opt, metadataValue_rt x hx]

/-! ## repetition over printed lists; multi-line text -/

/-- `repeat0Loop` over the printed forms of a list of items -/
theorem repeat0Loop_list {α : Type} {p : Parser α} {pr : α → List Char} (F : List Char → Prop) (rest z : List Char)
    (hstop : p rest = .bt z) (hFrest : F rest) :
    ∀ (xs : List α), (∀ x ∈ xs, ∀ X, F X → p (pr x ++ X) = .ok x X) → (∀ x ∈ xs, pr x ≠ []) →
      (∀ x ∈ xs, ∀ X, F (pr x ++ X)) →
      ∀ (n : Nat) (acc : List α), xs.length < n →
        repeat0Loop p n (xs.flatMap pr ++ rest) acc = .ok (acc ++ xs) rest := by
  intro xs
  induction xs with
  | nil =>
    intro _ _ _ n acc hn
    cases n with
    | zero => omega
    | succ n => simp [repeat0Loop_stop hstop]
  | cons x xs ih =>
    intro hstep hne hF n acc hn
    cases n with
    | zero => omega
    | succ n =>
      have hFnext : F (xs.flatMap pr ++ rest) := by
        cases xs with
        | nil => simpa using hFrest
        | cons y ys => simpa [List.append_assoc] using hF y (by simp) (ys.flatMap pr ++ rest)
      have h1 := hstep x (by simp) (xs.flatMap pr ++ rest) hFnext
      have hlen : (xs.flatMap pr ++ rest).length < (pr x ++ (xs.flatMap pr ++ rest)).length := by
        have : (pr x).length > 0 := List.length_pos_iff.mpr (hne x (by simp))
        simp; omega
      have := repeat0Loop_step (n := n) (acc := acc) h1 hlen
      simp only [List.flatMap_cons, List.append_assoc]
      rw [this, ih (fun y hy => hstep y (by simp [hy])) (fun y hy => hne y (by simp [hy]))
        (fun y hy => hF y (by simp [hy])) n (acc ++ [x]) (by simp at hn; omega)]
      simp

theorem splitLines_lines : ∀ (s cur : List Char) (ls : List (List Char)), splitLines s cur = some ls →
    (∀ l ∈ ls, ∀ c ∈ l, c ≠ '\r') → linesAux s cur = ls ∧ cur.reverse ++ s = ls.flatMap (· ++ ['\n']) := by
  intro s
  induction s with
  | nil =>
    intro cur ls h _
    cases cur with
    | nil => simp [splitLines] at h; subst h; simp [linesAux]
    | cons c t => simp [splitLines] at h
  | cons c r ih =>
    intro cur ls h hno
    by_cases hc : c = '\n'
    · subst hc
      simp [splitLines] at h
      obtain ⟨ls', h1, h2⟩ := h
      subst h2
      have hr := ih [] ls' h1 (fun l hl => hno l (by simp [hl]))
      have hcur : ∀ c ∈ cur, c ≠ '\r' := by
        intro c hc'; exact hno cur.reverse (by simp) c (by simp [hc'])
      have hl : stripCr cur = cur := by
        cases cur with
        | nil => rfl
        | cons d t =>
          have : d ≠ '\r' := hcur d (by simp)
          simp [stripCr, this]
      simp [linesAux, hl, hr.1]
      have := hr.2; simp at this; simp [this]
    · have h' : splitLines (c :: r) cur = splitLines r (c :: cur) := by
        simp [splitLines, hc]
      rw [h'] at h
      have hr := ih (c :: cur) ls h hno
      have hl' : linesAux (c :: r) cur = linesAux r (c :: cur) := by
        simp [linesAux, hc]
      rw [hl']
      refine ⟨hr.1, ?_⟩
      have := hr.2; simpa using this


theorem splitLines_noNl : ∀ (s cur : List Char) (ls : List (List Char)), splitLines s cur = some ls →
    (∀ c ∈ cur, c ≠ '\n') → ∀ l ∈ ls, ∀ c ∈ l, c ≠ '\n' := by
  intro s
  induction s with
  | nil =>
    intro cur ls h _
    cases cur with
    | nil => simp [splitLines] at h; subst h; simp
    | cons c t => simp [splitLines] at h
  | cons c r ih =>
    intro cur ls h hcur
    by_cases hc : c = '\n'
    · subst hc
      simp [splitLines] at h
      obtain ⟨ls', h1, h2⟩ := h
      subst h2
      intro l hl
      rcases List.mem_cons.mp hl with rfl | hl
      · intro c hc; exact hcur c (by simpa using hc)
      · exact ih [] ls' h1 (by simp) l hl
    · have h' : splitLines (c :: r) cur = splitLines r (c :: cur) := by
        simp [splitLines, hc]
      rw [h'] at h
      exact ih (c :: cur) ls h (by
        intro d hd
        rcases List.mem_cons.mp hd with rfl | hd
        · exact hc
        · exact hcur d hd)

theorem length_le_flatMap {α : Type} (pr : α → List Char) (xs : List α) (h : ∀ x ∈ xs, pr x ≠ []) :
    xs.length ≤ (xs.flatMap pr).length := by
  induction xs with
  | nil => simp
  | cons a t ih =>
    have h1 : (pr a).length > 0 := List.length_pos_iff.mpr (h a (by simp))
    have h2 := ih (fun y hy => h y (by simp [hy]))
    simp only [List.flatMap_cons, List.length_append, List.length_cons]
    omega

/-- `multiline_text(prefix)` reads back the lines `LineWrapStr` printed -/
theorem multilineText_rt {α : Type} {pfx : Parser α} {P : List Char} {x : α} (startBad : Char → Bool) (s : String)
    (hwf : wfMultiline startBad s.toList = true)
    (hp : ∀ l X, (∀ c r, l = c :: r → startBad c = false) → pfx (P ++ (l ++ '\n' :: X)) = .ok x (l ++ '\n' :: X))
    (hPne : P ≠ []) (rest z : List Char) (hstop : pfx rest = .bt z) :
    multilineText pfx (lineWrap P s ++ rest) = .ok s rest := by
  unfold wfMultiline at hwf
  cases hsp : splitLines s.toList [] with
  | none => simp [hsp] at hwf
  | some ls =>
    simp [hsp, List.all_eq_true] at hwf
    obtain ⟨hne, hall⟩ := hwf
    have hnoCr : ∀ l ∈ ls, ∀ c ∈ l, c ≠ '\r' := fun l hl c hc => (hall l hl).1 c hc
    have hnoNl := splitLines_noNl s.toList [] ls hsp (by simp)
    have hlines := splitLines_lines s.toList [] ls hsp hnoCr
    have hnoEol : ∀ l ∈ ls, ∀ c ∈ l, isEol c = false := by
      intro l hl c hc
      simp [isEol, hnoCr l hl c hc, hnoNl l hl c hc]
    let line : Parser (List Char) := delimited pfx tillLineEnding lineEndingOrEof
    let pr : List Char → List Char := fun l => P ++ (l ++ ['\n'])
    have hline : ∀ l ∈ ls, ∀ X, True → line (pr l ++ X) = .ok l X := by
      intro l hl X _
      have hb : ∀ c r, l = c :: r → startBad c = false := by
        intro c r e; have := (hall l hl).2; subst e; simpa using this
      have h1 := hp l X hb
      simp [line, pr, List.append_assoc] at h1 ⊢
      simp [h1, tillLineEnding_nl (hnoEol l hl)]
    have hlstop : line rest = .bt z := by simp [line, hstop]
    have hlw : lineWrap P s = ls.flatMap pr := by
      simp [lineWrap, lines, hlines.1, pr]
    cases ls with
    | nil => simp at hne
    | cons l0 ls' =>
      have h0 := hline l0 (by simp) (ls'.flatMap pr ++ rest) trivial
      have hrest := repeat0Loop_list (p := line) (pr := pr) (fun _ => True) rest z hlstop trivial ls'
        (fun y hy => hline y (by simp [hy])) (fun y _ => by simp [pr, hPne]) (fun _ _ _ => trivial)
        ((ls'.flatMap pr ++ rest).length + 1) [l0] (by
          have := length_le_flatMap pr ls' (fun y _ => by simp [pr, hPne])
          rw [List.length_append]; omega)
      have hs : s = String.ofList ((l0 :: ls').flatMap (· ++ ['\n'])) := by
        have := hlines.2; simp at this
        rw [← String.ofList_toList (s := s)]; simp [this]
      simp only [multilineText, map_apply, hlw, List.flatMap_cons, List.append_assoc, repeat1]
      rw [show line = delimited pfx tillLineEnding lineEndingOrEof from rfl] at h0 hrest
      rw [h0]
      simp only [hrest]
      simp [hs]

/-! ## top-level comment -/

theorem topComment_rt (w : List Char → Nat) (s : String) (h : wfMultiline isCommentPrefix s.toList = true)
    (rest : List Char) (hrest : Stop isCommentPrefix rest) :
    topComment (printEntry w (.comment s) ++ rest) = .ok (.comment s) rest := by
  have := multilineText_rt (pfx := takeWhile1 isCommentPrefix) (P := [';']) (x := [';']) isCommentPrefix s h
    (by
      intro l X hl
      have := takeWhile1_append (p := isCommentPrefix) (a := [';']) (rest := l ++ '\n' :: X) (by simp)
        (by simp [isCommentPrefix]) (by
          cases l with
          | nil => simp [isCommentPrefix]
          | cons c t => simpa using hl c t rfl)
      simpa using this)
    (by simp) rest rest (takeWhile1_stop hrest)
  simp [topComment, printEntry, this]

/-! ## the entry loop -/

/-- the text begins with a character that is neither blank nor a line end (every printed entry does) -/
def StartsEntry (X : List Char) : Prop := ∃ c r, X = c :: r ∧ c ≠ '\n' ∧ c ≠ '\r' ∧ c ≠ ' ' ∧ c ≠ '\t'

def vsElem : Parser Unit := lineEnding <|| void (pair space1 (lineEnding <|| eof))

theorem vsElem_stop {X : List Char} (h : StartsEntry X ∨ X = []) : ∃ z, vsElem X = .bt z := by
  rcases h with ⟨c, r, rfl, h1, h2, h3, h4⟩ | rfl
  · refine ⟨c :: r, ?_⟩
    have hl : lineEnding (c :: r) = .bt (c :: r) := by
      unfold lineEnding
      split <;> simp_all
    have hs : space1 (c :: r) = .bt (c :: r) := takeWhile1_stop (by simp [isSpace, h3, h4])
    simp [vsElem, alt2, hl, hs]
  · exact ⟨[], by simp [vsElem, alt2, lineEnding, space1, takeWhile1]⟩

theorem verticalSpaces_stop {X : List Char} (h : StartsEntry X ∨ X = []) : verticalSpaces X = .ok () X := by
  obtain ⟨z, hz⟩ := vsElem_stop h
  have : repeat0 vsElem X = .ok [] X := by simp [repeat0, repeat0Loop_stop hz]
  simpa [verticalSpaces, vsElem] using congrArg (Res.map fun _ => ()) this

theorem verticalSpaces_nl {X : List Char} (h : StartsEntry X ∨ X = []) : verticalSpaces ('\n' :: X) = .ok () X := by
  obtain ⟨z, hz⟩ := vsElem_stop h
  have h1 : vsElem ('\n' :: X) = .ok () X := by simp [vsElem, alt2]
  have : repeat0 vsElem ('\n' :: X) = .ok [()] X := by
    simp only [repeat0, List.length_cons]
    rw [repeat0Loop_step h1 (by simp)]
    cases hX : X.length with
    | zero => simp [repeat0Loop_stop hz]
    | succ m => simp [repeat0Loop_stop hz]
  simpa [verticalSpaces, vsElem] using congrArg (Res.map fun _ => ()) this


/-- one entry as `format` writes it -/
def pe (w : List Char → Nat) (e : Entry) : List Char := printEntry w e ++ ['\n']

theorem formatEntries_eq (w : List Char → Nat) (es : List Entry) : formatEntries w es = es.flatMap (pe w) := rfl

/-- the entry parser reads back a printed entry that is followed by the empty line `format` writes -/
def EntryRT (w : List Char → Nat) (e : Entry) : Prop :=
  StartsEntry (printEntry w e) ∧ ∀ rest, parseLedgerEntry (printEntry w e ++ '\n' :: rest) = .ok e ('\n' :: rest)

theorem startsEntry_flatMap {w : List Char → Nat} {es : List Entry} (h : ∀ e ∈ es, EntryRT w e) :
    StartsEntry (es.flatMap (pe w)) ∨ es.flatMap (pe w) = [] := by
  cases es with
  | nil => right; rfl
  | cons e t =>
    left
    obtain ⟨c, r, hc, h1⟩ := (h e (by simp)).1
    exact ⟨c, r ++ '\n' :: t.flatMap (pe w), by simp [pe, hc], h1⟩

/-- `ParsedIter` on `'\n' :: formatted entries` -/
theorem parsedIter_nl (w : List Char → Nat) (whole : List Char) :
    ∀ (es : List Entry), (∀ e ∈ es, EntryRT w e) → ∀ (n : Nat) (acc : List (Nat × Nat × Entry)), es.length < n →
      ∃ sp, parsedIter parseLedgerEntry verticalSpaces whole n ('\n' :: es.flatMap (pe w)) acc = (acc ++ sp, .done) ∧
        sp.map (·.2.2) = es := by
  intro es
  induction es with
  | nil =>
    intro _ n acc hn
    cases n with
    | zero => omega
    | succ n =>
      refine ⟨[], ?_, rfl⟩
      simp [parsedIter, verticalSpaces_nl (X := []) (Or.inr rfl)]
  | cons e t ih =>
    intro h n acc hn
    cases n with
    | zero => omega
    | succ n =>
      have hsep := verticalSpaces_nl (startsEntry_flatMap (es := e :: t) h)
      have hrt := (h e (by simp)).2 (t.flatMap (pe w))
      have hne : ((e :: t).flatMap (pe w)).isEmpty = false := by
        obtain ⟨c, r, hc, _⟩ := (h e (by simp)).1
        simp [pe, hc]
      obtain ⟨sp, h1, h2⟩ := ih (fun x hx => h x (by simp [hx])) n
        (acc ++ [(utf8Len whole - utf8Len ((e :: t).flatMap (pe w)), utf8Len whole - utf8Len ('\n' :: t.flatMap (pe w)), e)])
        (by simp at hn; omega)
      refine ⟨(utf8Len whole - utf8Len ((e :: t).flatMap (pe w)), utf8Len whole - utf8Len ('\n' :: t.flatMap (pe w)), e) :: sp, ?_, by simp [h2]⟩
      have hrt' : parseLedgerEntry ((e :: t).flatMap (pe w)) = .ok e ('\n' :: t.flatMap (pe w)) := by
        simpa [pe, List.append_assoc] using hrt
      rw [parsedIter]
      simp only [hsep, hne, hrt']
      simpa [List.append_assoc] using h1


/-- `parse_ledger(..)` on the text `format` writes for `es` -/
theorem parseEntries_format (w : List Char → Nat) (es : List Entry) (h : ∀ e ∈ es, EntryRT w e) :
    parseEntries (formatEntries w es) = .ok es := by
  rw [formatEntries_eq]
  cases es with
  | nil =>
    simp [parseEntries, parseLedger, parseLedgerRun, parsedIter, verticalSpaces_stop (X := []) (Or.inr rfl), Outcome.map']
  | cons e t =>
    have hsep := verticalSpaces_stop (startsEntry_flatMap (es := e :: t) h)
    have hrt := (h e (by simp)).2 (t.flatMap (pe w))
    have hrt' : parseLedgerEntry ((e :: t).flatMap (pe w)) = .ok e ('\n' :: t.flatMap (pe w)) := by
      simpa [pe, List.append_assoc] using hrt
    have hne : ((e :: t).flatMap (pe w)).isEmpty = false := by
      obtain ⟨c, r, hc, _⟩ := (h e (by simp)).1
      simp [pe, hc]
    have hlen : t.length < ((e :: t).flatMap (pe w)).length := by
      have := length_le_flatMap (pe w) t (fun y _ => by simp [pe])
      simp only [List.flatMap_cons, List.length_append, pe, List.length_cons, List.length_nil]
      omega
    obtain ⟨sp, h1, h2⟩ := parsedIter_nl w ((e :: t).flatMap (pe w)) t (fun x hx => h x (by simp [hx]))
      ((e :: t).flatMap (pe w)).length
      ([] ++ [(utf8Len ((e :: t).flatMap (pe w)) - utf8Len ((e :: t).flatMap (pe w)),
        utf8Len ((e :: t).flatMap (pe w)) - utf8Len ('\n' :: t.flatMap (pe w)), e)]) hlen
    simp only [parseEntries, parseLedger, parseLedgerRun]
    rw [parsedIter]
    simp only [hsep, hne, hrt', h1]
    simp [Outcome.map']
    rw [← h2]; simp [Function.comp_def]

theorem dispatch_cons {α : Type} (arms : Char → Parser α) (c : Char) (r : List Char) :
    dispatch arms (c :: r) = arms c (c :: r) := rfl

theorem entryRT_include (w : List Char → Nat) (p : String) (h : wfRestOfLine p.toList = true) :
    EntryRT w (.include p) := by
  refine ⟨⟨'i', _, rfl, by decide, by decide, by decide, by decide⟩, ?_⟩
  intro rest
  have := include_rt w p h ('\n' :: rest)
  have hd : parseLedgerEntry (printEntry w (.include p) ++ '\n' :: rest) =
      includeDirective (printEntry w (.include p) ++ '\n' :: rest) := by
    simp [printEntry, kwInclude, parseLedgerEntry, dispatch_cons]
  rw [hd, this]


theorem entryRT_endApplyTag (w : List Char → Nat) : EntryRT w .endApplyTag := by
  refine ⟨⟨'e', _, rfl, by decide, by decide, by decide, by decide⟩, ?_⟩
  intro rest
  have := endApplyTag_rt w ('\n' :: rest)
  have hd : parseLedgerEntry (printEntry w .endApplyTag ++ '\n' :: rest) =
      endApplyTag (printEntry w .endApplyTag ++ '\n' :: rest) := by
    simp [printEntry, kwEnd, parseLedgerEntry, dispatch_cons]
  rw [hd, this]

theorem parseLedgerEntry_apply {Y r : List Char} {x : Entry} (h : applyTag (kwApply ++ Y) = .ok x r) :
    parseLedgerEntry (kwApply ++ Y) = .ok x r := by
  simp only [kwApply, List.cons_append, List.nil_append] at h
  simp [parseLedgerEntry, kwApply, dispatch_cons, alt2, peek, literal, kwAccount, cutErr, h]

theorem parseLedgerEntry_account {Y r : List Char} {x : Entry} (h : accountDeclaration (kwAccount ++ Y) = .ok x r) :
    parseLedgerEntry (kwAccount ++ Y) = .ok x r := by
  simp only [kwAccount, List.cons_append, List.nil_append] at h
  simp [parseLedgerEntry, kwAccount, dispatch_cons, alt2, peek, literal, cutErr, h]

theorem entryRT_applyTag (w : List Char → Nat) (k : String) (v : Option MetaValue) (hk : wfTag k.toList = true)
    (hv : ∀ x, v = some x → wfMetaValue x = true) : EntryRT w (.applyTag k v) := by
  refine ⟨⟨'a', _, rfl, by decide, by decide, by decide, by decide⟩, ?_⟩
  intro rest
  have := applyTag_rt w k v hk hv ('\n' :: rest)
  simp only [printEntry, List.append_assoc] at this ⊢
  exact parseLedgerEntry_apply this

theorem entryRT_comment (w : List Char → Nat) (s : String) (h : wfMultiline isCommentPrefix s.toList = true) :
    EntryRT w (.comment s) := by
  have hlw : ∃ r, printEntry w (.comment s) = ';' :: r := by
    unfold wfMultiline at h
    cases hsp : splitLines s.toList [] with
    | none => simp [hsp] at h
    | some ls =>
      simp [hsp, List.all_eq_true] at h
      have hnoCr : ∀ l ∈ ls, ∀ c ∈ l, c ≠ '\r' := fun l hl c hc => (h.2 l hl).1 c hc
      have hlines := splitLines_lines s.toList [] ls hsp hnoCr
      cases ls with
      | nil => simp at h
      | cons l0 t =>
        refine ⟨l0 ++ '\n' :: t.flatMap (fun l => ';' :: (l ++ ['\n'])), ?_⟩
        simp [printEntry, lineWrap, lines, hlines.1]
  obtain ⟨r, hr⟩ := hlw
  refine ⟨⟨';', r, hr, by decide, by decide, by decide, by decide⟩, ?_⟩
  intro rest
  have := topComment_rt w s h ('\n' :: rest) (by simp [isCommentPrefix])
  have hd : parseLedgerEntry (printEntry w (.comment s) ++ '\n' :: rest) =
      topComment (printEntry w (.comment s) ++ '\n' :: rest) := by
    rw [hr]
    simp [parseLedgerEntry, dispatch_cons, isCommentPrefix]
  rw [hd, this]


/-! ## metadata lines -/

theorem wfTag_head {k : List Char} (hk : wfTag k = true) :
    ∃ c t, k = c :: t ∧ isSpace c = false ∧ c ≠ ':' ∧ isAsciiWhitespace c = false := by
  cases k with
  | nil => simp [wfTag] at hk
  | cons c t =>
    simp [wfTag, isTagChar] at hk
    have := hk.1
    refine ⟨c, t, rfl, ?_, this.2, this.1⟩
    have h1 := this.1
    simp [isAsciiWhitespace] at h1
    simp [isSpace, h1]

/-- the tag-word item `tag ":"` -/
def tagItem : Parser (List Char) := terminated tagKey (char ':')

theorem tagItem_rt {t X : List Char} (ht : wfTag t = true) : tagItem (t ++ ([':'] ++ X)) = .ok t X := by
  have := tagKey_rt (k := t) (X := ':' :: X) ht (by intro c r e; cases e; simp)
  simp [tagItem, this]

theorem tagItem_nl (X : List Char) : tagItem ('\n' :: X) = .bt ('\n' :: X) := by
  have : tagKey ('\n' :: X) = .bt ('\n' :: X) := takeTill1_stop (by intro c r e; cases e; simp [isAsciiWhitespace])
  simp [tagItem, this]

/-- `metadata_tags` followed by the end of the line -/
theorem metadataTags_rt (ts : List String) (hne : ts ≠ []) (hts : ∀ t ∈ ts, wfTag t.toList = true) (rest : List Char) :
    terminated metadataTags (peek lineEndingOrEof) (printMetadata (.wordTags ts) ++ '\n' :: rest) =
      .ok (.wordTags ts) ('\n' :: rest) := by
  cases ts with
  | nil => exact absurd rfl hne
  | cons t0 ts' =>
    let pr : List Char → List Char := fun t => t ++ [':']
    have hloop := repeat0Loop_list (p := tagItem) (pr := pr) (fun _ => True) ('\n' :: rest) ('\n' :: rest)
      (tagItem_nl rest) trivial (ts'.map String.toList)
      (by
        intro x hx X _
        obtain ⟨t, ht, rfl⟩ := List.mem_map.mp hx
        simpa [pr, List.append_assoc] using tagItem_rt (X := X) (hts t (by simp [ht])))
      (by intro x _; simp [pr]) (fun _ _ _ => trivial)
      (((ts'.map String.toList).flatMap pr ++ '\n' :: rest).length + 1) [t0.toList] (by
        have := length_le_flatMap pr (ts'.map String.toList) (fun y _ => by simp [pr])
        rw [List.length_append]; omega)
    have h0 := tagItem_rt (t := t0.toList) (X := (ts'.map String.toList).flatMap pr ++ '\n' :: rest) (hts t0 (by simp))
    have hpm : printMetadata (.wordTags (t0 :: ts')) ++ '\n' :: rest
        = ':' :: (t0.toList ++ ([':'] ++ ((ts'.map String.toList).flatMap pr ++ '\n' :: rest))) := by
      simp [printMetadata, pr, List.flatMap_map, List.append_assoc]
    rw [hpm]
    have hsp : space0 ('\n' :: rest) = .ok [] ('\n' :: rest) := space0_stop (by simp [isSpace])
    have hpk : peek lineEndingOrEof ('\n' :: rest) = .ok () ('\n' :: rest) := peek_ok (lineEndingOrEof_nl rest)
    have hmt : metadataTags = map (fun ts => Metadata.wordTags (ts.map String.ofList))
        (delimited (char ':') (repeat1 tagItem) space0) := rfl
    rw [hmt]
    simp only [terminated_apply, map_apply, delimited_apply, char_cons_self, Res.andThen_ok, repeat1, h0]
    simp only [hloop, Res.andThen_ok, hsp, Res.map_ok, hpk]
    simp


theorem metadataTags_bt_of_head {X : List Char} (h : ∀ r, X ≠ ':' :: r) : metadataTags X = .bt X := by
  cases X with
  | nil => simp [metadataTags]
  | cons c r =>
    have hc : c ≠ ':' := by intro e; exact h r (by rw [e])
    simp [metadataTags, char_cons_ne hc]

theorem metadataKv_rt (k : String) (v : MetaValue) (hk : wfTag k.toList = true) (hv : wfMetaValue v = true)
    (rest : List Char) :
    metadataKv (printMetadata (.keyValue k v) ++ '\n' :: rest) = .ok (.keyValue k v) ('\n' :: rest) := by
  have hX : ∀ c r, printMetaValue v ++ '\n' :: rest = c :: r → (isAsciiWhitespace c || c == ':') = true := by
    intro c r e
    cases v <;> simp [printMetaValue] at e <;> simp [← e.1]
  have htk := tagKey_rt (X := printMetaValue v ++ '\n' :: rest) hk hX
  have h3 : space0 (printMetaValue v ++ '\n' :: rest) = .ok [] (printMetaValue v ++ '\n' :: rest) :=
    space0_stop (by cases v <;> simp [printMetaValue, isSpace])
  simp [metadataKv, printMetadata, List.append_assoc, htk, h3, metadataValue_rt v hv]


/-- `line_metadata` preceded by its indentation reads back a printed tag-words / key-value metadata line -/
theorem metaLine_rt (m : Metadata) (hm : wfMetadata m = true) (hnc : ∀ s, m ≠ .comment s) (rest : List Char) :
    preceded space1 lineMetadata (printMetaLine m ++ rest) = .ok m rest := by
  have hind : ∀ X, Stop isSpace X → space1 (indent4 ++ X) = .ok indent4 X := fun X hX =>
    space1_append (by simp [indent4]) (by simp [indent4, isSpace]) hX
  have hsemi := hind (';' :: ' ' :: (printMetadata m ++ '\n' :: rest)) (by simp [isSpace])
  have hsp : ∀ X, Stop isSpace X → space0 (' ' :: X) = .ok [' '] X := fun X hX => by
    simpa using space0_append (a := [' ']) (by simp [isSpace]) hX
  cases m with
  | comment s => exact absurd rfl (hnc s)
  | wordTags ts =>
    simp [wfMetadata, List.all_eq_true] at hm
    have h1 := metadataTags_rt ts (by intro e; simp [e] at hm) hm.2 rest
    have hs0 := hsp (printMetadata (.wordTags ts) ++ '\n' :: rest) (by simp [printMetadata, isSpace])
    simp only [printMetaLine, List.append_assoc, List.cons_append, List.nil_append, preceded_apply, hsemi,
      Res.andThen_ok, lineMetadata, delimited_apply, pair_apply, char_cons_self, hs0, Res.map_ok]
    rw [alt2_ok h1]
    simp
  | keyValue k v =>
    simp [wfMetadata] at hm
    have h2 := metadataKv_rt k v hm.1 hm.2 rest
    obtain ⟨c, t, hk, hc1, hc2, _⟩ := wfTag_head hm.1
    have hs0 := hsp (printMetadata (.keyValue k v) ++ '\n' :: rest) (by simp [printMetadata, hk, hc1])
    have hbt : terminated metadataTags (peek lineEndingOrEof) (printMetadata (.keyValue k v) ++ '\n' :: rest)
        = .bt (printMetadata (.keyValue k v) ++ '\n' :: rest) := by
      have := metadataTags_bt_of_head (X := printMetadata (.keyValue k v) ++ '\n' :: rest)
        (by intro r e; simp [printMetadata, hk] at e; exact hc2 e.1)
      simp [this]
    simp only [printMetaLine, List.append_assoc, List.cons_append, List.nil_append, preceded_apply, hsemi,
      Res.andThen_ok, lineMetadata, delimited_apply, pair_apply, char_cons_self, hs0, Res.map_ok]
    rw [alt2_bt hbt, alt2_ok h2]
    simp


/-! ## posting account -/

/-- an account word: non-empty, no blank, tab, `;`, CR, LF -/
def wfWord (wd : List Char) : Prop := wd ≠ [] ∧ ∀ c ∈ wd, isAccountStop c = false

/-- words joined by single blanks -/
def joinWords : List (List Char) → List Char
  | [] => []
  | [wd] => wd
  | wd :: rest => wd ++ ' ' :: joinWords rest

/-- the text after an account: a line end or `;` (possibly after one blank), two blanks, a tab, or the end of input -/
def AccountFollow (X : List Char) : Prop :=
  X = [] ∨ (∃ r, X = ' ' :: ' ' :: r) ∨
  (∃ c r, X = c :: r ∧ (c = '\t' ∨ c = ';' ∨ c = '\r' ∨ c = '\n')) ∨
  (∃ c r, X = ' ' :: c :: r ∧ (c = '\t' ∨ c = ';' ∨ c = '\r' ∨ c = '\n'))

theorem accountEnd_ok {X : List Char} (h : AccountFollow X) : accountEnd X = .ok () X := by
  rcases h with rfl | ⟨r, rfl⟩ | ⟨c, r, rfl, hc⟩ | ⟨c, r, rfl, hc⟩
  · simp [accountEnd, peek, alt2, literal, opt, oneOf, eof]
  · simp [accountEnd, peek, alt2, literal]
  · rcases hc with rfl | rfl | rfl | rfl <;> simp [accountEnd, peek, alt2, literal, opt, oneOf]
  · rcases hc with rfl | rfl | rfl | rfl <;> simp [accountEnd, peek, alt2, literal, opt, oneOf]

/-- before a further word (`" " ++ word`) the terminator does not match -/
theorem accountEnd_bt_word {wd X : List Char} (hw : wfWord wd) : ∃ z, accountEnd (' ' :: (wd ++ X)) = .bt z := by
  obtain ⟨hne, hall⟩ := hw
  cases wd with
  | nil => exact absurd rfl hne
  | cons c t =>
    have hc := hall c (by simp)
    simp [isAccountStop] at hc
    refine ⟨' ' :: (c :: t ++ X), ?_⟩
    have h1 : ¬ (' ' = c) := fun e => hc.1.2 e.symm
    simp [accountEnd, peek, alt2, literal, opt, oneOf, eof, hc, h1]


/-- a word followed by something that stops it -/
theorem takeWord {wd X : List Char} (hw : wfWord wd) (hX : ∀ c r, X = c :: r → isAccountStop c = true) :
    takeTill1 isAccountStop (wd ++ X) = .ok wd X :=
  takeTill1_append hw.1 hw.2 hX

theorem follow_stop {X : List Char} (h : AccountFollow X) : ∀ c r, X = c :: r → isAccountStop c = true := by
  intro c r e
  rcases h with rfl | ⟨r', rfl⟩ | ⟨c', r', rfl, hc⟩ | ⟨c', r', rfl, hc⟩
  · cases e
  · cases e; simp [isAccountStop]
  · cases e; rcases hc with rfl | rfl | rfl | rfl <;> simp [isAccountStop]
  · cases e; simp [isAccountStop]

/-- the `repeat_till` loop on `(" " ++ word)* ++ follow` -/
theorem accountLoop (X : List Char) (hX : AccountFollow X) :
    ∀ (ws : List (List Char)), (∀ wd ∈ ws, wfWord wd) → ∀ (n : Nat) (acc : List Unit), ws.length < n →
      ∃ acc', repeatTillLoop accountWord accountEnd n (ws.flatMap (fun wd => ' ' :: wd) ++ X) acc = .ok (acc', ()) X := by
  intro ws
  induction ws with
  | nil =>
    intro _ n acc hn
    cases n with
    | zero => omega
    | succ n => exact ⟨acc, by simp [repeatTillLoop, accountEnd_ok hX]⟩
  | cons wd ws ih =>
    intro hws n acc hn
    cases n with
    | zero => omega
    | succ n =>
      obtain ⟨z, hz⟩ := accountEnd_bt_word (X := ws.flatMap (fun wd => ' ' :: wd) ++ X) (hws wd (by simp))
      have hnext : ∀ c r, ws.flatMap (fun wd => ' ' :: wd) ++ X = c :: r → isAccountStop c = true := by
        cases ws with
        | nil => simpa using follow_stop hX
        | cons w2 t => intro c r e; simp at e; simp [← e.1, isAccountStop]
      have hword := takeWord (hws wd (by simp)) hnext
      have hitem : accountWord (' ' :: (wd ++ (ws.flatMap (fun wd => ' ' :: wd) ++ X))) =
          .ok () (ws.flatMap (fun wd => ' ' :: wd) ++ X) := by
        simp [accountWord, opt, literal, hword]
      obtain ⟨acc', h'⟩ := ih (fun y hy => hws y (by simp [hy])) n (acc ++ [()]) (by simp at hn; omega)
      refine ⟨acc', ?_⟩
      simp only [List.flatMap_cons, List.cons_append, List.append_assoc]
      rw [repeatTillLoop]
      simp only [hz, hitem]
      simp [h']
      omega


theorem consumed_append (A X : List Char) : consumed (A ++ X) X = A := by
  simp [consumed]

/-- `posting_account` reads back an account made of words joined by single blanks, whatever admissible text follows -/
theorem postingAccount_rt (w0 : List Char) (ws : List (List Char)) (X : List Char) (hw0 : wfWord w0)
    (hws : ∀ wd ∈ ws, wfWord wd) (hst : startTrimmed w0 = true) (hX : AccountFollow X) :
    postingAccount (w0 ++ (ws.flatMap (fun wd => ' ' :: wd) ++ X)) =
      .ok (String.ofList (w0 ++ ws.flatMap (fun wd => ' ' :: wd))) (X.dropWhile isSpace) := by
  have hnext : ∀ c r, ws.flatMap (fun wd => ' ' :: wd) ++ X = c :: r → isAccountStop c = true := by
    cases ws with
    | nil => simpa using follow_stop hX
    | cons w2 t => intro c r e; simp at e; simp [← e.1, isAccountStop]
  have hword := takeWord hw0 hnext
  obtain ⟨c0, t0, hc0⟩ : ∃ c t, w0 = c :: t := by
    cases w0 with
    | nil => exact absurd rfl hw0.1
    | cons c t => exact ⟨c, t, rfl⟩
  have hc0' : isAccountStop c0 = false := hw0.2 c0 (by simp [hc0])
  have hfirst : accountWord (w0 ++ (ws.flatMap (fun wd => ' ' :: wd) ++ X)) =
      .ok () (ws.flatMap (fun wd => ' ' :: wd) ++ X) := by
    have hb : ¬ (' ' = c0) := by
      intro e; simp [isAccountStop, ← e] at hc0'
    have : opt (literal [' ']) (w0 ++ (ws.flatMap (fun wd => ' ' :: wd) ++ X)) =
        .ok none (w0 ++ (ws.flatMap (fun wd => ' ' :: wd) ++ X)) := by
      simp [opt, literal, hc0, hb]
    simp [accountWord, this, hword]
  obtain ⟨acc', hloop⟩ := accountLoop X hX ws hws ((ws.flatMap (fun wd => ' ' :: wd) ++ X).length + 1) [()] (by
    have := length_le_flatMap (fun wd : List Char => ' ' :: wd) ws (fun _ _ => by simp)
    rw [List.length_append]; omega)
  have hrt : repeatTill1 accountWord accountEnd (w0 ++ (ws.flatMap (fun wd => ' ' :: wd) ++ X)) = .ok (acc', ()) X := by
    simp only [repeatTill1, hfirst, hloop]
  have htrim : trimStart (w0 ++ ws.flatMap (fun wd => ' ' :: wd)) = w0 ++ ws.flatMap (fun wd => ' ' :: wd) := by
    apply trimStart_eq
    simpa [startTrimmed, hc0] using hst
  have hcons := consumed_append (w0 ++ ws.flatMap (fun wd => ' ' :: wd)) X
  simp only [List.append_assoc] at hcons
  simp [postingAccount, take, withTaken, hrt, hcons, htrim, space0, takeWhile0]


end Okane.Unparse
