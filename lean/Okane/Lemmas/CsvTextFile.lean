import Okane.Props.C15
import Okane.Props.C16
import Okane.Props.C17
/-!
# The CSV theorems of C15 and C17, for the FILE

`C16_import_file` (`Props/C16.lean`): the importer from the bytes of `skipped lines ++ writeCsv (header :: rows)` is the importer
model on `header` and `rows`.  Here the CSV statements of C15 (`C15_csv_amount_readback`, `C15_csv_readback_ledger`) and C17
(`C17_csv_import`) are restated with `csvImportText` on the bytes of the file in place of `csvImport` on its cells.
-/
namespace Okane.Import
open Okane Okane.Parse Okane.Unparse Okane.Import.Cells Okane.Import.CsvText

/-- **C17_csv_import_file.**  `C17_csv_import` from the bytes of the file: every transaction is the transaction of one row of
the file; its counter-account is that of the last matching rule that has one, and it is pending unless a matching rule with an
account is not `pending`. -/
theorem C17_csv_import_file (pd : String → Option Date) (cap : Captures) (cfg : CsvCfg) (t : TextCfg) (lines : List Bytes)
    (header : List String) (rows : List (List String)) (w : WrittenFile t lines header rows) (txns : List Txn)
    (himp : csvImportText (cellEnv pd cap) cfg t (fileBytes t lines header rows) = .ok txns) :
    ∃ fm, FieldMap.tryNew cfg.fields header = .ok fm ∧
      ∀ tx ∈ txns, ∃ rec ∈ rows, ∃ v i, readRow (cellEnv pd cap) cfg fm rec = .ok (some v) ∧
        buildTxn (cellEnv pd cap) cfg fm rec v = .ok (tx, i) ∧
        tx.destAccount = (matching cap cfg.rewrite (csvRecord v.payee v.category v.secondaryCommodity)).reverse.findSome?
          (·.account) ∧
        tx.clearState = (if (matching cap cfg.rewrite (csvRecord v.payee v.category v.secondaryCommodity)).any
          (fun x => x.account.isSome && !x.pending) then none else some .pending) := by
  rw [(C16_import_file _ cfg t lines header rows w).1] at himp
  exact C17_csv_import pd cap cfg header rows txns himp

/-- **C15_csv_readback_ledger_file.**  `C15_csv_readback_ledger` from the bytes of the file: for a CSV file the importer
(okane's own cell decoder, the `csv` reader model) imports, whose transactions have clean text and in-range computed amounts,
the ledger parser reads the whole printed output as exactly the transactions built, padded as printed, one per dated record,
in order — and each of them is the transaction of one row of the file. -/
theorem C15_csv_readback_ledger_file (pd : String → Option Date) (cap : Captures) (cfg : CsvCfg) (t : TextCfg)
    (lines : List Bytes) (header : List String) (rows : List (List String)) (wf : WrittenFile t lines header rows)
    (txns : List Txn) (prec : String → Nat) (hprec : ∀ c, prec c ≤ 28) (w : List Char → Nat)
    (himp : csvImportText (cellEnv pd cap) cfg t (fileBytes t lines header rows) = .ok txns)
    (hwords : ∀ tx ∈ txns, CleanWords tx cfg.account = true)
    (hcomp : ∀ tx ∈ txns, ∀ tr, tx.transferredAmount = some tr → cleanDec tr.value = true) :
    ∃ fm trs, FieldMap.tryNew cfg.fields header = .ok fm ∧
      toDoubleEntries cfg.account txns = .ok trs ∧ trs.length = txns.length ∧
      parseEntries (importText prec w trs) = .ok (trs.map fun tr => Entry.txn (readbackTxn prec tr)) ∧
      ∀ tx ∈ txns, ∃ rec ∈ rows, ∃ v i, readRow (cellEnv pd cap) cfg fm rec = .ok (some v) ∧
        buildTxn (cellEnv pd cap) cfg fm rec v = .ok (tx, i) := by
  rw [(C16_import_file _ cfg t lines header rows wf).1] at himp
  exact C15_csv_readback_ledger pd cap cfg header rows txns prec hprec w himp hwords hcomp

/-- **C15_csv_amount_readback_file.**  `C15_csv_amount_readback` from the bytes of the file: every transaction of the import
is the transaction of one row of the file, and (amount layout) its printed posting on the imported account reads back as the
number WRITTEN in that row's amount cell — negated for a liability account, padded to the configured precision. -/
theorem C15_csv_amount_readback_file (pd : String → Option Date) (cap : Captures) (cfg : CsvCfg) (t : TextCfg)
    (lines : List Bytes) (header : List String) (rows : List (List String)) (wf : WrittenFile t lines header rows)
    (txns : List Txn) (prec : String → Nat) (hprec : ∀ c, prec c ≤ 28)
    (himp : csvImportText (cellEnv pd cap) cfg t (fileBytes t lines header rows) = .ok txns) :
    ∃ fm, FieldMap.tryNew cfg.fields header = .ok fm ∧
      ∀ txn ∈ txns, ∃ rec ∈ rows, ∃ v i, readRow (cellEnv pd cap) cfg fm rec = .ok (some v) ∧
        buildTxn (cellEnv pd cap) cfg fm rec v = .ok (txn, i) ∧
        ∀ f, fm.value = .amount f →
          (∀ conv, selectedConversion (cellEnv pd cap) cfg v = some conv → conv.amount = .compute →
            ∀ tr, txn.transferredAmount = some tr → cleanDec tr.value = true) →
          ∃ tr cell p n, txn.toDoubleEntry cfg.account = .ok tr ∧ fm.resolve .amount f rec = .ok (some cell) ∧
            (if v.amount.neg then (readbackTxn prec tr).posts.getLast? else (readbackTxn prec tr).posts.head?) = some p ∧
            p.account = cfg.account ∧ p.amount.map (·.amount) = some (.amt n v.commodity) ∧
            (cell.isEmpty = true → n.mant = 0) ∧
            (cell.isEmpty = false → ∃ x places, CellWritten cell x places ∧
              n.toRat = cfg.accountType.signed x ∧
              places ≤ n.scale ∧
              ((v.amount.mant = 0 ∨ v.amount.mant * 10 ^ (max places (prec v.commodity) - places) ≤ Literal.maxMant) →
                n.scale = max places (prec v.commodity))) := by
  rw [(C16_import_file _ cfg t lines header rows wf).1] at himp
  obtain ⟨fm, hfm, hmem⟩ := csvImport_mem _ cfg header rows txns himp
  refine ⟨fm, hfm, ?_⟩
  intro txn htxn
  obtain ⟨rec, hrec, v, i, hrow, hb⟩ := hmem txn htxn
  exact ⟨rec, hrec, v, i, hrow, hb, fun f hv hcomp =>
    C15_csv_amount_readback pd cap cfg fm rec v txn i prec hprec f hv hrow hb hcomp⟩

end Okane.Import
