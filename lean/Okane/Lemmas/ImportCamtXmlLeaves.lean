import Okane.Model.ImportCamtXmlRender
/-!
# Leaf round trips: numbers and dates are read back from their prints

* `decRT_small`  — `decimalOfText (printDec d) = ok d` for every `Dec` with at most 18 digits (`mant < 10^18`), scale ≤ 17 and
  no negative zero: the class in which rust_decimal's parser never leaves its 64-bit phase (no rounding, no overflow
  handling) — every amount a bank statement carries.
* `dateRT_repr`  — `naiveDateOfText (fmtHyphen d) = some d` for every valid date with a year 0…9999.
Both discharge the decidable hypotheses of `decodeCamt_render` semantically (`Lemmas/ImportCamtXmlRender.lean`).
-/
namespace Okane.Import.CamtXml
open Okane Okane.Xml Okane.Import

-- the simp sets below are shared by many case splits; not every lemma fires in every case
set_option linter.unusedSimpArgs false

/-! ## digits -/

theorem dv_nil (acc : Nat) : digitsVal acc [] = acc := by rfl
theorem dv_cons (acc : Nat) (c : Char) (r : List Char) : digitsVal acc (c :: r) = digitsVal (acc * 10 + dval c) r := by rfl

theorem digitsVal_append (l₁ l₂ : List Char) : ∀ acc, digitsVal acc (l₁ ++ l₂) = digitsVal (digitsVal acc l₁) l₂ := by
  induction l₁ with
  | nil => intro acc; rw [dv_nil]; rfl
  | cons c r ih => intro acc; rw [List.cons_append, dv_cons, dv_cons]; exact ih _

theorem digitsVal_ge (l : List Char) : ∀ acc, acc ≤ digitsVal acc l := by
  induction l with
  | nil => intro acc; rw [dv_nil]; exact Nat.le_refl _
  | cons c r ih =>
    intro acc
    rw [dv_cons]
    exact Nat.le_trans (by omega) (ih _)

theorem dval_digitChar (n : Nat) (h : n < 10) : dval n.digitChar = n := by
  unfold dval
  exact Nat.toNat_digitChar_sub_48_of_lt_ten h

theorem digitsVal_toDigits : ∀ n : Nat, digitsVal 0 (Nat.toDigits 10 n) = n := by
  intro n
  induction n using Nat.strongRecOn with
  | _ n ih =>
    rw [Nat.toDigits_eq_if (by decide)]
    split
    · rename_i h
      rw [dv_cons, dv_nil, dval_digitChar n h]; omega
    · rename_i h
      have hlt : n / 10 < n := Nat.div_lt_self (by omega) (by decide)
      rw [digitsVal_append, ih (n / 10) hlt, dv_cons, dv_nil, dval_digitChar (n % 10) (Nat.mod_lt _ (by decide))]
      omega

theorem toDigits_isDigit (n : Nat) : ∀ c ∈ Nat.toDigits 10 n, c.isDigit = true :=
  fun _ hc => Nat.isDigit_of_mem_toDigits (by decide) (by decide) hc

theorem dval_zero : dval '0' = 0 := by decide

theorem digitsVal_zeros (k : Nat) (l : List Char) : digitsVal 0 (List.replicate k '0' ++ l) = digitsVal 0 l := by
  induction k with
  | zero => rfl
  | succ k ih =>
    rw [List.replicate_succ, List.cons_append, dv_cons, dval_zero]
    exact ih

/-- the digits of `n`, padded with zeros to at least `w` places -/
def padded (n w : Nat) : List Char :=
  List.replicate (w - (Nat.toDigits 10 n).length) '0' ++ Nat.toDigits 10 n

theorem padded_spec (n w : Nat) :
    (∀ c ∈ padded n w, c.isDigit = true) ∧ digitsVal 0 (padded n w) = n ∧ w ≤ (padded n w).length ∧
    ((Nat.toDigits 10 n).length ≤ w → (padded n w).length = w) := by
  refine ⟨?_, ?_, ?_, ?_⟩
  · intro c hc
    simp only [padded, List.mem_append, List.mem_replicate] at hc
    rcases hc with ⟨_, rfl⟩ | hc
    · decide
    · exact toDigits_isDigit n c hc
  · unfold padded; rw [digitsVal_zeros, digitsVal_toDigits]
  · simp only [padded, List.length_append, List.length_replicate]; omega
  · intro h; simp only [padded, List.length_append, List.length_replicate]; omega

/-! ## numbers -/

theorem dec64_nil (point : Bool) (data scale : Nat) : dec64 point true data scale [] = some (data, scale) := by
  unfold dec64; rfl

theorem dec64_digit (point has : Bool) (data scale : Nat) (c : Char) (tl : List Char) (hc : c.isDigit = true)
    (hs : point = true → scale + 1 < 28) (hd : data * 10 + dval c < willOverflowU64) :
    dec64 point has data scale (c :: tl) = dec64 point true (data * 10 + dval c) (if point then scale + 1 else 0) tl := by
  conv => lhs; unfold dec64
  simp only [hc, if_true]
  cases tl with
  | nil => rw [dec64_nil]
  | cons n r =>
    have h1 : ¬ (data * 10 + dval c ≥ willOverflowU64) := by omega
    cases point with
    | false => simp [h1]
    | true =>
      have := hs rfl
      have h2 : ¬ (scale + 1 ≥ 28) := by omega
      simp [h1, h2]

theorem dec64_digits (point : Bool) : ∀ (w : List Char) (has : Bool) (data scale : Nat) (tl : List Char),
    w ≠ [] → (∀ c ∈ w, c.isDigit = true) → (point = true → scale + w.length < 28) → digitsVal data w < willOverflowU64 →
    dec64 point has data scale (w ++ tl) = dec64 point true (digitsVal data w) (if point then scale + w.length else 0) tl := by
  intro w
  induction w with
  | nil => intro has data scale tl h; exact absurd rfl h
  | cons c r ih =>
    intro has data scale tl _ hdig hsc hval
    have hc := hdig c (by simp)
    rw [dv_cons] at hval
    have hstep : data * 10 + dval c < willOverflowU64 := Nat.lt_of_le_of_lt (digitsVal_ge r _) hval
    rw [List.cons_append, dec64_digit point has data scale c (r ++ tl) hc
      (fun hp => by have := hsc hp; simp only [List.length_cons] at this; omega) hstep, dv_cons]
    cases r with
    | nil =>
      rw [dv_nil]
      cases point <;> simp
    | cons c2 r2 =>
      have hlen : (c :: c2 :: r2).length = (c2 :: r2).length + 1 := rfl
      rw [ih true _ _ tl (by simp) (fun x hx => hdig x (List.mem_cons_of_mem _ hx))
        (fun hp => by have := hsc hp; rw [hlen] at this; simp only [hp, if_true]; omega) hval]
      cases point with
      | false => rfl
      | true => simp only [if_true, hlen]; congr 1; omega

/-- the class in which rust_decimal parses without leaving the 64-bit phase -/
def decSmall (d : Dec) : Prop := d.mant < 10 ^ 18 ∧ d.scale ≤ 17 ∧ (d.neg = true → d.mant ≠ 0)

instance (d : Dec) : Decidable (decSmall d) := by unfold decSmall; infer_instance

theorem printDec_toList (d : Dec) : (printDec d).toList =
    (if d.neg then ['-'] else []) ++
      (padded d.mant (d.scale + 1)).take ((padded d.mant (d.scale + 1)).length - d.scale) ++
      (if d.scale == 0 then [] else '.' :: (padded d.mant (d.scale + 1)).drop ((padded d.mant (d.scale + 1)).length - d.scale)) := by
  have hp : (if (natDigits d.mant).length ≤ d.scale then
      List.replicate (d.scale + 1 - (natDigits d.mant).length) '0' ++ natDigits d.mant else natDigits d.mant) =
      padded d.mant (d.scale + 1) := by
    unfold padded natDigits
    split
    · rfl
    · rename_i h
      have : d.scale + 1 - (Nat.toDigits 10 d.mant).length = 0 := by omega
      simp [this]
  simp only [printDec, hp, String.toList_ofList]

theorem decFromStr_minus (r : List Char) : decFromStr ('-' :: r) = (dec64 false false 0 0 r).map (mkDec true) := rfl

theorem decFromStr_plain (c : Char) (r : List Char) (h1 : c ≠ '-') (h2 : c ≠ '+') :
    decFromStr (c :: r) = (dec64 false false 0 0 (c :: r)).map (mkDec false) := by
  unfold decFromStr
  split
  · rename_i heq; simp at heq
  · rename_i r' heq; simp at heq; exact absurd heq.1 h1
  · rename_i r' heq; simp at heq; exact absurd heq.1 h2
  · rfl

theorem mkDec_self (d : Dec) (hz : d.neg = true → d.mant ≠ 0) : mkDec d.neg (d.mant, d.scale) = d := by
  cases d with
  | mk neg mant scale =>
    cases neg with
    | false => simp [mkDec]
    | true =>
      have := hz rfl
      simp only [mkDec, Bool.true_and]
      congr
      simpa using this

/-- **numbers are read back from their print** -/
theorem decRT_small (d : Dec) (h : decSmall d) : decRT d = true := by
  obtain ⟨hm, hs, hz⟩ := h
  obtain ⟨hdig, hval, hlen, hlen'⟩ := padded_spec d.mant (d.scale + 1)
  have hprint := printDec_toList d
  -- the printed digits: integer part and fraction
  generalize hP : padded d.mant (d.scale + 1) = P at hdig hval hlen hlen' hprint
  have hsplit : P.take (P.length - d.scale) ++ P.drop (P.length - d.scale) = P := List.take_append_drop _ _
  have hfl : (P.drop (P.length - d.scale)).length = d.scale := by simp; omega
  have hip : (P.take (P.length - d.scale)) ≠ [] := by
    intro h0
    have : (P.take (P.length - d.scale)).length = 0 := by rw [h0]; rfl
    simp at this; omega
  generalize hIP : P.take (P.length - d.scale) = IP at hsplit hip hprint
  generalize hFP : P.drop (P.length - d.scale) = FP at hsplit hfl hprint
  have hvalP : digitsVal 0 (IP ++ FP) < willOverflowU64 := by
    rw [hsplit, hval]; exact Nat.lt_trans hm (by decide)
  have hipd : ∀ c ∈ IP, c.isDigit = true := fun c hc => hdig c (by rw [← hsplit]; simp [hc])
  have hfpd : ∀ c ∈ FP, c.isDigit = true := fun c hc => hdig c (by rw [← hsplit]; simp [hc])
  have hipv : digitsVal 0 IP < willOverflowU64 := by
    have := digitsVal_ge FP (digitsVal 0 IP)
    rw [← digitsVal_append] at this
    omega
  have hvalS : digitsVal (digitsVal 0 IP) FP = d.mant := by rw [← digitsVal_append, hsplit, hval]
  -- what the parser makes of the unsigned text
  have core : dec64 false false 0 0 (IP ++ (if d.scale == 0 then [] else '.' :: FP)) = some (d.mant, d.scale) := by
    rw [dec64_digits false IP false 0 0 _ hip hipd (by simp) hipv]
    simp only [Bool.false_eq_true, if_false]
    by_cases h0 : d.scale = 0
    · have hd0 : FP = [] := List.eq_nil_of_length_eq_zero (by rw [hfl, h0])
      subst hd0
      rw [dv_nil] at hvalS
      simp only [h0, beq_self_eq_true, if_true]
      rw [dec64_nil, hvalS]
    · have hne : (d.scale == 0) = false := by simpa using h0
      have hfne : FP ≠ [] := by
        intro h1; rw [h1] at hfl; simp at hfl; omega
      simp only [hne, Bool.false_eq_true, if_false]
      have hdot : dec64 false true (digitsVal 0 IP) 0 ('.' :: FP) = dec64 true true (digitsVal 0 IP) 0 FP := by
        conv => lhs; unfold dec64
        simp +decide
      rw [hdot]
      have hrun := dec64_digits true FP true (digitsVal 0 IP) 0 [] hfne hfpd
        (by intro _; rw [hfl]; omega) (by rw [← digitsVal_append]; exact hvalP)
      rw [List.append_nil] at hrun
      rw [hrun, hvalS, hfl]
      simp only [if_true, Nat.zero_add]
      rw [dec64_nil]
  have hself := mkDec_self d hz
  have hfinal : decFromStr (printDec d).toList = some d := by
    rw [hprint]
    cases hneg : d.neg with
    | true =>
      rw [hneg] at hself
      simp only [if_true, List.cons_append, List.nil_append, List.append_assoc]
      rw [decFromStr_minus, core, Option.map_some, hself]
    | false =>
      rw [hneg] at hself
      cases hq : IP with
      | nil => exact absurd hq hip
      | cons c r =>
        have hcd : c.isDigit = true := hipd c (by rw [hq]; simp)
        have hcm : c ≠ '-' := by intro e; subst e; exact absurd hcd (by decide)
        have hcp : c ≠ '+' := by intro e; subst e; exact absurd hcd (by decide)
        rw [hq] at core
        simp only [Bool.false_eq_true, if_false, List.nil_append, List.cons_append] at core ⊢
        rw [decFromStr_plain c _ hcm hcp, core, Option.map_some, hself]
  unfold decRT
  simp [decimalOfText, hfinal]

/-! ## dates -/

theorem pad_toList (n w : Nat) : (Date.pad n w).toList = padded n w := by
  have : n.repr.length = (Nat.toDigits 10 n).length := by rw [← String.length_toList, Nat.toList_repr]
  simp [Date.pad, padded, toString, Nat.toList_repr, String.toList_append, this]

theorem isDigit_not_ws (c : Char) (h : c.isDigit = true) : rustWs c = false := by
  simp only [Char.isDigit, Bool.and_eq_true, decide_eq_true_eq] at h
  have h1 : 48 ≤ c.toNat := by
    have := h.1; simpa [UInt32.le_iff_toNat_le] using this
  have h2 : c.toNat ≤ 57 := by
    have := h.2; simpa [UInt32.le_iff_toNat_le] using this
  unfold rustWs
  simp only [Bool.or_eq_false_iff, Bool.and_eq_false_iff, decide_eq_false_iff_not, beq_eq_false_iff_ne]
  refine ⟨⟨⟨⟨⟨⟨⟨⟨⟨⟨?_, ?_⟩, ?_⟩, ?_⟩, ?_⟩, ?_⟩, ?_⟩, ?_⟩, ?_⟩, ?_⟩, ?_⟩ <;> omega

/-- `scan::number` on exactly `w` digits followed by something that is not a digit -/
theorem scanNumber_exact (w : Nat) (P rest : List Char) (hd : ∀ c ∈ P, c.isDigit = true) (hl : P.length = w) (hw : 0 < w)
    (hrest : ∀ c r, rest = c :: r → c.isDigit = false) (hv : digitsVal 0 P < 2 ^ 63) :
    scanNumber (some w) (P ++ rest) = some (digitsVal 0 P, rest) := by
  have htw : (P ++ rest).takeWhile Char.isDigit = P := by
    rw [List.takeWhile_append_of_pos hd]
    cases rest with
    | nil => simp
    | cons c r => simp [List.takeWhile, hrest c r rfl]
  unfold scanNumber
  simp only [htw]
  have ht : P.take w = P := by rw [← hl]; exact List.take_length
  have hne : P.isEmpty = false := by
    cases P with
    | nil => simp at hl; omega
    | cons c r => rfl
  simp only [ht, hne, Bool.false_eq_true, if_false]
  have hge : ¬ (digitsVal 0 P ≥ 2 ^ 63) := by omega
  rw [if_neg hge, List.drop_left' rfl]

/-- a valid date with a four-digit year is read back from its `YYYY-MM-DD` print -/
theorem dateRT_repr (d : Date) (hv : d.valid = true) (h0 : 0 ≤ d.y) (h9 : d.y ≤ 9999) : dateRT d = true := by
  -- the three fields as digits
  have hm12 : 1 ≤ d.m ∧ d.m ≤ 12 := by
    simp only [Date.valid, Bool.and_eq_true, decide_eq_true_eq] at hv; exact ⟨hv.1.1.1, hv.1.1.2⟩
  have hd31 : d.d ≤ 31 := by
    simp only [Date.valid, Bool.and_eq_true, decide_eq_true_eq] at hv
    have := hv.2
    have hmx : Date.daysInMonth d.y d.m ≤ 31 := by
      unfold Date.daysInMonth
      split <;> (try split) <;> omega
    omega
  obtain ⟨y, hy⟩ : ∃ y : Nat, d.y = (y : Int) := ⟨d.y.toNat, by omega⟩
  have hy9 : y ≤ 9999 := by omega
  have hnat : d.y.natAbs = y := by rw [hy]; simp
  have hyl : (Nat.toDigits 10 y).length ≤ 4 := (Nat.length_toDigits_le_iff (by decide) (by decide)).mpr (by omega)
  have hml : (Nat.toDigits 10 d.m).length ≤ 2 := (Nat.length_toDigits_le_iff (by decide) (by decide)).mpr (by omega)
  have hdl : (Nat.toDigits 10 d.d).length ≤ 2 := (Nat.length_toDigits_le_iff (by decide) (by decide)).mpr (by omega)
  obtain ⟨yd, yv, _, yl⟩ := padded_spec y 4
  obtain ⟨md, mv, _, ml⟩ := padded_spec d.m 2
  obtain ⟨dd, dv, _, dl⟩ := padded_spec d.d 2
  have htext : d.fmtHyphen.toList = padded y 4 ++ '-' :: (padded d.m 2 ++ '-' :: (padded d.d 2 ++ [])) := by
    have hneg : ¬ (d.y < 0) := by omega
    simp [Date.fmtHyphen, hneg, String.toList_append, pad_toList, hnat]
  generalize padded y 4 = Y at yd yv yl htext
  generalize padded d.m 2 = M at md mv ml htext
  generalize padded d.d 2 = D at dd dv dl htext
  have yl := yl hyl; have ml := ml hml; have dl := dl hdl
  unfold dateRT
  rw [htext]
  -- year
  cases hY : Y with
  | nil => rw [hY] at yl; simp at yl
  | cons c0 Yr =>
    have hc0 : c0.isDigit = true := yd c0 (by rw [hY]; simp)
    have hws : rustWs c0 = false := isDigit_not_ws c0 hc0
    have hcm : c0 ≠ '-' := by intro e; subst e; exact absurd hc0 (by decide)
    have hcp : c0 ≠ '+' := by intro e; subst e; exact absurd hc0 (by decide)
    have hyear : scanYear (Y ++ '-' :: (M ++ '-' :: (D ++ []))) = some ((y : Int), '-' :: (M ++ '-' :: (D ++ []))) := by
      have hs := scanNumber_exact 4 Y ('-' :: (M ++ '-' :: (D ++ []))) yd yl (by decide)
        (fun c r h => by injection h with h1 _; subst h1; decide) (by rw [yv]; omega)
      unfold scanYear
      rw [hY] at hs ⊢
      simp only [List.cons_append, List.dropWhile, hws]
      split
      · rename_i r heq; simp at heq; exact absurd heq.1 hcm
      · rename_i r heq; simp at heq; exact absurd heq.1 hcp
      · simp only [List.cons_append] at hs
        rw [hs, ← hY, yv]; rfl
    -- month and day
    have hM : M ≠ [] := by intro h; rw [h] at ml; simp at ml
    have hD : D ≠ [] := by intro h; rw [h] at dl; simp at dl
    have hmonth : scan2 (M ++ '-' :: (D ++ [])) = some (d.m, '-' :: (D ++ [])) := by
      have hs := scanNumber_exact 2 M ('-' :: (D ++ [])) md ml (by decide)
        (fun c r h => by injection h with h1 _; subst h1; decide) (by rw [mv]; omega)
      unfold scan2
      cases hM' : M with
      | nil => exact absurd hM' hM
      | cons c1 Mr =>
        have hw1 : rustWs c1 = false := isDigit_not_ws c1 (md c1 (by rw [hM']; simp))
        rw [hM'] at hs
        simp only [List.cons_append, List.dropWhile, hw1] at hs ⊢
        rw [hs, ← hM', mv]
    have hday : scan2 (D ++ []) = some (d.d, []) := by
      have hs := scanNumber_exact 2 D [] dd dl (by decide) (fun c r h => by cases h) (by rw [dv]; omega)
      unfold scan2
      cases hD' : D with
      | nil => exact absurd hD' hD
      | cons c1 Dr =>
        have hw1 : rustWs c1 = false := isDigit_not_ws c1 (dd c1 (by rw [hD']; simp))
        rw [hD'] at hs
        simp only [List.cons_append, List.dropWhile, hw1] at hs ⊢
        rw [hs, ← hD', dv]
    have hminus : rustWs '-' = false := by decide
    have hscan : scanDate (Y ++ '-' :: (M ++ '-' :: (D ++ []))) = some ((y : Int), d.m, d.d, []) := by
      unfold scanDate
      rw [hyear]
      simp only [Option.bind_eq_bind, Option.bind_some, List.dropWhile, hminus, expectChar, beq_self_eq_true, if_true,
        hmonth, hday, bind, Option.bind, pure]
    rw [← hY] 
    simp only [naiveDateOfText, hscan, bind, Option.bind, List.dropWhile, List.isEmpty_nil, Bool.not_true, Bool.false_eq_true,
      if_false, mkDate]
    have hdate : (⟨(y : Int), d.m, d.d⟩ : Date) = d := by
      cases d with
      | mk dy dm ddd => simp at hy ⊢; exact hy.symm
    rw [hdate, hv]
    have : (-262143 ≤ (y : Int)) ∧ ((y : Int) ≤ 262142) := by omega
    simp [this.1, this.2]

/-! ## `Renderable` from what the numbers and dates are -/

/-- a valid date with a four-digit year -/
def dateRep (d : Date) : Prop := d.valid = true ∧ 0 ≤ d.y ∧ d.y ≤ 9999
instance (d : Date) : Decidable (dateRep d) := by unfold dateRep; infer_instance
def amountRep (a : CamtAmount) : Prop := a.currency.toList.all plainChar = true ∧ decSmall a.value
def txAmountRep (t : TxAmount) : Prop := amountRep t.amount ∧ ∀ x, t.exchange = some x → decSmall x.rate
def detailRep (d : TxDetails) : Prop :=
  amountRep d.amount ∧ (∀ t, d.txAmount = some t → txAmountRep t) ∧ ∀ c ∈ d.charges, amountRep c.amount
def entryRep (e : CamtEntry) : Prop :=
  amountRep e.amount ∧ dateRep e.bookingDate ∧ (∀ v, e.valueDate = some v → dateRep v) ∧ domainOk e.domain = true ∧
  (∀ c ∈ e.charges, amountRep c.amount) ∧ ∀ d ∈ e.details, detailRep d
def stmtRep (s : Statement) : Prop :=
  s.balances ≠ [] ∧ (∀ b ∈ s.balances, amountRep b.amount) ∧ ∀ e ∈ s.entries, entryRep e
/-- statements whose rendering decodes back, stated by what they contain: at least one statement, each with a balance;
currencies of ASCII letters / digits; domain codes of the schema; numbers of at most 18 digits and scale ≤ 17 (no negative
zero); valid dates with a year 0…9999; any text anywhere else -/
def Representable (ss : List Statement) : Prop := ss ≠ [] ∧ ∀ s ∈ ss, stmtRep s

theorem amountOk_of_rep (a : CamtAmount) (h : amountRep a) : amountOk a = true := by
  simp [amountOk, h.1, decRT_small _ h.2]

theorem dateRT_of_rep (d : Date) (h : dateRep d) : dateRT d = true := dateRT_repr d h.1 h.2.1 h.2.2

theorem txAmountOk_of_rep (t : TxAmount) (h : txAmountRep t) : txAmountOk t = true := by
  unfold txAmountOk
  rw [amountOk_of_rep _ h.1, Bool.true_and]
  cases hx : t.exchange with
  | none => rfl
  | some x => exact decRT_small _ (h.2 x hx)

theorem detailOk_of_rep (d : TxDetails) (h : detailRep d) : detailOk d = true := by
  obtain ⟨h1, h2, h3⟩ := h
  unfold detailOk
  rw [amountOk_of_rep _ h1, Bool.true_and, Bool.and_eq_true]
  refine ⟨?_, ?_⟩
  · cases ht : d.txAmount with
    | none => rfl
    | some t => exact txAmountOk_of_rep t (h2 t ht)
  · rw [List.all_eq_true]; exact fun c hc => amountOk_of_rep _ (h3 c hc)

theorem entryOk_of_rep (e : CamtEntry) (h : entryRep e) : entryOk e = true := by
  obtain ⟨h1, h2, h3, h4, h5, h6⟩ := h
  unfold entryOk
  simp only [Bool.and_eq_true]
  refine ⟨⟨⟨⟨⟨amountOk_of_rep _ h1, dateRT_of_rep _ h2⟩, ?_⟩, h4⟩, ?_⟩, ?_⟩
  · cases hv : e.valueDate with
    | none => rfl
    | some v => exact dateRT_of_rep v (h3 v hv)
  · rw [List.all_eq_true]; exact fun c hc => amountOk_of_rep _ (h5 c hc)
  · rw [List.all_eq_true]; exact fun d hd => detailOk_of_rep d (h6 d hd)

theorem renderable_of_representable (ss : List Statement) (h : Representable ss) : Renderable ss = true := by
  obtain ⟨hne, hall⟩ := h
  unfold Renderable
  rw [Bool.and_eq_true]
  refine ⟨by cases ss <;> simp_all, ?_⟩
  rw [List.all_eq_true]
  intro s hs
  obtain ⟨hb, hbal, hent⟩ := hall s hs
  unfold stmtOk
  simp only [Bool.and_eq_true]
  refine ⟨⟨by cases hq : s.balances <;> simp_all, ?_⟩, ?_⟩
  · rw [List.all_eq_true]; exact fun b hb' => amountOk_of_rep _ (hbal b hb')
  · rw [List.all_eq_true]; exact fun e he => entryOk_of_rep e (hent e he)

end Okane.Import.CamtXml
