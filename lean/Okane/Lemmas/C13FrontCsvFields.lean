import Okane.Lemmas.C13FrontFormatCsv
/-!
# C13 for `okane import` of a CSV file: the order of `format.fields`

`FieldMap::try_new` iterates `config.format.fields` (`HashMap<FieldKey, FieldPos>`) twice: to collect the labels the header
lacks, and — `for (&k, pos) in config_mapping` — to resolve every position (a template that does not parse is the error of the
first such field met).  The resulting `FieldMap` keeps the resolved map (`all`), which from then on is only looked up.

In the model the list order of `CsvCfg.fields` is that iteration order.  Proved here: for every permutation of `cfg.fields`
(distinct keys)

* `tryNew_perm` — `FieldMap::try_new` returns the same error value, or field maps that agree in every component and in every
  lookup of `all` (`FmSame`);
* `csvRows_same` … — everything `csv::import` does with a record gives the same result for `FmSame` field maps;
* `csvCmd_fields_order` — hence the whole command (`csvCmd`) writes the same text and ends the same way.

Granularity: the model's error values carry no text, so "the same error" is: the same `ImportError` variant.  The second half of
finding F32 — *which* of two unparsable templates the message names — is below that granularity (the variant is
`templateParseFailed` either way) and stays observed on the binary only; what this file adds is that the order of `format.fields`
can reach nothing else: not whether the import is accepted, not the variant of the error, not one character of the output.
-/
set_option linter.unusedSectionVars false
set_option linter.unusedSimpArgs false
namespace Okane.C13FC
open Okane Okane.Import Okane.Import.Cells Okane.C13FI Okane.C13FV

/-! ## field maps up to the layout of `all` -/

/-- the same `FieldMap` up to the order of the entries of `all` -/
structure FmSame (fm fm' : FieldMap) : Prop where
  date : fm.date = fm'.date
  payee : fm.payee = fm'.payee
  value : fm.value = fm'.value
  maxColumn : fm.maxColumn = fm'.maxColumn
  all : ∀ k, AMap.get? fm.all k = AMap.get? fm'.all k

section Same
variable {fm fm' : FieldMap} (h : FmSame fm fm')
include h

theorem queryKey_same (rec : List String) (seg : Seg) : queryKey fm rec seg = queryKey fm' rec seg := by
  cases seg <;> simp only [queryKey, h.all]

theorem renderTemplate_same (key : FieldKey) (rec : List String) :
    ∀ segs, renderTemplate fm key rec segs = renderTemplate fm' key rec segs := by
  intro segs
  induction segs with
  | nil => rfl
  | cons seg rest ih => simp only [renderTemplate, queryKey_same h, ih]

theorem resolve_same (key : FieldKey) (field : CsvField) (rec : List String) :
    fm.resolve key field rec = fm'.resolve key field rec := by
  cases field <;> simp only [FieldMap.resolve, renderTemplate_same h]

theorem extract_same (key : FieldKey) (rec : List String) : fm.extract key rec = fm'.extract key rec := by
  simp only [FieldMap.extract, h.all, resolve_same h]

theorem amount_same (env : CsvEnv) (at_ : AccountType) (rec : List String) :
    fm.amount env at_ rec = fm'.amount env at_ rec := by
  simp only [FieldMap.amount, h.value, resolve_same h]

theorem readRow_same (env : CsvEnv) (cfg : CsvCfg) (rec : List String) :
    readRow env cfg fm rec = readRow env cfg fm' rec := by
  simp only [readRow, h.maxColumn, extract_same h, amount_same h]

theorem baseTxn_same (env : CsvEnv) (cfg : CsvCfg) (rec : List String) (v : RowValues) :
    Import.baseTxn env cfg fm rec v = Import.baseTxn env cfg fm' rec v := by
  simp only [Import.baseTxn, extract_same h]

theorem buildTxn_same (env : CsvEnv) (cfg : CsvCfg) (rec : List String) (v : RowValues) :
    buildTxn env cfg fm rec v = buildTxn env cfg fm' rec v := by
  simp only [buildTxn, baseTxn_same h]

theorem csvRow_same (env : CsvEnv) (cfg : CsvCfg) (rec : List String) :
    csvRow env cfg fm rec = csvRow env cfg fm' rec := by
  simp only [csvRow, readRow_same h, buildTxn_same h]

theorem csvRows_same (env : CsvEnv) (cfg : CsvCfg) :
    ∀ records, csvRows env cfg fm records = csvRows env cfg fm' records := by
  intro records
  induction records with
  | nil => rfl
  | cons rec rest ih => simp only [csvRows, csvRow_same h, ih]

end Same

/-! ## `FieldMap::try_new` under a permutation of `format.fields` -/

/-- every label among the positions is a column of the header -/
def AllFound (header : List String) (l : List (FieldKey × CsvPos)) : Prop :=
  ∀ kv ∈ l, ∀ lab, kv.2 = .label lab → (labelIndex header lab).isSome = true

/-- the resolved position (total on positions that resolve) -/
def resolveD (header : List String) (p : CsvPos) : CsvField :=
  match resolvePos header p with
  | .ok f => f
  | _ => .column 0

theorem resolvePos_cases (header : List String) (p : CsvPos)
    (hl : ∀ lab, p = .label lab → (labelIndex header lab).isSome = true) :
    resolvePos header p = .ok (resolveD header p) ∨ (p = .badTemplate ∧ resolvePos header p = .err .templateParseFailed) := by
  cases p with
  | index i => left; rfl
  | label l =>
    left
    have := hl l rfl
    cases hi : labelIndex header l with
    | none => rw [hi] at this; cases this
    | some i => simp [resolvePos, resolveD, hi]
  | template segs => left; rfl
  | badTemplate => right; exact ⟨rfl, rfl⟩

/-- without an unparsable template every position resolves … -/
theorem resolveAll_ok (header : List String) : ∀ l : List (FieldKey × CsvPos), AllFound header l →
    (∀ kv ∈ l, kv.2 ≠ .badTemplate) → resolveAll header l = .ok (AMap.mapVals (resolveD header) l) := by
  intro l
  induction l with
  | nil => intro _ _; rfl
  | cons kv rest ih =>
    intro hf hb
    obtain ⟨k, p⟩ := kv
    have h1 := resolvePos_cases header p (fun lab hp => hf (k, p) (by simp) lab hp)
    rcases h1 with h1 | ⟨h1, _⟩
    · have ih' := ih (fun x hx => hf x (List.mem_cons_of_mem _ hx)) (fun x hx => hb x (List.mem_cons_of_mem _ hx))
      simp only [resolveAll, h1, ih']
      rfl
    · exact absurd h1 (hb (k, p) (by simp))

/-- … with one, the error is `templateParseFailed`, wherever it stands -/
theorem resolveAll_bad (header : List String) : ∀ l : List (FieldKey × CsvPos), AllFound header l →
    (∃ kv ∈ l, kv.2 = .badTemplate) → resolveAll header l = .err .templateParseFailed := by
  intro l
  induction l with
  | nil => intro _ ⟨kv, hkv, _⟩; simp at hkv
  | cons kv rest ih =>
    intro hf hb
    obtain ⟨k, p⟩ := kv
    have h1 := resolvePos_cases header p (fun lab hp => hf (k, p) (by simp) lab hp)
    rcases h1 with h1 | ⟨_, h1⟩
    · have hrest : ∃ kv ∈ rest, kv.2 = .badTemplate := by
        obtain ⟨x, hx, hxb⟩ := hb
        rcases List.mem_cons.1 hx with rfl | hx
        · simp only at hxb
          rw [hxb] at h1
          simp [resolvePos] at h1
        · exact ⟨x, hx, hxb⟩
      have ih' := ih (fun x hx => hf x (List.mem_cons_of_mem _ hx)) hrest
      simp only [resolveAll, h1, ih']
    · simp only [resolveAll, h1]

theorem foldl_max_perm {l l' : List Nat} (h : l.Perm l') : ∀ a, l.foldl max a = l'.foldl max a := by
  induction h with
  | nil => intro _; rfl
  | cons x _ ih => intro a; simp only [List.foldl_cons, ih]
  | swap x y l =>
    intro a
    simp only [List.foldl_cons]
    congr 1
    omega
  | trans _ _ ih1 ih2 => intro a; rw [ih1, ih2]

/-- the two runs of `FieldMap::try_new` end the same way: the same error, or field maps that are `FmSame` -/
def TrySame : Outcome ImportErr FieldMap → Outcome ImportErr FieldMap → Prop
  | .ok a, .ok b => FmSame a b
  | .err e, .err e' => e = e'
  | .panic s, .panic s' => s = s'
  | .fuelOut, .fuelOut => True
  | _, _ => False

/-- **`FieldMap::try_new` does not depend on the iteration order of `format.fields`**: the same error, or field maps that agree
in every component and in every lookup. -/
theorem tryNew_perm {fields fields' : AMap FieldKey CsvPos} (h : fields.Perm fields') (hwf : AMap.WF fields)
    (header : List String) :
    TrySame (FieldMap.tryNew fields header) (FieldMap.tryNew fields' header) := by
  let isMissing : FieldKey × CsvPos → Bool := fun kv => match kv.2 with
    | .label l => (labelIndex header l).isNone
    | _ => false
  have hnf : (fields.filter isMissing).isEmpty = (fields'.filter isMissing).isEmpty := by
    have := (h.filter isMissing).length_eq
    cases h1 : fields.filter isMissing <;> cases h2 : fields'.filter isMissing <;> simp_all
  unfold FieldMap.tryNew
  simp only []
  show TrySame (if !(fields.filter isMissing).isEmpty then _ else _)
    (if !(fields'.filter isMissing).isEmpty then _ else _)
  rw [← hnf]
  by_cases hm : (fields.filter isMissing).isEmpty = true
  · simp only [hm, Bool.not_true, Bool.false_eq_true, if_false]
    have hfound : AllFound header fields := by
      intro kv hkv lab hlab
      have hnot : kv ∉ fields.filter isMissing := by
        have : fields.filter isMissing = [] := by simpa using hm
        rw [this]; simp
      have : isMissing kv = false := by
        cases hmk : isMissing kv with
        | false => rfl
        | true => exact absurd (List.mem_filter.2 ⟨hkv, hmk⟩) hnot
      simp only [isMissing, hlab] at this
      cases hi : labelIndex header lab with
      | none => simp [hi] at this
      | some i => rfl
    have hfound' : AllFound header fields' := fun kv hkv => hfound kv (h.symm.subset hkv)
    by_cases hbad : ∃ kv ∈ fields, kv.2 = .badTemplate
    · have hbad' : ∃ kv ∈ fields', kv.2 = .badTemplate := by
        obtain ⟨kv, hkv, hb⟩ := hbad
        exact ⟨kv, h.subset hkv, hb⟩
      rw [resolveAll_bad header fields hfound hbad, resolveAll_bad header fields' hfound' hbad']
      simp [TrySame]
    · have hnb : ∀ kv ∈ fields, kv.2 ≠ .badTemplate := fun kv hkv hb => hbad ⟨kv, hkv, hb⟩
      have hnb' : ∀ kv ∈ fields', kv.2 ≠ .badTemplate := fun kv hkv => hnb kv (h.symm.subset hkv)
      rw [resolveAll_ok header fields hfound hnb, resolveAll_ok header fields' hfound' hnb']
      have hp : (AMap.mapVals (resolveD header) fields).Perm (AMap.mapVals (resolveD header) fields') := by
        unfold AMap.mapVals; exact h.map _
      have hw : AMap.WF (AMap.mapVals (resolveD header) fields) := AMap.WF_mapVals _ _ hwf
      have hget := fun k => C13.get?_perm hp hw k
      have hmax : ((AMap.mapVals (resolveD header) fields).filterMap fun kv => match kv.2 with
            | .column i => some i
            | .template _ => none).foldl max 0 =
          ((AMap.mapVals (resolveD header) fields').filterMap fun kv => match kv.2 with
            | .column i => some i
            | .template _ => none).foldl max 0 := foldl_max_perm (hp.filterMap _) 0
      simp only [← hget, hmax]
      cases AMap.get? (AMap.mapVals (resolveD header) fields) .date with
      | none => simp [TrySame]
      | some date =>
        cases AMap.get? (AMap.mapVals (resolveD header) fields) .payee with
        | none => simp [TrySame]
        | some payee =>
          cases AMap.get? (AMap.mapVals (resolveD header) fields) .amount with
          | some a => exact ⟨rfl, rfl, rfl, hmax, hget⟩
          | none =>
            cases AMap.get? (AMap.mapVals (resolveD header) fields) .credit <;>
              cases AMap.get? (AMap.mapVals (resolveD header) fields) .debit <;>
              first | (simp [TrySame]; done) | exact ⟨rfl, rfl, rfl, hmax, hget⟩
  · simp only [hm, Bool.not_false, if_true]
    simp [TrySame]

/-! ## the whole command -/

theorem csvImport_fields_order (env : CsvEnv) (cfg : CsvCfg) {fields' : AMap FieldKey CsvPos} (h : cfg.fields.Perm fields')
    (hwf : AMap.WF cfg.fields) (header : List String) (records : List (List String)) :
    csvImport env { cfg with fields := fields' } header records = csvImport env cfg header records := by
  have ht := tryNew_perm h hwf header
  have hrows : ∀ fm, csvRows env { cfg with fields := fields' } fm records = csvRows env cfg fm records := by
    intro fm
    induction records with
    | nil => rfl
    | cons rec rest ih =>
      have : csvRow env { cfg with fields := fields' } fm rec = csvRow env cfg fm rec := rfl
      simp only [csvRows, this, ih]
  simp only [csvImport, csvImportFlagged]
  cases h1 : FieldMap.tryNew cfg.fields header <;> cases h2 : FieldMap.tryNew fields' header <;>
    rw [h1, h2] at ht <;> simp only [TrySame] at ht
  · rename_i fm fm'
    simp only [hrows, ← csvRows_same ht]
  · subst ht; rfl
  · subst ht; rfl

/-- **C13_import_csv_fields.**  `okane import` of a CSV file as a whole command does not depend on the iteration order of
`format.fields`. -/
theorem csvCmd_fields_order (pd : String → Option Date) (cap : Captures) (vp : String → Bool) (cfg : CsvCfg)
    (commodity : AMap String Nat) (w : List Char → Nat) {fields' : AMap FieldKey CsvPos} (h : cfg.fields.Perm fields')
    (hwf : AMap.WF cfg.fields) (header : List String) (records : List (List String)) :
    csvCmd pd cap vp { cfg with fields := fields' } commodity w header records =
      csvCmd pd cap vp cfg commodity w header records := by
  have ht := tryNew_perm h hwf header
  have hi := csvImport_fields_order (cellEnv pd cap) cfg h hwf header records
  simp only [csvCmd, hi]
  cases h1 : FieldMap.tryNew cfg.fields header <;> cases h2 : FieldMap.tryNew fields' header <;>
    rw [h1, h2] at ht <;> simp only [TrySame] at ht <;> (try subst ht) <;> rfl

/-- non-vacuity: the example configuration with its four fields in the reverse order -/
example : csvCmd exDates exCapC (fun _ => true) { exCfgC with fields := exCfgC.fields.reverse } [("CHF", 2)] Unparse.widthStd
      exHeader exRecords =
    csvCmd exDates exCapC (fun _ => true) exCfgC [("CHF", 2)] Unparse.widthStd exHeader exRecords :=
  csvCmd_fields_order _ _ _ exCfgC _ _ (List.reverse_perm _).symm (by unfold AMap.WF AMap.keys; decide) exHeader exRecords

example : (FieldMap.tryNew exCfgC.fields exHeader).isOk = true ∧
    (match FieldMap.tryNew exCfgC.fields exHeader, FieldMap.tryNew exCfgC.fields.reverse exHeader with
     | .ok fm, .ok fm' => decide (fm.all ≠ fm'.all) | _, _ => false) = true := by decide +kernel

/-- the error branch: two unparsable templates and a missing label, in both orders -/
example : FieldMap.tryNew [(.date, .index 1), (.payee, .badTemplate), (.note, .badTemplate)] exHeader =
    FieldMap.tryNew [(.note, .badTemplate), (.payee, .badTemplate), (.date, .index 1)] exHeader := by decide +kernel

end Okane.C13FC
