import Okane.Props.C05
import Okane.Lemmas.PrintersAgreeLayout
/-!
# C05 and C19 about one and the same text

For well-formed, plain entries (the hypotheses of the C05 round trip) the text `Unparse.formatEntries` writes

* is the text of the C19 printer model (`Print.formatEntriesG`, the one compared byte for byte with `display.rs`),
* parses back to the same entries and is a fixed point of `format` (C05),
* and is laid out as C19 says (gap ≥ 2 on every posting line; posting and metadata lines indented by four blanks;
  entries separated by exactly one empty line).

`wfEntry` already gives `datesOK` (`wfEntry_datesOK`), `AccountOK` of every posting (`wfPosting_accountOK`) and — except
for lot notes, in which `wfEntry` tolerates a line feed (the transaction code must be closed on its line, so `wfEntry`
admits no line feed there) — `entryNoLF` (`wfEntry_entryNoLF`).
-/
set_option linter.unusedSimpArgs false

namespace Okane.PrintersAgree
open Okane Okane.Print

/-! ## what `wfEntry` says about line feeds and accounts -/

theorem noEol_nlf {s : List Char} (h : Unparse.noEol s = true) : '\n' ∉ s := by
  intro hm
  have := List.all_eq_true.mp h '\n' hm
  simp [Comb.isEol] at this

theorem wfTag_nlf {s : List Char} (h : Unparse.wfTag s = true) : '\n' ∉ s := by
  intro hm
  simp only [Unparse.wfTag, Bool.and_eq_true] at h
  have := List.all_eq_true.mp h.2 '\n' hm
  simp [Unparse.isTagChar, Parse.isAsciiWhitespace] at this

theorem wfMetaText_nlf {s : List Char} (h : Unparse.wfMetaText s = true) : '\n' ∉ s := by
  simp only [Unparse.wfMetaText, Bool.and_eq_true] at h
  exact noEol_nlf h.1.1

theorem wfRestOfLine_nlf {s : List Char} (h : Unparse.wfRestOfLine s = true) : '\n' ∉ s := by
  simp only [Unparse.wfRestOfLine, Bool.and_eq_true] at h
  exact noEol_nlf h.1.1

theorem wfMetaValue_nlf {v : MetaValue} (h : Unparse.wfMetaValue v = true) : metaValueNoLF v := by
  cases v with
  | text s => exact wfMetaText_nlf h
  | expr s => exact wfMetaText_nlf h

theorem wfMetadata_nlf {m : Metadata} (h : Unparse.wfMetadata m = true) : metadataNoLF m := by
  cases m with
  | comment s =>
    simp only [Unparse.wfMetadata, Bool.and_eq_true] at h
    exact noEol_nlf h.1.1.1.1
  | wordTags ts =>
    simp only [Unparse.wfMetadata, Bool.and_eq_true] at h
    intro t ht
    exact wfTag_nlf (List.all_eq_true.mp h.2 t ht)
  | keyValue k v =>
    simp only [Unparse.wfMetadata, Bool.and_eq_true] at h
    exact ⟨wfTag_nlf h.1, wfMetaValue_nlf h.2⟩

theorem commodityText_nlf {c : String} (h : Unparse.isCommodityText c.toList = true) : NoLF c := by
  intro hm
  have := List.all_eq_true.mp h '\n' hm
  revert this
  decide

mutual
theorem wfExpr_nlf : ∀ e : Expr,
    (Unparse.wfAdd e = true → exprNoLF e) ∧ (Unparse.wfMul e = true → exprNoLF e) ∧ (Unparse.wfUnary e = true → exprNoLF e)
  | .neg e => by
    have hu : Unparse.wfUnary (.neg e) = true → exprNoLF (.neg e) := by
      intro h
      cases e with
      | val v =>
        rw [exprNoLF, exprNoLF]
        exact wfVExpr_nlf v (by simpa [Unparse.wfUnary] using h)
      | neg e' => simp [Unparse.wfUnary] at h
      | bin op l r => simp [Unparse.wfUnary] at h
    refine ⟨fun h => hu (by simpa [Unparse.wfAdd, Unparse.wfMul] using h), fun h => hu (by simpa [Unparse.wfMul] using h), hu⟩
  | .val v => by
    have hu : Unparse.wfUnary (.val v) = true → exprNoLF (.val v) := by
      intro h
      rw [exprNoLF]
      exact wfVExpr_nlf v (by simpa [Unparse.wfUnary] using h)
    refine ⟨fun h => hu (by simpa [Unparse.wfAdd, Unparse.wfMul] using h), fun h => hu (by simpa [Unparse.wfMul] using h), hu⟩
  | .bin op l r => by
    have ihl := wfExpr_nlf l
    have ihr := wfExpr_nlf r
    have hm : Unparse.wfMul (.bin op l r) = true → exprNoLF (.bin op l r) := by
      intro h
      rw [exprNoLF]
      cases op <;> simp [Unparse.wfMul] at h
      · exact ⟨ihl.2.1 h.1, ihr.2.2 h.2⟩
      · exact ⟨ihl.2.1 h.1, ihr.2.2 h.2⟩
    refine ⟨?_, hm, fun h => by simp [Unparse.wfUnary] at h⟩
    intro h
    cases op with
    | add => rw [exprNoLF]; simp [Unparse.wfAdd] at h; exact ⟨ihl.1 h.1, ihr.2.1 h.2⟩
    | sub => rw [exprNoLF]; simp [Unparse.wfAdd] at h; exact ⟨ihl.1 h.1, ihr.2.1 h.2⟩
    | mul => exact hm (by simpa [Unparse.wfAdd] using h)
    | div => exact hm (by simpa [Unparse.wfAdd] using h)
theorem wfVExpr_nlf : ∀ v : VExpr, Unparse.wfVExpr v = true → vexprNoLF v
  | .paren e => by
    intro h
    rw [vexprNoLF]
    exact (wfExpr_nlf e).1 (by simpa [Unparse.wfVExpr] using h)
  | .amt d c => by
    intro h
    rw [vexprNoLF]
    simp only [Unparse.wfVExpr, Bool.and_eq_true] at h
    exact commodityText_nlf h.2
end

theorem wfExchange_nlf {x : Exchange} (h : Unparse.wfExchange x = true) : exchangeNoLF x := by
  cases x with
  | total v => exact wfVExpr_nlf v h
  | rate v => exact wfVExpr_nlf v h

/-- the one field in which `wfEntry` tolerates a line feed: lot notes (anything but `(`, `)`, `@`) — the parser reads them up
to the closing parenthesis, across line ends.  (The transaction code is no such field: `paren_str` must close on its line,
and `wfCode` excludes CR and LF.) -/
def lotNoteNoLF : Entry → Bool
  | .txn t =>
    t.posts.all fun p =>
      match p.amount with
      | some a => (match a.lot.note with
        | some n => !n.toList.contains '\n'
        | none => true)
      | none => true
  | _ => true

theorem wfPosting_nlf {p : Posting} (h : Unparse.wfPosting p = true)
    (hn : ∀ a, p.amount = some a → ∀ n, a.lot.note = some n → '\n' ∉ n.toList) : postingNoLF p := by
  simp only [Unparse.wfPosting, Bool.and_eq_true] at h
  obtain ⟨⟨⟨⟨hacc, _⟩, hamt⟩, hbal⟩, hmeta⟩ := h
  refine ⟨?_, ?_, ?_, ?_⟩
  · intro hm
    simp only [Unparse.wfAccount, Bool.and_eq_true] at hacc
    have := List.all_eq_true.mp hacc.1.1.1.2 '\n' hm
    simp at this
  · cases ha : p.amount with
    | none => trivial
    | some a =>
      rw [ha] at hamt
      simp only [Unparse.wfPostingAmount, Bool.and_eq_true] at hamt
      obtain ⟨⟨hv, hlot⟩, hcost⟩ := hamt
      simp only [Unparse.wfLot, Bool.and_eq_true] at hlot
      refine ⟨wfVExpr_nlf _ hv, ?_, ?_, ?_⟩
      · cases hc : a.cost with
        | none => trivial
        | some x => rw [hc] at hcost; exact wfExchange_nlf hcost
      · cases hp : a.lot.price with
        | none => trivial
        | some x =>
          have := hlot.1.1
          rw [hp] at this
          exact wfExchange_nlf this
      · cases hno : a.lot.note with
        | none => trivial
        | some n => exact hn a ha n hno
  · cases hb : p.balance with
    | none => trivial
    | some b => rw [hb] at hbal; exact wfVExpr_nlf b hbal
  · intro m hm
    exact wfMetadata_nlf (List.all_eq_true.mp hmeta m hm)

/-- a well-formed entry whose lot notes hold no line feed has no line feed in any single-line field -/
theorem wfEntry_entryNoLF {e : Entry} (h : Unparse.wfEntry e = true) (hc : lotNoteNoLF e = true) : entryNoLF e := by
  cases e with
  | txn t =>
    simp only [Unparse.wfEntry, Unparse.wfTransaction, Bool.and_eq_true] at h
    obtain ⟨⟨⟨⟨_, hcodewf⟩, hpay⟩, hmeta⟩, hposts⟩ := h
    simp only [lotNoteNoLF] at hc
    refine ⟨?_, ?_, ?_, ?_⟩
    · intro hm
      simp only [Unparse.wfPayee, Bool.and_eq_true] at hpay
      have := List.all_eq_true.mp hpay.1.1.1 '\n' hm
      simp at this
    · cases hcode : t.code with
      | none => trivial
      | some c =>
        rw [hcode] at hcodewf
        show '\n' ∉ c.toList
        intro hm
        have := List.all_eq_true.mp hcodewf '\n' hm
        simp [Parse.isParenStrStop] at this
    · intro m hm
      exact wfMetadata_nlf (List.all_eq_true.mp hmeta m hm)
    · intro p hp
      refine wfPosting_nlf (List.all_eq_true.mp hposts p hp) ?_
      intro a ha n hn
      have := List.all_eq_true.mp hc p hp
      rw [ha] at this
      simp only [hn] at this
      simpa using this
  | comment s => trivial
  | applyTag k v =>
    simp only [Unparse.wfEntry, Bool.and_eq_true] at h
    refine ⟨wfTag_nlf h.1, ?_⟩
    cases v with
    | none => trivial
    | some x => exact wfMetaValue_nlf h.2
  | endApplyTag => trivial
  | «include» p => exact wfRestOfLine_nlf (by simpa [Unparse.wfEntry] using h)
  | account n ds =>
    simp only [Unparse.wfEntry, Bool.and_eq_true] at h
    refine ⟨wfRestOfLine_nlf h.1.1, ?_⟩
    intro d hd
    have := List.all_eq_true.mp h.1.2 d hd
    cases d with
    | alias s => exact wfRestOfLine_nlf this
    | comment s => trivial
    | note s => trivial
  | commodity n ds =>
    simp only [Unparse.wfEntry, Bool.and_eq_true] at h
    refine ⟨wfRestOfLine_nlf h.1.1, ?_⟩
    intro d hd
    have := List.all_eq_true.mp h.1.2 d hd
    cases d with
    | alias s => exact wfRestOfLine_nlf this
    | format v c =>
      simp only [Unparse.wfCommodityDetail, Bool.and_eq_true] at this
      exact commodityText_nlf this.2
    | comment s => trivial
    | note s => trivial

/-- a well-formed posting has an account that is not empty and does not start with a blank -/
theorem wfPosting_accountOK {p : Posting} (h : Unparse.wfPosting p = true) : AccountOK p := by
  simp only [Unparse.wfPosting, Unparse.wfAccount, Bool.and_eq_true] at h
  obtain ⟨⟨⟨⟨⟨⟨⟨⟨hne, _⟩, hst⟩, _⟩, _⟩, _⟩, _⟩, _⟩, _⟩ := h
  cases hs : p.account.toList with
  | nil => simp [hs] at hne
  | cons c cs =>
    refine ⟨c, cs, hs, ?_⟩
    rintro rfl
    simp [hs, Unparse.startTrimmed, Parse.isRustWhitespace] at hst

theorem wfEntry_postings {t : Transaction} (h : Unparse.wfEntry (.txn t) = true) : ∀ p ∈ t.posts, Unparse.wfPosting p = true := by
  simp only [Unparse.wfEntry, Unparse.wfTransaction, Bool.and_eq_true] at h
  exact fun p hp => List.all_eq_true.mp h.2 p hp

/-- a well-formed top-level comment has text -/
theorem wfEntry_comment_ne {s : String} (h : Unparse.wfEntry (.comment s) = true) : s.toList ≠ [] := by
  intro hs
  simp [Unparse.wfEntry, Unparse.wfMultiline, hs, Unparse.splitLines] at h

/-! ## the round trip (C05) holds for the text of the C19 printer model -/

/-- **C05 for `Okane.Print`**: for well-formed plain entries, the text written by the printer model that is compared
byte for byte with `display.rs` (`Print.formatEntriesG`) is the text `Unparse.formatEntries` writes; it parses back to the
same entries and is a fixed point of `format` — for every per-character width function that gives the clear marks one
column -/
theorem C05_for_Print (cx : Ctx) (h : NumIs cx Unparse.noPrec) (hc : ClearOK cx.w) (es : List Entry)
    (hwf : ∀ e ∈ es, Unparse.wfEntry e = true) (hpl : ∀ e ∈ es, C05.plainEntry e = true) :
    Unparse.formatEntries (strWidth cx.w) es = formatEntriesG cx es
    ∧ Parse.parseEntries (formatEntriesG cx es) = .ok es
    ∧ Unparse.format (strWidth cx.w) (formatEntriesG cx es) = .ok (formatEntriesG cx es) := by
  have ha := formatEntries_agree cx h hc es (fun e he => wfEntry_datesOK (hwf e he))
  have hf := C05.C05_format_fixed (strWidth cx.w) es hwf hpl
  rw [ha] at hf
  exact ⟨ha, hf.1, hf.2⟩

/-- the same for the printer as okane runs it (`Print.formatEntries` with `DisplayContext::default()`, unicode-width's
table): what it writes for well-formed plain entries is read back as those entries -/
theorem C05_for_Print_std (es : List Entry)
    (hwf : ∀ e ∈ es, Unparse.wfEntry e = true) (hpl : ∀ e ∈ es, C05.plainEntry e = true) :
    Parse.parseEntries (Print.formatEntries (fun _ => 0) es) = .ok es :=
  (C05_for_Print (Ctx.std (fun _ => 0)) (std_numIs _) (std_clearOK _) es hwf hpl).2.1

/-- one entry: the printed entry of the C19 model, followed by the empty line, is read back by the entry parser -/
theorem C05_entry_for_Print (cx : Ctx) (h : NumIs cx Unparse.noPrec) (hc : ClearOK cx.w) (e : Entry)
    (hwf : Unparse.wfEntry e = true) (hpl : C05.plainEntry e = true) (rest : List Char) :
    Parse.parseLedgerEntry (printEntryG cx e ++ '\n' :: rest) = .ok e ('\n' :: rest) := by
  have := (C05.C05_entry (strWidth cx.w) e hwf hpl).2 rest
  rwa [printEntry_agree cx h hc e (wfEntry_datesOK hwf)] at this

/-! ## round trip and layout of the same text -/

/-- **C05 + C19 on one text.**  For well-formed plain entries whose lot notes hold no line feed, the
text `t = Unparse.formatEntries w es` (`w` = sum of per-character widths `cx.w`, any `cx.w` satisfying `LayoutW`):
(1) parses back to `es` and is a fixed point of `format` (C05); (2) is the text of the C19 printer model;
(3) consists, entry by entry, of the entry's lines — at least one, none empty — followed by exactly one empty line
(C19_blank); (4) in every transaction, every line after the first starts with exactly four blanks (C19_indent);
(5) every posting is printed as four blanks, clear mark, account, a run of blanks — at least two when an amount or a
balance follows —, and the rest (C19_gap). -/
theorem C05_C19_format (cx : Ctx) (h : NumIs cx Unparse.noPrec) (hw : LayoutW cx.w) (es : List Entry)
    (hwf : ∀ e ∈ es, Unparse.wfEntry e = true) (hpl : ∀ e ∈ es, C05.plainEntry e = true)
    (hnl : ∀ e ∈ es, lotNoteNoLF e = true) :
    (Parse.parseEntries (Unparse.formatEntries (strWidth cx.w) es) = .ok es
      ∧ Unparse.format (strWidth cx.w) (Unparse.formatEntries (strWidth cx.w) es)
          = .ok (Unparse.formatEntries (strWidth cx.w) es))
    ∧ Unparse.formatEntries (strWidth cx.w) es = formatEntriesG cx es
    ∧ (linesOf (Unparse.formatEntries (strWidth cx.w) es)
          = es.flatMap (fun e => linesOf (Unparse.printEntry (strWidth cx.w) e) ++ [[]])
        ∧ (∀ e ∈ es, linesOf (Unparse.printEntry (strWidth cx.w) e) ≠ []
            ∧ ∀ l ∈ linesOf (Unparse.printEntry (strWidth cx.w) e), l ≠ []))
    ∧ (∀ t, Entry.txn t ∈ es →
        ∀ l ∈ (linesOf (Unparse.printEntry (strWidth cx.w) (.txn t))).tail,
          ∃ c rest, l = ' ' :: ' ' :: ' ' :: ' ' :: c :: rest ∧ c ≠ ' ')
    ∧ (∀ t, Entry.txn t ∈ es → ∀ p ∈ t.posts,
        Unparse.printPosting (strWidth cx.w) p
          = spaces 4 ++ Unparse.printClear p.clear ++ p.account.toList ++ spaces (gapWidth cx p) ++ afterGap cx p
              ++ '\n' :: metaText p
        ∧ ((p.amount.isSome ∨ p.balance.isSome) → 2 ≤ gapWidth cx p)) := by
  have hc := hw.clearOK
  have hd : ∀ e ∈ es, datesOK e = true := fun e he => wfEntry_datesOK (hwf e he)
  have hlf : ∀ e ∈ es, entryNoLF e := fun e he => wfEntry_entryNoLF (hwf e he) (hnl e he)
  have hb := U19_blank cx h hc es hd hlf
  refine ⟨C05.C05_format_fixed (strWidth cx.w) es hwf hpl, formatEntries_agree cx h hc es hd, ⟨hb.1, ?_⟩, ?_, ?_⟩
  · intro e he
    refine ⟨hb.2.2 e he ?_, hb.2.1 e he⟩
    intro s hs
    subst hs
    exact wfEntry_comment_ne (hwf _ he)
  · intro t ht
    have hps := wfEntry_postings (hwf _ ht)
    exact U19_indent cx h hc t (hd _ ht) (fun p hp => wfPosting_accountOK (hps p hp)) (hlf _ ht)
  · intro t ht p hp
    exact U19_gap cx h hc p (wfPosting_datesOK (wfEntry_postings (hwf _ ht) p hp))

/-! ## non-vacuity -/

section Examples
open Okane.Unparse in
private def exEs : List Entry := [.txn exTxn, exAccount, .endApplyTag, exCommodity, .comment " top\n second\n"]

private theorem exEs_wf : ∀ e ∈ exEs, Unparse.wfEntry e = true := by
  intro e he
  simp only [exEs, List.mem_cons, List.not_mem_nil, or_false] at he
  rcases he with rfl | rfl | rfl | rfl | rfl
  · simpa [Unparse.wfEntry] using Unparse.exTxn_wf
  · decide +kernel
  · rfl
  · decide +kernel
  · decide +kernel

private theorem exEs_plain : ∀ e ∈ exEs, C05.plainEntry e = true := by
  intro e he
  simp only [exEs, List.mem_cons, List.not_mem_nil, or_false] at he
  rcases he with rfl | rfl | rfl | rfl | rfl
  · apply List.all_eq_true.mpr
    intro v hv
    exact Unparse.exTxn_plain v (by simpa [Unparse.exprsOfEntry] using hv)
  all_goals decide +kernel

example : ∀ e ∈ exEs, lotNoteNoLF e = true := by decide +kernel
example : Parse.parseEntries (Print.formatEntries (fun _ => 0) exEs) = .ok exEs := C05_for_Print_std exEs exEs_wf exEs_plain
example : linesOf (Unparse.formatEntries (strWidth widthCjk) exEs)
    = exEs.flatMap (fun e => linesOf (Unparse.printEntry (strWidth widthCjk) e) ++ [[]]) :=
  (C05_C19_format (Ctx.std (fun _ => 0)) (std_numIs _) layoutW_widthCjk exEs exEs_wf exEs_plain (by decide +kernel)).2.2.1.1

/-- a posting whose lot note holds a line feed: `    A  1 USD (a⏎b)` -/
def exLotLF : Entry :=
  .txn { date := ⟨2024, 1, 1⟩, payee := "x",
         posts := [{ account := "A", amount := some { amount := .amt ⟨false, 1, 0, none⟩ "USD", lot := { note := some "a\nb" } } }] }

/-- the remaining side condition is needed: `wfEntry` (and `plainEntry`) do not imply `lotNoteNoLF` — a lot note may run
across lines and is read back — and without it `entryNoLF` fails.  (For the transaction code no such condition is left:
`wfCode` excludes the line feed.) -/
theorem lotNoteNoLF_needed :
    Unparse.wfEntry exLotLF = true ∧ C05.plainEntry exLotLF = true ∧ lotNoteNoLF exLotLF = false ∧ ¬ entryNoLF exLotLF := by
  refine ⟨by unfold exLotLF; wf_decide, by decide +kernel, by decide +kernel, ?_⟩
  intro h
  have hp := h.2.2.2 _ (List.mem_singleton_self _)
  exact hp.2.1.2.2.2 (by decide)

end Examples

end Okane.PrintersAgree
