import Okane.Lemmas.ParseTotalDiag
/-!
# The entry spans `parse_ledger` delivers are valid slices of the text (C06)

`ParsedContext::as_str` panics unless `span` is a valid UTF-8 slice of `initial` (`Diag.PCtx.validSlice`); the
report of a book-keeping error (`Diag.ErrorContext.new`, `C06_error_context`) needs exactly that.  Because every
stream position of the parser is a suffix of the text (`Safe`), every `(start, stop)` recorded by `ParsedIter` is a
pair of character boundaries `start < stop ≤ |text|`, and consecutive entries do not overlap.
-/
namespace Okane.Parse
open Okane Okane.Comb Okane.Diag

/-- byte position of a suffix of the text is a character boundary of its UTF-8 encoding -/
theorem isCharBoundary_suffix (whole r : List Char) (h : r <:+ whole) :
    isCharBoundary (encode whole) (utf8Len whole - utf8Len r) = true := by
  obtain ⟨pre, rfl⟩ := h
  have hp : utf8Len (pre ++ r) - utf8Len r = (encode pre).length := by
    rw [utf8Len_append, length_encode]; omega
  rw [hp, encode_append]
  unfold isCharBoundary
  split
  · rfl
  · have hidx : (encode pre ++ encode r)[(encode pre).length]? = (encode r)[0]? := by
      rw [List.getElem?_append_right (Nat.le_refl _)]; simp
    rw [hidx]
    cases hq : (encode r)[0]? with
    | none =>
      have : encode r = [] := by
        cases hr : encode r with
        | nil => rfl
        | cons x xs => rw [hr] at hq; simp at hq
      simp [this]
    | some b => simp [encode_head_not_cont r b hq]

/-- a recorded span: the positions of two nested suffixes `r <:+ i1 <:+ whole`, `r` strictly shorter -/
def SpanOK {α : Type} (whole : List Char) (x : Nat × Nat × α) : Prop :=
  ∃ i1 r, r <:+ i1 ∧ i1 <:+ whole ∧ r.length < i1.length ∧
    x.1 = utf8Len whole - utf8Len i1 ∧ x.2.1 = utf8Len whole - utf8Len r

theorem utf8Len_suffix_le {r i : List Char} (h : r <:+ i) : utf8Len r ≤ utf8Len i := by
  obtain ⟨pre, rfl⟩ := h
  rw [utf8Len_append]; omega

theorem utf8Len_suffix_lt {r i : List Char} (h : r <:+ i) (hl : r.length < i.length) : utf8Len r < utf8Len i := by
  obtain ⟨pre, rfl⟩ := h
  rw [utf8Len_append]
  cases pre with
  | nil => simp at hl
  | cons c p => have := utf8Size_pos c; simp only [utf8Len]; omega

/-- a recorded span is a non-empty valid UTF-8 slice of the text -/
theorem SpanOK.valid {α : Type} {whole : List Char} {x : Nat × Nat × α} (h : SpanOK whole x) :
    x.1 < x.2.1 ∧ x.2.1 ≤ (encode whole).length ∧
    (PCtx.mk (encode whole) ⟨x.1, x.2.1⟩).validSlice = true := by
  obtain ⟨i1, r, h1, h2, h3, h4, h5⟩ := h
  have a1 := utf8Len_suffix_lt h1 h3
  have a2 := utf8Len_suffix_le h2
  have hlt : x.1 < x.2.1 := by omega
  have hle : x.2.1 ≤ (encode whole).length := by rw [length_encode]; omega
  refine ⟨hlt, hle, ?_⟩
  simp only [PCtx.validSlice, Bool.and_eq_true, decide_eq_true_eq]
  refine ⟨⟨⟨by omega, hle⟩, ?_⟩, ?_⟩
  · rw [h4]; exact isCharBoundary_suffix whole i1 h2
  · rw [h5]; exact isCharBoundary_suffix whole r (h1.trans h2)

/-- invariant of the `ParsedIter` loop: spans recorded so far are `SpanOK`, end at or before the current position,
and are pairwise in order -/
def AccOK {α : Type} (whole i : List Char) (acc : List (Nat × Nat × α)) : Prop :=
  (∀ x ∈ acc, SpanOK whole x ∧ x.2.1 ≤ utf8Len whole - utf8Len i) ∧
  acc.Pairwise (fun a b => a.2.1 ≤ b.1)

theorem parsedIter_spans {α : Type} {p : Parser α} {sep : Parser Unit} (hp : Safe 1 p) (hsep : Safe 0 sep)
    (whole : List Char) :
    ∀ (n : Nat) (i : List Char) (acc : List (Nat × Nat × α)), i <:+ whole → AccOK whole i acc →
      ∃ j, AccOK whole j (parsedIter p sep whole n i acc).1 := by
  intro n
  induction n with
  | zero => intro i acc _ h; exact ⟨i, h⟩
  | succ n ih =>
    intro i acc hi hacc
    have h1 := hsep.good i
    unfold parsedIter
    simp only
    split
    · rename_i u i1 he
      rw [he] at h1
      obtain ⟨h2, h3⟩ := h1
      split
      · exact ⟨i, hacc⟩
      · have h4 := hp.good i1
        split
        · rename_i e r he'
          rw [he'] at h4
          obtain ⟨h5, h6⟩ := h4
          apply ih r _ (h5.trans (h2.trans hi))
          have b1 := utf8Len_suffix_le h5
          have b2 := utf8Len_suffix_le h2
          have b3 := utf8Len_suffix_le hi
          constructor
          · intro x hx
            rcases List.mem_append.1 hx with hx | hx
            · have := hacc.1 x hx
              exact ⟨this.1, by omega⟩
            · simp only [List.mem_singleton] at hx
              subst hx
              exact ⟨⟨i1, r, h5, h2.trans hi, by omega, rfl, rfl⟩, Nat.le_refl _⟩
          · rw [List.pairwise_append]
            refine ⟨hacc.2, by simp, ?_⟩
            intro a ha b hb
            simp only [List.mem_singleton] at hb
            subst hb
            have := (hacc.1 a ha).2
            show a.2.1 ≤ utf8Len whole - utf8Len i1
            omega
        all_goals first | exact ⟨i, hacc⟩ | (split <;> exact ⟨i, hacc⟩)
    all_goals first | exact ⟨i, hacc⟩ | (split <;> exact ⟨i, hacc⟩)

/-- **every entry span of `parse_ledger` is a non-empty valid UTF-8 slice of the text, and the spans are in order
and do not overlap** — also for the entries delivered before an error -/
theorem parseLedgerRun_spans (t : List Char) :
    (∀ x ∈ (parseLedgerRun t).1, x.start < x.stop ∧ x.stop ≤ (encode t).length ∧
      (PCtx.mk (encode t) ⟨x.start, x.stop⟩).validSlice = true) ∧
    (parseLedgerRun t).1.Pairwise (fun a b => a.stop ≤ b.start) := by
  obtain ⟨j, h1, h2⟩ := parsedIter_spans safe_parseLedgerEntry safe_verticalSpaces t (t.length + 1) t []
    (List.suffix_refl t) ⟨by simp, List.Pairwise.nil⟩
  simp only [parseLedgerRun]
  constructor
  · intro x hx
    obtain ⟨y, hy, rfl⟩ := List.mem_map.1 hx
    exact (h1 y hy).1.valid
  · rw [List.pairwise_map]
    exact h2

theorem parseLedger_spans (t : List Char) (es : List Parsed) (h : parseLedger t = .ok es) :
    (∀ x ∈ es, x.start < x.stop ∧ x.stop ≤ (encode t).length ∧
      (PCtx.mk (encode t) ⟨x.start, x.stop⟩).validSlice = true) ∧
    es.Pairwise (fun a b => a.stop ≤ b.start) := by
  have hs := parseLedgerRun_spans t
  unfold parseLedger at h
  cases hr : parseLedgerRun t with
  | mk es' en =>
    rw [hr] at h hs
    cases en with
    | done => injection h with h; subst h; exact hs
    | error e => cases h
    | panic s => cases h
    | fuelOut => cases h

end Okane.Parse
