import Okane.Lemmas.C13FrontViseca
import Okane.Lemmas.C11TextLoad
import Okane.Model.ImportCsvCells
/-!
# C13: `okane format` from the file, `okane import` of a CSV file from its cells, as whole commands

* `formatFile w T path` — `FormatCmd::run`: `File::open(&self.source)` (the path as given: no loader, no canonicalization),
  `FormatOptions::new().recursive(false).format(r, w)`: read, parse, print every entry; `include` lines are printed, not followed.
  The model has no order parameter (`formatFile_deterministic`), depends on that one file only (`formatFile_local`), and after a
  successful read is `Unparse.format` of the text (`formatFile_text`).
* `csvCmd pd cap vp cfg commodity w header records` — `csv::import` from the decoded cells in the order of the Rust (`FieldMap::try_new`,
  `Extractor::try_from`, the records — with okane's own cell decoders `Cells.cellEnv`: `str_to_comma_decimal`, templates) followed by the
  loop of `ImportCmd::run` (`to_double_entry`, `writeln!` with the precisions of `format.commodity`).  `csvCmd_field_order`: for every
  iteration order of the field maps of the rewrite rules the command writes the same text and ends the same way, when the keys of every
  field map are distinct (every `HashMap`) and the faulty fields of every element agree on their error (vacuous for rules that compile;
  F32 otherwise: `visecaCmd_error_false` is the same phenomenon); `csvCmd_commodity_order`: `format.commodity` in any layout.
  The third map, `format.fields`, is held fixed (its order selects which of two configuration errors `FieldMap::try_new` reports: F32).
-/
set_option linter.unusedSectionVars false
set_option linter.unusedSimpArgs false
namespace Okane.C13FC
open Okane Okane.Load Okane.Import Okane.Import.Cells Okane.C13FI Okane.C13FV

/-! ## `okane format FILE` -/

/-- how `okane format` fails -/
inductive FormatFail where
  | io (k : IoKind)
  | parse (e : Parse.ParseErr)

/-- **`okane format FILE`** from the file system of texts -/
def formatFile (w : List Char → Nat) (T : TextFS) (path : Path) : Outcome FormatFail (List Char) :=
  match T.text path with
  | none => .err (.io .notFound)
  | some t => (Unparse.format w t).mapErr .parse

/-- for every type of orders the command is the same: no hash map is iterated between the file and the output -/
theorem formatFile_deterministic {Orders : Type} (w : List Char → Nat) :
    ∀ (π₁ π₂ : Orders) (x : TextFS × Path),
      (fun (_ : Orders) (x : TextFS × Path) => formatFile w x.1 x.2) π₁ x =
        (fun (_ : Orders) (x : TextFS × Path) => formatFile w x.1 x.2) π₂ x :=
  fun _ _ _ => rfl

/-- … in particular neither the order in which `glob` enumerates nor any other file matters: only the text of that file -/
theorem formatFile_local (w : List Char → Nat) (T T' : TextFS) (path : Path) (h : T.text path = T'.text path) :
    formatFile w T path = formatFile w T' path := by
  simp only [formatFile, h]

theorem formatFile_text (w : List Char → Nat) (T : TextFS) (path : Path) (t : List Char) (h : T.text path = some t) :
    formatFile w T path = (Unparse.format w t).mapErr .parse := by
  simp only [formatFile, h]

/-- includes are printed, not followed (`recursive(false)`): the formatted root of the three-file example of
`Lemmas/C13Front.lean` still holds its `include` line, and the files it names are not read -/
example (w : List Char → Nat) (T : TextFS) (path : Path) (g : String) (hg : wfIncludePath g) (h : T.text path = some (includeText g)) :
    formatFile w T path = .ok (Unparse.formatEntries w [.include g]) := by
  rw [formatFile_text w T path _ h, C13FI.format_ok w _ _ (parseEntries_includeText g hg)]
  rfl

/-! ## `okane import -c CONFIG FILE.csv` from the cells -/

/-- **`okane import` of a CSV file**, from the header and the records as the `csv` crate hands them over: the field map, the
extractor (`vp` = the regex crate's verdict on a pattern), the records (cells decoded by okane's own decoders), the printing loop. -/
def csvCmd (pd : String → Option Date) (cap : Captures) (vp : String → Bool) (cfg : CsvCfg) (commodity : AMap String Nat)
    (w : List Char → Nat) (header : List String) (records : List (List String)) : List Char × Outcome ImportErr Unit :=
  match FieldMap.tryNew cfg.fields header with
  | .ok _ =>
    match checkRules .csv vp (fun _ _ => true) cfg.rewrite with
    | .ok () =>
      match csvImport (cellEnv pd cap) cfg header records with
      | .ok txns => printLoop (fun c => (commodity.get? c).getD 0) w cfg.account txns
      | .err e => ([], .err e)
      | .panic s => ([], .panic s)
      | .fuelOut => ([], .fuelOut)
    | .err e => ([], .err e)
    | .panic s => ([], .panic s)
    | .fuelOut => ([], .fuelOut)
  | .err e => ([], .err e)
  | .panic s => ([], .panic s)
  | .fuelOut => ([], .fuelOut)

/-- **C13_import_csv_cells (`RulesPerm` form).** -/
theorem csvCmd_field_order (pd : String → Option Date) (cap : Captures) (vp : String → Bool) (cfg : CsvCfg)
    (commodity : AMap String Nat) (w : List Char → Nat) (header : List String) (records : List (List String))
    {rules' : List Rule} (h : RulesPerm cfg.rewrite rules') (hk : KeysDistinct cfg.rewrite)
    (h2 : RulesFaultsAgree .csv vp (fun _ _ => true) cfg.rewrite) :
    csvCmd pd cap vp { cfg with rewrite := rules' } commodity w header records =
      csvCmd pd cap vp cfg commodity w header records := by
  simp only [csvCmd, ← checkRules_perm .csv vp (fun _ _ => true) h h2,
    csvImport_field_order (cellEnv pd cap) cfg h hk header records]

/-- in the `Deterministic` shape: orders = re-layouts of the field maps -/
theorem csvCmd_deterministic (pd : String → Option Date) (cap : Captures) (vp : String → Bool) (cfg : CsvCfg)
    (commodity : AMap String Nat) (w : List Char → Nat) (hk : KeysDistinct cfg.rewrite)
    (h2 : RulesFaultsAgree .csv vp (fun _ _ => true) cfg.rewrite)
    (π₁ π₂ : { π : List (Field × String) → List (Field × String) // IsRelayout π }) (header : List String)
    (records : List (List String)) :
    csvCmd pd cap vp { cfg with rewrite := reorderRules π₁.1 cfg.rewrite } commodity w header records =
      csvCmd pd cap vp { cfg with rewrite := reorderRules π₂.1 cfg.rewrite } commodity w header records := by
  rw [csvCmd_field_order pd cap vp cfg commodity w header records (rulesPerm_reorder π₁.2 _) hk h2,
    csvCmd_field_order pd cap vp cfg commodity w header records (rulesPerm_reorder π₂.2 _) hk h2]

/-- `format.commodity` is only looked up -/
theorem csvCmd_commodity_order (pd : String → Option Date) (cap : Captures) (vp : String → Bool) (cfg : CsvCfg)
    {commodity commodity' : AMap String Nat} (h : commodity.Perm commodity') (hwf : AMap.WF commodity)
    (w : List Char → Nat) (header : List String) (records : List (List String)) :
    csvCmd pd cap vp cfg commodity' w header records = csvCmd pd cap vp cfg commodity w header records := by
  have hp : (fun c => (commodity'.get? c).getD 0) = fun c => (commodity.get? c).getD 0 := by
    funext c
    simp only [← C13.get?_perm h hwf c]
  simp only [csvCmd, hp]

/-! non-vacuity: a two-column-plus CSV with a `{category, payee}` element; the reversed layout -/

def exDates : String → Option Date := fun s =>
  if s = "2024-03-15" then some ⟨2024, 3, 15⟩ else if s = "2024-03-16" then some ⟨2024, 3, 16⟩ else none

def exCapC : Captures := fun pat hay =>
  if pat = "Food" then (if hay = "Food" then some {} else none)
  else if pat = "Coop" then (if hay = "Coop City" then some {} else none)
  else none

def exCfgC : CsvCfg :=
  { account := "Assets:Bank", accountType := .asset, operator := none, primary := "CHF", conversion := {},
    rowOrder := .oldToNew,
    fields := [(.date, .index 1), (.payee, .index 2), (.amount, .index 3), (.category, .index 4)],
    rewrite := [{ matcher := .field ⟨[(.category, "Food"), (.payee, "Coop")]⟩, account := some "Expenses:Groceries" }] }

def exHeader : List String := ["date", "payee", "amount", "category"]
def exRecords : List (List String) :=
  [["2024-03-15", "Europe Gas AT", "-12.50", "Service stations"], ["2024-03-16", "Coop City", "-7.2 CHF", "Food"]]

theorem exCfgC_keys : KeysDistinct exCfgC.rewrite := by
  intro rule hr m hm
  have hr' : rule = { matcher := .field ⟨[(.category, "Food"), (.payee, "Coop")]⟩, account := some "Expenses:Groceries" } := by
    simpa [exCfgC] using hr
  subst hr'
  have hm' : m = ⟨[(.category, "Food"), (.payee, "Coop")]⟩ := by simpa [Matcher.elements] using hm
  subst hm'
  decide

theorem exCfgC_compiles : checkRules .csv (fun _ => true) (fun _ _ => true) exCfgC.rewrite = .ok () := by decide +kernel

example : reorderRules List.reverse exCfgC.rewrite ≠ exCfgC.rewrite := by decide

example : csvCmd exDates exCapC (fun _ => true) { exCfgC with rewrite := reorderRules List.reverse exCfgC.rewrite }
      [("CHF", 2)] Unparse.widthStd exHeader exRecords =
    csvCmd exDates exCapC (fun _ => true) exCfgC [("CHF", 2)] Unparse.widthStd exHeader exRecords :=
  csvCmd_field_order _ _ _ exCfgC _ _ _ _ (rulesPerm_reorder isRelayout_rev _) exCfgC_keys
    (rulesFaultsAgree_of_ok _ _ _ exCfgC_compiles)

set_option maxRecDepth 100000 in
/-- what it writes: the second record is booked by the `{category, payee}` element, its cell `-7.2 CHF` decoded by okane's decoder
and padded to the configured two places -/
example : csvCmd exDates exCapC (fun _ => true) exCfgC [("CHF", 2)] Unparse.widthStd exHeader exRecords =
    (("2024/03/15 * Europe Gas AT\n    ! Expenses:Unknown                         12.50 CHF\n" ++
      "    Assets:Bank                               -12.50 CHF\n\n2024/03/16 * Coop City\n" ++
      "    Expenses:Groceries                          7.20 CHF\n    Assets:Bank                                -7.20 CHF\n\n").toList,
     .ok ()) := by decide +kernel

end Okane.C13FC
