import Okane.Lemmas.C13CmdProcess
import Okane.Model.Range
/-!
# C13, command level (3): what the commands print is *equal* for related ledgers

The reports sort before they print (`Balance::into_vec`, `all_accounts`, `InlinePrintAmount`), so the text printed
for two accumulators that are the same up to the layout of their maps is the same list of lines.  Composed with
`processScr_meq` this gives the end-to-end statements: the output of `balance` (whole history and date ranges,
no conversion), `accounts` and `register`, as a function of the entry list, does not depend on any iteration order.
-/
set_option linter.unusedSectionVars false
set_option linter.unusedSimpArgs false
namespace Okane.C13
open Okane
variable {α κ : Type} [DecidableEq α] [DecidableEq κ]

/-! ## `okane balance` -/

theorem sortByKey_mapVals {ν ν' : Type} (le : α → α → Bool) (f : ν → ν') (m : AMap α ν) :
    sortByKey le (AMap.mapVals f m) = (sortByKey le m).map fun kv => (kv.1, f kv.2) := by
  unfold sortByKey AMap.mapVals
  exact (List.map_mergeSort (r := fun x y : α × ν => le x.1 y.1)
    (s := fun x y : α × ν' => le x.1 y.1) (f := fun kv => (kv.1, f kv.2)) (fun a _ b _ => rfl)).symm

/-- mapping every amount of a balance to something that does not depend on the amount's layout gives the same
map. -/
theorem NEq.mapVals_meq {β : Type} (f : Amount κ → β) (hf : ∀ a a', a ≈ₘ a' → f a = f a') {b b' : Balance α κ}
    (h : b ≈ᵦ b') : AMap.mapVals f b ≈ₘ AMap.mapVals f b' := by
  refine MEq.of_ext (AMap.WF_mapVals _ _ h.wf) (AMap.WF_mapVals _ _ h.wf') (fun k => ?_)
  simp only [AMap.get?_mapVals]
  exact OptRel.map_eq f f hf (h.rel k)

/-- **`okane balance` prints the same lines for the same balance in any layout** (outer map and every inner map). -/
theorem balanceReport_meq {leA : α → α → Bool} {leK : κ → κ → Bool} (hoA : KeyOrder leA) (hoK : KeyOrder leK)
    (showAcct : α → String) (showEntry : κ → Rat → String) {b b' : Balance α κ} (h : b ≈ᵦ b') :
    balanceReport leA leK showAcct showEntry b = balanceReport leA leK showAcct showEntry b' := by
  have key : ∀ b : Balance α κ, balanceReport leA leK showAcct showEntry b =
      (sortByKey leA (AMap.mapVals (Okane.Amount.inlineDisplay leK showEntry) b)).map
        fun kv => showAcct kv.1 ++ ": " ++ kv.2 := by
    intro b
    rw [sortByKey_mapVals, List.map_map]
    rfl
  rw [key b, key b']
  rw [(NEq.mapVals_meq _ (fun a a' ha => inlineDisplay_meq hoK showEntry ha) h).sortByKey_eq hoA]

/-! ## `okane accounts` -/

/-- **`okane accounts`**: the sorted list of canonical names. -/
theorem accountsReport_meq {le : String → String → Bool} (ho : KeyOrder le) {s s' : Store} (h : StoreEq s s') :
    accountsReport le s.recs = accountsReport le s'.recs := by
  unfold accountsReport
  have hp : ((s.recs.filter fun kv => kv.2.isNone).map Prod.fst).Perm
      ((s'.recs.filter fun kv => kv.2.isNone).map Prod.fst) := (h.perm.filter _).map _
  have s1 := List.pairwise_mergeSort (le := le) ho.trans ho.total ((s.recs.filter fun kv => kv.2.isNone).map Prod.fst)
  have s2 := List.pairwise_mergeSort (le := le) ho.trans ho.total ((s'.recs.filter fun kv => kv.2.isNone).map Prod.fst)
  refine List.Perm.eq_of_pairwise (le := fun a b => le a b = true) ?_ s1 s2
    ((List.mergeSort_perm _ _).trans (hp.trans (List.mergeSort_perm _ _).symm))
  intro a b _ _ hab hba
  exact ho.antisymm a b hab hba

/-! ## date ranges (no conversion) -/

/-- a dated posting. -/
def DPostEq (x x' : Date × OutPosting α κ) : Prop := x.1 = x'.1 ∧ PostEq x.2 x'.2

theorem allPostings_meq {txns txns' : List (OutTxn α κ)} (h : LRel TxnEq txns txns') :
    LRel DPostEq (allPostings txns) (allPostings txns') := by
  unfold allPostings
  refine LRel.flatMap _ _ (fun t t' ht => ?_) h
  exact LRel.map (R := PostEq) (S := DPostEq) _ _ (fun p p' hp => ⟨ht.1, hp⟩) ht.2

theorem foldl_rel {β β' γ γ' : Type} {R : β → β' → Prop} {S : γ → γ' → Prop} (f : γ → β → γ) (g : γ' → β' → γ')
    (hfg : ∀ c c' x x', S c c' → R x x' → S (f c x) (g c' x')) {l : List β} {l' : List β'} (h : LRel R l l') :
    ∀ {c c'}, S c c' → S (l.foldl f c) (l'.foldl g c') := by
  induction h with
  | nil => intro c c' hc; exact hc
  | cons hab _ ih => intro c c' hc; exact ih (hfg _ _ _ _ hc hab)

/-- the recompute loop of `Ledger::balance` without conversion. -/
theorem rangeBalanceRaw_meq {txns txns' : List (OutTxn α κ)} (h : LRel TxnEq txns txns') (r : DateRange) :
    rangeBalanceRaw txns r ≈ᵦ rangeBalanceRaw txns' r := by
  unfold rangeBalanceRaw
  refine foldl_rel (R := DPostEq) (S := BalEq) _ _ (fun c c' x x' hc hx => ?_) (allPostings_meq h) NEq.nil
  rw [hx.1]
  split
  · rw [hx.2.1]; exact (hc.addAmount _ hx.2.2.1).1
  · exact hc

/-- **`Ledger::balance` with no conversion** (whole history or a date range). -/
theorem balanceNoConv_meq (prec : κ → Option Nat) {txns txns' : List (OutTxn α κ)} (h : LRel TxnEq txns txns')
    {raw raw' : Balance α κ} (hr : raw ≈ᵦ raw') (r : DateRange) :
    balanceNoConv prec txns raw r ≈ᵦ balanceNoConv prec txns' raw' r := by
  unfold balanceNoConv
  split
  · exact hr
  · exact (rangeBalanceRaw_meq h r).round prec

/-! ## `okane register` -/

theorem postingsOf_meq {txns txns' : List (OutTxn α κ)} (h : LRel TxnEq txns txns') (acct : Option α) :
    PostsEq (postingsOf txns acct) (postingsOf txns' acct) := by
  unfold postingsOf
  have := allPostings_meq h
  generalize allPostings txns = l at this
  generalize allPostings txns' = l' at this
  cases acct with
  | none =>
    simp only []
    induction this with
    | nil => exact .nil
    | @cons a b l l' hab _ ih => simp only [List.filterMap_cons]; exact .cons hab.2 ih
  | some x =>
    simp only []
    induction this with
    | nil => exact .nil
    | @cons a b l l' hab _ ih =>
      simp only [List.filterMap_cons, hab.2.1]
      by_cases hx : b.2.account = x
      · simp only [hx, if_true]; exact .cons hab.2 ih
      · simp only [hx, if_false]; exact ih

/-- a register row: the posting and the running total. -/
def RowEq (r r' : OutPosting α κ × Amount κ) : Prop := PostEq r.1 r'.1 ∧ r.2 ≈ₘ r'.2

/-- `RegisterCmd`'s loop: the running totals are the same maps. -/
theorem register_meq {ps ps' : List (OutPosting α κ)} (h : PostsEq ps ps') :
    LRel RowEq (register ps) (register ps') := by
  unfold register
  refine (foldl_rel (R := PostEq) (S := fun (c c' : List (OutPosting α κ × Amount κ) × Amount κ) =>
      LRel RowEq c.1 c'.1 ∧ c.2 ≈ₘ c'.2) _ _ (fun c c' x x' hc hx => ?_) h ⟨.nil, MEq.nil⟩).1
  have ht := Amount.add_meq hc.2 hx.2.1
  exact ⟨hc.1.append (.cons ⟨hx, ht⟩ .nil), ht⟩

/-- the lines of `okane register`: `writeln!("{} {} {}", account, amount.as_inline_display(),
balance.as_inline_display())`. -/
def registerReport (leK : κ → κ → Bool) (showAcct : α → String) (showEntry : κ → Rat → String)
    (rows : List (OutPosting α κ × Amount κ)) : List String :=
  rows.map fun r => showAcct r.1.account ++ " " ++ Okane.Amount.inlineDisplay leK showEntry r.1.amount ++ " " ++
    Okane.Amount.inlineDisplay leK showEntry r.2

/-- **`okane register` prints the same lines.** -/
theorem registerReport_meq {leK : κ → κ → Bool} (hoK : KeyOrder leK) (showAcct : α → String)
    (showEntry : κ → Rat → String) {rows rows' : List (OutPosting α κ × Amount κ)} (h : LRel RowEq rows rows') :
    registerReport leK showAcct showEntry rows = registerReport leK showAcct showEntry rows' := by
  unfold registerReport
  refine LRel.map_eq _ _ (fun r r' hr => ?_) h
  rw [hr.1.1, inlineDisplay_meq hoK showEntry hr.1.2.1, inlineDisplay_meq hoK showEntry hr.2]

/-! ## the commands, end to end

`processScr π` re-lays every map out after every entry (`π` stands for the hasher's seed and the growth history of
the tables).  The text a command writes — the report lines on success, the index of the offending entry and the
error message otherwise — is a function of the entry list alone. -/
section Cmd
variable {leA leK : String → String → Bool}

/-- the text of a command: the report on success, the entry index and the error text on failure. -/
def cmdText (errText : BkErrS → String) (report : ProcState → List String) :
    Outcome (Nat × BkErrS) ProcState → Outcome (Nat × String) (List String)
  | .ok st => .ok (report st)
  | .err (i, e) => .err (i, errText e)
  | .panic s => .panic s
  | .fuelOut => .fuelOut

theorem cmdText_eq {errText : BkErrS → String} {report : ProcState → List String}
    (hE : ∀ e e', ErrEq e e' → errText e = errText e') (hR : ∀ st st', st ≈ₚ st' → report st = report st')
    {x y : Outcome (Nat × BkErrS) ProcState} (h : ORel PErrEq ProcEq x y) :
    cmdText errText report x = cmdText errText report y := by
  cases x <;> cases y <;> simp only [ORel] at h <;> try exact h.elim
  · simp only [cmdText, hR _ _ h]
  · rename_i a b
    obtain ⟨i, e⟩ := a
    obtain ⟨i', e'⟩ := b
    obtain ⟨h1, h2⟩ := h
    simp only at h1 h2; subst h1
    simp only [cmdText, hE _ _ h2]
  · simp only [cmdText, h]
  · rfl

/-- the lines `okane balance [--start ..] [--end ..]` prints (no `-X`). -/
def balanceLines (leA leK : String → String → Bool) (showAcct : String → String) (showEntry : String → Rat → String)
    (r : DateRange) (st : ProcState) : List String :=
  balanceReport leA leK showAcct showEntry (balanceNoConv st.ctx.prec st.txns st.bal r)

/-- the lines `okane accounts` prints. -/
def accountsLines (leA : String → String → Bool) (st : ProcState) : List String :=
  accountsReport leA st.ctx.accounts.recs

/-- the lines `okane register [ACCOUNT]` prints. -/
def registerLines (leK : String → String → Bool) (showAcct : String → String) (showEntry : String → Rat → String)
    (acct : Option String) (st : ProcState) : List String :=
  registerReport leK showAcct showEntry (register (postingsOf st.txns acct))

theorem balanceLines_meq (hoA : KeyOrder leA) (hoK : KeyOrder leK) (showAcct : String → String)
    (showEntry : String → Rat → String) (r : DateRange) {st st' : ProcState} (h : st ≈ₚ st') :
    balanceLines leA leK showAcct showEntry r st = balanceLines leA leK showAcct showEntry r st' := by
  unfold balanceLines
  rw [h.ctx.prec]
  exact balanceReport_meq hoA hoK showAcct showEntry (balanceNoConv_meq _ h.txns h.bal r)

theorem accountsLines_meq (hoA : KeyOrder leA) {st st' : ProcState} (h : st ≈ₚ st') :
    accountsLines leA st = accountsLines leA st' := accountsReport_meq hoA h.ctx.accounts

theorem registerLines_meq (hoK : KeyOrder leK) (showAcct : String → String) (showEntry : String → Rat → String)
    (acct : Option String) {st st' : ProcState} (h : st ≈ₚ st') :
    registerLines leK showAcct showEntry acct st = registerLines leK showAcct showEntry acct st' :=
  registerReport_meq hoK showAcct showEntry (register_meq (postingsOf_meq h.txns acct))

/-- `okane balance` as a function of the layouts `π` and the entry list. -/
def balanceCmd (leA leK : String → String → Bool) (showAcct : String → String) (showEntry : String → Rat → String)
    (r : DateRange) (π : Nat → ProcState → ProcState) (es : List Entry) : Outcome (Nat × String) (List String) :=
  cmdText (bkErrText leK showEntry) (balanceLines leA leK showAcct showEntry r) (processScr π {} 0 es)

/-- the account list of the processed ledger (`ctx.all_accounts()` after `process`: every account written in a
transaction or declared).  `okane accounts` itself does not run book-keeping: see `accountsScanCmd`. -/
def accountsCmd (leA leK : String → String → Bool) (showEntry : String → Rat → String)
    (π : Nat → ProcState → ProcState) (es : List Entry) : Outcome (Nat × String) (List String) :=
  cmdText (bkErrText leK showEntry) (accountsLines leA) (processScr π {} 0 es)

/-- `okane register`. -/
def registerCmd (leK : String → String → Bool) (showAcct : String → String) (showEntry : String → Rat → String)
    (acct : Option String) (π : Nat → ProcState → ProcState) (es : List Entry) : Outcome (Nat × String) (List String) :=
  cmdText (bkErrText leK showEntry) (registerLines leK showAcct showEntry acct) (processScr π {} 0 es)

theorem balanceCmd_det (hoA : KeyOrder leA) (hoK : KeyOrder leK) (showAcct : String → String)
    (showEntry : String → Rat → String) (r : DateRange) {π₁ π₂ : Nat → ProcState → ProcState}
    (h1 : Relayout π₁) (h2 : Relayout π₂) (es : List Entry) :
    balanceCmd leA leK showAcct showEntry r π₁ es = balanceCmd leA leK showAcct showEntry r π₂ es :=
  cmdText_eq (fun _ _ he => he.text hoK showEntry) (fun _ _ hs => balanceLines_meq hoA hoK showAcct showEntry r hs)
    (processScr_meq h1 h2 es ProcEq.init 0)

theorem accountsCmd_det (hoA : KeyOrder leA) (hoK : KeyOrder leK) (showEntry : String → Rat → String)
    {π₁ π₂ : Nat → ProcState → ProcState} (h1 : Relayout π₁) (h2 : Relayout π₂) (es : List Entry) :
    accountsCmd leA leK showEntry π₁ es = accountsCmd leA leK showEntry π₂ es :=
  cmdText_eq (fun _ _ he => he.text hoK showEntry) (fun _ _ hs => accountsLines_meq hoA hs)
    (processScr_meq h1 h2 es ProcEq.init 0)

theorem registerCmd_det (hoK : KeyOrder leK) (showAcct : String → String) (showEntry : String → Rat → String)
    (acct : Option String) {π₁ π₂ : Nat → ProcState → ProcState} (h1 : Relayout π₁) (h2 : Relayout π₂)
    (es : List Entry) :
    registerCmd leK showAcct showEntry acct π₁ es = registerCmd leK showAcct showEntry acct π₂ es :=
  cmdText_eq (fun _ _ he => he.text hoK showEntry) (fun _ _ hs => registerLines_meq hoK showAcct showEntry acct hs)
    (processScr_meq h1 h2 es ProcEq.init 0)

/-! ### `okane accounts` proper: `report::accounts` only interns the account of every posting

```text
loader.load(|_, _, entry| { if let LedgerEntry::Txn(txn) = entry { for posting in &txn.posts {
    ctx.accounts.ensure(&posting.account); } } Ok(()) })?;  Ok(ctx.all_accounts())
``` -/

/-- one entry of the scan. -/
def accountsStep (s : Store) : Entry → Store
  | .txn t => t.posts.foldl (fun s p => (s.ensure p.account).2) s
  | _ => s

/-- the scan with a re-layout `σ i` of the intern store after entry `i`. -/
def accountsScr (σ : Nat → Store → Store) : Store → Nat → List Entry → Store
  | s, _, [] => s
  | s, i, e :: es => accountsScr σ (σ i (accountsStep s e)) (i + 1) es

/-- `σ` only re-orders the records of the store. -/
def StoreRelayout (σ : Nat → Store → Store) : Prop := ∀ i s, StoreEq s s → StoreEq s (σ i s)

theorem accountsStep_meq {s s' : Store} (h : StoreEq s s') (e : Entry) :
    StoreEq (accountsStep s e) (accountsStep s' e) := by
  cases e with
  | txn t =>
    simp only [accountsStep]
    generalize t.posts = ps
    induction ps generalizing s s' with
    | nil => exact h
    | cons p ps ih => simp only [List.foldl_cons]; exact ih (h.ensure p.account).2
  | _ => exact h

theorem accountsScr_meq {σ₁ σ₂ : Nat → Store → Store} (h1 : StoreRelayout σ₁) (h2 : StoreRelayout σ₂) (es : List Entry) :
    ∀ {s s' : Store}, StoreEq s s' → ∀ (i : Nat), StoreEq (accountsScr σ₁ s i es) (accountsScr σ₂ s' i es) := by
  induction es with
  | nil => intro s s' h i; exact h
  | cons e es ih =>
    intro s s' h i
    have hs := accountsStep_meq h e
    simp only [accountsScr]
    exact ih (((h1 i _ (hs.trans hs.symm)).symm.trans hs).trans (h2 i _ (hs.symm.trans hs))) (i + 1)

/-- `okane accounts` as a function of the layout history of the intern store and the entry list. -/
def accountsScanCmd (le : String → String → Bool) (σ : Nat → Store → Store) (es : List Entry) : List String :=
  accountsReport le (accountsScr σ {} 0 es).recs

theorem accountsScanCmd_det (hoA : KeyOrder leA) {σ₁ σ₂ : Nat → Store → Store} (h1 : StoreRelayout σ₁)
    (h2 : StoreRelayout σ₂) (es : List Entry) : accountsScanCmd leA σ₁ es = accountsScanCmd leA σ₂ es :=
  accountsReport_meq hoA (accountsScr_meq h1 h2 es (StoreEq.refl AMap.WF_nil) 0)

theorem storeRelayout_id : StoreRelayout (fun _ s => s) := fun _ _ h => h
theorem storeRelayout_rev : StoreRelayout (fun _ s => ⟨s.recs.reverse⟩) :=
  fun _ s h => ⟨MEq.wf h, (List.reverse_perm s.recs).symm⟩

end Cmd

end Okane.C13
