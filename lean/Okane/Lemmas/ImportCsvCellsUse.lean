import Okane.Lemmas.ImportCsvCells
import Okane.Lemmas.ImportConvCsv
import Okane.Spec.Import
import Okane.Lemmas.ImportReadback
/-!
# The CSV importer with okane's own number-cell decoder plugged in (`Cells.cellEnv`): from the cell TEXT to the `Txn`

`Model/ImportCsv.lean` takes the number decoder as a parameter (`CsvEnv.parseAmt`).  Here it is instantiated with the model
of `str_to_comma_decimal` (`Cells.cellDecimal`, characterised exactly in `Lemmas/ImportCsvCells.lean`: `C16_cell_exact`,
`C16_cell_value`), and the facts about one CSV row are carried from the TEXT of its cells to the transaction the importer
builds:

* `CellWritten cell x places` — the number WRITTEN in a number cell: the unsigned literal times `(-1)^(minus signs written)`,
  and the number of decimal places written; `cellDecimal_written`, `cellDecimal_accepts_iff`: the decoder accepts exactly the
  cells that write a number, returns that number, digit for digit, always within rust_decimal's range (`cleanDec`);
* `NumCell`, `OptNumCell`, `strToCommaDecimal_cell`, `optDecimal_cell`, `readRow_cells` — every optional number `csv::import`
  reads from a record (balance, secondary amount, rate) is the number written in the cell the field map points to;
* `AmountWritten`, `amount_written`, `AmountWritten.value` — the sign rule of the amount (credit `+`, debit `−`, liability `−`)
  on the written numbers;
* `ruledTxn`, `rowTail`, `baseTxn_full`, `buildTxn_spec` — `buildTxn` in closed form, for every decoder environment;
* `RowNumbers`, `csvRow_numbers` — every number of the `Txn` of a row (amount, balance, charge, rate, extracted secondary
  amount) is the number written in its cell;
* `CleanWords`, `NumbersInRange`, `cleanText_iff`, `csvRow_inRange`, `csvRow_cleanText` — `CleanText` (C15) split into its text
  part and its number part; for a CSV row the number part holds by itself, unless a secondary amount is *computed*;
* `csvImport_mem` — every transaction of an import comes from one record;
* `csvRow_rules` — payee, code, counter-account and pending state are the rewrite rules' verdict (C17's subject).

The compositions with C15's read-back theorems (`C15_csv_row_postings`, `C15_csv_amount_readback`, …) and with C17's rule
theorems (`C17_csv_row`) are stated in the last sections of `Props/C15.lean` / `Props/C17.lean`, which import this file (a
lemma module cannot import a theorem module that restates it).  A concrete statement with cells such as `-$1,234.50`,
`8,765.50 USD`, `EUR 62.50` is at the end (non-vacuity).
-/
set_option linter.unusedSimpArgs false
set_option linter.unusedVariables false
namespace Okane.Import
open Okane Okane.Import.Cells

/-! ## row-level facts of the importer model, for every decoder environment

(`Props/C16.lean` states these for its own theorems; theorem modules are not imported by lemma modules, so the few that are
needed are proved here, in their own namespace.) -/
namespace CellsUse

/-- what a non-empty cell means to `str_to_comma_decimal` -/
theorem strToCommaDecimal_some (env : CsvEnv) (s : String) (v : Option Dec) (h : strToCommaDecimal env s = .ok v)
    (hs : s.isEmpty = false) : ∃ d, v = some d ∧ env.parseAmt s = some d := by
  unfold strToCommaDecimal at h
  simp only [hs] at h
  cases hp : env.parseAmt s with
  | none => simp [hp] at h
  | some d => simp [hp] at h; exact ⟨d, h.symm, rfl⟩

/-- credit / debit columns: `+credit` when the credit cell holds something other than zero (or the debit cell is empty),
`−debit` otherwise (after fix F41) -/
theorem sign_credit_debit (env : CsvEnv) (fm : FieldMap) (at_ : AccountType) (rec : List String)
    (cf df : CsvField) (a : Dec) (hv : fm.value = .creditDebit cf df) (h : fm.amount env at_ rec = .ok a) :
    ∃ credit debit, fm.resolve .credit cf rec = .ok (some credit) ∧ fm.resolve .debit df rec = .ok (some debit) ∧
      CreditDebitRule env.parseAmt credit debit a := by
  unfold FieldMap.amount at h
  simp only [hv] at h
  split at h <;> try (simp at h; done)
  rename_i credit hc
  split at h <;> try (simp at h; done)
  rename_i debit hd
  refine ⟨credit, debit, hc, hd, ?_⟩
  by_cases hce : credit.isEmpty = true
  · simp only [hce, Bool.not_true, Bool.false_eq_true, if_false] at h
    by_cases hde : debit.isEmpty = true
    · simp [hde] at h
    · have hde' : debit.isEmpty = false := by simpa using hde
      simp only [hde', Bool.not_false, if_true] at h
      split at h <;> try (simp at h; done)
      rename_i v hs
      obtain ⟨d, hv', hp⟩ := strToCommaDecimal_some env debit v hs hde'
      subst hv'
      simp at h
      exact Or.inr ⟨hde', Or.inl hce, d, hp, h.symm⟩
  · have hce' : credit.isEmpty = false := by simpa using hce
    simp only [hce', Bool.not_false, if_true] at h
    split at h <;> try (simp at h; done)
    rename_i v hs
    obtain ⟨c0, hv', hp⟩ := strToCommaDecimal_some env credit v hs hce'
    subst hv'
    simp only [Option.getD_some] at h
    by_cases hz : (c0.isZero && !debit.isEmpty) = true
    · simp only [hz, if_true] at h
      have hz1 : c0.isZero = true := by
        cases hcz : c0.isZero <;> simp [hcz] at hz ⊢
      have hde' : debit.isEmpty = false := by
        cases hdz : debit.isEmpty <;> simp [hdz] at hz ⊢
      split at h <;> try (simp at h; done)
      rename_i w hs2
      obtain ⟨d, hw, hpd⟩ := strToCommaDecimal_some env debit w hs2 hde'
      subst hw
      simp at h
      exact Or.inr ⟨hde', Or.inr ⟨hce', c0, hp, hz1⟩, d, hpd, h.symm⟩
    · have hz' : (c0.isZero && !debit.isEmpty) = false := by simpa using hz
      simp only [hz', Bool.false_eq_true, if_false] at h
      simp at h
      subst h
      refine Or.inl ⟨hce', hp, ?_⟩
      cases hcz : c0.isZero
      · exact Or.inl rfl
      · right
        cases hdz : debit.isEmpty
        · simp [hcz, hdz] at hz'
        · rfl

/-- `amount` column: the amount for an asset account, its negation for a liability account (empty cell = zero) -/
theorem sign_amount (env : CsvEnv) (fm : FieldMap) (at_ : AccountType) (rec : List String)
    (f : CsvField) (a : Dec) (hv : fm.value = .amount f) (h : fm.amount env at_ rec = .ok a) :
    ∃ cell v, fm.resolve .amount f rec = .ok (some cell) ∧ strToCommaDecimal env cell = .ok v ∧
      (at_ = .asset → a = v.getD {}) ∧ (at_ = .liability → a = (v.getD {}).negate) := by
  unfold FieldMap.amount at h
  simp only [hv] at h
  split at h <;> try (simp at h; done)
  rename_i cell hc
  split at h <;> try (simp at h; done)
  rename_i v hs
  simp at h
  refine ⟨cell, v, hc, hs, ?_, ?_⟩ <;> intro hat <;> subst hat <;> exact h.symm

theorem readRow_amount (env : CsvEnv) (cfg : CsvCfg) (fm : FieldMap) (rec : List String) (v : RowValues)
    (h : readRow env cfg fm rec = .ok (some v)) : fm.amount env cfg.accountType rec = .ok v.amount := by
  unfold readRow at h
  simp only [bind, Outcome.bind] at h
  repeat' split at h
  all_goals first | (simp at h; done) | skip
  all_goals (simp at h; try (subst h; assumption))

theorem csvRows_mem (env : CsvEnv) (cfg : CsvCfg) (fm : FieldMap) : ∀ (records : List (List String))
    (ts : List (Txn × Bool)), csvRows env cfg fm records = .ok ts →
    ∀ p ∈ ts, ∃ rec ∈ records, csvRow env cfg fm rec = .ok (some p) := by
  intro records
  induction records with
  | nil => intro ts h p hp; simp [csvRows] at h; subst h; simp at hp
  | cons rec rest ih =>
    intro ts h p hp
    unfold csvRows at h
    split at h <;> try (simp at h; done)
    rename_i r hrow
    split at h <;> try (simp at h; done)
    rename_i ts' hrest
    simp only [Outcome.ok.injEq] at h
    subst h
    rcases List.mem_append.1 hp with h1 | h1
    · cases r with
      | none => simp at h1
      | some q =>
        simp at h1
        subst h1
        exact ⟨rec, by simp, hrow⟩
    · obtain ⟨rec', hmem, hr'⟩ := ih ts' hrest p h1
      exact ⟨rec', by simp [hmem], hr'⟩

theorem csvRow_some (env : CsvEnv) (cfg : CsvCfg) (fm : FieldMap) (rec : List String) (p : Txn × Bool)
    (h : csvRow env cfg fm rec = .ok (some p)) :
    ∃ v, readRow env cfg fm rec = .ok (some v) ∧ buildTxn env cfg fm rec v = .ok p := by
  unfold csvRow at h
  split at h <;> try (simp at h; done)
  rename_i v hv
  split at h <;> try (simp at h; done)
  rename_i r hr
  simp only [Outcome.ok.injEq, Option.some.injEq] at h
  subst h
  exact ⟨v, hv, hr⟩

/-- the transactions handed over are those of the record loop, in file order or reversed -/
theorem csvImport_rows (env : CsvEnv) (cfg : CsvCfg) (header : List String) (records : List (List String))
    (txns : List Txn) (h : csvImport env cfg header records = .ok txns) :
    ∃ fm ts, FieldMap.tryNew cfg.fields header = .ok fm ∧ csvRows env cfg fm records = .ok ts ∧
      txns = applyRowOrder cfg.rowOrder (ts.map Prod.fst) := by
  unfold csvImport csvImportFlagged at h
  cases hfm : FieldMap.tryNew cfg.fields header with
  | err e => simp [hfm, Outcome.map'] at h
  | panic s => simp [hfm, Outcome.map'] at h
  | fuelOut => simp [hfm, Outcome.map'] at h
  | ok fm =>
    cases hrows : csvRows env cfg fm records with
    | err e => simp [hfm, hrows, Outcome.map'] at h
    | panic s => simp [hfm, hrows, Outcome.map'] at h
    | fuelOut => simp [hfm, hrows, Outcome.map'] at h
    | ok ts =>
      simp only [hfm, hrows, Outcome.map', Outcome.ok.injEq] at h
      refine ⟨fm, ts, rfl, hrows, ?_⟩
      rw [← h]
      unfold applyRowOrder
      cases cfg.rowOrder <;> simp [List.map_reverse]

end CellsUse

/-! ## one number cell -/

/-- **the number written in a number cell**: the cell is an optional leading minus, a well-formed literal within range and a
commodity text in either order (`CellForm`, `C16_cell_exact`); `x` is the unsigned literal times `(-1)^(number of minus signs
written)`; `places` is the number of decimal places written. -/
def CellWritten (cell : String) (x : Rat) (places : Nat) : Prop :=
  ∃ neg tok com, CellForm cell.toList neg tok com ∧ Spec.WellFormedLiteral tok = true ∧ Spec.Representable tok = true ∧
    x = (-1 : Rat) ^ minusCount neg tok * Spec.litValue (Spec.stripMinus tok) ∧ places = Spec.litScale tok

/-- **what the decoder returns is the number written**, with exactly the decimal places written, and it is always inside
rust_decimal's range (mantissa below 2^96, scale ≤ 28). -/
theorem cellDecimal_written (cell : String) (d : Dec) (h : cellDecimal cell = some d) :
    CellWritten cell d.toRat d.scale ∧ cleanDec d = true := by
  obtain ⟨neg, tok, com, hf, hw, hr, hv, hs, hm, _⟩ := C16_cell_value cell.toList d h
  have hv' : d.toRat = (-1 : Rat) ^ minusCount neg tok * Spec.litValue (Spec.stripMinus tok) := by
    obtain ⟨_, _, ht, _, _⟩ := hf
    rw [hv, litValue_strip tok (isNegative_token_body ht)]
    unfold minusCount
    cases neg <;> cases Spec.isNegative tok <;> simp <;> grind
  refine ⟨⟨neg, tok, com, hf, hw, hr, hv', hs⟩, ?_⟩
  simp only [Spec.Representable, Bool.and_eq_true, decide_eq_true_eq] at hr
  simp only [cleanDec, Bool.and_eq_true, decide_eq_true_eq]
  exact ⟨by rw [hm]; exact hr.2, by rw [hs]; exact hr.1⟩

/-- the decoder accepts exactly the cells that write a number -/
theorem cellDecimal_accepts_iff (cell : String) :
    (∃ d, cellDecimal cell = some d) ↔ ∃ x places, CellWritten cell x places := by
  constructor
  · rintro ⟨d, h⟩
    exact ⟨_, _, (cellDecimal_written cell d h).1⟩
  · rintro ⟨x, places, neg, tok, com, hf, hw, hr, _, _⟩
    exact ⟨_, C16_cell_complete cell.toList neg tok com hf hw hr⟩

/-! ## the decoder inside the importer -/

/-- what a number cell says: nothing when it is empty, otherwise the number written in it (as decoded: value, decimal
places, in range) -/
def NumCell (cell : String) (v : Option Dec) : Prop :=
  (cell.isEmpty = true ∧ v = none) ∨
  (cell.isEmpty = false ∧ ∃ d, v = some d ∧ cellDecimal cell = some d ∧ CellWritten cell d.toRat d.scale ∧ cleanDec d = true)

/-- `str_to_comma_decimal` with okane's own decoder -/
theorem strToCommaDecimal_cell (pd : String → Option Date) (cap : Captures) (s : String) (v : Option Dec)
    (h : strToCommaDecimal (cellEnv pd cap) s = .ok v) : NumCell s v := by
  by_cases he : s.isEmpty = true
  · left
    unfold strToCommaDecimal at h
    simp only [he, if_true] at h
    injection h with h
    exact ⟨he, h.symm⟩
  · right
    have he' : s.isEmpty = false := by simpa using he
    obtain ⟨d, rfl, hp⟩ := CellsUse.strToCommaDecimal_some _ s v h he'
    have hp' : cellDecimal s = some d := hp
    obtain ⟨hw, hc⟩ := cellDecimal_written s d hp'
    exact ⟨he', d, rfl, hp', hw, hc⟩

/-- an optional number field (`balance`, `secondary_amount`, `rate`): absent column, or a number cell -/
def OptNumCell (cell : Option String) (v : Option Dec) : Prop :=
  match cell with
  | none => v = none
  | some c => NumCell c v

theorem optDecimal_cell (pd : String → Option Date) (cap : Captures) (cell : Option String) (v : Option Dec)
    (h : optDecimal (cellEnv pd cap) cell = .ok v) : OptNumCell cell v := by
  cases cell with
  | none => simp only [optDecimal, Outcome.ok.injEq] at h; exact h.symm
  | some c => exact strToCommaDecimal_cell pd cap c v h

/-- a decoded number is in range, whatever the cell -/
theorem OptNumCell.clean {cell : Option String} {v : Option Dec} (h : OptNumCell cell v) :
    ∀ d, v = some d → cleanDec d = true := by
  intro d hd
  subst hd
  cases cell with
  | none => cases h
  | some c =>
    rcases h with ⟨_, h⟩ | ⟨_, d', h1, _, _, h4⟩
    · cases h
    · injection h1 with h1; subst h1; exact h4

/-- the shape `x >>= f` unfolds to -/
theorem matchBind_ok {ε α β : Type} {x : Outcome ε α} {f : α → Outcome ε β} {b : β}
    (h : (match x with
      | .ok a => f a
      | .err e => .err e
      | .panic s => .panic s
      | .fuelOut => .fuelOut) = .ok b) : ∃ a, x = .ok a ∧ f a = .ok b := by
  cases x <;> simp_all

/-- the optional number fields of one record, as `csv::import` reads them: each is what the cell the field map points to
says (`fm.extract` resolves columns and renders templates) -/
theorem readRow_cells (pd : String → Option Date) (cap : Captures) (cfg : CsvCfg) (fm : FieldMap) (rec : List String)
    (v : RowValues) (h : readRow (cellEnv pd cap) cfg fm rec = .ok (some v)) :
    (∃ c, fm.extract .balance rec = .ok c ∧ OptNumCell c v.balance) ∧
    (∃ c, fm.extract .secondaryAmount rec = .ok c ∧ OptNumCell c v.secondaryAmount) ∧
    (∃ c, fm.extract .rate rec = .ok c ∧ OptNumCell c v.rate) ∧
    (∃ c, fm.extract .commodity rec = .ok c ∧ v.commodity = c.getD cfg.primary) ∧
    (fm.extract .payee rec = .ok (some v.payee)) ∧
    (fm.extract .category rec = .ok v.category) ∧
    (fm.extract .secondaryCommodity rec = .ok v.secondaryCommodity) := by
  unfold readRow at h
  simp only [bind, Outcome.bind] at h
  repeat' split at h
  all_goals first | (simp at h; done) | skip
  rename_i hpay _ _ _ _ _ hbal _ _ hsec _ _ hsc _ _ hcat _ _ hcom _ _ hrate
  simp only [Outcome.ok.injEq, Option.some.injEq] at h
  subst h
  obtain ⟨cb, hb1, hb2⟩ := matchBind_ok hbal
  obtain ⟨cs, hs1, hs2⟩ := matchBind_ok hsec
  obtain ⟨cr, hr1, hr2⟩ := matchBind_ok hrate
  exact ⟨⟨cb, hb1, optDecimal_cell pd cap _ _ hb2⟩, ⟨cs, hs1, optDecimal_cell pd cap _ _ hs2⟩,
    ⟨cr, hr1, optDecimal_cell pd cap _ _ hr2⟩, ⟨_, hcom, rfl⟩, hpay, hcat, hsc⟩

/-! ## the amount of a row -/

theorem cleanDec_negate (d : Dec) : cleanDec d.negate = cleanDec d := rfl

theorem cleanDec_default : cleanDec ({} : Dec) = true := by decide

/-- **the amount of a row, on the written numbers** (`FieldMap::amount` with okane's own decoder).  With an `amount`
column: the number written in the cell (an empty cell counts as `0`), negated for a liability account.  With credit and
debit columns: `+` the number written in the credit cell when that cell is not empty, else `−` the number written in the
debit cell.  Digit for digit: `NumCell` ties the decimal to the text (`CellWritten`). -/
def AmountWritten (fm : FieldMap) (at_ : AccountType) (rec : List String) (a : Dec) : Prop :=
  match fm.value with
  | .amount f => ∃ cell v, fm.resolve .amount f rec = .ok (some cell) ∧ NumCell cell v ∧
      a = (match at_ with
        | .asset => v.getD {}
        | .liability => (v.getD {}).negate)
  | .creditDebit cf df => ∃ credit debit, fm.resolve .credit cf rec = .ok (some credit) ∧
      fm.resolve .debit df rec = .ok (some debit) ∧
      ((credit.isEmpty = false ∧ NumCell credit (some a) ∧ (a.isZero = false ∨ debit.isEmpty = true)) ∨
       (debit.isEmpty = false ∧
         (credit.isEmpty = true ∨ (credit.isEmpty = false ∧ ∃ c0, NumCell credit (some c0) ∧ c0.isZero = true)) ∧
         ∃ d, NumCell debit (some d) ∧ a = d.negate))

theorem NumCell.clean {cell : String} {v : Option Dec} (h : NumCell cell v) : cleanDec (v.getD {}) = true := by
  rcases h with ⟨_, rfl⟩ | ⟨_, d, rfl, _, _, hc⟩
  · exact cleanDec_default
  · exact hc

theorem amount_written (pd : String → Option Date) (cap : Captures) (fm : FieldMap) (at_ : AccountType)
    (rec : List String) (a : Dec) (h : fm.amount (cellEnv pd cap) at_ rec = .ok a) :
    AmountWritten fm at_ rec a ∧ cleanDec a = true := by
  unfold AmountWritten
  cases hv : fm.value with
  | amount f =>
    obtain ⟨cell, v, hc, hs, ha, hl⟩ := CellsUse.sign_amount _ fm at_ rec f a hv h
    have hn := strToCommaDecimal_cell pd cap cell v hs
    refine ⟨⟨cell, v, hc, hn, ?_⟩, ?_⟩
    · cases at_
      · exact ha rfl
      · exact hl rfl
    · cases at_
      · rw [ha rfl]; exact hn.clean
      · rw [hl rfl, cleanDec_negate]; exact hn.clean
  | creditDebit cf df =>
    obtain ⟨credit, debit, h1, h2, h3⟩ := CellsUse.sign_credit_debit _ fm at_ rec cf df a hv h
    rcases h3 with ⟨he, hp, hnz⟩ | ⟨hd, hc0, d, hp, rfl⟩
    · have hp' : cellDecimal credit = some a := hp
      obtain ⟨hw, hcl⟩ := cellDecimal_written credit a hp'
      exact ⟨⟨credit, debit, h1, h2, Or.inl ⟨he, Or.inr ⟨he, a, rfl, hp', hw, hcl⟩, hnz⟩⟩, hcl⟩
    · have hp' : cellDecimal debit = some d := hp
      obtain ⟨hw, hcl⟩ := cellDecimal_written debit d hp'
      have hc0' : credit.isEmpty = true ∨ (credit.isEmpty = false ∧ ∃ c0, NumCell credit (some c0) ∧ c0.isZero = true) := by
        rcases hc0 with hce | ⟨hce, c0, hpc, hz⟩
        · exact Or.inl hce
        · have hpc' : cellDecimal credit = some c0 := hpc
          obtain ⟨hwc, hclc⟩ := cellDecimal_written credit c0 hpc'
          exact Or.inr ⟨hce, c0, Or.inr ⟨hce, c0, rfl, hpc', hwc, hclc⟩, hz⟩
      exact ⟨⟨credit, debit, h1, h2, Or.inr ⟨hd, hc0', d, Or.inr ⟨hd, d, rfl, hp', hw, hcl⟩, rfl⟩⟩,
        by rw [cleanDec_negate]; exact hcl⟩

/-- the value and the decimal places of a number cell's decimal (`0`, no places, for an empty cell) -/
theorem NumCell.value {cell : String} {v : Option Dec} (h : NumCell cell v) :
    (cell.isEmpty = true ∧ (v.getD {}).toRat = 0 ∧ (v.getD {}).scale = 0 ∧ (v.getD {}).mant = 0) ∨
    (cell.isEmpty = false ∧ CellWritten cell (v.getD {}).toRat (v.getD {}).scale) := by
  rcases h with ⟨he, rfl⟩ | ⟨he, d, rfl, _, hw, _⟩
  · left
    refine ⟨he, ?_, rfl, rfl⟩
    simp [Dec.toRat, Rat.div_def]
  · right
    exact ⟨he, hw⟩

/-! ## what one row puts into the `Txn` (every decoder environment) -/

/-- the transaction as it stands after the rewrite rules' verdict was applied (`Txn::new`, `code_option`,
`dest_account_option`, `clear_state(Pending)` unless cleared) -/
def ruledTxn (env : CsvEnv) (cfg : CsvCfg) (v : RowValues) : Txn :=
  let fragment := rowFragment env cfg v
  let txn := Txn.new v.date (fragment.payee.getD v.payee) ⟨v.amount, v.commodity⟩
  let txn := (txn.codeOption fragment.code).destAccountOption fragment.account
  if !fragment.cleared then txn.setClearState .pending else txn

/-- the rest of the loop body up to the charge: note, balance, charge -/
def rowTail (env : CsvEnv) (cfg : CsvCfg) (fm : FieldMap) (rec : List String) (v : RowValues) (txn : Txn) :
    Outcome ImportErr Txn :=
  match fm.extract .note rec with
  | .ok note =>
    let txn := match note with
      | some n => if !isBlank n then txn.addComment n else txn
      | none => txn
    let txn := match v.balance with
      | some b => txn.setBalance ⟨b, v.commodity⟩
      | none => txn
    match fm.extract .charge rec with
    | .ok none => .ok txn
    | .ok (some ch) =>
      match cfg.operator with
      | none => .err (.invalidConfig "config should have operator to have charge")
      | some op =>
        match strToCommaDecimal env ch with
        | .ok (some value) => if !value.isZero then .ok (txn.addCharge op ⟨value, v.commodity⟩) else .ok txn
        | .ok none => .ok txn
        | .err e => .err e
        | .panic s => .panic s
        | .fuelOut => .fuelOut
    | .err e => .err e
    | .panic s => .panic s
    | .fuelOut => .fuelOut
  | .err e => .err e
  | .panic s => .panic s
  | .fuelOut => .fuelOut

theorem baseTxn_eq (env : CsvEnv) (cfg : CsvCfg) (fm : FieldMap) (rec : List String) (v : RowValues) :
    baseTxn env cfg fm rec v = rowTail env cfg fm rec v (ruledTxn env cfg v) := rfl

theorem rowTail_spec (env : CsvEnv) (cfg : CsvCfg) (fm : FieldMap) (rec : List String) (v : RowValues) (t0 t : Txn)
    (h : rowTail env cfg fm rec v t0 = .ok t) :
    t.date = t0.date ∧ t.effectiveDate = t0.effectiveDate ∧ t.payee = t0.payee ∧ t.code = t0.code ∧
    t.destAccount = t0.destAccount ∧ t.clearState = t0.clearState ∧ t.amount = t0.amount ∧ t.rates = t0.rates ∧
    t.transferredAmount = t0.transferredAmount ∧
    t.balance = (match v.balance with
      | some b => some ⟨b, v.commodity⟩
      | none => t0.balance) ∧
    (∃ note, fm.extract .note rec = .ok note ∧
      t.comments = t0.comments ++ (match note with
        | some n => if !isBlank n then [n] else []
        | none => [])) ∧
    (t.charges = t0.charges ∨ ∃ op cell value, cfg.operator = some op ∧ fm.extract .charge rec = .ok (some cell) ∧
      strToCommaDecimal env cell = .ok (some value) ∧ value.isZero = false ∧
      t.charges = t0.charges ++ [⟨op, ⟨value, v.commodity⟩⟩]) := by
  unfold rowTail at h
  repeat' split at h
  all_goals first | (simp at h; done) | skip
  all_goals simp only [Outcome.ok.injEq] at h
  all_goals subst h
  all_goals simp [Txn.addComment, Txn.setBalance, Txn.addCharge]
  all_goals first
    | (refine ⟨_, by assumption, ?_⟩; simp_all; done)
    | (refine ⟨⟨_, by assumption, ?_⟩, _, by assumption, _, by assumption, _, by assumption, ?_, rfl, rfl⟩ <;> simp_all; done)

theorem ruledTxn_spec (env : CsvEnv) (cfg : CsvCfg) (v : RowValues) :
    (ruledTxn env cfg v).date = v.date ∧ (ruledTxn env cfg v).effectiveDate = none ∧
    (ruledTxn env cfg v).payee = (rowFragment env cfg v).payee.getD v.payee ∧
    (ruledTxn env cfg v).code = (rowFragment env cfg v).code ∧
    (ruledTxn env cfg v).destAccount = (rowFragment env cfg v).account ∧
    (ruledTxn env cfg v).clearState = (if (rowFragment env cfg v).cleared then none else some .pending) ∧
    (ruledTxn env cfg v).amount = ⟨v.amount, v.commodity⟩ ∧ (ruledTxn env cfg v).rates = [] ∧
    (ruledTxn env cfg v).transferredAmount = none ∧ (ruledTxn env cfg v).balance = none ∧
    (ruledTxn env cfg v).comments = [] ∧ (ruledTxn env cfg v).charges = [] := by
  unfold ruledTxn
  cases hcl : (rowFragment env cfg v).cleared <;>
    simp [hcl, Txn.new, Txn.codeOption, Txn.destAccountOption, Txn.setClearState]

/-- the glue of C17 (`Txn.withFragment`) is what the CSV importer does with the rules' verdict -/
theorem ruledTxn_withFragment (env : CsvEnv) (cfg : CsvCfg) (v : RowValues) :
    ruledTxn env cfg v =
      ((Txn.new v.date ((rowFragment env cfg v).payee.getD v.payee) ⟨v.amount, v.commodity⟩).codeOption
        (rowFragment env cfg v).code).withFragment (rowFragment env cfg v) := rfl

/-- everything `csv::import` does before the conversion block, field by field: date, payee / code / counter-account /
pending state from the rewrite rules' verdict, the amount and balance as read, the note as only comment, no rate, no
transferred amount, and at most one charge — the non-zero number of the charge cell, paid to the operator. -/
theorem baseTxn_full (env : CsvEnv) (cfg : CsvCfg) (fm : FieldMap) (rec : List String) (v : RowValues) (t : Txn)
    (h : baseTxn env cfg fm rec v = .ok t) :
    t.date = v.date ∧ t.effectiveDate = none ∧ t.payee = (rowFragment env cfg v).payee.getD v.payee ∧
    t.code = (rowFragment env cfg v).code ∧ t.destAccount = (rowFragment env cfg v).account ∧
    t.clearState = (if (rowFragment env cfg v).cleared then none else some .pending) ∧
    t.amount = ⟨v.amount, v.commodity⟩ ∧ t.rates = [] ∧ t.transferredAmount = none ∧
    t.balance = v.balance.map (fun b => ⟨b, v.commodity⟩) ∧
    (∃ note, fm.extract .note rec = .ok note ∧
      t.comments = (match note with
        | some n => if !isBlank n then [n] else []
        | none => [])) ∧
    (t.charges = [] ∨ ∃ op cell value, cfg.operator = some op ∧ fm.extract .charge rec = .ok (some cell) ∧
      strToCommaDecimal env cell = .ok (some value) ∧ value.isZero = false ∧ t.charges = [⟨op, ⟨value, v.commodity⟩⟩]) := by
  rw [baseTxn_eq] at h
  obtain ⟨h1, h2, h3, h4, h5, h6, h7, h8, h9, h10, h11, h12⟩ := rowTail_spec env cfg fm rec v _ t h
  obtain ⟨g1, g2, g3, g4, g5, g6, g7, g8, g9, g10, g11, g12⟩ := ruledTxn_spec env cfg v
  refine ⟨h1.trans g1, h2.trans g2, h3.trans g3, h4.trans g4, h5.trans g5, h6.trans g6, h7.trans g7, h8.trans g8,
    h9.trans g9, ?_, ?_, ?_⟩
  · rw [h10, g10]; cases v.balance <;> rfl
  · obtain ⟨note, hn, hc⟩ := h11
    exact ⟨note, hn, by rw [hc, g11]; rfl⟩
  · rw [g12] at h12
    rcases h12 with h12 | ⟨op, cell, value, a1, a2, a3, a4, a5⟩
    · exact Or.inl h12
    · exact Or.inr ⟨op, cell, value, a1, a2, a3, a4, by simpa using a5⟩

/-- **`buildTxn`, in closed form**: the base transaction, untouched when no conversion is in force; otherwise with the one
rate (keyed by the commodity it prices) and the transferred amount in the secondary commodity — the statement's own figure
(`extract`) or `amount × rate` / `amount ÷ rate` (`compute`). -/
theorem buildTxn_spec (env : CsvEnv) (cfg : CsvCfg) (fm : FieldMap) (rec : List String) (v : RowValues)
    (txn : Txn) (i : Bool) (h : buildTxn env cfg fm rec v = .ok (txn, i)) :
    ∃ base, baseTxn env cfg fm rec v = .ok base ∧
      match selectedConversion env cfg v with
      | none => txn = base ∧ i = false
      | some conv => ∃ r sc tr, v.rate = some r ∧ conv.commodity.or v.secondaryCommodity = some sc ∧ sc ≠ v.commodity ∧
          txn = { base with
                  rates := (match conv.rate with
                            | .priceOfPrimary => [(v.commodity, ⟨r, sc⟩)]
                            | .priceOfSecondary => [(sc, ⟨r, v.commodity⟩)]),
                  transferredAmount := some ⟨tr, sc⟩ } ∧
          (conv.amount = .extract → v.secondaryAmount = some tr) ∧
          (conv.amount = .compute → conv.rate = .priceOfPrimary → tr = Dec.mul v.amount r) ∧
          (conv.amount = .compute → conv.rate = .priceOfSecondary → Dec.div v.amount r = .ok (tr, i)) := by
  unfold buildTxn at h
  split at h <;> try (simp at h; done)
  rename_i base hb
  refine ⟨base, hb, ?_⟩
  cases hsel : selectedConversion env cfg v with
  | none =>
    rw [hsel] at h
    simp only [Outcome.ok.injEq, Prod.mk.injEq] at h
    exact ⟨h.1.symm, h.2.symm⟩
  | some conv =>
    rw [hsel] at h
    have hr := (baseTxn_full env cfg fm rec v base hb).2.2.2.2.2.2.2.1
    exact applyConversion_spec base txn conv v.amount v.commodity v.rate v.secondaryAmount v.secondaryCommodity i hr h

/-! ## one CSV row with okane's own decoder: the numbers of the `Txn`, from the TEXT of the cells -/

/-- a number that was read from an optional number field comes from a non-empty cell and is the number written there -/
theorem OptNumCell.some_inv {c : Option String} {d : Dec} (h : OptNumCell c (some d)) :
    ∃ cell, c = some cell ∧ cell.isEmpty = false ∧ cellDecimal cell = some d ∧ CellWritten cell d.toRat d.scale ∧
      cleanDec d = true := by
  cases c with
  | none => cases h
  | some cell =>
    rcases h with ⟨_, h⟩ | ⟨he, d', h1, h2, h3, h4⟩
    · cases h
    · injection h1 with h1
      subst h1
      exact ⟨cell, rfl, he, h2, h3, h4⟩

/-- **the numbers of the transaction of one CSV row, on the text of its cells.** -/
structure RowNumbers (pd : String → Option Date) (cap : Captures) (cfg : CsvCfg) (fm : FieldMap) (rec : List String)
    (v : RowValues) (txn : Txn) (inexact : Bool) : Prop where
  /-- the amount: sign rule of `AmountWritten` on the number(s) written in the amount / credit / debit cell -/
  amount : txn.amount = ⟨v.amount, v.commodity⟩ ∧ AmountWritten fm cfg.accountType rec v.amount
  /-- the balance assertion: the number written in the balance cell (none for an empty cell or without the column) -/
  balance : txn.balance = v.balance.map (fun b => ⟨b, v.commodity⟩) ∧
    ∃ c, fm.extract .balance rec = .ok c ∧ OptNumCell c v.balance
  /-- at most one charge: the non-zero number written in the charge cell, paid to the operator -/
  charge : txn.charges = [] ∨ ∃ op cell value, cfg.operator = some op ∧ fm.extract .charge rec = .ok (some cell) ∧
    NumCell cell (some value) ∧ value.isZero = false ∧ txn.charges = [⟨op, ⟨value, v.commodity⟩⟩]
  /-- the conversion: the one rate is the number written in the rate cell, keyed by the commodity it prices; the
  transferred amount is the number written in the secondary-amount cell (`extract`) or computed from amount and rate -/
  conversion :
    match selectedConversion (cellEnv pd cap) cfg v with
    | none => txn.rates = [] ∧ txn.transferredAmount = none ∧ inexact = false
    | some conv => ∃ r sc tr rcell, fm.extract .rate rec = .ok (some rcell) ∧ NumCell rcell (some r) ∧
        conv.commodity.or v.secondaryCommodity = some sc ∧ sc ≠ v.commodity ∧
        txn.rates = (match conv.rate with
          | .priceOfPrimary => [(v.commodity, ⟨r, sc⟩)]
          | .priceOfSecondary => [(sc, ⟨r, v.commodity⟩)]) ∧
        txn.transferredAmount = some ⟨tr, sc⟩ ∧
        (conv.amount = .extract → ∃ scell, fm.extract .secondaryAmount rec = .ok (some scell) ∧ NumCell scell (some tr)) ∧
        (conv.amount = .compute → conv.rate = .priceOfPrimary → tr = Dec.mul v.amount r) ∧
        (conv.amount = .compute → conv.rate = .priceOfSecondary → Dec.div v.amount r = .ok (tr, inexact))

theorem NumCell.of_opt {c : Option String} {d : Dec} (h : OptNumCell c (some d)) :
    ∃ cell, c = some cell ∧ NumCell cell (some d) := by
  cases c with
  | none => cases h
  | some cell => exact ⟨cell, rfl, h⟩

/-- **one CSV row, from the cells to the `Txn`** (importer model with `Cells.cellEnv`): every number of the transaction is
the number written in the cell the configuration points to, under the importer's sign rules. -/
theorem csvRow_numbers (pd : String → Option Date) (cap : Captures) (cfg : CsvCfg) (fm : FieldMap) (rec : List String)
    (v : RowValues) (txn : Txn) (i : Bool)
    (hrow : readRow (cellEnv pd cap) cfg fm rec = .ok (some v))
    (hb : buildTxn (cellEnv pd cap) cfg fm rec v = .ok (txn, i)) :
    RowNumbers pd cap cfg fm rec v txn i := by
  obtain ⟨hbal, hsec, hrate, _, _, _, _⟩ := readRow_cells pd cap cfg fm rec v hrow
  have hamt := (amount_written pd cap fm cfg.accountType rec v.amount
    (CellsUse.readRow_amount _ cfg fm rec v hrow)).1
  obtain ⟨base, hbase, hconv⟩ := buildTxn_spec _ cfg fm rec v txn i hb
  obtain ⟨_, _, _, _, _, _, b7, b8, b9, b10, _, b12⟩ := baseTxn_full _ cfg fm rec v base hbase
  have hcharge : base.charges = [] ∨ ∃ op cell value, cfg.operator = some op ∧ fm.extract .charge rec = .ok (some cell) ∧
      NumCell cell (some value) ∧ value.isZero = false ∧ base.charges = [⟨op, ⟨value, v.commodity⟩⟩] := by
    rcases b12 with h | ⟨op, cell, value, a1, a2, a3, a4, a5⟩
    · exact Or.inl h
    · exact Or.inr ⟨op, cell, value, a1, a2, strToCommaDecimal_cell pd cap cell _ a3, a4, a5⟩
  cases hsel : selectedConversion (cellEnv pd cap) cfg v with
  | none =>
    rw [hsel] at hconv
    obtain ⟨rfl, rfl⟩ := hconv
    exact ⟨⟨b7, hamt⟩, ⟨b10, hbal⟩, hcharge, by rw [hsel]; exact ⟨b8, b9, rfl⟩⟩
  | some conv =>
    rw [hsel] at hconv
    obtain ⟨r, sc, tr, hr, hsc, hne, htxn, hext, hcp, hcs⟩ := hconv
    obtain ⟨rc, hrc1, hrc2⟩ := hrate
    rw [hr] at hrc2
    obtain ⟨rcell, rfl, hrcell⟩ := NumCell.of_opt hrc2
    refine ⟨⟨by rw [htxn]; exact b7, hamt⟩, ⟨by rw [htxn]; exact b10, hbal⟩, by rw [htxn]; exact hcharge, ?_⟩
    rw [hsel]
    refine ⟨r, sc, tr, rcell, hrc1, hrcell, hsc, hne, by rw [htxn], by rw [htxn], ?_, hcp, hcs⟩
    intro hx
    obtain ⟨c, hc1, hc2⟩ := hsec
    rw [hext hx] at hc2
    obtain ⟨scell, rfl, hscell⟩ := NumCell.of_opt hc2
    exact ⟨scell, hc1, hscell⟩

/-! ## `CleanText` = text part + number part; the number part comes for free from the cell decoder -/

/-- the TEXT part of `CleanText`: dates, payee, code, comments, accounts, commodities, charge payees -/
def CleanWords (t : Txn) (srcAccount : String) : Bool :=
  cleanDate t.date && (match t.effectiveDate with | some d => cleanDate d | none => true) &&
  cleanPayee t.code.isSome t.payee &&
  (match t.code with | some c => cleanCode c | none => true) &&
  t.comments.all cleanComment &&
  cleanAccount srcAccount &&
  (match t.destAccount with | some a => cleanAccount a | none => true) &&
  cleanCommodity t.amount.commodity &&
  (match t.transferredAmount with | some a => cleanCommodity a.commodity | none => true) &&
  (match t.balance with | some a => cleanCommodity a.commodity | none => true) &&
  t.rates.all (fun kv => cleanCommodity kv.2.commodity) &&
  t.charges.all (fun c => cleanTagValue c.payee && cleanCommodity c.amount.commodity)

/-- the NUMBER part of `CleanText`: every decimal inside rust_decimal's range -/
def NumbersInRange (t : Txn) : Bool :=
  cleanDec t.amount.value &&
  (match t.transferredAmount with | some a => cleanDec a.value | none => true) &&
  (match t.balance with | some a => cleanDec a.value | none => true) &&
  t.rates.all (fun kv => cleanDec kv.2.value) &&
  t.charges.all (fun c => cleanDec c.amount.value)

theorem cleanText_iff (t : Txn) (src : String) :
    CleanText t src = true ↔ (CleanWords t src = true ∧ NumbersInRange t = true) := by
  simp only [CleanText, CleanWords, NumbersInRange, cleanAmount, Bool.and_eq_true, List.all_eq_true]
  cases t.transferredAmount <;> cases t.balance <;> simp only [Bool.and_eq_true] <;> constructor <;> intro h <;>
    simp_all <;> grind

theorem NumCell.clean_some {cell : String} {d : Dec} (h : NumCell cell (some d)) : cleanDec d = true := h.clean

/-- **the numbers of a CSV row are always in range** (mantissa below 2^96, at most 28 decimal places) — they are decoded
cells — except possibly a *computed* secondary amount (`amount × rate`, `amount ÷ rate`: rust_decimal's arithmetic beyond 96
bits is outside the model), for which the condition is kept as a hypothesis. -/
theorem csvRow_inRange (pd : String → Option Date) (cap : Captures) (cfg : CsvCfg) (fm : FieldMap) (rec : List String)
    (v : RowValues) (txn : Txn) (i : Bool)
    (hrow : readRow (cellEnv pd cap) cfg fm rec = .ok (some v))
    (hb : buildTxn (cellEnv pd cap) cfg fm rec v = .ok (txn, i))
    (hcomp : ∀ conv, selectedConversion (cellEnv pd cap) cfg v = some conv → conv.amount = .compute →
      ∀ tr, txn.transferredAmount = some tr → cleanDec tr.value = true) :
    NumbersInRange txn = true := by
  have hn := csvRow_numbers pd cap cfg fm rec v txn i hrow hb
  have hamt : cleanDec v.amount = true :=
    (amount_written pd cap fm cfg.accountType rec v.amount (CellsUse.readRow_amount _ cfg fm rec v hrow)).2
  have h1 : cleanDec txn.amount.value = true := by rw [hn.amount.1]; exact hamt
  have h3 : (match txn.balance with | some a => cleanDec a.value | none => true) = true := by
    obtain ⟨hb1, c, _, hc⟩ := hn.balance
    rw [hb1]
    cases hvb : v.balance with
    | none => rfl
    | some b => exact hc.clean b hvb
  have h5 : txn.charges.all (fun c => cleanDec c.amount.value) = true := by
    rcases hn.charge with h | ⟨op, cell, value, _, _, hc, _, h⟩
    · rw [h]; rfl
    · rw [h]; simp [hc.clean_some]
  have hconv := hn.conversion
  cases hsel : selectedConversion (cellEnv pd cap) cfg v with
  | none =>
    rw [hsel] at hconv
    obtain ⟨hr, ht, _⟩ := hconv
    simp only [NumbersInRange, h1, h3, h5, hr, ht, List.all_nil, Bool.and_self]
  | some conv =>
    rw [hsel] at hconv
    obtain ⟨r, sc, tr, rcell, _, hrc, _, _, hrates, htr, hext, _, _⟩ := hconv
    have h2 : cleanDec tr = true := by
      cases ha : conv.amount with
      | extract => obtain ⟨scell, _, hs⟩ := hext ha; exact hs.clean_some
      | compute => exact hcomp conv hsel ha ⟨tr, sc⟩ htr
    have h4 : txn.rates.all (fun kv => cleanDec kv.2.value) = true := by
      rw [hrates]
      cases conv.rate <;> simp [hrc.clean_some]
    simp only [NumbersInRange, h1, h3, h5, h4, htr, h2, Bool.and_self]

/-- **`CleanText` of a CSV row is a condition on its TEXT only** (payee, code, note, accounts, commodities, operator): the
numbers decoded from the cells never leave the class. -/
theorem csvRow_cleanText (pd : String → Option Date) (cap : Captures) (cfg : CsvCfg) (fm : FieldMap) (rec : List String)
    (v : RowValues) (txn : Txn) (i : Bool)
    (hrow : readRow (cellEnv pd cap) cfg fm rec = .ok (some v))
    (hb : buildTxn (cellEnv pd cap) cfg fm rec v = .ok (txn, i))
    (hcomp : ∀ conv, selectedConversion (cellEnv pd cap) cfg v = some conv → conv.amount = .compute →
      ∀ tr, txn.transferredAmount = some tr → cleanDec tr.value = true) (src : String) :
    CleanText txn src = CleanWords txn src := by
  have h := csvRow_inRange pd cap cfg fm rec v txn i hrow hb hcomp
  have := cleanText_iff txn src
  cases h1 : CleanText txn src <;> cases h2 : CleanWords txn src <;> simp_all

/-- the account-type sign of the `amount` column: a liability statement lists charges as positive numbers -/
def AccountType.signed (at_ : AccountType) (x : Rat) : Rat :=
  match at_ with
  | .asset => x
  | .liability => -x

/-- **the amount on the written numbers, by value**: with an `amount` column the value is the number written (`0` for an
empty cell), negated for a liability account, with the decimal places written; with credit / debit columns it is `+` the
credit cell's number, else `−` the debit cell's. -/
theorem AmountWritten.value {fm : FieldMap} {at_ : AccountType} {rec : List String} {a : Dec}
    (h : AmountWritten fm at_ rec a) :
    match fm.value with
    | .amount f => ∃ cell, fm.resolve .amount f rec = .ok (some cell) ∧
        ((cell.isEmpty = true ∧ a.mant = 0 ∧ a.scale = 0) ∨
         (cell.isEmpty = false ∧ ∃ x, CellWritten cell x a.scale ∧ a.toRat = at_.signed x))
    | .creditDebit cf df => ∃ credit debit, fm.resolve .credit cf rec = .ok (some credit) ∧
        fm.resolve .debit df rec = .ok (some debit) ∧
        ((credit.isEmpty = false ∧ CellWritten credit a.toRat a.scale ∧ (a.isZero = false ∨ debit.isEmpty = true)) ∨
         (debit.isEmpty = false ∧ (credit.isEmpty = true ∨ (credit.isEmpty = false ∧ ∃ s0, CellWritten credit 0 s0)) ∧
            ∃ x, CellWritten debit x a.scale ∧ a.toRat = -x)) := by
  unfold AmountWritten at h
  cases hv : fm.value with
  | amount f =>
    rw [hv] at h
    obtain ⟨cell, v, hc, hn, ha⟩ := h
    refine ⟨cell, hc, ?_⟩
    rcases hn with ⟨he, rfl⟩ | ⟨he, d, rfl, _, hw, _⟩
    · left
      cases at_ <;> (subst ha; exact ⟨he, rfl, rfl⟩)
    · right
      refine ⟨he, d.toRat, ?_, ?_⟩
      · cases at_ <;> (subst ha; exact hw)
      · cases at_ <;> subst ha
        · rfl
        · exact Dec.negate_toRat d
  | creditDebit cf df =>
    rw [hv] at h
    obtain ⟨credit, debit, h1, h2, h3⟩ := h
    refine ⟨credit, debit, h1, h2, ?_⟩
    rcases h3 with ⟨he, hn, hnz⟩ | ⟨hd, hc0, d, hn, rfl⟩
    · left
      rcases hn with ⟨_, h0⟩ | ⟨_, d, h0, _, hw, _⟩
      · cases h0
      · injection h0 with h0; subst h0; exact ⟨he, hw, hnz⟩
    · right
      have hc0' : credit.isEmpty = true ∨ (credit.isEmpty = false ∧ ∃ s0, CellWritten credit 0 s0) := by
        rcases hc0 with hce | ⟨hce, c0, hnc, hz⟩
        · exact Or.inl hce
        · rcases hnc with ⟨_, h0⟩ | ⟨_, c1, h0, _, hwc, _⟩
          · cases h0
          · injection h0 with h0; subst h0
            have h0r : c0.toRat = 0 := by
              have hm : c0.mant = 0 := by simpa [Dec.isZero] using hz
              simp [Dec.toRat, hm, Rat.div_def]
            exact Or.inr ⟨hce, c0.scale, by rw [← h0r]; exact hwc⟩
      rcases hn with ⟨_, h0⟩ | ⟨_, d', h0, _, hw, _⟩
      · cases h0
      · injection h0 with h0; subst h0
        exact ⟨hd, hc0', d.toRat, hw, Dec.negate_toRat d⟩

/-! ## the whole statement: every imported transaction comes from one record -/

/-- every transaction `csv::import` hands over is the transaction of one record of the file (for every decoder
environment) -/
theorem csvImport_mem (env : CsvEnv) (cfg : CsvCfg) (header : List String) (records : List (List String))
    (txns : List Txn) (h : csvImport env cfg header records = .ok txns) :
    ∃ fm, FieldMap.tryNew cfg.fields header = .ok fm ∧
      ∀ t ∈ txns, ∃ rec ∈ records, ∃ v i, readRow env cfg fm rec = .ok (some v) ∧ buildTxn env cfg fm rec v = .ok (t, i) := by
  obtain ⟨fm, ts, hfm, hcsv, htx⟩ := CellsUse.csvImport_rows env cfg header records txns h
  refine ⟨fm, hfm, ?_⟩
  intro t ht
  have hmem : t ∈ ts.map Prod.fst := by
    rw [htx] at ht
    unfold applyRowOrder at ht
    cases ho : cfg.rowOrder <;> simp only [ho] at ht
    · exact ht
    · exact List.mem_reverse.1 ht
  obtain ⟨p, hp, hpt⟩ := List.mem_map.1 hmem
  obtain ⟨rec, hrec, hrow⟩ := CellsUse.csvRows_mem env cfg fm records ts hcsv p hp
  obtain ⟨v, hv, hb⟩ := CellsUse.csvRow_some env cfg fm rec p hrow
  obtain ⟨t', i⟩ := p
  simp only at hpt
  subst hpt
  exact ⟨rec, hrec, v, i, hv, hb⟩

/-! ## the rewrite rules' verdict in the `Txn` (C17's subject, for every decoder environment) -/

/-- the record as the CSV matchers see it, and the rules' verdict on it -/
theorem rowFragment_eq (env : CsvEnv) (cfg : CsvCfg) (v : RowValues) :
    rowFragment env cfg v = extract env.cap cfg.rewrite (csvRecord v.payee v.category v.secondaryCommodity) := rfl

/-- **payee, code, counter-account and pending state of the transaction of a CSV row are the rules' verdict** on the record
(payee / category / secondary commodity as the field map extracts them), whatever the conversion block does afterwards. -/
theorem csvRow_rules (env : CsvEnv) (cfg : CsvCfg) (fm : FieldMap) (rec : List String) (v : RowValues)
    (txn : Txn) (i : Bool) (h : buildTxn env cfg fm rec v = .ok (txn, i)) :
    txn.payee = (rowFragment env cfg v).payee.getD v.payee ∧ txn.code = (rowFragment env cfg v).code ∧
    txn.destAccount = (rowFragment env cfg v).account ∧
    txn.clearState = (if (rowFragment env cfg v).cleared then none else some .pending) ∧
    txn.date = v.date ∧ txn.effectiveDate = none ∧ txn.amount = ⟨v.amount, v.commodity⟩ := by
  obtain ⟨base, hbase, hconv⟩ := buildTxn_spec env cfg fm rec v txn i h
  obtain ⟨b1, b2, b3, b4, b5, b6, b7, _⟩ := baseTxn_full env cfg fm rec v base hbase
  cases hsel : selectedConversion env cfg v with
  | none =>
    rw [hsel] at hconv
    obtain ⟨rfl, _⟩ := hconv
    exact ⟨b3, b4, b5, b6, b1, b2, b7⟩
  | some conv =>
    rw [hsel] at hconv
    obtain ⟨r, sc, tr, _, _, _, rfl, _⟩ := hconv
    exact ⟨b3, b4, b5, b6, b1, b2, b7⟩

/-! ## non-vacuity: a statement whose number cells carry currency signs, thousands separators and a commodity code

The cells are decoded by the MODEL of `str_to_comma_decimal` (`Cells.cellDecimal`), not by a table. -/

/-- date decoder of the examples (`%Y-%m-%d` on the two dates used) -/
def exCsvDates : String → Option Date := fun s =>
  if s = "2024-01-02" then some ⟨2024, 1, 2⟩ else if s = "2024-01-03" then some ⟨2024, 1, 3⟩ else none

/-- a two-pattern "regex engine" for the examples: `shop` matches any text containing it, case-insensitively spelled here -/
def exCsvCap : Captures := fun pat hay =>
  if pat = "shop" then (if hay = "shop" ∨ hay = "SHOP 24" then some {} else none) else none

/-- columns: date, payee, amount, balance, charge, rate, secondary amount, secondary commodity; one rewrite rule -/
def exCsvCfg : CsvCfg :=
  { account := "Assets:Bank", accountType := .asset, operator := some "The Bank", primary := "USD", conversion := {},
    rowOrder := .oldToNew,
    fields := [(.date, .index 1), (.payee, .index 2), (.amount, .index 3), (.balance, .index 4), (.charge, .index 5),
      (.rate, .index 6), (.secondaryAmount, .index 7), (.secondaryCommodity, .index 8)],
    rewrite := [{ matcher := .field ⟨[(.payee, "shop")]⟩, account := some "Expenses:Shop" }] }

def exCsvHeader : List String := ["date", "payee", "amount", "balance", "fee", "rate", "counter", "ccy"]

def exCsvFm : FieldMap :=
  ⟨.column 0, .column 1, .amount (.column 2),
    [(.date, .column 0), (.payee, .column 1), (.amount, .column 2), (.balance, .column 3), (.charge, .column 4),
     (.rate, .column 5), (.secondaryAmount, .column 6), (.secondaryCommodity, .column 7)], 7⟩

/-- `-$1,234.50`, balance `8,765.50 USD`, fee `2.00`, no conversion; the rule assigns `Expenses:Shop` -/
def exCsvRec1 : List String := ["2024-01-02", "shop", "-$1,234.50", "8,765.50 USD", "2.00", "", "", ""]
/-- `-50.00` paid as `EUR 62.50` at `0.8` USD per EUR; no rule matches -/
def exCsvRec2 : List String := ["2024-01-03", "fx", "-50.00", "", "", "0.8", "EUR 62.50", "EUR"]

def exCsvRow1 : RowValues :=
  ⟨⟨2024, 1, 2⟩, "shop", ⟨true, 123450, 2⟩, some ⟨false, 876550, 2⟩, none, some "", none, "USD", none⟩
def exCsvRow2 : RowValues :=
  ⟨⟨2024, 1, 3⟩, "fx", ⟨true, 5000, 2⟩, none, some ⟨false, 6250, 2⟩, some "EUR", none, "USD", some ⟨false, 8, 1⟩⟩

def exCsvTxn1 : Txn :=
  { date := ⟨2024, 1, 2⟩, payee := "shop", amount := ⟨⟨true, 123450, 2⟩, "USD"⟩, destAccount := some "Expenses:Shop",
    balance := some ⟨⟨false, 876550, 2⟩, "USD"⟩, charges := [⟨"The Bank", ⟨⟨false, 200, 2⟩, "USD"⟩⟩] }
def exCsvTxn2 : Txn :=
  { date := ⟨2024, 1, 3⟩, payee := "fx", amount := ⟨⟨true, 5000, 2⟩, "USD"⟩, clearState := some .pending,
    rates := [("EUR", ⟨⟨false, 8, 1⟩, "USD"⟩)], transferredAmount := some ⟨⟨false, 6250, 2⟩, "EUR"⟩ }

abbrev exCsvEnv : CsvEnv := cellEnv exCsvDates exCsvCap

example : cellDecimal "-$1,234.50" = some ⟨true, 123450, 2⟩ ∧ cellDecimal "8,765.50 USD" = some ⟨false, 876550, 2⟩ ∧
    cellDecimal "EUR 62.50" = some ⟨false, 6250, 2⟩ ∧ cellDecimal "1,23.4" = none := by decide +kernel
example : FieldMap.tryNew exCsvCfg.fields exCsvHeader = .ok exCsvFm := by decide +kernel
theorem exCsv_row1 : readRow exCsvEnv exCsvCfg exCsvFm exCsvRec1 = .ok (some exCsvRow1) := by rfl
theorem exCsv_row2 : readRow exCsvEnv exCsvCfg exCsvFm exCsvRec2 = .ok (some exCsvRow2) := by rfl
theorem exCsv_txn1 : buildTxn exCsvEnv exCsvCfg exCsvFm exCsvRec1 exCsvRow1 = .ok (exCsvTxn1, false) := by rfl
theorem exCsv_txn2 : buildTxn exCsvEnv exCsvCfg exCsvFm exCsvRec2 exCsvRow2 = .ok (exCsvTxn2, false) := by rfl
theorem exCsv_import : csvImport exCsvEnv exCsvCfg exCsvHeader [exCsvRec1, exCsvRec2] = .ok [exCsvTxn1, exCsvTxn2] := by
  rfl

theorem exCsv_hcomp1 : ∀ conv, selectedConversion exCsvEnv exCsvCfg exCsvRow1 = some conv → conv.amount = .compute →
    ∀ tr, exCsvTxn1.transferredAmount = some tr → cleanDec tr.value = true := by
  intro conv h
  have : selectedConversion exCsvEnv exCsvCfg exCsvRow1 = none := by rfl
  rw [this] at h; cases h

theorem exCsv_hcomp2 : ∀ conv, selectedConversion exCsvEnv exCsvCfg exCsvRow2 = some conv → conv.amount = .compute →
    ∀ tr, exCsvTxn2.transferredAmount = some tr → cleanDec tr.value = true := by
  intro conv h hc
  have : selectedConversion exCsvEnv exCsvCfg exCsvRow2 = some {} := by rfl
  rw [this] at h
  injection h with h; subst h; cases hc

-- `cellDecimal_written` / `cellDecimal_accepts_iff`: `-$1,234.50` writes a number; `1,23.4` does not
example : CellWritten "-$1,234.50" (⟨true, 123450, 2⟩ : Dec).toRat 2 :=
  (cellDecimal_written "-$1,234.50" ⟨true, 123450, 2⟩ (by decide +kernel)).1
example : ¬ ∃ x places, CellWritten "1,23.4" x places := by
  rw [← cellDecimal_accepts_iff]
  rintro ⟨d, hd⟩
  have : cellDecimal "1,23.4" = none := by decide +kernel
  rw [this] at hd; cases hd
-- the row theorems apply to both rows; the second one has a conversion with an extracted secondary amount
example := readRow_cells exCsvDates exCsvCap exCsvCfg exCsvFm exCsvRec1 exCsvRow1 exCsv_row1
example := (amount_written exCsvDates exCsvCap exCsvFm .asset exCsvRec1 ⟨true, 123450, 2⟩ (by rfl)).1.value
example := csvRow_numbers exCsvDates exCsvCap exCsvCfg exCsvFm exCsvRec1 exCsvRow1 exCsvTxn1 false exCsv_row1 exCsv_txn1
example := csvRow_numbers exCsvDates exCsvCap exCsvCfg exCsvFm exCsvRec2 exCsvRow2 exCsvTxn2 false exCsv_row2 exCsv_txn2
example : NumbersInRange exCsvTxn2 = true :=
  csvRow_inRange exCsvDates exCsvCap exCsvCfg exCsvFm exCsvRec2 exCsvRow2 exCsvTxn2 false exCsv_row2 exCsv_txn2 exCsv_hcomp2
example : CleanText exCsvTxn1 "Assets:Bank" = CleanWords exCsvTxn1 "Assets:Bank" :=
  csvRow_cleanText exCsvDates exCsvCap exCsvCfg exCsvFm exCsvRec1 exCsvRow1 exCsvTxn1 false exCsv_row1 exCsv_txn1
    exCsv_hcomp1 "Assets:Bank"
example : CleanWords exCsvTxn1 "Assets:Bank" = true ∧ CleanWords exCsvTxn2 "Assets:Bank" = true := by decide
example := csvImport_mem exCsvEnv exCsvCfg exCsvHeader [exCsvRec1, exCsvRec2] [exCsvTxn1, exCsvTxn2] exCsv_import
example := csvRow_rules exCsvEnv exCsvCfg exCsvFm exCsvRec1 exCsvRow1 exCsvTxn1 false exCsv_txn1
-- a cell beyond 96 bits is refused, so no hypothesis on the numbers is lost: `NumbersInRange` is never vacuous here
example : cellDecimal "79228162514264337593543950336" = none ∧
    cellDecimal "79228162514264337593543950335" = some ⟨false, 79228162514264337593543950335, 0⟩ := by decide +kernel

end Okane.Import
