import Okane.Lemmas.C05ImageTxn
import Okane.Lemmas.C05ImageDecl
/-!
# The image property of the ledger parser (C05): what the parser returns is printable

`C05_image`: for every text `t` with `TextOK t` (no white space other than blank, tab, LF, CR — decidable, see
`C05ImageBase`), every entry `e` that `parse_ledger` returns satisfies, after the meaning normalisation `canonEntry`, the
printer's well-formedness predicate `wfEntry` and has no negative literal in operand position (`plainV` on every value
expression of the entry) — exactly the hypotheses of `C05_entry` / `C05_roundtrip`.

The hypothesis cannot be dropped (`image_needs_asciiSpaceOnly`: concrete texts that violate it, parse, and yield an entry
that is not `wfEntry`).  The former second hypothesis `parensClosed` is gone: since `paren_str` must close on its line, a
payee that begins with an unclosed `(` is printable (`image_unclosed_paren`, the former necessity witness).
-/
set_option linter.unusedSimpArgs false
set_option linter.unusedVariables false
namespace Okane.C05Image
open Okane Okane.Comb Okane.Parse Okane.Unparse Okane.ExprParse

/-- what the image property says of one entry (the Bool `plainEntry` of `Props/C05` unfolds to the second part) -/
def EntryOK (e : Entry) : Prop :=
  wfEntry (canonEntry e) = true ∧ (exprsOfEntry (canonEntry e)).all plainV = true

instance (e : Entry) : Decidable (EntryOK e) := inferInstanceAs (Decidable (_ ∧ _))

/-- entries that `canonEntry` leaves alone and that hold no value expression -/
def simpleEntry : Entry → Bool
  | .txn _ => false
  | .commodity _ _ => false
  | _ => true

theorem EntryOK.of_simple {e : Entry} (hs : simpleEntry e = true) (h : wfEntry e = true) : EntryOK e := by
  cases e <;> first | exact ⟨h, rfl⟩ | (simp [simpleEntry] at hs)

theorem includeDirective_simple {i r : List Char} {e : Entry} (h : includeDirective i = .ok e r) : simpleEntry e = true := by
  unfold includeDirective at h
  obtain ⟨s, _, rfl⟩ := map_ok_iff.1 h
  rfl

theorem topComment_simple {i r : List Char} {e : Entry} (h : topComment i = .ok e r) : simpleEntry e = true := by
  unfold topComment at h
  obtain ⟨s, _, rfl⟩ := map_ok_iff.1 h
  rfl

theorem endApplyTag_simple {i r : List Char} {e : Entry} (h : endApplyTag i = .ok e r) : simpleEntry e = true := by
  unfold endApplyTag at h
  rw [(value_ok_iff.1 h).2]
  rfl

theorem applyTag_simple {i r : List Char} {e : Entry} (h : applyTag i = .ok e r) : simpleEntry e = true := by
  unfold applyTag at h
  simp only [bind_ok_iff, pure_ok_iff] at h
  obtain ⟨key, r1, _, v, r2, _, rfl, _⟩ := h
  rfl

theorem accountDeclaration_simple {i r : List Char} {e : Entry} (h : accountDeclaration i = .ok e r) :
    simpleEntry e = true := by
  unfold accountDeclaration at h
  simp only [bind_ok_iff, pure_ok_iff] at h
  obtain ⟨name, r1, _, ds, r2, _, rfl, _⟩ := h
  rfl

theorem commodityDeclaration_ok {i r : List Char} {e : Entry} (h : commodityDeclaration i = .ok e r) : EntryOK e := by
  refine ⟨commodityDeclaration_image h, ?_⟩
  unfold commodityDeclaration at h
  simp only [bind_ok_iff, pure_ok_iff] at h
  obtain ⟨name, r1, _, ds, r2, _, rfl, _⟩ := h
  rfl

theorem transaction_ok {i r : List Char} {t : Transaction} (hi : TextOK i) (h : transaction i = .ok t r) :
    EntryOK (.txn t) := by
  obtain ⟨h1, h2⟩ := transaction_image hi h
  refine ⟨by simpa only [canonEntry, wfEntry] using h1, ?_⟩
  simp only [canonEntry, exprsOfEntry, List.all_eq_true]
  exact h2

/-- **image of `parse_ledger_entry`** -/
theorem parseLedgerEntry_image {i r : List Char} {e : Entry} (hi : TextOK i) (h : parseLedgerEntry i = .ok e r) :
    EntryOK e := by
  unfold parseLedgerEntry at h
  cases i with
  | nil => simp [dispatch] at h
  | cons c t =>
    simp only [dispatch] at h
    split at h
    · rcases alt2_ok_iff.1 h with h1 | ⟨_, h1⟩
      · obtain ⟨_, r1, hpk, hcut⟩ := preceded_ok_iff.1 h1
        rw [(peek_ok_iff.1 hpk).1] at hcut
        have := cutErr_ok_iff.1 hcut
        exact EntryOK.of_simple (accountDeclaration_simple this) (accountDeclaration_image this)
      · obtain ⟨_, r1, hpk, hcut⟩ := preceded_ok_iff.1 h1
        rw [(peek_ok_iff.1 hpk).1] at hcut
        have := cutErr_ok_iff.1 hcut
        exact EntryOK.of_simple (applyTag_simple this) (applyTag_image this)
    · split at h
      · exact commodityDeclaration_ok h
      · split at h
        · exact EntryOK.of_simple (endApplyTag_simple h) (endApplyTag_image h)
        · split at h
          · exact EntryOK.of_simple (includeDirective_simple h) (includeDirective_image h)
          · split at h
            · exact EntryOK.of_simple (topComment_simple h) (topComment_image h)
            · split at h
              · obtain ⟨t', ht, rfl⟩ := map_ok_iff.1 h
                exact transaction_ok hi ht
              · simp at h

/-! ## the entry loop -/

theorem parsedIter_image (whole : List Char) : ∀ (n : Nat) (i : List Char) (acc res : List (Nat × Nat × Entry)) (e : Ending),
    TextOK i → (∀ x ∈ acc, EntryOK x.2.2) →
    parsedIter parseLedgerEntry verticalSpaces whole n i acc = (res, e) → ∀ x ∈ res, EntryOK x.2.2 := by
  intro n
  induction n with
  | zero =>
    intro i acc res e _ hacc h
    simp only [parsedIter, Prod.mk.injEq] at h
    rw [← h.1]; exact hacc
  | succ n ih =>
    intro i acc res e hi hacc h
    have hfail : ∀ (pos : List Char) (isCut : Bool),
        (match parseErrorNew whole i pos isCut with
          | .ok e => (acc, Ending.error e)
          | .panic s => (acc, Ending.panic s)
          | _ => (acc, Ending.panic "ParseError::new")) = (res, e) → ∀ x ∈ res, EntryOK x.2.2 := by
      intro pos isCut hf
      split at hf <;> (simp only [Prod.mk.injEq] at hf; rw [← hf.1]; exact hacc)
    simp only [parsedIter] at h
    split at h
    · rename_i u i1 hsep
      have hi1 : TextOK i1 := hi.suffix (safe_verticalSpaces.suffix hsep)
      split at h
      · simp only [Prod.mk.injEq] at h
        rw [← h.1]; exact hacc
      · split at h
        · rename_i e' r' hp
          refine ih r' _ res e (hi1.suffix (safe_parseLedgerEntry.suffix hp)) ?_ h
          intro x hx
          rcases List.mem_append.mp hx with hx | hx
          · exact hacc x hx
          · simp only [List.mem_singleton] at hx
            subst hx
            exact parseLedgerEntry_image hi1 hp
        · exact hfail _ _ h
        · exact hfail _ _ h
        · simp only [Prod.mk.injEq] at h; rw [← h.1]; exact hacc
        · simp only [Prod.mk.injEq] at h; rw [← h.1]; exact hacc
    · exact hfail _ _ h
    · exact hfail _ _ h
    · simp only [Prod.mk.injEq] at h; rw [← h.1]; exact hacc
    · simp only [Prod.mk.injEq] at h; rw [← h.1]; exact hacc

/-- **C05_image** (the image property of the ledger parser, on texts without exotic white space): every entry
`parse_ledger` returns is, after `canonEntry`, a tree the printer prints unambiguously, and plain -/
theorem C05_image (t : List Char) (es : List Entry) (ht : TextOK t) (h : parseEntries t = .ok es) :
    ∀ e ∈ es, EntryOK e := by
  unfold parseEntries at h
  cases hl : parseLedger t with
  | ok ps =>
    rw [hl] at h
    simp only [Outcome.map', Outcome.ok.injEq] at h
    subst h
    unfold parseLedger at hl
    cases hrun : parseLedgerRun t with
    | mk ps' ending =>
      rw [hrun] at hl
      unfold parseLedgerRun at hrun
      cases hit : parsedIter parseLedgerEntry verticalSpaces t (t.length + 1) t [] with
      | mk raw e' =>
        rw [hit] at hrun
        simp only [Prod.mk.injEq] at hrun
        obtain ⟨hps, he⟩ := hrun
        have hraw := parsedIter_image t _ _ _ _ _ ht (by simp) hit
        have hps' : ps = ps' := by
          cases ending <;> simp at hl
          exact hl.symm
        intro e hmem
        simp only [List.mem_map] at hmem
        obtain ⟨p, hp, rfl⟩ := hmem
        rw [hps', ← hps] at hp
        obtain ⟨x, hx, rfl⟩ := List.mem_map.mp hp
        exact hraw x hx
  | err e => rw [hl] at h; simp [Outcome.map'] at h
  | panic s => rw [hl] at h; simp [Outcome.map'] at h
  | fuelOut => rw [hl] at h; simp [Outcome.map'] at h

/-! ## non-vacuity and necessity of the hypotheses -/

/-- a ledger with every construct -/
def exText : List Char :=
  "; top\n# more\n\naccount Assets:Bank \n ; c\n note n\n alias bank\n\ncommodity USD\n format 0,100.00 USD\n\napply tag trip: 2024\ninclude a/*.ledger\n2024/01/02=2024/01/03 * (c1) Shop  ; :a:b: \n ; k:: 1 + 2\n Assets:Bank of X  -1,234.50 USD {2 EUR} [2024/01/02] (n) @ 3 EUR = 0 ; free text\n Expenses:Food\n\nend apply tag\n".toList

example : TextOK exText := by decide +kernel
example : (parseEntries exText).isOk = true ∧
    (match parseEntries exText with | .ok es => es.length | _ => 0) = 7 := by decide +kernel

/-- the predicate the driver evaluates (`Drv/C05.lean`, `wfStep`) -/
def imageOk (t : List Char) : Bool :=
  match parseEntries t with
  | .ok es => es.all fun e => wfEntry (canonEntry e) && (exprsOfEntry (canonEntry e)).all plainV
  | _ => true

theorem imageOk_of_textOK (t : List Char) (ht : TextOK t) : imageOk t = true := by
  unfold imageOk
  cases h : parseEntries t with
  | ok es =>
    simp only [List.all_eq_true, Bool.and_eq_true]
    intro e he
    obtain ⟨h1, h2⟩ := C05_image t es ht h e he
    exact ⟨h1, List.all_eq_true.mp h2⟩
  | err e => rfl
  | panic s => rfl
  | fuelOut => rfl

/-- the theorem applied: the sample ledger has the image property -/
example : imageOk exText = true := imageOk_of_textOK exText (by decide +kernel)

/-- F28: a posting whose account is U+3000 only -/
def witF28 : List Char :=
  ['2','0','2','4','/','0','1','/','0','1',' ','x','\n',' ','\u3000','\n',' ',' ',' ',' ','B',' ',' ','1',' ','U','S','D','\n']
/-- F27: tag words followed by U+00A0 -/
def witF27 : List Char :=
  ['2','0','2','4','/','0','1','/','0','1',' ','x',' ',';',' ',':','a',':','b',':','\u00a0','\n']
/-- tag words followed by a form feed (ASCII white space that `space0` does not skip either) -/
def witFF : List Char :=
  ['2','0','2','4','/','0','1','/','0','1',' ','x',' ',';',' ',':','a',':','b',':','\x0c','\n']
/-- U+3000 before a `*`: the account `*x` of an uncleared posting -/
def witStar : List Char :=
  ['2','0','2','4','/','0','1','/','0','1',' ','x','\n',' ','\u3000','*','x','\n']
/-- a payee that begins with an unclosed `(` (the witness that `parensClosed` was needed before `paren_str` had to close
on its line) -/
def witParen : List Char := "2024/01/01 (abc\n".toList
/-- the same before an entry that holds a `)`: formerly the code ran across the line end to that `)` -/
def witParen2 : List Char := "2024/01/01 (abc\n  A  1 USD\n\naccount X)\n".toList
/-- `(` closed on the line only after a `;`: the code is `abc ; x`, not a payee `(abc` with a comment -/
def witParen3 : List Char := "2024/01/01 * (abc ; x) y\n".toList

/-- `asciiSpaceOnly` cannot be dropped: texts that parse to an entry that is not `wfEntry` -/
theorem image_needs_asciiSpaceOnly :
    (asciiSpaceOnly witF28 = false ∧ imageOk witF28 = false) ∧
    (asciiSpaceOnly witF27 = false ∧ imageOk witF27 = false) ∧
    (asciiSpaceOnly witFF = false ∧ imageOk witFF = false) ∧
    (asciiSpaceOnly witStar = false ∧ imageOk witStar = false) := by
  decide +kernel

/-- regression: the texts with an unclosed `(` at payee position parse, and what they parse to is printable
(by `C05_image`; the first one also by evaluation) -/
theorem image_unclosed_paren :
    ((parseEntries witParen).isOk = true ∧ imageOk witParen = true) ∧
    ((parseEntries witParen2).isOk = true ∧ imageOk witParen2 = true) ∧
    ((parseEntries witParen3).isOk = true ∧ imageOk witParen3 = true) :=
  ⟨⟨by decide +kernel, imageOk_of_textOK _ (by decide +kernel)⟩,
   ⟨by decide +kernel, imageOk_of_textOK _ (by decide +kernel)⟩,
   ⟨by decide +kernel, imageOk_of_textOK _ (by decide +kernel)⟩⟩

example : imageOk witParen = true := by decide +kernel

/-- what they parse to: the payee `(abc`; the code `abc ; x` -/
example : (match parseEntries witParen2 with
    | .ok [.txn t, .account n _] => t.code == none && t.payee == "(abc" && t.posts.length == 1 && n == "X)"
    | _ => false) = true := by decide +kernel
example : (match parseEntries witParen3 with
    | .ok [.txn t] => t.code == some "abc ; x" && t.payee == "y" && t.clear == ClearState.cleared
    | _ => false) = true := by decide +kernel

/-- the image property without hypothesis on the text is false -/
theorem not_image_unconditional : ¬ ∀ (t : List Char) (es : List Entry), parseEntries t = .ok es → ∀ e ∈ es, EntryOK e := by
  intro h
  have hw : imageOk witF28 = false := image_needs_asciiSpaceOnly.1.2
  unfold imageOk at hw
  cases hp : parseEntries witF28 with
  | ok es =>
    rw [hp] at hw
    have hall : (es.all fun e => wfEntry (canonEntry e) && (exprsOfEntry (canonEntry e)).all plainV) = true := by
      simp only [List.all_eq_true, Bool.and_eq_true]
      intro e he
      obtain ⟨h1, h2⟩ := h witF28 es hp e he
      exact ⟨h1, List.all_eq_true.mp h2⟩
    simp only [hall] at hw
    cases hw
  | err e => rw [hp] at hw; cases hw
  | panic s => rw [hp] at hw; cases hw
  | fuelOut => rw [hp] at hw; cases hw

end Okane.C05Image
