import Okane.Lemmas.C13CmdBase
/-!
# C13, command level (2a): the book-keeping core (`Model/Book.lean`) on balances that are "the same map of maps"

`BalEq b b'`: the two balances have the same accounts and every account holds the same amount, each map in an
arbitrary layout.  `process_posting`, the posting loop, `check_balance` and the tail of `add_transaction` map
related balances to related results and to related errors (`ErrEq`: the amounts an error carries are the same maps).
-/
set_option linter.unusedSectionVars false
set_option linter.unusedSimpArgs false
namespace Okane.C13
open Okane
variable {α κ : Type} [DecidableEq α] [DecidableEq κ]

/-! ## options related -/
def OptRel {β γ : Type} (R : β → γ → Prop) : Option β → Option γ → Prop
  | none, none => True
  | some a, some b => R a b
  | _, _ => False

theorem OptRel.map_eq {β γ δ : Type} {R : β → γ → Prop} (f : β → δ) (g : γ → δ) (hfg : ∀ a b, R a b → f a = g b)
    {x : Option β} {y : Option γ} (h : OptRel R x y) : x.map f = y.map g := by
  cases x <;> cases y <;> simp_all [OptRel]
  exact hfg _ _ h

/-! ## book-keeping errors -/

/-- the same book-keeping error: same variant, same indices, the amounts it carries are the same maps. -/
def ErrEq (e e' : BkErr κ) : Prop :=
  match e with
  | .unbalanced r => ∃ r', e' = .unbalanced r' ∧ r ≈ₘ r'
  | .assertionFailure i c d => ∃ c' d', e' = .assertionFailure i c' d' ∧ c ≈ₘ c' ∧ d ≈ₘ d'
  | e => e' = e

theorem ErrEq.unbalanced {r r' : Amount κ} (h : r ≈ₘ r') : ErrEq (.unbalanced r) (.unbalanced r') := ⟨r', rfl, h⟩
theorem ErrEq.assertionFailure (i : Nat) {c c' d d' : Amount κ} (hc : c ≈ₘ c') (hd : d ≈ₘ d') :
    ErrEq (.assertionFailure i c d) (.assertionFailure i c' d') := ⟨c', d', rfl, hc, hd⟩

/-- **related errors print the same text.** -/
theorem ErrEq.text {leK : κ → κ → Bool} (hoK : KeyOrder leK) (showEntry : κ → Rat → String) {e e' : BkErr κ}
    (h : ErrEq e e') : bkErrText leK showEntry e = bkErrText leK showEntry e' := by
  cases e <;> simp only [ErrEq] at h <;> try (subst h; rfl)
  · obtain ⟨r', rfl, h⟩ := h
    exact bkErrText_unbalanced_meq hoK showEntry h
  · obtain ⟨c', d', rfl, hc, hd⟩ := h
    exact bkErrText_assertion_meq hoK showEntry _ hc hd

theorem ErrEq.symm {e e' : BkErr κ} (h : ErrEq e e') : ErrEq e' e := by
  cases e <;> simp only [ErrEq] at h <;> try (subst h; simp [ErrEq])
  · obtain ⟨r', rfl, h⟩ := h; exact ErrEq.unbalanced h.symm
  · obtain ⟨c', d', rfl, hc, hd⟩ := h; exact ErrEq.assertionFailure _ hc.symm hd.symm

theorem ErrEq.trans {a b c : BkErr κ} (h1 : ErrEq a b) (h2 : ErrEq b c) : ErrEq a c := by
  cases a <;> simp only [ErrEq] at h1 <;> try (subst h1; exact h2)
  · obtain ⟨r', rfl, h⟩ := h1
    obtain ⟨r'', rfl, h'⟩ := h2
    exact ErrEq.unbalanced (h.trans h')
  · obtain ⟨c', d', rfl, hc, hd⟩ := h1
    obtain ⟨c'', d'', rfl, hc', hd'⟩ := h2
    exact ErrEq.assertionFailure _ (hc.trans hc') (hd.trans hd')

syntax "orel_cases " ident "," term "," term : tactic
macro_rules
  | `(tactic| orel_cases $ih, $x, $y) =>
    `(tactic| (revert $ih:ident; cases $x:term <;> cases $y:term <;> simp only [ORel] <;> intro $ih:ident))

syntax "orel_done " ident : tactic
macro_rules
  | `(tactic| orel_done $ih) =>
    `(tactic| first | exact $ih | exact False.elim $ih | trivial | (subst $ih; simp [ORel, ErrEq]) | (simp [ORel, ErrEq]; done))

/-! ## balances -/

/-- **the same balance**: a `HashMap<Account, Amount>` whose outer map and whose every inner map may be laid
out in any order. -/
structure NEq {ν : Type} (b b' : AMap α (AMap κ ν)) : Prop where
  wf : AMap.WF b
  wf' : AMap.WF b'
  rel : ∀ a, OptRel (· ≈ₘ ·) (AMap.get? b a) (AMap.get? b' a)

@[inherit_doc] scoped infix:50 " ≈ᵦ " => NEq

/-- `NEq` on balances (`HashMap<Account, Amount>`; the price repository is the other instance). -/
abbrev BalEq (b b' : Balance α κ) : Prop := NEq b b'

/-- every inner map has distinct keys, and the outer keys are distinct. -/
def BalWF' {ν : Type} (b : AMap α (AMap κ ν)) : Prop := AMap.WF b ∧ ∀ kv ∈ b, AMap.WF kv.2

namespace NEq

theorem nil {ν : Type} : ([] : AMap α (AMap κ ν)) ≈ᵦ [] := ⟨AMap.WF_nil, AMap.WF_nil, fun _ => trivial⟩

theorem refl {ν : Type} {b : AMap α (AMap κ ν)} (h : BalWF' b) : b ≈ᵦ b := by
  refine ⟨h.1, h.1, fun a => ?_⟩
  cases hg : AMap.get? b a with
  | none => trivial
  | some x => exact MEq.refl (h.2 _ (AMap.mem_of_get?_some b hg))

theorem symm {ν : Type} {b b' : AMap α (AMap κ ν)} (h : b ≈ᵦ b') : b' ≈ᵦ b := by
  refine ⟨h.wf', h.wf, fun a => ?_⟩
  have := h.rel a
  revert this
  cases AMap.get? b a <;> cases AMap.get? b' a <;> simp only [OptRel] <;> intro h <;>
    first | trivial | exact h.elim | exact h.symm

theorem trans {ν : Type} {a b c : AMap α (AMap κ ν)} (h1 : a ≈ᵦ b) (h2 : b ≈ᵦ c) : a ≈ᵦ c := by
  refine ⟨h1.wf, h2.wf', fun k => ?_⟩
  have e1 := h1.rel k
  have e2 := h2.rel k
  revert e1 e2
  cases AMap.get? a k <;> cases AMap.get? b k <;> cases AMap.get? c k <;> simp only [OptRel] <;> intro e1 e2 <;>
    first | trivial | exact e1.elim | exact e2.elim | exact e1.trans e2

/-- a balance is related to each of its re-orderings (outer permutation, inner permutations). -/
theorem of_perm {ν : Type} {b b' : AMap α (AMap κ ν)} (h : BalWF' b) (hp : b.Perm b') : b ≈ᵦ b' := by
  refine ⟨h.1, (WF_perm hp).1 h.1, fun a => ?_⟩
  rw [← get?_perm hp h.1 a]
  exact (refl h).rel a

theorem left_wf {ν : Type} {b b' : AMap α (AMap κ ν)} (h : b ≈ᵦ b') : BalWF' b := by
  refine ⟨h.wf, fun kv hkv => ?_⟩
  have hg := AMap.get?_some_of_mem b h.wf (k := kv.1) (v := kv.2) hkv
  have := h.rel kv.1
  rw [hg] at this
  revert this
  cases AMap.get? b' kv.1 <;> simp only [OptRel] <;> intro h
  · exact h.elim
  · exact h.wf

theorem right_wf {ν : Type} {b b' : AMap α (AMap κ ν)} (h : b ≈ᵦ b') : BalWF' b' := h.symm.left_wf

/-- `Balance::get` (`HashMap::get(..).unwrap_or_default`) -/
theorem get {b b' : Balance α κ} (h : b ≈ᵦ b') (a : α) : Balance.get b a ≈ₘ Balance.get b' a := by
  have := h.rel a
  unfold Balance.get
  revert this
  cases AMap.get? b a <;> cases AMap.get? b' a <;> simp only [OptRel] <;> intro h
  · exact MEq.nil
  · exact h.elim
  · exact h.elim
  · exact h

/-- the inner map at a key, empty when absent (`entry(k).or_default()`). -/
theorem inner {ν : Type} {b b' : AMap α (AMap κ ν)} (h : b ≈ᵦ b') (a : α) :
    (AMap.get? b a).getD [] ≈ₘ (AMap.get? b' a).getD [] := by
  have := h.rel a
  revert this
  cases AMap.get? b a <;> cases AMap.get? b' a <;> simp only [OptRel, Option.getD] <;> intro h <;>
    first | exact MEq.nil | exact h.elim | exact h

theorem insert {ν : Type} {b b' : AMap α (AMap κ ν)} (h : b ≈ᵦ b') (a : α) {x x' : AMap κ ν} (hx : x ≈ₘ x') :
    AMap.insert b a x ≈ᵦ AMap.insert b' a x' := by
  refine ⟨AMap.WF_insert _ _ _ h.wf, AMap.WF_insert _ _ _ h.wf', fun k => ?_⟩
  simp only [AMap.get?_insert]
  split
  · exact hx
  · exact h.rel k

/-- `add_amount` -/
theorem addAmount {b b' : Balance α κ} (h : b ≈ᵦ b') (a : α) {x x' : Amount κ} (hx : x ≈ₘ x') :
    (Balance.addAmount b a x).1 ≈ᵦ (Balance.addAmount b' a x').1 ∧
      (Balance.addAmount b a x).2 ≈ₘ (Balance.addAmount b' a x').2 := by
  have hc := Amount.removeZero_meq (Amount.add_meq (h.get a) hx)
  exact ⟨h.insert a hc, hc⟩

/-- `add_posting_amount` -/
theorem addPostingAmount {b b' : Balance α κ} (h : b ≈ᵦ b') (a : α) (x : PostingAmt κ) :
    (Balance.addPostingAmount b a x).1 ≈ᵦ (Balance.addPostingAmount b' a x).1 ∧
      (Balance.addPostingAmount b a x).2 ≈ₘ (Balance.addPostingAmount b' a x).2 := by
  have hc := Amount.removeZero_meq (Amount.addPosting_meq (h.get a) x)
  exact ⟨h.insert a hc, hc⟩

/-- `Balance::set_partial` -/
theorem setPartial {b b' : Balance α κ} (h : b ≈ᵦ b') (a : α) (x : PostingAmt κ) :
    ORel ErrEq (fun p p' => p.1 ≈ᵦ p'.1 ∧ p.2 = p'.2) (Balance.setPartial b a x) (Balance.setPartial b' a x) := by
  cases x with
  | zero =>
    simp only [Balance.setPartial, Amount.toPosting_meq (h.get a)]
    cases Okane.Amount.toPosting (Balance.get b' a) with
    | ok prev => exact ⟨h.insert a MEq.nil, rfl⟩
    | err e => simp [ORel, ErrEq]
    | panic p => simp [ORel, ErrEq]
    | fuelOut => simp [ORel, ErrEq]
  | single s =>
    have := Amount.setPartial_meq (h.get a) s
    simp only [Balance.setPartial, ORel]
    exact ⟨h.insert a this.1, by rw [this.2]⟩

/-- `Balance::round` -/
theorem round (prec : κ → Option Nat) {b b' : Balance α κ} (h : b ≈ᵦ b') :
    Balance.round prec b ≈ᵦ Balance.round prec b' := by
  refine ⟨AMap.WF_mapVals _ _ h.wf, AMap.WF_mapVals _ _ h.wf', fun a => ?_⟩
  have := h.rel a
  simp only [Balance.round, AMap.get?_mapVals]
  revert this
  cases AMap.get? b a <;> cases AMap.get? b' a <;> simp only [OptRel, Option.map] <;> intro h <;>
    first | trivial | exact h.elim | exact Amount.round_meq prec h

end NEq

/-! ## `process_posting` and the posting loop -/

/-- result of `process_posting`: the evaluated posting and the price event contain no map. -/
def PPRel (p p' : Option (EvaluatedPosting κ) × Option (PriceEvent κ) × Balance α κ) : Prop :=
  p.1 = p'.1 ∧ p.2.1 = p'.2.1 ∧ p.2.2 ≈ᵦ p'.2.2

/-- **`process_posting`** -/
theorem processPosting_meq {bal bal' : Balance α κ} (h : bal ≈ᵦ bal') (date : Date) (idx : Nat) (p : RPosting α κ) :
    ORel ErrEq PPRel (processPosting bal date idx p) (processPosting bal' date idx p) := by
  obtain ⟨acct, amount, balance⟩ := p
  cases amount with
  | none =>
    cases balance with
    | none => exact ⟨rfl, rfl, h⟩
    | some current =>
      have ih := h.setPartial acct current
      simp only [processPosting]
      orel_cases ih, Balance.setPartial bal acct current, Balance.setPartial bal' acct current
      · rename_i a b
        obtain ⟨b1, prev⟩ := a
        obtain ⟨b1', prev'⟩ := b
        obtain ⟨h1, h2⟩ := ih
        simp only at h1 h2; subst h2
        simp only []
        cases current.checkSub prev with
        | ok amount => exact ⟨rfl, rfl, h1⟩
        | err e => simp [ORel, ErrEq]
        | panic p => simp [ORel]
        | fuelOut => simp [ORel]
      all_goals orel_done ih
  | some ra =>
    obtain ⟨hb, hc⟩ := h.addPostingAmount acct ra.postingAmt
    simp only [processPosting]
    generalize Balance.addPostingAmount bal acct ra.postingAmt = r at hb hc ⊢
    generalize Balance.addPostingAmount bal' acct ra.postingAmt = r' at hb hc ⊢
    obtain ⟨b1, cur⟩ := r
    obtain ⟨b1', cur'⟩ := r'
    simp only at hb hc ⊢
    cases balance with
    | none => exact ⟨rfl, rfl, hb⟩
    | some expected =>
      have hd := Amount.assertBalance_meq hc expected
      simp only [Amount.isAbsoluteZero_meq hd]
      by_cases hz : Okane.Amount.isAbsoluteZero (Okane.Amount.assertBalance cur' expected) = true
      · simp only [hz, if_true]; exact ⟨rfl, rfl, hb⟩
      · simp only [hz]; exact ErrEq.assertionFailure idx hc hd

/-- an evaluated posting whose amount is the same map. -/
def PostEq (p p' : OutPosting α κ) : Prop := p.account = p'.account ∧ p.amount ≈ₘ p'.amount ∧ p.converted = p'.converted

abbrev PostsEq (ps ps' : List (OutPosting α κ)) : Prop := LRel PostEq ps ps'

theorem PostEq.symm {p p' : OutPosting α κ} (h : PostEq p p') : PostEq p' p := ⟨h.1.symm, h.2.1.symm, h.2.2.symm⟩
theorem PostEq.trans {a b c : OutPosting α κ} (h1 : PostEq a b) (h2 : PostEq b c) : PostEq a c :=
  ⟨h1.1.trans h2.1, h1.2.1.trans h2.2.1, h1.2.2.trans h2.2.2⟩

theorem PostsEq.symm {ps ps' : List (OutPosting α κ)} (h : PostsEq ps ps') : PostsEq ps' ps :=
  LRel.symm (R := PostEq) (S := PostEq) (fun _ _ => PostEq.symm) h
theorem PostsEq.trans {a b c : List (OutPosting α κ)} (h1 : PostsEq a b) (h2 : PostsEq b c) : PostsEq a c :=
  LRel.trans (R := PostEq) (S := PostEq) (T := PostEq) (fun _ _ _ => PostEq.trans) h1 h2

/-- an evaluated transaction. -/
def TxnEq (t t' : OutTxn α κ) : Prop := t.date = t'.date ∧ PostsEq t.postings t'.postings

theorem TxnEq.symm {t t' : OutTxn α κ} (h : TxnEq t t') : TxnEq t' t := ⟨h.1.symm, PostsEq.symm h.2⟩
theorem TxnEq.trans {a b c : OutTxn α κ} (h1 : TxnEq a b) (h2 : TxnEq b c) : TxnEq a c :=
  ⟨h1.1.trans h2.1, PostsEq.trans h1.2 h2.2⟩

/-- the state of the posting loop of `add_transaction`. -/
structure TxnStEq (st st' : TxnState α κ) : Prop where
  postings : PostsEq st.postings st'.postings
  unfilled : st.unfilled = st'.unfilled
  balance : st.balance ≈ₘ st'.balance
  bal : st.bal ≈ᵦ st'.bal
  events : st.events = st'.events
  deltas : st.deltas = st'.deltas

theorem stepPosting_meq (date : Date) {st st' : TxnState α κ} (h : TxnStEq st st') (idx : Nat) (p : RPosting α κ) :
    ORel ErrEq TxnStEq (stepPosting date st idx p) (stepPosting date st' idx p) := by
  have ih := processPosting_meq h.bal date idx p
  simp only [stepPosting]
  orel_cases ih, processPosting st.bal date idx p, processPosting st'.bal date idx p
  · rename_i a b
    obtain ⟨ev, pe, b1⟩ := a
    obtain ⟨ev', pe', b1'⟩ := b
    obtain ⟨h1, h2, h3⟩ := ih
    simp only at h1 h2 h3; subst h1; subst h2
    cases ev with
    | none =>
      simp only [h.unfilled]
      cases st'.unfilled with
      | some first => simp [ORel, ErrEq]
      | none =>
        simp only [ORel]
        exact ⟨h.postings.append (.cons ⟨rfl, MEq.nil, rfl⟩ .nil), rfl, h.balance, h3, by simp [h.events],
          by simp [h.deltas]⟩
    | some ev =>
      simp only [ORel]
      exact ⟨h.postings.append (.cons ⟨rfl, MEq.refl (Amount.toAmount_wf _), rfl⟩ .nil), h.unfilled,
        Amount.addPosting_meq h.balance _, h3, by simp [h.events], by simp [h.deltas]⟩
  all_goals orel_done ih

theorem loopPostings_meq (date : Date) (ps : List (RPosting α κ)) : ∀ {st st' : TxnState α κ}, TxnStEq st st' →
    ∀ (idx : Nat), ORel ErrEq TxnStEq (loopPostings date st idx ps) (loopPostings date st' idx ps) := by
  induction ps with
  | nil => intro st st' h idx; exact h
  | cons p ps ih =>
    intro st st' h idx
    have h1 := stepPosting_meq date h idx p
    simp only [loopPostings]
    orel_cases h1, stepPosting date st idx p, stepPosting date st' idx p
    · exact ih h1 (idx + 1)
    all_goals orel_done h1

/-! ## `check_balance` -/

/-- the price event logged by `check_balance` names its two sides in the order `maybe_pair` returned them. -/
def PEvEq (e e' : PriceEvent κ) : Prop :=
  e' = e ∨ (e' = ⟨e.date, e.y, e.x⟩ ∧ e.x.commodity ≠ e.y.commodity)

theorem PEvEq.refl (e : PriceEvent κ) : PEvEq e e := Or.inl rfl
theorem PEvEq.symm {e e' : PriceEvent κ} (h : PEvEq e e') : PEvEq e' e := by
  rcases h with rfl | ⟨rfl, hne⟩
  · exact Or.inl rfl
  · exact Or.inr ⟨rfl, fun h => hne h.symm⟩

theorem PEvEq.trans {a b c : PriceEvent κ} (h1 : PEvEq a b) (h2 : PEvEq b c) : PEvEq a c := by
  rcases h1 with rfl | ⟨rfl, hne⟩
  · exact h2
  · rcases h2 with rfl | ⟨rfl, _⟩
    · exact Or.inr ⟨rfl, hne⟩
    · exact Or.inl rfl

theorem fillConverted_meq (a1 a2 : SingleAmount κ) {p p' : OutPosting α κ} (h : PostEq p p') :
    PostEq (fillConverted a1 a2 p) (fillConverted a1 a2 p') := by
  unfold fillConverted
  rw [Amount.toSingle_meq h.2.1]
  cases Okane.Amount.toSingle p'.amount with
  | ok amt =>
    simp only []
    split
    · exact ⟨h.1, h.2.1, rfl⟩
    · split
      · exact ⟨h.1, h.2.1, rfl⟩
      · exact h
  | err e => exact h
  | panic s => exact h
  | fuelOut => exact h

/-- the implied exchange of the same residual in two layouts: the same pair, possibly swapped; the two
commodities are distinct. -/
theorem impliedExchange_meq {b b' : Amount κ} (h : b ≈ₘ b') :
    (impliedExchange b = none ∧ impliedExchange b' = none) ∨
    ∃ a1 a2, impliedExchange b = some (a1, a2) ∧ a1.commodity ≠ a2.commodity ∧
      (impliedExchange b' = some (a1, a2) ∨ impliedExchange b' = some (a2, a1)) := by
  match b, h with
  | [e1, e2], h =>
    have hne : e1.1 ≠ e2.1 := by have := h.wf; unfold AMap.WF AMap.keys at this; simpa using this
    have hsw := impliedExchange_swap e1 e2
    cases hx : impliedExchange [e1, e2] with
    | none =>
      rcases perm_pair h.perm with rfl | rfl
      · exact Or.inl ⟨rfl, hx⟩
      · rw [hx] at hsw; exact Or.inl ⟨rfl, hsw⟩
    | some pr =>
      obtain ⟨a1, a2⟩ := pr
      have hc := impliedExchange_commodities hx
      refine Or.inr ⟨a1, a2, rfl, by rw [hc.1, hc.2]; exact hne, ?_⟩
      rcases perm_pair h.perm with rfl | rfl
      · exact Or.inl hx
      · rw [hx] at hsw; exact Or.inr hsw
  | [], h => rw [h.eq_nil]; exact Or.inl ⟨rfl, rfl⟩
  | [x], h => rw [← h.eq_of_short (by simp)]; exact Or.inl ⟨rfl, rfl⟩
  | x :: y :: z :: r, h =>
    have hl := h.length_eq
    match b', hl with
    | _ :: _ :: _ :: _, _ => exact Or.inl ⟨by simp [impliedExchange, Amount.maybePair], by simp [impliedExchange, Amount.maybePair]⟩

/-- result of `check_balance`. -/
def CBRel (r r' : List (OutPosting α κ) × Option (PriceEvent κ)) : Prop :=
  PostsEq r.1 r'.1 ∧ OptRel PEvEq r.2 r'.2

/-- **`check_balance`**: related postings, a price event that is the same up to the order of its two sides, or
the same `unbalanced` error. -/
theorem checkBalance_meq (prec : κ → Option Nat) (date : Date) {ps ps' : List (OutPosting α κ)} (hps : PostsEq ps ps')
    {bal bal' : Amount κ} (h : bal ≈ₘ bal') :
    ORel ErrEq CBRel (checkBalance prec date ps bal) (checkBalance prec date ps' bal') := by
  have hr := Amount.round_meq prec h
  simp only [checkBalance, Amount.isZero_meq hr]
  by_cases hz : Okane.Amount.isZero (Okane.Amount.round prec bal') = true
  · simp only [hz, if_true]; exact ⟨hps, trivial⟩
  · simp only [hz]
    rcases impliedExchange_meq hr with ⟨e1, e2⟩ | ⟨a1, a2, e1, hne, e2 | e2⟩
    · rw [e1, e2]; exact ErrEq.unbalanced hr
    · rw [e1, e2]
      exact ⟨hps.map _ _ (fun _ _ hp => fillConverted_meq a1 a2 hp), Or.inl rfl⟩
    · rw [e1, e2]
      refine ⟨hps.map _ _ (fun p p' hp => ?_), Or.inr ⟨rfl, hne⟩⟩
      rw [fillConverted_swap a1 a2 hne p']
      exact fillConverted_meq a1 a2 hp

/-! ## `add_transaction` -/

/-- result of `add_transaction`. -/
structure TxnResEq (r r' : TxnResult α κ) : Prop where
  date : r.txn.date = r'.txn.date
  postings : PostsEq r.txn.postings r'.txn.postings
  bal : r.bal ≈ᵦ r'.bal
  events : LRel PEvEq r.events r'.events

/-- the tail of `add_transaction` after the posting loop (the body shared by `addTransaction` and `finishTxn`). -/
def finishK (prec : κ → Option Nat) (date : Date) (st : TxnState α κ) : Outcome (BkErr κ) (TxnResult α κ) :=
  match st.unfilled with
  | some u =>
    let deduced := st.balance.neg
    let postings := st.postings.modify u (fun p => { p with amount := deduced })
    match (st.postings[u]?).map (·.account) with
    | some acct =>
      let (bal', _) := Balance.addAmount st.bal acct deduced
      .ok ⟨⟨date, postings⟩, bal', st.events⟩
    | none => .panic "unfilled index out of range"
  | none =>
    match checkBalance prec date st.postings st.balance with
    | .ok (postings, pe) => .ok ⟨⟨date, postings⟩, st.bal, st.events ++ pe.toList⟩
    | .err e => .err e
    | .panic s => .panic s
    | .fuelOut => .fuelOut

theorem optRel_toList {β : Type} {R : β → β → Prop} {x y : Option β} (h : OptRel R x y) : LRel R x.toList y.toList := by
  cases x <;> cases y <;> simp_all [OptRel]
  · exact .nil
  · exact .cons h .nil

theorem finishK_meq (prec : κ → Option Nat) (date : Date) {st st' : TxnState α κ} (h : TxnStEq st st') :
    ORel ErrEq TxnResEq (finishK prec date st) (finishK prec date st') := by
  simp only [finishK, h.unfilled]
  cases st'.unfilled with
  | some u =>
    have hneg := Amount.neg_meq h.balance
    have hacct : (st.postings[u]?).map (·.account) = (st'.postings[u]?).map (·.account) := by
      rcases h.postings.getElem? u with ⟨e1, e2⟩ | ⟨a, b, e1, e2, hab⟩
      · rw [e1, e2]
      · rw [e1, e2]; simp [hab.1]
    simp only [hacct]
    cases (st'.postings[u]?).map (·.account) with
    | none => simp [ORel]
    | some acct =>
      have hadd := h.bal.addAmount acct hneg
      simp only [ORel]
      refine ⟨rfl, ?_, hadd.1, LRel.of_eq PEvEq.refl h.events⟩
      exact h.postings.modify (fun p => { p with amount := st.balance.neg }) (fun p => { p with amount := st'.balance.neg })
        (fun a b hab => ⟨hab.1, hneg, hab.2.2⟩) u
  | none =>
    have ih := checkBalance_meq prec date h.postings h.balance
    simp only []
    orel_cases ih, checkBalance prec date st.postings st.balance, checkBalance prec date st'.postings st'.balance
    · rename_i a b
      obtain ⟨ps, pe⟩ := a
      obtain ⟨ps', pe'⟩ := b
      exact ⟨rfl, ih.1, h.bal, (LRel.of_eq PEvEq.refl h.events).append (optRel_toList ih.2)⟩
    all_goals orel_done ih

theorem addTransaction_eq_finishK (prec : κ → Option Nat) (bal : Balance α κ) (t : RTxn α κ) :
    addTransaction prec bal t =
      match loopPostings t.date ⟨[], none, [], bal, [], []⟩ 0 t.posts with
      | .ok st => finishK prec t.date st
      | .err e => .err e
      | .panic s => .panic s
      | .fuelOut => .fuelOut := by
  unfold addTransaction finishK
  rfl

theorem TxnStEq.init {bal bal' : Balance α κ} (h : bal ≈ᵦ bal') :
    TxnStEq (⟨[], none, [], bal, [], []⟩ : TxnState α κ) ⟨[], none, [], bal', [], []⟩ :=
  ⟨.nil, rfl, MEq.nil, h, rfl, rfl⟩

/-- **`add_transaction` on resolved postings.** -/
theorem addTransaction_meq (prec : κ → Option Nat) {bal bal' : Balance α κ} (h : bal ≈ᵦ bal') (t : RTxn α κ) :
    ORel ErrEq TxnResEq (addTransaction prec bal t) (addTransaction prec bal' t) := by
  rw [addTransaction_eq_finishK, addTransaction_eq_finishK]
  have ih := loopPostings_meq t.date t.posts (TxnStEq.init h) 0
  orel_cases ih, loopPostings t.date ⟨[], none, [], bal, [], []⟩ 0 t.posts,
    loopPostings t.date ⟨[], none, [], bal', [], []⟩ 0 t.posts
  · exact finishK_meq prec t.date ih
  all_goals orel_done ih

end Okane.C13
