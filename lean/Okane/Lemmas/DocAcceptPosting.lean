import Okane.Lemmas.DocAcceptExpr
import Okane.Lemmas.DocAcceptMeta
import Okane.Lemmas.C05Round
import Okane.Lemmas.ParseTotalGrammar
/-!
# Acceptance of the documented grammar — postings

* `postingAccount_accept` — `posting::posting_account` on a documented `account` (without `;`);
* `lot_accept`            — `posting::lot` on a documented `posting-lot` (any of the six orders);
* `postingAmount_accept`  — `posting::posting_amount` on `value-expr sp* posting-lot? posting-cost?`;
* `posting_accept`        — `posting::posting` on `posting-line metadata? new-line (sp+ metadata new-line)*`
  (after the indentation, which the transaction parser takes).
-/
set_option linter.unusedSimpArgs false
set_option linter.unusedVariables false
namespace Okane.DocAccept
open Okane Okane.Spec.Doc Okane.Comb Okane.Literal
open Okane.ExprParse (stops ExprFollow)
open Okane.ExprSyntax (skipSpaces)
open Okane.Unparse (wfWord AccountFollow accountLoop takeWord follow_stop consumed_append)

local notation "𝔸" => Dialect.accepted

/-! ## `account` -/

theorem isNoSp_iff (c : Char) : isNoSp c = true ↔ c ≠ ' ' ∧ c ≠ '\t' ∧ c ≠ '\r' ∧ c ≠ '\n' := by
  simp [isNoSp, and_assoc]

/-- the words of `(no-sp | " " no-sp)*`: the rest of the current word, then further words each preceded by one blank -/
theorem accountTail_words {m r : List Char} (h : G.star (noSp ∥ (G.lit " " ⬝ noSp)) m r) :
    ∃ (w : List Char) (ws : List (List Char)), m = w ++ (ws.flatMap (fun wd => ' ' :: wd) ++ r) ∧
      (∀ c ∈ w, isNoSp c = true) ∧ ∀ wd ∈ ws, wd ≠ [] ∧ ∀ c ∈ wd, isNoSp c = true := by
  induction h with
  | nil _ => exact ⟨[], [], rfl, by simp, by simp⟩
  | cons h _ ih =>
    obtain ⟨w, ws, rfl, hw, hws⟩ := ih
    rcases h with ⟨c, rfl, hc⟩ | ⟨m1, h1, c, rfl, hc⟩
    · exact ⟨c :: w, ws, rfl, by
        intro d hd
        rcases List.mem_cons.mp hd with rfl | hd
        · exact hc
        · exact hw d hd, hws⟩
    · rw [lit_iff] at h1
      refine ⟨[], (c :: w) :: ws, by rw [h1]; simp, by simp, ?_⟩
      intro wd hwd
      rcases List.mem_cons.mp hwd with rfl | hwd
      · exact ⟨by simp, by
          intro d hd
          rcases List.mem_cons.mp hd with rfl | hd
          · exact hc
          · exact hw d hd⟩
      · exact hws wd hwd

/-- a documented `account` is a non-empty word and further words separated by single blanks -/
theorem account_words {i r : List Char} (h : account i r) :
    ∃ (w0 : List Char) (ws : List (List Char)), i = w0 ++ (ws.flatMap (fun wd => ' ' :: wd) ++ r) ∧
      (w0 ≠ [] ∧ ∀ c ∈ w0, isNoSp c = true) ∧ ∀ wd ∈ ws, wd ≠ [] ∧ ∀ c ∈ wd, isNoSp c = true := by
  obtain ⟨m, ⟨c, rfl, hc⟩, ht⟩ := h
  obtain ⟨w, ws, rfl, hw, hws⟩ := accountTail_words ht
  exact ⟨c :: w, ws, rfl, ⟨by simp, by
    intro d hd
    rcases List.mem_cons.mp hd with rfl | hd
    · exact hc
    · exact hw d hd⟩, hws⟩

theorem wfWord_of {wd : List Char} (hne : wd ≠ []) (h : ∀ c ∈ wd, isNoSp c = true) (hsemi : ∀ c ∈ wd, c ≠ ';') :
    wfWord wd := by
  refine ⟨hne, ?_⟩
  intro c hc
  obtain ⟨h1, h2, h3, h4⟩ := (isNoSp_iff c).mp (h c hc)
  simp [Parse.isAccountStop, h1, h2, h3, h4, hsemi c hc]

/-- `posting_account` on words joined by single blanks (the value is trimmed at the front, which is irrelevant here) -/
theorem postingAccount_words (w0 : List Char) (ws : List (List Char)) (X : List Char) (hw0 : wfWord w0)
    (hws : ∀ wd ∈ ws, wfWord wd) (hX : AccountFollow X) :
    ∃ a, Parse.postingAccount (w0 ++ (ws.flatMap (fun wd => ' ' :: wd) ++ X)) = .ok a (X.dropWhile Comb.isSpace) := by
  have hnext : ∀ c r, ws.flatMap (fun wd => ' ' :: wd) ++ X = c :: r → Parse.isAccountStop c = true := by
    cases ws with
    | nil => simpa using follow_stop hX
    | cons w2 t => intro c r e; simp at e; simp [← e.1, Parse.isAccountStop]
  have hword := takeWord hw0 hnext
  obtain ⟨c0, t0, hc0⟩ : ∃ c t, w0 = c :: t := by
    cases w0 with
    | nil => exact absurd rfl hw0.1
    | cons c t => exact ⟨c, t, rfl⟩
  have hc0' : Parse.isAccountStop c0 = false := hw0.2 c0 (by simp [hc0])
  have hfirst : Parse.accountWord (w0 ++ (ws.flatMap (fun wd => ' ' :: wd) ++ X)) =
      .ok () (ws.flatMap (fun wd => ' ' :: wd) ++ X) := by
    have hb : ¬ (' ' = c0) := by
      intro e; simp [Parse.isAccountStop, ← e] at hc0'
    have : opt (literal [' ']) (w0 ++ (ws.flatMap (fun wd => ' ' :: wd) ++ X)) =
        .ok none (w0 ++ (ws.flatMap (fun wd => ' ' :: wd) ++ X)) := by
      simp [opt, literal, hc0, hb]
    simp [Parse.accountWord, this, hword]
  obtain ⟨acc', hloop⟩ := accountLoop X hX ws hws ((ws.flatMap (fun wd => ' ' :: wd) ++ X).length + 1) [()] (by
    have := Unparse.length_le_flatMap (fun wd : List Char => ' ' :: wd) ws (fun _ _ => by simp)
    rw [List.length_append]; omega)
  have hrt : repeatTill1 Parse.accountWord Parse.accountEnd (w0 ++ (ws.flatMap (fun wd => ' ' :: wd) ++ X)) =
      .ok (acc', ()) X := by
    simp only [repeatTill1, hfirst, hloop]
  have hcons := consumed_append (w0 ++ ws.flatMap (fun wd => ' ' :: wd)) X
  simp only [List.append_assoc] at hcons
  exact ⟨String.ofList (Parse.trimStart (w0 ++ ws.flatMap (fun wd => ' ' :: wd))),
    by simp [Parse.postingAccount, take, withTaken, hrt, hcons, space0, takeWhile0]⟩

/-- **`posting::posting_account` accepts a documented `account` without `;`**, followed by two blanks, a tab, `;`, a line
end or the end of the text; it also takes the blanks that follow -/
theorem postingAccount_accept {i r : List Char} (h : account i r) {s : List Char} (hs : i = s ++ r)
    (hsemi : ∀ c ∈ s, c ≠ ';') (hr : AccountFollow r) :
    ∃ a, Parse.postingAccount i = .ok a (r.dropWhile Comb.isSpace) := by
  obtain ⟨w0, ws, he, ⟨hne, hw0⟩, hws⟩ := account_words h
  have hs' : s = w0 ++ ws.flatMap (fun wd => ' ' :: wd) := by
    rw [he, ← List.append_assoc] at hs
    exact (List.append_cancel_right hs).symm
  have hsemi0 : ∀ c ∈ w0, c ≠ ';' := fun c hc => hsemi c (by rw [hs']; simp [hc])
  have hsemis : ∀ wd ∈ ws, ∀ c ∈ wd, c ≠ ';' := by
    intro wd hwd c hc
    apply hsemi c
    rw [hs']
    simp only [List.mem_append, List.mem_flatMap, List.mem_cons]
    exact Or.inr ⟨wd, hwd, Or.inr hc⟩
  rw [he]
  exact postingAccount_words w0 ws r (wfWord_of hne hw0 hsemi0)
    (fun wd hwd => wfWord_of (hws wd hwd).1 (hws wd hwd).2 (hsemis wd hwd)) hr

theorem account_head {i r : List Char} (h : account i r) : ∃ c t, i = c :: t ∧ isNoSp c = true := by
  obtain ⟨m, ⟨c, rfl, hc⟩, _⟩ := h
  exact ⟨c, m, rfl, hc⟩

/-! ## follow sets after expressions in a posting -/

/-- blanks, then a character that continues neither a number nor a commodity and is not a blank -/
theorem exprFollow_blank {s x : List Char} (hs : ∀ c ∈ s, Comb.isSpace c = true) (hx : ExprFollow x = true)
    (hst : Stop Comb.isSpace x) : ExprFollow (s ++ x) = true ∧ skipSpaces (s ++ x) = x := by
  have hsk : skipSpaces (s ++ x) = x := dropWhile_append_stop hs hst
  refine ⟨?_, hsk⟩
  simp only [ExprFollow, Bool.and_eq_true] at hx ⊢
  rw [hsk]
  refine ⟨?_, by rw [← skipSpaces_of_stop hst]; exact hx.2⟩
  cases s with
  | nil => exact hx.1
  | cons a t =>
    have ha := hs a (by simp)
    cases hn : isNumChar a with
    | false => simp [stops, hn]
    | true => rw [numChar_not_space' hn] at ha; cases ha

/-- a character that ends a token: not a blank, not part of a number, not a commodity character -/
def Punct (c : Char) : Prop := Comb.isSpace c = false ∧ isNumChar c = false ∧ ExprSyntax.isCommodityChar c = false

theorem exprFollow_punct {c : Char} (t : List Char) (h : Punct c) : ExprFollow (c :: t) = true ∧ Stop Comb.isSpace (c :: t) := by
  obtain ⟨h1, h2, h3⟩ := h
  have hsk : skipSpaces (c :: t) = c :: t := ExprParse.skipSpaces_cons_nonspace _ h1
  exact ⟨by simp [ExprFollow, hsk, stops, h2, h3], by simpa using h1⟩

theorem punct_of_mem {c : Char} (h : c ∈ ['}', ']', ')', '{', '[', '(', '@', '=', ';', '\n', '\r']) : Punct c := by
  simp only [List.mem_cons, List.not_mem_nil, or_false] at h
  rcases h with rfl | rfl | rfl | rfl | rfl | rfl | rfl | rfl | rfl | rfl | rfl <;> exact ⟨by decide, by decide, by decide⟩

/-- `ExprFollow` for: blanks, then the end of the text or a punctuation character -/
theorem exprFollow_blank_punct {s x : List Char} (hs : ∀ c ∈ s, Comb.isSpace c = true)
    (hx : x = [] ∨ ∃ c t, x = c :: t ∧ Punct c) : ExprFollow (s ++ x) = true ∧ skipSpaces (s ++ x) = x := by
  rcases hx with rfl | ⟨c, t, rfl, hc⟩
  · exact exprFollow_blank hs (by rfl) (by simp)
  · exact exprFollow_blank hs (exprFollow_punct t hc).1 (exprFollow_punct t hc).2

/-! ## the items of a lot -/

inductive LotKind where
  | price | date | note
  deriving DecidableEq

/-- the documented item of each kind -/
def lotItem : LotKind → G
  | .price => lotPrice 𝔸
  | .date => lotDate
  | .note => lotNote

/-- the slot of the parser's `Lot` is still empty -/
def lotFree (l : Lot) : LotKind → Bool
  | .price => l.price.isNone
  | .date => l.date.isNone
  | .note => l.note.isNone

/-- the opening bracket of each kind -/
def lotOpen : LotKind → Char
  | .price => '{'
  | .date => '['
  | .note => '('

theorem lotItem_head (k : LotKind) {i a : List Char} (h : lotItem k i a) : ∃ t, i = lotOpen k :: t := by
  cases k with
  | price =>
    rcases h with ⟨m, h, _⟩ | ⟨m, h, _⟩
    · exact ⟨_, lit_eq ['{', '{'] rfl h⟩
    · exact ⟨_, lit_eq ['{'] rfl h⟩
  | date => obtain ⟨m, h, _⟩ := h; exact ⟨_, lit_eq ['['] rfl h⟩
  | note => obtain ⟨m, h, _⟩ := h; exact ⟨_, lit_eq ['('] rfl h⟩

theorem space0_eq (a : List Char) : space0 a = .ok (a.takeWhile Comb.isSpace) (skipSpaces a) := rfl

/-- `lot_amount` on a documented `lot-price` -/
theorem lotAmount_accept {i a : List Char} (h : lotPrice 𝔸 i a) : ∃ ex, Parse.lotAmount i = .ok ex a := by
  have key : ∀ (i1 i2 i3 i4 : List Char), G.star sp i1 i2 → amountExpr 𝔸 i2 i3 → G.star sp i3 i4 →
      (∃ t, i4 = '}' :: t) → ∃ v s1 s2, space0 i1 = .ok s1 i2 ∧ Parse.valueExpr i2 = .ok v (skipSpaces (skipSpaces i3)) ∧
        space0 (skipSpaces i3) = .ok s2 i4 ∨
        (space0 i1 = .ok s1 i2 ∧ Parse.valueExpr i2 = .ok v i3 ∧ space0 i3 = .ok s2 i4) := by
    intro i1 i2 i3 i4 h1 ha h3 ⟨t, ht⟩
    obtain ⟨s3, rfl, hs3⟩ := star_sp h3
    obtain ⟨hf, hsk⟩ := exprFollow_blank_punct hs3 (x := i4) (Or.inr ⟨'}', t, ht, punct_of_mem (by simp)⟩)
    obtain ⟨r', hafter, v, hv⟩ := valueExpr_accept (.amount ha) hf
    obtain ⟨s1, hs1⟩ := space0_star_sp h1 (head_stop (by
      obtain ⟨c, t', e, hc⟩ := amountExpr_head ha
      exact ⟨c, t', e, Or.inr hc⟩))
    have hst4 : Stop Comb.isSpace i4 := by rw [ht]; simp [Comb.isSpace]
    rcases hafter with rfl | rfl
    · exact ⟨v, s1, s3, Or.inr ⟨hs1, hv, space0_append hs3 hst4⟩⟩
    · refine ⟨v, s1, [], Or.inl ⟨hs1, ?_, ?_⟩⟩
      · rw [ExprParse.skipSpaces_idem]; exact hv
      · rw [hsk]; exact space0_stop hst4
  rcases h with ⟨m0, h0, i2, h1, i3, ha, i4, h3, h4⟩ | ⟨m0, h0, i2, h1, i3, ha, i4, h3, h4⟩
  · rw [lit_iff] at h0 h4
    subst h0
    obtain ⟨v, s1, s2, hk⟩ := key m0 i2 i3 i4 h1 ha h3 ⟨_, h4⟩
    have hpk : hasPeek (literal ['{', '{']) ("{{".toList ++ m0) = .ok true ("{{".toList ++ m0) :=
      hasPeek_ok (literal_append _ _)
    have hlit : literal ['{', '{'] ("{{".toList ++ m0) = .ok ['{', '{'] m0 := literal_append _ _
    have hend : literal ['}', '}'] i4 = .ok ['}', '}'] a := by rw [h4]; exact literal_append _ _
    refine ⟨Exchange.total v, ?_⟩
    rcases hk with ⟨e1, e2, e3⟩ | ⟨e1, e2, e3⟩
    · simp only [Parse.lotAmount, bind_apply, hpk, Res.andThen_ok, if_true, map_apply, delimited_apply, pair_apply,
        hlit, e1, Res.map_ok, e2, ExprParse.skipSpaces_idem, e3, hend]
    · simp only [Parse.lotAmount, bind_apply, hpk, Res.andThen_ok, if_true, map_apply, delimited_apply, pair_apply,
        hlit, e1, Res.map_ok, e2, e3, hend]
  · rw [lit_iff] at h0 h4
    subst h0
    obtain ⟨v, s1, s2, hk⟩ := key m0 i2 i3 i4 h1 ha h3 ⟨_, h4⟩
    -- the amount begins with a digit or `-`, so the text does not begin with `{{`
    have hm0 : ∀ t, m0 ≠ '{' :: t := by
      intro t e
      obtain ⟨s1', rfl, hs1'⟩ := star_sp h1
      obtain ⟨c, t', e', hc⟩ := amountExpr_head ha
      cases s1' with
      | nil =>
        simp only [List.nil_append] at e
        rw [e'] at e
        injection e with e _
        subst e
        rcases hc with hc | hc <;> revert hc <;> decide
      | cons b s1'' =>
        simp only [List.cons_append] at e
        injection e with e _
        have := hs1' b (by simp)
        rw [e] at this
        revert this; decide
    have hpk : hasPeek (literal ['{', '{']) ("{".toList ++ m0) = .ok false ("{".toList ++ m0) := by
      have : literal ['{', '{'] ("{".toList ++ m0) = .bt ("{".toList ++ m0) := by
        cases m0 with
        | nil => simp [literal]
        | cons c t =>
          have : c ≠ '{' := fun e => hm0 t (by rw [e])
          simp [literal, Ne.symm this]
      exact hasPeek_bt this
    have hlit : literal ['{'] ("{".toList ++ m0) = .ok ['{'] m0 := literal_append _ _
    have hend : literal ['}'] i4 = .ok ['}'] a := by rw [h4]; exact literal_append _ _
    refine ⟨Exchange.rate v, ?_⟩
    rcases hk with ⟨e1, e2, e3⟩ | ⟨e1, e2, e3⟩
    · simp only [Parse.lotAmount, bind_apply, hpk, Res.andThen_ok, Bool.false_eq_true, if_false, map_apply,
        delimited_apply, pair_apply, hlit, e1, Res.map_ok, e2, ExprParse.skipSpaces_idem, e3, hend]
    · simp only [Parse.lotAmount, bind_apply, hpk, Res.andThen_ok, Bool.false_eq_true, if_false, map_apply,
        delimited_apply, pair_apply, hlit, e1, Res.map_ok, e2, e3, hend]

theorem digit_not_space' {c : Char} (h : c.isDigit = true) : Comb.isSpace c = false := digit_not_space h

/-- the date item of `lot` -/
theorem lotDate_accept {i a : List Char} (h : lotDate i a) :
    ∃ d, (delimited (pair (char '[') space0) Parse.date (pair space0 (char ']'))) i = .ok d a := by
  obtain ⟨m0, h0, i2, h1, i3, hd, i4, h3, h4⟩ := h
  have h0 := lit_eq ['['] rfl h0
  have h4 := lit_eq [']'] rfl h4
  subst h0
  obtain ⟨c, t, e, hc⟩ := date_head hd
  obtain ⟨s1, hs1⟩ := space0_star_sp h1 (by rw [e]; simpa using digit_not_space' hc)
  obtain ⟨s3, rfl, hs3⟩ := star_sp h3
  have hst : Stop Char.isDigit (s3 ++ i4) := by
    cases s3 with
    | nil => rw [h4]; simp
    | cons b t' =>
      have hb := hs3 b (by simp)
      have : b.isDigit = false := by
        cases hd' : b.isDigit with
        | false => rfl
        | true => have := digit_not_space' hd'; rw [hb] at this; cases this
      simpa using this
  obtain ⟨dt, hdt⟩ := date_accept hd hst
  have hsp3 : space0 (s3 ++ i4) = .ok s3 i4 := space0_append hs3 (by rw [h4]; simp [Comb.isSpace])
  refine ⟨dt, ?_⟩
  simp only [delimited_apply, pair_apply, List.cons_append, List.nil_append, char_cons_self, Res.andThen_ok, hs1,
    Res.map_ok, hdt, hsp3]
  simp only [h4, List.cons_append, List.nil_append, char_cons_self, Res.map_ok]

/-- the note item of `lot` -/
theorem lotNote_accept {i a : List Char} (h : lotNote i a) :
    ∃ s, (Parse.paren (takeTill0 fun c => c == '(' || c == ')' || c == '@')) i = .ok s a := by
  obtain ⟨m0, h0, i2, h1, h4⟩ := h
  have h0 := lit_eq ['('] rfl h0
  have h4 := lit_eq [')'] rfl h4
  subst h0
  obtain ⟨s, rfl, hs⟩ := star_chr h1
  refine ⟨s, ?_⟩
  have htt : takeTill0 (fun c => c == '(' || c == ')' || c == '@') (s ++ i2) = .ok s i2 := by
    apply takeTill0_append
    · intro c hc; simpa using hs c hc
    · intro c r e; rw [h4] at e; injection e with e _; subst e; rfl
  simp only [Parse.paren, delimited_apply, List.cons_append, List.nil_append, char_cons_self,
    Res.andThen_ok, htt]
  simp only [h4, List.cons_append, List.nil_append, char_cons_self, Res.map_ok]

/-- one round of the `loop` of `posting::lot` on a documented item whose slot is free -/
theorem lot_round (k : LotKind) {i a : List Char} (h : lotItem k i a) (l : Lot) (hfree : lotFree l k = true) :
    ∃ l', (∀ k', k' ≠ k → lotFree l' k' = lotFree l k') ∧
      ∀ n, Parse.lotLoop (n + 1) l i = Parse.lotLoop n l' (skipSpaces a) := by
  obtain ⟨t, rfl⟩ := lotItem_head k h
  cases k with
  | price =>
    obtain ⟨ex, hex⟩ := lotAmount_accept h
    refine ⟨{ l with price := some ex }, by intro k' hk'; cases k' <;> simp_all [lotFree], ?_⟩
    intro n
    simp only [lotFree] at hfree
    simp only [lotOpen] at hex ⊢
    rw [Parse.lotLoop]
    simp only [hfree, if_true, bind_apply, hex, Res.andThen_ok, space0_eq]
  | date =>
    obtain ⟨d, hd⟩ := lotDate_accept h
    refine ⟨{ l with date := some d }, by intro k' hk'; cases k' <;> simp_all [lotFree], ?_⟩
    intro n
    simp only [lotFree] at hfree
    simp only [lotOpen] at hd ⊢
    rw [Parse.lotLoop]
    simp only [hfree, if_true, bind_apply, hd, Res.andThen_ok, space0_eq]
  | note =>
    obtain ⟨s, hs⟩ := lotNote_accept h
    refine ⟨{ l with note := some (String.ofList s) }, by intro k' hk'; cases k' <;> simp_all [lotFree], ?_⟩
    intro n
    simp only [lotFree] at hfree
    simp only [lotOpen] at hs ⊢
    rw [Parse.lotLoop]
    simp only [hfree, if_true, bind_apply, hs, Res.andThen_ok, space0_eq]

/-- the next character opens no lot item -/
def LotStop (x : List Char) : Prop := ∀ c t, x = c :: t → c ≠ '{' ∧ c ≠ '[' ∧ c ≠ '('

theorem lotLoop_stop {x : List Char} (h : LotStop x) (n : Nat) (l : Lot) : Parse.lotLoop (n + 1) l x = .ok l x := by
  cases x with
  | nil => simp [Parse.lotLoop]
  | cons c t =>
    obtain ⟨h1, h2, h3⟩ := h c t rfl
    rw [Parse.lotLoop]
    dsimp only
    split
    · rename_i heq; injection heq with e _; exact absurd e h1
    · rename_i heq; injection heq with e _; exact absurd e h2
    · rename_i heq; injection heq with e _; exact absurd e h3
    · rfl

/-- items in a given order, each followed by `sp*` -/
def LotRun : List LotKind → G
  | [] => G.eps
  | k :: ks => lotItem k ⬝ G.star sp ⬝ LotRun ks

/-- optional items in a given order -/
def OptRun : List LotKind → G
  | [] => G.eps
  | k :: ks => G.opt (lotItem k ⬝ G.star sp) ⬝ OptRun ks

/-- the items present in a derivation of optional items -/
theorem optRun_run : ∀ (ks : List LotKind) {i r : List Char}, OptRun ks i r → ks.Nodup →
    ∃ ks', ks'.Nodup ∧ LotRun ks' i r
  | [], i, r, h, _ => ⟨[], List.nodup_nil, h⟩
  | k :: ks, i, r, ⟨m, hopt, hrest⟩, hnd => by
    obtain ⟨ks', hnd', hsub, hrun⟩ : ∃ ks', ks'.Nodup ∧ (∀ x ∈ ks', x ∈ ks) ∧ LotRun ks' m r := by
      obtain ⟨ks', h1, h2⟩ := optRun_run' ks hrest (List.nodup_cons.mp hnd).2
      exact ⟨ks', h1.1, h1.2, h2⟩
    rcases hopt with ⟨a, hitem, hsp⟩ | rfl
    · refine ⟨k :: ks', List.nodup_cons.mpr ⟨fun hm => (List.nodup_cons.mp hnd).1 (hsub k hm), hnd'⟩, a, hitem, m, hsp, hrun⟩
    · exact ⟨ks', hnd', hrun⟩
where
  optRun_run' : ∀ (ks : List LotKind) {i r : List Char}, OptRun ks i r → ks.Nodup →
      ∃ ks', (ks'.Nodup ∧ ∀ x ∈ ks', x ∈ ks) ∧ LotRun ks' i r
    | [], i, r, h, _ => ⟨[], ⟨List.nodup_nil, by simp⟩, h⟩
    | k :: ks, i, r, ⟨m, hopt, hrest⟩, hnd => by
      obtain ⟨ks', ⟨hnd', hsub⟩, hrun⟩ := optRun_run' ks hrest (List.nodup_cons.mp hnd).2
      rcases hopt with ⟨a, hitem, hsp⟩ | rfl
      · refine ⟨k :: ks', ⟨List.nodup_cons.mpr ⟨fun hm => (List.nodup_cons.mp hnd).1 (hsub k hm), hnd'⟩, ?_⟩,
          a, hitem, m, hsp, hrun⟩
        intro x hx
        rcases List.mem_cons.mp hx with rfl | hx
        · simp
        · simp [hsub x hx]
      · exact ⟨ks', ⟨hnd', fun x hx => by simp [hsub x hx]⟩, hrun⟩

/-- the `loop` of `posting::lot` over documented items of distinct kinds whose slots are free -/
theorem lotLoop_run : ∀ (ks : List LotKind) {i r : List Char}, LotRun ks i r → ks ≠ [] → ks.Nodup →
    ∀ (l : Lot), (∀ k ∈ ks, lotFree l k = true) → LotStop (skipSpaces r) → ∀ n, ks.length < n →
      ∃ l', Parse.lotLoop n l i = .ok l' (skipSpaces r)
  | [], _, _, _, hne, _, _, _, _, _, _ => absurd rfl hne
  | k :: ks, i, r, ⟨a, hitem, b, hsp, hrun⟩, _, hnd, l, hfree, hstop, n, hn => by
    obtain ⟨l', hl', hround⟩ := lot_round k hitem l (hfree k (by simp))
    obtain ⟨n', rfl⟩ : ∃ n', n = n' + 1 := ⟨n - 1, by simp at hn; omega⟩
    obtain ⟨sb, rfl, hsb⟩ := star_sp hsp
    have hsk : skipSpaces (sb ++ b) = skipSpaces b := by
      have hsb' : ∀ c ∈ sb, ExprSyntax.isSpace c = true := hsb
      simp only [skipSpaces]
      rw [List.dropWhile_append_of_pos hsb']
    rw [hround n', hsk]
    match ks, hrun, hnd, hfree, hn with
    | [], hrun, _, _, hn =>
      have : b = r := hrun
      subst this
      obtain ⟨n'', rfl⟩ : ∃ n'', n' = n'' + 1 := ⟨n' - 1, by simp at hn; omega⟩
      exact ⟨l', lotLoop_stop hstop n'' l'⟩
    | k2 :: ks2, hrun, hnd, hfree, hn =>
      obtain ⟨a2, hitem2, _⟩ := id hrun
      obtain ⟨t2, ht2⟩ := lotItem_head k2 hitem2
      have hskb : skipSpaces b = b := by
        rw [ht2]
        apply ExprParse.skipSpaces_cons_nonspace
        cases k2 <;> decide
      rw [hskb]
      have hnd2 := List.nodup_cons.mp hnd
      refine lotLoop_run (k2 :: ks2) hrun (by simp) hnd2.2 l' ?_ hstop n' (by simp at hn ⊢; omega)
      intro k' hk'
      have hne : k' ≠ k := fun e => hnd2.1 (e ▸ hk')
      rw [hl' k' hne]
      exact hfree k' (by simp [hk'])

/-! ## lengths, from the totality lemmas of C06 -/

theorem Safe.length {α : Type} {k : Nat} {p : Parser α} (h : Safe k p) {i r : List Char} {a : α} (he : p i = .ok a r) :
    r.length + k ≤ i.length := by
  have := h.good i
  rw [he] at this
  exact this.2

theorem lotItem_length (k : LotKind) {i a : List Char} (h : lotItem k i a) : a.length < i.length := by
  cases k with
  | price =>
    obtain ⟨ex, hex⟩ := lotAmount_accept h
    have := Safe.length Parse.safe_lotAmount hex
    omega
  | date =>
    obtain ⟨d, hd⟩ := lotDate_accept h
    have hs : Safe 1 (delimited (pair (char '[') space0) Parse.date (pair space0 (char ']'))) := by safe_tac
    have := Safe.length hs hd
    omega
  | note =>
    obtain ⟨s, hs⟩ := lotNote_accept h
    have hsafe : Safe 1 (Parse.paren (takeTill0 fun c => c == '(' || c == ')' || c == '@')) := by safe_tac
    have := Safe.length hsafe hs
    omega

theorem lotRun_length : ∀ (ks : List LotKind) {i r : List Char}, LotRun ks i r → r.length + ks.length ≤ i.length
  | [], i, r, h => by have : i = r := h; subst this; simp
  | k :: ks, i, r, ⟨a, hitem, b, hsp, hrun⟩ => by
    have h1 := lotItem_length k hitem
    have h2 := star_chr_length hsp
    have h3 := lotRun_length ks hrun
    simp; omega

/-- the six documented orders are optional items in an order without repetition -/
theorem postingLot_optRun {i r : List Char} (h : postingLot 𝔸 i r) : ∃ ks : List LotKind, ks.Nodup ∧ OptRun ks i r := by
  have conv : ∀ (k1 k2 k3 : LotKind) {i r : List Char},
      (G.opt (lotItem k1 ⬝ G.star sp) ⬝ G.opt (lotItem k2 ⬝ G.star sp) ⬝ G.opt (lotItem k3 ⬝ G.star sp)) i r →
      OptRun [k1, k2, k3] i r := by
    intro k1 k2 k3 i r ⟨m1, h1, m2, h2, h3⟩
    exact ⟨m1, h1, m2, h2, r, h3, rfl⟩
  rcases h with h | h | h | h | h | h
  · exact ⟨[.price, .date, .note], by decide, conv _ _ _ h⟩
  · exact ⟨[.price, .note, .date], by decide, conv _ _ _ h⟩
  · exact ⟨[.date, .price, .note], by decide, conv _ _ _ h⟩
  · exact ⟨[.date, .note, .price], by decide, conv _ _ _ h⟩
  · exact ⟨[.note, .price, .date], by decide, conv _ _ _ h⟩
  · exact ⟨[.note, .date, .price], by decide, conv _ _ _ h⟩

/-- **`posting::lot` accepts a documented `posting-lot?`** (any order of its items) preceded by blanks; it stops after the
blanks that follow, where no further item opens -/
theorem lot_accept {v1 v2 v3 P : List Char} (hsp : G.star sp v1 v2) (h : G.opt (postingLot 𝔸) v2 v3)
    (hstop : LotStop (skipSpaces v3)) (hP : skipSpaces P = skipSpaces v1) :
    ∃ l, Parse.lot P = .ok l (skipSpaces v3) := by
  obtain ⟨s1, rfl, hs1⟩ := star_sp hsp
  have hsk12 : skipSpaces (s1 ++ v2) = skipSpaces v2 := by
    have hs1' : ∀ c ∈ s1, ExprSyntax.isSpace c = true := hs1
    simp only [skipSpaces]
    rw [List.dropWhile_append_of_pos hs1']
  have hrun : ∃ ks : List LotKind, ks.Nodup ∧ LotRun ks v2 v3 := by
    rcases h with h | rfl
    · obtain ⟨ks, hnd, hopt⟩ := postingLot_optRun h
      exact optRun_run ks hopt hnd
    · exact ⟨[], List.nodup_nil, rfl⟩
  obtain ⟨ks, hnd, hrun⟩ := hrun
  simp only [Parse.lot, bind_apply, space0_eq, Res.andThen_ok, hP, hsk12]
  cases ks with
  | nil =>
    have : v2 = v3 := hrun
    subst this
    exact ⟨{}, lotLoop_stop hstop _ _⟩
  | cons k ks' =>
    obtain ⟨a, hitem, _⟩ := id hrun
    obtain ⟨t, ht⟩ := lotItem_head k hitem
    have hsk2 : skipSpaces v2 = v2 := by
      rw [ht]
      apply ExprParse.skipSpaces_cons_nonspace
      cases k <;> decide
    rw [hsk2]
    have hlen := lotRun_length _ hrun
    exact lotLoop_run (k :: ks') hrun (by simp) hnd {} (by intro k _; cases k <;> rfl) hstop _ (by omega)

/-! ## `posting-amount` -/

/-- `ExprFollow` is decided by what comes after the blanks, when that is the end or a punctuation character -/
theorem exprFollow_of_skip {v : List Char} (h : skipSpaces v = [] ∨ ∃ c t, skipSpaces v = c :: t ∧ Punct c) :
    ExprFollow v = true := by
  have hsplit : v = v.takeWhile Comb.isSpace ++ skipSpaces v := (List.takeWhile_append_dropWhile (p := Comb.isSpace)).symm
  rw [hsplit]
  exact (exprFollow_blank_punct (fun c hc => mem_takeWhile hc) h).1

/-- after the amount part of a posting (and blanks): the end of the text, `=`, `;` or a line end -/
def AmtEnd (x : List Char) : Prop := x = [] ∨ ∃ c t, x = c :: t ∧ (c = '=' ∨ c = ';' ∨ c = '\n' ∨ c = '\r')

theorem AmtEnd.punct {x : List Char} (h : AmtEnd x) : x = [] ∨ ∃ c t, x = c :: t ∧ Punct c := by
  rcases h with rfl | ⟨c, t, rfl, hc⟩
  · exact Or.inl rfl
  · exact Or.inr ⟨c, t, rfl, punct_of_mem (by rcases hc with rfl | rfl | rfl | rfl <;> simp)⟩

theorem AmtEnd.lotStop {x : List Char} (h : AmtEnd x) : LotStop x := by
  intro c t e
  rcases h with rfl | ⟨c', t', rfl, hc⟩
  · cases e
  · injection e with e _; subst e
    rcases hc with rfl | rfl | rfl | rfl <;> exact ⟨by decide, by decide, by decide⟩

theorem AmtEnd.notAt {x : List Char} (h : AmtEnd x) : ∀ t, x ≠ '@' :: t := by
  intro t e
  rcases h with rfl | ⟨c', t', rfl, hc⟩
  · cases e
  · injection e with e _; subst e
    rcases hc with hc | hc | hc | hc <;> revert hc <;> decide

theorem skipSpaces_append_blank {s x : List Char} (hs : ∀ c ∈ s, Comb.isSpace c = true) :
    skipSpaces (s ++ x) = skipSpaces x := by
  have hs' : ∀ c ∈ s, ExprSyntax.isSpace c = true := hs
  simp only [skipSpaces]
  rw [List.dropWhile_append_of_pos hs']

theorem skipSpaces_star {a b : List Char} (h : G.star sp a b) : skipSpaces a = skipSpaces b := by
  obtain ⟨s, rfl, hs⟩ := star_sp h
  exact skipSpaces_append_blank hs

/-- `posting-cost`: the value expression after `@@` / `@` -/
theorem cost_accept {v3 j : List Char} (h : postingCost 𝔸 v3 j) (hj : ExprFollow j = true) :
    ∃ j', After j j' ∧ ∃ ex, ∀ {β : Type} (k : Option Exchange → Parser β),
      (hasPeek (char '@') >>- fun isAt => hasPeek (literal ['@', '@']) >>- fun isDoubleAt =>
        Comb.cond isAt (condElse isDoubleAt Parse.totalCost Parse.rateCost) >>- k) v3 = k (some ex) j' := by
  rcases h with ⟨c1, h0, c2, hsp, hv⟩ | ⟨c1, h0, c2, hsp, hv⟩
  · have h0 := lit_eq ['@', '@'] rfl h0
    subst h0
    obtain ⟨j', haft, v, hv'⟩ := valueExpr_accept hv hj
    obtain ⟨s, hs⟩ := space0_star_sp hsp (head_stop (value_head hv))
    refine ⟨j', haft, Exchange.total v, ?_⟩
    intro β k
    have h1 : hasPeek (char '@') ('@' :: '@' :: c1) = .ok true ('@' :: '@' :: c1) := hasPeek_ok (char_cons_self _ _)
    have h2 : hasPeek (literal ['@', '@']) ('@' :: '@' :: c1) = .ok true ('@' :: '@' :: c1) :=
      hasPeek_ok (literal_append ['@', '@'] c1)
    have h3 : literal ['@', '@'] ('@' :: '@' :: c1) = .ok ['@', '@'] c1 := literal_append ['@', '@'] c1
    simp only [List.cons_append, List.nil_append, bind_apply, h1, Res.andThen_ok, h2, Comb.cond, condElse, if_true,
      map_apply, Parse.totalCost, preceded_apply, pair_apply, h3, hs, Res.map_ok, hv']
  · have h0 := lit_eq ['@'] rfl h0
    subst h0
    obtain ⟨j', haft, v, hv'⟩ := valueExpr_accept hv hj
    obtain ⟨s, hs⟩ := space0_star_sp hsp (head_stop (value_head hv))
    have hc1 : ∀ t, c1 ≠ '@' :: t := by
      intro t e
      obtain ⟨s1, rfl, hs1⟩ := star_sp hsp
      obtain ⟨c, t', e', hc⟩ := value_head hv
      cases s1 with
      | nil =>
        simp only [List.nil_append] at e
        rw [e'] at e
        injection e with e _
        subst e
        rcases hc with hc | hc | hc <;> revert hc <;> decide
      | cons b s1' =>
        simp only [List.cons_append] at e
        injection e with e _
        have := hs1 b (by simp)
        rw [e] at this
        revert this; decide
    refine ⟨j', haft, Exchange.rate v, ?_⟩
    intro β k
    have h1 : hasPeek (char '@') ('@' :: c1) = .ok true ('@' :: c1) := hasPeek_ok (char_cons_self _ _)
    have h2 : hasPeek (literal ['@', '@']) ('@' :: c1) = .ok false ('@' :: c1) := by
      have : literal ['@', '@'] ('@' :: c1) = .bt ('@' :: c1) := by
        cases c1 with
        | nil => simp [literal]
        | cons c t =>
          have : c ≠ '@' := fun e => hc1 t (by rw [e])
          simp [literal, Ne.symm this]
      exact hasPeek_bt this
    have h3 : literal ['@'] ('@' :: c1) = .ok ['@'] c1 := literal_append ['@'] c1
    simp only [List.cons_append, List.nil_append, bind_apply, h1, Res.andThen_ok, h2, Comb.cond, condElse, if_true,
      Bool.false_eq_true, if_false, map_apply, Parse.rateCost, preceded_apply, pair_apply, h3, hs, Res.map_ok, hv']

/-- no cost where the amount part ends -/
theorem cost_absent {x : List Char} (h : AmtEnd x) {β : Type} (k : Option Exchange → Parser β) :
    (hasPeek (char '@') >>- fun isAt => hasPeek (literal ['@', '@']) >>- fun isDoubleAt =>
      Comb.cond isAt (condElse isDoubleAt Parse.totalCost Parse.rateCost) >>- k) x = k none x := by
  have hne := h.notAt
  have h1 : hasPeek (char '@') x = .ok false x := by
    cases x with
    | nil => exact hasPeek_bt (char_nil _)
    | cons c t => exact hasPeek_bt (char_cons_ne (fun e => hne t (by rw [e])) t)
  have h2 : hasPeek (literal ['@', '@']) x = .ok false x := by
    have : literal ['@', '@'] x = .bt x := by
      cases x with
      | nil => simp [literal]
      | cons c t =>
        have : c ≠ '@' := fun e => hne t (by rw [e])
        simp [literal, Ne.symm this]
    exact hasPeek_bt this
  simp only [bind_apply, h1, Res.andThen_ok, h2, Comb.cond, Bool.false_eq_true, if_false, pure_apply]

/-- **`posting::posting_amount` accepts a documented `posting-amount`** that is followed — after blanks — by `=`, `;`, a
line end or the end of the text -/
theorem postingAmount_accept {i j : List Char} (h : postingAmount 𝔸 i j) (hj : AmtEnd (skipSpaces j)) :
    ∃ j', After j j' ∧ ∃ pa, Parse.postingAmount i = .ok pa j' := by
  obtain ⟨v1, hval, v2, hsp, v3, hlot, hcost⟩ := h
  have hfj : ExprFollow j = true := exprFollow_of_skip hj.punct
  -- where the lot ends, no further item opens; and what follows the value expression
  have hv3 : LotStop (skipSpaces v3) ∧ (skipSpaces v3 = [] ∨ ∃ c t, skipSpaces v3 = c :: t ∧ Punct c) := by
    rcases hcost with hc | rfl
    · have : ∃ t, v3 = '@' :: t := by
        rcases hc with ⟨c1, h0, _⟩ | ⟨c1, h0, _⟩
        · exact ⟨_, lit_eq ['@', '@'] rfl h0⟩
        · exact ⟨_, lit_eq ['@'] rfl h0⟩
      obtain ⟨t, rfl⟩ := this
      have hsk : skipSpaces ('@' :: t) = '@' :: t := ExprParse.skipSpaces_cons_nonspace _ (by decide)
      rw [hsk]
      exact ⟨by intro c t' e; injection e with e _; subst e; exact ⟨by decide, by decide, by decide⟩,
        Or.inr ⟨'@', t, rfl, punct_of_mem (by simp)⟩⟩
    · exact ⟨hj.lotStop, hj.punct⟩
  have hv1 : skipSpaces v1 = [] ∨ ∃ c t, skipSpaces v1 = c :: t ∧ Punct c := by
    rw [skipSpaces_star hsp]
    rcases hlot with hl | rfl
    · obtain ⟨ks, hnd, hopt⟩ := postingLot_optRun hl
      obtain ⟨ks', _, hrun⟩ := optRun_run ks hopt hnd
      cases ks' with
      | nil => have : v2 = v3 := hrun; subst this; exact hv3.2
      | cons k ks'' =>
        obtain ⟨a, hitem, _⟩ := hrun
        obtain ⟨t, ht⟩ := lotItem_head k hitem
        rw [ht, ExprParse.skipSpaces_cons_nonspace _ (by cases k <;> decide)]
        exact Or.inr ⟨_, t, rfl, punct_of_mem (by cases k <;> simp [lotOpen])⟩
    · exact hv3.2
  obtain ⟨v1', haft1, v, hv⟩ := valueExpr_accept hval (exprFollow_of_skip hv1)
  obtain ⟨l, hl⟩ := lot_accept (P := skipSpaces v1') hsp hlot hv3.1 (by rw [ExprParse.skipSpaces_idem, haft1.skip])
  rcases hcost with hc | rfl
  · obtain ⟨j', haftj, ex, hex⟩ := cost_accept hc hfj
    have hsk3 : skipSpaces v3 = v3 := by
      rcases hc with ⟨c1, h0, _⟩ | ⟨c1, h0, _⟩
      · rw [lit_eq ['@', '@'] rfl h0]; exact ExprParse.skipSpaces_cons_nonspace _ (by decide)
      · rw [lit_eq ['@'] rfl h0]; exact ExprParse.skipSpaces_cons_nonspace _ (by decide)
    rw [hsk3] at hl
    refine ⟨j', haftj, { amount := v, cost := some ex, lot := l }, ?_⟩
    have := hex (fun cost => pure ({ amount := v, cost := cost, lot := l } : PostingAmount))
    simp only [Parse.postingAmount, bind_apply, terminated_apply, hv, Res.andThen_ok, space0_eq, Res.map_ok, hl]
    simp only [bind_apply, pure_apply] at this
    exact this
  · have := cost_absent hj (fun cost => pure ({ amount := v, cost := cost, lot := l } : PostingAmount))
    refine ⟨skipSpaces v3, Or.inr rfl, { amount := v, cost := none, lot := l }, ?_⟩
    simp only [Parse.postingAmount, bind_apply, terminated_apply, hv, Res.andThen_ok, space0_eq, Res.map_ok, hl]
    simp only [bind_apply, pure_apply] at this
    exact this

/-! ## `posting` -/

/-- where the metadata block of a posting (or of a transaction header) begins: `;`, a line end, or the end of the text -/
def BlockStart (m : List Char) : Prop :=
  m = [] ∨ (∃ t, m = ';' :: t) ∨ (∃ t, m = '\n' :: t) ∨ (∃ t, m = '\r' :: '\n' :: t)

theorem blockStart_of_block {m r : List Char} (h : (G.opt metadata ⬝ newLine ⬝ G.star metadataLine) m r) : BlockStart m := by
  obtain ⟨m1, hopt, m2, hnl, _⟩ := h
  rcases hopt with hm | rfl
  · exact Or.inr (Or.inl (metadata_head hm))
  · rcases newLine_cases hnl with rfl | rfl | ⟨rfl, rfl⟩
    · exact Or.inr (Or.inr (Or.inl ⟨_, rfl⟩))
    · exact Or.inr (Or.inr (Or.inr ⟨_, rfl⟩))
    · exact Or.inl rfl

theorem BlockStart.amtEnd {m : List Char} (h : BlockStart m) : AmtEnd m := by
  rcases h with rfl | ⟨t, rfl⟩ | ⟨t, rfl⟩ | ⟨t, rfl⟩
  · exact Or.inl rfl
  · exact Or.inr ⟨_, _, rfl, by simp⟩
  · exact Or.inr ⟨_, _, rfl, by simp⟩
  · exact Or.inr ⟨_, _, rfl, by simp⟩

theorem AmtEnd.stop {x : List Char} (h : AmtEnd x) : Stop Comb.isSpace x := by
  rcases h with rfl | ⟨c, t, rfl, hc⟩
  · simp
  · rcases hc with rfl | rfl | rfl | rfl <;> simp [Comb.isSpace]

theorem AmtEnd.skip {x : List Char} (h : AmtEnd x) : skipSpaces x = x := skipSpaces_of_stop h.stop

theorem BlockStart.accountFollow {m : List Char} (h : BlockStart m) : AccountFollow m := by
  rcases h with rfl | ⟨t, rfl⟩ | ⟨t, rfl⟩ | ⟨t, rfl⟩
  · exact Or.inl rfl
  · exact Or.inr (Or.inr (Or.inl ⟨_, _, rfl, by simp⟩))
  · exact Or.inr (Or.inr (Or.inl ⟨_, _, rfl, by simp⟩))
  · exact Or.inr (Or.inr (Or.inl ⟨_, _, rfl, by simp⟩))

theorem BlockStart.peek {m : List Char} (h : BlockStart m) (hne : m ≠ []) :
    hasPeek Parse.lineEndingOrSemi m = .ok true m := by
  rcases h with rfl | ⟨t, rfl⟩ | ⟨t, rfl⟩ | ⟨t, rfl⟩
  · exact absurd rfl hne
  · exact hasPeek_ok (a := ()) (r := t) (by simp [Parse.lineEndingOrSemi, alt2, lineEnding, literal])
  · exact hasPeek_ok (a := ()) (r := t) (by simp [Parse.lineEndingOrSemi, alt2, lineEnding])
  · exact hasPeek_ok (a := ()) (r := t) (by simp [Parse.lineEndingOrSemi, alt2, lineEnding])

/-- the value-expression parser backtracks where no expression can begin -/
theorem valueExpr_bt {x : List Char} (h : AmtEnd x) : ∃ z, Parse.valueExpr x = .bt z := by
  rcases h with rfl | ⟨c, t, rfl, hc⟩
  · exact ⟨[], by simp [Parse.valueExpr, ExprSyntax.parseValueExpr, ExprSyntax.parseFuel, ExprSyntax.valueExpr_nil,
      Parse.ofPRes]⟩
  · have hne : c ≠ '(' := by rcases hc with rfl | rfl | rfl | rfl <;> decide
    have hm : c ≠ '-' := by rcases hc with rfl | rfl | rfl | rfl <;> decide
    have hn : isNumChar c = false := by rcases hc with rfl | rfl | rfl | rfl <;> decide
    refine ⟨c :: t, ?_⟩
    have hts : tokenSplit (c :: t) = .error (c :: t) := by
      unfold tokenSplit
      split
      rename_i sign body heq
      split at heq
      · rename_i r' h'; injection h' with e _; exact absurd e hm
      · injection heq with e1 e2
        subst e1; subst e2
        simp [List.takeWhile, hn]
    simp only [Parse.valueExpr, ExprSyntax.parseValueExpr, ExprSyntax.parseFuel,
      ExprSyntax.valueExpr_other _ _ hne, ExprSyntax.amount, ExprSyntax.prettyDecimal, hts, Parse.ofPRes]

theorem noAmount {x : List Char} (h : AmtEnd x) : opt (terminated Parse.postingAmount space0) x = .ok none x := by
  obtain ⟨z, hz⟩ := valueExpr_bt h
  exact opt_bt (q := z) (by simp only [terminated_apply, Parse.postingAmount, bind_apply, hz, Res.andThen_bt])

theorem noBalance {x : List Char} (h : ∀ t, x ≠ '=' :: t) :
    opt (delimited (pair (char '=') space0) Parse.valueExpr space0) x = .ok none x := by
  cases x with
  | nil => exact opt_bt (q := []) (by simp)
  | cons c t =>
    have : c ≠ '=' := fun e => h t (by rw [e])
    exact opt_bt (q := c :: t) (by simp [char_cons_ne this])

/-- `= value-expr` before a metadata block -/
theorem balance_accept {p3 m : List Char} (h : balance 𝔸 p3 m) (hm : BlockStart m) :
    ∃ v, opt (delimited (pair (char '=') space0) Parse.valueExpr space0) p3 = .ok (some v) m := by
  obtain ⟨b1, h0, b2, hsp1, b3, hv, hsp2⟩ := h
  have h0 := lit_eq ['='] rfl h0
  subst h0
  obtain ⟨s1, hs1⟩ := space0_star_sp hsp1 (head_stop (value_head hv))
  have hskb3 : skipSpaces b3 = m := by rw [skipSpaces_star hsp2]; exact hm.amtEnd.skip
  have hf : ExprFollow b3 = true := exprFollow_of_skip (by rw [hskb3]; exact hm.amtEnd.punct)
  obtain ⟨b3', haft, v, hv'⟩ := valueExpr_accept hv hf
  have hs3 : space0 b3' = .ok (b3'.takeWhile Comb.isSpace) m := by rw [space0_eq, haft.skip, hskb3]
  refine ⟨v, opt_ok ?_⟩
  simp only [delimited_apply, pair_apply, List.cons_append, List.nil_append, char_cons_self, Res.andThen_ok, hs1,
    Res.map_ok, hv', hs3]

/-- the part of `posting::posting` after the account -/
def postingTail (cs : ClearState) (account : String) : Parser Posting :=
  hasPeek Parse.lineEndingOrSemi >>- fun shortcut =>
  if shortcut then
    Parse.blockMetadata >>- fun md => pure { account := account, clear := cs, metadata := md }
  else
    opt (terminated Parse.postingAmount space0) >>- fun amount =>
    opt (delimited (pair (char '=') space0) Parse.valueExpr space0) >>- fun balance =>
    Parse.blockMetadata >>- fun md =>
    pure { account := account, clear := cs, amount := amount, balance := balance, metadata := md }

theorem posting_eq : Parse.posting =
    (preceded space0 Parse.clearState >>- fun cs => Parse.postingAccount >>- fun account => postingTail cs account) := rfl

/-- the tail of a posting: `(posting-amount sp*)? balance?` and the metadata block -/
theorem postingTail_accept (cs : ClearState) (acct : String) {p2 p3 m r : List Char}
    (hamt : G.opt (postingAmount 𝔸 ⬝ G.star sp) p2 p3) (hbal : G.opt (balance 𝔸) p3 m)
    (hblock : (G.opt metadata ⬝ newLine ⬝ G.star metadataLine) m r) (hr : NoMetaCont r) :
    ∃ p, postingTail cs acct p2 = .ok p r := by
  have hm := blockStart_of_block hblock
  obtain ⟨ms, hms⟩ := blockMetadata_accept hblock hr
  -- the balance part, from `p3`
  have hbalance : ∃ b, opt (delimited (pair (char '=') space0) Parse.valueExpr space0) p3 = .ok b m ∧
      AmtEnd p3 ∧ (p3 = m ∨ ∃ t, p3 = '=' :: t) := by
    rcases hbal with hb | rfl
    · obtain ⟨v, hv⟩ := balance_accept hb hm
      obtain ⟨b1, h0, _⟩ := hb
      have h0 := lit_eq ['='] rfl h0
      exact ⟨some v, hv, Or.inr ⟨_, _, h0, by simp⟩, Or.inr ⟨_, h0⟩⟩
    · refine ⟨none, noBalance ?_, hm.amtEnd, Or.inl rfl⟩
      intro t e
      rcases hm with h | ⟨_, h⟩ | ⟨_, h⟩ | ⟨_, h⟩ <;> rw [h] at e <;> cases e
  obtain ⟨b, hb, hp3, hp3'⟩ := hbalance
  -- the long path (no shortcut), from a position where `lineEndingOrSemi` does not match
  have hlong : ∀ (x : List Char) (a : Option PostingAmount),
      hasPeek Parse.lineEndingOrSemi x = .ok false x →
      opt (terminated Parse.postingAmount space0) x = .ok a p3 → ∃ p, postingTail cs acct x = .ok p r := by
    intro x a h1 h2
    exact ⟨{ account := acct, clear := cs, amount := a, balance := b, metadata := ms },
      by simp only [postingTail, bind_apply, h1, Res.andThen_ok, Bool.false_eq_true, if_false, h2, hb, hms,
        pure_apply]⟩
  have hnopeek : ∀ (c : Char) (t : List Char), c ≠ '\n' → c ≠ '\r' → c ≠ ';' →
      hasPeek Parse.lineEndingOrSemi (c :: t) = .ok false (c :: t) := by
    intro c t h1 h2 h3
    exact hasPeek_bt (z := c :: t) (by simp [Parse.lineEndingOrSemi, alt2, lineEnding_bt h1 h2, literal, Ne.symm h3])
  rcases hamt with ⟨q, hpa, hsp⟩ | rfl
  · -- an amount
    have hskq : skipSpaces q = p3 := by rw [skipSpaces_star hsp]; exact hp3.skip
    obtain ⟨q', haft, pa, hpa'⟩ := postingAmount_accept hpa (by rw [hskq]; exact hp3)
    obtain ⟨v1, hval, _⟩ := id hpa
    obtain ⟨c, t, rfl, hc⟩ := value_head hval
    refine hlong _ (some pa) (hnopeek c t ?_ ?_ ?_) (opt_ok ?_)
    · rcases hc with rfl | rfl | hc
      · decide
      · decide
      · intro e; subst e; revert hc; decide
    · rcases hc with rfl | rfl | hc
      · decide
      · decide
      · intro e; subst e; revert hc; decide
    · rcases hc with rfl | rfl | hc
      · decide
      · decide
      · intro e; subst e; revert hc; decide
    · simp only [terminated_apply, hpa', Res.andThen_ok, space0_eq, Res.map_ok, haft.skip, hskq]
  · -- no amount
    rcases hp3' with rfl | ⟨t, rfl⟩
    · -- neither amount nor balance
      by_cases hnil : p2 = []
      · subst hnil
        exact hlong [] none (hasPeek_bt (z := []) (by simp [Parse.lineEndingOrSemi, alt2, lineEnding, literal]))
          (noAmount (Or.inl rfl))
      · exact ⟨{ account := acct, clear := cs, metadata := ms },
          by simp only [postingTail, bind_apply, hm.peek hnil, Res.andThen_ok, if_true, hms, pure_apply]⟩
    · exact hlong _ none (hnopeek '=' t (by decide) (by decide) (by decide)) (noAmount hp3)

theorem clearState_mark {c : Char} (hc : c = '*' ∨ c = '!') {k i2 : List Char} (hsp : G.star sp k i2)
    (hst : Stop Comb.isSpace i2) : ∃ cs, Parse.clearState (c :: k) = .ok cs i2 := by
  obtain ⟨s, hs⟩ := space0_star_sp hsp hst
  rcases hc with rfl | rfl
  · exact ⟨.cleared, by simp [Parse.clearState, opt, alt2, hs]⟩
  · exact ⟨.pending, by simp [Parse.clearState, opt, alt2, hs, char_cons_ne (c := '*') (d := '!') (by decide)]⟩

theorem clearState_none {x : List Char} (h : ∀ c t, x = c :: t → c ≠ '*' ∧ c ≠ '!') :
    Parse.clearState x = .ok .uncleared x := by
  cases x with
  | nil => simp [Parse.clearState, opt, alt2]
  | cons c t =>
    obtain ⟨h1, h2⟩ := h c t rfl
    simp [Parse.clearState, opt, alt2, char_cons_ne h1, char_cons_ne h2]

theorem clearState_doc {i r : List Char} (h : clearState i r) : ∃ c, i = c :: r ∧ (c = '*' ∨ c = '!') := by
  rcases h with h | h
  · exact ⟨'*', lit_eq ['*'] rfl h, Or.inl rfl⟩
  · exact ⟨'!', lit_eq ['!'] rfl h, Or.inr rfl⟩

/-- **`posting::posting` accepts a documented posting** (after its indentation): optional clear mark, account (without `;`,
not beginning with a clear mark), optional `posting-value`, and the metadata block -/
theorem posting_accept {i1 i2 i3 m r : List Char} (hclear : G.opt (clearState ⬝ G.star sp) i1 i2)
    (hacct : (account.sat (𝔸).postingAccountOk) i2 i3) (hpv : G.opt (postingValue 𝔸) i3 m)
    (hblock : (G.opt metadata ⬝ newLine ⬝ G.star metadataLine) m r) (hr : NoMetaCont r) :
    ∃ p, Parse.posting i1 = .ok p r := by
  obtain ⟨hacc, s, hs, hok⟩ := hacct
  simp only [Dialect.accepted, Bool.and_eq_true, Bool.not_eq_true', Bool.or_eq_false_iff, beq_eq_false_iff_ne] at hok
  obtain ⟨hsemi, hstar, hbang⟩ := hok
  have hsemi' : ∀ c ∈ s, c ≠ ';' := by
    intro c hc e
    subst e
    have : s.contains ';' = true := List.contains_iff_mem.mpr hc
    rw [hsemi] at this; cases this
  have hm := blockStart_of_block hblock
  -- the account and the rest
  have hrest : ∃ p2 p3, AccountFollow i3 ∧ i3.dropWhile Comb.isSpace = p2 ∧
      G.opt (postingAmount 𝔸 ⬝ G.star sp) p2 p3 ∧ G.opt (balance 𝔸) p3 m := by
    rcases hpv with ⟨p1, hsep, p2, hsp, p3, hamt, hbal⟩ | rfl
    · refine ⟨p2, p3, ?_, ?_, hamt, hbal⟩
      · rcases hsep with h | h
        · exact Or.inr (Or.inl ⟨_, lit_eq [' ', ' '] rfl h⟩)
        · exact Or.inr (Or.inr (Or.inl ⟨_, _, lit_eq ['\t'] rfl h, Or.inl rfl⟩))
      · have hst : Stop Comb.isSpace p2 := by
          rcases hamt with ⟨q, ⟨v1, hval, _⟩, _⟩ | rfl
          · exact head_stop (value_head hval)
          · rcases hbal with ⟨b1, h0, _⟩ | rfl
            · rw [lit_eq ['='] rfl h0]; simp [Comb.isSpace]
            · exact hm.amtEnd.stop
        obtain ⟨sp2, rfl, hsp2⟩ := star_sp hsp
        rcases hsep with h | h
        · rw [lit_eq [' ', ' '] rfl h]
          exact dropWhile_append_stop (a := ' ' :: ' ' :: sp2) (by
            intro c hc
            simp only [List.mem_cons] at hc
            rcases hc with rfl | rfl | hc
            · rfl
            · rfl
            · exact hsp2 c hc) hst
        · rw [lit_eq ['\t'] rfl h]
          exact dropWhile_append_stop (a := '\t' :: sp2) (by
            intro c hc
            simp only [List.mem_cons] at hc
            rcases hc with rfl | hc
            · rfl
            · exact hsp2 c hc) hst
    · exact ⟨i3, i3, hm.accountFollow, by
        have := dropWhile_append_stop (a := []) (p := Comb.isSpace) (rest := i3) (by simp) hm.amtEnd.stop
        simpa using this, Or.inr rfl, Or.inr rfl⟩
  obtain ⟨p2, p3, hfol, hdrop, hamt, hbal⟩ := hrest
  -- the words of the account
  obtain ⟨w0, ws, he, ⟨hne, hw0⟩, hws⟩ := account_words hacc
  have hs' : s = w0 ++ ws.flatMap (fun wd => ' ' :: wd) := by
    rw [he, ← List.append_assoc] at hs
    exact (List.append_cancel_right hs).symm
  have hW0 : wfWord w0 := wfWord_of hne hw0 (fun c hc => hsemi' c (by rw [hs']; simp [hc]))
  have hWs : ∀ wd ∈ ws, wfWord wd := by
    intro wd hwd
    refine wfWord_of (hws wd hwd).1 (hws wd hwd).2 ?_
    intro c hc
    apply hsemi' c
    rw [hs']
    simp only [List.mem_append, List.mem_flatMap, List.mem_cons]
    exact Or.inr ⟨wd, hwd, Or.inr hc⟩
  obtain ⟨c0, w, rfl⟩ : ∃ c w, w0 = c :: w := by
    cases w0 with
    | nil => exact absurd rfl hne
    | cons c w => exact ⟨c, w, rfl⟩
  have hc0 : isNoSp c0 = true := hw0 c0 (by simp)
  have hst2 : Stop Comb.isSpace i2 := by
    rw [he]
    obtain ⟨h1, h2, _, _⟩ := (isNoSp_iff c0).mp hc0
    simp [Comb.isSpace, h1, h2]
  have hwStop : ∀ (wd : List Char) (X : List Char), wfWord wd → Stop Comb.isSpace (wd ++ X) := by
    intro wd X hwd
    cases wd with
    | nil => exact absurd rfl hwd.1
    | cons c t =>
      have := hwd.2 c (by simp)
      simp only [Parse.isAccountStop, Bool.or_eq_false_iff, beq_eq_false_iff_ne] at this
      simp [Comb.isSpace, this.1.2, this.2]
  -- clear mark and account: where the parser stands after both
  have key : ∃ cs j a, Stop Comb.isSpace i1 ∧ Parse.clearState i1 = .ok cs j ∧
      Parse.postingAccount j = .ok a (i3.dropWhile Comb.isSpace) := by
    rcases hclear with ⟨k, hc, hsp⟩ | rfl
    · -- a documented clear mark
      obtain ⟨c, rfl, hmark⟩ := clearState_doc hc
      obtain ⟨cs, hcs⟩ := clearState_mark hmark hsp hst2
      obtain ⟨a, ha⟩ := postingAccount_accept hacc hs hsemi' hfol
      exact ⟨cs, i2, a, by rcases hmark with rfl | rfl <;> simp [Comb.isSpace], hcs, ha⟩
    · by_cases hmark : c0 = '*' ∨ c0 = '!'
      · -- the account begins with a clear mark: the parser reads it as one, and the rest as the account
        subst he
        cases w with
        | cons c1 w' =>
          have hw : wfWord (c1 :: w') := ⟨by simp, fun c hc => hW0.2 c (by simp [List.mem_cons.mp hc])⟩
          obtain ⟨cs, hcs⟩ := clearState_mark (k := (c1 :: w') ++ (ws.flatMap (fun wd => ' ' :: wd) ++ i3)) hmark (.nil _)
            (hwStop _ _ hw)
          obtain ⟨a, ha⟩ := postingAccount_words (c1 :: w') ws i3 hw hWs hfol
          exact ⟨cs, _, a, hst2, by simpa using hcs, ha⟩
        | nil =>
          cases ws with
          | nil =>
            exfalso
            rcases hmark with rfl | rfl
            · exact hstar (by simpa using hs')
            · exact hbang (by simpa using hs')
          | cons wd ws' =>
            have hwd := hWs wd (by simp)
            obtain ⟨cs, hcs⟩ := clearState_mark (c := c0)
              (k := ' ' :: (wd ++ (ws'.flatMap (fun wd => ' ' :: wd) ++ i3)))
              (i2 := wd ++ (ws'.flatMap (fun wd => ' ' :: wd) ++ i3)) hmark (.cons ⟨' ', rfl, rfl⟩ (.nil _))
              (hwStop _ _ hwd)
            obtain ⟨a, ha⟩ := postingAccount_words wd ws' i3 hwd (fun x hx => hWs x (by simp [hx])) hfol
            exact ⟨cs, _, a, hst2, by simpa using hcs, ha⟩
      · obtain ⟨a, ha⟩ := postingAccount_accept hacc hs hsemi' hfol
        refine ⟨.uncleared, _, a, hst2, clearState_none ?_, ha⟩
        intro c t e
        rw [he] at e
        injection e with e _
        subst e
        exact ⟨fun h => hmark (Or.inl h), fun h => hmark (Or.inr h)⟩
  obtain ⟨cs, j, a, hst1, hcs, ha⟩ := key
  obtain ⟨p, hp⟩ := postingTail_accept cs a hamt hbal hblock hr
  refine ⟨p, ?_⟩
  rw [posting_eq]
  simp only [bind_apply, preceded_apply, space0_stop hst1, Res.andThen_ok, hcs, ha, hdrop, hp]

end Okane.DocAccept
