import Okane.Lemmas.C11TextGrammar
/-!
# `parse_ledger` of a text cut at an entry boundary (C11 at the level of texts)

`parseEntries_append_at`: if `a` and `b` are ledgers (`parse_ledger` reads `ea` from `a` and `eb` from `b`) and the cut between
them is an `EntryBoundary`, then `parse_ledger (a ++ b)` reads `ea ++ eb`.

`EntryBoundary a ea b`: one of the texts is empty; or `a` ends with a line feed and — `b` does not start with a comment prefix, or
`a` ends with a blank line, or the last entry of `a` is not a comment.  `Boundary a b` (`parseEntries_append`) is the coarser
condition that looks at the characters around the cut only.  The condition cannot be dropped (`boundary_needed_*`):
`multiline_text` is greedy, so a top-level comment at the end of `a` and one at the start of `b` merge into ONE entry; without a
line end the last line of `a` and the first of `b` are one line.  (An indented first line of `b` would be read as a posting of
the last transaction of `a` — but such a `b` is not a ledger of its own: `follows_of_ledger`, `cut_before_posting`.)

Route: `iterE` is `ParsedIter` without the spans and the error values (`iterE_eq`); `verticalSpaces_append` — the separator
run over `u ++ b` is the run over `u` continued by the run over `b`; `entry_ext` (`C11TextGrammar`) — an entry of `a` is read
from `a ++ b` exactly as from `a` (for a comment that runs to the very end of `a`: if `b` does not go on with a comment);
`iterE_append` puts the two runs together.
-/
namespace Okane.Parse
open Okane Okane.Comb

variable {α : Type}

/-! ## `ParsedIter` without spans -/

/-- `ParsedIter` run to its end, entries only: `none` for every ending other than `done` -/
def iterE (p : Parser α) (sep : Parser Unit) : Nat → List Char → List α → Option (List α)
  | 0, _, _ => none
  | n + 1, i, acc =>
    match sep i with
    | .ok _ i1 =>
      if i1.isEmpty then some acc else
      match p i1 with
      | .ok e r => iterE p sep n r (acc ++ [e])
      | _ => none
    | _ => none

/-- the entries of a complete run -/
def doneEntries : List (Nat × Nat × α) × Ending → Option (List α)
  | (es, .done) => some (es.map (·.2.2))
  | _ => none

theorem iterE_eq (p : Parser α) (sep : Parser Unit) (whole : List Char) :
    ∀ (n : Nat) (i : List Char) (acc : List (Nat × Nat × α)),
      iterE p sep n i (acc.map (·.2.2)) = doneEntries (parsedIter p sep whole n i acc) := by
  intro n
  induction n with
  | zero => intro i acc; rfl
  | succ n ih =>
    intro i acc
    unfold parsedIter iterE
    simp only
    cases hs : sep i with
    | ok u i1 =>
      simp only
      by_cases he : i1.isEmpty = true
      · simp [he, doneEntries]
      · have he' : i1.isEmpty = false := by simpa using he
        simp only [he', Bool.false_eq_true, if_false]
        cases hp : p i1 with
        | ok e r =>
          simp only
          rw [← ih]
          simp
        | bt q => simp only; split <;> rfl
        | cut q => simp only; split <;> rfl
        | panic s => rfl
        | fuel => rfl
    | bt q => simp only; split <;> rfl
    | cut q => simp only; split <;> rfl
    | panic s => rfl
    | fuel => rfl

theorem parseEntries_eq_iterE (t : List Char) (es : List Entry) :
    parseEntries t = .ok es ↔ iterE parseLedgerEntry verticalSpaces (t.length + 1) t [] = some es := by
  have h := iterE_eq parseLedgerEntry verticalSpaces t (t.length + 1) t []
  simp only [List.map_nil] at h
  rw [h]
  simp only [parseEntries, parseLedger, parseLedgerRun]
  generalize parsedIter parseLedgerEntry verticalSpaces t (t.length + 1) t [] = res
  obtain ⟨xs, en⟩ := res
  cases en <;> simp [doneEntries, Outcome.map', List.map_map, Function.comp_def]

/-- the fuel does not matter beyond the length of the text -/
theorem iterE_fuel {p : Parser α} {sep : Parser Unit} (hp : Safe 1 p) (hsep : Safe 0 sep) :
    ∀ (n m : Nat) (i : List Char) (acc : List α), i.length < n → i.length < m → iterE p sep n i acc = iterE p sep m i acc := by
  intro n
  induction n with
  | zero => intro m i acc h; omega
  | succ n ih =>
    intro m i acc hn hm
    obtain ⟨m, rfl⟩ : ∃ m', m = m' + 1 := ⟨m - 1, by omega⟩
    have h1 := hsep.good i
    simp only [iterE]
    cases hs : sep i with
    | ok u i1 =>
      rw [hs] at h1
      obtain ⟨h2, h3⟩ := h1
      simp only
      split
      · rfl
      · have h4 := hp.good i1
        cases he : p i1 with
        | ok e r =>
          rw [he] at h4
          obtain ⟨h5, h6⟩ := h4
          exact ih m r _ (by omega) (by omega)
        | bt q => rfl
        | cut q => rfl
        | panic s => rfl
        | fuel => rfl
    | bt q => rfl
    | cut q => rfl
    | panic s => rfl
    | fuel => rfl

/-- the entries collected so far are a prefix of the result -/
theorem iterE_acc (p : Parser α) (sep : Parser Unit) :
    ∀ (n : Nat) (i : List Char) (acc0 acc : List α),
      iterE p sep n i (acc0 ++ acc) = (iterE p sep n i acc).map (acc0 ++ ·) := by
  intro n
  induction n with
  | zero => intro i acc0 acc; rfl
  | succ n ih =>
    intro i acc0 acc
    simp only [iterE]
    cases hs : sep i with
    | ok u i1 =>
      simp only
      split
      · rfl
      · cases he : p i1 with
        | ok e r => simp only; rw [List.append_assoc]; exact ih r acc0 (acc ++ [e])
        | bt q => rfl
        | cut q => rfl
        | panic s => rfl
        | fuel => rfl
    | bt q => rfl
    | cut q => rfl
    | panic s => rfl
    | fuel => rfl

/-- only the separator's result on the text matters for the first step -/
theorem iterE_congr_sep (p : Parser α) (sep : Parser Unit) (n : Nat) (X Y : List Char) (acc : List α)
    (h : sep X = sep Y) : iterE p sep (n + 1) X acc = iterE p sep (n + 1) Y acc := by
  simp only [iterE, h]

/-! ## the separator -/

/-- the element of `vertical_spaces`' loop -/
abbrev vsE : Parser Unit := lineEnding <|| void (pair space1 (lineEnding <|| eof))

theorem verticalSpaces_def (i : List Char) :
    verticalSpaces i = (repeat0Loop vsE (i.length + 1) i []).map (fun _ => ()) := rfl

theorem loc_vsE {C : Ctx} : Loc C .mid .bol vsE := by unfold vsE; loc_tac

theorem vsE_nl (x : List Char) : vsE ('\n' :: x) = .ok () x := by simp [vsE, alt2, lineEnding]

theorem vsE_nil : vsE [] = .bt [] := by simp [vsE, alt2, lineEnding, space1, takeWhile1, pair, void, Comb.map, Comb.bind]

/-- a loop stops where its element backtracks -/
theorem repeat0Loop_stops {β : Type} {p : Parser β} :
    ∀ (n : Nat) (i : List Char) (acc l : List β) (r : List Char), repeat0Loop p n i acc = .ok l r → ∃ q, p r = .bt q := by
  intro n
  induction n with
  | zero => intro i acc l r h; simp [repeat0Loop] at h
  | succ n ih =>
    intro i acc l r h
    simp only [repeat0Loop] at h
    cases he : p i with
    | ok x r' =>
      rw [he] at h
      simp only at h
      split at h
      · cases h
      · exact ih r' _ l r h
    | bt q => rw [he] at h; simp only [Res.ok.injEq] at h; rw [← h.2]; exact ⟨q, he⟩
    | cut q => rw [he] at h; cases h
    | panic s => rw [he] at h; cases h
    | fuel => rw [he] at h; cases h

/-- a blank line is one element of the separator -/
theorem vsE_blankLine {ws : List Char} (hws : ∀ c ∈ ws, isSpace c = true) (x : List Char) :
    vsE (ws ++ '\n' :: x) = .ok () x := by
  cases ws with
  | nil => exact vsE_nl x
  | cons w ws' =>
    have hb : BlankStart ((w :: ws') ++ '\n' :: x) := ⟨w :: ws', '\n' :: x, rfl, by simp, hws, Or.inr ⟨x, Or.inl rfl⟩⟩
    obtain ⟨ws2, s', h1, _⟩ := space1_blankStart hb
    have hw := hws w (by simp)
    -- `space1` takes exactly the blanks
    have h2 : space1 ((w :: ws') ++ '\n' :: x) = .ok (w :: ws') ('\n' :: x) := by
      have ht : ((w :: ws') ++ '\n' :: x).takeWhile isSpace = w :: ws' ∧
          ((w :: ws') ++ '\n' :: x).dropWhile isSpace = '\n' :: x := by
        generalize w :: ws' = l at hws
        induction l with
        | nil => simp [isSpace]
        | cons a l ih =>
          have ha := hws a (by simp)
          have := ih (fun c hc => hws c (List.mem_cons_of_mem _ hc))
          simp [ha, this]
      simp only [space1, takeWhile1, List.cons_append, hw, if_true]
      rw [← List.cons_append, ht.1, ht.2]
    have hl : lineEnding ((w :: ws') ++ '\n' :: x) = .bt ((w :: ws') ++ '\n' :: x) := by
      have h3 : w ≠ '\n' := by intro h; rw [h] at hw; cases hw
      have h4 : w ≠ '\r' := by intro h; rw [h] at hw; cases hw
      simp only [List.cons_append]
      unfold lineEnding
      split <;> simp_all
    generalize (w :: ws') ++ '\n' :: x = i at h2 hl
    simp only [vsE, alt2, hl, void, Comb.map, pair, Comb.bind, h2, Res.andThen_ok]
    simp [lineEnding]

/-- what `vertical_spaces` leaves does not start with a blank line -/
theorem verticalSpaces_rest {i r : List Char} (h : verticalSpaces i = .ok () r) :
    ∀ ws x, (∀ c ∈ ws, isSpace c = true) → r ≠ ws ++ '\n' :: x := by
  intro ws x hws hx
  rw [verticalSpaces_def] at h
  cases hl : repeat0Loop vsE (i.length + 1) i [] with
  | ok l r' =>
    rw [hl] at h
    simp only [Res.map_ok, Res.ok.injEq, true_and] at h
    subst h
    obtain ⟨q, hq⟩ := repeat0Loop_stops _ _ _ _ _ hl
    rw [hx, vsE_blankLine hws] at hq
    cases hq
  | bt q => rw [hl] at h; cases h
  | cut q => rw [hl] at h; cases h
  | panic s => rw [hl] at h; cases h
  | fuel => rw [hl] at h; cases h

/-- up to the values collected, a loop over a `Safe 1` element does not depend on its fuel or on its accumulator -/
theorem repeat0Loop_void {β : Type} {p : Parser β} (hs : Safe 1 p) :
    ∀ (n m : Nat) (i : List Char) (acc acc' : List β), i.length < n → i.length < m →
      (repeat0Loop p n i acc).map (fun _ => ()) = (repeat0Loop p m i acc').map (fun _ => ()) := by
  intro n
  induction n with
  | zero => intro m i acc acc' h; omega
  | succ n ih =>
    intro m i acc acc' hn hm
    obtain ⟨m, rfl⟩ : ∃ m', m = m' + 1 := ⟨m - 1, by omega⟩
    have h1 := hs.good i
    simp only [repeat0Loop]
    cases he : p i with
    | ok x r =>
      rw [he] at h1
      obtain ⟨h2, h3⟩ := h1
      simp only
      rw [if_neg (by omega), if_neg (by omega)]
      exact ih m r _ _ (by omega) (by omega)
    | bt q => rfl
    | cut q => rfl
    | panic s => rfl
    | fuel => rfl

/-- the separator's loop over `u ++ t`, for `u` a position of the first part or a run of its final blank lines -/
theorem vsLoop_append (C : Ctx) :
    ∀ (n m : Nat) (u : List Char) (acc l : List Unit) (r : List Char),
      (C.Mid u ∨ BlankTail u) → u.length < n → (u ++ C.t).length < m →
      repeat0Loop vsE n u acc = .ok l r →
        (r ≠ [] → repeat0Loop vsE m (u ++ C.t) acc = .ok l (r ++ C.t)) ∧
        (r = [] → (repeat0Loop vsE m (u ++ C.t) acc).map (fun _ => ()) = verticalSpaces C.t) := by
  intro n
  induction n with
  | zero => intro m u acc l r _ h; omega
  | succ n ih =>
    intro m u acc l r hu hn hm h
    obtain ⟨m, rfl⟩ : ∃ m', m = m' + 1 := ⟨m - 1, by omega⟩
    have hsafe : Safe 1 vsE := safe_verticalSpaces_elem
    rcases hu with hu | hu
    · -- a line of the first part is ahead
      have h1 := (loc_vsE (C := C)).ext u hu
      have h2 := hsafe.good u
      simp only [repeat0Loop] at h ⊢
      cases he : vsE u with
      | ok x r' =>
        rw [he] at h h1 h2
        simp only [Res.ext_ok] at h1
        obtain ⟨h3, h4⟩ := h2
        simp only at h
        rw [if_neg (by omega)] at h
        rw [h1]
        simp only [List.length_append] at hm ⊢
        rw [if_neg (by omega)]
        have hr' : C.Mid r' ∨ BlankTail r' := by
          rcases (loc_vsE (C := C)).post u x r' hu he with h | h
          · right; rw [h]; exact C.hz
          · left; exact h
        exact ih m r' _ l r hr' (by omega) (by simp only [List.length_append]; omega) h
      | bt q =>
        rw [he] at h h1
        obtain ⟨q', hq'⟩ := h1
        simp only [Res.ok.injEq] at h
        rw [hq']
        obtain ⟨rfl, rfl⟩ := h
        exact ⟨fun _ => rfl, fun h => absurd h hu.ne_nil⟩
      | cut q => rw [he] at h; cases h
      | panic s => rw [he] at h; cases h
      | fuel => rw [he] at h; cases h
    · by_cases hnil : u = []
      · subst hnil
        simp only [repeat0Loop, vsE_nil, Res.ok.injEq] at h
        obtain ⟨rfl, rfl⟩ := h
        refine ⟨fun h => absurd rfl h, fun _ => ?_⟩
        rw [List.nil_append, verticalSpaces_def]
        exact repeat0Loop_void hsafe _ _ _ _ _ (by simpa using hm) (Nat.lt_succ_self _)
      · obtain ⟨ws, x, rfl, hws, hx⟩ := hu.split hnil
        have e1 := vsE_blankLine hws x
        have e2 := vsE_blankLine hws (x ++ C.t)
        have e3 : (ws ++ '\n' :: x) ++ C.t = ws ++ '\n' :: (x ++ C.t) := by simp
        simp only [repeat0Loop] at h ⊢
        rw [e1] at h
        rw [e3, e2]
        simp only [List.length_append, List.length_cons] at h hn hm ⊢
        rw [if_neg (by omega)] at h
        rw [if_neg (by omega)]
        exact ih m x _ l r (Or.inr hx) (by omega) (by simp only [List.length_append]; omega) h

/-- **`vertical_spaces` over `u ++ t`**: it stops inside `u` where it stopped in `u`, or — when it used up `u` — goes on
into `t` exactly as a run over `t` alone -/
theorem verticalSpaces_append (C : Ctx) {u r : List Char} (hu : C.At .bol u) (h : verticalSpaces u = .ok () r) :
    (r ≠ [] → verticalSpaces (u ++ C.t) = .ok () (r ++ C.t)) ∧ (r = [] → verticalSpaces (u ++ C.t) = verticalSpaces C.t) := by
  have hu' : C.Mid u ∨ BlankTail u := by
    rcases hu with h | h
    · right; rw [h]; exact C.hz
    · left; exact h
  rw [verticalSpaces_def] at h
  cases hl : repeat0Loop vsE (u.length + 1) u [] with
  | ok l r' =>
    rw [hl] at h
    simp only [Res.map_ok, Res.ok.injEq, true_and] at h
    subst h
    obtain ⟨h1, h2⟩ := vsLoop_append C _ ((u ++ C.t).length + 1) u [] l r' hu' (Nat.lt_succ_self _) (Nat.lt_succ_self _) hl
    refine ⟨fun hne => ?_, fun he => ?_⟩
    · rw [verticalSpaces_def, h1 hne]; rfl
    · rw [verticalSpaces_def (u ++ C.t)]; exact h2 he
  | bt q => rw [hl] at h; cases h
  | cut q => rw [hl] at h; cases h
  | panic s => rw [hl] at h; cases h
  | fuel => rw [hl] at h; cases h

/-! ## the two runs put together -/

theorem iterE_nil (p : Parser α) (n : Nat) (acc l : List α) (h : iterE p verticalSpaces n [] acc = some l) : l = acc := by
  cases n with
  | zero => simp [iterE] at h
  | succ n =>
    have : verticalSpaces [] = .ok () [] := by simp [verticalSpaces_def, repeat0Loop, vsE_nil]
    simp only [iterE, this, List.isEmpty_nil, if_true, Option.some.injEq] at h
    exact h.symm

/-- `hp`: an entry of the first part is read from the longer text as before if it leaves something of the first part, or
if it has the property `Q`; `Q` is then only asked of the LAST entry of the first part -/
theorem iterE_append (C : Ctx) {p : Parser α} (Q : α → Prop)
    (hp : ∀ u e r, C.Mid u → p u = .ok e r →
      C.At .bol r ∧ ((r ≠ [] ∨ Q e) → p (u ++ C.t) = .ok e (r ++ C.t))) (k : Nat) (eb : List α)
    (hb : iterE p verticalSpaces k C.t [] = some eb) :
    ∀ (n : Nat) (u : List Char) (acc l : List α), C.At .bol u → iterE p verticalSpaces n u acc = some l →
      (∀ e, l.getLast? = some e → Q e) →
      iterE p verticalSpaces (n + k) (u ++ C.t) acc = some (l ++ eb) := by
  intro n
  induction n with
  | zero => intro u acc l _ h; simp [iterE] at h
  | succ n ih =>
    intro u acc l hu h hlast
    simp only [iterE] at h
    cases hs : verticalSpaces u with
    | ok x i1 =>
      rw [hs] at h
      simp only at h
      obtain ⟨h1, h2⟩ := verticalSpaces_append C hu hs
      by_cases he : i1.isEmpty = true
      · -- the first part is used up: the run goes on as the run over `t`
        simp only [he, if_true, Option.some.injEq] at h
        subst h
        have he' : i1 = [] := by simpa using he
        have hk : ∃ k', k = k' + 1 := by
          cases k with
          | zero => simp [iterE] at hb
          | succ k' => exact ⟨k', rfl⟩
        obtain ⟨k', rfl⟩ := hk
        have e1 : n + 1 + (k' + 1) = (n + 1 + k') + 1 := by omega
        rw [e1, iterE_congr_sep p verticalSpaces _ _ _ _ (h2 he')]
        have e2 := iterE_acc p verticalSpaces (n + 1 + k' + 1) C.t acc []
        rw [List.append_nil] at e2
        rw [e2]
        -- more fuel does not change a complete run
        have mono : ∀ (j m : Nat) (i : List Char) (a l : List α), iterE p verticalSpaces m i a = some l →
            iterE p verticalSpaces (m + j) i a = some l := by
          intro j m
          induction m with
          | zero => intro i a l h; simp [iterE] at h
          | succ m ihm =>
            intro i a l h
            have e3 : m + 1 + j = (m + j) + 1 := by omega
            rw [e3]
            simp only [iterE] at h ⊢
            cases hs' : verticalSpaces i with
            | ok x' i1' =>
              rw [hs'] at h
              simp only at h ⊢
              split
              · rename_i hemp; simpa [hemp] using h
              · rename_i hemp
                simp only [hemp] at h
                cases hp' : p i1' with
                | ok e r => rw [hp'] at h; exact ihm r _ l h
                | bt q => rw [hp'] at h; simp at h
                | cut q => rw [hp'] at h; simp at h
                | panic s => rw [hp'] at h; simp at h
                | fuel => rw [hp'] at h; simp at h
            | bt q => rw [hs'] at h; cases h
            | cut q => rw [hs'] at h; cases h
            | panic s => rw [hs'] at h; cases h
            | fuel => rw [hs'] at h; cases h
        have e4 : n + 1 + k' + 1 = (k' + 1) + (n + 1) := by omega
        rw [e4, mono (n + 1) (k' + 1) C.t [] eb hb]
        rfl
      · simp only [he] at h
        have hne : i1 ≠ [] := by intro h'; apply he; simp [h']
        have hsuf := (safe_verticalSpaces.good u)
        rw [hs] at hsuf
        have hmid : C.Mid i1 := Ctx.mid_of_suffix hu hsuf.1 hne (verticalSpaces_rest hs)
        cases hpe : p i1 with
        | ok e r =>
          rw [hpe] at h
          simp only at h
          obtain ⟨hpost, hext⟩ := hp i1 e r hmid hpe
          have hx : p (i1 ++ C.t) = .ok e (r ++ C.t) := by
            apply hext
            by_cases hr : r = []
            · right
              subst hr
              have := iterE_nil p n _ l h
              exact hlast e (by rw [this]; simp)
            · exact Or.inl hr
          have e1 : n + 1 + k = (n + k) + 1 := by omega
          rw [e1]
          simp only [iterE, h1 hne]
          have hne' : (i1 ++ C.t).isEmpty = false := by
            cases i1 with
            | nil => exact absurd rfl hne
            | cons c x => rfl
          simp only [hne', Bool.false_eq_true, if_false, hx]
          exact ih r _ l hpost h hlast
        | bt q => rw [hpe] at h; simp at h
        | cut q => rw [hpe] at h; simp at h
        | panic s => rw [hpe] at h; simp at h
        | fuel => rw [hpe] at h; simp at h
    | bt q => rw [hs] at h; cases h
    | cut q => rw [hs] at h; cases h
    | panic s => rw [hs] at h; cases h
    | fuel => rw [hs] at h; cases h

theorem parseEntries_nil : parseEntries [] = .ok [] := by
  rw [parseEntries_eq_iterE]
  simp [iterE, verticalSpaces_def, repeat0Loop, vsE_nil]

/-! ## the theorem -/

/-- every ledger satisfies `Follows`: if it starts with a blank or a tab, its first line is blank -/
theorem follows_of_ledger {b : List Char} {eb : List Entry} (hb : parseEntries b = .ok eb) : Follows b := by
  intro c r hcr hc
  rw [parseEntries_eq_iterE] at hb
  have hc1 : c ≠ '\n' := by intro h; rw [h] at hc; cases hc
  have hc2 : c ≠ '\r' := by intro h; rw [h] at hc; cases hc
  have hl : lineEnding (c :: r) = .bt (c :: r) := by
    unfold lineEnding
    split <;> simp_all
  -- the first element of the separator on `b`
  have hsp : ∃ ws s', space1 (c :: r) = .ok ws s' ∧ c :: r = ws ++ s' ∧ ws ≠ [] ∧ (∀ d ∈ ws, isSpace d = true) := by
    refine ⟨(c :: r).takeWhile isSpace, (c :: r).dropWhile isSpace, by simp [space1, takeWhile1, hc],
      (List.takeWhile_append_dropWhile).symm, by simp [hc], fun d hd => mem_takeWhile_true hd⟩
  obtain ⟨ws, s', h1, h2, h3, h4⟩ := hsp
  by_cases he : EolOrEnd s'
  · exact ⟨ws, s', by rw [hcr, h2], h3, h4, he⟩
  · -- otherwise the separator stops at once and the entry parser refuses the blank
    exfalso
    have hle : (lineEnding <|| eof) s' = .bt s' := by
      cases s' with
      | nil => exact absurd (Or.inl rfl) he
      | cons d x =>
        have hd1 : d ≠ '\n' := by intro h; exact he (Or.inr ⟨x, Or.inl (by rw [h])⟩)
        have hd2 : ∀ y, d :: x ≠ '\r' :: '\n' :: y := by intro y h; exact he (Or.inr ⟨y, Or.inr h⟩)
        have : lineEnding (d :: x) = .bt (d :: x) := by
          unfold lineEnding
          split
          · rename_i heq; injection heq with h _; exact absurd h hd1
          · rename_i heq; exact absurd heq (hd2 _)
          · rfl
        simp [alt2, this, eof]
    have hv : vsE (c :: r) = .bt s' := by
      simp only [alt2] at hle
      simp only [vsE, alt2, hl, pair, void, Comb.map, Comb.bind, h1, Res.andThen_ok, hle]
      rfl
    have hvs : verticalSpaces b = .ok () b := by
      rw [verticalSpaces_def, hcr]
      simp [repeat0Loop, hv]
    have hd : parseLedgerEntry (c :: r) = .bt (c :: r) := by
      rw [parseLedgerEntry_cons]
      have h5 : c ≠ 'a' ∧ c ≠ 'c' ∧ c ≠ 'e' ∧ c ≠ 'i' ∧ isCommentPrefix c = false ∧ c.isDigit = false := by
        simp only [isSpace, Bool.or_eq_true, beq_iff_eq] at hc
        rcases hc with rfl | rfl <;> decide
      simp [h5.1, h5.2.1, h5.2.2.1, h5.2.2.2.1, h5.2.2.2.2.1, h5.2.2.2.2.2, Comb.fail]
    rw [hcr] at hb hvs
    simp [iterE, hvs, hd] at hb

/-- the second part does not go on with a comment -/
def NoCommentStart (b : List Char) : Prop := ∀ c r, b = c :: r → isCommentPrefix c = false

/-- the first part ends with a blank line: `… ⏎ blanks ⏎` (one or more such lines) -/
def EndsBlankLine (a : List Char) : Prop := ∃ a' z, a = a' ++ '\n' :: z ∧ z ≠ [] ∧ BlankTail z

/-- **the cut between the ledgers `a` (read as `ea`) and `b` is at an entry boundary**: one of the texts is empty, or `a` ends
with a line feed and — `b` does not start with a comment prefix, or `a` ends with a blank line, or the last entry of `a` is not a
comment.  (That `b` does not start with an indented posting / detail line is part of `b` being a ledger.)  For ledgers `a`, `b`
and a cut after a line feed this is also NECESSARY (`entryBoundary_iff` in `C11TextExact`, for `a` without carriage returns):
otherwise the last comment of `a` and the first of `b` merge. -/
def EntryBoundary (a : List Char) (ea : List Entry) (b : List Char) : Prop :=
  a = [] ∨ b = [] ∨
    ((∃ a', a = a' ++ ['\n']) ∧ (NoCommentStart b ∨ EndsBlankLine a ∨ ∀ s, ea.getLast? ≠ some (.comment s)))

/-- **`parse_ledger` of two ledgers joined at an entry boundary reads the entries of the first followed by the entries of
the second.** -/
theorem parseEntries_append_at {a b : List Char} {ea eb : List Entry} (ha : parseEntries a = .ok ea)
    (hb : parseEntries b = .ok eb) (hcut : EntryBoundary a ea b) : parseEntries (a ++ b) = .ok (ea ++ eb) := by
  have hfol := follows_of_ledger hb
  have main : ∀ C : Ctx, C.t = b → C.Mid a → (C.NoCm ∨ ∀ s, ea.getLast? ≠ some (.comment s)) →
      parseEntries (a ++ b) = .ok (ea ++ eb) := by
    intro C ht hmid hq
    rw [parseEntries_eq_iterE] at ha hb ⊢
    subst ht
    have h := iterE_append C (fun e => C.NoCm ∨ ∀ s, e ≠ .comment s) (fun u e r hu he => entry_ext hu he) _ eb hb _ a [] ea
      (Or.inr hmid) ha (by
        intro e he
        rcases hq with h | h
        · exact Or.inl h
        · right; intro s hs; exact h s (by rw [he, hs]))
    rw [← h]
    exact iterE_fuel safe_parseLedgerEntry safe_verticalSpaces _ _ _ _ (Nat.lt_succ_self _)
      (by simp only [List.length_append]; omega)
  rcases hcut with rfl | rfl | ⟨⟨a', rfl⟩, hc⟩
  · rw [parseEntries_nil] at ha
    cases ha
    simpa using hb
  · rw [parseEntries_nil] at hb
    cases hb
    simpa using ha
  · rcases hc with hc | ⟨a2, z, h1, h2, h3⟩ | hc
    · exact main ⟨[], b, blankTail_nil, Or.inr hfol⟩ rfl ⟨a', rfl⟩ (Or.inl (Or.inr hc))
    · exact main ⟨z, b, h3, Or.inl h2⟩ rfl ⟨a2, h1⟩ (Or.inl (Or.inl h2))
    · exact main ⟨[], b, blankTail_nil, Or.inr hfol⟩ rfl ⟨a', rfl⟩ (Or.inr hc)

/-- the cut between `a` and `b` is at an entry boundary, as far as the characters around it tell (no look at the entries):
one of the texts is empty; or `a` ends with a line feed and `b` does not start with a blank, a tab or a comment prefix;
or `a` ends with an empty line -/
def Boundary (a b : List Char) : Prop :=
  a = [] ∨ b = [] ∨ ((∃ a', a = a' ++ ['\n']) ∧ Cont b) ∨ ∃ a', a = a' ++ ['\n', '\n']

theorem Boundary.entryBoundary {a b : List Char} (h : Boundary a b) (ea : List Entry) : EntryBoundary a ea b := by
  rcases h with h | h | ⟨h1, h2⟩ | ⟨a', h⟩
  · exact Or.inl h
  · exact Or.inr (Or.inl h)
  · exact Or.inr (Or.inr ⟨h1, Or.inl fun c r hb => (h2 c r hb).2⟩)
  · refine Or.inr (Or.inr ⟨⟨a' ++ ['\n'], by simp [h]⟩, Or.inr (Or.inl ⟨a', ['\n'], by simp [h], by simp, ?_⟩)⟩)
    exact ⟨by simp, by simp⟩

/-- the decidable form: the last two characters of `a`, the first of `b` -/
def boundaryB (a b : List Char) : Bool :=
  a.isEmpty || b.isEmpty ||
  (a.getLast? == some '\n' &&
    (match b.head? with
     | some c => !isSpace c && !isCommentPrefix c
     | none => true)) ||
  (a.getLast? == some '\n' && a.dropLast.getLast? == some '\n')

theorem getLast?_eq_some_iff' {a : List Char} {c : Char} : a.getLast? = some c ↔ ∃ a', a = a' ++ [c] :=
  List.getLast?_eq_some_iff

theorem boundary_of_boundaryB {a b : List Char} (h : boundaryB a b = true) : Boundary a b := by
  simp only [boundaryB, Bool.or_eq_true, Bool.and_eq_true, beq_iff_eq, List.isEmpty_iff] at h
  rcases h with ((h | h) | ⟨h1, h2⟩) | ⟨h1, h2⟩
  · exact Or.inl h
  · exact Or.inr (Or.inl h)
  · refine Or.inr (Or.inr (Or.inl ⟨getLast?_eq_some_iff'.1 h1, ?_⟩))
    intro c r hb
    rw [hb] at h2
    simpa using h2
  · obtain ⟨a1, rfl⟩ := getLast?_eq_some_iff'.1 h1
    rw [List.dropLast_concat] at h2
    obtain ⟨a2, rfl⟩ := getLast?_eq_some_iff'.1 h2
    exact Or.inr (Or.inr (Or.inr ⟨a2, by simp⟩))

/-- the same with the boundary condition that looks at the characters around the cut only -/
theorem parseEntries_append {a b : List Char} {ea eb : List Entry} (ha : parseEntries a = .ok ea)
    (hb : parseEntries b = .ok eb) (hcut : Boundary a b) : parseEntries (a ++ b) = .ok (ea ++ eb) :=
  parseEntries_append_at ha hb (hcut.entryBoundary ea)

/-- three parts -/
theorem parseEntries_append3_at {a b c : List Char} {ea eb ec : List Entry} (ha : parseEntries a = .ok ea)
    (hb : parseEntries b = .ok eb) (hc : parseEntries c = .ok ec) (hab : EntryBoundary a ea (b ++ c))
    (hbc : EntryBoundary b eb c) : parseEntries (a ++ b ++ c) = .ok (ea ++ eb ++ ec) := by
  rw [List.append_assoc, List.append_assoc]
  exact parseEntries_append_at ha (parseEntries_append_at hb hc hbc) hab

theorem parseEntries_append3 {a b c : List Char} {ea eb ec : List Entry} (ha : parseEntries a = .ok ea)
    (hb : parseEntries b = .ok eb) (hc : parseEntries c = .ok ec) (hab : Boundary a (b ++ c)) (hbc : Boundary b c) :
    parseEntries (a ++ b ++ c) = .ok (ea ++ eb ++ ec) := by
  rw [List.append_assoc, List.append_assoc]
  exact parseEntries_append ha (parseEntries_append hb hc hbc) hab

/-- the text is empty or ends with an empty line: a `Boundary` whatever follows -/
def EndsBlank (x : List Char) : Prop := x = [] ∨ ∃ x', x = x' ++ ['\n', '\n']

theorem EndsBlank.boundary {a : List Char} (h : EndsBlank a) (b : List Char) : Boundary a b := by
  rcases h with h | h
  · exact Or.inl h
  · exact Or.inr (Or.inr (Or.inr h))

theorem EndsBlank.append {a b : List Char} (ha : EndsBlank a) (hb : EndsBlank b) : EndsBlank (a ++ b) := by
  rcases hb with rfl | ⟨b', rfl⟩
  · simpa using ha
  · exact Or.inr ⟨a ++ b', by simp⟩

/-- any number of ledgers, each ending with an empty line, written one after the other -/
theorem parseEntries_flatten : ∀ (tes : List (List Char × List Entry)),
    (∀ te ∈ tes, parseEntries te.1 = .ok te.2 ∧ EndsBlank te.1) →
      parseEntries (tes.map (·.1)).flatten = .ok (tes.map (·.2)).flatten := by
  intro tes
  induction tes with
  | nil => intro _; exact parseEntries_nil
  | cons te tes ih =>
    intro h
    simp only [List.map_cons, List.flatten_cons]
    have h1 := h te (by simp)
    exact parseEntries_append h1.1 (ih fun x hx => h x (List.mem_cons_of_mem _ hx)) (h1.2.boundary _)

/-! ## the boundary condition is needed -/

/-- number of entries `parse_ledger` reads (decidable observation of `parseEntries`: `Entry` has no decidable equality) -/
def entryCount (t : List Char) : Outcome ParseErr Nat := (parseEntries t).map' List.length

theorem entryCount_of_ok {t : List Char} {es : List Entry} (h : parseEntries t = .ok es) : entryCount t = .ok es.length := by
  simp [entryCount, h, Outcome.map']

theorem ok_of_entryCount {t : List Char} {n : Nat} (h : entryCount t = .ok n) : ∃ es, parseEntries t = .ok es ∧ es.length = n := by
  unfold entryCount at h
  cases hp : parseEntries t with
  | ok es => rw [hp] at h; simp only [Outcome.map', Outcome.ok.injEq] at h; exact ⟨es, rfl, h⟩
  | err e => rw [hp] at h; cases h
  | panic s => rw [hp] at h; cases h
  | fuelOut => rw [hp] at h; cases h

/-- the statement without any condition on the cut -/
def parseEntries_append_anywhere_stmt : Prop :=
  ∀ (a b : List Char) (ea eb : List Entry), parseEntries a = .ok ea → parseEntries b = .ok eb →
    parseEntries (a ++ b) = .ok (ea ++ eb)

/-- the statement for cuts after a line end, whatever the next line starts with -/
def parseEntries_append_afterLine_stmt : Prop :=
  ∀ (a b : List Char) (ea eb : List Entry), parseEntries a = .ok ea → parseEntries b = .ok eb → (∃ a', a = a' ++ ['\n']) →
    parseEntries (a ++ b) = .ok (ea ++ eb)

theorem refute_of_counts {a b : List Char} {n m k : Nat} (ha : entryCount a = .ok n) (hb : entryCount b = .ok m)
    (hab : entryCount (a ++ b) = .ok k) (hne : k ≠ n + m) :
    ¬ ∃ ea eb, parseEntries a = .ok ea ∧ parseEntries b = .ok eb ∧ parseEntries (a ++ b) = .ok (ea ++ eb) := by
  rintro ⟨ea, eb, h1, h2, h3⟩
  rw [entryCount_of_ok h1] at ha
  rw [entryCount_of_ok h2] at hb
  rw [entryCount_of_ok h3] at hab
  simp only [Outcome.ok.injEq, List.length_append] at ha hb hab
  omega

/-- **a cut in the middle of a line is not an entry boundary**: `include x` ++ `include y⏎` is ONE `include xinclude y` -/
theorem boundary_needed_lineEnd : ¬ parseEntries_append_anywhere_stmt := by
  intro h
  have ha : entryCount "include x".toList = .ok 1 := by decide +kernel
  have hb : entryCount "include y\n".toList = .ok 1 := by decide +kernel
  have hab : entryCount ("include x".toList ++ "include y\n".toList) = .ok 1 := by decide +kernel
  obtain ⟨ea, h1, _⟩ := ok_of_entryCount ha
  obtain ⟨eb, h2, _⟩ := ok_of_entryCount hb
  exact refute_of_counts ha hb hab (by decide) ⟨ea, eb, h1, h2, h _ _ _ _ h1 h2⟩

/-- **comments merge across the cut**: `; x⏎` ++ `; y⏎` is ONE comment entry (`multiline_text` is greedy), although the cut
is after a line end -/
theorem boundary_needed_comment : ¬ parseEntries_append_afterLine_stmt := by
  intro h
  have ha : entryCount "; x\n".toList = .ok 1 := by decide +kernel
  have hb : entryCount "; y\n".toList = .ok 1 := by decide +kernel
  have hab : entryCount ("; x\n".toList ++ "; y\n".toList) = .ok 1 := by decide +kernel
  obtain ⟨ea, h1, _⟩ := ok_of_entryCount ha
  obtain ⟨eb, h2, _⟩ := ok_of_entryCount hb
  exact refute_of_counts ha hb hab (by decide) ⟨ea, eb, h1, h2, h _ _ _ _ h1 h2 ⟨"; x".toList, by decide⟩⟩

/-- with an empty line in between the two comments stay two entries: what `parseEntries_append` says -/
example : entryCount ("; x\n\n".toList ++ "; y\n".toList) = .ok 2 := by decide +kernel

/-- number of postings of the transactions read -/
def postingCounts (t : List Char) : Outcome ParseErr (List Nat) :=
  (parseEntries t).map' fun es => es.filterMap fun e => match e with
    | .txn x => some x.posts.length
    | _ => none

/-- **a cut in front of a posting**: the indented line is not a ledger of its own (so `parseEntries_append` does not speak about
it), and after the first part it is read as one more posting of the last transaction -/
theorem cut_before_posting :
    (parseEntries " B  -1\n".toList).isOk = false ∧
    postingCounts "2024/01/01 p\n A  1\n".toList = .ok [1] ∧
    postingCounts ("2024/01/01 p\n A  1\n".toList ++ " B  -1\n".toList) = .ok [2] := by decide +kernel

/-- the same for the detail lines of a declaration -/
example : entryCount "account A\n".toList = .ok 1 ∧ (parseEntries " alias B\n".toList).isOk = false ∧
    entryCount ("account A\n".toList ++ " alias B\n".toList) = .ok 1 := by decide +kernel

/-! ## non-vacuity -/

private def exA : List Char := "2024/01/01 shop\n Expenses:Food  10 USD\n Assets:Cash\n; note\n".toList
private def exB : List Char := "account Assets:Cash\n alias Cash\n\n2024/01/02 * (7) bank ; memo\n A  -1 @ 2 EUR\n B\n".toList

/-- both texts are ledgers, the cut is a `Boundary` (line end, then a letter), and the joined text reads 2 + 2 entries -/
example : ∃ ea eb, parseEntries exA = .ok ea ∧ parseEntries exB = .ok eb ∧ Boundary exA exB ∧
    parseEntries (exA ++ exB) = .ok (ea ++ eb) ∧ ea.length = 2 ∧ eb.length = 2 := by
  have ha : entryCount exA = .ok 2 := by decide +kernel
  have hb : entryCount exB = .ok 2 := by decide +kernel
  obtain ⟨ea, h1, l1⟩ := ok_of_entryCount ha
  obtain ⟨eb, h2, l2⟩ := ok_of_entryCount hb
  have hcut : Boundary exA exB := boundary_of_boundaryB (by decide +kernel)
  exact ⟨ea, eb, h1, h2, hcut, parseEntries_append h1 h2 hcut, l1, l2⟩

/-- the finer condition `EntryBoundary`: a comment may follow a transaction at once (the last entry of the first part is not a
comment), and the second part may start with a blank line that holds blanks; the joined text reads 1 + 2 entries -/
example : ∃ ea eb, parseEntries "2024/01/01 p\n A  1\n B\n".toList = .ok ea ∧
    parseEntries "  \t\n; c\n2024/01/02 q\n".toList = .ok eb ∧
    ¬ Boundary "2024/01/01 p\n A  1\n B\n".toList "  \t\n; c\n2024/01/02 q\n".toList ∧
    EntryBoundary "2024/01/01 p\n A  1\n B\n".toList ea "  \t\n; c\n2024/01/02 q\n".toList ∧
    parseEntries ("2024/01/01 p\n A  1\n B\n".toList ++ "  \t\n; c\n2024/01/02 q\n".toList) = .ok (ea ++ eb) ∧
    ea.length = 1 ∧ eb.length = 2 := by
  have ha : postingCounts "2024/01/01 p\n A  1\n B\n".toList = .ok [2] := by decide +kernel
  have ha' : entryCount "2024/01/01 p\n A  1\n B\n".toList = .ok 1 := by decide +kernel
  have hb : entryCount "  \t\n; c\n2024/01/02 q\n".toList = .ok 2 := by decide +kernel
  obtain ⟨ea, h1, l1⟩ := ok_of_entryCount ha'
  obtain ⟨eb, h2, l2⟩ := ok_of_entryCount hb
  have hlast : ∀ s, ea.getLast? ≠ some (.comment s) := by
    intro s hs
    simp only [postingCounts, h1, Outcome.map', Outcome.ok.injEq] at ha
    match ea, l1, hs, ha with
    | [e], _, hs, ha =>
      simp only [List.getLast?_singleton, Option.some.injEq] at hs
      subst hs
      simp at ha
  have hcut : EntryBoundary "2024/01/01 p\n A  1\n B\n".toList ea "  \t\n; c\n2024/01/02 q\n".toList :=
    Or.inr (Or.inr ⟨⟨"2024/01/01 p\n A  1\n B".toList, by decide⟩, Or.inr (Or.inr hlast)⟩)
  refine ⟨ea, eb, h1, h2, ?_, hcut, parseEntries_append_at h1 h2 hcut, l1, l2⟩
  intro hB
  rcases hB with h | h | ⟨_, h⟩ | ⟨a', h⟩
  · exact absurd h (by decide)
  · exact absurd h (by decide)
  · exact absurd (h ' ' _ rfl).1 (by decide)
  · have h' : ("2024/01/01 p\n A  1\n B\n".toList).dropLast.getLast? = some '\n' := by
      rw [h, List.dropLast_append_of_ne_nil (by simp)]
      simp
    exact absurd h' (by decide +kernel)

/-- a first part that ends with an empty line may be followed by a comment or by an indented blank line -/
example : Boundary "; x\n\n".toList "; y\n".toList ∧ Boundary "; x\n\n".toList "  \n; y\n".toList :=
  ⟨boundary_of_boundaryB (by decide +kernel), boundary_of_boundaryB (by decide +kernel)⟩

end Okane.Parse
