import Okane.Lemmas.C13CmdQuery
/-!
# C13, command level (5): re-layouts between postings

`processScr` re-lays the accumulator out between ledger entries.  Inside `add_transaction` the running residual
(`balance`), the account balances and the intern stores are hash maps too, and they are modified posting by posting.
`processScr2 π ρ` additionally replaces the context and the loop state by `ρ i j` of them after posting `j` of entry
`i`.  The outcome — and so the text of every command — does not depend on `π` or `ρ`; in particular the residual
printed in `unbalanced postings: …` and the amounts of a failed balance assertion come out in the same text although
their maps are laid out differently.
-/
set_option linter.unusedSectionVars false
set_option linter.unusedSimpArgs false
namespace Okane.C13
open Okane

abbrev LoopSt := Ctx × TxnState String String

theorem TxnStEq.symm {α κ : Type} [DecidableEq α] [DecidableEq κ] {st st' : TxnState α κ} (h : TxnStEq st st') :
    TxnStEq st' st :=
  ⟨PostsEq.symm h.postings, h.unfilled.symm, h.balance.symm, h.bal.symm, h.events.symm, h.deltas.symm⟩

theorem TxnStEq.trans {α κ : Type} [DecidableEq α] [DecidableEq κ] {a b c : TxnState α κ} (h1 : TxnStEq a b)
    (h2 : TxnStEq b c) : TxnStEq a c :=
  ⟨PostsEq.trans h1.postings h2.postings, h1.unfilled.trans h2.unfilled, h1.balance.trans h2.balance,
    h1.bal.trans h2.bal, h1.events.trans h2.events, h1.deltas.trans h2.deltas⟩

theorem CtxSt.symm {p p' : LoopSt} (h : CtxSt p p') : CtxSt p' p := ⟨h.1.symm, h.2.symm⟩
theorem CtxSt.trans {a b c : LoopSt} (h1 : CtxSt a b) (h2 : CtxSt b c) : CtxSt a c := ⟨h1.1.trans h2.1, h1.2.trans h2.2⟩

/-- the posting loop with a re-layout of the context and the loop state after every posting. -/
def loopSyntaxScr (ρ : Nat → LoopSt → LoopSt) (date : Date) :
    Ctx → TxnState String String → Nat → List Posting → Outcome BkErrS LoopSt
  | c, st, _, [] => .ok (c, st)
  | c, st, idx, p :: ps =>
    match resolvePosting c p with
    | .ok (rp, c') =>
      match stepPosting date st idx rp with
      | .ok st' => loopSyntaxScr ρ date (ρ idx (c', st')).1 (ρ idx (c', st')).2 (idx + 1) ps
      | .err e => .err e
      | .panic s => .panic s
      | .fuelOut => .fuelOut
    | .err e => .err e
    | .panic s => .panic s
    | .fuelOut => .fuelOut

def addTransactionSyntaxScr (ρ : Nat → LoopSt → LoopSt) (c : Ctx) (bal : Balance String String) (t : Transaction) :
    Outcome BkErrS (Ctx × TxnResult String String) :=
  match loopSyntaxScr ρ t.date c ⟨[], none, [], bal, [], []⟩ 0 t.posts with
  | .ok (c', st) =>
    match finishTxn c'.prec t.date st with
    | .ok r => .ok (c', r)
    | .err e => .err e
    | .panic s => .panic s
    | .fuelOut => .fuelOut
  | .err e => .err e
  | .panic s => .panic s
  | .fuelOut => .fuelOut

def stepEntryScr (ρ : Nat → LoopSt → LoopSt) (st : ProcState) : Entry → Outcome BkErrS ProcState
  | .txn t =>
    match addTransactionSyntaxScr ρ st.ctx st.bal t with
    | .ok (c', r) => .ok { ctx := c', bal := r.bal, txns := st.txns ++ [r.txn], events := st.events ++ r.events }
    | .err e => .err e
    | .panic s => .panic s
    | .fuelOut => .fuelOut
  | e => stepEntry st e

/-- `process` with re-layouts after every entry (`π i`) and after every posting (`ρ i j`). -/
def processScr2 (π : Nat → ProcState → ProcState) (ρ : Nat → Nat → LoopSt → LoopSt) :
    ProcState → Nat → List Entry → Outcome (Nat × BkErrS) ProcState
  | st, _, [] => .ok st
  | st, i, e :: es =>
    match stepEntryScr (ρ i) st e with
    | .ok st' => processScr2 π ρ (π i st') (i + 1) es
    | .err x => .err (i, x)
    | .panic s => .panic s
    | .fuelOut => .fuelOut

/-- `ρ` only re-orders the maps of the context and the loop state. -/
def Relayout2 (ρ : Nat → LoopSt → LoopSt) : Prop := ∀ j p, CtxSt p p → CtxSt p (ρ j p)

theorem relayout2_id : Relayout2 (fun _ p => p) := fun _ _ h => h

theorem loopSyntaxScr_id (date : Date) (ps : List Posting) (c : Ctx) (st : TxnState String String) (idx : Nat) :
    loopSyntaxScr (fun _ p => p) date c st idx ps = loopSyntax date c st idx ps := by
  induction ps generalizing c st idx with
  | nil => rfl
  | cons p ps ih =>
    simp only [loopSyntaxScr, loopSyntax]
    cases resolvePosting c p with
    | ok a =>
      obtain ⟨rp, c'⟩ := a
      simp only []
      cases stepPosting date st idx rp <;> simp only [ih]
    | err e => rfl
    | panic s => rfl
    | fuelOut => rfl

theorem loopSyntaxScr_meq {ρ₁ ρ₂ : Nat → LoopSt → LoopSt} (h1 : Relayout2 ρ₁) (h2 : Relayout2 ρ₂) (date : Date)
    (ps : List Posting) : ∀ {c c' : Ctx} {st st' : TxnState String String}, CtxEq c c' → TxnStEq st st' → ∀ (idx : Nat),
    ORel ErrEq CtxSt (loopSyntaxScr ρ₁ date c st idx ps) (loopSyntaxScr ρ₂ date c' st' idx ps) := by
  induction ps with
  | nil => intro c c' st st' hc hs idx; exact ⟨hc, hs⟩
  | cons p ps ih =>
    intro c c' st st' hc hs idx
    have e1 := resolvePosting_meq hc p
    simp only [loopSyntaxScr]
    orel_cases e1, resolvePosting c p, resolvePosting c' p
    · rename_i a b
      obtain ⟨rp, c1⟩ := a
      obtain ⟨rp', c1'⟩ := b
      obtain ⟨e3, e4⟩ := e1
      simp only at e3 e4; subst e3
      have e2 := stepPosting_meq date hs idx rp
      simp only []
      orel_cases e2, stepPosting date st idx rp, stepPosting date st' idx rp
      · rename_i s1 s1'
        have hrel : CtxSt (c1, s1) (c1', s1') := ⟨e4, e2⟩
        have hl : CtxSt (c1, s1) (c1, s1) := hrel.trans hrel.symm
        have hr : CtxSt (c1', s1') (c1', s1') := hrel.symm.trans hrel
        have := ((h1 idx _ hl).symm.trans hrel).trans (h2 idx _ hr)
        exact ih this.1 this.2 (idx + 1)
      all_goals orel_done e2
    all_goals orel_done e1

theorem addTransactionSyntaxScr_meq {ρ₁ ρ₂ : Nat → LoopSt → LoopSt} (h1 : Relayout2 ρ₁) (h2 : Relayout2 ρ₂)
    {c c' : Ctx} (hc : CtxEq c c') {bal bal' : Balance String String} (hb : bal ≈ᵦ bal') (t : Transaction) :
    ORel ErrEq CtxRes (addTransactionSyntaxScr ρ₁ c bal t) (addTransactionSyntaxScr ρ₂ c' bal' t) := by
  have e1 := loopSyntaxScr_meq h1 h2 t.date t.posts hc (TxnStEq.init hb) 0
  simp only [addTransactionSyntaxScr]
  orel_cases e1, loopSyntaxScr ρ₁ t.date c ⟨[], none, [], bal, [], []⟩ 0 t.posts,
    loopSyntaxScr ρ₂ t.date c' ⟨[], none, [], bal', [], []⟩ 0 t.posts
  · rename_i a b
    obtain ⟨c1, st⟩ := a
    obtain ⟨c1', st'⟩ := b
    obtain ⟨e3, e4⟩ := e1
    simp only at e3 e4
    have e2 := finishK_meq c1.prec t.date e4
    simp only [finishTxn_eq_finishK, ← e3.prec]
    orel_cases e2, finishK c1.prec t.date st, finishK c1.prec t.date st'
    · exact ⟨e3, e2⟩
    all_goals orel_done e2
  all_goals orel_done e1

theorem stepEntryScr_meq {ρ₁ ρ₂ : Nat → LoopSt → LoopSt} (h1 : Relayout2 ρ₁) (h2 : Relayout2 ρ₂)
    {st st' : ProcState} (h : st ≈ₚ st') (e : Entry) :
    ORel ErrEq ProcEq (stepEntryScr ρ₁ st e) (stepEntryScr ρ₂ st' e) := by
  cases e with
  | txn t =>
    have e1 := addTransactionSyntaxScr_meq h1 h2 h.ctx h.bal t
    simp only [stepEntryScr]
    orel_cases e1, addTransactionSyntaxScr ρ₁ st.ctx st.bal t, addTransactionSyntaxScr ρ₂ st'.ctx st'.bal t
    · rename_i a b
      obtain ⟨c1, r⟩ := a
      obtain ⟨c1', r'⟩ := b
      obtain ⟨e3, e4⟩ := e1
      exact ⟨e3, e4.bal, h.txns.append (.cons ⟨e4.date, e4.postings⟩ .nil), h.events.append e4.events⟩
    all_goals orel_done e1
  | account name details => simp only [stepEntryScr]; exact stepEntry_meq h _
  | commodity name details => simp only [stepEntryScr]; exact stepEntry_meq h _
  | comment s => exact h
  | applyTag k v => exact h
  | endApplyTag => exact h
  | «include» p => exact h

/-- **`process` does not depend on the layout history at entry or at posting granularity.** -/
theorem processScr2_meq {π₁ π₂ : Nat → ProcState → ProcState} {ρ₁ ρ₂ : Nat → Nat → LoopSt → LoopSt}
    (h1 : Relayout π₁) (h2 : Relayout π₂) (g1 : ∀ i, Relayout2 (ρ₁ i)) (g2 : ∀ i, Relayout2 (ρ₂ i)) (es : List Entry) :
    ∀ {st st' : ProcState}, st ≈ₚ st' → ∀ (i : Nat),
    ORel PErrEq ProcEq (processScr2 π₁ ρ₁ st i es) (processScr2 π₂ ρ₂ st' i es) := by
  induction es with
  | nil => intro st st' h i; exact h
  | cons e es ih =>
    intro st st' h i
    have hs := stepEntryScr_meq (g1 i) (g2 i) h e
    simp only [processScr2]
    orel_cases hs, stepEntryScr (ρ₁ i) st e, stepEntryScr (ρ₂ i) st' e
    · rename_i a b
      exact ih (((h1 i a hs.left).symm.trans hs).trans (h2 i b hs.right)) (i + 1)
    · exact False.elim hs
    · exact False.elim hs
    · exact False.elim hs
    · exact False.elim hs
    · exact ⟨rfl, hs⟩
    all_goals orel_done hs

/-! ## a non-trivial posting-level re-layout -/

/-- the intern stores, the formats, the running residual and the balance in the opposite iteration order. -/
def relayoutRev2 (p : LoopSt) : LoopSt :=
  (⟨⟨p.1.accounts.recs.reverse⟩, ⟨p.1.commodities.recs.reverse⟩, p.1.formatting.reverse⟩,
   { p.2 with balance := p.2.balance.reverse, bal := (p.2.bal.map fun kv => (kv.1, kv.2.reverse)).reverse })

theorem relayout2_rev : Relayout2 (fun _ p => relayoutRev2 p) := by
  intro _ p h
  exact ⟨⟨MEq.reverse h.1.accounts, MEq.reverse h.1.commodities, MEq.reverse h.1.formatting⟩,
    ⟨h.2.postings, rfl, MEq.reverse h.2.balance, NEq.reverse h.2.bal, rfl, rfl⟩⟩

/-! ## the commands on the fine-grained model -/
section Cmd
variable {leA leK : String → String → Bool}

/-- **every command whose output is a function of how book-keeping ended that identifies related endings prints the
same whatever the layout histories** (`f` is `cmdText …`, `balanceXOut …`, `evalOut …`). -/
theorem cmd_det2 {β : Type} (f : Outcome (Nat × BkErrS) ProcState → β)
    (hf : ∀ x y, ORel PErrEq ProcEq x y → f x = f y)
    {π₁ π₂ : Nat → ProcState → ProcState} {ρ₁ ρ₂ : Nat → Nat → LoopSt → LoopSt}
    (h1 : Relayout π₁) (h2 : Relayout π₂) (g1 : ∀ i, Relayout2 (ρ₁ i)) (g2 : ∀ i, Relayout2 (ρ₂ i)) (es : List Entry) :
    f (processScr2 π₁ ρ₁ {} 0 es) = f (processScr2 π₂ ρ₂ {} 0 es) :=
  hf _ _ (processScr2_meq h1 h2 g1 g2 es ProcEq.init 0)

theorem balanceCmd_det2 (hoA : KeyOrder leA) (hoK : KeyOrder leK) (showAcct : String → String)
    (showEntry : String → Rat → String) (r : DateRange)
    {π₁ π₂ : Nat → ProcState → ProcState} {ρ₁ ρ₂ : Nat → Nat → LoopSt → LoopSt}
    (h1 : Relayout π₁) (h2 : Relayout π₂) (g1 : ∀ i, Relayout2 (ρ₁ i)) (g2 : ∀ i, Relayout2 (ρ₂ i)) (es : List Entry) :
    cmdText (bkErrText leK showEntry) (balanceLines leA leK showAcct showEntry r) (processScr2 π₁ ρ₁ {} 0 es) =
      cmdText (bkErrText leK showEntry) (balanceLines leA leK showAcct showEntry r) (processScr2 π₂ ρ₂ {} 0 es) :=
  cmd_det2 _ (fun _ _ h => cmdText_eq (fun _ _ he => he.text hoK showEntry)
    (fun _ _ hs => balanceLines_meq hoA hoK showAcct showEntry r hs) h) h1 h2 g1 g2 es

theorem accountsCmd_det2 (hoA : KeyOrder leA) (hoK : KeyOrder leK) (showEntry : String → Rat → String)
    {π₁ π₂ : Nat → ProcState → ProcState} {ρ₁ ρ₂ : Nat → Nat → LoopSt → LoopSt}
    (h1 : Relayout π₁) (h2 : Relayout π₂) (g1 : ∀ i, Relayout2 (ρ₁ i)) (g2 : ∀ i, Relayout2 (ρ₂ i)) (es : List Entry) :
    cmdText (bkErrText leK showEntry) (accountsLines leA) (processScr2 π₁ ρ₁ {} 0 es) =
      cmdText (bkErrText leK showEntry) (accountsLines leA) (processScr2 π₂ ρ₂ {} 0 es) :=
  cmd_det2 _ (fun _ _ h => cmdText_eq (fun _ _ he => he.text hoK showEntry)
    (fun _ _ hs => accountsLines_meq hoA hs) h) h1 h2 g1 g2 es

theorem registerCmd_det2 (hoK : KeyOrder leK) (showAcct : String → String) (showEntry : String → Rat → String)
    (acct : Option String)
    {π₁ π₂ : Nat → ProcState → ProcState} {ρ₁ ρ₂ : Nat → Nat → LoopSt → LoopSt}
    (h1 : Relayout π₁) (h2 : Relayout π₂) (g1 : ∀ i, Relayout2 (ρ₁ i)) (g2 : ∀ i, Relayout2 (ρ₂ i)) (es : List Entry) :
    cmdText (bkErrText leK showEntry) (registerLines leK showAcct showEntry acct) (processScr2 π₁ ρ₁ {} 0 es) =
      cmdText (bkErrText leK showEntry) (registerLines leK showAcct showEntry acct) (processScr2 π₂ ρ₂ {} 0 es) :=
  cmd_det2 _ (fun _ _ h => cmdText_eq (fun _ _ he => he.text hoK showEntry)
    (fun _ _ hs => registerLines_meq hoK showAcct showEntry acct hs) h) h1 h2 g1 g2 es

theorem balanceXCmd_det2 {cfg : Price.Cfg String} (hord : OrdOK cfg.ord) (hoA : KeyOrder leA) (hoK : KeyOrder leK)
    (showAcct : String → String) (showEntry : String → Rat → String) (db : List (PriceEvent String)) (o : BalOpts)
    {π₁ π₂ : Nat → ProcState → ProcState} {ρ₁ ρ₂ : Nat → Nat → LoopSt → LoopSt}
    (h1 : Relayout π₁) (h2 : Relayout π₂) (g1 : ∀ i, Relayout2 (ρ₁ i)) (g2 : ∀ i, Relayout2 (ρ₂ i)) (es : List Entry) :
    balanceXOut cfg leA leK showAcct showEntry db o (processScr2 π₁ ρ₁ {} 0 es) =
      balanceXOut cfg leA leK showAcct showEntry db o (processScr2 π₂ ρ₂ {} 0 es) :=
  cmd_det2 _ (fun _ _ h => balanceXOut_eq hord hoA hoK showAcct showEntry db o h) h1 h2 g1 g2 es

theorem evalCmd_det2 {cfg : Price.Cfg String} (hord : OrdOK cfg.ord) (hoA : KeyOrder leA) (hoK : KeyOrder leK)
    (showEntry : String → Rat → String) (db : List (PriceEvent String)) (expr : VExpr) (date : Date)
    (exchange : Option String)
    {π₁ π₂ : Nat → ProcState → ProcState} {ρ₁ ρ₂ : Nat → Nat → LoopSt → LoopSt}
    (h1 : Relayout π₁) (h2 : Relayout π₂) (g1 : ∀ i, Relayout2 (ρ₁ i)) (g2 : ∀ i, Relayout2 (ρ₂ i)) (es : List Entry) :
    evalOut cfg leA leK showEntry db expr date exchange (processScr2 π₁ ρ₁ {} 0 es) =
      evalOut cfg leA leK showEntry db expr date exchange (processScr2 π₂ ρ₂ {} 0 es) :=
  cmd_det2 _ (fun _ _ h => evalOut_eq hord hoA hoK showEntry db expr date exchange h) h1 h2 g1 g2 es

end Cmd

end Okane.C13
