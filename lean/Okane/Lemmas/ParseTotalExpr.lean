import Okane.Model.ExprSyntax
/-!
# Totality of the value-expression parser (C06): the fuel `parseFuel` always suffices

`PRes.Good k i res`: `res` is not `fuelOut`; on success the rest is a suffix of `i` at least `k` characters
shorter; a failure position is a suffix of `i`.

`expr_good`: by induction on the fuel, for the six mutually recursive functions of `Okane.ExprSyntax`, with the
fuel each of them needs as a function of the input length `n`:
`valueExpr` `5n+1`, `unaryExpr` `5n+2`, `mulExpr` `5n+3`, `addExpr` `5n+4`, the two fold loops `5n+1`
(a parenthesis level costs 5 units of fuel and consumes `(`; a fold iteration costs 1 and consumes its operator).
`parseFuel inp = 5n+10` is above all of them.
-/
namespace Okane.ExprSyntax
open Okane Okane.Literal

variable {α : Type}

/-- well-behaved result on input `i` -/
def PRes.Good (k : Nat) (i : List Char) : PRes α → Prop
  | .ok _ r => r <:+ i ∧ r.length + k ≤ i.length
  | .fail p => p <:+ i
  | .fuelOut => False

@[simp] theorem PRes.good_ok {k : Nat} {i r : List Char} {a : α} :
    (PRes.ok a r).Good k i ↔ (r <:+ i ∧ r.length + k ≤ i.length) := Iff.rfl
@[simp] theorem PRes.good_fail {k : Nat} {i p : List Char} : (PRes.fail p : PRes α).Good k i ↔ p <:+ i := Iff.rfl
@[simp] theorem PRes.good_fuelOut {k : Nat} {i : List Char} : (PRes.fuelOut : PRes α).Good k i ↔ False := Iff.rfl

theorem skipSpaces_suffix (i : List Char) : skipSpaces i <:+ i := List.dropWhile_suffix _
theorem skipSpaces_length (i : List Char) : (skipSpaces i).length ≤ i.length := (skipSpaces_suffix i).length_le

theorem dropWhile_lt_of_takeWhile {p : Char → Bool} {l : List Char} (h : (l.takeWhile p).isEmpty = false) :
    (l.dropWhile p).length + 1 ≤ l.length := by
  cases l with
  | nil => simp at h
  | cons c r =>
    by_cases hc : p c = true
    · have := (List.dropWhile_suffix p (l := r)).length_le
      simp [hc]; omega
    · simp [hc] at h

/-- `tokenSplit` in terms of the text after the optional sign -/
theorem tokenSplit_eq (inp : List Char) : ∃ sign body, body <:+ inp ∧
    tokenSplit inp = if (body.takeWhile isNumChar).isEmpty then .error body
      else .ok (sign ++ body.takeWhile isNumChar, body.dropWhile isNumChar) := by
  by_cases h : ∃ r, inp = '-' :: r
  · obtain ⟨r, rfl⟩ := h
    exact ⟨['-'], r, List.suffix_cons _ _, by simp [tokenSplit]⟩
  · refine ⟨[], inp, List.suffix_refl _, ?_⟩
    unfold tokenSplit
    split
    rename_i sign body heq
    split at heq
    · exact absurd ⟨_, rfl⟩ h
    · injection heq with h1 h2
      subst h1; subst h2
      simp

/-- the number token is not empty, and what follows it is a suffix of the input -/
theorem tokenSplit_ok {inp tok rest : List Char} (h : tokenSplit inp = .ok (tok, rest)) :
    rest <:+ inp ∧ rest.length + 1 ≤ inp.length := by
  obtain ⟨sign, body, hs, he⟩ := tokenSplit_eq inp
  rw [he] at h
  split at h
  · cases h
  · rename_i hne
    injection h with h
    injection h with h1 h2
    subst h2
    have h3 := dropWhile_lt_of_takeWhile (by simpa using hne)
    have := hs.length_le
    exact ⟨(List.dropWhile_suffix _).trans hs, by omega⟩

theorem tokenSplit_error {inp pos : List Char} (h : tokenSplit inp = .error pos) : pos <:+ inp := by
  obtain ⟨sign, body, hs, he⟩ := tokenSplit_eq inp
  rw [he] at h
  split at h
  · injection h with h; subst h; exact hs
  · cases h

theorem prettyDecimal_good (inp : List Char) : (prettyDecimal inp).Good 1 inp := by
  unfold prettyDecimal
  split
  · rename_i pos h; exact tokenSplit_error h
  · rename_i tok rest h
    split
    · exact tokenSplit_ok h
    · exact List.suffix_refl _

theorem commodity_suffix (i : List Char) : (commodity i).2 <:+ i := List.dropWhile_suffix _

theorem amount_good (inp : List Char) : (amount inp).Good 1 inp := by
  have h := prettyDecimal_good inp
  unfold amount
  split
  · rename_i d rest he
    rw [he] at h
    obtain ⟨h1, h2⟩ := h
    have h3 := commodity_suffix (skipSpaces rest)
    have h4 := skipSpaces_suffix rest
    have h5 := h3.length_le
    have h6 := h4.length_le
    exact ⟨h3.trans (h4.trans h1), by simp only [commodity] at h5 ⊢; omega⟩
  · rename_i pos he; rw [he] at h; exact h
  · rename_i he; rw [he] at h; exact h

theorem sepOp_some {op : Char → Option BinOp} {inp r : List Char} {o : BinOp} (h : sepOp op inp = some (o, r)) :
    r <:+ inp ∧ r.length + 1 ≤ inp.length := by
  unfold sepOp at h
  split at h
  · rename_i c r' he
    cases hop : op c with
    | none => simp [hop] at h
    | some o' =>
      simp [hop] at h
      obtain ⟨_, h2⟩ := h
      subst h2
      have h1 := skipSpaces_suffix inp
      have h3 := skipSpaces_suffix r'
      rw [he] at h1
      have := h1.length_le
      have := h3.length_le
      exact ⟨h3.trans ((List.suffix_cons c r').trans h1), by simp at *; omega⟩
  · cases h

/-- result lifting: good on a suffix `r` of `i` that is `m` shorter -/
theorem PRes.Good.lift {k m n : Nat} {i r : List Char} {res : PRes α} (h : res.Good k r) (hs : r <:+ i)
    (hl : r.length + m ≤ i.length) (hn : n ≤ m + k) : res.Good n i := by
  cases res with
  | ok a r' =>
    obtain ⟨h1, h2⟩ := h
    exact ⟨h1.trans hs, by omega⟩
  | fail p => exact List.IsSuffix.trans h hs
  | fuelOut => exact h

/-- the statement proved by induction on the fuel -/
def ExprGood (f : Nat) : Prop :=
  ∀ inp : List Char,
    (5 * inp.length + 1 ≤ f → (valueExpr f inp).Good 1 inp) ∧
    (5 * inp.length + 2 ≤ f → (unaryExpr f inp).Good 1 inp) ∧
    (5 * inp.length + 3 ≤ f → (mulExpr f inp).Good 1 inp) ∧
    (∀ l, 5 * inp.length + 1 ≤ f → (mulLoop f l inp).Good 0 inp) ∧
    (5 * inp.length + 4 ≤ f → (addExpr f inp).Good 1 inp) ∧
    (∀ l, 5 * inp.length + 1 ≤ f → (addLoop f l inp).Good 0 inp)

theorem valueExpr_step {f : Nat} (ih : ExprGood f) (inp : List Char) (hf : 5 * inp.length + 1 ≤ f + 1) :
    (valueExpr (f + 1) inp).Good 1 inp := by
  unfold valueExpr
  split
  · exact List.suffix_refl _
  · rename_i r
    have h1 := skipSpaces_suffix r
    have h2 := h1.length_le
    simp only [List.length_cons] at hf
    have h := (ih (skipSpaces r)).2.2.2.2.1 (by omega)
    split
    · rename_i e rest he
      rw [he] at h
      obtain ⟨h3, h4⟩ := h
      have h5 := skipSpaces_suffix rest
      have h6 := h5.length_le
      split
      · rename_i rest' he'
        rw [he'] at h5 h6
        simp only [List.length_cons] at h6
        refine ⟨(List.suffix_cons _ _).trans (h5.trans (h3.trans (h1.trans (List.suffix_cons _ _)))), ?_⟩
        simp only [List.length_cons]; omega
      · exact h5.trans (h3.trans (h1.trans (List.suffix_cons _ _)))
    · rename_i pos he
      rw [he] at h
      exact List.IsSuffix.trans h (h1.trans (List.suffix_cons _ _))
    · rename_i he; rw [he] at h; exact h
  · exact amount_good inp

theorem unaryExpr_step {f : Nat} (ih : ExprGood f) (inp : List Char) (hf : 5 * inp.length + 2 ≤ f + 1) :
    (unaryExpr (f + 1) inp).Good 1 inp := by
  unfold unaryExpr
  split
  · exact List.suffix_refl _
  · rename_i r
    simp only [List.length_cons] at hf
    have h := (ih r).1 (by omega)
    split
    · rename_i v rest he
      rw [he] at h
      obtain ⟨h3, h4⟩ := h
      exact ⟨h3.trans (List.suffix_cons _ _), by simp only [List.length_cons]; omega⟩
    · rename_i pos he; rw [he] at h; exact List.IsSuffix.trans h (List.suffix_cons _ _)
    · rename_i he; rw [he] at h; exact h
  · have h := (ih inp).1 (by omega)
    split
    · rename_i v rest he; rw [he] at h; exact h
    · rename_i pos he; rw [he] at h; exact h
    · rename_i he; rw [he] at h; exact h

theorem mulExpr_step {f : Nat} (ih : ExprGood f) (inp : List Char) (hf : 5 * inp.length + 3 ≤ f + 1) :
    (mulExpr (f + 1) inp).Good 1 inp := by
  unfold mulExpr
  have h := (ih inp).2.1 (by omega)
  split
  · rename_i l rest he
    rw [he] at h
    obtain ⟨h3, h4⟩ := h
    exact ((ih rest).2.2.2.1 l (by omega)).lift h3 h4 (by omega)
  · rename_i pos he; rw [he] at h; exact h
  · rename_i he; rw [he] at h; exact h

theorem mulLoop_step {f : Nat} (ih : ExprGood f) (inp : List Char) (l : Expr) (hf : 5 * inp.length + 1 ≤ f + 1) :
    (mulLoop (f + 1) l inp).Good 0 inp := by
  unfold mulLoop
  split
  · exact ⟨List.suffix_refl _, by omega⟩
  · rename_i op r he
    obtain ⟨h1, h2⟩ := sepOp_some he
    have h := (ih r).2.1 (by omega)
    split
    · rename_i e rest he'
      rw [he'] at h
      obtain ⟨h3, h4⟩ := h
      exact ((ih rest).2.2.2.1 (.bin op l e) (by omega)).lift (m := 0) (h3.trans h1) (by omega) (by omega)
    · exact ⟨List.suffix_refl _, by omega⟩
    · rename_i he'; rw [he'] at h; exact h

theorem addExpr_step {f : Nat} (ih : ExprGood f) (inp : List Char) (hf : 5 * inp.length + 4 ≤ f + 1) :
    (addExpr (f + 1) inp).Good 1 inp := by
  unfold addExpr
  have h := (ih inp).2.2.1 (by omega)
  split
  · rename_i l rest he
    rw [he] at h
    obtain ⟨h3, h4⟩ := h
    exact ((ih rest).2.2.2.2.2 l (by omega)).lift h3 h4 (by omega)
  · rename_i pos he; rw [he] at h; exact h
  · rename_i he; rw [he] at h; exact h

theorem addLoop_step {f : Nat} (ih : ExprGood f) (inp : List Char) (l : Expr) (hf : 5 * inp.length + 1 ≤ f + 1) :
    (addLoop (f + 1) l inp).Good 0 inp := by
  unfold addLoop
  split
  · exact ⟨List.suffix_refl _, by omega⟩
  · rename_i op r he
    obtain ⟨h1, h2⟩ := sepOp_some he
    have h := (ih r).2.2.1 (by omega)
    split
    · rename_i e rest he'
      rw [he'] at h
      obtain ⟨h3, h4⟩ := h
      exact ((ih rest).2.2.2.2.2 (.bin op l e) (by omega)).lift (m := 0) (h3.trans h1) (by omega) (by omega)
    · exact ⟨List.suffix_refl _, by omega⟩
    · rename_i he'; rw [he'] at h; exact h

/-- **every function of the expression parser is total with the fuel it is given** -/
theorem expr_good : ∀ f, ExprGood f := by
  intro f
  induction f with
  | zero =>
    intro inp
    refine ⟨?_, ?_, ?_, ?_, ?_, ?_⟩ <;> intros <;> omega
  | succ f ih =>
    intro inp
    exact ⟨valueExpr_step ih inp, unaryExpr_step ih inp, mulExpr_step ih inp, fun l => mulLoop_step ih inp l,
      addExpr_step ih inp, fun l => addLoop_step ih inp l⟩

/-- `expr::value_expr` with the fuel the model passes: never `fuelOut`; a success consumed at least one character
and left a suffix of the input; a failure position is a suffix of the input. -/
theorem parseValueExpr_good (inp : List Char) : (parseValueExpr inp).Good 1 inp :=
  (expr_good (parseFuel inp) inp).1 (by simp only [parseFuel]; omega)

theorem parseValueExpr_ne_fuelOut (inp : List Char) : parseValueExpr inp ≠ .fuelOut := by
  intro h
  have := parseValueExpr_good inp
  rw [h] at this
  exact this

/-- with any fuel at least `5 * length + 1` -/
theorem valueExpr_good (f : Nat) (inp : List Char) (hf : 5 * inp.length + 1 ≤ f) : (valueExpr f inp).Good 1 inp :=
  (expr_good f inp).1 hf

/-! non-vacuity: too little fuel does end in `fuelOut`; `parseFuel` does not -/
def PRes.isFuelOut : PRes α → Bool
  | .fuelOut => true
  | _ => false
def PRes.isOk : PRes α → Bool
  | .ok _ _ => true
  | _ => false
example : (valueExpr 4 "(1)".toList).isFuelOut = true := by decide +kernel
example : (parseValueExpr "(1 + 2) * 3".toList).isOk = true := by decide +kernel

end Okane.ExprSyntax
