import Okane.Model.Process
import Okane.Lemmas.C14TextSpans
/-!
# Which postings `UndeduciblePostingAmount(a, b)` names (book-keeping side of C14_entry_text)

The book-keeping model (`Model/Book.lean`, `Model/Process.lean`) reports `undeducible a b` in exactly one place:
`stepPosting`, when the posting with index `b` has neither amount nor balance and the posting `a` was the first such
posting.  Every other error source of `stepEntry` yields another variant (`NoU`).  Hence `a < b < |posts|`
(`stepEntry_err_U`): both indices name postings of the transaction that is being processed, and the two tracked
posting spans the Rust attaches to the error (`Tracked::new(i, posting_span)`, `book_keeping.rs` 191–201) are spans of
that entry.

Second part: the `Tracking` parser never wraps a transaction as a directive (`parseLedgerEntryT_other`), so an entry
whose undecorated form is a transaction *is* a `TEntry.txn` with as many postings.
-/
namespace Okane.C14Book
open Okane

def isU {κ : Type} : BkErr κ → Bool
  | .undeducible _ _ => true
  | _ => false

def NoU {β : Type} (o : Outcome BkErrS β) : Prop := ∀ e, o = .err e → isU e = false

theorem resolveExchange_noU (s : Store) (amount : PostingAmt String) (x : Exchange) : NoU (resolveExchange s amount x) := by
  intro e h
  unfold resolveExchange at h
  repeat' split at h
  all_goals first | (injection h with h; subst h; rfl) | cases h

theorem resolveOptExchange_noU (s : Store) (amount : PostingAmt String) (x : Option Exchange) :
    NoU (resolveOptExchange s amount x) := by
  intro e h
  unfold resolveOptExchange at h
  split at h
  · cases h
  · split at h
    · cases h
    · rename_i e' he; injection h with h; subst h; exact resolveExchange_noU _ _ _ _ he
    · cases h
    · cases h

theorem evalPostingAmt_noU (s : Store) (x : VExpr) : NoU (evalPostingAmt s x) := by
  intro e h
  unfold evalPostingAmt at h
  repeat' split at h
  all_goals first | (injection h with h; subst h; rfl) | cases h

theorem resolveAmount_noU (s : Store) (pa : PostingAmount) : NoU (resolveAmount s pa) := by
  intro e h
  unfold resolveAmount at h
  split at h
  · split at h
    · split at h
      · split at h <;> cases h
      · rename_i e' he; injection h with h; subst h; exact resolveOptExchange_noU _ _ _ _ he
      · cases h
      · cases h
    · rename_i e' he; injection h with h; subst h; exact resolveOptExchange_noU _ _ _ _ he
    · cases h
    · cases h
  · rename_i e' he; injection h with h; subst h; exact evalPostingAmt_noU _ _ _ he
  · cases h
  · cases h
  
theorem resolveOptBalance_noU (s : Store) (x : Option VExpr) : NoU (resolveOptBalance s x) := by
  intro e h
  unfold resolveOptBalance at h
  split at h
  · cases h
  · split at h
    · cases h
    · rename_i e' he; injection h with h; subst h; exact evalPostingAmt_noU _ _ _ he
    · cases h
    · cases h

theorem resolvePosting_noU (c : Ctx) (p : Posting) : NoU (resolvePosting c p) := by
  intro e h
  unfold resolvePosting at h
  simp only at h
  split at h
  · split at h
    · cases h
    · rename_i e' he; injection h with h; subst h; exact resolveOptBalance_noU _ _ _ he
    · cases h
    · cases h
  · split at h
    · split at h
      · cases h
      · rename_i e' he; injection h with h; subst h; exact resolveOptBalance_noU _ _ _ he
      · cases h
      · cases h
    · rename_i e' he; injection h with h; subst h; exact resolveAmount_noU _ _ _ he
    · cases h
    · cases h

theorem setPartial_noU {α κ : Type} [DecidableEq α] [DecidableEq κ] (b : Balance α κ) (a : α) (x : PostingAmt κ) (e : BkErr κ)
    (h : Balance.setPartial b a x = .err e) : isU e = false := by
  unfold Balance.setPartial at h
  split at h
  · split at h
    · cases h
    · injection h with h; subst h; rfl
  · cases h

theorem processPosting_noU {α κ : Type} [DecidableEq α] [DecidableEq κ] (bal : Balance α κ) (date : Date) (idx : Nat) (p : RPosting α κ)
    (e : BkErr κ) (h : processPosting bal date idx p = .err e) : isU e = false := by
  unfold processPosting at h
  split at h
  · cases h
  · split at h
    · split at h
      · cases h
      · injection h with h; subst h; rfl
      · cases h
      · cases h
    · rename_i e' he; injection h with h; subst h; exact setPartial_noU _ _ _ _ he
    · cases h
    · cases h
  · simp only at h
    split at h
    · rename_i e' he
      injection h with h; subst h
      split at he
      · cases he
      · split at he
        · cases he
        · injection he with he; subst he; rfl
    · cases h

/-- `process_posting` reports `UndeduciblePostingAmount` in exactly one place: the second amount-less posting -/
theorem stepPosting_err_U {α κ : Type} [DecidableEq α] [DecidableEq κ] (date : Date) (st : TxnState α κ) (idx : Nat)
    (p : RPosting α κ) (a b : Nat) (h : stepPosting date st idx p = .err (.undeducible a b)) :
    st.unfilled = some a ∧ b = idx := by
  unfold stepPosting at h
  split at h
  · cases h
  · split at h
    · rename_i first hf
      injection h with h; injection h with h1 h2
      subst h1; subst h2; exact ⟨hf, rfl⟩
    · cases h
  · rename_i e he
    injection h with h; subst h
    have := processPosting_noU _ _ _ _ _ he
    simp [isU] at this
  · cases h
  · cases h

theorem stepPosting_ok_unfilled {α κ : Type} [DecidableEq α] [DecidableEq κ] (date : Date) (st st' : TxnState α κ)
    (idx : Nat) (p : RPosting α κ) (h : stepPosting date st idx p = .ok st') :
    st'.unfilled = st.unfilled ∨ st'.unfilled = some idx := by
  unfold stepPosting at h
  split at h
  · injection h with h; subst h; exact .inl rfl
  · split at h
    · cases h
    · injection h with h; subst h; exact .inr rfl
  · cases h
  · cases h
  · cases h

theorem loopSyntax_err_U (date : Date) : ∀ (ps : List Posting) (c : Ctx) (st : TxnState String String) (idx a b : Nat),
    (∀ u, st.unfilled = some u → u < idx) →
    loopSyntax date c st idx ps = .err (.undeducible a b) → a < b ∧ idx ≤ b ∧ b < idx + ps.length := by
  intro ps
  induction ps with
  | nil => intro c st idx a b _ h; simp [loopSyntax] at h
  | cons p ps ih =>
    intro c st idx a b hinv h
    unfold loopSyntax at h
    split at h
    · rename_i rp c' hr
      split at h
      · rename_i st' hs
        have hinv' : ∀ u, st'.unfilled = some u → u < idx + 1 := by
          intro u hu
          rcases stepPosting_ok_unfilled _ _ _ _ _ hs with h1 | h1
          · rw [h1] at hu; have := hinv u hu; omega
          · rw [h1] at hu; injection hu with hu; omega
        obtain ⟨h1, h2, h3⟩ := ih c' st' (idx + 1) a b hinv' h
        simp only [List.length_cons]
        exact ⟨h1, by omega, by omega⟩
      · rename_i e hs
        injection h with h; subst h
        obtain ⟨h1, h2⟩ := stepPosting_err_U _ _ _ _ _ _ hs
        have := hinv a h1
        simp only [List.length_cons]
        exact ⟨by omega, by omega, by omega⟩
      · cases h
      · cases h
    · rename_i e hr
      injection h with h; subst h
      have := resolvePosting_noU _ _ _ hr
      simp [isU] at this
    · cases h
    · cases h

theorem finishTxn_noU (prec : String → Option Nat) (date : Date) (st : TxnState String String) : NoU (finishTxn prec date st) := by
  intro e h
  unfold finishTxn at h
  split at h
  · simp only at h
    split at h <;> cases h
  · split at h
    · cases h
    · rename_i e' he
      injection h with h; subst h
      unfold checkBalance at he
      simp only at he
      split at he
      · cases he
      · split at he
        · cases he
        · injection he with he; subst he; rfl
    · cases h
    · cases h

/-- **`UndeduciblePostingAmount(a, b)` names two different postings of the transaction**, `a` before `b` -/
theorem addTransactionSyntax_err_U (c : Ctx) (bal : Balance String String) (t : Transaction) (a b : Nat)
    (h : addTransactionSyntax c bal t = .err (.undeducible a b)) : a < b ∧ b < t.posts.length := by
  unfold addTransactionSyntax at h
  split at h
  · split at h
    · cases h
    · rename_i e he
      injection h with h; subst h
      have := finishTxn_noU _ _ _ _ he
      simp [isU] at this
    · cases h
    · cases h
  · rename_i e he
    injection h with h; subst h
    obtain ⟨h1, _, h3⟩ := loopSyntax_err_U _ _ _ _ _ _ _ (by intro u hu; cases hu) he
    exact ⟨h1, by omega⟩
  · cases h
  · cases h

theorem applyCommodityDetails_noU (canonical : String) : ∀ (ds : List CommodityDetail) (c : Ctx),
    NoU (applyCommodityDetails c canonical ds) := by
  intro ds
  induction ds with
  | nil => intro c e h; cases h
  | cons d ds ih =>
    intro c e h
    unfold applyCommodityDetails at h
    split at h
    · cases h
    · rename_i heq
      injection heq with h1 h2; subst h1; subst h2
      split at h
      · exact ih _ e h
      · injection h with h; subst h; rfl
      · cases h
      · cases h
    · rename_i heq
      injection heq with h1 h2; subst h1; subst h2
      exact ih _ e h
    · rename_i heq
      injection heq with h1 h2; subst h1; subst h2
      exact ih _ e h

theorem stepEntry_err_U (st : ProcState) (e : Entry) (a b : Nat) (h : stepEntry st e = .err (.undeducible a b)) :
    ∃ t, e = .txn t ∧ a < b ∧ b < t.posts.length := by
  unfold stepEntry at h
  split at h
  · rename_i t
    split at h
    · cases h
    · rename_i e' he
      injection h with h; subst h
      exact ⟨t, rfl, addTransactionSyntax_err_U _ _ _ _ _ he⟩
    · cases h
    · cases h
  · simp only at h
    repeat' split at h
    all_goals cases h
  · split at h
    · split at h
      · cases h
      · rename_i e' he
        injection h with h; subst h
        have := applyCommodityDetails_noU _ _ _ _ he
        simp [isU] at this
      · cases h
      · cases h
    · cases h
    · cases h
    · cases h
  · cases h

/-! ## the decorated entry parser yields `TEntry.other e` only for directives -/

open Okane.Comb Okane.Parse Okane.ParseSpans

def NotTxn : Entry → Prop
  | .txn _ => False
  | _ => True

variable {α β : Type}

/-- every value `p` can return satisfies `P` -/
def Yields (P : α → Prop) (p : Parser α) : Prop := ∀ i a r, p i = .ok a r → P a

theorem yields_bind {P : β → Prop} {p : Parser α} {f : α → Parser β} (hf : ∀ a, Yields P (f a)) : Yields P (p >>- f) := by
  intro i b r h
  simp only [Comb.bind] at h
  cases hp : p i with
  | ok a r1 => rw [hp] at h; exact hf a r1 b r h
  | bt _ => rw [hp] at h; cases h
  | cut _ => rw [hp] at h; cases h
  | panic _ => rw [hp] at h; cases h
  | fuel => rw [hp] at h; cases h

theorem yields_pure {P : α → Prop} {a : α} (h : P a) : Yields P (Comb.pure a) := by
  intro i a' r ha
  simp only [Comb.pure, Res.ok.injEq] at ha
  rw [← ha.1]; exact h

theorem yields_map {P : β → Prop} {p : Parser α} (f : α → β) (h : ∀ a, P (f a)) : Yields P (Comb.map f p) := by
  intro i b r hb
  simp only [Comb.map] at hb
  cases hp : p i with
  | ok a r1 =>
    rw [hp] at hb
    simp only [Res.map_ok, Res.ok.injEq] at hb
    rw [← hb.1]; exact h a
  | bt _ => rw [hp] at hb; cases hb
  | cut _ => rw [hp] at hb; cases hb
  | panic _ => rw [hp] at hb; cases hb
  | fuel => rw [hp] at hb; cases hb

theorem yields_alt2 {P : α → Prop} {p q : Parser α} (hp : Yields P p) (hq : Yields P q) : Yields P (p <|| q) := by
  intro i a r h
  simp only [alt2] at h
  cases hpi : p i with
  | ok a' r' => rw [hpi] at h; exact hp i a r (by rw [hpi]; exact h)
  | bt _ => rw [hpi] at h; exact hq i a r h
  | cut _ => rw [hpi] at h; cases h
  | panic _ => rw [hpi] at h; cases h
  | fuel => rw [hpi] at h; cases h

theorem yields_cutErr {P : α → Prop} {p : Parser α} (hp : Yields P p) : Yields P (cutErr p) := by
  intro i a r h
  simp only [cutErr] at h
  cases hpi : p i with
  | ok a' r' => rw [hpi] at h; exact hp i a r (by rw [hpi]; exact h)
  | bt _ => rw [hpi] at h; cases h
  | cut _ => rw [hpi] at h; cases h
  | panic _ => rw [hpi] at h; cases h
  | fuel => rw [hpi] at h; cases h

theorem yields_preceded {P : β → Prop} {q : Parser α} {p : Parser β} (hp : Yields P p) : Yields P (preceded q p) :=
  yields_bind fun _ => hp

theorem notTxn_accountDeclaration : Yields NotTxn accountDeclaration :=
  yields_bind fun _ => yields_bind fun _ => yields_pure trivial

theorem notTxn_commodityDeclaration : Yields NotTxn commodityDeclaration :=
  yields_bind fun _ => yields_bind fun _ => yields_pure trivial

theorem notTxn_applyTag : Yields NotTxn applyTag :=
  yields_bind fun _ => yields_bind fun _ => yields_pure trivial

theorem notTxn_endApplyTag : Yields NotTxn endApplyTag := yields_map _ fun _ => trivial
theorem notTxn_includeDirective : Yields NotTxn includeDirective := yields_map _ fun _ => trivial
theorem notTxn_topComment : Yields NotTxn topComment := yields_map _ fun _ => trivial

theorem other_of_map {p : Parser Entry} (hp : Yields NotTxn p) {i r : List Char} {e : Entry}
    (h : Comb.map TEntry.other p i = .ok (.other e) r) : NotTxn e := by
  simp only [Comb.map] at h
  cases hpi : p i with
  | ok a r1 =>
    rw [hpi] at h
    simp only [Res.map_ok, Res.ok.injEq, TEntry.other.injEq] at h
    rw [← h.1]; exact hp i a r1 hpi
  | bt _ => rw [hpi] at h; cases h
  | cut _ => rw [hpi] at h; cases h
  | panic _ => rw [hpi] at h; cases h
  | fuel => rw [hpi] at h; cases h

/-- **a directive delivered by the `Tracking` parser is not a transaction** -/
theorem parseLedgerEntryT_other (i r : List Char) (e : Entry) (h : parseLedgerEntryT i = .ok (.other e) r) : NotTxn e := by
  unfold parseLedgerEntryT at h
  cases i with
  | nil => cases h
  | cons c rest =>
    simp only [dispatch] at h
    split at h
    · exact other_of_map (yields_alt2 (yields_preceded (yields_cutErr notTxn_accountDeclaration))
        (yields_preceded (yields_cutErr notTxn_applyTag))) h
    · split at h
      · exact other_of_map notTxn_commodityDeclaration h
      · split at h
        · exact other_of_map notTxn_endApplyTag h
        · split at h
          · exact other_of_map notTxn_includeDirective h
          · split at h
            · exact other_of_map notTxn_topComment h
            · split at h
              · simp only [Comb.map] at h
                cases ht : transactionT (c :: rest) <;> rw [ht] at h <;> simp [Res.map] at h
              · cases h

/-- a delivered entry whose undecorated form is the transaction `t0` is a decorated transaction with the same number of
postings -/
theorem delivered_txn (t : List Char) (x : ParsedT) (hx : x ∈ (parseLedgerRunT t).1) (t0 : Transaction)
    (h : x.entry.erase = .txn t0) : ∃ tt, x.entry = .txn tt ∧ tt.erase = t0 ∧ tt.posts.length = t0.posts.length := by
  obtain ⟨pre, i1, r, _, _, hp, _, _⟩ := parseLedgerRunT_delivered t x hx
  cases hxe : x.entry with
  | txn tt =>
    rw [hxe] at h
    simp only [TEntry.erase, Entry.txn.injEq] at h
    exact ⟨tt, rfl, h, by rw [← h]; simp [TTransaction.erase]⟩
  | other e =>
    rw [hxe] at h hp
    simp only [TEntry.erase] at h
    have := parseLedgerEntryT_other i1 r e hp
    rw [h] at this
    exact this.elim

end Okane.C14Book
