import Okane.Lemmas.C05Comb
import Okane.Lemmas.ParseTotalGrammar
/-!
# Image lemmas for C05, part 1: inversion of the combinators of `Okane.Comb`

`p i = .ok a r` is decomposed into what the sub-parsers returned (`…_ok_iff`), the loops are described by the chain of
their successful rounds (`Steps`), and the hypotheses on the TEXT under which the image property of the ledger parser
holds (`TextOK`) are shown to pass to every suffix of the text — hence to the input of every sub-parser.
-/
set_option linter.unusedSimpArgs false
set_option linter.unusedVariables false
namespace Okane.Comb
open Res

variable {α β γ : Type}

/-! ## results -/

theorem Res.andThen_eq_ok {res : Res α} {f : α → List Char → Res β} {b : β} {r : List Char} :
    res.andThen f = .ok b r ↔ ∃ a r1, res = .ok a r1 ∧ f a r1 = .ok b r := by
  cases res <;> simp [Res.andThen] <;> grind

theorem Res.map_eq_ok {res : Res α} {f : α → β} {b : β} {r : List Char} :
    res.map f = .ok b r ↔ ∃ a, res = .ok a r ∧ f a = b := by
  cases res <;> simp [Res.map] <;> grind

/-! ## sequencing -/

theorem bind_ok_iff {p : Parser α} {f : α → Parser β} {i r : List Char} {b : β} :
    (p >>- f) i = .ok b r ↔ ∃ a r1, p i = .ok a r1 ∧ f a r1 = .ok b r := by
  simp [Res.andThen_eq_ok]

theorem map_ok_iff {p : Parser α} {f : α → β} {i r : List Char} {b : β} :
    map f p i = .ok b r ↔ ∃ a, p i = .ok a r ∧ f a = b := by
  simp [Res.map_eq_ok]

theorem void_ok_iff {p : Parser α} {i r : List Char} {u : Unit} : void p i = .ok u r ↔ ∃ a, p i = .ok a r := by
  simp [Res.map_eq_ok]

theorem value_ok_iff {p : Parser α} {i r : List Char} {b c : β} : value b p i = .ok c r ↔ (∃ a, p i = .ok a r) ∧ c = b := by
  simp [Res.map_eq_ok] <;> grind

theorem pair_ok_iff {p : Parser α} {q : Parser β} {i r : List Char} {x : α × β} :
    pair p q i = .ok x r ↔ ∃ r1, p i = .ok x.1 r1 ∧ q r1 = .ok x.2 r := by
  obtain ⟨a, b⟩ := x
  simp [Res.andThen_eq_ok, Res.map_eq_ok] <;> grind

theorem preceded_ok_iff {p : Parser α} {q : Parser β} {i r : List Char} {b : β} :
    preceded p q i = .ok b r ↔ ∃ a r1, p i = .ok a r1 ∧ q r1 = .ok b r := by
  simp [Res.andThen_eq_ok]

theorem terminated_ok_iff {p : Parser α} {q : Parser β} {i r : List Char} {a : α} :
    terminated p q i = .ok a r ↔ ∃ r1 b, p i = .ok a r1 ∧ q r1 = .ok b r := by
  simp [Res.andThen_eq_ok, Res.map_eq_ok] <;> grind

theorem delimited_ok_iff {l : Parser α} {p : Parser β} {q : Parser γ} {i r : List Char} {b : β} :
    delimited l p q i = .ok b r ↔ ∃ a r1 r2 c, l i = .ok a r1 ∧ p r1 = .ok b r2 ∧ q r2 = .ok c r := by
  simp [Res.andThen_eq_ok, Res.map_eq_ok] <;> grind

theorem pure_ok_iff {a b : α} {i r : List Char} : pure a i = .ok b r ↔ b = a ∧ r = i := by
  simp [pure] <;> grind

/-! ## tokens -/

theorem oneOf_ok_iff {p : Char → Bool} {i r : List Char} {c : Char} : oneOf p i = .ok c r ↔ i = c :: r ∧ p c = true := by
  cases i with
  | nil => simp [oneOf]
  | cons d t =>
    simp only [oneOf]
    split <;> simp <;> grind

theorem char_ok_iff {c d : Char} {i r : List Char} : char c i = .ok d r ↔ d = c ∧ i = c :: r := by
  simp [char, oneOf_ok_iff] <;> grind

theorem literal_ok_iff {s a i r : List Char} : literal s i = .ok a r ↔ a = s ∧ i = s ++ r := by
  simp only [literal]
  split
  · rename_i h
    obtain ⟨t, rfl⟩ := List.isPrefixOf_iff_prefix.1 h
    simp <;> grind
  · rename_i h
    simp
    rintro rfl rfl
    exact h (List.isPrefixOf_iff_prefix.2 (List.prefix_append _ _))

theorem dropWhile_Stop (p : Char → Bool) (i : List Char) : Stop p (i.dropWhile p) := by
  induction i with
  | nil => simp
  | cons c t ih =>
    by_cases h : p c = true
    · simpa [List.dropWhile, h] using ih
    · simp [List.dropWhile, h]

theorem mem_takeWhile {p : Char → Bool} {i : List Char} {c : Char} (h : c ∈ i.takeWhile p) : p c = true := by
  induction i with
  | nil => simp at h
  | cons d t ih =>
    by_cases hd : p d = true
    · simp [List.takeWhile, hd] at h
      rcases h with rfl | h
      · exact hd
      · exact ih h
    · simp [List.takeWhile, hd] at h

/-- what `take_while(0.., p)` returns: the longest prefix of `p`-characters, followed by a character that is not -/
theorem takeWhile0_ok_iff {p : Char → Bool} {i a r : List Char} :
    takeWhile0 p i = .ok a r ↔ a = i.takeWhile p ∧ r = i.dropWhile p := by
  simp [takeWhile0] <;> grind

theorem takeWhile0_ok {p : Char → Bool} {i a r : List Char} (h : takeWhile0 p i = .ok a r) :
    i = a ++ r ∧ (∀ c ∈ a, p c = true) ∧ Stop p r := by
  obtain ⟨rfl, rfl⟩ := takeWhile0_ok_iff.1 h
  exact ⟨(List.takeWhile_append_dropWhile).symm, fun c hc => mem_takeWhile hc, dropWhile_Stop p i⟩

theorem takeWhile1_ok {p : Char → Bool} {i a r : List Char} (h : takeWhile1 p i = .ok a r) :
    i = a ++ r ∧ a ≠ [] ∧ (∀ c ∈ a, p c = true) ∧ Stop p r := by
  cases i with
  | nil => simp [takeWhile1] at h
  | cons c t =>
    simp only [takeWhile1] at h
    split at h
    · rename_i hc
      simp only [Res.ok.injEq] at h
      obtain ⟨rfl, rfl⟩ := h
      refine ⟨(List.takeWhile_append_dropWhile).symm, ?_, fun c hc => mem_takeWhile hc, dropWhile_Stop p _⟩
      simp [List.takeWhile, hc]
    · simp at h

theorem takeTill0_ok {p : Char → Bool} {i a r : List Char} (h : takeTill0 p i = .ok a r) :
    i = a ++ r ∧ (∀ c ∈ a, p c = false) ∧ (∀ c t, r = c :: t → p c = true) := by
  obtain ⟨h1, h2, h3⟩ := takeWhile0_ok h
  refine ⟨h1, fun c hc => by simpa using h2 c hc, fun c t e => by simpa using h3 c t e⟩

theorem takeTill1_ok {p : Char → Bool} {i a r : List Char} (h : takeTill1 p i = .ok a r) :
    i = a ++ r ∧ a ≠ [] ∧ (∀ c ∈ a, p c = false) ∧ (∀ c t, r = c :: t → p c = true) := by
  obtain ⟨h1, h0, h2, h3⟩ := takeWhile1_ok h
  refine ⟨h1, h0, fun c hc => by simpa using h2 c hc, fun c t e => by simpa using h3 c t e⟩

theorem space0_ok {i a r : List Char} (h : space0 i = .ok a r) :
    i = a ++ r ∧ (∀ c ∈ a, isSpace c = true) ∧ Stop isSpace r := takeWhile0_ok h

theorem space1_ok {i a r : List Char} (h : space1 i = .ok a r) :
    i = a ++ r ∧ a ≠ [] ∧ (∀ c ∈ a, isSpace c = true) ∧ Stop isSpace r := takeWhile1_ok h

theorem eof_ok_iff {i r : List Char} {u : Unit} : eof i = .ok u r ↔ i = [] ∧ r = [] := by
  cases i with
  | nil => simp [eof] <;> grind
  | cons c t => simp [eof]

theorem lineEnding_ok_iff {i r : List Char} {u : Unit} :
    lineEnding i = .ok u r ↔ i = '\n' :: r ∨ i = '\r' :: '\n' :: r := by
  unfold lineEnding
  split
  · simp <;> grind
  · simp <;> grind
  · rename_i h1 h2
    simp
    constructor
    · rintro rfl; exact h1 _ rfl
    · rintro rfl; exact h2 _ rfl

/-- the rest of a line: `l` holds no CR / LF and what follows is the end of input, LF or CR LF -/
def LineEnd (r : List Char) : Prop := r = [] ∨ (∃ t, r = '\n' :: t) ∨ (∃ t, r = '\r' :: '\n' :: t)

theorem tillLineEnding_ok {i l r : List Char} (h : tillLineEnding i = .ok l r) :
    i = l ++ r ∧ (∀ c ∈ l, isEol c = false) ∧ LineEnd r := by
  simp only [tillLineEnding] at h
  have hst := dropWhile_Stop (fun c => !isEol c) i
  have hmem : ∀ c ∈ i.takeWhile (fun c => !isEol c), isEol c = false := fun c hc => by
    simpa using mem_takeWhile hc
  have happ : i = i.takeWhile (fun c => !isEol c) ++ i.dropWhile (fun c => !isEol c) :=
    (List.takeWhile_append_dropWhile).symm
  generalize i.dropWhile (fun c => !isEol c) = rest at h hst happ
  generalize i.takeWhile (fun c => !isEol c) = pre at h hmem happ
  split at h
  · simp only [Res.ok.injEq] at h
    obtain ⟨rfl, rfl⟩ := h
    exact ⟨happ, hmem, Or.inr (Or.inr ⟨_, rfl⟩)⟩
  · simp at h
  · rename_i h1 h2
    simp only [Res.ok.injEq] at h
    obtain ⟨rfl, rfl⟩ := h
    refine ⟨happ, hmem, ?_⟩
    cases rest with
    | nil => exact Or.inl rfl
    | cons c t =>
      have hc : isEol c = true := by simpa using hst c t rfl
      simp [isEol] at hc
      rcases hc with rfl | rfl
      · exact absurd rfl (h2 t)
      · exact Or.inr (Or.inl ⟨t, rfl⟩)

/-- `till_line_ending` succeeds from every position inside a line that it accepts -/
theorem tillLineEnding_line {a r : List Char} (ha : ∀ c ∈ a, isEol c = false) (hr : LineEnd r) :
    tillLineEnding (a ++ r) = .ok a r := by
  have hstop : Stop (fun c => !isEol c) r := by
    rcases hr with rfl | ⟨t, rfl⟩ | ⟨t, rfl⟩ <;> simp [isEol]
  have h1 : (a ++ r).takeWhile (fun c => !isEol c) = a :=
    takeWhile_append_stop (by intro c hc; simp [ha c hc]) hstop
  have h2 : (a ++ r).dropWhile (fun c => !isEol c) = r :=
    dropWhile_append_stop (by intro c hc; simp [ha c hc]) hstop
  simp only [tillLineEnding, h1, h2]
  rcases hr with rfl | ⟨t, rfl⟩ | ⟨t, rfl⟩ <;> simp

theorem lineEndingOrEof_of_lineEnd {r : List Char} (h : LineEnd r) : ∃ r', Okane.Parse.lineEndingOrEof r = .ok () r' := by
  rcases h with rfl | ⟨t, rfl⟩ | ⟨t, rfl⟩
  · exact ⟨[], by simp [Okane.Parse.lineEndingOrEof, alt2, lineEnding, eof]⟩
  · exact ⟨t, by simp [Okane.Parse.lineEndingOrEof, alt2, lineEnding]⟩
  · exact ⟨t, by simp [Okane.Parse.lineEndingOrEof, alt2, lineEnding]⟩

/-! ## control -/

theorem opt_ok_iff {p : Parser α} {i r : List Char} {o : Option α} :
    opt p i = .ok o r ↔ (∃ a, p i = .ok a r ∧ o = some a) ∨ ((∃ z, p i = .bt z) ∧ o = none ∧ r = i) := by
  simp only [opt]
  split <;> rename_i h <;> simp [h] <;> grind

theorem alt2_ok_iff {p q : Parser α} {i r : List Char} {a : α} :
    (p <|| q) i = .ok a r ↔ p i = .ok a r ∨ ((∃ z, p i = .bt z) ∧ q i = .ok a r) := by
  simp only [alt2]
  split
  · rename_i z h; simp [h]
  · rename_i h
    cases hp : p i with
    | ok a' r' => simp
    | bt z => exact absurd hp (h z)
    | cut z => simp
    | panic s => simp
    | fuel => simp

theorem alt2_bt_iff {p q : Parser α} {i z : List Char} :
    (p <|| q) i = .bt z ↔ (∃ z', p i = .bt z') ∧ q i = .bt z := by
  simp only [alt2]
  split
  · rename_i z' h; simp [h]
  · rename_i h
    cases hp : p i with
    | ok a' r' => simp
    | bt z' => exact absurd hp (h z')
    | cut z => simp
    | panic s => simp
    | fuel => simp

theorem peek_ok_iff {p : Parser α} {i r : List Char} {a : α} : peek p i = .ok a r ↔ r = i ∧ ∃ r', p i = .ok a r' := by
  simp only [peek]
  split <;> rename_i h <;> simp [h] <;> grind

theorem hasPeek_ok_iff {p : Parser α} {i r : List Char} {b : Bool} :
    hasPeek p i = .ok b r ↔ r = i ∧ ((b = true ∧ ∃ a r', p i = .ok a r') ∨ (b = false ∧ ∃ z, p i = .bt z)) := by
  simp only [hasPeek]
  split <;> rename_i h <;> simp [h] <;> grind

theorem not_ok_iff {p : Parser α} {i r : List Char} {u : Unit} : Comb.not p i = .ok u r ↔ r = i ∧ ∃ z, p i = .bt z := by
  simp only [Comb.not]
  split <;> rename_i h <;> simp [h] <;> grind

theorem cutErr_ok_iff {p : Parser α} {i r : List Char} {a : α} : cutErr p i = .ok a r ↔ p i = .ok a r := by
  simp only [cutErr]
  split
  · rename_i q h; simp [h]
  · rfl

theorem tryMap_ok_iff {p : Parser α} {f : α → Option β} {i r : List Char} {b : β} :
    tryMap p f i = .ok b r ↔ ∃ a, p i = .ok a r ∧ f a = some b := by
  simp only [tryMap]
  split
  · rename_i a r' h
    split <;> rename_i hb <;> simp [h] <;> grind
  all_goals (rename_i h; simp [h])

theorem take_ok_iff {p : Parser α} {i r s : List Char} : take p i = .ok s r ↔ (∃ a, p i = .ok a r) ∧ s = consumed i r := by
  simp only [take, map_apply, withTaken]
  cases hp : p i <;> simp <;> grind

theorem cond_ok_iff {p : Parser α} {b : Bool} {i r : List Char} {o : Option α} :
    cond b p i = .ok o r ↔ (b = true ∧ ∃ a, p i = .ok a r ∧ o = some a) ∨ (b = false ∧ o = none ∧ r = i) := by
  cases b
  · simp [cond, pure] <;> grind
  · simp [cond, Res.map_eq_ok] <;> grind

/-! ## suffixes -/

theorem Safe.suffix {k : Nat} {p : Parser α} (hp : Safe k p) {i r : List Char} {a : α} (h : p i = .ok a r) : r <:+ i := by
  have := hp.good i
  rw [h] at this
  exact this.1

theorem Safe.lt {k : Nat} {p : Parser α} (hp : Safe k p) {i r : List Char} {a : α} (h : p i = .ok a r) :
    r.length + k ≤ i.length := by
  have := hp.good i
  rw [h] at this
  exact this.2

/-! ## loops: the chain of successful rounds -/

/-- `p` run repeatedly from `i` yields the values `xs` and leaves `r` -/
inductive Steps (p : Parser α) : List Char → List α → List Char → Prop where
  | nil (i : List Char) : Steps p i [] i
  | cons {i r r' : List Char} {a : α} {as : List α} : p i = .ok a r → Steps p r as r' → Steps p i (a :: as) r'

theorem repeat0Loop_ok {p : Parser α} : ∀ (n : Nat) (i : List Char) (acc res : List α) (r : List Char),
    repeat0Loop p n i acc = .ok res r → ∃ xs, res = acc ++ xs ∧ Steps p i xs r ∧ ∃ z, p r = .bt z := by
  intro n
  induction n with
  | zero => intro i acc res r h; simp [repeat0Loop] at h
  | succ n ih =>
    intro i acc res r h
    simp only [repeat0Loop] at h
    split at h
    · rename_i a r1 hp
      split at h
      · simp at h
      · obtain ⟨xs, rfl, hs, hz⟩ := ih r1 (acc ++ [a]) res r h
        exact ⟨a :: xs, by simp, .cons hp hs, hz⟩
    · rename_i z hp
      simp at h
      obtain ⟨rfl, rfl⟩ := h
      exact ⟨[], by simp, .nil _, z, hp⟩
    · simp at h
    · simp at h
    · simp at h

theorem repeat0_ok {p : Parser α} {i r : List Char} {res : List α} (h : repeat0 p i = .ok res r) :
    Steps p i res r ∧ ∃ z, p r = .bt z := by
  obtain ⟨xs, rfl, hs, hz⟩ := repeat0Loop_ok _ _ _ _ _ h
  exact ⟨by simpa using hs, hz⟩

theorem repeat1_ok {p : Parser α} {i r : List Char} {res : List α} (h : repeat1 p i = .ok res r) :
    res ≠ [] ∧ Steps p i res r ∧ ∃ z, p r = .bt z := by
  simp only [repeat1] at h
  split at h
  · rename_i a r1 hp
    obtain ⟨xs, rfl, hs, hz⟩ := repeat0Loop_ok _ _ _ _ _ h
    exact ⟨by simp, .cons hp hs, hz⟩
  all_goals simp at h

theorem repeat1_bt {p : Parser α} {i z : List Char} (h : p i = .bt z) : repeat1 p i = .bt z := by
  simp [repeat1, h]

theorem repeatTillLoop_ok {f : Parser α} {g : Parser β} : ∀ (n : Nat) (i : List Char) (acc res : List α) (b : β) (r : List Char),
    repeatTillLoop f g n i acc = .ok (res, b) r → ∃ xs j, res = acc ++ xs ∧ Steps f i xs j ∧ g j = .ok b r := by
  intro n
  induction n with
  | zero => intro i acc res b r h; simp [repeatTillLoop] at h
  | succ n ih =>
    intro i acc res b r h
    simp only [repeatTillLoop] at h
    split at h
    · rename_i b' r' hg
      simp at h
      obtain ⟨⟨rfl, rfl⟩, rfl⟩ := h
      exact ⟨[], i, by simp, .nil _, hg⟩
    · split at h
      · rename_i a r1 hp
        split at h
        · simp at h
        · obtain ⟨xs, j, rfl, hs, hg⟩ := ih r1 (acc ++ [a]) res b r h
          exact ⟨a :: xs, j, by simp, .cons hp hs, hg⟩
      all_goals simp at h
    all_goals simp at h

theorem repeatTill1_ok {f : Parser α} {g : Parser β} {i r : List Char} {res : List α} {b : β}
    (h : repeatTill1 f g i = .ok (res, b) r) : ∃ j, res ≠ [] ∧ Steps f i res j ∧ g j = .ok b r := by
  simp only [repeatTill1] at h
  split at h
  · rename_i a r1 hp
    obtain ⟨xs, j, rfl, hs, hg⟩ := repeatTillLoop_ok _ _ _ _ _ _ h
    exact ⟨j, by simp, .cons hp hs, hg⟩
  all_goals simp at h

/-- every value of a chain satisfies `Q`, and the invariant `S` of the positions is kept -/
theorem Steps.forall {p : Parser α} {Q : α → Prop} {S : List Char → Prop}
    (hstep : ∀ j a r, S j → p j = .ok a r → Q a ∧ S r) {i r : List Char} {xs : List α} (h : Steps p i xs r) (hi : S i) :
    (∀ a ∈ xs, Q a) ∧ S r := by
  induction h with
  | nil i => exact ⟨by simp, hi⟩
  | cons hp hs ih =>
    obtain ⟨hq, hs'⟩ := hstep _ _ _ hi hp
    obtain ⟨h1, h2⟩ := ih hs'
    refine ⟨?_, h2⟩
    intro a ha
    rcases List.mem_cons.mp ha with rfl | ha
    · exact hq
    · exact h1 a ha

/-- `separated(1.., p, sep)`: every element is a value of `p` at a position satisfying the invariant -/
theorem separatedLoop_forall {p : Parser α} {sep : Parser β} {Q : α → Prop} {S : List Char → Prop}
    (hp : ∀ j a r, S j → p j = .ok a r → Q a ∧ S r) (hsep : ∀ j b r, S j → sep j = .ok b r → S r) :
    ∀ (n : Nat) (i : List Char) (acc res : List α) (r : List Char), S i → (∀ a ∈ acc, Q a) →
      separatedLoop p sep n i acc = .ok res r → (∀ a ∈ res, Q a) ∧ S r := by
  intro n
  induction n with
  | zero => intro i acc res r _ _ h; simp [separatedLoop] at h
  | succ n ih =>
    intro i acc res r hi hacc h
    simp only [separatedLoop] at h
    split at h
    · simp at h
      obtain ⟨rfl, rfl⟩ := h
      exact ⟨hacc, hi⟩
    · rename_i b r1 hs
      split at h
      · simp at h
      · have hS1 := hsep _ _ _ hi hs
        split at h
        · rename_i a r2 hpa
          obtain ⟨hq, hS2⟩ := hp _ _ _ hS1 hpa
          exact ih r2 (acc ++ [a]) res r hS2 (by
            intro x hx
            rcases List.mem_append.mp hx with hx | hx
            · exact hacc x hx
            · simp at hx; subst hx; exact hq) h
        · simp at h
          obtain ⟨rfl, rfl⟩ := h
          exact ⟨hacc, hi⟩
        all_goals simp at h
    all_goals simp at h

theorem separated1_forall {p : Parser α} {sep : Parser β} {Q : α → Prop} {S : List Char → Prop}
    (hp : ∀ j a r, S j → p j = .ok a r → Q a ∧ S r) (hsep : ∀ j b r, S j → sep j = .ok b r → S r)
    {i r : List Char} {res : List α} (hi : S i) (h : separated1 p sep i = .ok res r) : (∀ a ∈ res, Q a) ∧ S r := by
  simp only [separated1] at h
  split at h
  · rename_i a r1 hpa
    obtain ⟨hq, hS1⟩ := hp _ _ _ hi hpa
    exact separatedLoop_forall hp hsep _ _ _ _ _ hS1 (by simpa using hq) h
  all_goals simp at h

end Okane.Comb
