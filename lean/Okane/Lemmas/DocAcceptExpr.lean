import Okane.Lemmas.DocAcceptNum
import Okane.Lemmas.ParseTotalExpr
/-!
# Acceptance of the documented grammar — value expressions

1. one-step unfoldings of the six mutually recursive functions of `Okane.ExprSyntax` and **fuel monotonicity**
   (`mono`: a run that does not end in `fuelOut` gives the same result with more fuel), so that "for all sufficiently
   large fuel" transfers to the fuel `parseFuel` the model passes (`parseValueExpr_of_eventually`);
2. `amount_acc`: `expr::amount` accepts a documented `amount-expr`;
3. `value_acc … unary_acc` by mutual structural recursion over the derivations of
   `value-expr / paren-expr / add-expr / mul-expr / unary-expr`: the parser accepts, and stops where the derivation ends
   (or after the blanks that follow, when the last token is a number without commodity: `After`);
4. `valueExpr_accept`: `Parse.valueExpr` (the model of `expr::value_expr` with the fuel it is given).
-/
set_option linter.unusedSimpArgs false
set_option linter.unusedVariables false
namespace Okane.ExprSyntax
open Okane Okane.Literal

/-! ## 1. unfoldings and fuel monotonicity -/


theorem valueExpr_cons_paren (f : Nat) (r : List Char) :
    valueExpr (f + 1) ('(' :: r) =
      match addExpr f (skipSpaces r) with
      | .ok e rest =>
        match skipSpaces rest with
        | ')' :: rest' => .ok (.paren e) rest'
        | other => .fail other
      | .fail pos => .fail pos
      | .fuelOut => .fuelOut := by
  rw [valueExpr]; rfl

theorem valueExpr_nil (f : Nat) : valueExpr (f + 1) [] = .fail [] := by rw [valueExpr]

theorem valueExpr_other (f : Nat) {c : Char} (cs : List Char) (h : c ≠ '(') :
    valueExpr (f + 1) (c :: cs) = amount (c :: cs) := by
  rw [valueExpr]
  · intro heq; cases heq
  · intro r heq; injection heq with h1 _; exact h h1

theorem unaryExpr_nil (f : Nat) : unaryExpr (f + 1) [] = .fail [] := by rw [unaryExpr]
theorem unaryExpr_cons_neg (f : Nat) (r : List Char) :
    unaryExpr (f + 1) ('-' :: r) =
      match valueExpr f r with
      | .ok v rest => .ok (.neg (.val v)) rest
      | .fail pos => .fail pos
      | .fuelOut => .fuelOut := by rw [unaryExpr]; rfl
theorem unaryExpr_other (f : Nat) {c : Char} (cs : List Char) (h : c ≠ '-') :
    unaryExpr (f + 1) (c :: cs) =
      match valueExpr f (c :: cs) with
      | .ok v rest => .ok (.val v) rest
      | .fail pos => .fail pos
      | .fuelOut => .fuelOut := by
  rw [unaryExpr]
  · rfl
  · intro heq; cases heq
  · intro r heq; injection heq with h1 _; exact h h1
theorem mulExpr_succ (f : Nat) (inp : List Char) :
    mulExpr (f + 1) inp =
      match unaryExpr f inp with
      | .ok l rest => mulLoop f l rest
      | .fail pos => .fail pos
      | .fuelOut => .fuelOut := by rw [mulExpr]; rfl
theorem mulLoop_succ (f : Nat) (l : Expr) (inp : List Char) :
    mulLoop (f + 1) l inp =
      match sepOp mulOp inp with
      | none => .ok l inp
      | some (op, r) =>
        match unaryExpr f r with
        | .ok e rest => mulLoop f (.bin op l e) rest
        | .fail _ => .ok l inp
        | .fuelOut => .fuelOut := by rw [mulLoop]; rfl
theorem addExpr_succ (f : Nat) (inp : List Char) :
    addExpr (f + 1) inp =
      match mulExpr f inp with
      | .ok l rest => addLoop f l rest
      | .fail pos => .fail pos
      | .fuelOut => .fuelOut := by rw [addExpr]; rfl
theorem addLoop_succ (f : Nat) (l : Expr) (inp : List Char) :
    addLoop (f + 1) l inp =
      match sepOp addOp inp with
      | none => .ok l inp
      | some (op, r) =>
        match mulExpr f r with
        | .ok e rest => addLoop f (.bin op l e) rest
        | .fail _ => .ok l inp
        | .fuelOut => .fuelOut := by rw [addLoop]; rfl

def Mono (f : Nat) : Prop :=
  ∀ inp : List Char,
    (valueExpr f inp ≠ .fuelOut → valueExpr (f + 1) inp = valueExpr f inp) ∧
    (unaryExpr f inp ≠ .fuelOut → unaryExpr (f + 1) inp = unaryExpr f inp) ∧
    (mulExpr f inp ≠ .fuelOut → mulExpr (f + 1) inp = mulExpr f inp) ∧
    (∀ l, mulLoop f l inp ≠ .fuelOut → mulLoop (f + 1) l inp = mulLoop f l inp) ∧
    (addExpr f inp ≠ .fuelOut → addExpr (f + 1) inp = addExpr f inp) ∧
    (∀ l, addLoop f l inp ≠ .fuelOut → addLoop (f + 1) l inp = addLoop f l inp)

theorem mono : ∀ f, Mono f := by
  intro f
  induction f with
  | zero =>
    intro inp
    refine ⟨?_, ?_, ?_, ?_, ?_, ?_⟩ <;> intros <;> simp_all [valueExpr, unaryExpr, mulExpr, mulLoop, addExpr, addLoop]
  | succ f ih =>
    intro inp
    refine ⟨?_, ?_, ?_, ?_, ?_, ?_⟩
    · intro h
      cases inp with
      | nil => rw [valueExpr_nil, valueExpr_nil]
      | cons c cs =>
        by_cases hc : c = '('
        · subst hc
          rw [valueExpr_cons_paren] at h ⊢
          rw [valueExpr_cons_paren]
          cases ha : addExpr f (skipSpaces cs) with
          | fuelOut => rw [ha] at h; exact absurd rfl h
          | ok e rest => rw [(ih _).2.2.2.2.1 (by rw [ha]; simp), ha]
          | fail p => rw [(ih _).2.2.2.2.1 (by rw [ha]; simp), ha]
        · rw [valueExpr_other _ _ hc, valueExpr_other _ _ hc]
    · intro h
      cases inp with
      | nil => rw [unaryExpr_nil, unaryExpr_nil]
      | cons c cs =>
        by_cases hc : c = '-'
        · subst hc
          rw [unaryExpr_cons_neg] at h ⊢
          rw [unaryExpr_cons_neg]
          cases ha : valueExpr f cs with
          | fuelOut => rw [ha] at h; exact absurd rfl h
          | ok e rest => rw [(ih _).1 (by rw [ha]; simp), ha]
          | fail p => rw [(ih _).1 (by rw [ha]; simp), ha]
        · rw [unaryExpr_other _ _ hc] at h ⊢
          rw [unaryExpr_other _ _ hc]
          cases ha : valueExpr f (c :: cs) with
          | fuelOut => rw [ha] at h; exact absurd rfl h
          | ok e rest => rw [(ih _).1 (by rw [ha]; simp), ha]
          | fail p => rw [(ih _).1 (by rw [ha]; simp), ha]
    · intro h
      rw [mulExpr_succ] at h ⊢
      rw [mulExpr_succ]
      cases ha : unaryExpr f inp with
      | fuelOut => rw [ha] at h; exact absurd rfl h
      | ok e rest =>
        rw [ha] at h
        rw [(ih _).2.1 (by rw [ha]; simp), ha]
        exact (ih _).2.2.2.1 _ h
      | fail p => rw [(ih _).2.1 (by rw [ha]; simp), ha]
    · intro l h
      rw [mulLoop_succ] at h ⊢
      rw [mulLoop_succ]
      cases hs : sepOp mulOp inp with
      | none => rfl
      | some x =>
        obtain ⟨op, r⟩ := x
        rw [hs] at h
        simp only at h ⊢
        cases ha : unaryExpr f r with
        | fuelOut => rw [ha] at h; exact absurd rfl h
        | ok e rest =>
          rw [ha] at h
          rw [(ih _).2.1 (by rw [ha]; simp), ha]
          exact (ih _).2.2.2.1 _ h
        | fail p => rw [(ih _).2.1 (by rw [ha]; simp), ha]
    · intro h
      rw [addExpr_succ] at h ⊢
      rw [addExpr_succ]
      cases ha : mulExpr f inp with
      | fuelOut => rw [ha] at h; exact absurd rfl h
      | ok e rest =>
        rw [ha] at h
        rw [(ih _).2.2.1 (by rw [ha]; simp), ha]
        exact (ih _).2.2.2.2.2 _ h
      | fail p => rw [(ih _).2.2.1 (by rw [ha]; simp), ha]
    · intro l h
      rw [addLoop_succ] at h ⊢
      rw [addLoop_succ]
      cases hs : sepOp addOp inp with
      | none => rfl
      | some x =>
        obtain ⟨op, r⟩ := x
        rw [hs] at h
        simp only at h ⊢
        cases ha : mulExpr f r with
        | fuelOut => rw [ha] at h; exact absurd rfl h
        | ok e rest =>
          rw [ha] at h
          rw [(ih _).2.2.1 (by rw [ha]; simp), ha]
          exact (ih _).2.2.2.2.2 _ h
        | fail p => rw [(ih _).2.2.1 (by rw [ha]; simp), ha]

/-- more fuel does not change a result that is not `fuelOut` -/
theorem valueExpr_mono_add {f : Nat} {inp : List Char} (h : valueExpr f inp ≠ .fuelOut) :
    ∀ k, valueExpr (f + k) inp = valueExpr f inp := by
  intro k
  induction k with
  | zero => rfl
  | succ k ih =>
    have : valueExpr (f + k) inp ≠ .fuelOut := by rw [ih]; exact h
    rw [← Nat.add_assoc, (mono (f + k) inp).1 this, ih]

/-- a result obtained for all sufficiently large fuel is the result with the fuel the model passes -/
theorem parseValueExpr_of_eventually {inp r : List Char} {v : VExpr} {n : Nat}
    (h : ∀ f, n ≤ f → valueExpr f inp = .ok v r) : parseValueExpr inp = .ok v r := by
  have h1 := valueExpr_mono_add (parseValueExpr_ne_fuelOut inp) n
  unfold parseValueExpr at h1 ⊢
  rw [← h1]
  exact h _ (by omega)

end Okane.ExprSyntax

namespace Okane.DocAccept
open Okane Okane.Spec.Doc Okane.Comb Okane.Literal Okane.ExprSyntax
open Okane.ExprParse (stops ExprFollow)

local notation "𝔸" => Dialect.accepted

/-! ## character facts -/

theorem opChar_facts {c : Char} (h : c = '+' ∨ c = '-' ∨ c = '*' ∨ c = '/' ∨ c = ')') :
    ExprSyntax.isSpace c = false ∧ isNumChar c = false ∧ ExprSyntax.isCommodityChar c = false := by
  rcases h with rfl | rfl | rfl | rfl | rfl <;> decide

theorem digit_eq_digitChar {c : Char} (h : c.isDigit = true) : ∃ k, k < 10 ∧ c = digitChar k := by
  simp only [Char.isDigit, Bool.and_eq_true, decide_eq_true_eq] at h
  have h1 : 48 ≤ c.val.toNat := h.1
  have h2 : c.val.toNat ≤ 57 := h.2
  refine ⟨c.toNat - 48, by show c.val.toNat - 48 < 10; omega, ?_⟩
  unfold digitChar
  have : 48 + (c.toNat - 48) = c.toNat := by show 48 + (c.val.toNat - 48) = c.val.toNat; omega
  rw [this, Char.ofNat_toNat]

theorem digitChar_not_commodity : ∀ k, k < 10 → ExprSyntax.isCommodityChar (digitChar k) = false := by decide

theorem commodityChar_not_num {c : Char} (h : ExprSyntax.isCommodityChar c = true) : isNumChar c = false := by
  cases hn : isNumChar c with
  | false => rfl
  | true =>
    exfalso
    simp only [isNumChar, Bool.or_eq_true, beq_iff_eq] at hn
    rcases hn with (hd | rfl) | rfl
    · obtain ⟨k, hk, rfl⟩ := digit_eq_digitChar hd
      rw [digitChar_not_commodity k hk] at h
      cases h
    · exact absurd h (by decide)
    · exact absurd h (by decide)

theorem numChar_not_space' {c : Char} (h : isNumChar c = true) : Comb.isSpace c = false :=
  ExprParse.numChar_not_space h

theorem digit_not_space {c : Char} (h : c.isDigit = true) : ExprSyntax.isSpace c = false :=
  ExprParse.numChar_not_space (by simp [isNumChar, h])

/-! ## positions after a parser run: at `r`, or after the blanks that follow `r` -/

/-- what the parser leaves when the grammar ends at `r`: `expr::amount` also takes the blanks after a number without
commodity -/
def After (r r' : List Char) : Prop := r' = r ∨ r' = skipSpaces r

theorem After.skip {r r' : List Char} (h : After r r') : skipSpaces r' = skipSpaces r := by
  rcases h with rfl | rfl
  · rfl
  · exact ExprParse.skipSpaces_idem r

theorem After.sepOp {r r' : List Char} (h : After r r') (op : Char → Option BinOp) : sepOp op r' = sepOp op r := by
  simp only [ExprSyntax.sepOp, h.skip]

/-- follow sets: after a `value-expr` / `unary-expr`; after a `mul-expr`; after an `add-expr` -/
def FU (r : List Char) : Prop := ExprFollow r = true
def FM (r : List Char) : Prop := ExprFollow r = true ∧ sepOp mulOp r = none
def FA (r : List Char) : Prop := FM r ∧ sepOp addOp r = none

/-- blanks and then an operator or a closing parenthesis -/
theorem follow_blank_op {s t : List Char} {c : Char} (hs : ∀ x ∈ s, Comb.isSpace x = true)
    (hc : c = '+' ∨ c = '-' ∨ c = '*' ∨ c = '/' ∨ c = ')') :
    ExprFollow (s ++ c :: t) = true ∧ skipSpaces (s ++ c :: t) = c :: t := by
  obtain ⟨h1, h2, h3⟩ := opChar_facts hc
  have hsk : skipSpaces (s ++ c :: t) = c :: t := dropWhile_append_stop hs (by simp; exact h1)
  refine ⟨?_, hsk⟩
  simp only [ExprFollow, hsk, Bool.and_eq_true]
  refine ⟨?_, by simp [stops, h3]⟩
  cases s with
  | nil => simp [stops, h2]
  | cons a s' =>
    have ha := hs a (by simp)
    cases hn : isNumChar a with
    | false => simp [stops, hn]
    | true => rw [numChar_not_space' hn] at ha; cases ha

/-! ## 2. `amount-expr` -/

theorem commodity_head_not_num {m r : List Char} (h : commodity m r) : stops isNumChar m = true := by
  obtain ⟨s, rfl, hne, hs⟩ := plus_chr h
  cases s with
  | nil => exact absurd rfl hne
  | cons c t =>
    have := hs c (by simp)
    rw [isCommodityChar_eq] at this
    simp [stops, commodityChar_not_num this]

/-- a number is not continued by what the grammar puts after it -/
theorem amount_num_stop {m1 m2 r : List Char} (hs : G.star sp m1 m2) (hc : G.opt commodity m2 r)
    (hf : ExprFollow r = true) : stops isNumChar m1 = true := by
  obtain ⟨s, rfl, hsp⟩ := star_sp hs
  cases s with
  | cons a t =>
    have ha := hsp a (by simp)
    cases hn : isNumChar a with
    | false => simp [stops, hn]
    | true => rw [numChar_not_space' hn] at ha; cases ha
  | nil =>
    rcases hc with hc | rfl
    · exact commodity_head_not_num hc
    · simp only [ExprFollow, Bool.and_eq_true] at hf
      exact hf.1

/-- the commodity part of `expr::amount` -/
theorem amount_tail {i m1 m2 r : List Char} {d : PDec} (hp : prettyDecimal i = .ok d m1) (hs : G.star sp m1 m2)
    (hc : G.opt commodity m2 r) (hf : ExprFollow r = true) :
    ∃ r', After r r' ∧ ∃ v, ExprSyntax.amount i = .ok v r' := by
  obtain ⟨s, rfl, hsp⟩ := star_sp hs
  simp only [ExprFollow, Bool.and_eq_true] at hf
  rcases hc with hc | rfl
  · obtain ⟨cs, rfl, hne, hcs⟩ := plus_chr hc
    rw [isCommodityChar_eq] at hcs
    have hstop : Stop Comb.isSpace (cs ++ r) := by
      cases cs with
      | nil => exact absurd rfl hne
      | cons c t =>
        have : Comb.isSpace c = false := ExprParse.commodityChar_not_space (hcs c (by simp))
        simpa using this
    have hsk : skipSpaces (s ++ (cs ++ r)) = cs ++ r := dropWhile_append_stop hsp hstop
    have hr : stops ExprSyntax.isCommodityChar r = true := by
      cases r with
      | nil => rfl
      | cons c t =>
        cases hsc : ExprSyntax.isSpace c with
        | true =>
          cases hcc : ExprSyntax.isCommodityChar c with
          | false => simp [stops, hcc]
          | true => rw [ExprParse.commodityChar_not_space hcc] at hsc; cases hsc
        | false =>
          have := hf.2
          rwa [ExprParse.skipSpaces_cons_nonspace _ hsc] at this
    refine ⟨r, Or.inl rfl, .amt d (String.ofList cs), ?_⟩
    simp only [ExprSyntax.amount, hp, hsk, ExprSyntax.commodity, ExprParse.takeWhile_append_stops hcs hr,
      ExprParse.dropWhile_append_stops hcs hr]
  · have hsk : skipSpaces (s ++ m2) = skipSpaces m2 := by
      simp only [skipSpaces]
      have hsp' : ∀ c ∈ s, ExprSyntax.isSpace c = true := hsp
      rw [List.dropWhile_append_of_pos hsp']
    refine ⟨skipSpaces m2, Or.inr rfl, .amt d (String.ofList []), ?_⟩
    simp only [ExprSyntax.amount, hp, hsk, ExprSyntax.commodity, ExprParse.takeWhile_stops hf.2,
      ExprParse.dropWhile_stops hf.2]

/-- **`expr::amount` accepts a documented `amount-expr`** (in the accepted dialect: the number within range) -/
theorem amount_acc {i r : List Char} (h : amountExpr 𝔸 i r) (hf : ExprFollow r = true) :
    ∃ r', After r r' ∧ ∃ v, ExprSyntax.amount i = .ok v r' := by
  obtain ⟨m1, hnum, m2, hs, hc⟩ := h
  obtain ⟨d, hd⟩ := prettyDecimal_accept hnum (amount_num_stop hs hc hf)
  exact amount_tail hd hs hc hf

/-- the same amount without its sign -/
theorem amount_acc_unsigned {i r : List Char} (h : amountExpr 𝔸 ('-' :: i) r) (hf : ExprFollow r = true) :
    ∃ r', After r r' ∧ ∃ v, ExprSyntax.amount i = .ok v r' := by
  obtain ⟨m1, hnum, m2, hs, hc⟩ := h
  obtain ⟨d, hd⟩ := prettyDecimal_accept_unsigned hnum (amount_num_stop hs hc hf)
  exact amount_tail hd hs hc hf

theorem amountExpr_head {D : Dialect} {i r : List Char} (h : amountExpr D i r) :
    ∃ c t, i = c :: t ∧ (c = '-' ∨ c.isDigit = true) := by
  obtain ⟨m1, ⟨hnum, _⟩, _⟩ := h
  exact commaDecimal_head hnum

/-- an unsigned `amount-expr` begins with a digit: strip the sign of a signed one -/
theorem amountExpr_unsigned_head {i r : List Char} (h : amountExpr 𝔸 ('-' :: i) r) :
    ∃ c t, i = c :: t ∧ c.isDigit = true := by
  obtain ⟨m1, ⟨hnum, _⟩, _⟩ := h
  obtain ⟨s, b, he, hs, _, _, hall, _, c, t, rfl, hc⟩ := commaDecimal_text hnum
  rcases hs with rfl | rfl
  · simp only [List.cons_append, List.cons.injEq] at he
    have := (C07.digit_ne hc).1
    exact absurd he.1.symm this
  · simp only [List.cons_append, List.cons.injEq, true_and] at he
    exact ⟨c, t ++ m1, he, hc⟩

/-! ## first characters -/

theorem value_head {D : Dialect} {i r : List Char} (h : ValueExpr D i r) :
    ∃ c t, i = c :: t ∧ (c = '(' ∨ c = '-' ∨ c.isDigit = true) := by
  cases h with
  | amount h =>
    obtain ⟨c, t, rfl, hc⟩ := amountExpr_head h
    exact ⟨c, t, rfl, Or.inr hc⟩
  | paren h =>
    cases h with
    | mk _ _ _ => exact ⟨_, _, rfl, Or.inl rfl⟩

theorem unary_head {D : Dialect} {i r : List Char} (h : UnaryExpr D i r) :
    ∃ c t, i = c :: t ∧ (c = '(' ∨ c = '-' ∨ c.isDigit = true) := by
  cases h with
  | pos h => exact value_head h
  | neg h => exact ⟨_, _, rfl, Or.inr (Or.inl rfl)⟩

theorem mul_head {D : Dialect} {i r : List Char} (h : MulExpr D i r) :
    ∃ c t, i = c :: t ∧ (c = '(' ∨ c = '-' ∨ c.isDigit = true) := by
  cases h with
  | mk h _ => exact unary_head h

theorem add_head {D : Dialect} {i r : List Char} (h : AddExpr D i r) :
    ∃ c t, i = c :: t ∧ (c = '(' ∨ c = '-' ∨ c.isDigit = true) := by
  cases h with
  | mk h _ => exact mul_head h

theorem head_not_space {c : Char} (h : c = '(' ∨ c = '-' ∨ c.isDigit = true) : ExprSyntax.isSpace c = false := by
  rcases h with rfl | rfl | h
  · decide
  · decide
  · exact digit_not_space h

theorem head_stop {i : List Char} (h : ∃ c t, i = c :: t ∧ (c = '(' ∨ c = '-' ∨ c.isDigit = true)) :
    Stop Comb.isSpace i := by
  obtain ⟨c, t, rfl, hc⟩ := h
  have : Comb.isSpace c = false := head_not_space hc
  simpa using this

/-! ## follow sets inside an expression -/

theorem mulRest_follow {D : Dialect} {m r : List Char} (h : MulRest D m r) (hf : FM r) : FU m := by
  cases h with
  | nil _ => exact hf.1
  | cons c hs hc _ _ _ =>
    obtain ⟨s, rfl, hsp⟩ := star_sp hs
    exact (follow_blank_op hsp (by rcases hc with rfl | rfl <;> simp)).1

theorem addRest_follow {D : Dialect} {m r : List Char} (h : AddRest D m r) (hf : FA r) : FM m := by
  cases h with
  | nil _ => exact hf.1
  | cons c hs hc _ _ _ =>
    obtain ⟨s, rfl, hsp⟩ := star_sp hs
    obtain ⟨h1, h2⟩ := follow_blank_op (t := _) hsp (c := c) (by rcases hc with rfl | rfl <;> simp)
    refine ⟨h1, ?_⟩
    simp only [ExprSyntax.sepOp, h2]
    rcases hc with rfl | rfl <;> rfl

/-- before the closing parenthesis -/
theorem close_follow {i2 r : List Char} (h : G.star sp i2 (')' :: r)) : FA i2 ∧ skipSpaces i2 = ')' :: r := by
  obtain ⟨s, rfl, hsp⟩ := star_sp h
  obtain ⟨h1, h2⟩ := follow_blank_op (t := r) hsp (c := ')') (by simp)
  exact ⟨⟨⟨h1, by simp only [ExprSyntax.sepOp, h2]; rfl⟩, by simp only [ExprSyntax.sepOp, h2]; rfl⟩, h2⟩

/-! ## 3. the mutual induction -/

mutual
/-- `value_expr` accepts a documented `value-expr` -/
theorem value_acc : ∀ {i r : List Char}, ValueExpr 𝔸 i r → FU r →
    ∃ r', After r r' ∧ ∃ n v, ∀ f, n ≤ f → valueExpr f i = .ok v r'
  | _, _, .amount h, hf => by
    obtain ⟨r', ha, v, hv⟩ := amount_acc h hf
    obtain ⟨c, t, rfl, hc⟩ := amountExpr_head h
    refine ⟨r', ha, 1, v, ?_⟩
    intro f hf
    obtain ⟨g, rfl⟩ : ∃ g, f = g + 1 := ⟨f - 1, by omega⟩
    have hne : c ≠ '(' := by
      rcases hc with rfl | hc
      · decide
      · intro e; subst e; revert hc; decide
    rw [valueExpr_other _ _ hne, hv]
  | _, _, .paren h, _ => by
    obtain ⟨n, v, hv⟩ := paren_acc h
    exact ⟨_, Or.inl rfl, n, v, hv⟩
/-- … a `paren-expr` (exactly, whatever follows) -/
theorem paren_acc : ∀ {i r : List Char}, ParenExpr 𝔸 i r → ∃ n v, ∀ f, n ≤ f → valueExpr f i = .ok v r
  | _, _, @ParenExpr.mk _ i i1 i2 r hs1 ha hs2 => by
    obtain ⟨hfa, hclose⟩ := close_follow hs2
    obtain ⟨r', hafter, n, e, he⟩ := add_acc ha hfa
    have hsk1 : skipSpaces i = i1 := skipSpaces_star_sp hs1 (head_stop (add_head ha))
    refine ⟨n + 1, .paren e, ?_⟩
    intro f hf
    obtain ⟨g, rfl⟩ : ∃ g, f = g + 1 := ⟨f - 1, by omega⟩
    rw [valueExpr_cons_paren, hsk1, he g (by omega)]
    simp only
    rw [hafter.skip, hclose]
    rfl
/-- `add_expr` accepts a documented `add-expr` -/
theorem add_acc : ∀ {i r : List Char}, AddExpr 𝔸 i r → FA r →
    ∃ r', After r r' ∧ ∃ n e, ∀ f, n ≤ f → addExpr f i = .ok e r'
  | _, _, .mk hm hrest, hf => by
    obtain ⟨m', ham, n1, e1, h1⟩ := mul_acc hm (addRest_follow hrest hf)
    obtain ⟨r', har, n2, e2, h2⟩ := addRest_acc hrest hf m' ham e1
    refine ⟨r', har, n1 + n2 + 1, e2, ?_⟩
    intro f hf
    obtain ⟨g, rfl⟩ : ∃ g, f = g + 1 := ⟨f - 1, by omega⟩
    rw [addExpr_succ, h1 g (by omega)]
    exact h2 g (by omega)
/-- the fold loop of `add_expr` on `(sp* [+-] sp* mul-expr)*` -/
theorem addRest_acc : ∀ {m r : List Char}, AddRest 𝔸 m r → FA r → ∀ m', After m m' → ∀ l : Expr,
    ∃ r', After r r' ∧ ∃ n e, ∀ f, n ≤ f → addLoop f l m' = .ok e r'
  | _, _, .nil _, hf, m', ham, l => by
    refine ⟨m', ham, 1, l, ?_⟩
    intro f hf'
    obtain ⟨g, rfl⟩ : ∃ g, f = g + 1 := ⟨f - 1, by omega⟩
    rw [addLoop_succ, ham.sepOp, hf.2]
  | _, _, @AddRest.cons _ m i1 i2 i3 r c hs1 hc hs2 hm hrest, hf, m', ham, l => by
    obtain ⟨s, rfl, hsp⟩ := star_sp hs1
    have hsk : skipSpaces (s ++ c :: i1) = c :: i1 :=
      (follow_blank_op hsp (by rcases hc with rfl | rfl <;> simp)).2
    have hsk2 : skipSpaces i1 = i2 := skipSpaces_star_sp hs2 (head_stop (mul_head hm))
    obtain ⟨i3', h3, n1, e1, he1⟩ := mul_acc hm (addRest_follow hrest hf)
    obtain ⟨op, hop⟩ : ∃ op, addOp c = some op := by rcases hc with rfl | rfl <;> exact ⟨_, rfl⟩
    obtain ⟨r', har, n2, e2, he2⟩ := addRest_acc hrest hf i3' h3 (.bin op l e1)
    refine ⟨r', har, n1 + n2 + 1, e2, ?_⟩
    intro f hf'
    obtain ⟨g, rfl⟩ : ∃ g, f = g + 1 := ⟨f - 1, by omega⟩
    have hsep : sepOp addOp m' = some (op, i2) := by
      rw [ham.sepOp]
      simp only [ExprSyntax.sepOp, hsk, hop, Option.map, hsk2]
    rw [addLoop_succ, hsep]
    simp only
    rw [he1 g (by omega)]
    exact he2 g (by omega)
/-- `mul_expr` accepts a documented `mul-expr` -/
theorem mul_acc : ∀ {i r : List Char}, MulExpr 𝔸 i r → FM r →
    ∃ r', After r r' ∧ ∃ n e, ∀ f, n ≤ f → mulExpr f i = .ok e r'
  | _, _, .mk hu hrest, hf => by
    obtain ⟨m', ham, n1, e1, h1⟩ := unary_acc hu (mulRest_follow hrest hf)
    obtain ⟨r', har, n2, e2, h2⟩ := mulRest_acc hrest hf m' ham e1
    refine ⟨r', har, n1 + n2 + 1, e2, ?_⟩
    intro f hf
    obtain ⟨g, rfl⟩ : ∃ g, f = g + 1 := ⟨f - 1, by omega⟩
    rw [mulExpr_succ, h1 g (by omega)]
    exact h2 g (by omega)
/-- the fold loop of `mul_expr` -/
theorem mulRest_acc : ∀ {m r : List Char}, MulRest 𝔸 m r → FM r → ∀ m', After m m' → ∀ l : Expr,
    ∃ r', After r r' ∧ ∃ n e, ∀ f, n ≤ f → mulLoop f l m' = .ok e r'
  | _, _, .nil _, hf, m', ham, l => by
    refine ⟨m', ham, 1, l, ?_⟩
    intro f hf'
    obtain ⟨g, rfl⟩ : ∃ g, f = g + 1 := ⟨f - 1, by omega⟩
    rw [mulLoop_succ, ham.sepOp, hf.2]
  | _, _, @MulRest.cons _ m i1 i2 i3 r c hs1 hc hs2 hu hrest, hf, m', ham, l => by
    obtain ⟨s, rfl, hsp⟩ := star_sp hs1
    have hsk : skipSpaces (s ++ c :: i1) = c :: i1 :=
      (follow_blank_op hsp (by rcases hc with rfl | rfl <;> simp)).2
    have hsk2 : skipSpaces i1 = i2 := skipSpaces_star_sp hs2 (head_stop (unary_head hu))
    obtain ⟨i3', h3, n1, e1, he1⟩ := unary_acc hu (mulRest_follow hrest hf)
    obtain ⟨op, hop⟩ : ∃ op, mulOp c = some op := by rcases hc with rfl | rfl <;> exact ⟨_, rfl⟩
    obtain ⟨r', har, n2, e2, he2⟩ := mulRest_acc hrest hf i3' h3 (.bin op l e1)
    refine ⟨r', har, n1 + n2 + 1, e2, ?_⟩
    intro f hf'
    obtain ⟨g, rfl⟩ : ∃ g, f = g + 1 := ⟨f - 1, by omega⟩
    have hsep : sepOp mulOp m' = some (op, i2) := by
      rw [ham.sepOp]
      simp only [ExprSyntax.sepOp, hsk, hop, Option.map, hsk2]
    rw [mulLoop_succ, hsep]
    simp only
    rw [he1 g (by omega)]
    exact he2 g (by omega)
/-- `unary_expr` accepts a documented `unary-expr` -/
theorem unary_acc : ∀ {i r : List Char}, UnaryExpr 𝔸 i r → FU r →
    ∃ r', After r r' ∧ ∃ n e, ∀ f, n ≤ f → unaryExpr f i = .ok e r'
  | _, _, .neg hv, hf => by
    obtain ⟨r', ha, n, v, h⟩ := value_acc hv hf
    refine ⟨r', ha, n + 1, .neg (.val v), ?_⟩
    intro f hf'
    obtain ⟨g, rfl⟩ : ∃ g, f = g + 1 := ⟨f - 1, by omega⟩
    rw [unaryExpr_cons_neg, h g (by omega)]
  | _, _, @UnaryExpr.pos _ i r hv, hf => by
    by_cases hm : ∃ t, i = '-' :: t
    · -- a signed literal in operand position: the parser reads the sign as the unary operator (E1 only)
      obtain ⟨t, rfl⟩ := hm
      cases hv with
      | paren hp => cases hp
      | amount ha =>
        obtain ⟨r', hafter, v, hv'⟩ := amount_acc_unsigned ha hf
        obtain ⟨d, t', rfl, hd⟩ := amountExpr_unsigned_head ha
        have hne : d ≠ '(' := by intro e; subst e; revert hd; decide
        refine ⟨r', hafter, 2, .neg (.val v), ?_⟩
        intro f hf'
        obtain ⟨g, rfl⟩ : ∃ g, f = g + 1 + 1 := ⟨f - 2, by omega⟩
        rw [unaryExpr_cons_neg, valueExpr_other _ _ hne, hv']
    · obtain ⟨r', ha, n, v, h⟩ := value_acc hv hf
      obtain ⟨c, t, he, hc⟩ := value_head hv
      have hc' : c ≠ '-' := fun e => hm ⟨t, by rw [he, e]⟩
      refine ⟨r', ha, n + 1, .val v, ?_⟩
      intro f hf'
      obtain ⟨g, rfl⟩ : ∃ g, f = g + 1 := ⟨f - 1, by omega⟩
      have := h g (by omega)
      rw [he] at this ⊢
      rw [unaryExpr_other _ _ hc', this]
end

/-! ## 4. the model's `value_expr` -/

/-- **`expr::value_expr` accepts every documented `value-expr`** that is followed by something that continues neither a
number nor a commodity; it stops where the expression ends, or after the blanks that follow it. -/
theorem valueExpr_accept {i r : List Char} (h : ValueExpr 𝔸 i r) (hf : ExprFollow r = true) :
    ∃ r', After r r' ∧ ∃ v, Parse.valueExpr i = .ok v r' := by
  obtain ⟨r', ha, n, v, hv⟩ := value_acc h hf
  exact ⟨r', ha, v, by simp only [Parse.valueExpr, parseValueExpr_of_eventually hv, Parse.ofPRes]⟩

/-! ## non-vacuity: `(1 + 2*3) USD`-like texts are derivations -/

theorem amountExpr_intro {s : List Char} (r : List Char) (hcd : commaDecimal (s ++ r) r)
    (hok : Spec.Representable s = true) : (commaDecimal.sat (𝔸).numOk) (s ++ r) r := ⟨hcd, s, rfl, hok⟩

end Okane.DocAccept
