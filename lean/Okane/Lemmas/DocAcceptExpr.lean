import Okane.Lemmas.DocAcceptNum
import Okane.Lemmas.ParseTotalExpr
/-!
# Acceptance of the documented grammar — value expressions

1. one-step unfoldings of the six mutually recursive functions of `Okane.ExprSyntax` and **fuel monotonicity**
   (`mono`: a run that does not end in `fuelOut` gives the same result with more fuel), so that "for all sufficiently
   large fuel" transfers to the fuel `parseFuel` the model passes (`parseValueExpr_of_eventually`);
2. `amount_acc`: `expr::amount` accepts a documented `amount-expr`;
3. `value_acc … unary_acc` by mutual structural recursion over the derivations of
   `value-expr / paren-expr / add-expr / mul-expr / unary-expr`: the parser accepts, and stops where the derivation ends
   (or after the blanks that follow, when the last token is a number without commodity: `After`);
4. `valueExpr_accept`: `Parse.valueExpr` (the model of `expr::value_expr` with the fuel it is given).
-/
set_option linter.unusedSimpArgs false
set_option linter.unusedVariables false
namespace Okane.ExprSyntax
open Okane Okane.Literal

/-! ## 1. unfoldings and fuel monotonicity -/


theorem valueExpr_cons_paren (f : Nat) (r : List Char) :
    valueExpr (f + 1) ('(' :: r) =
      match addExpr f (skipSpaces r) with
      | .ok e rest =>
        match skipSpaces rest with
        | ')' :: rest' => .ok (.paren e) rest'
        | other => .fail other
      | .fail pos => .fail pos
      | .fuelOut => .fuelOut := by
  rw [valueExpr]; rfl

theorem valueExpr_nil (f : Nat) : valueExpr (f + 1) [] = .fail [] := by rw [valueExpr]

theorem valueExpr_other (f : Nat) {c : Char} (cs : List Char) (h : c ≠ '(') :
    valueExpr (f + 1) (c :: cs) = amount (c :: cs) := by
  rw [valueExpr]
  · intro heq; cases heq
  · intro r heq; injection heq with h1 _; exact h h1

theorem unaryExpr_nil (f : Nat) : unaryExpr (f + 1) [] = .fail [] := by rw [unaryExpr]
theorem unaryExpr_cons_neg (f : Nat) (r : List Char) :
    unaryExpr (f + 1) ('-' :: r) =
      match valueExpr f r with
      | .ok v rest => .ok (.neg (.val v)) rest
      | .fail pos => .fail pos
      | .fuelOut => .fuelOut := by rw [unaryExpr]; rfl
theorem unaryExpr_other (f : Nat) {c : Char} (cs : List Char) (h : c ≠ '-') :
    unaryExpr (f + 1) (c :: cs) =
      match valueExpr f (c :: cs) with
      | .ok v rest => .ok (.val v) rest
      | .fail pos => .fail pos
      | .fuelOut => .fuelOut := by
  rw [unaryExpr]
  · rfl
  · intro heq; cases heq
  · intro r heq; injection heq with h1 _; exact h h1
theorem mulExpr_succ (f : Nat) (inp : List Char) :
    mulExpr (f + 1) inp =
      match unaryExpr f inp with
      | .ok l rest => mulLoop f l rest
      | .fail pos => .fail pos
      | .fuelOut => .fuelOut := by rw [mulExpr]; rfl
theorem mulLoop_succ (f : Nat) (l : Expr) (inp : List Char) :
    mulLoop (f + 1) l inp =
      match sepOp mulOp inp with
      | none => .ok l inp
      | some (op, r) =>
        match unaryExpr f r with
        | .ok e rest => mulLoop f (.bin op l e) rest
        | .fail _ => .ok l inp
        | .fuelOut => .fuelOut := by rw [mulLoop]; rfl
theorem addExpr_succ (f : Nat) (inp : List Char) :
    addExpr (f + 1) inp =
      match mulExpr f inp with
      | .ok l rest => addLoop f l rest
      | .fail pos => .fail pos
      | .fuelOut => .fuelOut := by rw [addExpr]; rfl
theorem addLoop_succ (f : Nat) (l : Expr) (inp : List Char) :
    addLoop (f + 1) l inp =
      match sepOp addOp inp with
      | none => .ok l inp
      | some (op, r) =>
        match mulExpr f r with
        | .ok e rest => addLoop f (.bin op l e) rest
        | .fail _ => .ok l inp
        | .fuelOut => .fuelOut := by rw [addLoop]; rfl

def Mono (f : Nat) : Prop :=
  ∀ inp : List Char,
    (valueExpr f inp ≠ .fuelOut → valueExpr (f + 1) inp = valueExpr f inp) ∧
    (unaryExpr f inp ≠ .fuelOut → unaryExpr (f + 1) inp = unaryExpr f inp) ∧
    (mulExpr f inp ≠ .fuelOut → mulExpr (f + 1) inp = mulExpr f inp) ∧
    (∀ l, mulLoop f l inp ≠ .fuelOut → mulLoop (f + 1) l inp = mulLoop f l inp) ∧
    (addExpr f inp ≠ .fuelOut → addExpr (f + 1) inp = addExpr f inp) ∧
    (∀ l, addLoop f l inp ≠ .fuelOut → addLoop (f + 1) l inp = addLoop f l inp)

theorem mono : ∀ f, Mono f := by
  intro f
  induction f with
  | zero =>
    intro inp
    refine ⟨?_, ?_, ?_, ?_, ?_, ?_⟩ <;> intros <;> simp_all [valueExpr, unaryExpr, mulExpr, mulLoop, addExpr, addLoop]
  | succ f ih =>
    intro inp
    refine ⟨?_, ?_, ?_, ?_, ?_, ?_⟩
    · intro h
      cases inp with
      | nil => rw [valueExpr_nil, valueExpr_nil]
      | cons c cs =>
        by_cases hc : c = '('
        · subst hc
          rw [valueExpr_cons_paren] at h ⊢
          rw [valueExpr_cons_paren]
          cases ha : addExpr f (skipSpaces cs) with
          | fuelOut => rw [ha] at h; exact absurd rfl h
          | ok e rest => rw [(ih _).2.2.2.2.1 (by rw [ha]; simp), ha]
          | fail p => rw [(ih _).2.2.2.2.1 (by rw [ha]; simp), ha]
        · rw [valueExpr_other _ _ hc, valueExpr_other _ _ hc]
    · intro h
      cases inp with
      | nil => rw [unaryExpr_nil, unaryExpr_nil]
      | cons c cs =>
        by_cases hc : c = '-'
        · subst hc
          rw [unaryExpr_cons_neg] at h ⊢
          rw [unaryExpr_cons_neg]
          cases ha : valueExpr f cs with
          | fuelOut => rw [ha] at h; exact absurd rfl h
          | ok e rest => rw [(ih _).1 (by rw [ha]; simp), ha]
          | fail p => rw [(ih _).1 (by rw [ha]; simp), ha]
        · rw [unaryExpr_other _ _ hc] at h ⊢
          rw [unaryExpr_other _ _ hc]
          cases ha : valueExpr f (c :: cs) with
          | fuelOut => rw [ha] at h; exact absurd rfl h
          | ok e rest => rw [(ih _).1 (by rw [ha]; simp), ha]
          | fail p => rw [(ih _).1 (by rw [ha]; simp), ha]
    · intro h
      rw [mulExpr_succ] at h ⊢
      rw [mulExpr_succ]
      cases ha : unaryExpr f inp with
      | fuelOut => rw [ha] at h; exact absurd rfl h
      | ok e rest =>
        rw [ha] at h
        rw [(ih _).2.1 (by rw [ha]; simp), ha]
        exact (ih _).2.2.2.1 _ h
      | fail p => rw [(ih _).2.1 (by rw [ha]; simp), ha]
    · intro l h
      rw [mulLoop_succ] at h ⊢
      rw [mulLoop_succ]
      cases hs : sepOp mulOp inp with
      | none => rfl
      | some x =>
        obtain ⟨op, r⟩ := x
        rw [hs] at h
        simp only at h ⊢
        cases ha : unaryExpr f r with
        | fuelOut => rw [ha] at h; exact absurd rfl h
        | ok e rest =>
          rw [ha] at h
          rw [(ih _).2.1 (by rw [ha]; simp), ha]
          exact (ih _).2.2.2.1 _ h
        | fail p => rw [(ih _).2.1 (by rw [ha]; simp), ha]
    · intro h
      rw [addExpr_succ] at h ⊢
      rw [addExpr_succ]
      cases ha : mulExpr f inp with
      | fuelOut => rw [ha] at h; exact absurd rfl h
      | ok e rest =>
        rw [ha] at h
        rw [(ih _).2.2.1 (by rw [ha]; simp), ha]
        exact (ih _).2.2.2.2.2 _ h
      | fail p => rw [(ih _).2.2.1 (by rw [ha]; simp), ha]
    · intro l h
      rw [addLoop_succ] at h ⊢
      rw [addLoop_succ]
      cases hs : sepOp addOp inp with
      | none => rfl
      | some x =>
        obtain ⟨op, r⟩ := x
        rw [hs] at h
        simp only at h ⊢
        cases ha : mulExpr f r with
        | fuelOut => rw [ha] at h; exact absurd rfl h
        | ok e rest =>
          rw [ha] at h
          rw [(ih _).2.2.1 (by rw [ha]; simp), ha]
          exact (ih _).2.2.2.2.2 _ h
        | fail p => rw [(ih _).2.2.1 (by rw [ha]; simp), ha]

/-- more fuel does not change a result that is not `fuelOut` -/
theorem valueExpr_mono_add {f : Nat} {inp : List Char} (h : valueExpr f inp ≠ .fuelOut) :
    ∀ k, valueExpr (f + k) inp = valueExpr f inp := by
  intro k
  induction k with
  | zero => rfl
  | succ k ih =>
    have : valueExpr (f + k) inp ≠ .fuelOut := by rw [ih]; exact h
    rw [← Nat.add_assoc, (mono (f + k) inp).1 this, ih]

/-- a result obtained for all sufficiently large fuel is the result with the fuel the model passes -/
theorem parseValueExpr_of_eventually {inp r : List Char} {v : VExpr} {n : Nat}
    (h : ∀ f, n ≤ f → valueExpr f inp = .ok v r) : parseValueExpr inp = .ok v r := by
  have h1 := valueExpr_mono_add (parseValueExpr_ne_fuelOut inp) n
  unfold parseValueExpr at h1 ⊢
  rw [← h1]
  exact h _ (by omega)

end Okane.ExprSyntax
