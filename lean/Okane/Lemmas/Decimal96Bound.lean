import Okane.Lemmas.Decimal96Rescale
import Okane.Lemmas.Decimal96Div
import Okane.Lemmas.Decimal96Mul
/-!
# Outside the exact range: `*` always, and `+`/`-` except in the crate's borrow defect, return the exact result rounded
to half a unit of the last place of the RESULT (or report overflow)

`mul_bound`: every `Ok` product is well-formed and within `halfUlp r.scale` of `val a * val b`.
`addSub_bound`: every `Ok` sum/difference of well-formed operands is well-formed and within `halfUlp r.scale` of the exact
value, PROVIDED the operands do not hit `SubDefect` — the three-part condition under which `unaligned_add`'s borrow loop
corrupts the 192-bit buffer (an effective subtraction, a borrow out of the low 96 bits, a rescaled operand of 129 bits or
more whose word 3 is 0 or 1).  `Props/Decimal.lean` shows by a kernel-checked run that the bound fails under `SubDefect`.
-/
namespace Okane.Dec96

/-! ## from integers to `Rat` -/

theorem int_round_to_rat (ri X : Int) (s K : Nat)
    (h : 2 * (ri * 10 ^ K - X).natAbs ≤ 10 ^ K) :
    (X : Rat) / (10 : Rat) ^ (s + K) - halfUlp s ≤ (ri : Rat) / (10 : Rat) ^ s ∧
    (ri : Rat) / (10 : Rat) ^ s ≤ (X : Rat) / (10 : Rat) ^ (s + K) + halfUlp s := by
  unfold halfUlp
  have ps := pow10_pos s
  have pK := pow10_pos K
  have hP : (0 : Rat) < 2 * 10 ^ s * 10 ^ K := Rat.mul_pos (Rat.mul_pos (by decide) ps) pK
  have hcast : ((10 ^ K : Nat) : Int) = (10 : Int) ^ K := by simp
  have h1 : 2 * (ri * 10 ^ K - X) ≤ 10 ^ K := by omega
  have h2 : -(10 ^ K : Int) ≤ 2 * (ri * 10 ^ K - X) := by omega
  have c1 : ((2 * (ri * 10 ^ K - X) : Int) : Rat) ≤ ((10 ^ K : Int) : Rat) := Rat.intCast_le_intCast.mpr h1
  have c2 : ((-(10 ^ K : Int) : Int) : Rat) ≤ ((2 * (ri * 10 ^ K - X) : Int) : Rat) := Rat.intCast_le_intCast.mpr h2
  simp only [Rat.intCast_mul, Rat.intCast_sub, Rat.intCast_neg, intCast_pow10] at c1 c2
  have e2 : ((2 : Int) : Rat) = 2 := rfl
  rw [e2] at c1 c2
  have nps := pow10_ne_zero s
  have npK := pow10_ne_zero K
  constructor
  · apply Rat.le_of_mul_le_mul_right _ hP
    have e1 : ((X : Rat) / 10 ^ (s + K) - 1 / (2 * 10 ^ s)) * (2 * 10 ^ s * 10 ^ K) = 2 * X - 10 ^ K := by
      rw [pow10_add]; grind
    have e3 : (ri : Rat) / 10 ^ s * (2 * 10 ^ s * 10 ^ K) = 2 * (ri * 10 ^ K) := by grind
    rw [e1, e3]; grind
  · apply Rat.le_of_mul_le_mul_right _ hP
    have e1 : ((X : Rat) / 10 ^ (s + K) + 1 / (2 * 10 ^ s)) * (2 * 10 ^ s * 10 ^ K) = 2 * X + 10 ^ K := by
      rw [pow10_add]; grind
    have e3 : (ri : Rat) / 10 ^ s * (2 * 10 ^ s * 10 ^ K) = 2 * (ri * 10 ^ K) := by grind
    rw [e1, e3]; grind

/-- magnitudes to signed: the same sign on both sides -/
theorem signed_natAbs (sg : Bool) (m X K : Nat) (h1 : 2 * (m * 10 ^ K) ≤ 2 * X + 10 ^ K) (h2 : 2 * X ≤ 2 * (m * 10 ^ K) + 10 ^ K) :
    2 * ((sgn sg * (m : Int)) * 10 ^ K - sgn sg * (X : Int)).natAbs ≤ 10 ^ K := by
  have e : ((m * 10 ^ K : Nat) : Int) = (m : Int) * 10 ^ K := by simp
  generalize hMK : m * 10 ^ K = MK at h1 h2 e
  have : (m : Int) * 10 ^ K = (MK : Int) := e.symm
  cases sg
  · simp only [sgn_false, Int.one_mul]; rw [this]; omega
  · simp only [sgn_true]
    have e2 : -1 * (m : Int) * 10 ^ K = -((m : Int) * 10 ^ K) := by grind
    rw [e2, this]; omega

theorem halfUlp_nonneg (s : Nat) : 0 ≤ halfUlp s := by
  unfold halfUlp
  have := pow10_pos s
  have h2 : (0 : Rat) < 2 * 10 ^ s := Rat.mul_pos (by decide) this
  rw [Rat.div_def, Rat.one_mul]
  exact Rat.le_of_lt (Rat.inv_pos.mpr h2)

/-! ## multiplication -/

theorem upperWord_lt (x : Nat) : x < 2 ^ (32 * (upperWord x + 1)) := by
  unfold upperWord
  split
  · rename_i h; subst h; exact Nat.pow_pos (by decide)
  · have h1 : x < 2 ^ (x.log2 + 1) := Nat.lt_log2_self
    have h2 : 2 ^ (x.log2 + 1) ≤ 2 ^ (32 * (x.log2 / 32 + 1)) := Nat.pow_le_pow_right (by decide) (by omega)
    omega

theorem divHalfEven_bound (x t : Nat) (ht : 1 ≤ t) :
    2 * (divHalfEven x (10 ^ t) * 10 ^ t) ≤ 2 * x + 10 ^ t ∧ 2 * x ≤ 2 * (divHalfEven x (10 ^ t) * 10 ^ t) + 10 ^ t := by
  unfold divHalfEven
  simp only
  obtain ⟨hTe, _⟩ := pow10_even t ht
  have hT := natpow10_pos t
  have hdm := Nat.div_add_mod x (10 ^ t)
  have hrl : x % 10 ^ t < 10 ^ t := Nat.mod_lt _ hT
  generalize 10 ^ t / 2 = h at hTe ⊢
  generalize 10 ^ t = T at hTe hT hdm hrl ⊢
  generalize x / T = q at hdm ⊢
  generalize x % T = r at hdm hrl ⊢
  have e1 : (q + 1) * T = q * T + T := by grind
  have e2 : T * q = q * T := Nat.mul_comm _ _
  split
  · rw [e1]; omega
  · omega

/-- integer level: every `Ok` product is `±m` at scale `s'` with `s' + K = sa + sb` and `2·|m·10^K − A·B| ≤ 10^K` -/
theorem mulImpl_bound_int (a b r : D96) (h : mulImpl a b = .ok r) :
    r.mant < 2 ^ 96 ∧ r.scale ≤ 28 ∧ ∃ K, r.scale + K = a.scale + b.scale ∧
      2 * (r.int * 10 ^ K - a.int * b.int).natAbs ≤ 10 ^ K := by
  unfold mulImpl at h
  by_cases h0 : a.mant = 0 ∨ b.mant = 0
  · simp only [h0, if_true, Calc.ok.injEq] at h
    subst h
    have hz : a.int * b.int = 0 := by
      rcases h0 with h0 | h0
      · rw [(int_eq_zero_iff a).mpr h0, Int.zero_mul]
      · rw [(int_eq_zero_iff b).mpr h0, Int.mul_zero]
    refine ⟨by decide, by decide, a.scale + b.scale, by simp [zero], ?_⟩
    rw [hz]; simp [zero, D96.int]
  · simp only [h0, if_false] at h
    rw [int_mul_int]
    by_cases h32 : a.mant < two32 ∧ b.mant < two32
    · simp only [h32, and_self, if_true] at h
      have hp64 : a.mant * b.mant < 2 ^ 64 := by
        have := Nat.mul_lt_mul'' h32.1 h32.2
        unfold two32 at this; omega
      by_cases hs : a.scale + b.scale > 28
      · simp only [hs, if_true] at h
        by_cases hs47 : a.scale + b.scale > 28 + 19
        · simp only [hs47, if_true, Calc.ok.injEq] at h
          subst h
          refine ⟨by decide, by decide, a.scale + b.scale, by simp [zero], ?_⟩
          have : 10 ^ 48 ≤ 10 ^ (a.scale + b.scale) := pow10_mono _ _ (by omega)
          have e0 : zero.int = 0 := by simp [zero, D96.int]
          rw [e0, Int.zero_mul, Int.zero_sub]
          cases (a.neg != b.neg) <;> simp [sgn] <;> omega
        · simp only [hs47, if_false, Calc.ok.injEq] at h
          subst h
          obtain ⟨hb1, hb2⟩ := divHalfEven_bound (a.mant * b.mant) (a.scale + b.scale - 28) (by omega)
          have hT : 10 ≤ 10 ^ (a.scale + b.scale - 28) := by
            have := pow10_mono 1 (a.scale + b.scale - 28) (by omega); simpa using this
          refine ⟨?_, by simp, a.scale + b.scale - 28, by simp; omega, ?_⟩
          · simp only [fromParts_mant]
            -- divHalfEven x T ≤ x / T + 1 ≤ x
            unfold divHalfEven
            have : a.mant * b.mant / 10 ^ (a.scale + b.scale - 28) ≤ a.mant * b.mant := Nat.div_le_self _ _
            simp only
            split <;> omega
          · rw [fromParts_int]
            exact signed_natAbs _ _ _ _ hb1 hb2
      · simp only [hs, if_false, Calc.ok.injEq] at h
        subst h
        refine ⟨by simp; omega, by simp; omega, 0, by simp, ?_⟩
        rw [fromParts_int]; simp
    · simp only [h32, if_false] at h
      by_cases hre : upperWord (a.mant * b.mant) > 2 ∨ a.scale + b.scale > 28
      · simp only [hre, if_true] at h
        cases hb : bufRescale (a.mant * b.mant) (upperWord (a.mant * b.mant)) (a.scale + b.scale) with
        | none => rw [hb] at h; cases h
        | some ms =>
          obtain ⟨m, s'⟩ := ms
          rw [hb] at h
          simp only [Calc.ok.injEq] at h
          subst h
          obtain ⟨K, hK, hs28, hm, hb1, hb2⟩ := bufRescale_spec _ _ _ m s' (upperWord_lt _) hb
          refine ⟨hm, hs28, K, hK, ?_⟩
          rw [fromParts_int]
          exact signed_natAbs _ _ _ _ hb1 hb2
      · simp only [hre, if_false, Calc.ok.injEq] at h
        subst h
        have hfit : a.mant * b.mant < 2 ^ 96 := by
          have hu : upperWord (a.mant * b.mant) ≤ 2 := by omega
          have := upperWord_lt (a.mant * b.mant)
          have h2 : 2 ^ (32 * (upperWord (a.mant * b.mant) + 1)) ≤ 2 ^ 96 := Nat.pow_le_pow_right (by decide) (by omega)
          omega
        refine ⟨hfit, by simp; omega, 0, by simp, ?_⟩
        rw [fromParts_int]; simp

/-- **`*`, `*=`, `checked_mul` outside the exact range**: whatever product the crate returns is well-formed and within half a
unit of ITS last place of the exact product (half-even at the scale it could keep; `Overflow` otherwise). -/
theorem mul_bound (a b r : D96) (h : mulImpl a b = .ok r) :
    r.wf ∧ val a * val b - halfUlp r.scale ≤ val r ∧ val r ≤ val a * val b + halfUlp r.scale := by
  obtain ⟨hm, hs, K, hK, hb⟩ := mulImpl_bound_int a b r h
  have := int_round_to_rat r.int (a.int * b.int) r.scale K hb
  rw [hK] at this
  refine ⟨⟨hm, hs⟩, ?_, ?_⟩
  · rw [val_mul_eq]; exact this.1
  · rw [val_mul_eq]; exact this.2


/-! ## addition and subtraction -/

/-- the condition under which the borrow loop of `unaligned_add` corrupts the buffer: a borrow out of the low 96 bits of
the rescaled operand `v`, whose word 3 is 0 or 1, while `v` has 129 bits or more. -/
def SubDefect (v r : Nat) : Prop := v % 2 ^ 96 < r ∧ v / 2 ^ 96 % 2 ^ 32 ≤ 1 ∧ 2 ^ 128 ≤ v

instance (v r : Nat) : Decidable (SubDefect v r) := by unfold SubDefect; exact inferInstance

theorem upperWord_cases (v : Nat) (h1 : 2 ^ 96 ≤ v) (h2 : v < 2 ^ 192) :
    (upperWord v = 3 ∧ v < 2 ^ 128) ∨ (upperWord v = 4 ∧ 2 ^ 128 ≤ v ∧ v < 2 ^ 160) ∨ (upperWord v = 5 ∧ 2 ^ 160 ≤ v) := by
  unfold upperWord
  have hv : v ≠ 0 := by omega
  simp only [hv, if_false]
  have a : 96 ≤ v.log2 := (Nat.le_log2 hv).mpr h1
  have b : v.log2 < 192 := (Nat.log2_lt hv).mpr h2
  by_cases c1 : v < 2 ^ 128
  · left; have := (Nat.log2_lt hv).mpr c1; omega
  · by_cases c2 : v < 2 ^ 160
    · right; left
      have := (Nat.log2_lt hv).mpr c2
      have := (Nat.le_log2 hv).mpr (by omega : 2 ^ 128 ≤ v)
      omega
    · right; right
      have := (Nat.le_log2 hv).mpr (by omega : 2 ^ 160 ≤ v)
      omega

theorem borrowWords_ok (w3 w4 w5 : Nat) (h : 2 ≤ w3) (hw : w3 < 2 ^ 32) : borrowWords w3 w4 w5 = (w3 - 1, w4, w5) := by
  unfold borrowWords two32
  have e : (w3 + 2 ^ 32 - 1) % 2 ^ 32 = w3 - 1 := by omega
  have hpos : w3 - 1 > 0 := by omega
  simp only [e, hpos, if_true]

/-- outside `SubDefect` the buffer subtraction is the subtraction. -/
theorem bufSub_correct (v r : Nat) (hv1 : 2 ^ 96 ≤ v) (hv2 : v < 2 ^ 192) (hr : r < 2 ^ 96) (hn : ¬ SubDefect v r) :
    bufSub v r = v - r := by
  unfold SubDefect at hn
  unfold bufSub
  simp only [two96, two32]
  have hw3lt : v / 2 ^ 96 % 2 ^ 32 < 2 ^ 32 := by omega
  by_cases hbor : v % 2 ^ 96 < r
  · simp only [hbor, if_true]
    by_cases h2 : 2 ≤ v / 2 ^ 96 % 2 ^ 32
    · rw [borrowWords_ok _ _ _ h2 hw3lt]
      dsimp only
      rcases upperWord_cases v hv1 hv2 with ⟨hu, hb⟩ | ⟨hu, hb1, hb2⟩ | ⟨hu, hb⟩ <;> rw [hu] <;> omega
    · have hlt : v < 2 ^ 128 := by omega
      have hv97 : v < 2 ^ 97 := by omega
      have e1 : v / 2 ^ 96 % 2 ^ 32 = 1 := by omega
      have e2 : v / 2 ^ 128 % 2 ^ 32 = 0 := by omega
      have e3 : v / 2 ^ 160 % 2 ^ 32 = 0 := by omega
      rw [e1, e2, e3, upperWord_eq3 v hv1 hlt]
      have : borrowWords 1 0 0 = (0, 2 ^ 32 - 1, 0) := by decide
      rw [this]
      dsimp only
      omega
  · simp only [hbor, if_false]
    rcases upperWord_cases v hv1 hv2 with ⟨hu, hb⟩ | ⟨hu, hb1, hb2⟩ | ⟨hu, hb⟩ <;> rw [hu] <;> omega

theorem alignedAdd_bound (l r : Nat) (neg : Bool) (sc : Nat) (sub : Bool) (d : D96) (hl : l < 2 ^ 96) (hr : r < 2 ^ 96)
    (h : alignedAdd l r neg sc sub = .ok d) :
    d.mant < 2 ^ 96 ∧ ∃ K, d.scale + K = sc ∧ 2 * (d.int * 10 ^ K - sgn neg * ((l : Int) + sgn sub * r)).natAbs ≤ 10 ^ K := by
  by_cases hex : sub = false → l + r < 2 ^ 96
  · obtain ⟨d', hd', hs, hi⟩ := alignedAdd_spec l r neg sc sub hex
    rw [hd'] at h; cases h
    refine ⟨?_, 0, by omega, by rw [hi]; simp⟩
    rw [← int_natAbs d, hi]
    cases sub
    · have := hex rfl; cases neg <;> simp [sgn] <;> omega
    · cases neg <;> simp [sgn] <;> omega
  · have hsub : sub = false := by
      cases sub
      · rfl
      · exact absurd (fun h => by cases h) hex
    subst hsub
    have hov : ¬ l + r < 2 ^ 96 := fun h => hex (fun _ => h)
    unfold alignedAdd at h
    simp only [Bool.false_eq_true, if_false, two96, hov] at h
    by_cases hsc : sc = 0
    · simp [hsc] at h
    · simp only [hsc, if_false, Calc.ok.injEq] at h
      subst h
      obtain ⟨hb1, hb2⟩ := divHalfEven_bound (l + r) 1 (by omega)
      simp only [Nat.pow_one] at hb1 hb2
      refine ⟨?_, 1, by simp; omega, ?_⟩
      · simp only [fromParts_mant]
        unfold divHalfEven; simp only; split <;> omega
      · rw [fromParts_int]
        have := signed_natAbs neg (divHalfEven (l + r) 10) (l + r) 1 (by simpa using hb1) (by simpa using hb2)
        simpa [sgn] using this

theorem unalignedAdd_bound (l r : Nat) (neg : Bool) (sc rf : Nat) (sub : Bool) (d : D96) (hl : l < 2 ^ 96) (hr : r < 2 ^ 96)
    (hrf : rf ≤ 28) (hnd : sub = true → ¬ SubDefect (l * 10 ^ rf) r) (h : unalignedAdd l r neg sc rf sub = .ok d) :
    d.mant < 2 ^ 96 ∧ ∃ K, d.scale + K = sc ∧
      2 * (d.int * 10 ^ K - sgn neg * (((l * 10 ^ rf : Nat) : Int) + sgn sub * r)).natAbs ≤ 10 ^ K := by
  have hv192 : l * 10 ^ rf < 2 ^ 192 := by
    have h1 : 10 ^ rf ≤ 10 ^ 28 := pow10_mono _ _ hrf
    have h2 : l * 10 ^ rf ≤ l * 10 ^ 28 := Nat.mul_le_mul_left _ h1
    omega
  unfold unalignedAdd at h
  generalize l * 10 ^ rf = v at h hnd hv192 ⊢
  simp only at h
  by_cases hv : v < two96
  · simp only [hv, if_true] at h
    exact alignedAdd_bound v r neg sc sub d (by unfold two96 at hv; exact hv) hr h
  · simp only [hv, if_false] at h
    unfold two96 at hv
    cases sub
    · simp only [Bool.false_eq_true, if_false] at h
      cases hb : bufRescale (v + r) (upperWord (v + r)) sc with
      | none => rw [hb] at h; cases h
      | some ms =>
        obtain ⟨m, s'⟩ := ms
        rw [hb] at h; simp only [Calc.ok.injEq] at h; subst h
        obtain ⟨K, hK, _, hm, hb1, hb2⟩ := bufRescale_spec _ _ _ m s' (upperWord_lt _) hb
        refine ⟨hm, K, hK, ?_⟩
        rw [fromParts_int]
        have := signed_natAbs neg m (v + r) K hb1 hb2
        simpa [sgn] using this
    · simp only [if_true] at h
      have hbs := bufSub_correct v r (by omega) hv192 hr (hnd rfl)
      rw [hbs] at h
      cases hb : bufRescale (v - r) (upperWord v) sc with
      | none => rw [hb] at h; cases h
      | some ms =>
        obtain ⟨m, s'⟩ := ms
        rw [hb] at h; simp only [Calc.ok.injEq] at h; subst h
        have hlt : v - r < 2 ^ (32 * (upperWord v + 1)) := by have := upperWord_lt v; omega
        obtain ⟨K, hK, _, hm, hb1, hb2⟩ := bufRescale_spec _ _ _ m s' hlt hb
        refine ⟨hm, K, hK, ?_⟩
        rw [fromParts_int]
        have := signed_natAbs neg m (v - r) K hb1 hb2
        have e : ((v - r : Nat) : Int) = (v : Int) + sgn true * (r : Int) := by simp [sgn]; omega
        rw [e] at this; exact this

/-- the defect condition on the operands of `add_sub_internal` -/
def SubDefectD (a b : D96) (subtract : Bool) : Prop :=
  (subtract != (a.neg != b.neg)) = true ∧
    ((b.scale < a.scale ∧ SubDefect (b.mant * 10 ^ (a.scale - b.scale)) a.mant) ∨
     (a.scale < b.scale ∧ SubDefect (a.mant * 10 ^ (b.scale - a.scale)) b.mant))

instance (a b : D96) (s : Bool) : Decidable (SubDefectD a b s) := by unfold SubDefectD; exact inferInstance

theorem fastAdd_mant (lo1 lo2 : Nat) (neg : Bool) (sc : Nat) (sub : Bool) (d : D96) (h1 : lo1 < 2 ^ 32) (h2 : lo2 < 2 ^ 32)
    (h : fastAdd lo1 lo2 neg sc sub = .ok d) : d.mant < 2 ^ 96 := by
  unfold fastAdd at h
  split at h
  · split at h <;> (cases h; simp only [fromParts_mant]; omega)
  · cases h; simp only [fromParts_mant]; omega

/-- non-zero operands outside the defect: the result is the exact aligned sum rounded at some scale `≤ max` -/
theorem addSub_bound_nz (a b r : D96) (subtract : Bool) (ha : a.wf) (hb : b.wf) (ha0 : a.mant ≠ 0) (hb0 : b.mant ≠ 0)
    (hnd : ¬ SubDefectD a b subtract) (h : addSub a b subtract = .ok r) :
    r.mant < 2 ^ 96 ∧ ∃ K, r.scale + K = max a.scale b.scale ∧
      2 * (r.int * 10 ^ K - alignedSum a b subtract).natAbs ≤ 10 ^ K := by
  obtain ⟨ham, has⟩ := ha
  obtain ⟨hbm, hbs⟩ := hb
  unfold alignedSum
  rw [int_scaled a, int_scaled b, sign_identity]
  unfold SubDefectD at hnd
  unfold addSub at h
  simp only [ha0, hb0, if_false] at h
  generalize hsub : (subtract != (a.neg != b.neg)) = eff at h hnd ⊢
  rcases Nat.lt_trichotomy a.scale b.scale with hlt | heq | hgt
  · have hmax : max a.scale b.scale = b.scale := by omega
    rw [hmax]
    have e1 : b.scale - b.scale = 0 := by omega
    rw [e1]; simp only [Nat.pow_zero, Nat.mul_one]
    have hne : ¬ a.scale = b.scale := by omega
    have hnlt : ¬ b.scale < a.scale := by omega
    simp only [hne, hnlt, if_false] at h
    split at h
    · rename_i c hc
      split at hc
      · rename_i h32
        cases hr : rescale32 a.mant (b.scale - a.scale) with
        | none => rw [hr] at hc; cases hc
        | some m1 =>
          rw [hr] at hc
          simp only [Option.map_some, Option.some.injEq] at hc
          subst hc
          have hm1 := rescale32_some _ _ _ hr
          have hm1lt : m1 < 2 ^ 32 := by
            unfold rescale32 at hr
            split at hr
            · cases hr
            · split at hr
              · rename_i hf; cases hr; unfold two32 at hf; exact hf
              · cases hr
          subst hm1
          obtain ⟨d, hd, hs, hi⟩ := fastAdd_spec (a.mant * 10 ^ (b.scale - a.scale)) b.mant a.neg b.scale eff
          rw [hd] at h; cases h
          exact ⟨fastAdd_mant _ _ _ _ _ _ hm1lt (by unfold two32 at h32; exact h32.2) hd, 0, by omega, by rw [hi]; simp⟩
      · cases hc
    · have hnd' : eff = true → ¬ SubDefect (a.mant * 10 ^ (b.scale - a.scale)) b.mant := by
        intro he hd; exact hnd ⟨he, Or.inr ⟨hlt, hd⟩⟩
      exact unalignedAdd_bound a.mant b.mant a.neg b.scale (b.scale - a.scale) eff r ham hbm (by omega) hnd' h
  · have hmax : max a.scale b.scale = a.scale := by omega
    rw [hmax]
    have e1 : a.scale - a.scale = 0 := by omega
    have e2 : a.scale - b.scale = 0 := by omega
    rw [e1, e2]; simp only [Nat.pow_zero, Nat.mul_one]
    simp only [heq, if_true] at h
    split at h
    · rename_i c hc
      split at hc
      · rename_i h32
        simp only [Option.some.injEq] at hc
        subst hc
        obtain ⟨d, hd, hs, hi⟩ := fastAdd_spec a.mant b.mant a.neg b.scale eff
        rw [hd] at h; cases h
        unfold two32 at h32
        exact ⟨fastAdd_mant _ _ _ _ _ _ h32.1 h32.2 hd, 0, by omega, by rw [hi]; simp⟩
      · cases hc
    · rw [heq]
      exact alignedAdd_bound a.mant b.mant a.neg b.scale eff r ham hbm h
  · have hmax : max a.scale b.scale = a.scale := by omega
    rw [hmax]
    have e1 : a.scale - a.scale = 0 := by omega
    rw [e1]; simp only [Nat.pow_zero, Nat.mul_one]
    have hne : ¬ a.scale = b.scale := by omega
    simp only [hne, hgt, if_false, if_true] at h
    split at h
    · rename_i c hc
      split at hc
      · rename_i h32
        cases hr : rescale32 b.mant (a.scale - b.scale) with
        | none => rw [hr] at hc; cases hc
        | some m2 =>
          rw [hr] at hc
          simp only [Option.map_some, Option.some.injEq] at hc
          subst hc
          have hm2 := rescale32_some _ _ _ hr
          have hm2lt : m2 < 2 ^ 32 := by
            unfold rescale32 at hr
            split at hr
            · cases hr
            · split at hr
              · rename_i hf; cases hr; unfold two32 at hf; exact hf
              · cases hr
          subst hm2
          obtain ⟨d, hd, hs, hi⟩ := fastAdd_spec a.mant (b.mant * 10 ^ (a.scale - b.scale)) a.neg a.scale eff
          rw [hd] at h; cases h
          exact ⟨fastAdd_mant _ _ _ _ _ _ (by unfold two32 at h32; exact h32.1) hm2lt hd, 0, by omega, by rw [hi]; simp⟩
      · cases hc
    · have hnd' : eff = true → ¬ SubDefect (b.mant * 10 ^ (a.scale - b.scale)) a.mant := by
        intro he hd; exact hnd ⟨he, Or.inl ⟨hgt, hd⟩⟩
      obtain ⟨hm, K, hK, hbd⟩ :=
        unalignedAdd_bound b.mant a.mant (eff != a.neg) a.scale (a.scale - b.scale) eff r hbm ham (by omega) hnd' h
      refine ⟨hm, K, hK, ?_⟩
      rw [sgn_bne] at hbd
      generalize ((b.mant * 10 ^ (a.scale - b.scale) : Nat) : Int) = B at hbd ⊢
      generalize r.int * 10 ^ K = R at hbd ⊢
      generalize a.neg = na at hbd ⊢
      cases na <;> cases eff <;>
        simp only [sgn_true, sgn_false, Int.one_mul, Int.mul_one, Int.neg_mul, Int.neg_neg] at hbd ⊢ <;> omega

/-- **`+`, `-`, `checked_add`, `checked_sub` outside the exact range**: for well-formed operands outside `SubDefectD`, whatever
the crate returns is well-formed and within half a unit of ITS last place of the exact sum / difference. -/
theorem addSub_bound (a b r : D96) (subtract : Bool) (ha : a.wf) (hb : b.wf) (hnd : ¬ SubDefectD a b subtract)
    (h : addSub a b subtract = .ok r) :
    r.wf ∧ val a + sgnR subtract * val b - halfUlp r.scale ≤ val r ∧
      val r ≤ val a + sgnR subtract * val b + halfUlp r.scale := by
  have hh := halfUlp_nonneg r.scale
  by_cases ha0 : a.mant = 0
  · rw [addSub_zero_left a b subtract ha0] at h
    cases h
    have hv : val (if (subtract && b.mant != 0) = true then negate b else b) = val a + sgnR subtract * val b := by
      rw [val_of_mant_zero a ha0, Rat.zero_add]
      by_cases hb0 : b.mant = 0
      · simp [hb0, val_of_mant_zero b hb0]
      · have : (b.mant != 0) = true := by simpa using hb0
        cases subtract
        · simp [sgnR]
        · simp [this, sgnR, val_negate, Rat.neg_mul]
    refine ⟨by split; exact negate_wf b hb; exact hb, ?_, ?_⟩ <;> rw [hv] <;> grind
  · by_cases hb0 : b.mant = 0
    · rw [addSub_zero_right a b subtract ha0 hb0] at h
      cases h
      have hv : val a + sgnR subtract * val b = val a := by
        rw [val_of_mant_zero b hb0, Rat.mul_zero, Rat.add_zero]
      refine ⟨ha, ?_, ?_⟩ <;> rw [hv] <;> grind
    · obtain ⟨hm, K, hK, hbd⟩ := addSub_bound_nz a b r subtract ha hb ha0 hb0 hnd h
      have := int_round_to_rat r.int (alignedSum a b subtract) r.scale K hbd
      rw [hK] at this
      refine ⟨⟨hm, by have := ha.2; have := hb.2; omega⟩, ?_, ?_⟩
      · rw [val_addsub_eq]; exact this.1
      · rw [val_addsub_eq]; exact this.2

end Okane.Dec96
