import Okane.Props.C19
import Okane.Lemmas.PrintersAgree
/-!
# The C19 layout theorems, restated for `Okane.Unparse` (the printer of the C05 round trip)

`Okane.Lemmas.PrintersAgree` proves `Unparse.printEntry (strWidth cx.w) = Print.printEntryG cx`.  Here the main C19 theorems
(`C19_gap`, `C19_column`, `C19_fallback`, `C19_balance`, `C19_balance_fallback`, `C19_balance_same_column`, `C19_indent`,
`C19_blank`) are carried over to the text `Unparse.printPosting` / `Unparse.printEntry` / `Unparse.formatEntries` write — the
very text whose read-back C05 proves.

Everything holds for every context `cx` with the number printer of `DisplayContext::default()` (`NumIs cx noPrec`) and a
width function `cx.w` that gives one column to the characters of numbers (`NumW`), to `( ) - + * /` and the blank (`SymOK`)
and to `!` — `LayoutW cx.w`; instances: unicode-width's table `Print.widthCjk` (`layoutW_widthCjk`), the C05 driver's
`Unparse.charWidthCjk` and the constant 1 (`Unparse.widthCjk`, `Unparse.widthStd`).  Posting-level theorems need the year of
the lot date to be at most 9999 (`postingDatesOK`, see `PrintersAgree`).

The vocabulary (`gapWidth`, `afterGap`, `numericPart`, `afterNumeric`, `headUpToNumber`, `beforeEq`, `linesOf`) is that of
`Okane.Spec.Print`; `numericPart_unparse` / `afterNumeric_unparse` express the numeric part with `Unparse`'s own functions.
-/
set_option linter.unusedSimpArgs false

namespace Okane.PrintersAgree
open Okane Okane.Print

theorem spaces_two : spaces 2 = [' ', ' '] := rfl

theorem flatMap_congr' {α β : Type} {l : List α} {f g : α → List β} (h : ∀ x ∈ l, f x = g x) :
    l.flatMap f = l.flatMap g := by
  induction l with
  | nil => rfl
  | cons x l ih =>
    simp only [List.flatMap_cons]
    rw [h x List.mem_cons_self, ih (fun y hy => h y (List.mem_cons_of_mem _ hy))]

/-! ## hypotheses on the width function -/

/-- the characters numbers are printed with (`[0-9,.-]`) take one column -/
def NumW (wc : Char → Nat) : Prop := ∀ c, NumChar c → wc c = 1

/-- what the layout theorems need of a per-character width function: one column for the characters of numbers, for the
punctuation of expressions and the blank, and for the pending mark (all true of unicode-width) -/
structure LayoutW (wc : Char → Nat) : Prop where
  num : NumW wc
  sym : SymOK wc
  bang : wc '!' = 1

theorem LayoutW.clearOK {wc : Char → Nat} (h : LayoutW wc) : ClearOK wc :=
  ClearOK.of_chars (h.sym '*' (by simp)) h.bang (h.sym ' ' (by simp))

theorem numOK_of_numIs {cx : Ctx} {prec : String → Nat} (h : NumIs cx prec) (hw : NumW cx.w) : NumOK cx := by
  intro v c ch hch
  rw [h v c] at hch
  have hn := mem_printPDec _ ch hch
  exact ⟨hn.narrow.1, hw ch hn⟩

theorem numNoLF_of_numIs {cx : Ctx} {prec : String → Nat} (h : NumIs cx prec) : NumNoLF cx := by
  intro v c
  rw [h v c]
  exact nlf_of_numChars (mem_printPDec _)

theorem numW_of_digits {wc : Char → Nat} (hd : ∀ k, k < 10 → wc (Literal.digitChar k) = 1)
    (h1 : wc '-' = 1) (h2 : wc '.' = 1) (h3 : wc ',' = 1) : NumW wc := by
  intro c hc
  rcases hc with ⟨k, hk, rfl⟩ | rfl | rfl | rfl
  · exact hd k hk
  · exact h1
  · exact h2
  · exact h3

theorem symOK_of_chars {wc : Char → Nat} (h : ∀ c ∈ ['(', ')', '-', '+', '*', '/', ' '], wc c = 1) : SymOK wc := h

/-- unicode-width's table -/
theorem layoutW_widthCjk : LayoutW widthCjk :=
  ⟨fun _ hc => hc.narrow.2, std_symOK (fun _ => 0), by decide⟩

/-- the C05 driver's table -/
theorem layoutW_charWidthCjk : LayoutW Unparse.charWidthCjk :=
  ⟨numW_of_digits (by decide) (by decide) (by decide) (by decide), symOK_of_chars (by decide), by decide⟩

/-- one column per character (`Unparse.widthStd`) -/
theorem layoutW_one : LayoutW (fun _ => 1) :=
  ⟨fun _ _ => rfl, fun _ _ => rfl, rfl⟩

/-! ## the C19 vocabulary in `Unparse`'s own terms -/

theorem numericPart_unparse (cx : Ctx) (h : NumIs cx Unparse.noPrec) (v : VExpr) :
    numericPart cx v = (Unparse.printVExpr v).take (Unparse.alignVExpr v) := by
  rw [numericPart, fmtVExpr_fst_eq cx h, alignVExpr_eq cx h]

theorem afterNumeric_unparse (cx : Ctx) (h : NumIs cx Unparse.noPrec) (v : VExpr) :
    afterNumeric cx v = (Unparse.printVExpr v).drop (Unparse.alignVExpr v) := by
  rw [afterNumeric, fmtVExpr_fst_eq cx h, alignVExpr_eq cx h]

/-- the metadata lines under a posting, as `Unparse` writes them -/
abbrev metaText (p : Posting) : List Char := p.metadata.flatMap Unparse.printMetaLine

/-! ## the posting line -/

/-- what `Unparse.printPosting` writes is the posting line of `Print` (the subject of C19), a line feed, and the
metadata lines -/
theorem U19_posting (cx : Ctx) (h : NumIs cx Unparse.noPrec) (hc : ClearOK cx.w) (p : Posting)
    (hd : postingDatesOK p = true) :
    Unparse.printPosting (strWidth cx.w) p = postingHead cx p ++ '\n' :: metaText p := by
  rw [printPosting_eq cx h hc p hd, postingLines_eq, metaText, metaLines_eq]
  simp [unlines]

/-- **C19_gap** for `Unparse`: the posting text is four blanks, clear mark, account, a run of `gapWidth` blanks, what follows
(amount or `=`), the line feed and the metadata lines; the run has at least 2 blanks whenever something follows the account -/
theorem U19_gap (cx : Ctx) (h : NumIs cx Unparse.noPrec) (hc : ClearOK cx.w) (p : Posting)
    (hd : postingDatesOK p = true) :
    Unparse.printPosting (strWidth cx.w) p
      = spaces 4 ++ Unparse.printClear p.clear ++ p.account.toList ++ spaces (gapWidth cx p) ++ afterGap cx p
          ++ '\n' :: metaText p
    ∧ ((p.amount.isSome ∨ p.balance.isSome) → 2 ≤ gapWidth cx p) := by
  refine ⟨?_, (C19_gap cx p).2⟩
  rw [U19_posting cx h hc p hd, (C19_gap cx p).1, printClear_eq]

/-- **C19_column** for `Unparse`: on a short account the text up to the end of the numeric part of the amount is 52 columns
wide -/
theorem U19_column (cx : Ctx) (h : NumIs cx Unparse.noPrec) (hw : LayoutW cx.w) (p : Posting) (a : PostingAmount)
    (hd : postingDatesOK p = true) (ha : p.amount = some a)
    (hshort : strWidth cx.w (Unparse.printClear p.clear ++ p.account.toList)
                + ((Unparse.printVExpr a.amount).take (Unparse.alignVExpr a.amount)).length + 2 < 48) :
    Unparse.printPosting (strWidth cx.w) p
      = headUpToNumber cx p a
          ++ (afterNumeric cx a.amount ++ printLot cx a.lot ++ printCost cx a.cost ++ balancePart cx p ++ '\n' :: metaText p)
    ∧ headUpToNumber cx p a
      = spaces 4 ++ Unparse.printClear p.clear ++ p.account.toList ++ spaces (amountPad cx p a)
          ++ (Unparse.printVExpr a.amount).take (Unparse.alignVExpr a.amount)
    ∧ strWidth cx.w (headUpToNumber cx p a) = 52 := by
  rw [printClear_eq, ← numericPart_unparse cx h] at hshort
  have := C19_column_display cx (numOK_of_numIs h hw.num) hw.sym p a ha hshort
  refine ⟨?_, ?_, this.2⟩
  · rw [U19_posting cx h hw.clearOK p hd, this.1]
    simp
  · rw [headUpToNumber, numericPart_unparse cx h, printClear_eq]

/-- **C19_fallback** for `Unparse`: on a long account exactly 2 blanks separate the account from the amount -/
theorem U19_fallback (cx : Ctx) (h : NumIs cx Unparse.noPrec) (hw : LayoutW cx.w) (p : Posting) (a : PostingAmount)
    (hd : postingDatesOK p = true) (ha : p.amount = some a)
    (hlong : ¬ strWidth cx.w (Unparse.printClear p.clear ++ p.account.toList)
                + ((Unparse.printVExpr a.amount).take (Unparse.alignVExpr a.amount)).length + 2 < 48) :
    Unparse.printPosting (strWidth cx.w) p
      = spaces 4 ++ Unparse.printClear p.clear ++ p.account.toList ++ [' ', ' '] ++ Unparse.printVExpr a.amount
          ++ Unparse.printLot a.lot ++ Unparse.printCost a.cost ++ balancePart cx p ++ '\n' :: metaText p := by
  rw [printClear_eq, ← numericPart_unparse cx h] at hlong
  have h2 := C19_fallback cx (numOK_of_numIs h hw.num) hw.sym p a hlong
  have hl : lotDatesOK a.lot = true := by simpa [postingDatesOK, ha] using hd
  rw [(U19_gap cx h hw.clearOK p hd).1]
  simp [gapWidth, afterGap, ha, h2, fmtVExpr_fst_eq cx h, printLot_eq cx h a.lot hl, printCost_eq cx h, spaces_two]

/-- **C19_balance** for `Unparse`: a balance-only posting on a short account has `53 + t` columns before its `=`
(`t` = display width of what follows the number in the balance, e.g. ` USD`) -/
theorem U19_balance (cx : Ctx) (h : NumIs cx Unparse.noPrec) (hw : LayoutW cx.w) (p : Posting) (b : VExpr)
    (ha : p.amount = none) (hb : p.balance = some b)
    (hshort : strWidth cx.w (Unparse.printClear p.clear ++ p.account.toList) + 3
                < 50 + strWidth cx.w ((Unparse.printVExpr b).drop (Unparse.alignVExpr b))) :
    Unparse.printPosting (strWidth cx.w) p
      = beforeEq cx p ++ ('=' :: ' ' :: (Unparse.printVExpr b ++ '\n' :: metaText p))
    ∧ beforeEq cx p = spaces 4 ++ Unparse.printClear p.clear ++ p.account.toList ++ spaces (gapWidth cx p)
    ∧ strWidth cx.w (beforeEq cx p) = 53 + strWidth cx.w ((Unparse.printVExpr b).drop (Unparse.alignVExpr b)) := by
  rw [printClear_eq, ← afterNumeric_unparse cx h] at hshort
  have := C19_balance cx (numOK_of_numIs h hw.num) hw.sym p b ha hb hshort
  have hd : postingDatesOK p = true := by simp [postingDatesOK, ha]
  refine ⟨?_, ?_, ?_⟩
  · rw [U19_posting cx h hw.clearOK p hd, this.1, printVExpr_eq cx h]
    simp
  · simp [beforeEq, ha, printClear_eq]
  · rw [← afterNumeric_unparse cx h]; exact this.2

/-- the fallback branch of the balance-only rule for `Unparse`: on a long account exactly 2 blanks precede the `=` -/
theorem U19_balance_fallback (cx : Ctx) (h : NumIs cx Unparse.noPrec) (hw : LayoutW cx.w) (p : Posting) (b : VExpr)
    (ha : p.amount = none) (hb : p.balance = some b)
    (hlong : ¬ strWidth cx.w (Unparse.printClear p.clear ++ p.account.toList) + 3
                < 50 + strWidth cx.w ((Unparse.printVExpr b).drop (Unparse.alignVExpr b))) :
    Unparse.printPosting (strWidth cx.w) p
      = spaces 4 ++ Unparse.printClear p.clear ++ p.account.toList ++ [' ', ' ', '=', ' '] ++ Unparse.printVExpr b
          ++ '\n' :: metaText p := by
  rw [printClear_eq, ← afterNumeric_unparse cx h] at hlong
  have h2 := C19_balance_fallback cx (numOK_of_numIs h hw.num) hw.sym p b ha hb hlong
  have hd : postingDatesOK p = true := by simp [postingDatesOK, ha]
  rw [(U19_gap cx h hw.clearOK p hd).1, h2]
  simp [afterGap, ha, hb, printVExpr_eq cx h, spaces_two]

/-- **C19_balance** (second half) for `Unparse`: the `=` of a balance-only posting `p` stands in the same column as the
`=` of a posting `q` on the same account whose aligned amount (no lot, no cost) is followed by text of the same width -/
theorem U19_balance_same_column (cx : Ctx) (h : NumIs cx Unparse.noPrec) (hw : LayoutW cx.w) (p q : Posting) (b bq : VExpr)
    (a : PostingAmount)
    (hpa : p.amount = none) (hpb : p.balance = some b)
    (hqa : q.amount = some a) (hqb : q.balance = some bq) (hlot : a.lot = {}) (hcost : a.cost = none)
    (hacc : q.account = p.account) (hclear : q.clear = p.clear)
    (hsame : strWidth cx.w ((Unparse.printVExpr a.amount).drop (Unparse.alignVExpr a.amount))
               = strWidth cx.w ((Unparse.printVExpr b).drop (Unparse.alignVExpr b)))
    (hshort : strWidth cx.w (Unparse.printClear p.clear ++ p.account.toList)
                + ((Unparse.printVExpr a.amount).take (Unparse.alignVExpr a.amount)).length + 2 < 48) :
    ∃ pre qre : List Char,
      Unparse.printPosting (strWidth cx.w) p = pre ++ ('=' :: ' ' :: (Unparse.printVExpr b ++ '\n' :: metaText p))
      ∧ Unparse.printPosting (strWidth cx.w) q = qre ++ ('=' :: ' ' :: (Unparse.printVExpr bq ++ '\n' :: metaText q))
      ∧ strWidth cx.w qre = strWidth cx.w pre := by
  have hnum := numOK_of_numIs h hw.num
  rw [printClear_eq, ← numericPart_unparse cx h] at hshort
  rw [← afterNumeric_unparse cx h, ← afterNumeric_unparse cx h] at hsame
  have hdp : postingDatesOK p = true := by simp [postingDatesOK, hpa]
  have hdq : postingDatesOK q = true := by simp [postingDatesOK, hqa, hlot, lotDatesOK]
  refine ⟨beforeEq cx p, beforeEq cx q, ?_, ?_,
    C19_balance_same_column cx hnum hw.sym p q b a hpa hpb hqa hlot hcost hacc hclear hsame hshort⟩
  · rw [U19_posting cx h hw.clearOK p hdp, postingHead_balance cx p b hpb, printVExpr_eq cx h]
    simp
  · rw [U19_posting cx h hw.clearOK q hdq, postingHead_balance cx q bq hqb, printVExpr_eq cx h]
    simp

/-! ## whole transactions and ledgers -/

/-- **C19_indent** for `Unparse`: when no field of the transaction holds a line feed, every line of the printed
transaction after the first starts with exactly four blanks -/
theorem U19_indent (cx : Ctx) (h : NumIs cx Unparse.noPrec) (hc : ClearOK cx.w) (t : Transaction)
    (hd : txnDatesOK t = true) (hacc : ∀ p ∈ t.posts, AccountOK p) (hnl : txnNoLF t) :
    ∀ l ∈ (linesOf (Unparse.printEntry (strWidth cx.w) (.txn t))).tail,
      ∃ c rest, l = ' ' :: ' ' :: ' ' :: ' ' :: c :: rest ∧ c ≠ ' ' := by
  rw [printEntry_agree cx h hc (.txn t) hd]
  exact C19_indent_text cx (numNoLF_of_numIs h) t hacc hnl

/-- the lines of what `Unparse.printEntry` writes are the line bodies of `Print.entryLines` -/
theorem linesOf_printEntry (cx : Ctx) (h : NumIs cx Unparse.noPrec) (hc : ClearOK cx.w) (e : Entry)
    (hd : datesOK e = true) (hnl : entryNoLF e) :
    linesOf (Unparse.printEntry (strWidth cx.w) e) = entryLines cx e := by
  rw [printEntry_agree cx h hc e hd, printEntryG]
  exact linesOf_unlines _ (entryLines_nlf cx (numNoLF_of_numIs h) e hnl)

/-- **C19_blank** for `Unparse`: when no single-line field holds a line feed, the text `Unparse.formatEntries` writes
consists, entry by entry, of the lines of the entry as `Unparse.printEntry` writes it — none of them empty, at least one
(except for a top-level comment without text) — followed by exactly one empty line -/
theorem U19_blank (cx : Ctx) (h : NumIs cx Unparse.noPrec) (hc : ClearOK cx.w) (es : List Entry)
    (hd : ∀ e ∈ es, datesOK e = true) (hnl : ∀ e ∈ es, entryNoLF e) :
    linesOf (Unparse.formatEntries (strWidth cx.w) es)
      = es.flatMap (fun e => linesOf (Unparse.printEntry (strWidth cx.w) e) ++ [[]])
    ∧ (∀ e ∈ es, ∀ l ∈ linesOf (Unparse.printEntry (strWidth cx.w) e), l ≠ [])
    ∧ (∀ e ∈ es, (∀ s, e = .comment s → s.toList ≠ []) → linesOf (Unparse.printEntry (strWidth cx.w) e) ≠ []) := by
  have hb := C19_blank cx (numNoLF_of_numIs h) es hnl
  have hl : ∀ e ∈ es, linesOf (Unparse.printEntry (strWidth cx.w) e) = entryLines cx e :=
    fun e he => linesOf_printEntry cx h hc e (hd e he) (hnl e he)
  refine ⟨?_, ?_, ?_⟩
  · rw [formatEntries_agree cx h hc es hd, hb.1]
    exact (flatMap_congr' (fun e he => by rw [hl e he])).symm
  · intro e he; rw [hl e he]; exact hb.2.1 e he
  · intro e he; rw [hl e he]; exact hb.2.2 e he

/-- `format` in the two models: when the text parses (to entries with years ≤ 9999 — true of every parsed date), what
`Unparse.format` returns is what `Print.formatOptionsFormat` (the loop of `FormatOptions::format`, `recursive = false`) has
written, and that one returns no error -/
theorem format_agree {ε : Type} (cx : Ctx) (h : NumIs cx Unparse.noPrec) (hc : ClearOK cx.w) (text : List Char)
    (es : List Entry) (hp : Parse.parseEntries text = .ok es) (hd : ∀ e ∈ es, datesOK e = true) :
    Unparse.format (strWidth cx.w) text = .ok (formatOptionsFormat (ε := ε) cx false (es.map .ok)).1
    ∧ (formatOptionsFormat (ε := ε) cx false (es.map .ok)).2 = none := by
  have hw := (format_writes_prefix (ε := ε) cx es).1
  simp [Unparse.format, hp, Outcome.map', formatOptionsFormat, hw, formatEntries_agree cx h hc es hd]

/-! ## for the width functions in use -/

/-- C19_column for the text of the C05 round trip at the real width table: the numeric part of the amount ends in
display column 52 -/
theorem U19_column_std (p : Posting) (a : PostingAmount) (hd : postingDatesOK p = true) (ha : p.amount = some a)
    (hshort : strWidth widthCjk (Unparse.printClear p.clear ++ p.account.toList)
                + ((Unparse.printVExpr a.amount).take (Unparse.alignVExpr a.amount)).length + 2 < 48) :
    ∃ head rest, Unparse.printPosting (strWidth widthCjk) p = head ++ rest
      ∧ head = spaces 4 ++ Unparse.printClear p.clear ++ p.account.toList
                ++ spaces (amountPad (Ctx.std (fun _ => 0)) p a)
                ++ (Unparse.printVExpr a.amount).take (Unparse.alignVExpr a.amount)
      ∧ strWidth widthCjk head = 52 := by
  have := U19_column (Ctx.std (fun _ => 0)) (std_numIs _) layoutW_widthCjk p a hd ha hshort
  exact ⟨_, _, this.1, this.2.1, this.2.2⟩

/-- the same for the width function of the C05 driver (`Unparse.widthCjk`) -/
theorem U19_column_drv (p : Posting) (a : PostingAmount) (hd : postingDatesOK p = true) (ha : p.amount = some a)
    (hshort : Unparse.widthCjk (Unparse.printClear p.clear ++ p.account.toList)
                + ((Unparse.printVExpr a.amount).take (Unparse.alignVExpr a.amount)).length + 2 < 48) :
    ∃ head rest, Unparse.printPosting Unparse.widthCjk p = head ++ rest
      ∧ head = spaces 4 ++ Unparse.printClear p.clear ++ p.account.toList
                ++ spaces (amountPad (uctx Unparse.charWidthCjk) p a)
                ++ (Unparse.printVExpr a.amount).take (Unparse.alignVExpr a.amount)
      ∧ Unparse.widthCjk head = 52 := by
  rw [widthCjk_eq] at hshort ⊢
  have := U19_column (uctx Unparse.charWidthCjk) (uctx_numIs _) layoutW_charWidthCjk p a hd ha hshort
  exact ⟨_, _, this.1, this.2.1, this.2.2⟩

/-! ## non-vacuity: the hypotheses are met by concrete postings; the conclusions are the layout one sees -/

section Examples

private def cx0 : Ctx := Ctx.std (fun _ => 0)
private def w0 : List Char → Nat := strWidth widthCjk
private def usd (mant scale : Nat) : VExpr := .amt ⟨false, mant, scale, none⟩ "USD"
private def pAmt : Posting :=
  { account := "Assets:Bank", amount := some { amount := usd 12345 2 }, metadata := [.keyValue "k" (.text "v")] }
private def pWide : Posting :=
  { account := "資産:銀行", clear := .pending, balance := some (usd 7 0),
    amount := some { amount := usd 5 0, lot := { date := some ⟨2020, 1, 2⟩ }, cost := some (.rate (usd 3 1)) } }
private def pAssert : Posting := { account := "Account", amount := some { amount := usd 1 0 }, balance := some (usd 2 0) }
private def pBal : Posting := { account := "Account", balance := some (usd 1 0) }
private def pLong : Posting :=
  { account := "Liabilities:CreditCard:SomeVeryLongBankName:AnotherSegment:limit", balance := some (.amt ⟨false, 0, 0, none⟩ "") }
private def pLongAmt : Posting := { pLong with amount := some { amount := usd 5 0 }, balance := none }
private def tEx : Transaction :=
  { date := ⟨2024, 1, 2⟩, payee := "shop", metadata := [.comment "note"], posts := [pAmt, pWide, pAssert, pBal, pLong] }

-- what `Unparse` prints
example : Unparse.printPosting w0 pAmt
    = "    Assets:Bank                               123.45 USD\n    ; k: v\n".toList := by decide +kernel
example : Unparse.printPosting w0 pWide
    = "    ! 資産:銀行                                    5 USD [2020/01/02] @ 0.3 USD = 7 USD\n".toList := by decide +kernel
example : Unparse.printPosting w0 pBal
    = "    Account                                              = 1 USD\n".toList := by decide +kernel
example : NumIs cx0 Unparse.noPrec ∧ LayoutW cx0.w := ⟨std_numIs _, layoutW_widthCjk⟩
-- U19_gap, U19_column (an ASCII account; a wide one with clear mark, lot date, cost and a balance after the amount)
example : 2 ≤ gapWidth cx0 pLong := (U19_gap cx0 (std_numIs _) (std_clearOK _) pLong (by decide +kernel)).2 (by decide +kernel)
example : strWidth widthCjk (headUpToNumber cx0 pAmt { amount := usd 12345 2 }) = 52 :=
  (U19_column cx0 (std_numIs _) layoutW_widthCjk pAmt _ (by decide +kernel) rfl (by decide +kernel)).2.2
example : ∃ head rest, Unparse.printPosting (strWidth widthCjk) pWide = head ++ rest ∧ strWidth widthCjk head = 52 := by
  obtain ⟨hd, rest, h1, _, h3⟩ := U19_column_std pWide { amount := usd 5 0, lot := { date := some ⟨2020, 1, 2⟩ }, cost := some (.rate (usd 3 1)) }
    (by decide +kernel) rfl (by decide +kernel)
  exact ⟨hd, rest, h1, h3⟩
example : (headUpToNumber cx0 pWide { amount := usd 5 0 }).length = 48 := by decide +kernel  -- 4 wide characters
-- U19_fallback / U19_balance_fallback: long accounts get exactly two blanks
example : Unparse.printPosting w0 pLongAmt
    = "    Liabilities:CreditCard:SomeVeryLongBankName:AnotherSegment:limit  5 USD\n".toList := by
  have := U19_fallback cx0 (std_numIs _) layoutW_widthCjk pLongAmt { amount := usd 5 0 } (by decide +kernel) rfl (by decide +kernel)
  rw [show w0 = strWidth cx0.w from rfl, this]
  decide +kernel
example : Unparse.printPosting w0 pLong
    = "    Liabilities:CreditCard:SomeVeryLongBankName:AnotherSegment:limit  = 0\n".toList := by
  have := U19_balance_fallback cx0 (std_numIs _) layoutW_widthCjk pLong (.amt ⟨false, 0, 0, none⟩ "") rfl rfl (by decide +kernel)
  rw [show w0 = strWidth cx0.w from rfl, this]
  decide +kernel
-- U19_balance: `=` after 53 + 4 columns (the width of ` USD`), with and without an amount before it
example : strWidth widthCjk (beforeEq cx0 pBal) = 53 + 4 := by
  have := (U19_balance cx0 (std_numIs _) layoutW_widthCjk pBal (usd 1 0) rfl rfl (by decide +kernel)).2.2
  refine this.trans ?_
  decide +kernel
example : ∃ pre qre : List Char, Unparse.printPosting w0 pBal = pre ++ "= 1 USD\n".toList
    ∧ Unparse.printPosting w0 pAssert = qre ++ "= 2 USD\n".toList
    ∧ strWidth widthCjk qre = strWidth widthCjk pre := by
  obtain ⟨pre, qre, h1, h2, h3⟩ :=
    U19_balance_same_column cx0 (std_numIs _) layoutW_widthCjk pBal pAssert (usd 1 0) (usd 2 0) { amount := usd 1 0 }
      rfl rfl rfl rfl rfl rfl rfl rfl (by decide +kernel) (by decide +kernel)
  have e1 : '=' :: ' ' :: (Unparse.printVExpr (usd 1 0) ++ '\n' :: metaText pBal) = "= 1 USD\n".toList := by decide +kernel
  have e2 : '=' :: ' ' :: (Unparse.printVExpr (usd 2 0) ++ '\n' :: metaText pAssert) = "= 2 USD\n".toList := by decide +kernel
  exact ⟨pre, qre, e1 ▸ h1, e2 ▸ h2, h3⟩
-- U19_indent / U19_blank
example : txnDatesOK tEx = true := by decide +kernel
example : ∀ e ∈ [Entry.txn tEx, .comment " top\n second\n", .include "a.ledger"], datesOK e = true := by decide +kernel
example : linesOf (Unparse.formatEntries w0 [.comment " top\n second\n", .include "a.ledger"])
    = ["; top".toList, "; second".toList, [], "include a.ledger".toList, []] := by decide +kernel
example : linesOf (Unparse.formatEntries w0 [.comment " top\n second\n", .include "a.ledger"])
    = [.comment " top\n second\n", .include "a.ledger"].flatMap (fun e => linesOf (Unparse.printEntry w0 e) ++ [[]]) :=
  (U19_blank cx0 (std_numIs _) (std_clearOK _) [.comment " top\n second\n", .include "a.ledger"]
    (by decide +kernel) (by
      intro e he
      simp only [List.mem_cons, List.not_mem_nil, or_false] at he
      rcases he with rfl | rfl
      · trivial
      · show '\n' ∉ _; decide +kernel)).1

end Examples

end Okane.PrintersAgree
