import Okane.Model.Diag
import Okane.Model.Process
/-! Helper lemmas about `Okane.Diag` (byte counting, span arithmetic, the boundary search) and about the index
carried by a `process` error; used by `Props/C14.lean` and `Props/C06.lean`. -/
namespace Okane.Diag

/-- number of line feeds strictly before byte position `p` — the specification, with no `take`/`count` in it. -/
def lfBefore (t : Bytes) (p : Nat) : Nat := ((List.range p).filter (fun q => t[q]? == some LF)).length

theorem countLF_take_eq_lfBefore (t : Bytes) (p : Nat) (hp : p ≤ t.length) :
    countLF (t.take p) = lfBefore t p := by
  induction p with
  | zero => simp [countLF, lfBefore]
  | succ n ih =>
    have hn : n < t.length := by omega
    have ih' := ih (by omega)
    rw [List.take_succ_eq_append_getElem hn]
    simp only [countLF, lfBefore] at ih' ⊢
    rw [List.count_append, ih', List.range_succ, List.filter_append, List.length_append]
    congr 1
    by_cases h : t[n] = LF
    · simp [h, List.getElem?_eq_getElem hn]
    · simp [List.getElem?_eq_getElem hn, h]

theorem countLF_append (a b : Bytes) : countLF (a ++ b) = countLF a + countLF b := by
  simp [countLF, List.count_append]

theorem countLF_take_le (t : Bytes) (p q : Nat) (h : p ≤ q) : countLF (t.take p) ≤ countLF (t.take q) := by
  have : t.take q = t.take p ++ (t.take q).drop p := by
    have := List.take_append_drop p (t.take q)
    rw [List.take_take, Nat.min_eq_left h] at this
    exact this.symm
  rw [this, countLF_append]; omega

/-- the encoding of a character contains a line-feed byte only if the character is `'\n'`. -/
theorem countLF_utf8EncodeChar (c : Char) :
    countLF (String.utf8EncodeChar c) = if c = '\n' then 1 else 0 := by
  unfold String.utf8EncodeChar countLF
  have big : ∀ n : Nat, LF ≠ UInt8.ofNat (n % 64 + 128) := by
    intro n h
    have h2 : (UInt8.ofNat (n % 64 + 128)).toNat = 10 := by rw [← h]; rfl
    rw [UInt8.toNat_ofNat'] at h2; omega
  have b32 : ∀ n : Nat, LF ≠ UInt8.ofNat (n % 32 + 192) := by
    intro n h
    have h2 : (UInt8.ofNat (n % 32 + 192)).toNat = 10 := by rw [← h]; rfl
    rw [UInt8.toNat_ofNat'] at h2; omega
  have b16 : ∀ n : Nat, LF ≠ UInt8.ofNat (n % 16 + 224) := by
    intro n h
    have h2 : (UInt8.ofNat (n % 16 + 224)).toNat = 10 := by rw [← h]; rfl
    rw [UInt8.toNat_ofNat'] at h2; omega
  have b8 : ∀ n : Nat, LF ≠ UInt8.ofNat (n % 8 + 240) := by
    intro n h
    have h2 : (UInt8.ofNat (n % 8 + 240)).toNat = 10 := by rw [← h]; rfl
    rw [UInt8.toNat_ofNat'] at h2; omega
  by_cases h1 : c.val.toNat ≤ 127
  · simp only [h1, ↓reduceIte]
    by_cases hc : c = '\n'
    · subst hc; decide
    · simp only [hc, ↓reduceIte]
      apply List.count_eq_zero.mpr
      intro hmem
      simp only [List.mem_cons, List.not_mem_nil, or_false] at hmem
      apply hc
      have h2 : (UInt8.ofNat c.val.toNat).toNat = 10 := by rw [← hmem]; rfl
      rw [UInt8.toNat_ofNat'] at h2
      have h3 : c.val.toNat = 10 := by omega
      apply Char.ext
      apply UInt32.toNat_inj.mp
      rw [h3]; rfl
  · have hc : c ≠ '\n' := by
      intro h; subst h; exact h1 (by decide)
    simp only [h1, ↓reduceIte, hc]
    split
    · apply List.count_eq_zero.mpr
      intro hmem
      simp only [List.mem_cons, List.not_mem_nil, or_false] at hmem
      rcases hmem with h | h
      · exact b32 _ h
      · exact big _ h
    · split
      · apply List.count_eq_zero.mpr
        intro hmem
        simp only [List.mem_cons, List.not_mem_nil, or_false] at hmem
        rcases hmem with h | h | h
        · exact b16 _ h
        · exact big _ h
        · exact big _ h
      · apply List.count_eq_zero.mpr
        intro hmem
        simp only [List.mem_cons, List.not_mem_nil, or_false] at hmem
        rcases hmem with h | h | h | h
        · exact b8 _ h
        · exact big _ h
        · exact big _ h
        · exact big _ h

theorem countLF_encode (cs : List Char) : countLF (encode cs) = cs.count '\n' := by
  induction cs with
  | nil => simp [encode, countLF]
  | cons c cs ih =>
    have : encode (c :: cs) = String.utf8EncodeChar c ++ encode cs := by simp [encode]
    rw [this, countLF_append, ih, countLF_utf8EncodeChar, List.count_cons]
    by_cases h : c = '\n'
    · subst h; simp; omega
    · have : (c == '\n') = false := by simpa using h
      simp [h, this]

theorem encode_append (a b : List Char) : encode (a ++ b) = encode a ++ encode b := by
  simp [encode]

/-- `a ⊆ b` for ranges -/
def Range.within (a b : Range) : Prop := b.start ≤ a.start ∧ a.start ≤ a.stop ∧ a.stop ≤ b.stop

theorem clip_within (parent child : Range) (h : child.within parent) :
    clip parent child = .ok ⟨child.start - parent.start, child.stop - parent.start⟩ := by
  obtain ⟨h1, h2, h3⟩ := h
  have hmax : max parent.start child.start = child.start := Nat.max_eq_right h1
  have hmin : min parent.stop child.stop = child.stop := Nat.min_eq_right h3
  simp only [clip, hmax, hmin]
  rw [if_neg (by omega)]

theorem resolveAll_within (parent : Range) (rs : List Range) (h : ∀ r ∈ rs, r.within parent) :
    resolveAll parent rs = .ok (rs.map fun r => ⟨r.start - parent.start, r.stop - parent.start⟩) := by
  induction rs with
  | nil => rfl
  | cons r rs ih =>
    have hr := h r (by simp)
    have ih' := ih (fun x hx => h x (by simp [hx]))
    simp [resolveAll, resolve, clip_within parent r hr, ih']

theorem asStr_length (c : PCtx) (hv : c.validSlice = true) :
    ∃ text, c.asStr = .ok text ∧ text.length = c.span.stop - c.span.start ∧
      text = (c.initial.take c.span.stop).drop c.span.start := by
  refine ⟨_, by simp [PCtx.asStr, hv], ?_, rfl⟩
  simp only [PCtx.validSlice, Bool.and_eq_true, decide_eq_true_eq] at hv
  simp; omega

theorem findBoundary_spec (s : Bytes) (fuel e : Nat) (r : Option Nat) (h : findBoundary s fuel e = .ok r) :
    match r with
    | some b => e ≤ b ∧ b ≤ s.length ∧ isCharBoundary s b = true ∧ ∀ x, e ≤ x → x < b → isCharBoundary s x = false
    | none => ∀ x, e ≤ x → x ≤ s.length → isCharBoundary s x = false := by
  induction fuel generalizing e with
  | zero => simp [findBoundary] at h
  | succ n ih =>
    unfold findBoundary at h
    by_cases h1 : s.length < e
    · simp only [h1, ↓reduceIte] at h
      injection h with h; subst h
      intro x hx hx2; omega
    · simp only [h1, ↓reduceIte] at h
      by_cases h2 : isCharBoundary s e = true
      · simp only [h2, ↓reduceIte] at h
        injection h with h; subst h
        exact ⟨Nat.le_refl _, by omega, h2, fun x a b => by omega⟩
      · simp only [h2] at h
        have := ih (e + 1) h
        have h2' : isCharBoundary s e = false := by simpa using h2
        cases r with
        | some b =>
          obtain ⟨a1, a2, a3, a4⟩ := this
          refine ⟨by omega, a2, a3, ?_⟩
          intro x hx hxb
          by_cases hxe : x = e
          · subst hxe; exact h2'
          · exact a4 x (by omega) hxb
        | none =>
          intro x hx hx2
          by_cases hxe : x = e
          · subst hxe; exact h2'
          · exact this x (by omega) hx2

/-- the end of the text is always a char boundary, so the search only fails when it starts past the end. -/
theorem isCharBoundary_length (s : Bytes) : isCharBoundary s s.length = true := by
  unfold isCharBoundary
  by_cases h : s.length = 0
  · simp [h]
  · simp [h]

/-- the boundary search ends within the fuel `|s| + 2 - e` (one step per candidate `e, e+1, …, |s|`, plus the
step that notices the end of the range). -/
theorem findBoundary_terminates (s : Bytes) (fuel e : Nat) (h : s.length + 2 ≤ fuel + e) (he : e ≤ s.length + 1) :
    ∃ r, findBoundary s fuel e = .ok r := by
  induction fuel generalizing e with
  | zero => omega
  | succ n ih =>
    unfold findBoundary
    by_cases a : s.length < e
    · exact ⟨none, by simp [a]⟩
    · by_cases b : isCharBoundary s e = true
      · exact ⟨some e, by simp [a, b]⟩
      · simp only [a, b, ↓reduceIte]
        exact ih (e + 1) (by omega) (by omega)

/-! ### UTF-8: where the char boundaries of an encoded text are -/

theorem toNat_ofNat_lt (n : Nat) (h : n < 256) : (UInt8.ofNat n).toNat = n := by
  rw [UInt8.toNat_ofNat']; omega

theorem isCont_low (b : UInt8) (h : b.toNat < 128) : isCont b = false := by
  simp only [isCont, Bool.and_eq_false_iff, decide_eq_false_iff_not]; omega
theorem isCont_high (b : UInt8) (h : 192 ≤ b.toNat) : isCont b = false := by
  simp only [isCont, Bool.and_eq_false_iff, decide_eq_false_iff_not]; omega
theorem isCont_mid (b : UInt8) (h1 : 128 ≤ b.toNat) (h2 : b.toNat < 192) : isCont b = true := by
  simp only [isCont, Bool.and_eq_true, decide_eq_true_eq]; omega

/-- shape of a character's UTF-8 encoding: non-empty, first byte is not a continuation byte, all others are. -/
theorem utf8EncodeChar_shape (c : Char) :
    ∃ b rest, String.utf8EncodeChar c = b :: rest ∧ isCont b = false ∧ ∀ x ∈ rest, isCont x = true := by
  unfold String.utf8EncodeChar
  have hc : ∀ n : Nat, isCont (UInt8.ofNat (n % 64 + 128)) = true := by
    intro n; apply isCont_mid <;> (rw [toNat_ofNat_lt _ (by omega)]; omega)
  by_cases h1 : c.val.toNat ≤ 127
  · refine ⟨_, [], by simp only [h1, ↓reduceIte]; rfl, ?_, by simp⟩
    apply isCont_low; rw [toNat_ofNat_lt _ (by omega)]; omega
  · by_cases h2 : c.val.toNat ≤ 2047
    · refine ⟨_, _, by simp only [h1, h2, ↓reduceIte]; rfl, ?_, ?_⟩
      · apply isCont_high; rw [toNat_ofNat_lt _ (by omega)]; omega
      · intro x hx; simp only [List.mem_cons, List.not_mem_nil, or_false] at hx; subst hx; exact hc _
    · by_cases h3 : c.val.toNat ≤ 65535
      · refine ⟨_, _, by simp only [h1, h2, h3, ↓reduceIte]; rfl, ?_, ?_⟩
        · apply isCont_high; rw [toNat_ofNat_lt _ (by omega)]; omega
        · intro x hx; simp only [List.mem_cons, List.not_mem_nil, or_false] at hx
          rcases hx with hx | hx <;> (subst hx; exact hc _)
      · refine ⟨_, _, by simp only [h1, h2, h3, ↓reduceIte]; rfl, ?_, ?_⟩
        · apply isCont_high; rw [toNat_ofNat_lt _ (by omega)]; omega
        · intro x hx; simp only [List.mem_cons, List.not_mem_nil, or_false] at hx
          rcases hx with hx | hx | hx <;> (subst hx; exact hc _)

/-- the first byte of a non-empty encoded text is not a continuation byte -/
theorem encode_head_not_cont (cs : List Char) (b : UInt8) (h : (encode cs)[0]? = some b) : isCont b = false := by
  cases cs with
  | nil => simp [encode] at h
  | cons c cs =>
    obtain ⟨b0, rest, he, hb, _⟩ := utf8EncodeChar_shape c
    have : encode (c :: cs) = b0 :: (rest ++ encode cs) := by simp [encode, he]
    rw [this] at h
    simp at h; subst h; exact hb

/-- In valid UTF-8 text, the char boundaries strictly inside / at the end of the character that starts at `|encode pre|`:
none before its end, one at its end. -/
theorem boundary_within_char (pre post : List Char) (c : Char) :
    let s := encode (pre ++ c :: post)
    let L := (encode pre).length
    let n := (String.utf8EncodeChar c).length
    (∀ k, 0 < k → k < n → isCharBoundary s (L + k) = false) ∧ isCharBoundary s (L + n) = true ∧ 0 < n ∧ L + n ≤ s.length := by
  intro s L n
  obtain ⟨b0, rest, he, hb, hrest⟩ := utf8EncodeChar_shape c
  have hs : s = encode pre ++ (b0 :: rest) ++ encode post := by
    show encode (pre ++ c :: post) = _
    simp [encode, he]
  have hn : n = rest.length + 1 := by show (String.utf8EncodeChar c).length = _; rw [he]; simp
  refine ⟨?_, ?_, by omega, ?_⟩
  · intro k hk0 hkn
    have hget : s[L + k]? = some (rest[k - 1]'(by omega)) := by
      rw [hs, List.append_assoc, List.getElem?_append_right (by show (encode pre).length ≤ L + k; omega)]
      have : L + k - (encode pre).length = k := by show (encode pre).length + k - (encode pre).length = k; omega
      rw [this, List.getElem?_append_left (by simp; omega)]
      cases k with
      | zero => omega
      | succ k => simp [List.getElem?_eq_getElem (show k < rest.length by omega)]
    unfold isCharBoundary
    rw [if_neg (by omega), hget]
    simp [hrest _ (List.getElem_mem _)]
  · unfold isCharBoundary
    rw [if_neg (by omega)]
    have hidx : s[L + n]? = (encode post)[0]? := by
      rw [hs, List.getElem?_append_right (by simp; show (encode pre).length + (rest.length + 1) ≤ L + n; omega)]
      congr 1
      simp; show (encode pre).length + n - ((encode pre).length + (rest.length + 1)) = 0; omega
    rw [hidx]
    cases hp : (encode post)[0]? with
    | none =>
      simp only
      have : (encode post) = [] := by
        cases hq : encode post with
        | nil => rfl
        | cons x xs => rw [hq] at hp; simp at hp
      rw [hs, this]; simp; show (encode pre).length + n = (encode pre).length + (rest.length + 1); omega
    | some b =>
      simp only
      rw [encode_head_not_cont post b hp]; rfl
  · rw [hs]; simp; show (encode pre).length + n ≤ _; omega

/-- `ParseError::new` is total for `startPos ≤ errPos ≤ |initial|`. -/
theorem parseErrorNew_total (initial : Bytes) (startPos errPos : Nat)
    (h1 : startPos ≤ errPos) (h2 : errPos ≤ initial.length) :
    ∃ pe, parseErrorNew (parseErrorFuel initial) initial startPos errPos = .ok pe := by
  have hs : startPos ≤ initial.length := by omega
  have hinput : (initial.drop startPos).length = initial.length - startPos := by simp
  obtain ⟨r, hr⟩ := findBoundary_terminates (initial.drop startPos) (parseErrorFuel initial) (errPos - startPos + 1)
    (by rw [hinput]; show initial.length - startPos + 2 ≤ initial.length + 1 + (errPos - startPos + 1); omega)
    (by rw [hinput]; omega)
  refine ⟨⟨1 + countLF (initial.take startPos), ⟨errPos - startPos, r.getD (errPos - startPos)⟩,
    initial.drop startPos⟩, ?_⟩
  simp only [parseErrorNew]
  rw [if_neg (by omega)]
  simp [computeLineNumber, hs, hr]

theorem processFrom_err_index (st : ProcState) (k : Nat) (es : List Entry) (i : Nat) (x : BkErrS)
    (h : processFrom st k es = .err (i, x)) :
    k ≤ i ∧ i < k + es.length ∧
      ∃ st', processFrom st k (es.take (i - k)) = .ok st' ∧ ∃ e, es[i - k]? = some e ∧ stepEntry st' e = .err x := by
  induction es generalizing st k with
  | nil => simp [processFrom] at h
  | cons e es ih =>
    unfold processFrom at h
    cases hs : stepEntry st e with
    | ok st1 =>
      simp only [hs] at h
      obtain ⟨a, b, st', c, e', d, f⟩ := ih st1 (k + 1) h
      refine ⟨by omega, by simp; omega, st', ?_, e', ?_, f⟩
      · have : i - k = (i - (k + 1)) + 1 := by omega
        rw [this, List.take_succ_cons]
        unfold processFrom
        simp only [hs]
        exact c
      · have : i - k = (i - (k + 1)) + 1 := by omega
        rw [this]; simpa using d
    | err y =>
      simp only [hs] at h
      injection h with h
      injection h with h1 h2
      subst h1; subst h2
      exact ⟨Nat.le_refl _, by simp, st, by simp [processFrom], e, by simp, hs⟩
    | panic p => simp [hs] at h
    | fuelOut => simp [hs] at h


end Okane.Diag
