import Okane.Model.CsvText
/-!
# The CSV record reader (`Model/CsvText.lean`): the DFA table, totality, the canonical writer read back

* `dfaStep_*`: the table `build_dfa` computes, state by state (closed forms of the epsilon closure);
  `dfaStep_consumes`: from every state of the table the closure ends on a consuming transition — the fuel of `dfaStep`
  is never used up (the reader is a fold over the bytes: one table look-up per byte, total by construction);
* `readRecordsPos_write`: reading the canonical writer's output gives back the rows, each with the line on which it starts.
-/
namespace Okane.Import.CsvText
open Okane Okane.Import

/-! ## the transition table -/

theorem dfaStep_startRecord (d c : UInt8) : dfaStep d .startRecord c =
    if isTerm c then (.startRecord, .discard)
    else if QUOTE == c then (.inQuotedField, .discard)
    else if d == c then (.endFieldDelim, .discard)
    else (.inField, .copyToOutput) := by
  simp only [dfaStep, closure, transitionNfa]
  by_cases h1 : isTerm c <;> by_cases h2 : QUOTE == c <;> by_cases h3 : d == c <;> simp [h1, h2, h3]

/-- `StartField` (reached through `EndFieldDelim`): quote, delimiter, terminator, other — in this order. -/
theorem dfaStep_endFieldDelim (d c : UInt8) : dfaStep d .endFieldDelim c =
    if QUOTE == c then (.inQuotedField, .discard)
    else if d == c then (.endFieldDelim, .discard)
    else if isTerm c then (if CR == c then (.crlf, .discard) else (.endRecord, .discard))
    else (.inField, .copyToOutput) := by
  simp only [dfaStep, closure, transitionNfa]
  by_cases h1 : isTerm c <;> by_cases h2 : QUOTE == c <;> by_cases h3 : d == c <;> by_cases h4 : CR == c <;>
    simp [h1, h2, h3, h4]

theorem dfaStep_inField (d c : UInt8) : dfaStep d .inField c =
    if d == c then (.endFieldDelim, .discard)
    else if isTerm c then (if CR == c then (.crlf, .discard) else (.endRecord, .discard))
    else (.inField, .copyToOutput) := by
  simp only [dfaStep, closure, transitionNfa]
  by_cases h1 : isTerm c <;> by_cases h3 : d == c <;> by_cases h4 : CR == c <;> simp [h1, h3, h4]

theorem dfaStep_inQuotedField (d c : UInt8) : dfaStep d .inQuotedField c =
    if QUOTE == c then (.inDoubleEscapedQuote, .discard) else (.inQuotedField, .copyToOutput) := by
  simp only [dfaStep, closure, transitionNfa]
  by_cases h2 : QUOTE == c <;> simp [h2]

theorem dfaStep_inDoubleEscapedQuote (d c : UInt8) : dfaStep d .inDoubleEscapedQuote c =
    if QUOTE == c then (.inQuotedField, .copyToOutput)
    else if d == c then (.endFieldDelim, .discard)
    else if isTerm c then (if CR == c then (.crlf, .discard) else (.endRecord, .discard))
    else (.inField, .copyToOutput) := by
  simp only [dfaStep, closure, transitionNfa]
  by_cases h1 : isTerm c <;> by_cases h2 : QUOTE == c <;> by_cases h3 : d == c <;> by_cases h4 : CR == c <;>
    simp [h1, h2, h3, h4]

theorem dfaStep_endRecord (d c : UInt8) : dfaStep d .endRecord c = dfaStep d .startRecord c := by
  rw [dfaStep_startRecord]
  simp only [dfaStep, closure, transitionNfa]
  by_cases h1 : isTerm c <;> by_cases h2 : QUOTE == c <;> by_cases h3 : d == c <;> simp [h1, h2, h3]

theorem dfaStep_crlf (d c : UInt8) : dfaStep d .crlf c =
    if LF == c then (.startRecord, .discard) else dfaStep d .startRecord c := by
  rw [dfaStep_startRecord]
  simp only [dfaStep, closure, transitionNfa]
  by_cases h0 : LF == c <;> by_cases h1 : isTerm c <;> by_cases h2 : QUOTE == c <;> by_cases h3 : d == c <;>
    simp [h0, h1, h2, h3]

/-- the states with a row in the DFA table (`NFA_STATES`) that the reader can be in under okane's options -/
def TableState (s : Nfa) : Prop :=
  s = .startRecord ∨ s = .inField ∨ s = .inQuotedField ∨ s = .inDoubleEscapedQuote ∨ s = .endFieldDelim ∨
  s = .endRecord ∨ s = .crlf

/-- **The fuel of the epsilon closure is never used up**, and the table is closed: from a table state every byte is
consumed (copied or discarded) and leads to a table state. -/
theorem dfaStep_consumes (d c : UInt8) (s : Nfa) (h : TableState s) :
    (dfaStep d s c).2 ≠ .epsilon ∧ TableState (dfaStep d s c).1 := by
  rcases h with h | h | h | h | h | h | h <;> subst h
  · rw [dfaStep_startRecord]; unfold TableState; repeat' split
    all_goals simp
  · rw [dfaStep_inField]; unfold TableState; repeat' split
    all_goals simp
  · rw [dfaStep_inQuotedField]; unfold TableState; repeat' split
    all_goals simp
  · rw [dfaStep_inDoubleEscapedQuote]; unfold TableState; repeat' split
    all_goals simp
  · rw [dfaStep_endFieldDelim]; unfold TableState; repeat' split
    all_goals simp
  · rw [dfaStep_endRecord, dfaStep_startRecord]; unfold TableState; repeat' split
    all_goals simp
  · rw [dfaStep_crlf, dfaStep_startRecord]; unfold TableState; repeat' split
    all_goals simp

/-! ## running the reader -/

@[simp] theorem run_nil (d : UInt8) (s : Rd) : Rd.run d s [] = s := rfl
@[simp] theorem run_cons (d : UInt8) (s : Rd) (c : UInt8) (bs : Bytes) :
    Rd.run d s (c :: bs) = Rd.run d (s.step d c) bs := rfl
theorem run_append (d : UInt8) (s : Rd) (a b : Bytes) : Rd.run d s (a ++ b) = Rd.run d (Rd.run d s a) b := by
  simp [Rd.run, List.foldl_append]

/-- `s.iter().filter(|b| b == b'\n').count()` -/
def countLF (bs : Bytes) : Nat := bs.count LF

@[simp] theorem countLF_nil : countLF [] = 0 := rfl
theorem countLF_cons (c : UInt8) (bs : Bytes) : countLF (c :: bs) = (if c == LF then 1 else 0) + countLF bs := by
  simp [countLF, List.count_cons]; omega
theorem countLF_append (a b : Bytes) : countLF (a ++ b) = countLF a + countLF b := by
  simp [countLF, List.count_append]

@[simp] theorem QUOTE_ne_LF : ¬ QUOTE = LF := by decide
@[simp] theorem QUOTE_ne_CR : ¬ QUOTE = CR := by decide
@[simp] theorem CR_ne_LF : ¬ CR = LF := by decide
@[simp] theorem LF_ne_CR : ¬ LF = CR := by decide
@[simp] theorem LF_ne_QUOTE : ¬ LF = QUOTE := by decide
@[simp] theorem CR_ne_QUOTE : ¬ CR = QUOTE := by decide

theorem step_line (d : UInt8) (s : Rd) (c : UInt8) :
    (s.step d c).line = if c == LF then s.line + 1 else s.line := by
  unfold Rd.step
  dsimp only
  generalize (if c == LF then s.line + 1 else s.line) = l
  split <;> rfl

/-- **`csv_core::Reader::line`** is 1 + the number of `\n` among the bytes consumed, whatever they are (inside quotes,
part of `\r\n`, in a blank line). -/
theorem run_line (d : UInt8) (bs : Bytes) : ∀ s : Rd, (Rd.run d s bs).line = s.line + countLF bs := by
  induction bs with
  | nil => intro s; simp
  | cons c r ih =>
    intro s
    rw [run_cons, ih, step_line, countLF_cons]
    split <;> omega

/-- a delimiter the canonical writer can work with: not the quote, not a line end -/
def GoodDelim (d : UInt8) : Prop := d ≠ QUOTE ∧ d ≠ CR ∧ d ≠ LF

instance (d : UInt8) : Decidable (GoodDelim d) := by unfold GoodDelim; infer_instance

/-- a byte that may stand in an unquoted field -/
def Plain (d c : UInt8) : Prop := c ≠ d ∧ c ≠ QUOTE ∧ c ≠ CR ∧ c ≠ LF

theorem needsQuote_false_iff (d : UInt8) (f : Bytes) : needsQuote d f = false ↔ ∀ c ∈ f, Plain d c := by
  unfold needsQuote Plain
  simp only [List.any_eq_false, Bool.or_eq_true, beq_iff_eq, not_or]
  constructor
  · intro h c hc; obtain ⟨⟨⟨h1, h2⟩, h3⟩, h4⟩ := h c hc; exact ⟨h1, h2, h3, h4⟩
  · intro h c hc; obtain ⟨h1, h2, h3, h4⟩ := h c hc; exact ⟨⟨⟨h1, h2⟩, h3⟩, h4⟩

theorem countLF_plain (d : UInt8) (f : Bytes) (h : ∀ c ∈ f, Plain d c) : countLF f = 0 := by
  unfold countLF
  rw [List.count_eq_zero]
  intro hm
  exact (h LF hm).2.2.2 rfl

section steps
variable (d : UInt8) (cur : Bytes) (fields : List Bytes) (recs : List (Nat × List Bytes)) (line recLine : Nat)

theorem plain_facts {d c : UInt8} (h : Plain d c) :
    (d == c) = false ∧ (QUOTE == c) = false ∧ (CR == c) = false ∧ (LF == c) = false ∧ (c == LF) = false ∧
    isTerm c = false := by
  obtain ⟨h1, h2, h3, h4⟩ := h
  refine ⟨?_, ?_, ?_, ?_, ?_, ?_⟩
  · simpa using fun e => h1 e.symm
  · simpa using fun e => h2 e.symm
  · simpa using fun e => h3 e.symm
  · simpa using fun e => h4 e.symm
  · simpa using h4
  · simp [isTerm, h3, h4]

theorem good_facts {d : UInt8} (h : GoodDelim d) :
    (QUOTE == d) = false ∧ (CR == d) = false ∧ (LF == d) = false ∧ (d == LF) = false ∧ isTerm d = false := by
  obtain ⟨h2, h3, h4⟩ := h
  refine ⟨?_, ?_, ?_, ?_, ?_⟩
  · simpa using fun e => h2 e.symm
  · simpa using fun e => h3 e.symm
  · simpa using fun e => h4 e.symm
  · simpa using h4
  · simp [isTerm, h3, h4]

/-- inside an unquoted field an ordinary byte is copied -/
theorem step_inField_plain (c : UInt8) (h : Plain d c) :
    Rd.step d ⟨.inField, cur, fields, recs, line, recLine⟩ c = ⟨.inField, cur ++ [c], fields, recs, line, recLine⟩ := by
  obtain ⟨h1, h2, h3, h4, h5, h6⟩ := plain_facts h
  simp [Rd.step, dfaStep_inField, h1, h6, h5]

theorem run_plain (bs : Bytes) (h : ∀ c ∈ bs, Plain d c) : ∀ cur : Bytes,
    Rd.run d ⟨.inField, cur, fields, recs, line, recLine⟩ bs = ⟨.inField, cur ++ bs, fields, recs, line, recLine⟩ := by
  induction bs with
  | nil => intro cur; simp
  | cons c r ih =>
    intro cur
    rw [run_cons, step_inField_plain d cur fields recs line recLine c (h c (by simp)),
      ih (fun x hx => h x (by simp [hx]))]
    simp

/-- inside quotes: a doubled quote is one quote, every other byte — delimiters and line ends included — is copied -/
theorem run_quoted (f : Bytes) : ∀ (cur : Bytes) (line : Nat),
    Rd.run d ⟨.inQuotedField, cur, fields, recs, line, recLine⟩ (escapeQuotes f) =
      ⟨.inQuotedField, cur ++ f, fields, recs, line + countLF f, recLine⟩ := by
  induction f with
  | nil => intro cur line; simp [escapeQuotes]
  | cons c r ih =>
    intro cur line
    by_cases hq : c = QUOTE
    · subst hq
      simp only [escapeQuotes, beq_self_eq_true, if_true, run_cons]
      have e1 : Rd.step d ⟨.inQuotedField, cur, fields, recs, line, recLine⟩ QUOTE =
          ⟨.inDoubleEscapedQuote, cur, fields, recs, line, recLine⟩ := by
        simp [Rd.step, dfaStep_inQuotedField]
      have e2 : Rd.step d ⟨.inDoubleEscapedQuote, cur, fields, recs, line, recLine⟩ QUOTE =
          ⟨.inQuotedField, cur ++ [QUOTE], fields, recs, line, recLine⟩ := by
        simp [Rd.step, dfaStep_inDoubleEscapedQuote]
      rw [e1, e2, ih, countLF_cons]
      simp
    · have hq' : (c == QUOTE) = false := by simpa using hq
      have hq'' : (QUOTE == c) = false := by simpa using fun e => hq e.symm
      simp only [escapeQuotes, hq']
      have e1 : Rd.step d ⟨.inQuotedField, cur, fields, recs, line, recLine⟩ c =
          ⟨.inQuotedField, cur ++ [c], fields, recs, if c == LF then line + 1 else line, recLine⟩ := by
        simp [Rd.step, dfaStep_inQuotedField, hq'']
      simp only [Bool.false_eq_true, if_false]
      rw [run_cons, e1, ih, countLF_cons]
      by_cases hl : c == LF <;> simp [hl] <;> omega

/-- the states in which a field starts (`crlf`: right after a `\r` that ended the previous record) -/
def FieldStart (st : Nfa) : Prop := st = .startRecord ∨ st = .endRecord ∨ st = .endFieldDelim ∨ st = .crlf

theorem step_start_quote (st : Nfa) (hst : FieldStart st) :
    Rd.step d ⟨st, [], fields, recs, line, recLine⟩ QUOTE = ⟨.inQuotedField, [], fields, recs, line, recLine⟩ := by
  rcases hst with h | h | h | h <;> subst h <;>
    simp [Rd.step, dfaStep_startRecord, dfaStep_endRecord, dfaStep_endFieldDelim, dfaStep_crlf, isTerm]

theorem step_start_plain (st : Nfa) (hst : FieldStart st) (c : UInt8) (h : Plain d c) :
    Rd.step d ⟨st, [], fields, recs, line, recLine⟩ c = ⟨.inField, [c], fields, recs, line, recLine⟩ := by
  obtain ⟨h1, h2, h3, h4, h5, h6⟩ := plain_facts h
  rcases hst with h | h | h | h <;> subst h <;>
    simp [Rd.step, dfaStep_startRecord, dfaStep_endRecord, dfaStep_endFieldDelim, dfaStep_crlf, h1, h2, h4, h5, h6]

/-- **outside quotes a delimiter always splits** (at the start of a field: the field is empty) -/
theorem step_start_delim (hd : GoodDelim d) (st : Nfa) (hst : FieldStart st) :
    Rd.step d ⟨st, [], fields, recs, line, recLine⟩ d = ⟨.endFieldDelim, [], fields ++ [[]], recs, line, recLine⟩ := by
  obtain ⟨h1, h2, h3, h4, h5⟩ := good_facts hd
  rcases hst with h | h | h | h <;> subst h <;>
    simp [Rd.step, dfaStep_startRecord, dfaStep_endRecord, dfaStep_endFieldDelim, dfaStep_crlf, h1, h3, h4, h5]

/-- the states in which an unquoted field, or the text after a closing quote, is being read -/
def InPlain (st : Nfa) : Prop := st = .inField ∨ st = .inDoubleEscapedQuote

/-- **outside quotes a delimiter always splits** (inside a field, or after the closing quote) -/
theorem step_in_delim (hd : GoodDelim d) (st : Nfa) (hst : InPlain st) :
    Rd.step d ⟨st, cur, fields, recs, line, recLine⟩ d = ⟨.endFieldDelim, [], fields ++ [cur], recs, line, recLine⟩ := by
  obtain ⟨h1, h2, h3, h4, h5⟩ := good_facts hd
  rcases hst with h | h <;> subst h <;>
    simp [Rd.step, dfaStep_inField, dfaStep_inDoubleEscapedQuote, h1, h4]

/-- a `\n` outside quotes ends the record, which is stamped with the line on which its read began; the next record is
stamped with the line after this `\n` -/
theorem step_in_LF (st : Nfa) (hst : InPlain st ∨ st = .endFieldDelim) (hd : GoodDelim d) :
    Rd.step d ⟨st, cur, fields, recs, line, recLine⟩ LF =
      ⟨.endRecord, [], [], recs ++ [(recLine, fields ++ [cur])], line + 1, line + 1⟩ := by
  obtain ⟨h1, h2, h3, h4, h5⟩ := good_facts hd
  have hdl : (d == 10) = false := h4
  rcases hst with (h | h) | h <;> subst h <;>
    simp [Rd.step, dfaStep_inField, dfaStep_inDoubleEscapedQuote, dfaStep_endFieldDelim, hdl, isTerm]

/-- **an empty line is skipped**: a `\n` where a record would start reads nothing -/
theorem step_rowStart_LF (st : Nfa) (hst : st = .startRecord ∨ st = .endRecord) :
    Rd.step d ⟨st, cur, fields, recs, line, recLine⟩ LF = ⟨.startRecord, cur, fields, recs, line + 1, recLine⟩ := by
  rcases hst with h | h <;> subst h <;> simp [Rd.step, dfaStep_startRecord, dfaStep_endRecord, isTerm]

end steps

/-! ## the canonical writer read back -/

/-- one written field: the reader ends in a state where the field text is in `cur` (after a closing quote, inside an
unquoted field) or — empty unquoted field — has not moved at all -/
theorem run_field (d : UInt8) (f : Bytes) (st0 : Nfa) (hst : FieldStart st0) (fields : List Bytes)
    (recs : List (Nat × List Bytes)) (line recLine : Nat) :
    ∃ st1 l, (InPlain st1 ∨ (f = [] ∧ st1 = st0)) ∧
      Rd.run d ⟨st0, [], fields, recs, line, recLine⟩ (writeField d f) = ⟨st1, f, fields, recs, l, recLine⟩ := by
  unfold writeField
  by_cases hq : needsQuote d f = true
  · simp only [hq, if_true, run_cons, run_append, run_nil]
    rw [step_start_quote d fields recs line recLine st0 hst, run_quoted]
    refine ⟨.inDoubleEscapedQuote, line + countLF f, Or.inl (Or.inr rfl), ?_⟩
    simp [Rd.step, dfaStep_inQuotedField]
  · have hq' : needsQuote d f = false := by simpa using hq
    have hp := (needsQuote_false_iff d f).1 hq'
    simp only [hq', Bool.false_eq_true, if_false]
    cases f with
    | nil => exact ⟨st0, line, Or.inr ⟨rfl, rfl⟩, rfl⟩
    | cons c r =>
      refine ⟨.inField, line, Or.inl (Or.inl rfl), ?_⟩
      rw [run_cons, step_start_plain d fields recs line recLine st0 hst c (hp c (by simp)),
        run_plain d fields recs line recLine r (fun x hx => hp x (by simp [hx]))]
      simp

/-- a written row (at least one field; not a lone empty field unless other fields came before) followed by `\n` -/
theorem run_fields (d : UInt8) (hd : GoodDelim d) : ∀ (r : List Bytes), r ≠ [] → ∀ (st0 : Nfa), FieldStart st0 →
    (st0 = .endFieldDelim ∨ r ≠ [[]]) → ∀ (fields : List Bytes) (recs : List (Nat × List Bytes)) (line recLine : Nat),
    ∃ l, Rd.run d ⟨st0, [], fields, recs, line, recLine⟩ (writeFields d r ++ [LF]) =
      ⟨.endRecord, [], [], recs ++ [(recLine, fields ++ r)], l, l⟩ := by
  intro r
  induction r with
  | nil => intro h; exact absurd rfl h
  | cons f rest ih =>
    intro _ st0 hst hrow fields recs line recLine
    obtain ⟨st1, l, hst1, hrun⟩ := run_field d f st0 hst fields recs line recLine
    cases rest with
    | nil =>
      simp only [writeFields, run_append, hrun, run_cons, run_nil]
      rcases hst1 with h1 | ⟨hf, h1⟩
      · exact ⟨l + 1, step_in_LF d f fields recs l recLine st1 (Or.inl h1) hd⟩
      · subst hf; subst h1
        rcases hrow with h | h
        · subst h
          exact ⟨l + 1, step_in_LF d [] fields recs l recLine .endFieldDelim (Or.inr rfl) hd⟩
        · exact absurd rfl h
    | cons g rest' =>
      have hstep : Rd.step d ⟨st1, f, fields, recs, l, recLine⟩ d = ⟨.endFieldDelim, [], fields ++ [f], recs, l, recLine⟩ := by
        rcases hst1 with h1 | ⟨hf, h1⟩
        · exact step_in_delim d f fields recs l recLine hd st1 h1
        · subst hf; subst h1
          exact step_start_delim d fields recs l recLine hd st1 hst
      obtain ⟨l', h'⟩ := ih (by simp) .endFieldDelim (Or.inr (Or.inr (Or.inl rfl))) (Or.inl rfl) (fields ++ [f]) recs l recLine
      refine ⟨l', ?_⟩
      rw [run_append] at h'
      simp only [run_cons, run_nil] at h'
      simp only [writeFields, List.append_assoc, List.cons_append, run_append, hrun, run_cons, hstep, run_nil, h']
      simp

/-- the rows with the line on which each of them starts in the written text -/
def withLines (d : UInt8) : Nat → List (List Bytes) → List (Nat × List Bytes)
  | _, [] => []
  | l, r :: rest => (l, r) :: withLines d (l + countLF (writeRow d r)) rest

@[simp] theorem withLines_map_snd (d : UInt8) : ∀ (rows : List (List Bytes)) (l : Nat),
    (withLines d l rows).map Prod.snd = rows
  | [], _ => rfl
  | r :: rest, l => by simp [withLines, withLines_map_snd d rest]

/-- what the canonical writer can write so that the reader gives it back: at least one field, and not a lone empty field
(that row is an empty line, which the reader skips) -/
def WritableRow (r : List Bytes) : Prop := r ≠ [] ∧ r ≠ [[]]

instance (r : List Bytes) : Decidable (WritableRow r) := by unfold WritableRow; infer_instance

theorem run_rows (d : UInt8) (hd : GoodDelim d) : ∀ (rows : List (List Bytes)), (∀ r ∈ rows, WritableRow r) →
    ∀ (st0 : Nfa), (st0 = .startRecord ∨ st0 = .endRecord) → ∀ (recs : List (Nat × List Bytes)) (line : Nat),
    ∃ st1 l, (st1 = .startRecord ∨ st1 = .endRecord) ∧
      Rd.run d ⟨st0, [], [], recs, line, line⟩ (writeCsvBytes d rows) = ⟨st1, [], [], recs ++ withLines d line rows, l, l⟩ := by
  intro rows
  induction rows with
  | nil => intro _ st0 hst recs line; exact ⟨st0, line, hst, by simp [writeCsvBytes, withLines]⟩
  | cons r rest ih =>
    intro hrows st0 hst recs line
    have hr := hrows r (by simp)
    have hfs : FieldStart st0 := by rcases hst with h | h <;> simp [FieldStart, h]
    obtain ⟨l, hl⟩ := run_fields d hd r hr.1 st0 hfs (Or.inr hr.2) [] recs line line
    have hline := run_line d (writeFields d r ++ [LF]) ⟨st0, [], [], recs, line, line⟩
    rw [hl] at hline
    simp only at hline
    obtain ⟨st1, l', hst1, h'⟩ := ih (fun x hx => hrows x (by simp [hx])) .endRecord (Or.inr rfl)
      (recs ++ [(line, [] ++ r)]) l
    refine ⟨st1, l', hst1, ?_⟩
    have : writeCsvBytes d (r :: rest) = (writeFields d r ++ [LF]) ++ writeCsvBytes d rest := by
      simp [writeCsvBytes, writeRow]
    rw [this, run_append, hl, h', hline]
    simp [withLines, writeRow]

/-- the written text does not begin with a UTF-8 byte order mark (which the reader would strip) -/
def NoBom (bs : Bytes) : Prop := stripBom bs = bs

instance (bs : Bytes) : Decidable (NoBom bs) := by unfold NoBom; infer_instance

/-- **`readCsv (writeCsv rows) = rows`, with positions.**  For a delimiter that is not the quote or a line end, rows that
are writable (non-empty, not a lone empty field) and a text that does not start with a byte order mark, the reader gives
back exactly the rows, and stamps each with the line of the text on which it starts (1 + the `\n` bytes in front of it —
those inside quoted fields included). -/
theorem readRecordsPos_write (d : UInt8) (hd : GoodDelim d) (rows : List (List Bytes)) (hrows : ∀ r ∈ rows, WritableRow r)
    (hbom : NoBom (writeCsvBytes d rows)) : readRecordsPos d (writeCsvBytes d rows) = withLines d 1 rows := by
  unfold readRecordsPos
  rw [hbom]
  obtain ⟨st1, l, hst1, h⟩ := run_rows d hd rows hrows .startRecord (Or.inl rfl) [] 1
  unfold Rd.init
  rw [h]
  rcases hst1 with h1 | h1 <;> subst h1 <;> simp [Rd.finish]

theorem readRecords_write (d : UInt8) (hd : GoodDelim d) (rows : List (List Bytes)) (hrows : ∀ r ∈ rows, WritableRow r)
    (hbom : NoBom (writeCsvBytes d rows)) : readRecords d (writeCsvBytes d rows) = rows := by
  unfold readRecords
  rw [readRecordsPos_write d hd rows hrows hbom]
  simp

end Okane.Import.CsvText
