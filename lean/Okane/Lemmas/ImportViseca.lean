import Okane.Lemmas.ImportVisecaRound
import Okane.Lemmas.ImportVisecaText
/-!
# Viseca statement importer — theorems about `Model/ImportViseca.lean`

(a) **totality** (`Lemmas/ImportVisecaLoop.lean`): `parseEntry_spec`, `parseEntries_total`, `visecaImport_total` — the parser and the
    importer never panic and never run out of fuel, for every list of lines (also lines that are not UTF-8), every configuration,
    every regex engine;
(b) **one transaction per statement record** (`ImportVisecaLoop`): `visecaImport_one_per_record`, `parseEntries_heads`,
    `visecaImport_of_parse`;
(c) **round trip** (`Lemmas/ImportVisecaNum.lean`, `ImportVisecaScan.lean`, `ImportVisecaRound.lean`, `ImportVisecaText.lean`):
    `parseEntry_printEntry`, `parseEntries_printStatement`, `parseEntries_statementText` (on the text, cut by `linesOf`); below: the side conditions are needed (`roundtrip_needs_*`), and the regression statement of
    finding F38;
(d) **sign / amount facts** of `viseca.rs::import` (below): `entryToTxn_amount`, `entryToTxn_charges`, `entryToTxn_rate`,
    `parseEntry_exchange_spent`, `viseca_tree`.
-/
set_option linter.unusedSimpArgs false
namespace Okane.Import.Viseca
open Okane Okane.Import Okane.Literal Okane.C07

/-! ## (d) what `viseca.rs::import` makes of an entry -/

/-- the fields `baseTxn` sets -/
theorem baseTxn_fields (env : VisecaEnv) (cfg : ConfigEntry) (e : Entry) :
    (baseTxn env cfg e).amount = ⟨e.amount.negate, cfg.commodity.primary⟩ ∧
    (baseTxn env cfg e).date = e.date ∧
    (baseTxn env cfg e).effectiveDate = (if e.date ≠ e.effectiveDate then some e.effectiveDate else none) ∧
    (baseTxn env cfg e).payee = (entryFragment env cfg e).payee.getD e.payee ∧
    (baseTxn env cfg e).destAccount = (entryFragment env cfg e).account ∧
    (baseTxn env cfg e).clearState = (if (entryFragment env cfg e).cleared then none else some .pending) ∧
    (baseTxn env cfg e).rates = [] ∧ (baseTxn env cfg e).charges = [] ∧ (baseTxn env cfg e).transferredAmount = none ∧
    (baseTxn env cfg e).code = none ∧ (baseTxn env cfg e).comments = [] ∧ (baseTxn env cfg e).balance = none := by
  unfold baseTxn
  simp only []
  cases hcl : (entryFragment env cfg e).cleared <;>
    by_cases hd : e.date = e.effectiveDate <;>
    simp [Txn.new, Txn.setEffectiveDate, Txn.destAccountOption, Txn.setClearState, hd]

theorem addRate_empty (t : Txn) (key : CommodityPair) (rate : Dec) (hr : t.rates = []) :
    t.addRate key rate = if key.source = key.target then .err (.other "rate-same-commodity")
      else .ok { t with rates := [(key.target, ⟨rate, key.source⟩)] } := by
  unfold Txn.addRate
  rw [hr]
  simp [AMap.get?, AMap.insert]

/-- what the exchange / spent block does to a transaction -/
theorem withSpent_ok {t t' : Txn} {e : Entry} (h : withSpent t e = .ok t') (hr : t.rates = []) :
    t'.amount = t.amount ∧ t'.date = t.date ∧ t'.effectiveDate = t.effectiveDate ∧ t'.payee = t.payee ∧
    t'.destAccount = t.destAccount ∧ t'.clearState = t.clearState ∧ t'.charges = t.charges ∧ t'.code = t.code ∧
    t'.comments = t.comments ∧ t'.balance = t.balance ∧
    (match e.exchange, e.spent with
     | some x, some s => t'.rates = [(s.commodity, ⟨x.rate, x.equivalent.commodity⟩)] ∧ t'.transferredAmount = some s.negate ∧
         x.equivalent.commodity ≠ s.commodity
     | some _, none => False
     | none, some s => t'.rates = [] ∧ t'.transferredAmount = some s.negate
     | none, none => t'.rates = [] ∧ t'.transferredAmount = t.transferredAmount) := by
  unfold withSpent at h
  cases hx : e.exchange with
  | some x =>
    rw [hx] at h
    cases hs : e.spent with
    | none => rw [hs] at h; simp at h
    | some s =>
      rw [hs] at h
      simp only [] at h
      rw [addRate_empty _ _ _ hr] at h
      by_cases hne : x.equivalent.commodity = s.commodity
      · simp [hne] at h
      · simp only [hne, if_false, Outcome.ok.injEq] at h
        subst h
        simp [Txn.setTransferredAmount, hne]
  | none =>
    rw [hx] at h
    cases hs : e.spent with
    | none =>
      rw [hs] at h
      simp only [Outcome.ok.injEq] at h
      subst h
      simp [hr]
    | some s =>
      rw [hs] at h
      simp only [Outcome.ok.injEq] at h
      subst h
      simp [Txn.setTransferredAmount, hr]

/-- what the fee block does to a transaction: **exactly one charge** for a fee line, paid to the operator; none otherwise -/
theorem withFee_ok {cfg : ConfigEntry} {t t' : Txn} {e : Entry} (h : withFee cfg t e = .ok t') :
    t'.amount = t.amount ∧ t'.date = t.date ∧ t'.effectiveDate = t.effectiveDate ∧ t'.payee = t.payee ∧
    t'.destAccount = t.destAccount ∧ t'.clearState = t.clearState ∧ t'.rates = t.rates ∧
    t'.transferredAmount = t.transferredAmount ∧ t'.code = t.code ∧ t'.comments = t.comments ∧ t'.balance = t.balance ∧
    (match e.fee with
     | some f => ∃ op, cfg.operator = some op ∧ t'.charges = t.charges ++ [⟨op, f.amount⟩]
     | none => t'.charges = t.charges) := by
  unfold withFee at h
  cases hf : e.fee with
  | none =>
    rw [hf] at h
    simp only [Outcome.ok.injEq] at h
    subst h; simp
  | some f =>
    rw [hf] at h
    cases hop : cfg.operator with
    | none => rw [hop] at h; simp at h
    | some op =>
      rw [hop] at h
      simp only [Outcome.ok.injEq] at h
      subst h
      simp [Txn.addCharge]

/-- **(d) amounts and signs**: the transaction built for a statement record carries **minus the statement amount** in the card's
commodity (a card is a liability: what the statement shows as spent is a negative posting on the card), the record's dates
(effective date only when it differs), the rules' payee / counter-account / state, no code, no comments, no balance. -/
theorem entryToTxn_amount {env : VisecaEnv} {cfg : ConfigEntry} {e : Entry} {t : Txn} (h : entryToTxn env cfg e = .ok t) :
    t.amount = ⟨e.amount.negate, cfg.commodity.primary⟩ ∧ t.date = e.date ∧
    t.effectiveDate = (if e.date ≠ e.effectiveDate then some e.effectiveDate else none) ∧
    t.payee = (entryFragment env cfg e).payee.getD e.payee ∧ t.destAccount = (entryFragment env cfg e).account ∧
    t.clearState = (if (entryFragment env cfg e).cleared then none else some .pending) ∧
    t.code = none ∧ t.comments = [] ∧ t.balance = none := by
  unfold entryToTxn at h
  have hb := baseTxn_fields env cfg e
  cases hw : withSpent (baseTxn env cfg e) e with
  | ok t1 =>
    rw [hw] at h
    have h1 := withSpent_ok hw hb.2.2.2.2.2.2.1
    have h2 := withFee_ok h
    obtain ⟨b1, b2, b3, b4, b5, b6, b7, b8, b9, b10, b11, b12⟩ := hb
    obtain ⟨s1, s2, s3, s4, s5, s6, s7, s8, s9, s10, _⟩ := h1
    obtain ⟨f1, f2, f3, f4, f5, f6, f7, f8, f9, f10, f11, _⟩ := h2
    exact ⟨by rw [f1, s1, b1], by rw [f2, s2, b2], by rw [f3, s3, b3], by rw [f4, s4, b4], by rw [f5, s5, b5], by rw [f6, s6, b6],
      by rw [f9, s8, b10], by rw [f10, s9, b11], by rw [f11, s10, b12]⟩
  | err x => rw [hw] at h; simp at h
  | panic s => rw [hw] at h; simp at h
  | fuelOut => rw [hw] at h; simp at h

/-- **(d) a fee becomes one charge**: a record with a fee line gets exactly one charge — the fee amount as read (negative for a
`Credit of processing fee`), paid to the configured operator; a record without fee line gets none. -/
theorem entryToTxn_charges {env : VisecaEnv} {cfg : ConfigEntry} {e : Entry} {t : Txn} (h : entryToTxn env cfg e = .ok t) :
    match e.fee with
    | some f => ∃ op, cfg.operator = some op ∧ t.charges = [⟨op, f.amount⟩]
    | none => t.charges = [] := by
  unfold entryToTxn at h
  have hb := baseTxn_fields env cfg e
  cases hw : withSpent (baseTxn env cfg e) e with
  | ok t1 =>
    rw [hw] at h
    have h1 := withSpent_ok hw hb.2.2.2.2.2.2.1
    have h2 := withFee_ok h
    have hc1 : t1.charges = [] := by rw [h1.2.2.2.2.2.2.1, hb.2.2.2.2.2.2.2.1]
    have := h2.2.2.2.2.2.2.2.2.2.2.2
    cases hf : e.fee with
    | none => rw [hf] at this; simp only [] at this ⊢; rw [this, hc1]
    | some f =>
      rw [hf] at this
      obtain ⟨op, ho, hch⟩ := this
      exact ⟨op, ho, by rw [hch, hc1]; rfl⟩
  | err x => rw [hw] at h; simp at h
  | panic s => rw [hw] at h; simp at h
  | fuelOut => rw [hw] at h; simp at h

/-- **(d) the exchange rate attaches to the right commodity pair**: with an exchange line the only rate of the transaction is
keyed by the *spent* commodity and priced in the *equivalent's* commodity (`spent @ rate equivalent-commodity`), the two being
different; the transferred amount is minus the spent amount.  Without exchange line there is no rate, and the transferred amount
is minus the spent amount when the record has one. -/
theorem entryToTxn_rate {env : VisecaEnv} {cfg : ConfigEntry} {e : Entry} {t : Txn} (h : entryToTxn env cfg e = .ok t) :
    match e.exchange, e.spent with
    | some x, some s => t.rates = [(s.commodity, ⟨x.rate, x.equivalent.commodity⟩)] ∧ t.transferredAmount = some s.negate ∧
        x.equivalent.commodity ≠ s.commodity
    | some _, none => False
    | none, some s => t.rates = [] ∧ t.transferredAmount = some s.negate
    | none, none => t.rates = [] ∧ t.transferredAmount = none := by
  unfold entryToTxn at h
  have hb := baseTxn_fields env cfg e
  cases hw : withSpent (baseTxn env cfg e) e with
  | ok t1 =>
    rw [hw] at h
    have h1 := withSpent_ok hw hb.2.2.2.2.2.2.1
    have h2 := withFee_ok h
    have hr : t.rates = t1.rates := h2.2.2.2.2.2.2.1
    have htr : t.transferredAmount = t1.transferredAmount := h2.2.2.2.2.2.2.2.1
    have := h1.2.2.2.2.2.2.2.2.2.2
    cases hx : e.exchange <;> cases hs : e.spent <;> rw [hx, hs] at this <;> simp only [] at this ⊢
    · rw [hr, htr, this.1, this.2, hb.2.2.2.2.2.2.2.2.1]; exact ⟨rfl, rfl⟩
    · rw [hr, htr]; exact this
    · rw [hr, htr]; exact this
  | err x => rw [hw] at h; simp at h
  | panic s => rw [hw] at h; simp at h
  | fuelOut => rw [hw] at h; simp at h

/-! ## the parser's entries are well formed: the `internal error` of `import` cannot happen -/

/-- an exchange line belongs to a currency group in another currency than the card's; a fee line to a currency group -/
def WfEntry (primary : String) (e : Entry) : Prop :=
  (∀ x, e.exchange = some x → ∃ s, e.spent = some s ∧ s.commodity ≠ primary) ∧ (∀ f, e.fee = some f → ∃ s, e.spent = some s)

theorem parseFirstLine_ok {k : Nat} {c : FirstCaps} {base : Entry} (h : parseFirstLine k c = .ok base) :
    base.exchange = none ∧ base.fee = none := by
  unfold parseFirstLine at h
  split at h
  · simp at h
  · rcases parseEuroDateE_cases c.edate with ⟨d, hd⟩ | hd <;> rw [hd] at h <;> simp only [reduceCtorEq] at h
    rcases parseDecimalE_cases c.amount with ⟨a, ha⟩ | ha <;> rw [ha] at h
    · cases hs : c.spent with
      | none => rw [hs] at h; simp only [Outcome.ok.injEq] at h; subst h; exact ⟨rfl, rfl⟩
      | some p =>
        obtain ⟨cur, ex⟩ := p
        rw [hs] at h
        simp only [] at h
        rcases parseDecimalE_cases ex with ⟨x, hx⟩ | hx <;> rw [hx] at h <;> simp only [Outcome.ok.injEq, reduceCtorEq] at h
        subst h; exact ⟨rfl, rfl⟩
    · cases hs : c.spent with
      | none => rw [hs] at h; simp at h
      | some p =>
        obtain ⟨cur, ex⟩ := p
        rw [hs] at h
        simp only [] at h
        rcases parseDecimalE_cases ex with ⟨x, hx⟩ | hx <;> rw [hx] at h <;> simp at h

theorem parseExchangeOpt_some {primary : String} {spent : Option OwnedAmount} {r r' : Reader} {x : Viseca.Exchange}
    (h : parseExchangeOpt primary spent r = .ok (some x, r')) : ∃ s, spent = some s ∧ s.commodity ≠ primary := by
  unfold parseExchangeOpt at h
  cases spent with
  | none => simp at h
  | some s =>
    simp only [] at h
    by_cases hne : s.commodity ≠ primary
    · exact ⟨s, rfl, hne⟩
    · rw [if_neg hne] at h; simp at h

theorem parseFeeOpt_some {spent : Option OwnedAmount} {r r' : Reader} {f : Fee}
    (h : parseFeeOpt spent r = .ok (some f, r')) : ∃ s, spent = some s := by
  unfold parseFeeOpt at h
  cases spent with
  | none => simp at h
  | some s => exact ⟨s, rfl⟩

theorem parseDetails_wf {primary : String} {lc : Nat} {base : Entry} {cat : String} {r2 r' : Reader} {e : Entry}
    (h : parseDetails primary lc base cat r2 = .ok (some e, r')) : WfEntry primary e := by
  unfold parseDetails at h
  cases hx : parseExchangeOpt primary base.spent r2 with
  | ok p =>
    obtain ⟨exchange, r3⟩ := p
    rw [hx] at h
    simp only [] at h
    cases hf : parseFeeOpt base.spent r3 with
    | ok q =>
      obtain ⟨fee, r4⟩ := q
      rw [hf] at h
      simp only [] at h
      cases hs : skipAirTags r4 with
      | ok r5 =>
        rw [hs] at h
        simp only [Outcome.ok.injEq, Prod.mk.injEq, Option.some.injEq] at h
        rw [← h.1]
        constructor
        · intro x hxe
          simp only [] at hxe
          subst hxe
          exact parseExchangeOpt_some hx
        · intro f hfe
          simp only [] at hfe
          subst hfe
          exact parseFeeOpt_some hf
      | err x => rw [hs] at h; simp at h
      | panic s => rw [hs] at h; simp at h
      | fuelOut => rw [hs] at h; simp at h
    | err x => rw [hf] at h; simp at h
    | panic s => rw [hf] at h; simp at h
    | fuelOut => rw [hf] at h; simp at h
  | err x => rw [hx] at h; simp at h
  | panic s => rw [hx] at h; simp at h
  | fuelOut => rw [hx] at h; simp at h

/-- every entry `parse_entry` returns is well formed -/
theorem parseEntry_wf {primary : String} {r r' : Reader} {e : Entry} (h : parseEntry primary r = .ok (some e, r')) :
    WfEntry primary e := by
  unfold parseEntry at h
  cases hr : r.readLine with
  | ok p =>
    obtain ⟨buf, r1⟩ := p
    rw [hr] at h
    simp only [] at h
    cases hb : buf.isEmpty with
    | true => rw [hb] at h; simp at h
    | false =>
      rw [hb] at h
      simp only [Bool.false_eq_true, if_false] at h
      cases hfl : firstLine (Parse.trimEnd buf) with
      | none => rw [hfl] at h; simp at h
      | some c =>
        rw [hfl] at h
        simp only [] at h
        cases hbase : parseFirstLine r1.lineCount c with
        | ok base =>
          rw [hbase] at h
          simp only [] at h
          obtain ⟨hb1, hb2⟩ := parseFirstLine_ok hbase
          cases hpk : r1.peek with
          | ok next =>
            rw [hpk] at h
            simp only [] at h
            by_cases hc : (next.isEmpty || startsWithDigit next) = true
            · rw [if_pos hc] at h
              simp only [Outcome.ok.injEq, Prod.mk.injEq, Option.some.injEq] at h
              rw [← h.1]
              exact ⟨by intro x hx; simp only [] at hx; rw [hb1] at hx; simp at hx,
                     by intro f hf; simp only [] at hf; rw [hb2] at hf; simp at hf⟩
            · rw [if_neg hc] at h
              cases hr2 : r1.readLine with
              | ok p2 =>
                obtain ⟨buf2, r2⟩ := p2
                rw [hr2] at h
                simp only [] at h
                cases hb2' : buf2.isEmpty with
                | true => rw [hb2'] at h; simp at h
                | false =>
                  rw [hb2'] at h
                  simp only [Bool.false_eq_true, if_false] at h
                  exact parseDetails_wf h
              | err x => rw [hr2] at h; simp at h
              | panic s => rw [hr2] at h; simp at h
              | fuelOut => rw [hr2] at h; simp at h
          | err x => rw [hpk] at h; simp at h
          | panic s => rw [hpk] at h; simp at h
          | fuelOut => rw [hpk] at h; simp at h
        | err x => rw [hbase] at h; simp at h
        | panic s => rw [hbase] at h; simp at h
        | fuelOut => rw [hbase] at h; simp at h
  | err x => rw [hr] at h; simp at h
  | panic s => rw [hr] at h; simp at h
  | fuelOut => rw [hr] at h; simp at h

/-- all entries of a statement are well formed -/
theorem parseEntriesFuel_wf (primary : String) : ∀ (fuel : Nat) (r : Reader) (es : List Entry),
    parseEntriesFuel primary fuel r = .ok es → ∀ e ∈ es, WfEntry primary e := by
  intro fuel
  induction fuel with
  | zero => intro r es h; simp [parseEntriesFuel] at h
  | succ fuel ih =>
    intro r es h
    rw [parseEntriesFuel] at h
    cases hp : parseEntry primary r with
    | ok p =>
      obtain ⟨oe, r'⟩ := p
      rw [hp] at h
      cases oe with
      | none => simp only [Outcome.ok.injEq] at h; subst h; simp
      | some e =>
        simp only [] at h
        cases hrec : parseEntriesFuel primary fuel r' with
        | ok es' =>
          rw [hrec] at h
          simp only [Outcome.ok.injEq] at h
          subst h
          intro x hx
          rcases List.mem_cons.mp hx with rfl | hx
          · exact parseEntry_wf hp
          · exact ih r' es' hrec x hx
        | err x => rw [hrec] at h; simp at h
        | panic s => rw [hrec] at h; simp at h
        | fuelOut => rw [hrec] at h; simp at h
    | err x => rw [hp] at h; simp at h
    | panic s => rw [hp] at h; simp at h
    | fuelOut => rw [hp] at h; simp at h

theorem parseEntries_wf (primary : String) (lines : List RawLine) (es : List Entry) (h : parseEntries primary lines = .ok es) :
    ∀ e ∈ es, WfEntry primary e :=
  parseEntriesFuel_wf primary _ _ es h

/-- for a well-formed entry the conversion can only fail for two reasons: the exchange line names the spent commodity itself
(`rate-same-commodity`), or there is a fee line and no operator is configured -/
theorem entryToTxn_err {env : VisecaEnv} {cfg : ConfigEntry} {e : Entry} {x : ImportErr} (hw : WfEntry cfg.commodity.primary e)
    (h : entryToTxn env cfg e = .err x) :
    (x = .other "rate-same-commodity" ∧ ∃ ex s, e.exchange = some ex ∧ e.spent = some s ∧ ex.equivalent.commodity = s.commodity) ∨
    (x = .invalidConfig "config should have operator to have charge" ∧ e.fee.isSome = true ∧ cfg.operator = none) := by
  unfold entryToTxn at h
  have hb := baseTxn_fields env cfg e
  cases hws : withSpent (baseTxn env cfg e) e with
  | ok t1 =>
    rw [hws] at h
    unfold withFee at h
    cases hf : e.fee with
    | none => rw [hf] at h; simp at h
    | some f =>
      rw [hf] at h
      cases hop : cfg.operator with
      | none => rw [hop] at h; simp only [Outcome.err.injEq] at h; exact Or.inr ⟨h.symm, rfl, rfl⟩
      | some op => rw [hop] at h; simp at h
  | err y =>
    rw [hws] at h
    simp only [Outcome.err.injEq] at h
    subst h
    unfold withSpent at hws
    cases hx : e.exchange with
    | none => rw [hx] at hws; cases hs : e.spent <;> rw [hs] at hws <;> simp at hws
    | some ex =>
      rw [hx] at hws
      obtain ⟨s, hs, _⟩ := hw.1 ex hx
      rw [hs] at hws
      simp only [] at hws
      rw [addRate_empty _ _ _ hb.2.2.2.2.2.2.1] at hws
      by_cases hne : ex.equivalent.commodity = s.commodity
      · simp only [hne, if_true, Outcome.err.injEq] at hws
        exact Or.inl ⟨hws.symm, ex, s, rfl, hs, hne⟩
      · simp [hne] at hws
  | panic s => rw [hws] at h; simp at h
  | fuelOut => rw [hws] at h; simp at h


/-! ## concrete statements: non-vacuity, necessity of the side conditions, regression of F38 -/

/-- the records of `cli/tests/testdata/import/viseca.txt` that show every line kind -/
def exStatement : List Entry :=
  [ { lineCount := 0, date := ⟨2020, 7, 23⟩, effectiveDate := ⟨2020, 7, 24⟩, payee := "Your payment - Thank you",
      amount := ⟨true, 180305, 2⟩, category := "", spent := none, exchange := none, fee := none },
    { lineCount := 0, date := ⟨2020, 8, 10⟩, effectiveDate := ⟨2020, 8, 11⟩, payee := "Europe Gas AT",
      amount := ⟨false, 5210, 2⟩, category := "Service stations", spent := some ⟨⟨false, 4688, 2⟩, "EUR"⟩,
      exchange := some ⟨⟨false, 1092432, 6⟩, ⟨2020, 8, 11⟩, ⟨⟨false, 5120, 2⟩, "CHF"⟩⟩,
      fee := some ⟨⟨false, 175, 2⟩, ⟨⟨false, 90, 2⟩, "CHF"⟩⟩ },
    { lineCount := 0, date := ⟨2020, 12, 13⟩, effectiveDate := ⟨2020, 12, 15⟩, payee := "PAYPAL *STEAM GAMES, 35314369001 GB",
      amount := ⟨false, 1935, 2⟩, category := "Game, toy, and hobby shops", spent := some ⟨⟨false, 1900, 2⟩, "CHF"⟩,
      exchange := none, fee := some ⟨⟨false, 175, 2⟩, ⟨⟨false, 35, 2⟩, "CHF"⟩⟩ },
    { lineCount := 0, date := ⟨2022, 8, 11⟩, effectiveDate := ⟨2022, 7, 23⟩, payee := "AMZNPRIME DE AMZN.DE/I, Luxembourg LU",
      amount := ⟨true, 805, 2⟩, category := "Subscription merchants", spent := some ⟨⟨true, 799, 2⟩, "EUR"⟩,
      exchange := some ⟨⟨false, 988364, 6⟩, ⟨2022, 8, 12⟩, ⟨⟨false, 790, 2⟩, "CHF"⟩⟩,
      fee := some ⟨⟨false, 175, 2⟩, ⟨⟨true, 15, 2⟩, "CHF"⟩⟩ },
    { lineCount := 0, date := ⟨1999, 12, 31⟩, effectiveDate := ⟨2000, 1, 1⟩, payee := "Air-France: ticket 1'000",
      amount := ⟨false, 123456789, 2⟩, category := "", spent := none, exchange := none, fee := none } ]

/-- a statement, line by line (each with its line feed), as `BufRead::read_line` hands it out -/
def mkLines (ls : List String) : List RawLine := ls.map fun l => RawLine.text (l.toList ++ ['\n'])

def exLines : List RawLine := mkLines
  ["23.07.20 24.07.20 Your payment - Thank you 1'803.05 -",
   "10.08.20 11.08.20 Europe Gas AT EUR 46.88 52.10", "Service stations", "Exchange rate 1.092432 of 11.08.20 CHF 51.20",
   "Processing fee 1.75% CHF 0.90",
   "13.12.20 15.12.20 PAYPAL *STEAM GAMES, 35314369001 GB CHF 19.00 19.35", "Game, toy, and hobby shops",
   "Processing fee 1.75% CHF 0.35",
   "11.08.22 23.07.22 AMZNPRIME DE AMZN.DE/I, Luxembourg LU EUR 7.99 8.05 -", "Subscription merchants",
   "Exchange rate 0.988364 of 12.08.22 CHF 7.90", "Credit of processing fee 1.75% CHF 0.15",
   "31.12.99 01.01.00 Air-France: ticket 1'000 1'234'567.89"]

/-- the hypotheses of the round-trip theorem hold for these records (grouping `'`, ` -` for credits, `Credit of processing fee`,
dates across the century, a payee with `Air-…:` text), so the theorem applies to them; and the statement as Viseca prints it is read
as these records, numbered 1, 2, 6, 9, 13.  (That `printStatement exStatement` *is* that text is checked at run time: the driver
prints, the real parser reads — stream `viseca-text`, bucket `round-trip-on-real-parser`.) -/
example : canonStatement "CHF" exStatement = true := by decide +kernel
example : parseEntries "CHF" (printStatement exStatement) = .ok (renumber 0 exStatement) :=
  parseEntries_printStatement "CHF" exStatement (by decide +kernel)
example : (parseEntries "CHF" exLines).map' (fun es => es.map (fun e => { e with lineCount := 0 })) =
    .ok exStatement := by decide +kernel
example : (parseEntries "CHF" exLines).map' (fun es => es.map (·.lineCount)) = .ok [1, 2, 6, 9, 13] := by
  decide +kernel

/-- the importer's environment for the examples: no rewrite rule, so the regex engine is never asked -/
def exEnv : VisecaEnv := { cap := fun _ _ => none, validPattern := fun _ => true }
def exCfg : ConfigEntry :=
  { path := "card", encoding := "UTF-8", account := "Liabilities:Card", accountType := .liability, operator := some "Card (fee)",
    commodity := { primary := "CHF" }, format := {}, rewrite := [] }

/-- (a), (b) on the example: five records, five transactions; the second one: `-52.10 CHF` on the card, `46.88 EUR` transferred,
`EUR @ 1.092432 CHF`, one charge of `0.90 CHF` -/
example : (visecaImport exEnv exCfg exLines).map' (fun ts => ts.length) = .ok 5 := by decide +kernel
example : (visecaImport exEnv exCfg exLines).map' (fun ts => (ts[1]?).map (fun t => (t.amount, t.transferredAmount))) =
    .ok (some (⟨⟨true, 5210, 2⟩, "CHF"⟩, some ⟨⟨true, 4688, 2⟩, "EUR"⟩)) := by decide +kernel
example : (visecaImport exEnv exCfg exLines).map' (fun ts => (ts[1]?).map (fun t => (t.rates, t.charges))) =
    .ok (some ([("EUR", ⟨⟨false, 1092432, 6⟩, "CHF"⟩)], [⟨"Card (fee)", ⟨⟨false, 90, 2⟩, "CHF"⟩⟩])) := by decide +kernel

/-- **the payee condition is needed**: `XYZ ABC 100` ends like a currency group; the head line `… XYZ ABC 100 12.00` is read as
payee `XYZ`, 100 ABC — the format itself is ambiguous there -/
def exAmbiguous : Entry :=
  { lineCount := 0, date := ⟨2020, 8, 10⟩, effectiveDate := ⟨2020, 8, 11⟩, payee := "XYZ ABC 100",
    amount := ⟨false, 1200, 2⟩, category := "", spent := none, exchange := none, fee := none }

theorem roundtrip_needs_payee_condition :
    hasSpentSuffix exAmbiguous.payee.toList = true ∧ canonEntry "CHF" { exAmbiguous with payee := "XYZ ABC" } = true ∧
    (parseEntries "CHF" (printStatement [exAmbiguous])).map' (fun es => es.map (fun e => (e.payee, e.spent))) =
      .ok [("XYZ", some ⟨⟨false, 100, 0⟩, "ABC"⟩)] := by decide +kernel

/-- **the year window is needed**: 1969 is printed `69` and read as 2069 -/
theorem roundtrip_needs_year_window :
    (parseEntries "CHF" (printStatement [{ exAmbiguous with payee := "x", date := ⟨1969, 8, 10⟩ }])).map'
      (fun es => es.map (fun e => e.date)) = .ok [⟨2069, 8, 10⟩] := by decide +kernel

/-- **the sign condition is needed**: one ` -` marker signs both numbers of the head line -/
theorem roundtrip_needs_sign_condition :
    (parseEntries "CHF" (printStatement [{ exAmbiguous with payee := "x", spent := some ⟨⟨true, 500, 2⟩, "CHF"⟩ }])).map'
      (fun es => es.map (fun e => (e.amount, e.spent))) = .ok [(⟨true, 1200, 2⟩, some ⟨⟨true, 500, 2⟩, "CHF"⟩)] := by decide +kernel

/-- **the category condition is needed**: a category that starts with a digit is taken for the next head line -/
theorem roundtrip_needs_category_condition :
    parseEntries "CHF" (printStatement [{ exAmbiguous with payee := "x", category := "24h shop" }]) =
      .err (vErr "unsupported entry line" 2) := by decide +kernel

/-- **regression of finding F38** (fixed in 5a6d633).  Before the fix `skip_air_tags` skipped every line that merely *contained*
`Air-xxx:`; in this statement the second record (payee `Air-France: ticket`) follows a record with a category line and was lost
without any error.  The anchored pattern only matches lines that *start* with the tag, and a head line starts with a digit
(`digit_not_airTag`): all three records are read. -/
def f38Lines : List RawLine :=
  mkLines ["10.08.20 11.08.20 Foo 5.00", "Category", "11.08.20 12.08.20 Air-France: ticket 100.00", "12.08.20 13.08.20 Bar 7.00"]

theorem F38_regression :
    (parseEntries "CHF" f38Lines).map' (fun es => es.map (fun e => (e.lineCount, e.payee, e.amount))) =
      .ok [(1, "Foo", ⟨false, 500, 2⟩), (3, "Air-France: ticket", ⟨false, 10000, 2⟩), (4, "Bar", ⟨false, 700, 2⟩)] ∧
    (visecaImport exEnv exCfg f38Lines).map' List.length = .ok 3 := by decide +kernel

/-- air-tag lines proper (they start with the tag) are still skipped, lines that only contain one are not -/
example : isAirTagLine "Air-Pass-Name: kikeg MR\n".toList = true ∧ isAirTagLine "note Air-X: y\n".toList = false ∧
    isAirTagLine "Air-: y\n".toList = false := by decide +kernel

/-- totality is not vacuous: hostile inputs give errors, not crashes -/
example : parseEntries "CHF" [.invalidUtf8] = .err .io ∧
    parseEntries "CHF" (mkLines ["10.08.20 11.08.20 Shop 1.2.3"]) = .err .invalidDecimal ∧
    parseEntries "CHF" (mkLines ["10.08.20 31.02.21 Shop 5.00"]) = .err .invalidDatetime ∧
    parseEntries "CHF" (mkLines ["35.06.20 11.08.20 Shop 5.00"]) = .err (vErr "invalid date" 1) ∧
    parseEntries "CHF" (mkLines ["10.08.20 11.08.20 Shop EUR 1.00 5.00", "Cat"]) = .err (vErr "exchange rate line not found" 3) ∧
    linesOf "a\nb\n\nc".toList = [.text "a\n".toList, .text "b\n".toList, .text "\n".toList, .text "c".toList] := by
  decide +kernel

end Okane.Import.Viseca
