import Okane.Lemmas.Print
import Okane.Model.Unparse
/-!
# The two printer models are the same function

`Okane.Print` (`Model/Print.lean`, the printer of the column-layout property C19, compared byte for byte with the real
`display.rs` by the C19 check) and `Okane.Unparse` (`Model/Unparse.lean`, the printer the C05 round-trip theorems are
stated against, compared with `okane format` by the C05 check) are two independent transcriptions of
`core/src/syntax/display.rs`.  This file proves that they print the same characters:

* `printEntry_agree` : `Unparse.printEntry (strWidth cx.w) e = Print.printEntryG cx e`
* `formatEntries_agree` : `Unparse.formatEntries (strWidth cx.w) es = Print.formatEntriesG cx es`

for every context `cx` whose number printer is the one of `DisplayContext::default()` (`NumIs cx noPrec`; `Ctx.std noPrec`
is one: `std_numIs`, and that printer prints every number unchanged: `std_num_unchanged`), whose width function gives one
column to the clear marks (`ClearOK cx.w`, true of unicode-width), and every entry all of whose dates have a year
`≤ 9999` (`datesOK e`, decidable; true of every tree the parser returns and of every `wfEntry` tree).

Both hypotheses are necessary — the models do **not** agree without them (`not_agree_full`, `not_agree_clear`; `txn_disagree`:
*every* transaction dated after 9999 is printed differently, for every context and width function):

* a year above 9999: chrono's `%Y` writes an explicit `+` (`+12024/01/02`), and so does `Print.fmtDate`;
  `Date.fmtSlash` (used by `Unparse.printDate`) does not.  The real printer agrees with `Okane.Print`
  (`hx c19 tree` on `(txn (d 12024 1 2) …)` prints `+12024/01/02 x`).  Such a tree is not reachable through the parser
  (a date has at most four year digits) and is excluded by `wfDate`, so no C05 theorem is affected.
* `Unparse.printPosting` counts the clear mark by its *length*, `Print.accountWidth` by its display *width*
  (`display.rs` uses `UnicodeWidthStr::width`); they coincide when `*`, `!` and the blank take one column.
-/
set_option linter.unusedSimpArgs false

namespace Okane.PrintersAgree
open Okane Okane.Print

theorem append_congr {a a' b b' : List Char} (h1 : a = a') (h2 : b = b') : a ++ b = a' ++ b' := by
  rw [h1, h2]

theorem spaces_four' : spaces 4 = [' ', ' ', ' ', ' '] := rfl

theorem spaces_eq (n : Nat) : Unparse.spaces n = spaces n := rfl

/-! ## numbers: decimal digits, `Date.pad` -/

theorem digitChar_eq : ∀ k, k < 10 → Nat.digitChar k = Literal.digitChar k := by decide

/-- Lean's `Nat.toDigits 10` (behind `toString`) and the model's `Literal.digits` are the same function -/
theorem toDigits_eq_digits (n : Nat) : Nat.toDigits 10 n = Literal.digits n := by
  induction n using Nat.strongRecOn with
  | _ n ih =>
    rw [Literal.digits]
    split
    · rename_i h
      rw [Nat.toDigits_of_lt_base h, digitChar_eq n h]
    · rename_i h
      rw [Nat.toDigits_of_base_le (by decide) (by omega), ih (n / 10) (by omega), digitChar_eq _ (by omega)]

/-- `Date.pad` (on `String`) is `Print.padNat` (on `List Char`) -/
theorem pad_toList (n w : Nat) : (Date.pad n w).toList = padNat n w := by
  simp [Date.pad, padNat, Nat.repr_eq_ofList_toDigits, toDigits_eq_digits]

/-! ## dates -/

/-- the two date printers agree on every year up to 9999 (negative years included) -/
theorem printDate_eq_fmtDate (d : Date) (h : d.y ≤ 9999) : Unparse.printDate d = fmtDate d := by
  unfold Unparse.printDate Date.fmtSlash fmtDate fmtYear
  by_cases hneg : d.y < 0
  · have h2 : ¬ (0 ≤ d.y ∧ d.y ≤ 9999) := by omega
    simp [hneg, h2, pad_toList, String.toList_append]
  · have h2 : 0 ≤ d.y ∧ d.y ≤ 9999 := by omega
    have h3 : d.y.toNat = d.y.natAbs := by omega
    simp [hneg, h2, h3, pad_toList, String.toList_append]

/-- above 9999 they differ by the `+` chrono writes -/
theorem fmtDate_eq_plus_printDate (d : Date) (h : 9999 < d.y) : fmtDate d = '+' :: Unparse.printDate d := by
  unfold Unparse.printDate Date.fmtSlash fmtDate fmtYear
  have hneg : ¬ d.y < 0 := by omega
  have h2 : ¬ (0 ≤ d.y ∧ d.y ≤ 9999) := by omega
  simp [hneg, h2, pad_toList, String.toList_append]

/-! ## value expressions -/

/-- the number printer of the context is `rescale(amount, ctx).to_string()` with precisions `prec` -/
def NumIs (cx : Ctx) (prec : String → Nat) : Prop :=
  ∀ v c, cx.num v c = Literal.printPDec (Literal.displayRescale prec v c)

theorem std_numIs (prec : String → Nat) : NumIs (Ctx.std prec) prec := fun _ _ => rfl

/-- with no declared precision (`DisplayContext::default()`), `display.rs::rescale` leaves every number unchanged -/
theorem displayRescale_noPrec (v : PDec) (c : String) : Literal.displayRescale Unparse.noPrec v c = v := by
  simp [Literal.displayRescale, Unparse.noPrec, Literal.rescale]

/-- `Ctx.std (fun _ => 0)` prints every number as it is (`Literal.printPDec`, no rescaling) -/
theorem std_num_unchanged (v : PDec) (c : String) : (Ctx.std (fun _ => 0)).num v c = Literal.printPDec v := by
  show Literal.printPDec (Literal.displayRescale Unparse.noPrec v c) = _
  rw [displayRescale_noPrec]

theorem numIs_noPrec {cx : Ctx} (h : NumIs cx Unparse.noPrec) (v : PDec) (c : String) : cx.num v c = Literal.printPDec v := by
  rw [h v c, displayRescale_noPrec]

/-- the two `Alignment` types -/
def toAl : ExprSyntax.Align → Alignment
  | .part n => .part n
  | .full n => .complete n

theorem toAl_absolute (a : ExprSyntax.Align) : (toAl a).absolute = a.absolute := by
  cases a <;> rfl

theorem toAl_plus (a : ExprSyntax.Align) (x y : Nat) : toAl (a.plus x y) = (toAl a).plus x y := by
  cases a <;> rfl

/-- a printed number takes one byte per character: `str::len()` (Print) = number of characters (ExprSyntax) -/
theorem byteLen_printPDec (d : PDec) : byteLen (Literal.printPDec d) = (Literal.printPDec d).length :=
  AsciiW.byteLen (w := widthCjk) (fun c hc => (mem_printPDec d c hc).narrow)

mutual
/-- `Print.fmtExpr` and `ExprSyntax.printExprA` write the same text and return the same alignment -/
theorem fmtExpr_eq (cx : Ctx) (prec : String → Nat) (h : NumIs cx prec) :
    ∀ e : Expr, fmtExpr cx e = ((ExprSyntax.printExprA prec e).1, toAl (ExprSyntax.printExprA prec e).2)
  | .neg e => by
    have ih := fmtExpr_eq cx prec h e
    rw [fmtExpr, ExprSyntax.printExprA, ih]
    simp [toAl_plus]
  | .bin op l r => by
    have ihl := fmtExpr_eq cx prec h l
    have ihr := fmtExpr_eq cx prec h r
    rw [fmtExpr, ExprSyntax.printExprA, ihl, ihr]
    have hop : opChar op = ExprSyntax.opChar op := by cases op <;> rfl
    cases h1 : (ExprSyntax.printExprA prec l).2 <;> cases h2 : (ExprSyntax.printExprA prec r).2 <;>
      simp [toAl, Alignment.plus, ExprSyntax.Align.plus, hop, h1, h2]
  | .val v => by
    rw [fmtExpr, ExprSyntax.printExprA]
    exact fmtVExpr_eq cx prec h v
theorem fmtVExpr_eq (cx : Ctx) (prec : String → Nat) (h : NumIs cx prec) :
    ∀ v : VExpr, fmtVExpr cx v = ((ExprSyntax.printVExprA prec v).1, toAl (ExprSyntax.printVExprA prec v).2)
  | .paren e => by
    have ih := fmtExpr_eq cx prec h e
    rw [fmtVExpr, ExprSyntax.printVExprA, ih]
    simp [toAl_plus]
  | .amt v c => by
    rw [fmtVExpr, ExprSyntax.printVExprA, h v c]
    split <;> simp [toAl, byteLen_printPDec]
end

theorem printVExpr_eq (cx : Ctx) (h : NumIs cx Unparse.noPrec) (v : VExpr) : printVExpr cx v = Unparse.printVExpr v := by
  simp [printVExpr, Unparse.printVExpr, ExprSyntax.printVExpr, fmtVExpr_eq cx _ h v]

theorem alignVExpr_eq (cx : Ctx) (h : NumIs cx Unparse.noPrec) (v : VExpr) :
    (fmtVExpr cx v).2.absolute = Unparse.alignVExpr v := by
  simp [Unparse.alignVExpr, ExprSyntax.alignVExpr, fmtVExpr_eq cx _ h v, toAl_absolute]

theorem fmtVExpr_fst_eq (cx : Ctx) (h : NumIs cx Unparse.noPrec) (v : VExpr) : (fmtVExpr cx v).1 = Unparse.printVExpr v :=
  printVExpr_eq cx h v

/-! ## `str::lines()` and `LineWrapStr` -/

theorem stripCr_eq (cur : List Char) : (Unparse.stripCr cur).reverse = stripCrRev cur := by
  unfold Unparse.stripCr stripCrRev
  split <;> simp_all

theorem linesAux_eq (s : List Char) : ∀ cur, Unparse.linesAux s cur = rustLinesAux s cur := by
  induction s with
  | nil => intro cur; cases cur <;> simp [Unparse.linesAux, rustLinesAux]
  | cons c r ih =>
    intro cur
    by_cases hc : c = '\n'
    · subst hc
      simp [Unparse.linesAux, rustLinesAux, stripCr_eq, ih]
    · rw [rustLinesAux, if_neg hc, ← ih]
      simp [Unparse.linesAux, hc]

theorem lines_eq (s : List Char) : Unparse.lines s = rustLines s := linesAux_eq s []

theorem lineWrap_eq (pfx : List Char) (s : String) : Unparse.lineWrap pfx s = unlines (lineWrap pfx s.toList) := by
  simp [Unparse.lineWrap, lineWrap, unlines, lines_eq, List.flatMap_map]

/-! ## metadata -/

theorem printMetaValue_eq (v : MetaValue) : Unparse.printMetaValue v = printMetaValue v := by
  cases v with
  | expr e =>
    have : ":: ".toList = [':', ':', ' '] := rfl
    simp [Unparse.printMetaValue, printMetaValue, this]
  | text t =>
    have : ": ".toList = [':', ' '] := rfl
    simp [Unparse.printMetaValue, printMetaValue, this]

theorem printMetadata_eq (m : Metadata) : Unparse.printMetadata m = printMetadata m := by
  cases m <;> simp [Unparse.printMetadata, printMetadata, printMetaValue_eq]

theorem printMetaLine_eq (m : Metadata) : Unparse.printMetaLine m = metaLine 4 m ++ ['\n'] := by
  simp [Unparse.printMetaLine, metaLine, Unparse.indent4, printMetadata_eq, spaces_four']

theorem metaLines_eq (ms : List Metadata) : ms.flatMap Unparse.printMetaLine = unlines (ms.map (metaLine 4)) := by
  have : Unparse.printMetaLine = fun a => metaLine 4 a ++ ['\n'] := funext printMetaLine_eq
  simp [unlines, List.flatMap_map, this]

/-! ## lot, cost -/

/-- the year of the lot date, if any, is at most 9999 -/
def lotDatesOK (l : Lot) : Bool :=
  match l.date with
  | some d => decide (d.y ≤ 9999)
  | none => true

theorem printLot_eq (cx : Ctx) (h : NumIs cx Unparse.noPrec) (l : Lot) (hd : lotDatesOK l = true) :
    Unparse.printLot l = printLot cx l := by
  have e1 : " {{".toList = [' ', '{', '{'] := rfl
  have e2 : "}}".toList = ['}', '}'] := rfl
  have e3 : " {".toList = [' ', '{'] := rfl
  have e4 : "}".toList = ['}'] := rfl
  have e5 : " [".toList = [' ', '['] := rfl
  have e6 : "]".toList = [']'] := rfl
  have e7 : " (".toList = [' ', '('] := rfl
  have e8 : ")".toList = [')'] := rfl
  unfold Unparse.printLot printLot
  refine append_congr (append_congr ?_ ?_) ?_
  · cases l.price with
    | none => rfl
    | some x => cases x <;> simp [e1, e2, e3, e4, printVExpr_eq cx h]
  · unfold lotDatesOK at hd
    cases hdt : l.date with
    | none => rfl
    | some d =>
      rw [hdt] at hd
      simp [e5, e6, printDate_eq_fmtDate d (by simpa using hd)]
  · cases l.note with
    | none => rfl
    | some n => simp [e7, e8]

theorem printCost_eq (cx : Ctx) (h : NumIs cx Unparse.noPrec) (c : Option Exchange) :
    Unparse.printCost c = printCost cx c := by
  have e1 : " @ ".toList = [' ', '@', ' '] := rfl
  have e2 : " @@ ".toList = [' ', '@', '@', ' '] := rfl
  cases c with
  | none => rfl
  | some x => cases x <;> simp [Unparse.printCost, printCost, e1, e2, printVExpr_eq cx h]

/-! ## postings -/

/-- the clear marks take as many columns as they have characters (`*`, `!` and the blank are one column wide) -/
def ClearOK (w : Char → Nat) : Prop := ∀ m : ClearState, strWidth w (clearMark m) = (clearMark m).length

theorem ClearOK.of_chars {w : Char → Nat} (h1 : w '*' = 1) (h2 : w '!' = 1) (h3 : w ' ' = 1) : ClearOK w := by
  intro m; cases m <;> simp [clearMark, strWidth, h1, h2, h3]

theorem printClear_eq (m : ClearState) : Unparse.printClear m = clearMark m := by
  cases m <;> rfl

/-- the lot date of the posting's amount, if any, has a year ≤ 9999 -/
def postingDatesOK (p : Posting) : Bool :=
  match p.amount with
  | some a => lotDatesOK a.lot
  | none => true

/-- what follows the account on a posting line -/
theorem printPostingTail_eq (cx : Ctx) (h : NumIs cx Unparse.noPrec) (p : Posting) (hd : postingDatesOK p = true) :
    Unparse.printPostingTail (strWidth cx.w) (accountWidth cx p) p = amountPart cx p ++ balancePart cx p := by
  unfold Unparse.printPostingTail amountPart balancePart
  refine append_congr ?_ ?_
  · unfold postingDatesOK at hd
    cases ha : p.amount with
    | none => rfl
    | some a =>
      rw [ha] at hd
      simp only [Unparse.getColumn, getColumn, Params.amountColumn, Params.amountPadding, spaces_eq,
        alignVExpr_eq cx h, fmtVExpr_fst_eq cx h, printLot_eq cx h a.lot hd, printCost_eq cx h]
  · cases hb : p.balance with
    | none => rfl
    | some b =>
      simp only [balancePadding, trailing, padLeft, Unparse.getColumn, getColumn, Params.balanceColumn,
        Params.balancePadding, spaces_eq, alignVExpr_eq cx h, fmtVExpr_fst_eq cx h, printVExpr_eq cx h]
      simp

/-- one posting: `Unparse.printPosting` is the posting's line bodies, each followed by a line feed -/
theorem printPosting_eq (cx : Ctx) (h : NumIs cx Unparse.noPrec) (hc : ClearOK cx.w) (p : Posting)
    (hd : postingDatesOK p = true) :
    Unparse.printPosting (strWidth cx.w) p = unlines (postingLines cx p) := by
  have haw : strWidth cx.w p.account.toList + (clearMark p.clear).length = accountWidth cx p := by
    rw [accountWidth, hc p.clear]
  simp only [Unparse.printPosting, printClear_eq, haw, printPostingTail_eq cx h p hd, postingLines, unlines, List.flatMap_cons,
    postingHead, Params.postingIndent, Params.postMetaIndent, metaLines_eq, printClear_eq, Unparse.indent4, spaces_four']
  simp [unlines]

/-! ## transactions -/

/-- every date a transaction prints (date, effective date, lot dates) has a year ≤ 9999 -/
def txnDatesOK (t : Transaction) : Bool :=
  decide (t.date.y ≤ 9999) &&
  (match t.effectiveDate with
    | some d => decide (d.y ≤ 9999)
    | none => true) &&
  t.posts.all postingDatesOK

/-- every date the entry prints has a year ≤ 9999 (only transactions print dates) -/
def datesOK : Entry → Bool
  | .txn t => txnDatesOK t
  | _ => true

theorem printTxnHeader_eq (t : Transaction) (h1 : t.date.y ≤ 9999) (h2 : ∀ d, t.effectiveDate = some d → d.y ≤ 9999) :
    Unparse.printTxnHeader t = txnHeader t ++ ['\n'] := by
  unfold Unparse.printTxnHeader txnHeader
  rw [printDate_eq_fmtDate t.date h1, printClear_eq]
  cases he : t.effectiveDate with
  | none => cases t.code <;> simp
  | some d => cases t.code <;> simp [printDate_eq_fmtDate d (h2 d he)]

theorem postings_eq (cx : Ctx) (h : NumIs cx Unparse.noPrec) (hc : ClearOK cx.w) (ps : List Posting)
    (hd : ps.all postingDatesOK = true) :
    ps.flatMap (Unparse.printPosting (strWidth cx.w)) = unlines (ps.flatMap (postingLines cx)) := by
  induction ps with
  | nil => rfl
  | cons p ps ih =>
    simp only [List.all_cons, Bool.and_eq_true] at hd
    simp only [List.flatMap_cons, ih hd.2, printPosting_eq cx h hc p hd.1]
    simp [unlines]

theorem printTransaction_eq (cx : Ctx) (h : NumIs cx Unparse.noPrec) (hc : ClearOK cx.w) (t : Transaction)
    (hd : txnDatesOK t = true) :
    Unparse.printTransaction (strWidth cx.w) t = unlines (txnLines cx t) := by
  simp only [txnDatesOK, Bool.and_eq_true, decide_eq_true_eq] at hd
  obtain ⟨⟨h1, h2⟩, h3⟩ := hd
  have h2' : ∀ d, t.effectiveDate = some d → d.y ≤ 9999 := by
    intro d hd; rw [hd] at h2; simpa using h2
  simp only [Unparse.printTransaction, printTxnHeader_eq t h1 h2', metaLines_eq, postings_eq cx h hc t.posts h3,
    txnLines, Params.txnMetaIndent]
  simp [unlines]

/-! ## account and commodity declarations -/

theorem printAccountDetail_eq (d : AccountDetail) : Unparse.printAccountDetail d = unlines (accountDetailLines d) := by
  have e1 : Params.detailCommentPrefix.toList = Unparse.indent4 ++ [';'] := by decide
  have e2 : Params.detailNotePrefix.toList = Unparse.indent4 ++ (Parse.kwNote ++ [' ']) := by decide
  have e3 : Params.detailAliasPrefix.toList = Unparse.indent4 ++ (Parse.kwAlias ++ [' ']) := by decide
  cases d with
  | comment s => rw [Unparse.printAccountDetail, accountDetailLines, lineWrap_eq, e1]
  | note s => rw [Unparse.printAccountDetail, accountDetailLines, lineWrap_eq, e2]
  | alias s => simp [Unparse.printAccountDetail, accountDetailLines, e3, unlines]

theorem printCommodityDetail_eq (cx : Ctx) (h : NumIs cx Unparse.noPrec) (d : CommodityDetail) :
    Unparse.printCommodityDetail d = unlines (commodityDetailLines cx d) := by
  have e1 : Params.cdetailCommentPrefix.toList = Unparse.indent4 ++ [';'] := by decide
  have e2 : Params.cdetailNotePrefix.toList = Unparse.indent4 ++ (Parse.kwNote ++ [' ']) := by decide
  have e3 : Params.cdetailAliasPrefix.toList = Unparse.indent4 ++ (Parse.kwAlias ++ [' ']) := by decide
  have e4 : Params.cdetailFormatPrefix.toList = Unparse.indent4 ++ (Parse.kwFormat ++ [' ']) := by decide
  cases d with
  | comment s => rw [Unparse.printCommodityDetail, commodityDetailLines, lineWrap_eq, e1]
  | note s => rw [Unparse.printCommodityDetail, commodityDetailLines, lineWrap_eq, e2]
  | alias s => simp [Unparse.printCommodityDetail, commodityDetailLines, e3, unlines]
  | format v c =>
    simp [Unparse.printCommodityDetail, commodityDetailLines, e4, unlines, Unparse.printAmount, printVExpr_eq cx h]

theorem unlines_flatMap {α : Type} (f : α → List (List Char)) (l : List α) :
    l.flatMap (fun x => unlines (f x)) = unlines (l.flatMap f) := by
  induction l with
  | nil => rfl
  | cons x l ih => simp [unlines, List.flatMap_append] at ih ⊢; rw [ih]

/-! ## entries -/

/-- **the two printer models print the same text for every entry** (of every kind), for every per-character width
function that gives the clear marks one column, with the number printer of `DisplayContext::default()`, provided the
years of the entry's dates are at most 9999 (chrono writes a `+` before longer years; `Unparse` does not) -/
theorem printEntry_agree (cx : Ctx) (h : NumIs cx Unparse.noPrec) (hc : ClearOK cx.w) (e : Entry)
    (hd : datesOK e = true) :
    Unparse.printEntry (strWidth cx.w) e = printEntryG cx e := by
  unfold printEntryG
  cases e with
  | txn t => exact printTransaction_eq cx h hc t hd
  | comment s => rw [Unparse.printEntry, entryLines, lineWrap_eq]
  | applyTag k v =>
    have e1 : "apply tag ".toList = Parse.kwApply ++ ' ' :: (Parse.kwTag ++ [' ']) := by decide
    cases v <;> simp [Unparse.printEntry, entryLines, unlines, e1, printMetaValue_eq]
  | endApplyTag =>
    have e1 : "end apply tag".toList = Parse.kwEnd ++ ' ' :: (Parse.kwApply ++ ' ' :: Parse.kwTag) := by decide
    simp [Unparse.printEntry, entryLines, unlines, e1]
  | «include» p =>
    have e1 : "include ".toList = Parse.kwInclude ++ [' '] := by decide
    simp [Unparse.printEntry, entryLines, unlines, e1]
  | account n ds =>
    have e1 : "account ".toList = Parse.kwAccount ++ [' '] := by decide
    have e2 : Unparse.printAccountDetail = fun d => unlines (accountDetailLines d) := funext printAccountDetail_eq
    simp only [Unparse.printEntry, entryLines, e1, e2, unlines_flatMap]
    simp [unlines]
  | commodity n ds =>
    have e1 : "commodity ".toList = Parse.kwCommodity ++ [' '] := by decide
    have e2 : Unparse.printCommodityDetail = fun d => unlines (commodityDetailLines cx d) :=
      funext (printCommodityDetail_eq cx h)
    simp only [Unparse.printEntry, entryLines, e1, e2, unlines_flatMap]
    simp [unlines]

/-- **`format` writes the same text in both models** -/
theorem formatEntries_agree (cx : Ctx) (h : NumIs cx Unparse.noPrec) (hc : ClearOK cx.w) (es : List Entry)
    (hd : ∀ e ∈ es, datesOK e = true) :
    Unparse.formatEntries (strWidth cx.w) es = formatEntriesG cx es := by
  induction es with
  | nil => rfl
  | cons e es ih =>
    have ih' := ih (fun x hx => hd x (List.mem_cons_of_mem _ hx))
    simp only [Unparse.formatEntries, formatEntriesG, List.flatMap_cons] at ih' ⊢
    rw [ih', printEntry_agree cx h hc e (hd e List.mem_cons_self)]

/-! ## the instances in use -/

/-- the context with per-character width `wc` and the number printer of `DisplayContext::default()` -/
def uctx (wc : Char → Nat) : Ctx := { w := wc, num := fun v _ => Literal.printPDec v }

theorem uctx_numIs (wc : Char → Nat) : NumIs (uctx wc) Unparse.noPrec := by
  intro v c
  rw [displayRescale_noPrec]
  rfl

theorem std_eq_uctx : Ctx.std (fun _ => 0) = uctx widthCjk := by
  unfold Ctx.std uctx
  congr 1
  funext v c
  exact std_num_unchanged v c

theorem std_clearOK (prec : String → Nat) : ClearOK (Ctx.std prec).w :=
  ClearOK.of_chars (w := widthCjk) (by decide) (by decide) (by decide)

/-- the printer as okane runs it (`Print.printEntry` with no declared precision, unicode-width's table) is
`Unparse.printEntry` at the width function "sum of `Print.widthCjk` over the characters" -/
theorem printEntry_agree_std (e : Entry) (hd : datesOK e = true) :
    Unparse.printEntry (strWidth widthCjk) e = Print.printEntry (fun _ => 0) e :=
  printEntry_agree (Ctx.std (fun _ => 0)) (std_numIs _) (std_clearOK _) e hd

theorem formatEntries_agree_std (es : List Entry) (hd : ∀ e ∈ es, datesOK e = true) :
    Unparse.formatEntries (strWidth widthCjk) es = Print.formatEntries (fun _ => 0) es :=
  formatEntries_agree (Ctx.std (fun _ => 0)) (std_numIs _) (std_clearOK _) es hd

/-- `Unparse.widthStd` (number of characters) is a per-character width -/
theorem widthStd_eq : Unparse.widthStd = strWidth (fun _ => 1) := by
  funext s
  induction s with
  | nil => rfl
  | cons c cs ih => simp only [Unparse.widthStd, strWidth, List.length_cons] at ih ⊢; omega

theorem foldl_width (f : Char → Nat) (s : List Char) (n : Nat) :
    s.foldl (fun n c => n + f c) n = n + strWidth f s := by
  induction s generalizing n with
  | nil => rfl
  | cons c cs ih => simp [strWidth, ih, Nat.add_assoc]

/-- `Unparse.widthCjk` (the width function of the C05 driver) is a per-character width -/
theorem widthCjk_eq : Unparse.widthCjk = strWidth Unparse.charWidthCjk := by
  funext s
  simp [Unparse.widthCjk, foldl_width]

/-- the two width functions the C05 driver uses are covered: what `drv c05` prints is `Print.printEntryG` -/
theorem printEntry_agree_widthStd (e : Entry) (hd : datesOK e = true) :
    Unparse.printEntry Unparse.widthStd e = printEntryG (uctx (fun _ => 1)) e := by
  rw [widthStd_eq]
  exact printEntry_agree (uctx (fun _ => 1)) (uctx_numIs _) (ClearOK.of_chars rfl rfl rfl) e hd

theorem printEntry_agree_widthCjk (e : Entry) (hd : datesOK e = true) :
    Unparse.printEntry Unparse.widthCjk e = printEntryG (uctx Unparse.charWidthCjk) e := by
  rw [widthCjk_eq]
  exact printEntry_agree (uctx Unparse.charWidthCjk) (uctx_numIs _)
    (ClearOK.of_chars (by decide) (by decide) (by decide)) e hd

/-! ## `wfEntry` (the hypothesis of the C05 round trip) implies `datesOK` -/

theorem wfDate_le {d : Date} (h : Unparse.wfDate d = true) : d.y ≤ 9999 := by
  simp only [Unparse.wfDate, Bool.and_eq_true, decide_eq_true_eq] at h
  exact h.2

theorem wfPosting_datesOK {p : Posting} (h : Unparse.wfPosting p = true) : postingDatesOK p = true := by
  unfold postingDatesOK
  cases ha : p.amount with
  | none => rfl
  | some a =>
    simp only [Unparse.wfPosting, ha, Bool.and_eq_true] at h
    have hl : Unparse.wfLot a.lot = true := by
      have := h.1.1.2
      simp only [Unparse.wfPostingAmount, Bool.and_eq_true] at this
      exact this.1.2
    simp only [Unparse.wfLot, Bool.and_eq_true] at hl
    show lotDatesOK a.lot = true
    unfold lotDatesOK
    cases hd : a.lot.date with
    | none => rfl
    | some d =>
      have := hl.1.2
      rw [hd] at this
      simpa using wfDate_le this

theorem wfEntry_datesOK {e : Entry} (h : Unparse.wfEntry e = true) : datesOK e = true := by
  cases e with
  | txn t =>
    simp only [Unparse.wfEntry, Unparse.wfTransaction, Bool.and_eq_true] at h
    obtain ⟨⟨⟨⟨⟨h1, h2⟩, _⟩, _⟩, _⟩, h6⟩ := h
    simp only [datesOK, txnDatesOK, Bool.and_eq_true, decide_eq_true_eq]
    refine ⟨⟨wfDate_le h1, ?_⟩, ?_⟩
    · cases he : t.effectiveDate with
      | none => rfl
      | some d => rw [he] at h2; simpa using wfDate_le h2
    · rw [List.all_eq_true] at h6 ⊢
      exact fun p hp => wfPosting_datesOK (h6 p hp)
  | _ => rfl

/-! ## the hypotheses are necessary: where the two models differ -/

/-- agreement without the hypothesis on dates (kept visible; false: `not_agree_full`) -/
def agree_full : Prop :=
  ∀ (cx : Ctx) (e : Entry), NumIs cx Unparse.noPrec → ClearOK cx.w →
    Unparse.printEntry (strWidth cx.w) e = printEntryG cx e

/-- agreement without the hypothesis on the width of the clear marks (kept visible; false: `not_agree_clear`) -/
def agree_anyWidth : Prop :=
  ∀ (cx : Ctx) (e : Entry), NumIs cx Unparse.noPrec → datesOK e = true →
    Unparse.printEntry (strWidth cx.w) e = printEntryG cx e

/-- a transaction dated in the year 12024 -/
def witYear : Entry := .txn { date := ⟨12024, 1, 2⟩, payee := "x", posts := [] }

/-- on a transaction without effective date whose year is above 9999 the two models differ: `Print` (like chrono, like
the real printer) writes one character more, the `+` -/
theorem header_length (t : Transaction) (h : 9999 < t.date.y) (he : t.effectiveDate = none) :
    (txnHeader t ++ ['\n']).length = (Unparse.printTxnHeader t).length + 1 := by
  unfold Unparse.printTxnHeader txnHeader
  rw [fmtDate_eq_plus_printDate t.date h, printClear_eq, he]
  cases t.code <;> simp <;> omega

theorem not_agree_full : ¬ agree_full := by
  intro hall
  have h := hall (Ctx.std (fun _ => 0)) witYear (std_numIs _) (std_clearOK _)
  have hl := congrArg List.length h
  have hh := header_length { date := ⟨12024, 1, 2⟩, payee := "x", posts := [] } (by decide) rfl
  simp [witYear, Unparse.printEntry, Unparse.printTransaction, printEntryG, entryLines, txnLines, unlines] at hl hh
  omega

theorem NumChar.ne_plus {c : Char} (h : NumChar c) : c ≠ '+' := by
  rcases h with ⟨k, hk, rfl⟩ | rfl | rfl | rfl
  · revert k; decide
  · decide
  · decide
  · decide

/-- a date of a non-negative year is printed by `Unparse` with a digit first -/
theorem printDate_head (d : Date) (h : 0 ≤ d.y) : ∃ c r, Unparse.printDate d = c :: r ∧ c ≠ '+' := by
  have hneg : ¬ d.y < 0 := by omega
  have e : Unparse.printDate d = padNat d.y.natAbs 4 ++ ('/' :: padNat d.m 2 ++ '/' :: padNat d.d 2) := by
    simp [Unparse.printDate, Date.fmtSlash, hneg, pad_toList, String.toList_append]
  have hmem : ∀ c ∈ padNat d.y.natAbs 4, NumChar c := by
    intro c hc
    rcases List.mem_append.mp hc with h1 | h1
    · rw [(List.mem_replicate.mp h1).2]; exact numChar_zero
    · exact mem_digits _ c h1
  cases hp : padNat d.y.natAbs 4 with
  | nil =>
    have hd : Literal.digits d.y.natAbs ≠ [] := by
      rw [Literal.digits]; split <;> simp
    have : padNat d.y.natAbs 4 ≠ [] := by simp [padNat, hd]
    exact absurd hp this
  | cons c r =>
    exact ⟨c, _, by rw [e, hp]; rfl, NumChar.ne_plus (hmem c (by rw [hp]; exact List.mem_cons_self))⟩

/-- **every** transaction dated after the year 9999 is printed differently by the two models, whatever the width
function and the context: `Print` (like chrono) starts with `+`, `Unparse` with a digit -/
theorem txn_disagree (cx : Ctx) (w : List Char → Nat) (t : Transaction) (h : 9999 < t.date.y) :
    Unparse.printEntry w (.txn t) ≠ printEntryG cx (.txn t) := by
  obtain ⟨c, r, hc, hne⟩ := printDate_head t.date (by omega)
  intro heq
  have h1 : (Unparse.printEntry w (.txn t)).head? = some c := by
    simp [Unparse.printEntry, Unparse.printTransaction, Unparse.printTxnHeader, hc]
  have h2 : (printEntryG cx (.txn t)).head? = some '+' := by
    simp [printEntryG, entryLines, txnLines, unlines, txnHeader, fmtDate_eq_plus_printDate t.date h]
  rw [heq, h2] at h1
  exact hne (Option.some.inj h1).symm

/-- a cleared posting, printed in a context where `*` is two columns wide -/
def witClear : Entry :=
  .txn { date := ⟨2024, 1, 2⟩, payee := "x",
         posts := [{ account := "A", clear := .cleared, amount := some { amount := .amt ⟨false, 1, 0, none⟩ "USD" } }] }
def cxStar : Ctx := uctx (fun c => if c = '*' then 2 else 1)

theorem not_agree_clear : ¬ agree_anyWidth := by
  intro hall
  have h := hall cxStar witClear (uctx_numIs _) (by decide)
  have hl := congrArg (fun s => s.length) h
  revert hl
  decide +kernel

/-! ## non-vacuity: the hypotheses are met by rich concrete trees, for the real context -/

section Examples

private def usd (mant scale : Nat) : VExpr := .amt ⟨false, mant, scale, none⟩ "USD"
/-- cleared posting with a wide account, amount with lot (price, date, note), cost and a balance expression, metadata -/
private def pRich : Posting :=
  { account := "資産:Bank", clear := .pending,
    amount := some { amount := usd 5 0, lot := { price := some (.total (usd 1 0)), date := some ⟨2020, 1, 2⟩, note := some "hi" },
                     cost := some (.rate (usd 3 1)) },
    balance := some (.paren (.bin .add (.val (usd 1 0)) (.neg (.val (.amt ⟨true, 1234567, 2, some .comma3dot⟩ ""))))),
    metadata := [.comment "x", .wordTags ["a", "b"], .keyValue "k" (.expr "1+1"), .keyValue "k" (.text "v")] }
private def pBal : Posting := { account := "Account", balance := some (usd 1 0), clear := .cleared }
private def tRich : Transaction :=
  { date := ⟨2024, 1, 2⟩, effectiveDate := some ⟨-5, 12, 31⟩, code := some "c", payee := "shop", clear := .cleared,
    metadata := [.comment "note"], posts := [pRich, pBal, { account := "" }] }
private def esRich : List Entry :=
  [.txn tRich, .comment " a\r\n b\n\nc", .comment "", .applyTag "k" none, .applyTag "k" (some (.expr "e")), .endApplyTag,
   .include "p", .account "A" [.comment "a\r\nb\r", .note "n1\nn2\n", .alias "al"],
   .commodity "C" [.comment "a\n", .note "n\n", .alias "al", .format ⟨false, 1234567, 2, some .comma3dot⟩ "C"]]

example : ∀ e ∈ esRich, datesOK e = true := by decide +kernel
example : NumIs (Ctx.std (fun _ => 0)) Unparse.noPrec ∧ ClearOK (Ctx.std (fun _ => 0)).w := ⟨std_numIs _, std_clearOK _⟩
example : Unparse.formatEntries (strWidth widthCjk) esRich = Print.formatEntries (fun _ => 0) esRich :=
  formatEntries_agree_std esRich (by decide +kernel)
example : Unparse.printEntry (strWidth widthCjk) (.txn tRich) = Print.printEntry (fun _ => 0) (.txn tRich) :=
  printEntry_agree_std _ (by decide +kernel)
-- the text in question (a negative year, a wide account: 4 + 2 + 9 columns before the blanks, number ending in column 52)
example : Print.printEntry (fun _ => 0) (.txn { tRich with posts := [pBal] })
    = "2024/01/02=-0005/12/31 * (c) shop\n    ; note\n    * Account                                            = 1 USD\n".toList := by
  decide +kernel
-- `wfEntry` trees (the C05 hypothesis) satisfy `datesOK`
example : Unparse.wfEntry (.include "a.ledger") = true ∧ datesOK (.include "a.ledger") = true :=
  ⟨by decide, wfEntry_datesOK (by decide)⟩
-- the witnesses of the two differences
example : datesOK witYear = false := by decide +kernel
example : ¬ ClearOK cxStar.w := fun h => absurd (h .cleared) (by decide)
example : (printEntryG (Ctx.std (fun _ => 0)) witYear).take 6 = "+12024".toList := by decide +kernel

end Examples

end Okane.PrintersAgree
