import Okane.Lemmas.DocAcceptBase
/-!
# Acceptance of the documented grammar — metadata

* `metadata_text`: whatever alternative is used, a documented `metadata` is `;` followed by characters other than CR / LF;
* `lineMetadata_accept`: `metadata::line_metadata` accepts EVERY such line that is ended by a documented `new-line`
  (tag words, key-value, or — when neither parser applies — a comment: the three parsers only ever consume characters
  of the line, and the last alternative takes the whole line);
* `blockMetadata_accept`: `metadata::block_metadata` accepts `metadata? new-line (sp+ metadata new-line)*` and stops
  where the derivation ends, provided what follows is not itself an indented `;` line.
-/
set_option linter.unusedSimpArgs false
set_option linter.unusedVariables false
namespace Okane.DocAccept
open Okane Okane.Spec.Doc Okane.Comb

/-! ## productions that derive text of one line -/

/-- no CR, no LF -/
def NoNL (s : List Char) : Prop := ∀ c ∈ s, isNoNewLine c = true

instance (s : List Char) : Decidable (NoNL s) := inferInstanceAs (Decidable (∀ c ∈ s, isNoNewLine c = true))

theorem isNoSp_noNewLine {c : Char} (h : isNoSp c = true) : isNoNewLine c = true := by
  simp only [isNoSp, Bool.not_eq_true', Bool.or_eq_false_iff] at h
  simp [isNoNewLine, h.1.2, h.2]

theorem NoNL.append {a b : List Char} (ha : NoNL a) (hb : NoNL b) : NoNL (a ++ b) := by
  intro c hc
  rcases List.mem_append.mp hc with h | h
  · exact ha c h
  · exact hb c h

theorem NoNL.nil : NoNL [] := by intro c hc; cases hc

theorem NoNL.of_suffix {a b : List Char} (h : a <:+ b) (hb : NoNL b) : NoNL a :=
  fun c hc => hb c (h.subset hc)

theorem NoNL.eol {s : List Char} (h : NoNL s) : ∀ c ∈ s, isEol c = false := by
  intro c hc
  have := h c hc
  simpa [isNoNewLine_eq] using this

/-- the production derives only text without CR / LF -/
def OneLine (g : G) : Prop := ∀ i r, g i r → ∃ s, i = s ++ r ∧ NoNL s

theorem oneLine_chr {p : Char → Bool} (hp : ∀ c, p c = true → isNoNewLine c = true) : OneLine (G.chr p) := by
  intro i r ⟨c, hi, hc⟩
  exact ⟨[c], by simp [hi], by intro d hd; simp at hd; subst hd; exact hp _ hc⟩

theorem oneLine_lit (s : String) (hs : NoNL s.toList) : OneLine (G.lit s) := by
  intro i r h
  exact ⟨s.toList, h, hs⟩

theorem oneLine_seq {a b : G} (ha : OneLine a) (hb : OneLine b) : OneLine (a ⬝ b) := by
  intro i r ⟨m, h1, h2⟩
  obtain ⟨s1, rfl, hs1⟩ := ha _ _ h1
  obtain ⟨s2, rfl, hs2⟩ := hb _ _ h2
  exact ⟨s1 ++ s2, by simp, hs1.append hs2⟩

theorem oneLine_alt {a b : G} (ha : OneLine a) (hb : OneLine b) : OneLine (a ∥ b) := by
  intro i r h
  rcases h with h | h
  · exact ha _ _ h
  · exact hb _ _ h

theorem oneLine_opt {a : G} (ha : OneLine a) : OneLine (G.opt a) := by
  intro i r h
  rcases h with h | rfl
  · exact ha _ _ h
  · exact ⟨[], rfl, NoNL.nil⟩

theorem oneLine_star {a : G} (ha : OneLine a) : OneLine (G.star a) := by
  intro i r h
  induction h with
  | nil _ => exact ⟨[], rfl, NoNL.nil⟩
  | cons h _ ih =>
    obtain ⟨s1, rfl, hs1⟩ := ha _ _ h
    obtain ⟨s2, rfl, hs2⟩ := ih
    exact ⟨s1 ++ s2, by simp, hs1.append hs2⟩

theorem oneLine_plus {a : G} (ha : OneLine a) : OneLine (G.plus a) := oneLine_seq ha (oneLine_star ha)

theorem oneLine_sat {a : G} (ok : List Char → Bool) (ha : OneLine a) : OneLine (a.sat ok) := fun i r h => ha i r h.1

theorem oneLine_sp : OneLine sp := oneLine_chr (by intro c h; simp [isSp] at h; rcases h with rfl | rfl <;> decide)
theorem oneLine_noSp : OneLine noSp := oneLine_chr (fun _ h => isNoSp_noNewLine h)
theorem oneLine_noNewLine : OneLine noNewLine := oneLine_chr (fun _ h => h)
theorem oneLine_tag : OneLine tag := oneLine_plus (oneLine_chr (by
  intro c h
  simp only [Bool.and_eq_true] at h
  exact isNoSp_noNewLine h.1))

theorem oneLine_metadataBody : OneLine (metadataKeyValue ∥ metadataTagWords ∥ metadataComment) := by
  have hsp := oneLine_star oneLine_sp
  have hnn := oneLine_star oneLine_noNewLine
  refine oneLine_alt (oneLine_alt ?_ ?_) (oneLine_alt ?_ hnn)
  · exact oneLine_seq hsp (oneLine_seq oneLine_tag (oneLine_seq hsp (oneLine_seq (oneLine_lit _ (by decide))
      (oneLine_seq hsp hnn))))
  · exact oneLine_seq hsp (oneLine_seq oneLine_tag (oneLine_seq hsp (oneLine_seq (oneLine_lit _ (by decide))
      (oneLine_seq hsp hnn))))
  · exact oneLine_seq hsp (oneLine_seq (oneLine_lit _ (by decide))
      (oneLine_plus (oneLine_seq oneLine_tag (oneLine_lit _ (by decide)))))

theorem oneLine_metadata : OneLine metadata := oneLine_seq (oneLine_lit _ (by decide)) oneLine_metadataBody

/-- **a documented `metadata` is `;` and the rest of a line** -/
theorem metadata_text {i r : List Char} (h : metadata i r) : ∃ s, i = ';' :: (s ++ r) ∧ NoNL s := by
  obtain ⟨m, h1, h2⟩ := h
  rw [lit_iff] at h1
  obtain ⟨s, rfl, hs⟩ := oneLine_metadataBody _ _ h2
  exact ⟨s, h1, hs⟩

/-! ## parsers that only ever consume characters of the current line -/

/-- the end of a line: the end of the text, or CR / LF -/
def LineEnd (i : List Char) : Prop := i = [] ∨ ∃ c t, i = c :: t ∧ isEol c = true

theorem lineEnd_of_newLine {i r : List Char} (h : newLine i r) : LineEnd i := newLine_head h

theorem takeWhile_append_lineEnd {q : Char → Bool} {s i : List Char} (hi : Stop q i) :
    (s ++ i).takeWhile q = s.takeWhile q := by
  induction s with
  | nil =>
    cases i with
    | nil => rfl
    | cons c t => simp [List.takeWhile, (Stop_cons q c t).1 hi]
  | cons c s ih =>
    cases hc : q c <;> simp [List.takeWhile, hc, ih]

theorem dropWhile_append_lineEnd {q : Char → Bool} {s i : List Char} (hi : Stop q i) :
    (s ++ i).dropWhile q = s.dropWhile q ++ i := by
  induction s with
  | nil =>
    cases i with
    | nil => rfl
    | cons c t => simp [List.dropWhile, (Stop_cons q c t).1 hi]
  | cons c s ih =>
    cases hc : q c <;> simp [List.dropWhile, hc, ih]

theorem lineEnd_stop {q : Char → Bool} (hq : ∀ c, isEol c = true → q c = false) {i : List Char} (hi : LineEnd i) :
    Stop q i := by
  rcases hi with rfl | ⟨c, t, rfl, hc⟩
  · simp
  · simpa using hq c hc

/-- the outcome of a parser on a line `s ++ i` (`s` without CR / LF, `i` a line end): it succeeds inside the line, having
consumed at least `k` characters, or backtracks -/
def LineRes {α : Type} (k : Nat) (s i : List Char) (res : Res α) : Prop :=
  (∃ a s2, res = .ok a (s2 ++ i) ∧ NoNL s2 ∧ s2.length + k ≤ s.length) ∨ ∃ z, res = .bt z

/-- `take_while(0.., q)` where `q` rejects CR and LF -/
theorem takeWhile0_line {q : Char → Bool} (hq : ∀ c, isEol c = true → q c = false) {s i : List Char} (hs : NoNL s)
    (hi : LineEnd i) : takeWhile0 q (s ++ i) = .ok (s.takeWhile q) (s.dropWhile q ++ i) ∧ NoNL (s.dropWhile q) ∧
      (s.dropWhile q).length ≤ s.length := by
  have hst := lineEnd_stop hq hi
  refine ⟨by simp [takeWhile0, takeWhile_append_lineEnd hst, dropWhile_append_lineEnd hst], ?_, ?_⟩
  · exact NoNL.of_suffix (List.dropWhile_suffix q) hs
  · exact (List.dropWhile_suffix q).length_le

/-- `take_while(1.., q)` -/
theorem takeWhile1_line {α : Type} {q : Char → Bool} (hq : ∀ c, isEol c = true → q c = false) {s i : List Char} (hs : NoNL s)
    (hi : LineEnd i) : LineRes 1 s i (takeWhile1 q (s ++ i)) := by
  have hst := lineEnd_stop hq hi
  cases s with
  | nil =>
    right
    rcases hi with rfl | ⟨c, t, rfl, hc⟩
    · exact ⟨[], rfl⟩
    · exact ⟨c :: t, by simp [takeWhile1, hq c hc]⟩
  | cons c s1 =>
    cases hc : q c with
    | false => right; exact ⟨c :: (s1 ++ i), by simp [takeWhile1, hc]⟩
    | true =>
      left
      have h1 := takeWhile_append_lineEnd (s := c :: s1) hst
      have h2 := dropWhile_append_lineEnd (s := c :: s1) hst
      simp only [List.cons_append] at h1 h2
      refine ⟨(c :: s1).takeWhile q, s1.dropWhile q, ?_, ?_, ?_⟩
      · simp only [takeWhile1, List.cons_append, hc, if_true, h1, h2]
        simp [List.dropWhile, hc]
      · exact NoNL.of_suffix ((List.dropWhile_suffix q).trans (List.suffix_cons c s1)) hs
      · have := (List.dropWhile_suffix q (l := s1)).length_le
        simp; omega

theorem tagKey_line {s i : List Char} (hs : NoNL s) (hi : LineEnd i) : LineRes 1 s i (Parse.tagKey (s ++ i)) := by
  unfold Parse.tagKey takeTill1
  apply takeWhile1_line (α := List Char) _ hs hi
  intro c hc
  simp only [isEol, Bool.or_eq_true, beq_iff_eq] at hc
  rcases hc with rfl | rfl <;> decide

theorem char_colon_line {s i : List Char} (hs : NoNL s) (hi : LineEnd i) : LineRes 1 s i (char ':' (s ++ i)) := by
  cases s with
  | nil =>
    right
    rcases hi with rfl | ⟨c, t, rfl, hc⟩
    · exact ⟨[], rfl⟩
    · have : c ≠ ':' := by intro e; subst e; revert hc; decide
      exact ⟨c :: t, by simp [char_cons_ne this]⟩
  | cons c s1 =>
    by_cases hc : c = ':'
    · subst hc
      left
      exact ⟨':', s1, by simp, fun d hd => hs d (by simp [hd]), by simp⟩
    · right; exact ⟨c :: (s1 ++ i), by simp [char_cons_ne hc]⟩

/-- `terminated(tag_key, ':')` -/
theorem tagItem_line {s i : List Char} (hs : NoNL s) (hi : LineEnd i) :
    LineRes 2 s i (terminated Parse.tagKey (char ':') (s ++ i)) := by
  rcases tagKey_line hs hi with ⟨a, s2, h1, hs2, hl2⟩ | ⟨z, h1⟩
  · rcases char_colon_line hs2 hi with ⟨b, s3, h2, hs3, hl3⟩ | ⟨z, h2⟩
    · left; exact ⟨a, s3, by simp [h1, h2], hs3, by omega⟩
    · right; exact ⟨z, by simp [h1, h2]⟩
  · right; exact ⟨z, by simp [h1]⟩

/-- the loop of `repeat(1.., terminated(tag_key, ':'))` stays inside the line -/
theorem tagLoop_line : ∀ (k : Nat) (s i : List Char), s.length ≤ k → NoNL s → LineEnd i →
    ∀ (n : Nat) (acc : List (List Char)), (s ++ i).length < n →
      ∃ acc' s2, repeat0Loop (terminated Parse.tagKey (char ':')) n (s ++ i) acc = .ok acc' (s2 ++ i) ∧ NoNL s2 := by
  intro k
  induction k with
  | zero =>
    intro s i hk hs hi n acc hn
    have : s = [] := List.eq_nil_of_length_eq_zero (by omega)
    subst this
    cases n with
    | zero => omega
    | succ n =>
      rcases tagItem_line (s := []) NoNL.nil hi with ⟨a, s3, _, _, hl⟩ | ⟨z, hz⟩
      · simp at hl
      · exact ⟨acc, [], by simpa using repeat0Loop_stop hz, NoNL.nil⟩
  | succ k ih =>
    intro s i hk hs hi n acc hn
    cases n with
    | zero => omega
    | succ n =>
      rcases tagItem_line hs hi with ⟨a, s3, h3, hs3, hl⟩ | ⟨z, hz⟩
      · have hlt : (s3 ++ i).length < (s ++ i).length := by simp; omega
        obtain ⟨acc', s2, h', hs2⟩ := ih s3 i (by omega) hs3 hi n (acc ++ [a]) (by simp at hn hlt ⊢; omega)
        exact ⟨acc', s2, by rw [repeat0Loop_step h3 hlt, h'], hs2⟩
      · exact ⟨acc, s, repeat0Loop_stop hz, hs⟩

theorem lineEnding_bt {c : Char} {t : List Char} (h1 : c ≠ '\n') (h2 : c ≠ '\r') : lineEnding (c :: t) = .bt (c :: t) := by
  unfold lineEnding
  split
  · rename_i heq; injection heq with e _; exact absurd e h1
  · rename_i heq; injection heq with e _; exact absurd e h2
  · rfl

theorem lineEndingOrEof_bt {c : Char} {t : List Char} (h : isEol c = false) :
    Parse.lineEndingOrEof (c :: t) = .bt (c :: t) := by
  have hc1 : c ≠ '\n' := by intro e; subst e; revert h; decide
  have hc2 : c ≠ '\r' := by intro e; subst e; revert h; decide
  simp [Parse.lineEndingOrEof, alt2, lineEnding_bt hc1 hc2, eof]

/-- `metadata_tags` followed by `peek(line_ending_or_eof)` on a line: success at the end of the line, or backtrack -/
theorem tagsLine {s i r : List Char} (hs : NoNL s) (hnl : newLine i r) :
    (∃ m, terminated Parse.metadataTags (peek Parse.lineEndingOrEof) (s ++ i) = .ok m i) ∨
    ∃ z, terminated Parse.metadataTags (peek Parse.lineEndingOrEof) (s ++ i) = .bt z := by
  have hi := lineEnd_of_newLine hnl
  rcases char_colon_line hs hi with ⟨b, s1, h1, hs1, hl1⟩ | ⟨z, h1⟩
  · -- the items
    rcases tagItem_line hs1 hi with ⟨a, s2, h2, hs2, hl2⟩ | ⟨z, h2⟩
    · obtain ⟨acc', s3, h3, hs3⟩ := tagLoop_line s2.length s2 i (Nat.le_refl _) hs2 hi ((s2 ++ i).length + 1) [a]
        (by omega)
      have hrep : repeat1 (terminated Parse.tagKey (char ':')) (s1 ++ i) = .ok acc' (s3 ++ i) := by
        simp only [repeat1, h2, h3]
      obtain ⟨h4, hs4, _⟩ := takeWhile0_line (q := Comb.isSpace) (by
        intro c hc
        simp only [isEol, Bool.or_eq_true, beq_iff_eq] at hc
        rcases hc with rfl | rfl <;> decide) hs3 hi
      have htags : Parse.metadataTags (s ++ i) =
          .ok (Metadata.wordTags (acc'.map String.ofList)) (s3.dropWhile Comb.isSpace ++ i) := by
        simp only [Parse.metadataTags, map_apply, delimited_apply, h1, Res.andThen_ok, hrep, space0, h4, Res.map_ok]
      cases hd : s3.dropWhile Comb.isSpace with
      | nil =>
        left
        refine ⟨Metadata.wordTags (acc'.map String.ofList), ?_⟩
        simp only [terminated_apply, htags, hd, List.nil_append, Res.andThen_ok,
          peek_ok (lineEndingOrEof_newLine hnl), Res.map_ok]
      | cons c t =>
        right
        have hc : isEol c = false := hs4.eol c (by simp [hd])
        refine ⟨c :: (t ++ i), ?_⟩
        have hpk : peek Parse.lineEndingOrEof (c :: (t ++ i)) = .bt (c :: (t ++ i)) := by
          simp [peek, lineEndingOrEof_bt hc]
        simp only [terminated_apply, htags, hd, List.cons_append, Res.andThen_ok, hpk, Res.map_bt]
    · right
      refine ⟨z, ?_⟩
      have hrep : repeat1 (terminated Parse.tagKey (char ':')) (s1 ++ i) = .bt z := by
        simp only [repeat1, h2]
      simp only [terminated_apply, Parse.metadataTags, map_apply, delimited_apply, h1, Res.andThen_ok, hrep,
        Res.andThen_bt, Res.map_bt]
  · right
    refine ⟨z, ?_⟩
    simp only [terminated_apply, Parse.metadataTags, map_apply, delimited_apply, h1, Res.andThen_bt, Res.map_bt]

/-- `metadata_value` on the rest of a line: the whole rest, or backtrack -/
theorem metadataValue_line {s i r : List Char} (hs : NoNL s) (hnl : newLine i r) :
    (∃ v, Parse.metadataValue (s ++ i) = .ok v i) ∨ ∃ z, Parse.metadataValue (s ++ i) = .bt z := by
  have hi := lineEnd_of_newLine hnl
  have hcolon : ∀ t : List Char, NoNL t → ∃ v, (map (fun x => MetaValue.text (String.ofList (Parse.trim x)))
      (preceded (char ':') tillLineEnding)) (':' :: (t ++ i)) = .ok v i := by
    intro t ht
    exact ⟨MetaValue.text (String.ofList (Parse.trim t)), by simp [tillLineEnding_newLine ht hnl]⟩
  have hhead : ∀ t, ¬ i = ':' :: t := by
    intro t e
    rcases hi with rfl | ⟨c, t', rfl, hc⟩
    · cases e
    · injection e with e _; subst e; revert hc; decide
  cases s with
  | nil =>
    right
    rcases hi with rfl | ⟨c, t, rfl, hc⟩
    · exact ⟨[], by simp [Parse.metadataValue, alt2, literal]⟩
    · have hne : c ≠ ':' := by intro e; subst e; revert hc; decide
      exact ⟨c :: t, by simp [Parse.metadataValue, alt2, literal, hne, char_cons_ne hne, Ne.symm hne]⟩
  | cons c t =>
    have ht : NoNL t := fun d hd => hs d (by simp [hd])
    by_cases hc : c = ':'
    · subst hc
      left
      cases t with
      | nil =>
        obtain ⟨v, hv⟩ := hcolon [] NoNL.nil
        have hlit : literal [':', ':'] (':' :: i) = .bt (':' :: i) := by
          cases i with
          | nil => simp [literal]
          | cons d t' =>
            have : d ≠ ':' := fun e => hhead t' (by rw [e])
            simp [literal, Ne.symm this]
        refine ⟨v, ?_⟩
        simp only [Parse.metadataValue, List.nil_append] at hv ⊢
        simp only [List.cons_append, List.nil_append]
        rw [alt2_bt (z := ':' :: i) (by simp [hlit])]
        exact hv
      | cons d t2 =>
        have ht2 : NoNL t2 := fun e he => ht e (by simp [he])
        by_cases hd : d = ':'
        · subst hd
          refine ⟨MetaValue.expr (String.ofList (Parse.trim t2)), ?_⟩
          have hlit : literal [':', ':'] (':' :: ':' :: (t2 ++ i)) = .ok [':', ':'] (t2 ++ i) := by simp [literal]
          simp only [Parse.metadataValue, List.cons_append]
          rw [alt2_ok (a := MetaValue.expr (String.ofList (Parse.trim t2))) (r := i)
            (by simp [hlit, tillLineEnding_newLine ht2 hnl])]
        · obtain ⟨v, hv⟩ := hcolon (d :: t2) ht
          have hlit : literal [':', ':'] (':' :: d :: (t2 ++ i)) = .bt (':' :: d :: (t2 ++ i)) := by
            simp [literal, Ne.symm hd]
          refine ⟨v, ?_⟩
          simp only [Parse.metadataValue, List.cons_append] at hv ⊢
          rw [alt2_bt (z := ':' :: d :: (t2 ++ i)) (by simp [hlit])]
          exact hv
    · right
      refine ⟨c :: (t ++ i), ?_⟩
      simp [Parse.metadataValue, alt2, literal, hc, char_cons_ne hc, Ne.symm hc]

/-- `metadata_value` on `:` and the rest of a line: always a value -/
theorem metadataValue_colon {t i r : List Char} (ht : NoNL t) (hnl : newLine i r) :
    ∃ v, Parse.metadataValue (':' :: (t ++ i)) = .ok v i := by
  have hs : NoNL (':' :: t) := by
    intro c hc
    rcases List.mem_cons.mp hc with rfl | hc
    · decide
    · exact ht c hc
  rcases metadataValue_line hs hnl with h | ⟨z, hz⟩
  · exact h
  · exfalso
    -- the second alternative (`:` then the rest of the line) cannot fail
    have h2 : (map (fun x => MetaValue.text (String.ofList (Parse.trim x))) (preceded (char ':') tillLineEnding))
        (':' :: (t ++ i)) = .ok (MetaValue.text (String.ofList (Parse.trim t))) i := by
      simp [tillLineEnding_newLine ht hnl]
    simp only [Parse.metadataValue, List.cons_append, alt2] at hz
    split at hz
    · rw [h2] at hz; cases hz
    · rename_i hne
      exact hne z hz

/-- `metadata_kv` on a line: the whole line, or backtrack -/
theorem kvLine {s i r : List Char} (hs : NoNL s) (hnl : newLine i r) :
    (∃ m, Parse.metadataKv (s ++ i) = .ok m i) ∨ ∃ z, Parse.metadataKv (s ++ i) = .bt z := by
  have hi := lineEnd_of_newLine hnl
  rcases tagKey_line hs hi with ⟨a, s2, h1, hs2, _⟩ | ⟨z, h1⟩
  · obtain ⟨h4, hs4, _⟩ := takeWhile0_line (q := Comb.isSpace) (by
      intro c hc
      simp only [isEol, Bool.or_eq_true, beq_iff_eq] at hc
      rcases hc with rfl | rfl <;> decide) hs2 hi
    rcases metadataValue_line hs4 hnl with ⟨v, hv⟩ | ⟨z, hz⟩
    · left
      exact ⟨Metadata.keyValue (String.ofList a) v, by
        simp only [Parse.metadataKv, bind_apply, terminated_apply, h1, Res.andThen_ok, space0, h4, Res.map_ok, hv,
          pure_apply]⟩
    · right
      exact ⟨z, by
        simp only [Parse.metadataKv, bind_apply, terminated_apply, h1, Res.andThen_ok, space0, h4, Res.map_ok, hz,
          Res.andThen_bt]⟩
  · right
    exact ⟨z, by simp only [Parse.metadataKv, bind_apply, terminated_apply, h1, Res.andThen_bt]⟩

/-- **`metadata::line_metadata` accepts every `;` line**: `;`, any text without CR / LF, a documented `new-line` -/
theorem lineMetadata_accept {s i r : List Char} (hs : NoNL s) (hnl : newLine i r) :
    ∃ m, Parse.lineMetadata (';' :: (s ++ i)) = .ok m r := by
  have hi := lineEnd_of_newLine hnl
  obtain ⟨h4, hs4, _⟩ := takeWhile0_line (q := Comb.isSpace) (by
    intro c hc
    simp only [isEol, Bool.or_eq_true, beq_iff_eq] at hc
    rcases hc with rfl | rfl <;> decide) hs hi
  have hbody : ∃ m, (terminated Parse.metadataTags (peek Parse.lineEndingOrEof) <|| Parse.metadataKv <||
      map (fun s => Metadata.comment (String.ofList (Parse.trimEnd s))) tillLineEnding)
        (s.dropWhile Comb.isSpace ++ i) = .ok m i := by
    rcases tagsLine hs4 hnl with ⟨m, hm⟩ | ⟨z, hz⟩
    · exact ⟨m, alt2_ok hm⟩
    · rw [alt2_bt hz]
      rcases kvLine hs4 hnl with ⟨m, hm⟩ | ⟨z', hz'⟩
      · exact ⟨m, alt2_ok hm⟩
      · rw [alt2_bt hz']
        exact ⟨Metadata.comment (String.ofList (Parse.trimEnd (s.dropWhile Comb.isSpace))),
          by simp [tillLineEnding_newLine hs4 hnl]⟩
  obtain ⟨m, hm⟩ := hbody
  refine ⟨m, ?_⟩
  simp only [Parse.lineMetadata, delimited_apply, pair_apply, char_cons_self, Res.andThen_ok, space0, h4, Res.map_ok,
    hm, lineEndingOrEof_newLine hnl]

/-- … a documented `metadata new-line` -/
theorem lineMetadata_metadata {i i1 r : List Char} (hm : metadata i i1) (hnl : newLine i1 r) :
    ∃ m, Parse.lineMetadata i = .ok m r := by
  obtain ⟨s, rfl, hs⟩ := metadata_text hm
  exact lineMetadata_accept hs hnl

/-! ## `block_metadata` -/

/-- what follows a metadata block is not a further metadata line: no `;` after one or more blanks -/
def NoMetaCont (r : List Char) : Prop := ∀ s x, r = s ++ ';' :: x → (∀ c ∈ s, Comb.isSpace c = true) → s = []

theorem lineMetadata_bt {x : List Char} (h : ∀ t, x ≠ ';' :: t) : Parse.lineMetadata x = .bt x := by
  cases x with
  | nil => simp [Parse.lineMetadata]
  | cons c t =>
    have : c ≠ ';' := fun e => h t (by rw [e])
    simp [Parse.lineMetadata, char_cons_ne this]

/-- `space1` then something that is not `;`: the metadata-line parser backtracks -/
theorem metaElem_stop {r : List Char} (h : NoMetaCont r) :
    ∃ z, (preceded space1 Parse.lineMetadata) r = .bt z := by
  cases r with
  | nil => exact ⟨[], rfl⟩
  | cons c t =>
    cases hc : Comb.isSpace c with
    | false => exact ⟨c :: t, by simp [space1, takeWhile1, hc]⟩
    | true =>
      have hsp : space1 (c :: t) = .ok ((c :: t).takeWhile Comb.isSpace) ((c :: t).dropWhile Comb.isSpace) := by
        simp [space1, takeWhile1, hc]
      have hne : ∀ y, (c :: t).dropWhile Comb.isSpace ≠ ';' :: y := by
        intro y e
        have hsplit := List.takeWhile_append_dropWhile (p := Comb.isSpace) (l := c :: t)
        rw [e] at hsplit
        have := h _ _ hsplit.symm (fun d hd => mem_takeWhile hd)
        simp [List.takeWhile, hc] at this
      exact ⟨(c :: t).dropWhile Comb.isSpace, by simp only [preceded_apply, hsp, Res.andThen_ok, lineMetadata_bt hne]⟩

theorem metadata_head {i r : List Char} (h : metadata i r) : ∃ t, i = ';' :: t := by
  obtain ⟨s, rfl, _⟩ := metadata_text h
  exact ⟨_, rfl⟩

/-- one further metadata line -/
theorem metaElem_acc {i m : List Char} (h : metadataLine i m) :
    ∃ i1 s a, space1 i = .ok s i1 ∧ i1.length < i.length ∧ Parse.lineMetadata i1 = .ok a m ∧ m.length < i1.length := by
  obtain ⟨i1, hsp, i2, hmeta, hnl⟩ := h
  obtain ⟨t, ht⟩ := metadata_head hmeta
  obtain ⟨s, hs⟩ := space1_plus_sp hsp (by rw [ht]; simp [Comb.isSpace])
  obtain ⟨a, ha⟩ := lineMetadata_metadata hmeta hnl
  obtain ⟨sp', rfl, hne, _⟩ := plus_sp hsp
  obtain ⟨txt, rfl, _⟩ := metadata_text hmeta
  have := newLine_length hnl
  refine ⟨_, s, a, hs, ?_, ha, by simp; omega⟩
  have : 0 < sp'.length := List.length_pos_iff.mpr hne
  simp; omega

theorem metaElem_acc' {i m : List Char} (h : metadataLine i m) :
    ∃ a, (preceded space1 Parse.lineMetadata) i = .ok a m ∧ m.length < i.length := by
  obtain ⟨i1, s, a, h1, hl1, h2, hl2⟩ := metaElem_acc h
  exact ⟨a, by simp only [preceded_apply, h1, Res.andThen_ok, h2], by omega⟩

/-- the loop of `separated(1.., line_metadata, space1)` over further metadata lines -/
theorem sepLoop_star {i r : List Char} (h : G.star metadataLine i r) (hr : NoMetaCont r) :
    ∀ (n : Nat) (acc : List Metadata), i.length < n →
      ∃ acc', separatedLoop Parse.lineMetadata space1 n i acc = .ok acc' r := by
  induction h with
  | nil r =>
    intro n acc hn
    cases n with
    | zero => omega
    | succ n =>
      refine ⟨acc, ?_⟩
      cases r with
      | nil => simp [separatedLoop, space1, takeWhile1]
      | cons c t =>
        cases hc : Comb.isSpace c with
        | false => simp [separatedLoop, space1, takeWhile1, hc]
        | true =>
          obtain ⟨z, hz⟩ := metaElem_stop hr
          have hsp : space1 (c :: t) = .ok ((c :: t).takeWhile Comb.isSpace) ((c :: t).dropWhile Comb.isSpace) := by
            simp [space1, takeWhile1, hc]
          simp only [preceded_apply, hsp, Res.andThen_ok] at hz
          have hlt : ¬ ((c :: t).dropWhile Comb.isSpace).length ≥ (c :: t).length := by
            have := (List.dropWhile_suffix Comb.isSpace (l := t)).length_le
            simp [List.dropWhile, hc]; omega
          simp only [separatedLoop, hsp, hlt, if_false, hz]
  | cons h hs ih =>
    intro n acc hn
    cases n with
    | zero => omega
    | succ n =>
      obtain ⟨i1, s, a, h1, hl1, h2, hl2⟩ := metaElem_acc h
      obtain ⟨acc', h'⟩ := ih hr n (acc ++ [a]) (by omega)
      exact ⟨acc', by simp only [separatedLoop, h1, Nat.not_le.mpr hl1, ge_iff_le, if_false, h2, h']⟩

/-- a further metadata line begins with a blank -/
theorem metadataLine_head {i m : List Char} (h : metadataLine i m) : ∃ c t, i = c :: t ∧ Comb.isSpace c = true := by
  obtain ⟨i1, hsp, _⟩ := h
  obtain ⟨s, rfl, hne, hs⟩ := plus_sp hsp
  cases s with
  | nil => exact absurd rfl hne
  | cons c t => exact ⟨c, _, rfl, hs c (by simp)⟩

/-- **`metadata::block_metadata` accepts `metadata? new-line (sp+ metadata new-line)*`** and stops at the end of the
derivation when what follows is not a further metadata line -/
theorem blockMetadata_accept {i r : List Char} (h : (G.opt metadata ⬝ newLine ⬝ G.star metadataLine) i r)
    (hr : NoMetaCont r) : ∃ ms, Parse.blockMetadata i = .ok ms r := by
  obtain ⟨i1, hopt, i2, hnl, hstar⟩ := h
  rcases hopt with hm | rfl
  · -- an inline `;…`
    obtain ⟨t, rfl⟩ := metadata_head hm
    obtain ⟨a, ha⟩ := lineMetadata_metadata hm hnl
    obtain ⟨acc', h'⟩ := sepLoop_star hstar hr (i2.length + 1) [a] (by omega)
    exact ⟨acc', by simp only [Parse.blockMetadata, dispatchOpt, separated1, ha, h']⟩
  · rcases newLine_cases hnl with rfl | rfl | ⟨rfl, rfl⟩
    · obtain ⟨acc, hacc⟩ := repeat0_star (p := preceded space1 Parse.lineMetadata) (fun _ => True)
        (fun i m h _ => metaElem_acc' h) (fun _ _ _ => trivial) hstar trivial (metaElem_stop hr)
      exact ⟨acc, by simp [Parse.blockMetadata, dispatchOpt, hacc]⟩
    · obtain ⟨acc, hacc⟩ := repeat0_star (p := preceded space1 Parse.lineMetadata) (fun _ => True)
        (fun i m h _ => metaElem_acc' h) (fun _ _ _ => trivial) hstar trivial (metaElem_stop hr)
      exact ⟨acc, by simp [Parse.blockMetadata, dispatchOpt, lineEnding, hacc]⟩
    · cases hstar with
      | nil _ => exact ⟨[], by simp [Parse.blockMetadata, dispatchOpt]⟩
      | cons h _ =>
        obtain ⟨c, t, e, _⟩ := metadataLine_head h
        cases e

end Okane.DocAccept
