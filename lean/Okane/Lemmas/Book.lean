import Okane.Model.Book
import Okane.Lemmas.Amount
/-!
# Lemmas about the book-keeping core: one posting step, the posting loop, one transaction
-/
set_option linter.unusedSectionVars false
namespace Okane
variable {α κ : Type} [DecidableEq α] [DecidableEq κ]

namespace Balance

/-- every account's amount has unique keys and no zero entry -/
def Inv (b : Balance α κ) : Prop := ∀ a, AMap.WF (get b a) ∧ Amount.NoZero (get b a)

theorem Inv_nil : Inv ([] : Balance α κ) := by
  intro a; simp [get, AMap.WF_nil, Amount.NoZero_nil]

theorem get_insert (b : Balance α κ) (a a' : α) (x : Amount κ) :
    get (AMap.insert b a x) a' = if a = a' then x else get b a' := by
  unfold get
  rw [AMap.get?_insert]
  by_cases h : a = a' <;> simp [h]

theorem get_addPostingAmount (b : Balance α κ) (a a' : α) (x : PostingAmt κ) :
    get (addPostingAmount b a x).1 a' = if a = a' then ((get b a).addPosting x).removeZero else get b a' := by
  simp [addPostingAmount, get_insert]

theorem get_addAmount (b : Balance α κ) (a a' : α) (x : Amount κ) :
    get (addAmount b a x).1 a' = if a = a' then ((get b a).add x).removeZero else get b a' := by
  simp [addAmount, get_insert]

theorem Inv_addPostingAmount (b : Balance α κ) (a : α) (x : PostingAmt κ) (h : Inv b) :
    Inv (addPostingAmount b a x).1 := by
  intro a'
  rw [get_addPostingAmount]
  by_cases h1 : a = a'
  · simp only [h1, if_true]
    exact ⟨Amount.WF_removeZero _ (Amount.WF_addPosting _ _ (h a').1), Amount.NoZero_removeZero _⟩
  · simp only [h1, if_false]; exact h a'

theorem Inv_addAmount (b : Balance α κ) (a : α) (x : Amount κ) (h : Inv b) :
    Inv (addAmount b a x).1 := by
  intro a'
  rw [get_addAmount]
  by_cases h1 : a = a'
  · simp only [h1, if_true]
    exact ⟨Amount.WF_removeZero _ (Amount.WF_add _ _ (h a').1), Amount.NoZero_removeZero _⟩
  · simp only [h1, if_false]; exact h a'

/-- the account moves by exactly the posted amount (values), zero entries dropped -/
theorem getPart_addPostingAmount (b : Balance α κ) (a a' : α) (x : PostingAmt κ) (h : Inv b) (c : κ) :
    Amount.getPart (get (addPostingAmount b a x).1 a') c =
      Amount.getPart (get b a') c + (if a = a' then Amount.getPart x.toAmount c else 0) := by
  rw [get_addPostingAmount]
  by_cases h1 : a = a'
  · subst h1
    simp only [if_true]
    rw [Amount.getPart_removeZero _ (Amount.WF_addPosting _ _ (h a).1), Amount.getPart_addPosting]
  · simp [h1]

theorem getPart_addAmount (b : Balance α κ) (a a' : α) (x : Amount κ) (h : Inv b) (hx : AMap.WF x) (c : κ) :
    Amount.getPart (get (addAmount b a x).1 a') c =
      Amount.getPart (get b a') c + (if a = a' then Amount.getPart x c else 0) := by
  rw [get_addAmount]
  by_cases h1 : a = a'
  · subst h1
    simp only [if_true]
    rw [Amount.getPart_removeZero _ (Amount.WF_add _ _ (h a).1), Amount.getPart_add _ _ hx]
  · simp [h1]

end Balance

namespace Amount

theorem setPartial_fst_getPart (a : Amount κ) (s : SingleAmount κ) (h : AMap.WF a) (c : κ) :
    getPart (setPartial a s).1 c = if s.commodity = c then s.value else getPart a c := by
  unfold setPartial getPart
  by_cases hz : s.value = 0
  · simp only [hz, if_true]
    rw [AMap.get?_erase _ h]
    by_cases hc : s.commodity = c <;> simp [hc]
  · simp only [hz, if_false]
    rw [AMap.get?_insert]
    by_cases hc : s.commodity = c <;> simp [hc]

theorem setPartial_snd (a : Amount κ) (s : SingleAmount κ) :
    (setPartial a s).2 = ⟨getPart a s.commodity, s.commodity⟩ := rfl

theorem WF_setPartial (a : Amount κ) (s : SingleAmount κ) (h : AMap.WF a) : AMap.WF (setPartial a s).1 := by
  unfold setPartial
  by_cases hz : s.value = 0
  · simp only [hz, if_true]; exact AMap.WF_erase _ _ h
  · simp only [hz, if_false]; exact AMap.WF_insert _ _ _ h

theorem NoZero_setPartial (a : Amount κ) (s : SingleAmount κ) (h : NoZero a) : NoZero (setPartial a s).1 := by
  unfold setPartial
  by_cases hz : s.value = 0
  · simp only [hz, if_true]
    intro kv hkv; exact h kv (AMap.mem_erase_imp _ _ hkv)
  · simp only [hz, if_false]
    intro kv hkv
    rcases AMap.mem_insert_imp _ _ _ hkv with h1 | h1
    · subst h1; exact hz
    · exact h kv h1

end Amount

end Okane

namespace Okane
variable {α κ : Type} [DecidableEq α] [DecidableEq κ]

/-! ## one posting step, by the shape of the posting -/

theorem stepPosting_omitted (date : Date) (st : TxnState α κ) (idx : Nat) (p : RPosting α κ)
    (ha : p.amount = none) (hb : p.balance = none) :
    stepPosting date st idx p =
      match st.unfilled with
      | some first => .err (.undeducible first idx)
      | none => .ok { st with postings := st.postings ++ [⟨p.account, [], none⟩], unfilled := some idx,
                              deltas := st.deltas ++ [.zero] } := by
  simp [stepPosting, processPosting, ha, hb]
  cases st.unfilled <;> simp

/-- does the balance assertion `bc` fail on the account balance `cur`? -/
def assertFails (cur : Amount κ) : Option (PostingAmt κ) → Bool
  | none => false
  | some expected => !(cur.assertBalance expected).isAbsoluteZero

theorem stepPosting_amount (date : Date) (st : TxnState α κ) (idx : Nat) (p : RPosting α κ) (ra : RAmount κ)
    (ha : p.amount = some ra) :
    stepPosting date st idx p =
      if assertFails (Balance.addPostingAmount st.bal p.account ra.postingAmt).2 p.balance then
        .err (.assertionFailure idx (Balance.addPostingAmount st.bal p.account ra.postingAmt).2
          ((Balance.addPostingAmount st.bal p.account ra.postingAmt).2.assertBalance (p.balance.getD .zero)))
      else
        .ok { st with postings := st.postings ++ [⟨p.account, ra.postingAmt.toAmount, ra.convertedAmount⟩]
                      balance := st.balance.addPosting ra.balanceAmount
                      bal := (Balance.addPostingAmount st.bal p.account ra.postingAmt).1
                      events := st.events ++ (ra.priceEvent date).toList
                      deltas := st.deltas ++ [ra.balanceAmount] } := by
  simp only [stepPosting, processPosting, ha, assertFails]
  cases hb : p.balance with
  | none => simp
  | some expected =>
    simp only [Option.getD_some]
    by_cases hz : ((Balance.addPostingAmount st.bal p.account ra.postingAmt).2.assertBalance expected).isAbsoluteZero = true
    · simp [hz]
    · simp [hz]

end Okane

namespace Okane
variable {α κ : Type} [DecidableEq α] [DecidableEq κ]

/-- every step appends exactly one posting and one delta, and adds that delta to the running balance -/
theorem stepPosting_shape (date : Date) (st st' : TxnState α κ) (idx : Nat) (p : RPosting α κ)
    (h : stepPosting date st idx p = .ok st') :
    ∃ (out : OutPosting α κ) (d : PostingAmt κ),
      st'.postings = st.postings ++ [out] ∧ out.account = p.account ∧
      st'.deltas = st.deltas ++ [d] ∧ st'.balance = st.balance.addPosting d := by
  unfold stepPosting at h
  split at h
  · rename_i ev pe bal' hp
    simp only [Outcome.ok.injEq] at h
    subst h
    exact ⟨_, ev.delta, rfl, rfl, rfl, rfl⟩
  · rename_i pe bal' hp
    split at h
    · simp at h
    · simp only [Outcome.ok.injEq] at h
      subst h
      exact ⟨_, .zero, rfl, rfl, rfl, by simp [Amount.addPosting]⟩
  all_goals simp at h

/-- sum of the deltas at commodity `c` -/
def deltaSum (ds : List (PostingAmt κ)) (c : κ) : Rat := (ds.map fun d => Amount.getPart d.toAmount c).sum

@[simp] theorem deltaSum_nil (c : κ) : deltaSum ([] : List (PostingAmt κ)) c = 0 := rfl
theorem deltaSum_append (ds : List (PostingAmt κ)) (d : PostingAmt κ) (c : κ) :
    deltaSum (ds ++ [d]) c = deltaSum ds c + Amount.getPart d.toAmount c := by
  simp [deltaSum, List.sum_append]

/-- the running balance is the sum of the deltas, and has unique keys -/
def TxnState.BalOK (st : TxnState α κ) : Prop :=
  AMap.WF st.balance ∧ ∀ c, Amount.getPart st.balance c = deltaSum st.deltas c

theorem BalOK_init (bal : Balance α κ) : (⟨[], none, [], bal, [], []⟩ : TxnState α κ).BalOK :=
  ⟨AMap.WF_nil, fun c => by simp⟩

theorem BalOK_step (date : Date) (st st' : TxnState α κ) (idx : Nat) (p : RPosting α κ)
    (h : stepPosting date st idx p = .ok st') (hb : st.BalOK) : st'.BalOK := by
  obtain ⟨out, d, _, _, hd, hbal⟩ := stepPosting_shape date st st' idx p h
  refine ⟨by rw [hbal]; exact Amount.WF_addPosting _ _ hb.1, fun c => ?_⟩
  rw [hbal, hd, Amount.getPart_addPosting, deltaSum_append, hb.2 c]

theorem BalOK_loop (date : Date) (ps : List (RPosting α κ)) (st st' : TxnState α κ) (idx : Nat)
    (h : loopPostings date st idx ps = .ok st') (hb : st.BalOK) : st'.BalOK := by
  induction ps generalizing st idx with
  | nil => simp [loopPostings] at h; subst h; exact hb
  | cons p ps ih =>
    simp only [loopPostings] at h
    split at h
    · rename_i st1 h1
      exact ih st1 (idx + 1) h (BalOK_step date st st1 idx p h1 hb)
    all_goals simp at h

end Okane

namespace Okane
variable {α κ : Type} [DecidableEq α] [DecidableEq κ]

theorem SingleAmount.withSignOf_eq (s sign : SingleAmount κ) :
    s.withSignOf sign = ⟨if sign.value < 0 then -(ratAbs s.value) else ratAbs s.value, s.commodity⟩ := rfl

end Okane

namespace Okane
variable {α κ : Type} [DecidableEq α] [DecidableEq κ]

/-- assignment posting `acct = X` (no amount): what the step does. -/
theorem stepPosting_assign (date : Date) (st : TxnState α κ) (idx : Nat) (p : RPosting α κ) (x : PostingAmt κ)
    (ha : p.amount = none) (hb : p.balance = some x) :
    stepPosting date st idx p =
      match Balance.setPartial st.bal p.account x with
      | .ok (bal', prev) =>
        match x.checkSub prev with
        | .ok amount =>
          .ok { st with postings := st.postings ++ [⟨p.account, amount.toAmount, none⟩]
                        balance := st.balance.addPosting amount
                        bal := bal'
                        deltas := st.deltas ++ [amount] }
        | .err e => .err (.evalFailure e)
        | .panic s => .panic s
        | .fuelOut => .fuelOut
      | .err e => .err e
      | .panic s => .panic s
      | .fuelOut => .fuelOut := by
  simp only [stepPosting, processPosting, ha, hb]
  cases Balance.setPartial st.bal p.account x with
  | ok r =>
    obtain ⟨bal', prev⟩ := r
    simp only
    cases x.checkSub prev <;> simp
  | err e => simp
  | panic s => simp
  | fuelOut => simp

end Okane
