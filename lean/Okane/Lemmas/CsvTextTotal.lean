import Okane.Lemmas.CsvTextImport
/-!
# `csv::import` from the bytes never hangs and has one panic site

`Safe o`: the outcome is not `fuelOut`, and if it is a panic it is rust_decimal's `Division by zero` (`amount / rate` of a
computed `price_of_secondary` conversion with a zero rate cell — `Dec.div`).  Every function of the importer model is `Safe`
for every decoder environment; with the reader (a fold over the bytes) and the skipping (structural) this gives
`csvImportText_total`.
-/
namespace Okane.Import.CsvText
open Okane Okane.Import

/-- the one panic site of the CSV importer -/
def divSite : String := "csv: amount / rate: Decimal division by zero"

def Safe {ε α} (o : Outcome ε α) : Prop := o ≠ .fuelOut ∧ ∀ s, o = .panic s → s = divSite

theorem safe_ok {ε α} (a : α) : Safe (.ok a : Outcome ε α) := ⟨by simp, by simp⟩
theorem safe_err {ε α} (e : ε) : Safe (.err e : Outcome ε α) := ⟨by simp, by simp⟩

theorem safe_bind {ε α β} (x : Outcome ε α) (f : α → Outcome ε β) (hx : Safe x) (hf : ∀ a, Safe (f a)) : Safe (x >>= f) := by
  cases x with
  | ok a => exact hf a
  | err e => exact safe_err e
  | panic s => exact ⟨by simp [Bind.bind, Outcome.bind], fun s' h => hx.2 s' (by simpa [Bind.bind, Outcome.bind] using h)⟩
  | fuelOut => exact absurd rfl hx.1

theorem safe_resolvePos (header : List String) (p : CsvPos) : Safe (resolvePos header p) := by
  unfold resolvePos
  repeat' split
  all_goals first | exact safe_ok _ | exact safe_err _

theorem safe_resolveAll (header : List String) : ∀ l, Safe (resolveAll header l)
  | [] => safe_ok _
  | (k, p) :: rest => by
    have h1 := safe_resolvePos header p
    have h2 := safe_resolveAll header rest
    unfold resolveAll
    cases hp : resolvePos header p with
    | ok f =>
      cases hr : resolveAll header rest with
      | ok m => exact safe_ok _
      | err e => exact safe_err _
      | panic s => rw [hr] at h2; exact ⟨by simp, fun s' h => h2.2 s' (by simpa using h)⟩
      | fuelOut => rw [hr] at h2; exact absurd rfl h2.1
    | err e => exact safe_err _
    | panic s => rw [hp] at h1; exact ⟨by simp, fun s' h => h1.2 s' (by simpa using h)⟩
    | fuelOut => rw [hp] at h1; exact absurd rfl h1.1

theorem safe_tryNew (fields : AMap FieldKey CsvPos) (header : List String) : Safe (FieldMap.tryNew fields header) := by
  have h := safe_resolveAll header fields
  unfold FieldMap.tryNew
  dsimp only
  split
  · exact safe_err _
  · cases hr : resolveAll header fields with
    | ok ki =>
      dsimp only
      repeat' split
      all_goals first | exact safe_ok _ | exact safe_err _
    | err e => exact safe_err _
    | panic s => rw [hr] at h; exact ⟨by simp, fun s' h' => h.2 s' (by simpa using h')⟩
    | fuelOut => rw [hr] at h; exact absurd rfl h.1

theorem safe_renderTemplate (fm : FieldMap) (key : FieldKey) (rec : List String) : ∀ segs, Safe (renderTemplate fm key rec segs)
  | [] => safe_ok _
  | seg :: rest => by
    have ih := safe_renderTemplate fm key rec rest
    unfold renderTemplate
    split
    · exact safe_err _
    · split
      · exact safe_err _
      · cases hr : renderTemplate fm key rec rest with
        | ok s => exact safe_ok _
        | err e => exact safe_err _
        | panic s => rw [hr] at ih; exact ⟨by simp, fun s' h => ih.2 s' (by simpa using h)⟩
        | fuelOut => rw [hr] at ih; exact absurd rfl ih.1

theorem safe_resolve (fm : FieldMap) (key : FieldKey) (f : CsvField) (rec : List String) : Safe (fm.resolve key f rec) := by
  unfold FieldMap.resolve
  cases f with
  | column i => exact safe_ok _
  | template segs =>
    have h := safe_renderTemplate fm key rec segs
    dsimp only
    cases hr : renderTemplate fm key rec segs with
    | ok s => exact safe_ok _
    | err e => exact safe_err _
    | panic s => rw [hr] at h; exact ⟨by simp, fun s' h' => h.2 s' (by simpa using h')⟩
    | fuelOut => rw [hr] at h; exact absurd rfl h.1

theorem safe_extract (fm : FieldMap) (key : FieldKey) (rec : List String) : Safe (fm.extract key rec) := by
  unfold FieldMap.extract
  split
  · exact safe_ok _
  · exact safe_resolve fm key _ rec

theorem safe_strToCommaDecimal (env : CsvEnv) (s : String) : Safe (strToCommaDecimal env s) := by
  unfold strToCommaDecimal
  repeat' split
  all_goals first | exact safe_ok _ | exact safe_err _

theorem safe_optDecimal (env : CsvEnv) (o : Option String) : Safe (optDecimal env o) := by
  cases o with
  | none => exact safe_ok _
  | some s => exact safe_strToCommaDecimal env s

theorem Safe.of_eq {ε α} {x y : Outcome ε α} (hx : Safe x) (h : x = y) : Safe y := h ▸ hx

theorem Safe.panic_of {ε α ε' β} {x : Outcome ε α} {s : String} (hx : Safe x) (h : x = .panic s) :
    Safe (.panic s : Outcome ε' β) := ⟨by simp, fun s' hs => by simp at hs; subst hs; exact hx.2 _ h⟩

theorem Safe.fuelOut_of {ε α ε' β} {x : Outcome ε α} (hx : Safe x) (h : x = .fuelOut) :
    Safe (.fuelOut : Outcome ε' β) := absurd h hx.1

theorem safe_amount (env : CsvEnv) (fm : FieldMap) (at_ : AccountType) (rec : List String) : Safe (fm.amount env at_ rec) := by
  unfold FieldMap.amount
  repeat' split
  all_goals first
    | exact safe_ok _
    | exact safe_err _
    | (rename_i h; (first | refine Safe.panic_of ?_ h | refine Safe.fuelOut_of ?_ h); first | exact safe_resolve .. | exact safe_strToCommaDecimal ..)

theorem safe_div (a b : Dec) : Safe (Dec.div a b) := by
  unfold Dec.div
  split
  · exact ⟨by simp, fun s h => by simp at h; exact h.symm⟩
  · split
    · exact safe_ok _
    · dsimp only
      split <;> exact safe_ok _

theorem safe_addRate (t : Txn) (key : CommodityPair) (rate : Dec) : Safe (t.addRate key rate) := by
  unfold Txn.addRate
  dsimp only
  repeat' split
  all_goals first | exact safe_ok _ | exact safe_err _

theorem safe_applyConversion (txn : Txn) (conv : Conversion) (amount : Dec) (commodity : String) (rate : Option Dec)
    (secondaryAmount : Option Dec) (secondaryCommodity : Option String) :
    Safe (applyConversion txn conv amount commodity rate secondaryAmount secondaryCommodity) := by
  unfold applyConversion
  cases rate with
  | none => exact safe_err _
  | some rate =>
    dsimp only
    cases conv.commodity.or secondaryCommodity with
    | none => exact safe_err _
    | some sc =>
      dsimp only
      cases conv.rate with
      | priceOfPrimary =>
        dsimp only
        repeat' split
        all_goals first
          | exact safe_ok _
          | exact safe_err _
          | (rename_i h; (first | refine Safe.panic_of ?_ h | refine Safe.fuelOut_of ?_ h); first | exact safe_addRate ..)
      | priceOfSecondary =>
        dsimp only
        have hd := safe_div amount rate
        cases hdiv : Dec.div amount rate with
        | ok q =>
          dsimp only
          repeat' split
          all_goals first
            | exact safe_ok _
            | exact safe_err _
            | (rename_i h; (first | refine Safe.panic_of ?_ h | refine Safe.fuelOut_of ?_ h); first | exact safe_addRate ..)
        | err e => exact safe_err _
        | panic s => exact Safe.panic_of hd hdiv
        | fuelOut => exact Safe.fuelOut_of hd hdiv

theorem safe_baseTxn (env : CsvEnv) (cfg : CsvCfg) (fm : FieldMap) (rec : List String) (v : RowValues) :
    Safe (baseTxn env cfg fm rec v) := by
  unfold baseTxn
  dsimp only
  repeat' split
  all_goals first
    | exact safe_ok _
    | exact safe_err _
    | (rename_i h; (first | refine Safe.panic_of ?_ h | refine Safe.fuelOut_of ?_ h); first | exact safe_extract .. | exact safe_strToCommaDecimal ..)

theorem safe_buildTxn (env : CsvEnv) (cfg : CsvCfg) (fm : FieldMap) (rec : List String) (v : RowValues) :
    Safe (buildTxn env cfg fm rec v) := by
  unfold buildTxn
  repeat' split
  all_goals first
    | exact safe_ok _
    | exact safe_err _
    | exact safe_applyConversion ..
    | (rename_i h; (first | refine Safe.panic_of ?_ h | refine Safe.fuelOut_of ?_ h); first | exact safe_baseTxn ..)

theorem safe_readRow (env : CsvEnv) (cfg : CsvCfg) (fm : FieldMap) (rec : List String) : Safe (readRow env cfg fm rec) := by
  unfold readRow
  split
  · exact safe_err _
  · refine safe_bind _ _ (safe_extract ..) (fun datestr => ?_)
    cases datestr with
    | none => exact safe_err _
    | some ds =>
      dsimp only
      split
      · exact safe_ok _
      · split
        · exact safe_err _
        · refine safe_bind _ _ (safe_extract ..) (fun payee => ?_)
          cases payee with
          | none => exact safe_err _
          | some p =>
            dsimp only
            refine safe_bind _ _ (safe_amount ..) (fun _ => ?_)
            refine safe_bind _ _ (safe_bind _ _ (safe_extract ..) (fun o => safe_optDecimal env o)) (fun _ => ?_)
            refine safe_bind _ _ (safe_bind _ _ (safe_extract ..) (fun o => safe_optDecimal env o)) (fun _ => ?_)
            refine safe_bind _ _ (safe_extract ..) (fun _ => ?_)
            refine safe_bind _ _ (safe_extract ..) (fun _ => ?_)
            refine safe_bind _ _ (safe_extract ..) (fun _ => ?_)
            refine safe_bind _ _ (safe_bind _ _ (safe_extract ..) (fun o => safe_optDecimal env o)) (fun _ => ?_)
            exact safe_ok _

theorem safe_csvRow (env : CsvEnv) (cfg : CsvCfg) (fm : FieldMap) (rec : List String) : Safe (csvRow env cfg fm rec) := by
  unfold csvRow
  repeat' split
  all_goals first
    | exact safe_ok _
    | exact safe_err _
    | (rename_i h; (first | refine Safe.panic_of ?_ h | refine Safe.fuelOut_of ?_ h); first | exact safe_readRow .. | exact safe_buildTxn ..)

theorem safe_csvRows (env : CsvEnv) (cfg : CsvCfg) (fm : FieldMap) : ∀ records, Safe (csvRows env cfg fm records)
  | [] => safe_ok _
  | rec :: rest => by
    have ih := safe_csvRows env cfg fm rest
    unfold csvRows
    repeat' split
    all_goals first
      | exact safe_ok _
      | exact safe_err _
      | (rename_i h; (first | refine Safe.panic_of ?_ h | refine Safe.fuelOut_of ?_ h); first | exact safe_csvRow .. | exact ih)

theorem safe_csvImportFlagged (env : CsvEnv) (cfg : CsvCfg) (header : List String) (records : List (List String)) :
    Safe (csvImportFlagged env cfg header records) := by
  unfold csvImportFlagged
  repeat' split
  all_goals first
    | exact safe_ok _
    | exact safe_err _
    | (rename_i h; (first | refine Safe.panic_of ?_ h | refine Safe.fuelOut_of ?_ h); first | exact safe_csvRows .. | exact safe_tryNew ..)

/-- **Totality of `csv::import` from the bytes.**  For every file, every configuration and every decoder environment the
import model terminates without fuel, and the only panic it can reach is rust_decimal's division by zero (`amount / rate`
with a zero rate cell under `compute` / `price_of_secondary`). -/
theorem csvImportText_total (env : CsvEnv) (cfg : CsvCfg) (t : TextCfg) (file : Bytes) :
    csvImportText env cfg t file ≠ .fuelOut ∧ ∀ s, csvImportText env cfg t file = .panic s → s = divSite := by
  have hflag : Safe (csvImportTextFlagged env cfg t file) := by
    rcases csvImportText_shape env cfg t file with ⟨_, h⟩ | ⟨rest, _, hcase⟩
    · rw [h]; exact safe_err _
    · rcases hcase with ⟨_, h⟩ | ⟨header, good, bad, _, _, hcase⟩
      · rw [h]; exact safe_err _
      · rcases hcase with ⟨_, h⟩ | ⟨_, ⟨_, _, h⟩ | ⟨_, h⟩⟩
        · rw [h]; exact safe_csvImportFlagged ..
        · rw [h]; exact safe_err _
        · rw [h]; exact safe_csvImportFlagged ..
  unfold csvImportText
  cases hf : csvImportTextFlagged env cfg t file with
  | ok ts => simp [Outcome.map']
  | err e => simp [Outcome.map']
  | panic s => rw [hf] at hflag; simpa [Outcome.map'] using hflag.2 s rfl
  | fuelOut => rw [hf] at hflag; exact absurd rfl hflag.1

/-- the panic is reachable: `compute` / `price_of_secondary` with the rate cell `0` -/
example : Dec.div ⟨false, 5, 0⟩ ⟨false, 0, 0⟩ = .panic divSite := by decide

end Okane.Import.CsvText
