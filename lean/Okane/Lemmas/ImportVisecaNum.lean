import Okane.Model.ImportViseca
import Okane.Lemmas.LiteralPrint
/-!
# Viseca parser — numbers and dates: what `printMagnitude` / `printGrouped` / `printEuroDate` write is read back by
`parse_decimal` / `parse_euro_date` (lemmas for the round-trip theorem of `Lemmas/ImportViseca.lean`)
-/
set_option linter.unusedSimpArgs false
namespace Okane.Import.Viseca
open Okane Okane.Import Okane.Literal Okane.C07

/-! ## `Decimal::from_str` on digit strings -/

theorem handleData_true (data scale : Nat) : handleData true data scale = some ⟨false, data, scale⟩ := rfl

/-- the 96-bit phase after the point: digits are accumulated as long as they fit -/
theorem full128_true_digits : ∀ (ds : List Char) (data scale : Nat), ds.all Char.isDigit = true →
    foldMant data ds < overflowU96 → scale + ds.length ≤ 28 →
    full128 true data scale ds = some ⟨false, foldMant data ds, scale + ds.length⟩ := by
  intro ds
  induction ds with
  | nil => intro data scale _ _ _; simp [full128, handleData, foldMant]
  | cons b bytes ih =>
    intro data scale hd hlt hsc
    simp only [List.all_cons, Bool.and_eq_true] at hd
    have hnext : data * 10 + digitVal b < overflowU96 := by
      have := foldMant_ge (data * 10 + digitVal b) bytes
      rw [foldMant_cons] at hlt
      omega
    rw [foldMant_cons]
    cases bytes with
    | nil =>
      simp [full128, hd.1, handleData, foldMant, Nat.not_le.mpr hnext]
    | cons nb rest =>
      have h28 : ¬ (scale + 1 ≥ 28) := by simp only [List.length_cons] at hsc; omega
      rw [full128]
      simp only [hd.1, if_true, Nat.not_le.mpr hnext, if_false, Bool.true_and, decide_eq_true_eq, h28]
      rw [ih (data * 10 + digitVal b) (scale + 1) hd.2 (by rw [foldMant_cons] at hlt; exact hlt) (by simp only [List.length_cons] at hsc ⊢; omega)]
      simp only [List.length_cons]
      congr 2
      omega

/-- the 64-bit phase after the point -/
theorem dec64_true_digits : ∀ (ds : List Char) (data scale : Nat) (has : Bool), ds.all Char.isDigit = true → ds ≠ [] →
    foldMant data ds < overflowU96 → scale + ds.length ≤ 28 →
    dec64 true has data scale ds = some ⟨false, foldMant data ds, scale + ds.length⟩ := by
  intro ds
  induction ds with
  | nil => intro _ _ _ _ h; exact absurd rfl h
  | cons b bytes ih =>
    intro data scale has hd _ hlt hsc
    simp only [List.all_cons, Bool.and_eq_true] at hd
    rw [foldMant_cons] at hlt ⊢
    cases bytes with
    | nil => simp [dec64, hd.1, handleData, foldMant]
    | cons nb rest =>
      have h28 : ¬ (scale + 1 ≥ 28) := by simp only [List.length_cons] at hsc; omega
      have hlen : scale + 1 + (nb :: rest).length = scale + (b :: nb :: rest).length := by simp only [List.length_cons]; omega
      rw [dec64]
      simp only [hd.1, if_true, Bool.true_and, decide_eq_true_eq, h28, if_false]
      split
      · rw [full128_true_digits _ _ _ hd.2 hlt (by omega), hlen]
      · rw [ih _ _ true hd.2 (by simp) hlt (by omega), hlen]

theorem dotTail_nil : dotTail [] = [] := rfl
theorem dotTail_cons (c : Char) (cs : List Char) : dotTail (c :: cs) = '.' :: c :: cs := rfl

theorem isDigit_ne_dot' {c : Char} (h : c.isDigit = true) : (c == '.') = false := by
  have := (digit_ne h).2.2
  simpa using this

/-- the 96-bit phase before the point, on `digits [. digits]` -/
theorem full128_false_digits : ∀ (W : List Char) (data : Nat) (F : List Char), W.all Char.isDigit = true →
    F.all Char.isDigit = true → foldMant data (W ++ F) < overflowU96 → F.length ≤ 28 →
    full128 false data 0 (W ++ dotTail F) = some ⟨false, foldMant data (W ++ F), F.length⟩ := by
  intro W
  induction W with
  | nil =>
    intro data F _ hF hlt hlen
    cases F with
    | nil => simp [dotTail_nil, full128, handleData]
    | cons f fs =>
      simp only [List.nil_append, dotTail_cons]
      rw [full128]
      have : ('.' : Char).isDigit = false := by decide
      simp only [this, Bool.false_eq_true, if_false, beq_self_eq_true, Bool.not_false, Bool.and_self, if_true]
      rw [full128_true_digits _ _ _ hF (by simpa using hlt) (by omega)]
      simp
  | cons b bytes ih =>
    intro data F hd hF hlt hlen
    simp only [List.all_cons, Bool.and_eq_true] at hd
    simp only [List.cons_append] at hlt ⊢
    rw [foldMant_cons] at hlt ⊢
    have hnext : data * 10 + digitVal b < overflowU96 := by
      have := foldMant_ge (data * 10 + digitVal b) (bytes ++ F); omega
    rw [full128]
    simp only [hd.1, if_true, Nat.not_le.mpr hnext, if_false, Bool.false_and, Bool.false_eq_true, Nat.add_zero]
    cases hb : bytes ++ dotTail F with
    | nil =>
      have h1 : bytes = [] := (List.append_eq_nil_iff.mp hb).1
      have h2 : F = [] := by
        have := (List.append_eq_nil_iff.mp hb).2
        cases F with
        | nil => rfl
        | cons _ _ => simp [dotTail_cons] at this
      subst h1; subst h2
      simp [handleData]
    | cons nb rest =>
      simp only []
      rw [← hb, ih _ _ hd.2 hF hlt hlen]

/-- the 64-bit phase before the point, on `digits [. digits]` -/
theorem dec64_false_digits : ∀ (W : List Char) (data : Nat) (has : Bool) (F : List Char), W.all Char.isDigit = true →
    F.all Char.isDigit = true → (W ≠ [] ∨ has = true) → foldMant data (W ++ F) < overflowU96 → F.length ≤ 28 →
    dec64 false has data 0 (W ++ dotTail F) = some ⟨false, foldMant data (W ++ F), F.length⟩ := by
  intro W
  induction W with
  | nil =>
    intro data has F _ hF hW hlt hlen
    have hh : has = true := by rcases hW with h | h; exact absurd rfl h; exact h
    subst hh
    cases F with
    | nil => simp [dotTail_nil, dec64, handleData]
    | cons f fs =>
      simp only [List.nil_append, dotTail_cons]
      rw [dec64]
      have : ('.' : Char).isDigit = false := by decide
      simp only [this, Bool.false_eq_true, if_false, beq_self_eq_true, Bool.not_false, Bool.and_self, if_true]
      rw [dec64_true_digits _ _ _ _ hF (by simp) (by simpa using hlt) (by omega)]
      simp
  | cons b bytes ih =>
    intro data has F hd hF _ hlt hlen
    simp only [List.all_cons, Bool.and_eq_true] at hd
    simp only [List.cons_append] at hlt ⊢
    rw [foldMant_cons] at hlt ⊢
    rw [dec64]
    simp only [hd.1, if_true, Bool.false_and, Bool.false_eq_true, if_false]
    cases hb : bytes ++ dotTail F with
    | nil =>
      have h1 : bytes = [] := (List.append_eq_nil_iff.mp hb).1
      have h2 : F = [] := by
        have := (List.append_eq_nil_iff.mp hb).2
        cases F with
        | nil => rfl
        | cons _ _ => simp [dotTail_cons] at this
      subst h1; subst h2
      simp [handleData]
    | cons nb rest =>
      simp only []
      split
      · rw [← hb, full128_false_digits _ _ _ hd.2 hF hlt hlen]
      · rw [← hb, ih _ true _ hd.2 hF (Or.inr rfl) hlt hlen]

/-- **`Decimal::from_str` reads `digits [. digits]` as written** when the digits fit 96 bits and there are at most 28
decimals. -/
theorem decFromStr_digits (W F : List Char) (hW : W.all Char.isDigit = true) (hne : W ≠ []) (hF : F.all Char.isDigit = true)
    (hlt : foldMant 0 (W ++ F) < 2 ^ 96) (hlen : F.length ≤ 28) :
    decFromStr (W ++ dotTail F) = some ⟨false, foldMant 0 (W ++ F), F.length⟩ :=
  dec64_false_digits W 0 false F hW hF (Or.inl hne) hlt hlen

/-! ## the printed magnitude -/

/-- the shape of `Display for Decimal` without sign: integer digits (at least one), then `.` and exactly `scale` digits -/
theorem printMagnitude_shape (d : Dec) :
    ∃ W F, printMagnitude d = W ++ dotTail F ∧ W.all Char.isDigit = true ∧ W ≠ [] ∧ F.all Char.isDigit = true ∧
      F.length = d.scale ∧ foldMant 0 (W ++ F) = d.mant := by
  have hC : (padZeros d.scale (digits0 d.mant)).all Char.isDigit = true := padZeros_all _ _ (digits0_all _)
  have hlen : d.scale ≤ (padZeros d.scale (digits0 d.mant)).length := by rw [padZeros_length]; omega
  have hm : foldMant 0 (padZeros d.scale (digits0 d.mant)) = d.mant := by rw [foldMant_padZeros, foldMant_digits0]
  have hwf := whole_append_frac (padZeros d.scale (digits0 d.mant)) d.scale
  have hwa := wholeOf_all _ d.scale hC
  have hfa := fracOf_all _ d.scale hC
  have hfl := fracOf_length _ _ hlen
  have hp : printMagnitude d = (if (wholeOf (padZeros d.scale (digits0 d.mant)) d.scale).isEmpty then ['0']
       else wholeOf (padZeros d.scale (digits0 d.mant)) d.scale) ++
      dotTail (fracOf (padZeros d.scale (digits0 d.mant)) d.scale) := by
    unfold printMagnitude
    rw [printPlain_eq]
    simp [signText]
  generalize wholeOf (padZeros d.scale (digits0 d.mant)) d.scale = whole at *
  generalize fracOf (padZeros d.scale (digits0 d.mant)) d.scale = frac at *
  cases whole with
  | nil =>
    refine ⟨['0'], frac, ?_, by decide, by simp, hfa, hfl, ?_⟩
    · simpa using hp
    · rw [← hm, ← hwf]; simp [foldMant_cons, digitVal]
  | cons c W' =>
    refine ⟨c :: W', frac, ?_, hwa, by simp, hfa, hfl, ?_⟩
    · simpa using hp
    · rw [hwf, hm]

/-- `parse_decimal` reads the printed magnitude back -/
theorem decFromStr_printMagnitude (d : Dec) (h : canonMag d = true) :
    decFromStr (printMagnitude d) = some ⟨false, d.mant, d.scale⟩ := by
  obtain ⟨W, F, hp, hW, hne, hF, hlen, hm⟩ := printMagnitude_shape d
  simp only [canonMag, Bool.and_eq_true, decide_eq_true_eq] at h
  rw [hp, decFromStr_digits W F hW hne hF (by rw [hm]; exact h.1) (by omega), hm, hlen]

/-! ## grouping with `'` -/

theorem isDigit_ne_quote {c : Char} (h : c.isDigit = true) : (c != '\'') = true := by
  simp only [Char.isDigit, Bool.and_eq_true, decide_eq_true_eq] at h
  have : c ≠ '\'' := by
    intro hc; subst hc; revert h; decide
  simpa using this

theorem isDigit_isNumChar {c : Char} (h : c.isDigit = true) : isNumChar c = true := by simp [isNumChar, h]
theorem isDigit_isRateChar {c : Char} (h : c.isDigit = true) : isRateChar c = true := by simp [isRateChar, h]

theorem groupQuotes_filter : ∀ (W : List Char), W.all Char.isDigit = true → (groupQuotes W).filter (· != '\'') = W := by
  intro W
  induction W with
  | nil => intro _; rfl
  | cons c rest ih =>
    intro h
    simp only [List.all_cons, Bool.and_eq_true] at h
    have hc := isDigit_ne_quote h.1
    rw [groupQuotes]
    split
    · simp [List.filter_cons, hc, ih h.2]
    · simp [List.filter_cons, hc, ih h.2]

theorem groupQuotes_all : ∀ (W : List Char), W.all Char.isDigit = true → (groupQuotes W).all isNumChar = true := by
  intro W
  induction W with
  | nil => intro _; rfl
  | cons c rest ih =>
    intro h
    simp only [List.all_cons, Bool.and_eq_true] at h
    rw [groupQuotes]
    split
    · have hq : isNumChar '\'' = true := by decide
      simp only [List.all_cons, isDigit_isNumChar h.1, hq, ih h.2, Bool.and_self]
    · simp only [List.all_cons, isDigit_isNumChar h.1, ih h.2, Bool.and_self]

theorem groupQuotes_ne_nil : ∀ (W : List Char), W ≠ [] → groupQuotes W ≠ [] := by
  intro W h
  cases W with
  | nil => exact absurd rfl h
  | cons c rest => rw [groupQuotes]; split <;> simp

/-- a text that ends in an ASCII digit -/
def EndsDigit (s : List Char) : Prop := ∃ pre c, s = pre ++ [c] ∧ c.isDigit = true

theorem endsDigit_of_all : ∀ (W : List Char), W ≠ [] → W.all Char.isDigit = true → EndsDigit W := by
  intro W hne h
  refine ⟨W.dropLast, W.getLast hne, (List.dropLast_concat_getLast hne).symm, ?_⟩
  exact List.all_eq_true.mp h _ (List.getLast_mem hne)

theorem endsDigit_append {a s : List Char} (h : EndsDigit s) : EndsDigit (a ++ s) := by
  obtain ⟨pre, c, hs, hc⟩ := h
  exact ⟨a ++ pre, c, by rw [hs, List.append_assoc], hc⟩

theorem groupQuotes_endsDigit : ∀ (W : List Char), W ≠ [] → W.all Char.isDigit = true → EndsDigit (groupQuotes W) := by
  intro W
  induction W with
  | nil => intro h; exact absurd rfl h
  | cons c rest ih =>
    intro _ h
    simp only [List.all_cons, Bool.and_eq_true] at h
    rw [groupQuotes]
    cases rest with
    | nil => simp; exact ⟨[], c, rfl, h.1⟩
    | cons r rs =>
      have := ih (by simp) h.2
      split
      · exact endsDigit_append (a := [c, '\'']) this
      · exact endsDigit_append (a := [c]) this

theorem dotTail_endsDigit {F : List Char} (hne : F ≠ []) (h : F.all Char.isDigit = true) : EndsDigit (dotTail F) := by
  cases F with
  | nil => exact absurd rfl hne
  | cons f fs => rw [dotTail_cons]; exact endsDigit_append (a := ['.']) (endsDigit_of_all _ (by simp) h)

theorem takeWhile_noDot (W F : List Char) (hW : W.all Char.isDigit = true) :
    (W ++ dotTail F).takeWhile (· != '.') = W ∧ (W ++ dotTail F).dropWhile (· != '.') = dotTail F := by
  have hnd : ∀ a ∈ W, (a != '.') = true := noDot_of_digits hW
  constructor
  · rw [List.takeWhile_append_of_pos hnd]
    cases F with
    | nil => simp [dotTail_nil]
    | cons f fs => simp [dotTail_cons]
  · rw [List.dropWhile_append_of_pos hnd]
    cases F with
    | nil => simp [dotTail_nil]
    | cons f fs => simp [dotTail_cons]

/-- the shape of the grouped magnitude -/
theorem printGrouped_shape (d : Dec) :
    ∃ W F, printMagnitude d = W ++ dotTail F ∧ printGrouped d = groupQuotes W ++ dotTail F ∧ W.all Char.isDigit = true ∧ W ≠ [] ∧
      F.all Char.isDigit = true ∧ F.length = d.scale ∧ foldMant 0 (W ++ F) = d.mant := by
  obtain ⟨W, F, hp, hW, hne, hF, hlen, hm⟩ := printMagnitude_shape d
  refine ⟨W, F, hp, ?_, hW, hne, hF, hlen, hm⟩
  unfold printGrouped
  simp only []
  rw [hp, (takeWhile_noDot W F hW).1, (takeWhile_noDot W F hW).2]

theorem dotTail_filter_quote {F : List Char} (h : F.all Char.isDigit = true) : (dotTail F).filter (· != '\'') = dotTail F := by
  cases F with
  | nil => rfl
  | cons f fs =>
    rw [dotTail_cons]
    have : ('.' != '\'') = true := by decide
    rw [List.filter_cons, if_pos this]
    congr 1
    rw [List.filter_eq_self]
    intro a ha
    exact isDigit_ne_quote (List.all_eq_true.mp h a ha)

theorem dotTail_all_numChar {F : List Char} (h : F.all Char.isDigit = true) : (dotTail F).all isNumChar = true := by
  cases F with
  | nil => rfl
  | cons f fs =>
    rw [dotTail_cons, List.all_cons]
    have : isNumChar '.' = true := by decide
    rw [this, Bool.true_and, List.all_eq_true]
    intro a ha
    exact isDigit_isNumChar (List.all_eq_true.mp h a ha)

theorem dotTail_all_rateChar {F : List Char} (h : F.all Char.isDigit = true) : (dotTail F).all isRateChar = true := by
  cases F with
  | nil => rfl
  | cons f fs =>
    rw [dotTail_cons, List.all_cons]
    have : isRateChar '.' = true := by decide
    rw [this, Bool.true_and, List.all_eq_true]
    intro a ha
    exact isDigit_isRateChar (List.all_eq_true.mp h a ha)

/-- **`parse_decimal` reads the grouped magnitude back** (the `'` are removed first) -/
theorem parseDecimal_printGrouped (d : Dec) (h : canonMag d = true) :
    parseDecimal (printGrouped d) = some ⟨false, d.mant, d.scale⟩ := by
  obtain ⟨W, F, hp, hg, hW, hne, hF, hlen, hm⟩ := printGrouped_shape d
  unfold parseDecimal
  rw [hg, List.filter_append, groupQuotes_filter W hW, dotTail_filter_quote hF, ← hp]
  exact decFromStr_printMagnitude d h

theorem parseDecimal_printMagnitude (d : Dec) (h : canonMag d = true) :
    parseDecimal (printMagnitude d) = some ⟨false, d.mant, d.scale⟩ := by
  obtain ⟨W, F, hp, hW, hne, hF, hlen, hm⟩ := printMagnitude_shape d
  unfold parseDecimal
  have : (printMagnitude d).filter (· != '\'') = printMagnitude d := by
    rw [hp, List.filter_append, dotTail_filter_quote hF]
    congr 1
    rw [List.filter_eq_self]
    intro a ha
    exact isDigit_ne_quote (List.all_eq_true.mp hW a ha)
  rw [this]
  exact decFromStr_printMagnitude d h

theorem printGrouped_all (d : Dec) : (printGrouped d).all isNumChar = true := by
  obtain ⟨W, F, _, hg, hW, _, hF, _, _⟩ := printGrouped_shape d
  rw [hg, List.all_append, groupQuotes_all W hW, dotTail_all_numChar hF]; rfl

theorem printGrouped_ne_nil (d : Dec) : printGrouped d ≠ [] := by
  obtain ⟨W, F, _, hg, _, hne, _, _, _⟩ := printGrouped_shape d
  rw [hg]
  intro h
  exact groupQuotes_ne_nil W hne (List.append_eq_nil_iff.mp h).1

theorem printGrouped_endsDigit (d : Dec) : EndsDigit (printGrouped d) := by
  obtain ⟨W, F, _, hg, hW, hne, hF, _, _⟩ := printGrouped_shape d
  rw [hg]
  cases F with
  | nil => simpa [dotTail_nil] using groupQuotes_endsDigit W hne hW
  | cons f fs => exact endsDigit_append (dotTail_endsDigit (by simp) hF)

theorem printMagnitude_all (d : Dec) : (printMagnitude d).all isRateChar = true := by
  obtain ⟨W, F, hp, hW, _, hF, _, _⟩ := printMagnitude_shape d
  rw [hp, List.all_append, dotTail_all_rateChar hF, Bool.and_true, List.all_eq_true]
  intro a ha
  exact isDigit_isRateChar (List.all_eq_true.mp hW a ha)

theorem printMagnitude_ne_nil (d : Dec) : printMagnitude d ≠ [] := by
  obtain ⟨W, F, hp, _, hne, _, _, _⟩ := printMagnitude_shape d
  rw [hp]
  intro h
  exact hne (List.append_eq_nil_iff.mp h).1

/-! ## dates -/

theorem digitChar_lt_isDigit (k : Nat) (h : k < 10) : (digitChar k).isDigit = true := digitChar_isDigit k h

theorem isDigit_isUniDigit {c : Char} (h : c.isDigit = true) : isUniDigit c = true := by simp [isUniDigit, h]

theorem isDigit_isDot {c : Char} (h : c.isDigit = true) : isDot c = true := by
  simp only [Char.isDigit, Bool.and_eq_true, decide_eq_true_eq] at h
  have : c ≠ '\n' := by intro hc; subst hc; revert h; decide
  simpa [isDot] using this

theorem twoDigits_spec (n : Nat) :
    ∃ a b, twoDigits n = [a, b] ∧ a.isDigit = true ∧ b.isDigit = true ∧ digitVal a * 10 + digitVal b = n % 100 := by
  refine ⟨digitChar (n / 10 % 10), digitChar (n % 10), rfl, digitChar_isDigit _ (Nat.mod_lt _ (by decide)),
    digitChar_isDigit _ (Nat.mod_lt _ (by decide)), ?_⟩
  rw [digitVal_digitChar _ (Nat.mod_lt _ (by decide)), digitVal_digitChar _ (Nat.mod_lt _ (by decide))]
  omega

theorem daysInMonth_le (y : Int) (m : Nat) : Date.daysInMonth y m ≤ 31 := by
  unfold Date.daysInMonth
  split <;> try omega
  split <;> omega

/-- the printed date has the shape `\d{2}.\d{2}.\d{2}` … -/
theorem dateShape_printEuroDate (d : Date) (rest : List Char) :
    dateShape (printEuroDate d ++ rest) = some (printEuroDate d, rest) := by
  obtain ⟨a, b, h1, ha, hb, _⟩ := twoDigits_spec d.d
  obtain ⟨c, e, h2, hc, he, _⟩ := twoDigits_spec d.m
  obtain ⟨f, g, h3, hf, hg, _⟩ := twoDigits_spec (d.y.toNat % 100)
  have hdot : isDot '.' = true := by decide
  simp [printEuroDate, h1, h2, h3, dateShape, isDigit_isUniDigit, ha, hb, hc, he, hf, hg, hdot]

/-- … and `parse_euro_date` reads it back, for an existing date in the window of two-digit years -/
theorem parseEuroDate_printEuroDate (d : Date) (h : canonDate d = true) : parseEuroDate (printEuroDate d) = some d := by
  obtain ⟨a, b, h1, ha, hb, v1⟩ := twoDigits_spec d.d
  obtain ⟨c, e, h2, hc, he, v2⟩ := twoDigits_spec d.m
  obtain ⟨f, g, h3, hf, hg, v3⟩ := twoDigits_spec (d.y.toNat % 100)
  simp only [canonDate, Bool.and_eq_true, decide_eq_true_eq] at h
  obtain ⟨⟨hv, hy1⟩, hy2⟩ := h
  have hvalid := hv
  simp only [Date.valid, Bool.and_eq_true, decide_eq_true_eq] at hv
  have hd31 := daysInMonth_le d.y d.m
  have e1 : digitVal a * 10 + digitVal b = d.d := by omega
  have e2 : digitVal c * 10 + digitVal e = d.m := by omega
  have e3 : ((if digitVal f * 10 + digitVal g < 70 then 2000 + (digitVal f * 10 + digitVal g)
      else 1900 + (digitVal f * 10 + digitVal g) : Nat) : Int) = d.y := by
    split <;> omega
  have hd : (⟨d.y, d.m, d.d⟩ : Date) = d := by cases d; rfl
  simp only [printEuroDate, h1, h2, h3, List.cons_append, List.nil_append, parseEuroDate, ha, hb, hc, he, hf, hg,
    beq_self_eq_true, Bool.and_self, if_true, e1, e2, e3, hd, hvalid]
