import Okane.Model.ImportCamtXml
/-!
# Laws of the struct walker (`CamtXml.walk`): what serde-derived visitors over quick-xml make of the children of an element

* `walk_append`            — the walk is a left-to-right pass with the open list as only memory.
* `walk_unknown_ignored`   — **unknown elements are ignored, exactly where no list is being read**: an element whose key the
  struct does not know (and whose first event can be decoded) may be inserted wherever the walk is not inside a run of list
  items; `walk_unknown_after_list` is the law for the other case (it *ends* the run: harmless exactly when the next child
  would have ended it, too); `walk_unknown_breaks_list` is the counterpart: between two items of the same list it is an error.
* `walk_swap`              — **the order of distinct scalar fields is irrelevant** (for successful decoding; the error *class*
  may differ when both orders fail).
* `walk_congr`             — a child may be replaced by one that decodes alike (this is what carries the laws to any depth).
-/
namespace Okane.Import.CamtXml
open Okane Okane.Xml Okane.Import

variable {σ : Type}

@[simp] theorem walk_nil (sp : Spec σ) (st : σ) (o : Option String) : walk sp st o [] = .ok (st, o) := by
  simp [walk]

theorem walk_append (sp : Spec σ) : ∀ (l₁ l₂ : List Node) (st : σ) (o : Option String),
    walk sp st o (l₁ ++ l₂) =
      match walk sp st o l₁ with
      | .ok (st', o') => walk sp st' o' l₂
      | .error e => .error e := by
  intro l₁
  induction l₁ with
  | nil => intro l₂ st o; simp
  | cons n rest ih =>
    intro l₂ st o
    cases n with
    | badText => simp [walk, bad]
    | text s =>
      cases o with
      | none => simp only [List.cons_append, walk]; exact ih l₂ st none
      | some q => simp [walk, bad]
    | elem q a kids =>
      simp only [List.cons_append, walk]
      split
      · cases h : sp.onItem st (lname q) a kids with
        | ok st' => simp only []; exact ih l₂ st' o
        | error e => simp
      · cases h : sp.onElem st (lname q) a kids with
        | ok st' => simp only []; exact ih l₂ st' _
        | error e => simp

/-- the struct does not know the key `k`: the element is skipped -/
def Spec.Unknown (sp : Spec σ) (k : String) : Prop :=
  sp.isList k = false ∧ ∀ st a kids, sp.onElem st k a kids = (skipElem kids).map fun _ => st

/-- an unknown element whose content does not start with an undecodable text -/
def Skippable (sp : Spec σ) : Node → Prop
  | .elem q _ kids => sp.Unknown (lname q) ∧ skipElem kids = .ok ()
  | _ => False

theorem walk_unknown_head (sp : Spec σ) (u : Node) (hu : Skippable sp u) (st : σ) (post : List Node) :
    walk sp st none (u :: post) = walk sp st none post := by
  cases u with
  | elem q a kids =>
    obtain ⟨⟨hl, he⟩, hk⟩ := hu
    simp [walk, he, hk, hl, Except.map]
  | text s => exact absurd hu (by simp [Skippable])
  | badText => exact absurd hu (by simp [Skippable])

/-- **Unknown elements are ignored** wherever the walk is not inside a run of list items. -/
theorem walk_unknown_ignored (sp : Spec σ) (u : Node) (hu : Skippable sp u) (pre post : List Node) (st st' : σ)
    (o : Option String) (hpre : walk sp st o pre = .ok (st', none)) :
    walk sp st o (pre ++ u :: post) = walk sp st o (pre ++ post) := by
  rw [walk_append, walk_append, hpre]
  exact walk_unknown_head sp u hu st' post

/-- what the next child does to an open list `q`: `true` when it ends the run without error -/
def endsRun (q : String) : List Node → Bool
  | [] => true
  | .elem q' _ _ :: _ => q' != q
  | _ => false

/-- an unknown element directly behind a list item ends the run; that changes nothing when the next child (another
element, or the end tag) would have ended it as well. -/
theorem walk_unknown_after_list (sp : Spec σ) (u : Node) (hu : Skippable sp u) (pre post : List Node) (st st' : σ)
    (o : Option String) (q : String) (hpre : walk sp st o pre = .ok (st', some q)) (hq : ∀ a k, u ≠ .elem q a k)
    (hpost : endsRun q post = true) :
    walk sp st o (pre ++ u :: post) = (walk sp st o (pre ++ post)).map fun r => (r.1, if post.isEmpty then none else r.2) := by
  rw [walk_append, walk_append, hpre]
  cases u with
  | text s => exact absurd hu (by simp [Skippable])
  | badText => exact absurd hu (by simp [Skippable])
  | elem qu a kids =>
    obtain ⟨⟨hl, he⟩, hk⟩ := hu
    have hne : (some q == some qu) = false := by
      have : qu ≠ q := fun h => hq a kids (by rw [h])
      simp [Ne.symm this]
    cases post with
    | nil => simp [walk, hne, he, hk, hl, Except.map]
    | cons p rest =>
      cases p with
      | text s => simp [endsRun] at hpost
      | badText => simp [endsRun] at hpost
      | elem q' a' k' =>
        have hne' : (some q == some q') = false := by
          simp only [endsRun, bne_iff_ne, ne_eq] at hpost
          simp [Ne.symm hpost]
        simp only [walk, hne, hne', he, hk, hl, Except.map, Bool.false_eq_true, if_false]
        cases sp.onElem st' (lname q') a' k' with
        | error e => simp
        | ok st2 =>
          simp only []
          cases walk sp st2 (if sp.isList (lname q') = true then some q' else none) rest <;> simp

/-- `TagFilter::Include` without `overlapped-lists`: an unknown element **between two items of the same list** makes the
second item a duplicate key.  (`hdup`: the struct refuses the key of a list field that is already filled.) -/
theorem walk_unknown_breaks_list (sp : Spec σ) (u : Node) (hu : Skippable sp u) (st : σ) (q a kids) (post : List Node)
    (hq : ∀ a k, u ≠ .elem q a k) (hdup : ∀ e, sp.onElem st (lname q) a kids ≠ .ok e) :
    ∀ r, walk sp st (some q) (u :: .elem q a kids :: post) ≠ .ok r := by
  intro r
  cases u with
  | text s => exact absurd hu (by simp [Skippable])
  | badText => exact absurd hu (by simp [Skippable])
  | elem qu au ku =>
    obtain ⟨⟨hl, he⟩, hk⟩ := hu
    have hne : (some q == some qu) = false := by
      have : qu ≠ q := fun h => hq au ku (by rw [h])
      simp [Ne.symm this]
    simp only [walk, hne, he, hk, hl, Except.map, Bool.false_eq_true, if_false]
    have : ((none : Option String) == some q) = false := by simp
    simp only [this, Bool.false_eq_true, if_false]
    cases h : sp.onElem st (lname q) a kids with
    | error e => simp
    | ok e => exact absurd h (hdup e)

/-- two scalar children in a row -/
theorem walk_two (sp : Spec σ) (q₁ a₁ k₁ q₂ a₂ k₂) (post : List Node) (st : σ) (o : Option String)
    (ho₁ : o ≠ some q₁) (hl₁ : sp.isList (lname q₁) = false) (hl₂ : sp.isList (lname q₂) = false) :
    walk sp st o (.elem q₁ a₁ k₁ :: .elem q₂ a₂ k₂ :: post) =
      ((sp.onElem st (lname q₁) a₁ k₁ >>= fun s => sp.onElem s (lname q₂) a₂ k₂) >>= fun s => walk sp s none post) := by
  have h1 : (o == some q₁) = false := by simpa using ho₁
  have n2 : ((none : Option String) == some q₂) = false := by simp
  simp only [walk, h1, n2, hl₁, hl₂, Bool.false_eq_true, if_false]
  cases sp.onElem st (lname q₁) a₁ k₁ with
  | error e => rfl
  | ok s1 =>
    simp only [bind, Except.bind]
    cases sp.onElem s1 (lname q₂) a₂ k₂ <;> rfl

/-- **Order of distinct fields.**  Two neighbouring elements that are not items of the list being read may be swapped,
provided the struct's reactions to their keys commute on success (which they do when the keys are different fields, see
`entry_fields_commute`) and neither opens a list. -/
theorem walk_swap (sp : Spec σ) (q₁ a₁ k₁ q₂ a₂ k₂) (post : List Node) (st : σ) (o : Option String)
    (ho₁ : o ≠ some q₁) (ho₂ : o ≠ some q₂) (hl₁ : sp.isList (lname q₁) = false) (hl₂ : sp.isList (lname q₂) = false)
    (hcomm : ∀ r, (sp.onElem st (lname q₁) a₁ k₁ >>= fun s => sp.onElem s (lname q₂) a₂ k₂) = .ok r ↔
                  (sp.onElem st (lname q₂) a₂ k₂ >>= fun s => sp.onElem s (lname q₁) a₁ k₁) = .ok r) :
    ∀ r, walk sp st o (.elem q₁ a₁ k₁ :: .elem q₂ a₂ k₂ :: post) = .ok r ↔
         walk sp st o (.elem q₂ a₂ k₂ :: .elem q₁ a₁ k₁ :: post) = .ok r := by
  intro r
  rw [walk_two sp q₁ a₁ k₁ q₂ a₂ k₂ post st o ho₁ hl₁ hl₂, walk_two sp q₂ a₂ k₂ q₁ a₁ k₁ post st o ho₂ hl₂ hl₁]
  generalize (sp.onElem st (lname q₁) a₁ k₁ >>= fun s => sp.onElem s (lname q₂) a₂ k₂) = A at hcomm ⊢
  generalize (sp.onElem st (lname q₂) a₂ k₂ >>= fun s => sp.onElem s (lname q₁) a₁ k₁) = B at hcomm ⊢
  cases A with
  | error e =>
    cases B with
    | error e' => simp [bind, Except.bind]
    | ok b => exact absurd ((hcomm b).mpr rfl) (by simp)
  | ok a =>
    have hb := (hcomm a).mp rfl
    subst hb
    rfl

/-- two children decode alike under `sp` -/
def Alike (sp : Spec σ) : Node → Node → Prop
  | .elem q a k, .elem q' a' k' =>
    q = q' ∧ (∀ st, sp.onElem st (lname q) a k = sp.onElem st (lname q) a' k') ∧
             (∀ st, sp.onItem st (lname q) a k = sp.onItem st (lname q) a' k')
  | .text _, .text _ => True
  | .badText, .badText => True
  | _, _ => False

/-- child lists that decode alike, child by child -/
inductive AlikeAll (sp : Spec σ) : List Node → List Node → Prop
  | nil : AlikeAll sp [] []
  | cons {n n' : Node} {l l' : List Node} : Alike sp n n' → AlikeAll sp l l' → AlikeAll sp (n :: l) (n' :: l')

/-- **Congruence**: replacing children by children that decode alike does not change the walk.  With the per-struct
decoders as `onElem` / `onItem` this carries every law of this file to any depth of the document. -/
theorem walk_congr (sp : Spec σ) : ∀ (l l' : List Node), AlikeAll sp l l' → ∀ st o, walk sp st o l = walk sp st o l' := by
  intro l l' h
  induction h with
  | nil => intro st o; rfl
  | @cons n n' r r' hn _ ih =>
    intro st o
    cases n with
    | elem q a k =>
      cases n' with
      | elem q' a' k' =>
        obtain ⟨hq, he, hi⟩ := hn
        subst hq
        simp only [walk]
        split
        · rw [hi]; cases sp.onItem st _ _ _ <;> simp [ih]
        · rw [he]; cases sp.onElem st _ _ _ <;> simp [ih]
      | text s => exact absurd hn (by simp [Alike])
      | badText => exact absurd hn (by simp [Alike])
    | text s =>
      cases n' with
      | text s' => cases o <;> simp [walk, ih]
      | elem q' a' k' => exact absurd hn (by simp [Alike])
      | badText => exact absurd hn (by simp [Alike])
    | badText =>
      cases n' with
      | badText => simp [walk]
      | elem q' a' k' => exact absurd hn (by simp [Alike])
      | text s => exact absurd hn (by simp [Alike])

end Okane.Import.CamtXml
