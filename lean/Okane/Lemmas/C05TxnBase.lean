import Okane.Lemmas.C05Round
/-!
# Round trip of transactions (C05), part 1: dates, clear state, metadata lines (all three kinds), metadata blocks
-/
set_option linter.unusedSimpArgs false
namespace Okane.Unparse
open Okane Okane.Comb Okane.Parse

/-! ## list facts -/

theorem dropWhile_idem (p : Char → Bool) (l : List Char) : (l.dropWhile p).dropWhile p = l.dropWhile p := by
  induction l with
  | nil => rfl
  | cons c t ih =>
    by_cases h : p c = true
    · simp [List.dropWhile, h, ih]
    · simp [List.dropWhile, h]

theorem dropWhile_of_stop {p : Char → Bool} {l : List Char} (h : Stop p l) : l.dropWhile p = l := by
  cases l with
  | nil => rfl
  | cons c t => simp [List.dropWhile, (Stop_cons p c t).1 h]

theorem stop_dropWhile (p : Char → Bool) (l : List Char) : Stop p (l.dropWhile p) := by
  induction l with
  | nil => simp
  | cons c t ih =>
    by_cases h : p c = true
    · simpa [List.dropWhile, h] using ih
    · simp [List.dropWhile, h]

theorem space0_eq (X : List Char) : space0 X = .ok (X.takeWhile isSpace) (X.dropWhile isSpace) := rfl

theorem spaces_all (n : Nat) : ∀ c ∈ spaces n, isSpace c = true := by
  intro c hc
  simp [spaces] at hc
  simp [hc.2, isSpace]

theorem dropWhile_spaces_append (n : Nat) (X : List Char) :
    (spaces n ++ X).dropWhile isSpace = X.dropWhile isSpace := by
  induction n with
  | zero => simp [spaces]
  | succ n ih =>
    simp only [spaces, List.replicate_succ, List.cons_append] at ih ⊢
    simp [List.dropWhile, isSpace]
    simpa [isSpace] using ih

/-! ## dates -/

/-- `Date.pad` on character lists -/
def padL (n w : Nat) : List Char := List.replicate (w - (Nat.toDigits 10 n).length) '0' ++ Nat.toDigits 10 n

theorem pad_toList (n w : Nat) : (Date.pad n w).toList = padL n w := by
  simp [Date.pad, padL, Nat.repr_eq_ofList_toDigits]

theorem digitsVal_eq (l : List Char) : digitsVal l = Nat.ofDigitChars 10 l 0 := by
  unfold digitsVal Nat.ofDigitChars
  congr 1
  funext n c
  simp [Nat.mul_comm]

theorem digitsVal_padL (n w : Nat) : digitsVal (padL n w) = n := by
  rw [digitsVal_eq, padL, Nat.ofDigitChars_append]
  simp

theorem padL_digits (n w : Nat) : ∀ c ∈ padL n w, c.isDigit = true := by
  intro c hc
  simp only [padL, List.mem_append, List.mem_replicate] at hc
  rcases hc with ⟨_, rfl⟩ | hc
  · decide
  · exact Nat.isDigit_of_mem_toDigits (by decide) (by decide) hc

theorem padL_ne_nil (n w : Nat) : padL n w ≠ [] := by
  simp [padL]

theorem padL_length (n w k : Nat) (hk : 0 < k) (hw : w ≤ k) (hn : n < 10 ^ k) : (padL n w).length ≤ k := by
  have := (Nat.length_toDigits_le_iff (b := 10) (n := n) (k := k) (by decide) hk).2 hn
  simp only [padL, List.length_append, List.length_replicate]
  omega

theorem printDate_eq (d : Date) (hy : 0 ≤ d.y) :
    printDate d = padL d.y.natAbs 4 ++ '/' :: (padL d.m 2 ++ '/' :: padL d.d 2) := by
  have : ¬ d.y < 0 := by omega
  simp [printDate, Date.fmtSlash, this, pad_toList, String.toList_append]

theorem digit1_padL (n w : Nat) (X : List Char) (hX : Stop Char.isDigit X) :
    digit1 (padL n w ++ X) = .ok (padL n w) X :=
  takeWhile1_append (padL_ne_nil n w) (padL_digits n w) hX

theorem daysInMonth_le (y : Int) (m : Nat) : Date.daysInMonth y m ≤ 31 := by
  unfold Date.daysInMonth
  split <;> try omega
  split <;> omega

/-- `primitive::date` reads back a printed date (year 0 … 9999) when no digit follows -/
theorem date_rt (d : Date) (hd : wfDate d = true) (X : List Char) (hX : Stop Char.isDigit X) :
    date (printDate d ++ X) = .ok d X := by
  simp only [wfDate, Bool.and_eq_true, decide_eq_true_eq] at hd
  obtain ⟨⟨hv, hy0⟩, hy1⟩ := hd
  have hv' := hv
  simp only [Date.valid, Bool.and_eq_true, decide_eq_true_eq] at hv'
  obtain ⟨⟨⟨hm1, hm2⟩, hd1⟩, hd2⟩ := hv'
  have hd3 := daysInMonth_le d.y d.m
  rw [printDate_eq d hy0]
  have h1 := digit1_padL d.y.natAbs 4 ('/' :: (padL d.m 2 ++ '/' :: (padL d.d 2 ++ X))) (by simp)
  have h2 := digit1_padL d.m 2 ('/' :: (padL d.d 2 ++ X)) (by simp)
  have h3 := digit1_padL d.d 2 X hX
  have hshape : dateShape '/' (padL d.y.natAbs 4 ++ '/' :: (padL d.m 2 ++ '/' :: padL d.d 2) ++ X) =
      .ok (padL d.y.natAbs 4, padL d.m 2, padL d.d 2) X := by
    simp only [List.append_assoc, List.cons_append]
    simp [dateShape, h1, h2, h3]
  have hl1 : (padL d.y.natAbs 4).length ≤ 4 := padL_length _ 4 4 (by omega) (by omega) (by omega)
  have hl2 : (padL d.m 2).length ≤ 2 := padL_length _ 2 2 (by omega) (by omega) (by omega)
  have hl3 : (padL d.d 2).length ≤ 2 := padL_length _ 2 2 (by omega) (by omega) (by omega)
  have hdt : (⟨(d.y.natAbs : Int), d.m, d.d⟩ : Date) = d := by
    cases d with
    | mk y m dd => simp at hy0 ⊢; omega
  have hof : dateOf (padL d.y.natAbs 4) (padL d.m 2) (padL d.d 2) = some d := by
    simp [dateOf, hl1, hl2, hl3, digitsVal_padL, hdt, hv]
  simp only [List.append_assoc, List.cons_append] at hshape
  simp [date, tryMap, alt2, hshape, hof]

/-- a printed date begins with a digit -/
theorem printDate_head (d : Date) (hy : 0 ≤ d.y) : ∃ c r, printDate d = c :: r ∧ c.isDigit = true := by
  rw [printDate_eq d hy]
  cases h : padL d.y.natAbs 4 with
  | nil => exact absurd h (padL_ne_nil _ _)
  | cons c t =>
    exact ⟨c, _, rfl, padL_digits d.y.natAbs 4 c (by simp [h])⟩


/-! ## clear state -/

def isClearMark (c : Char) : Bool := c == '*' || c == '!'

/-- `clear_state` reads back the printed mark; the text that follows does not begin with a blank, and not with a
mark when nothing was printed -/
theorem clearState_rt (c : ClearState) (X : List Char) (hX : Stop isSpace X)
    (hm : c = .uncleared → Stop isClearMark X) : clearState (printClear c ++ X) = .ok c X := by
  have hsp : space0 (' ' :: X) = .ok [' '] X := by
    simpa using space0_append (a := [' ']) (by simp [isSpace]) hX
  cases c with
  | uncleared =>
    have := hm rfl
    cases X with
    | nil => simp [clearState, printClear, opt, alt2, char, oneOf]
    | cons d t =>
      have hd := (Stop_cons _ d t).1 this
      simp [isClearMark] at hd
      simp [clearState, printClear, opt, alt2, char, oneOf, hd]
  | cleared => simp [clearState, printClear, opt, alt2, hsp]
  | pending => simp [clearState, printClear, opt, alt2, char_cons_ne, hsp]

/-! ## comment metadata lines: a comment is neither tag words nor a key-value pair -/

theorem takeWhile_append_of_stop {p : Char → Bool} (a : List Char) {X : List Char} (hX : Stop p X) :
    (a ++ X).takeWhile p = a.takeWhile p := by
  induction a with
  | nil =>
    cases X with
    | nil => rfl
    | cons c r => simp [List.takeWhile, (Stop_cons p c r).1 hX]
  | cons c a ih =>
    by_cases hc : p c = true
    · simp [List.takeWhile, hc, ih]
    · simp [List.takeWhile, hc]

theorem dropWhile_append_of_stop {p : Char → Bool} (a : List Char) {X : List Char} (hX : Stop p X) :
    (a ++ X).dropWhile p = a.dropWhile p ++ X := by
  induction a with
  | nil =>
    cases X with
    | nil => rfl
    | cons c r => simp [List.dropWhile, (Stop_cons p c r).1 hX]
  | cons c a ih =>
    by_cases hc : p c = true
    · simp [List.dropWhile, hc, ih]
    · simp [List.dropWhile, hc]

theorem mem_takeWhile_sat {p : Char → Bool} : ∀ (l : List Char), ∀ x ∈ l.takeWhile p, p x = true := by
  intro l
  induction l with
  | nil => simp
  | cons c t ih =>
    intro x hx
    by_cases hc : p c = true
    · simp [List.takeWhile, hc] at hx
      rcases hx with rfl | hx
      · exact hc
      · exact ih x hx
    · simp [List.takeWhile, hc] at hx

theorem tagKey_eq : tagKey = takeWhile1 isTagChar := rfl

theorem stop_tag_nl (rest : List Char) : Stop isTagChar ('\n' :: rest) := by
  simp [isTagChar, isAsciiWhitespace]

/-- what a successful tag item consumed -/
theorem tagItem_shape (r rest : List Char) :
    (∃ k r2, r = k ++ ':' :: r2 ∧ k ≠ [] ∧ (∀ c ∈ k, isTagChar c = true) ∧
      tagItem (r ++ '\n' :: rest) = .ok k (r2 ++ '\n' :: rest)) ∨
    (∃ z, tagItem (r ++ '\n' :: rest) = .bt z) := by
  have hX := stop_tag_nl rest
  have htw := takeWhile_append_of_stop r hX
  have hdw := dropWhile_append_of_stop r hX
  cases r with
  | nil =>
    right
    exact ⟨_, tagItem_nl rest⟩
  | cons c t =>
    by_cases hc : isTagChar c = true
    · have hk : tagKey ((c :: t) ++ '\n' :: rest) =
          .ok ((c :: t).takeWhile isTagChar) ((c :: t).dropWhile isTagChar ++ '\n' :: rest) := by
        rw [tagKey_eq]
        simp only [List.cons_append] at htw hdw ⊢
        simp only [takeWhile1, hc, if_true, htw, hdw]
      simp only [List.cons_append] at hk
      cases hd : (c :: t).dropWhile isTagChar with
      | nil =>
        right
        refine ⟨'\n' :: rest, ?_⟩
        simp [tagItem, hk, hd, char_cons_ne]
      | cons d r2 =>
        by_cases hdc : d = ':'
        · subst hdc
          left
          refine ⟨(c :: t).takeWhile isTagChar, r2, ?_, ?_, ?_, ?_⟩
          · rw [← hd]; exact (List.takeWhile_append_dropWhile).symm
          · simp [List.takeWhile, hc]
          · intro x hx; exact mem_takeWhile_sat _ x hx
          · simp [tagItem, hk, hd]
        · right
          refine ⟨d :: r2 ++ '\n' :: rest, ?_⟩
          simp [tagItem, hk, hd, char_cons_ne hdc]
    · right
      refine ⟨(c :: t) ++ '\n' :: rest, ?_⟩
      have : tagKey ((c :: t) ++ '\n' :: rest) = .bt ((c :: t) ++ '\n' :: rest) := by
        rw [tagKey_eq]
        simp [takeWhile1, hc]
      simp only [List.cons_append] at this
      simp [tagItem, this]


/-- "the rest of the line is tag words or nothing" -/
def tagsRest (r : List Char) : Bool := r.isEmpty || isTagWordsAux r false

theorem isTagWordsAux_word (k r2 : List Char) (hne : k ≠ []) (hk : ∀ c ∈ k, isTagChar c = true) (b : Bool) :
    isTagWordsAux (k ++ ':' :: r2) b = tagsRest r2 := by
  induction k generalizing b with
  | nil => exact absurd rfl hne
  | cons c t ih =>
    have hc := hk c (by simp)
    have hcc : c ≠ ':' := by intro e; subst e; simp [isTagChar] at hc
    have hstep : isTagWordsAux (c :: (t ++ ':' :: r2)) b = (isTagChar c && isTagWordsAux (t ++ ':' :: r2) true) := by
      rw [isTagWordsAux]
      intro e; exact absurd e hcc
    simp only [List.cons_append, hstep, hc, Bool.true_and]
    cases t with
    | nil => simp [isTagWordsAux, tagsRest]
    | cons d t' => exact ih (by simp) (fun x hx => hk x (by simp [hx])) true

theorem endTrimmed_suffix (a b : List Char) (h : endTrimmed (a ++ b) = true) : endTrimmed b = true := by
  cases b with
  | nil => rfl
  | cons c t =>
    unfold endTrimmed at h ⊢
    rw [List.getLast?_append] at h
    cases hl : (c :: t).getLast? with
    | none => simp at hl
    | some x => rw [hl] at h; simpa using h

theorem all_of_dropWhile_nil {p : Char → Bool} : ∀ (l : List Char), l.dropWhile p = [] → ∀ x ∈ l, p x = true := by
  intro l
  induction l with
  | nil => simp
  | cons c t ih =>
    intro h x hx
    by_cases hc : p c = true
    · simp [List.dropWhile, hc] at h
      rcases List.mem_cons.mp hx with rfl | hx
      · exact hc
      · exact ih h x hx
    · simp [List.dropWhile, hc] at h

theorem dropWhile_space_ne_nil {r : List Char} (hne : r ≠ []) (ht : endTrimmed r = true) :
    r.dropWhile isSpace ≠ [] := by
  intro h
  have h := all_of_dropWhile_nil r h
  unfold endTrimmed at ht
  cases hl : r.getLast? with
  | none => exact hne (List.getLast?_eq_none_iff.mp hl)
  | some c =>
    rw [hl] at ht
    have hm : c ∈ r := List.mem_of_getLast? hl
    have := h c hm
    simp [isSpace] at this
    rcases this with rfl | rfl <;> simp [isRustWhitespace] at ht

/-- after the tag words: blanks, then the end of the line is required -/
theorem tagsTail_bt (r3 rest : List Char) (hne : r3 ≠ []) (he : ∀ c ∈ r3, isEol c = false) (ht : endTrimmed r3 = true) :
    ∃ z, (space0 (r3 ++ '\n' :: rest)).andThen (fun _ r => peek lineEndingOrEof r) = .bt z := by
  have hdw := dropWhile_append_of_stop (p := isSpace) r3 (X := '\n' :: rest) (by simp [isSpace])
  cases hd : r3.dropWhile isSpace with
  | nil => exact absurd hd (dropWhile_space_ne_nil hne ht)
  | cons d t =>
    have hmem : d ∈ r3 := by
      have : d ∈ r3.dropWhile isSpace := by simp [hd]
      exact (List.dropWhile_sublist _).subset this
    have hde := he d hmem
    simp [isEol] at hde
    refine ⟨d :: (t ++ '\n' :: rest), ?_⟩
    have hl : lineEndingOrEof (d :: (t ++ '\n' :: rest)) = .bt (d :: (t ++ '\n' :: rest)) := by
      have h1 : lineEnding (d :: (t ++ '\n' :: rest)) = .bt (d :: (t ++ '\n' :: rest)) := by
        unfold lineEnding
        split <;> simp_all
      simp [lineEndingOrEof, alt2, h1, eof]
    simp [space0_eq, hdw, hd, peek, hl]

/-- the tag-word loop always ends normally, on a piece of the line that is empty only if the line was tag words -/
theorem tagLoop_total (rest : List Char) : ∀ (n : Nat) (r : List Char) (acc : List (List Char)), r.length < n →
    (∀ c ∈ r, isEol c = false) → endTrimmed r = true →
    ∃ acc' r3, repeat0Loop tagItem n (r ++ '\n' :: rest) acc = .ok acc' (r3 ++ '\n' :: rest) ∧
      (∀ c ∈ r3, isEol c = false) ∧ endTrimmed r3 = true ∧ (tagsRest r = false → r3 ≠ []) := by
  intro n
  induction n with
  | zero => intro r acc h; omega
  | succ n ih =>
    intro r acc hn he ht
    rcases tagItem_shape r rest with ⟨k, r2, hr, hkne, hk, hitem⟩ | ⟨z, hz⟩
    · have hlen : (r2 ++ '\n' :: rest).length < (r ++ '\n' :: rest).length := by
        subst hr; simp; omega
      have he2 : ∀ c ∈ r2, isEol c = false := fun c hc => he c (by subst hr; simp [hc])
      have ht2 : endTrimmed r2 = true := by
        subst hr
        have := endTrimmed_suffix (k ++ [':']) r2 (by simpa using ht)
        exact this
      obtain ⟨acc', r3, h1, h2, h3, h4⟩ := ih r2 (acc ++ [k]) (by subst hr; simp at hn; omega) he2 ht2
      refine ⟨acc', r3, ?_, h2, h3, ?_⟩
      · rw [repeat0Loop_step hitem hlen, h1]
      · intro hq
        apply h4
        subst hr
        have hB := isTagWordsAux_word k r2 hkne hk false
        simp [tagsRest, hkne] at hq
        rw [hB] at hq
        simpa [tagsRest] using hq
    · refine ⟨acc, r, repeat0Loop_stop hz, he, ht, ?_⟩
      intro hq hr
      subst hr
      simp [tagsRest] at hq

/-- `metadata_tags` followed by the end of the line fails on a line that is not exactly tag words -/
theorem metadataTags_bt_comment (s rest : List Char) (he : ∀ c ∈ s, isEol c = false) (ht : endTrimmed s = true)
    (hn : tagsLike s = false) :
    ∃ z, terminated metadataTags (peek lineEndingOrEof) (s ++ '\n' :: rest) = .bt z := by
  have hmt : metadataTags = map (fun ts => Metadata.wordTags (ts.map String.ofList))
      (delimited (char ':') (repeat1 tagItem) space0) := rfl
  cases s with
  | nil => exact ⟨'\n' :: rest, by simp [metadataTags, char_cons_ne]⟩
  | cons c r =>
    by_cases hc : c = ':'
    · subst hc
      have he1 : ∀ c ∈ r, isEol c = false := fun c hc => he c (by simp [hc])
      have ht1 : endTrimmed r = true := endTrimmed_suffix [':'] r (by simpa using ht)
      simp only [tagsLike] at hn
      rcases tagItem_shape r rest with ⟨k, r2, hr, hkne, hk, hitem⟩ | ⟨z, hz⟩
      · have he2 : ∀ c ∈ r2, isEol c = false := fun c hc => he1 c (by subst hr; simp [hc])
        have ht2 : endTrimmed r2 = true := by
          subst hr
          exact endTrimmed_suffix (k ++ [':']) r2 (by simpa using ht1)
        have hq : tagsRest r2 = false := by
          subst hr
          rw [isTagWordsAux_word k r2 hkne hk false] at hn
          exact hn
        obtain ⟨acc', r3, h1, h2, h3, h4⟩ := tagLoop_total rest ((r2 ++ '\n' :: rest).length + 1) r2 [k]
          (by simp; omega) he2 ht2
        obtain ⟨z, hz⟩ := tagsTail_bt r3 rest (h4 hq) h2 h3
        refine ⟨z, ?_⟩
        rw [hmt]
        simp only [List.cons_append, terminated_apply, map_apply, delimited_apply, char_cons_self, Res.andThen_ok,
          repeat1, hitem, h1]
        cases hsp : space0 (r3 ++ '\n' :: rest) with
        | ok a r' =>
          rw [hsp] at hz
          simp only [Res.andThen_ok] at hz
          simp [hz]
        | bt q => simp [space0_eq] at hsp
        | cut q => simp [space0_eq] at hsp
        | panic q => simp [space0_eq] at hsp
        | fuel => simp [space0_eq] at hsp
      · refine ⟨z, ?_⟩
        rw [hmt]
        simp [repeat1, hz]
    · refine ⟨c :: r ++ '\n' :: rest, ?_⟩
      have := metadataTags_bt_of_head (X := c :: r ++ '\n' :: rest) (by intro r' e; simp at e; exact hc e.1)
      simp only [List.cons_append] at this
      simp [this]

theorem metadataValue_bt {Y : List Char} (h : Y.head? ≠ some ':') : metadataValue Y = .bt Y := by
  cases Y with
  | nil => simp [metadataValue, alt2, literal]
  | cons c r =>
    have hc : c ≠ ':' := by intro e; subst e; simp at h
    have hc' : ¬ (':' = c) := fun e => hc e.symm
    simp [metadataValue, alt2, literal, char_cons_ne hc, hc, hc']

/-- `metadata_kv` fails on a line that does not look like `key:` -/
theorem metadataKv_bt_comment (s rest : List Char) (hn : kvLike s = false) :
    ∃ z, metadataKv (s ++ '\n' :: rest) = .bt z := by
  have hX := stop_tag_nl rest
  have htw := takeWhile_append_of_stop s hX
  have hdw := dropWhile_append_of_stop s hX
  cases hk : s.takeWhile isTagChar with
  | nil =>
    refine ⟨s ++ '\n' :: rest, ?_⟩
    have : tagKey (s ++ '\n' :: rest) = .bt (s ++ '\n' :: rest) := by
      rw [tagKey_eq]
      apply takeWhile1_stop
      cases s with
      | nil => exact hX
      | cons c t =>
        by_cases hc : isTagChar c = true
        · simp [List.takeWhile, hc] at hk
        · simpa using hc
    simp [metadataKv, this]
  | cons k0 kt =>
    have hkey : tagKey (s ++ '\n' :: rest) = .ok (s.takeWhile isTagChar) (s.dropWhile isTagChar ++ '\n' :: rest) := by
      rw [tagKey_eq]
      cases s with
      | nil => simp at hk
      | cons c t =>
        by_cases hc : isTagChar c = true
        · simp only [List.cons_append] at htw hdw ⊢
          simp only [takeWhile1, hc, if_true, htw, hdw]
        · simp [List.takeWhile, hc] at hk
    have hdw2 := dropWhile_append_of_stop (p := isSpace) (s.dropWhile isTagChar) (X := '\n' :: rest) (by simp [isSpace])
    have hhead : ((s.dropWhile isTagChar).dropWhile isSpace ++ '\n' :: rest).head? ≠ some ':' := by
      simp [kvLike, hk] at hn
      cases hd : (s.dropWhile isTagChar).dropWhile isSpace with
      | nil => simp
      | cons d t =>
        rw [hd] at hn
        simpa using hn
    refine ⟨(s.dropWhile isTagChar).dropWhile isSpace ++ '\n' :: rest, ?_⟩
    simp only [metadataKv, bind_apply, terminated_apply, hkey, Res.andThen_ok, space0_eq, hdw2, Res.map_ok,
      metadataValue_bt hhead, Res.andThen_bt]

/-- `line_metadata` preceded by its indentation reads back a printed comment line -/
theorem metaLine_comment_rt (s : String) (hm : wfMetadata (.comment s) = true) (rest : List Char) :
    preceded space1 lineMetadata (printMetaLine (.comment s) ++ rest) = .ok (.comment s) rest := by
  simp only [wfMetadata, Bool.and_eq_true, Bool.not_eq_true'] at hm
  obtain ⟨⟨⟨⟨h1, h2⟩, h3⟩, h4⟩, h5⟩ := hm
  have he := noEol_mem h1
  have hind : space1 (indent4 ++ ';' :: ' ' :: (s.toList ++ '\n' :: rest)) =
      .ok indent4 (';' :: ' ' :: (s.toList ++ '\n' :: rest)) :=
    space1_append (by simp [indent4]) (by simp [indent4, isSpace]) (by simp [isSpace])
  have hs0 : space0 (' ' :: (s.toList ++ '\n' :: rest)) = .ok [' '] (s.toList ++ '\n' :: rest) := by
    simpa using space0_append (a := [' ']) (by simp [isSpace]) (stop_space_of_notBlankStart h2 rest)
  obtain ⟨z1, hz1⟩ := metadataTags_bt_comment s.toList rest he h3 h5
  obtain ⟨z2, hz2⟩ := metadataKv_bt_comment s.toList rest h4
  have hl := tillLineEnding_nl he rest
  simp only [printMetaLine, printMetadata, List.append_assoc, List.cons_append, List.nil_append, preceded_apply, hind,
    Res.andThen_ok, lineMetadata, delimited_apply, pair_apply, char_cons_self, hs0, Res.map_ok]
  rw [alt2_bt hz1, alt2_bt hz2]
  simp [hl, trimEnd_eq h3]

/-- every well-formed metadata line is read back -/
theorem metaLine_rt_all (m : Metadata) (hm : wfMetadata m = true) (rest : List Char) :
    preceded space1 lineMetadata (printMetaLine m ++ rest) = .ok m rest := by
  cases m with
  | comment s => exact metaLine_comment_rt s hm rest
  | wordTags ts => exact metaLine_rt _ hm (by intro s h; cases h) rest
  | keyValue k v => exact metaLine_rt _ hm (by intro s h; cases h) rest

/-! ## metadata blocks -/

/-- the text after a block of metadata lines is not another metadata line: if it begins with a blank, the first
non-blank character is not `;` -/
def metaStop (rest : List Char) : Bool :=
  match rest with
  | [] => true
  | c :: _ => !isSpace c || (rest.dropWhile isSpace).head? != some ';'

theorem metaLine_stop {rest : List Char} (h : metaStop rest = true) : ∃ z, preceded space1 lineMetadata rest = .bt z := by
  cases rest with
  | nil => exact ⟨[], by simp [space1, takeWhile1]⟩
  | cons c t =>
    by_cases hc : isSpace c = true
    · simp only [metaStop, hc, Bool.not_true, Bool.false_or, bne_iff_ne, ne_eq] at h
      have hsp : space1 (c :: t) = .ok ((c :: t).takeWhile isSpace) ((c :: t).dropWhile isSpace) := by
        simp [space1, takeWhile1, hc]
      cases hd : (c :: t).dropWhile isSpace with
      | nil => exact ⟨[], by simp [hsp, hd, lineMetadata]⟩
      | cons d r =>
        rw [hd] at h
        have hd' : d ≠ ';' := by intro e; subst e; simp at h
        exact ⟨d :: r, by simp [hsp, hd, lineMetadata, char_cons_ne hd']⟩
    · exact ⟨c :: t, by simp [takeWhile1_stop (p := isSpace) (rest := c :: t) (by simpa using hc), space1]⟩

theorem printMetaLine_ne_nil (m : Metadata) : printMetaLine m ≠ [] := by simp [printMetaLine, indent4]

/-- `block_metadata` at the end of a line, followed by the printed metadata lines -/
theorem blockMetadata_rt (ms : List Metadata) (hms : ∀ m ∈ ms, wfMetadata m = true) (rest : List Char)
    (hrest : metaStop rest = true) :
    blockMetadata ('\n' :: (ms.flatMap printMetaLine ++ rest)) = .ok ms rest := by
  obtain ⟨z, hz⟩ := metaLine_stop hrest
  have hloop := repeat0Loop_list (p := preceded space1 lineMetadata) (pr := printMetaLine) (fun _ => True) rest z hz
    trivial ms (fun m hm X _ => metaLine_rt_all m (hms m hm) X) (fun m _ => printMetaLine_ne_nil m)
    (fun _ _ _ => trivial) ((ms.flatMap printMetaLine ++ rest).length + 1) [] (by
      have := length_le_flatMap printMetaLine ms (fun m _ => printMetaLine_ne_nil m)
      rw [List.length_append]; omega)
  simp only [blockMetadata, dispatchOpt, preceded_apply, lineEnding_nl, Res.andThen_ok]
  change repeat0Loop _ _ _ [] = _
  simpa using hloop

end Okane.Unparse
