import Okane.Lemmas.C05Round
/-!
# Round trip of transactions (C05), part 1: dates, clear state, metadata lines (all three kinds), metadata blocks
-/
set_option linter.unusedSimpArgs false
namespace Okane.Unparse
open Okane Okane.Comb Okane.Parse

/-! ## list facts -/

theorem dropWhile_idem (p : Char → Bool) (l : List Char) : (l.dropWhile p).dropWhile p = l.dropWhile p := by
  induction l with
  | nil => rfl
  | cons c t ih =>
    by_cases h : p c = true
    · simp [List.dropWhile, h, ih]
    · simp [List.dropWhile, h]

theorem dropWhile_of_stop {p : Char → Bool} {l : List Char} (h : Stop p l) : l.dropWhile p = l := by
  cases l with
  | nil => rfl
  | cons c t => simp [List.dropWhile, (Stop_cons p c t).1 h]

theorem stop_dropWhile (p : Char → Bool) (l : List Char) : Stop p (l.dropWhile p) := by
  induction l with
  | nil => simp
  | cons c t ih =>
    by_cases h : p c = true
    · simpa [List.dropWhile, h] using ih
    · simp [List.dropWhile, h]

theorem space0_eq (X : List Char) : space0 X = .ok (X.takeWhile isSpace) (X.dropWhile isSpace) := rfl

theorem spaces_all (n : Nat) : ∀ c ∈ spaces n, isSpace c = true := by
  intro c hc
  simp [spaces] at hc
  simp [hc.2, isSpace]

theorem dropWhile_spaces_append (n : Nat) (X : List Char) :
    (spaces n ++ X).dropWhile isSpace = X.dropWhile isSpace := by
  induction n with
  | zero => simp [spaces]
  | succ n ih =>
    simp only [spaces, List.replicate_succ, List.cons_append] at ih ⊢
    simp [List.dropWhile, isSpace]
    simpa [isSpace] using ih

/-! ## dates -/

/-- `Date.pad` on character lists -/
def padL (n w : Nat) : List Char := List.replicate (w - (Nat.toDigits 10 n).length) '0' ++ Nat.toDigits 10 n

theorem pad_toList (n w : Nat) : (Date.pad n w).toList = padL n w := by
  simp [Date.pad, padL, Nat.repr_eq_ofList_toDigits]

theorem digitsVal_eq (l : List Char) : digitsVal l = Nat.ofDigitChars 10 l 0 := by
  unfold digitsVal Nat.ofDigitChars
  congr 1
  funext n c
  simp [Nat.mul_comm]

theorem digitsVal_padL (n w : Nat) : digitsVal (padL n w) = n := by
  rw [digitsVal_eq, padL, Nat.ofDigitChars_append]
  simp

theorem padL_digits (n w : Nat) : ∀ c ∈ padL n w, c.isDigit = true := by
  intro c hc
  simp only [padL, List.mem_append, List.mem_replicate] at hc
  rcases hc with ⟨_, rfl⟩ | hc
  · decide
  · exact Nat.isDigit_of_mem_toDigits (by decide) (by decide) hc

theorem padL_ne_nil (n w : Nat) : padL n w ≠ [] := by
  simp [padL]

theorem padL_length (n w k : Nat) (hk : 0 < k) (hw : w ≤ k) (hn : n < 10 ^ k) : (padL n w).length ≤ k := by
  have := (Nat.length_toDigits_le_iff (b := 10) (n := n) (k := k) (by decide) hk).2 hn
  simp only [padL, List.length_append, List.length_replicate]
  omega

theorem printDate_eq (d : Date) (hy : 0 ≤ d.y) :
    printDate d = padL d.y.natAbs 4 ++ '/' :: (padL d.m 2 ++ '/' :: padL d.d 2) := by
  have : ¬ d.y < 0 := by omega
  simp [printDate, Date.fmtSlash, this, pad_toList, String.toList_append]

theorem digit1_padL (n w : Nat) (X : List Char) (hX : Stop Char.isDigit X) :
    digit1 (padL n w ++ X) = .ok (padL n w) X :=
  takeWhile1_append (padL_ne_nil n w) (padL_digits n w) hX

theorem daysInMonth_le (y : Int) (m : Nat) : Date.daysInMonth y m ≤ 31 := by
  unfold Date.daysInMonth
  split <;> try omega
  split <;> omega

/-- `primitive::date` reads back a printed date (year 0 … 9999) when no digit follows -/
theorem date_rt (d : Date) (hd : wfDate d = true) (X : List Char) (hX : Stop Char.isDigit X) :
    date (printDate d ++ X) = .ok d X := by
  simp only [wfDate, Bool.and_eq_true, decide_eq_true_eq] at hd
  obtain ⟨⟨hv, hy0⟩, hy1⟩ := hd
  have hv' := hv
  simp only [Date.valid, Bool.and_eq_true, decide_eq_true_eq] at hv'
  obtain ⟨⟨⟨hm1, hm2⟩, hd1⟩, hd2⟩ := hv'
  have hd3 := daysInMonth_le d.y d.m
  rw [printDate_eq d hy0]
  have h1 := digit1_padL d.y.natAbs 4 ('/' :: (padL d.m 2 ++ '/' :: (padL d.d 2 ++ X))) (by simp)
  have h2 := digit1_padL d.m 2 ('/' :: (padL d.d 2 ++ X)) (by simp)
  have h3 := digit1_padL d.d 2 X hX
  have hshape : dateShape '/' (padL d.y.natAbs 4 ++ '/' :: (padL d.m 2 ++ '/' :: padL d.d 2) ++ X) =
      .ok (padL d.y.natAbs 4, padL d.m 2, padL d.d 2) X := by
    simp only [List.append_assoc, List.cons_append]
    simp [dateShape, h1, h2, h3]
  have hl1 : (padL d.y.natAbs 4).length ≤ 4 := padL_length _ 4 4 (by omega) (by omega) (by omega)
  have hl2 : (padL d.m 2).length ≤ 2 := padL_length _ 2 2 (by omega) (by omega) (by omega)
  have hl3 : (padL d.d 2).length ≤ 2 := padL_length _ 2 2 (by omega) (by omega) (by omega)
  have hdt : (⟨(d.y.natAbs : Int), d.m, d.d⟩ : Date) = d := by
    cases d with
    | mk y m dd => simp at hy0 ⊢; omega
  have hof : dateOf (padL d.y.natAbs 4) (padL d.m 2) (padL d.d 2) = some d := by
    simp [dateOf, hl1, hl2, hl3, digitsVal_padL, hdt, hv]
  simp only [List.append_assoc, List.cons_append] at hshape
  simp [date, tryMap, alt2, hshape, hof]

/-- a printed date begins with a digit -/
theorem printDate_head (d : Date) (hy : 0 ≤ d.y) : ∃ c r, printDate d = c :: r ∧ c.isDigit = true := by
  rw [printDate_eq d hy]
  cases h : padL d.y.natAbs 4 with
  | nil => exact absurd h (padL_ne_nil _ _)
  | cons c t =>
    exact ⟨c, _, rfl, padL_digits d.y.natAbs 4 c (by simp [h])⟩

end Okane.Unparse
