import Okane.Lemmas.C05TxnBase
/-!
# Round trip of transactions (C05), part 2: lot, cost, balance, posting amount, the whole posting

The value-expression round trip is a parameter (`ExprRT P`, proved elsewhere: job J-C08parse), for the
expressions satisfying a predicate `P` (see the counterexample `(-1)` at the end of `C05Txn.lean`: `wfVExpr` alone is
not enough for the expression parser).
-/
set_option linter.unusedSimpArgs false
namespace Okane.Unparse
open Okane Okane.Comb Okane.Parse

/-! ## the hypothesis on value expressions -/

/-- what may follow a value expression inside a printed posting: after blanks, the end of the text, a line end,
a closing / opening brace, `[`, `(`, `@` or `=` -/
def exprFollow (rest : List Char) : Bool :=
  match rest.dropWhile isSpace with
  | [] => true
  | c :: _ => c == '\n' || c == '}' || c == '{' || c == '[' || c == '(' || c == '@' || c == '='

/-- the value-expression parser reads back a printed expression (satisfying `P`) up to the blanks that follow it
(an amount without commodity swallows them) -/
def ExprRT (P : VExpr → Prop) : Prop :=
  ∀ (v : VExpr) (rest : List Char), wfVExpr v = true → P v → exprFollow rest = true →
    ∃ r', valueExpr (printVExpr v ++ rest) = .ok v r' ∧ r'.dropWhile isSpace = rest.dropWhile isSpace

/-- the characters a value expression can begin with -/
def exprHeadOk (c : Char) : Bool := c == '(' || c == '-' || Literal.isNumChar c

theorem valueExpr_nil : valueExpr [] = .bt [] := by
  simp [valueExpr, ExprSyntax.parseValueExpr, ExprSyntax.parseFuel, ExprSyntax.valueExpr, ofPRes]

theorem valueExpr_bt_of_head (c : Char) (r : List Char) (h : exprHeadOk c = false) :
    valueExpr (c :: r) = .bt (c :: r) := by
  simp only [exprHeadOk, Bool.or_eq_false_iff, beq_eq_false_iff_ne, ne_eq] at h
  obtain ⟨⟨h1, h2⟩, h3⟩ := h
  have hts : Literal.tokenSplit (c :: r) = .error (c :: r) := by
    unfold Literal.tokenSplit
    split
    · rename_i heq
      split at heq
      · rename_i r' e; cases e; exact absurd rfl h2
      · cases heq
        simp [List.takeWhile, h3]
  have ham : ExprSyntax.amount (c :: r) = .fail (c :: r) := by
    simp [ExprSyntax.amount, ExprSyntax.prettyDecimal, hts]
  simp only [valueExpr, ExprSyntax.parseValueExpr, ExprSyntax.parseFuel]
  rw [show 5 * (c :: r).length + 10 = (5 * (c :: r).length + 9) + 1 from rfl, ExprSyntax.valueExpr] <;>
    first
      | (intro r' e; cases e; exact absurd rfl h1)
      | (intro e; cases e)
      | simp [ham, ofPRes]

variable {P : VExpr → Prop}

/-- a printed expression begins with `(`, `-`, a digit, `,` or `.` -/
theorem printVExpr_head (hE : ExprRT P) (v : VExpr) (hv : wfVExpr v = true) (hP : P v) :
    ∃ c t, printVExpr v = c :: t ∧ exprHeadOk c = true := by
  obtain ⟨r', h, _⟩ := hE v [] hv hP (by simp [exprFollow])
  simp only [List.append_nil] at h
  cases hp : printVExpr v with
  | nil => rw [hp, valueExpr_nil] at h; cases h
  | cons c t =>
    refine ⟨c, t, rfl, ?_⟩
    cases hc : exprHeadOk c with
    | true => rfl
    | false => rw [hp, valueExpr_bt_of_head c t hc] at h; cases h

theorem exprHeadOk_not_space {c : Char} (h : exprHeadOk c = true) : isSpace c = false := by
  cases hs : isSpace c with
  | false => rfl
  | true =>
    simp [isSpace] at hs
    rcases hs with rfl | rfl <;> simp [exprHeadOk, Literal.isNumChar] at h <;> exact absurd h (by decide)

theorem exprHeadOk_ne {c d : Char} (h : exprHeadOk c = true) (hd : exprHeadOk d = false) : c ≠ d := by
  intro e; subst e; rw [h] at hd; cases hd

/-- `terminated(value_expr, space0)` on a printed expression -/
theorem exprSpace_rt (hE : ExprRT P) (v : VExpr) (hv : wfVExpr v = true) (hP : P v) (rest : List Char)
    (hr : exprFollow rest = true) :
    terminated valueExpr space0 (printVExpr v ++ rest) = .ok v (rest.dropWhile isSpace) := by
  obtain ⟨r', h1, h2⟩ := hE v rest hv hP hr
  simp [h1, space0_eq, h2]

theorem stop_space_printVExpr (hE : ExprRT P) (v : VExpr) (hv : wfVExpr v = true) (hP : P v) (X : List Char) :
    Stop isSpace (printVExpr v ++ X) := by
  obtain ⟨c, t, hc, hh⟩ := printVExpr_head hE v hv hP
  rw [hc]
  simpa using exprHeadOk_not_space hh

/-! ## lot -/

def printLotPrice : Option Exchange → List Char
  | some (.total e) => [' ', '{', '{'] ++ printVExpr e ++ ['}', '}']
  | some (.rate e) => [' ', '{'] ++ printVExpr e ++ ['}']
  | none => []
def printLotDate : Option Date → List Char
  | some d => [' ', '['] ++ printDate d ++ [']']
  | none => []
def printLotNote : Option String → List Char
  | some n => [' ', '('] ++ n.toList ++ [')']
  | none => []

theorem printLot_eq (l : Lot) :
    printLot l = printLotPrice l.price ++ (printLotDate l.date ++ printLotNote l.note) := by
  simp only [printLot, printLotPrice, printLotDate, printLotNote, List.append_assoc]
  rfl

/-- the text does not begin with an opening bracket of a lot part -/
def lotStop (Z : List Char) : Prop := ∀ c r, Z = c :: r → c ≠ '{' ∧ c ≠ '[' ∧ c ≠ '('

theorem lotLoop_end (n : Nat) (cur : Lot) (Z : List Char) (hZ : lotStop Z) : lotLoop (n + 1) cur Z = .ok cur Z := by
  cases Z with
  | nil => simp [lotLoop]
  | cons c r =>
    obtain ⟨h1, h2, h3⟩ := hZ c r rfl
    simp only [lotLoop]
    split
    · rename_i heq; cases heq; exact absurd rfl h1
    · rename_i heq; cases heq; exact absurd rfl h2
    · rename_i heq; cases heq; exact absurd rfl h3
    · rfl

theorem lotLoop_note (n : Nat) (cur : Lot) (s Z : List Char) (hc : cur.note = none)
    (hs : ∀ c ∈ s, (c == '(' || c == ')' || c == '@') = false) :
    lotLoop (n + 1) cur ('(' :: (s ++ ')' :: Z)) =
      lotLoop n { cur with note := some (String.ofList s) } (Z.dropWhile isSpace) := by
  have ht := takeTill0_append (p := fun c => c == '(' || c == ')' || c == '@') (a := s) (rest := ')' :: Z) hs
    (by intro c r e; cases e; simp)
  simp [lotLoop, hc, paren, ht, space0_eq]

theorem lotLoop_date (n : Nat) (cur : Lot) (d : Date) (Z : List Char) (hc : cur.date = none) (hd : wfDate d = true) :
    lotLoop (n + 1) cur ('[' :: (printDate d ++ ']' :: Z)) =
      lotLoop n { cur with date := some d } (Z.dropWhile isSpace) := by
  have hy : 0 ≤ d.y := by
    simp only [wfDate, Bool.and_eq_true, decide_eq_true_eq] at hd; exact hd.1.2
  obtain ⟨c, r, hpd, hcd⟩ := printDate_head d hy
  have hsp : (printDate d ++ ']' :: Z).dropWhile isSpace = printDate d ++ ']' :: Z := by
    apply dropWhile_of_stop
    rw [hpd]
    have : isSpace c = false := by
      cases hs : isSpace c with
      | false => rfl
      | true => simp [isSpace] at hs; rcases hs with rfl | rfl <;> simp at hcd
    simpa using this
  have hdt := date_rt d hd (']' :: Z) (by simp)
  have hsp2 : (']' :: Z).dropWhile isSpace = ']' :: Z := dropWhile_of_stop (by simp [isSpace])
  simp [lotLoop, hc, hsp, hdt, hsp2, space0_eq]

theorem lotAmount_rate (hE : ExprRT P) (e : VExpr) (he : wfVExpr e = true) (hP : P e) (Z : List Char) :
    lotAmount ('{' :: (printVExpr e ++ '}' :: Z)) = .ok (.rate e) Z := by
  obtain ⟨c, t, hc, hh⟩ := printVExpr_head hE e he hP
  have hne : c ≠ '{' := exprHeadOk_ne hh (by decide)
  have hne' : ¬ ('{' = c) := fun x => hne x.symm
  have hpk : hasPeek (literal ['{', '{']) ('{' :: (printVExpr e ++ '}' :: Z)) = .ok false ('{' :: (printVExpr e ++ '}' :: Z)) := by
    simp [hasPeek, literal, hc, hne']
  have hsp := dropWhile_of_stop (stop_space_printVExpr hE e he hP ('}' :: Z))
  obtain ⟨r', h1, h2⟩ := hE e ('}' :: Z) he hP (by simp [exprFollow, List.dropWhile, isSpace])
  have h2' : r'.dropWhile isSpace = '}' :: Z := by simpa [List.dropWhile, isSpace] using h2
  have hlit : literal ['{'] ('{' :: (printVExpr e ++ '}' :: Z)) = .ok ['{'] (printVExpr e ++ '}' :: Z) :=
    literal_append ['{'] _
  have hlit2 : literal ['}'] ('}' :: Z) = .ok ['}'] Z := literal_append ['}'] _
  simp only [lotAmount, bind_apply, hpk, Res.andThen_ok]
  simp [hlit, hsp, h1, space0_eq, h2', hlit2]

theorem lotAmount_total (hE : ExprRT P) (e : VExpr) (he : wfVExpr e = true) (hP : P e) (Z : List Char) :
    lotAmount ('{' :: '{' :: (printVExpr e ++ '}' :: '}' :: Z)) = .ok (.total e) Z := by
  have hpk : hasPeek (literal ['{', '{']) ('{' :: '{' :: (printVExpr e ++ '}' :: '}' :: Z)) =
      .ok true ('{' :: '{' :: (printVExpr e ++ '}' :: '}' :: Z)) :=
    hasPeek_ok (literal_append ['{', '{'] _)
  have hsp := dropWhile_of_stop (stop_space_printVExpr hE e he hP ('}' :: '}' :: Z))
  obtain ⟨r', h1, h2⟩ := hE e ('}' :: '}' :: Z) he hP (by simp [exprFollow, List.dropWhile, isSpace])
  have h2' : r'.dropWhile isSpace = '}' :: '}' :: Z := by simpa [List.dropWhile, isSpace] using h2
  have hlit : literal ['{', '{'] ('{' :: '{' :: (printVExpr e ++ '}' :: '}' :: Z)) =
      .ok ['{', '{'] (printVExpr e ++ '}' :: '}' :: Z) := literal_append ['{', '{'] _
  have hlit2 : literal ['}', '}'] ('}' :: '}' :: Z) = .ok ['}', '}'] Z := literal_append ['}', '}'] _
  simp only [lotAmount, bind_apply, hpk, Res.andThen_ok]
  simp [hlit, hsp, h1, space0_eq, h2', hlit2]

theorem lotLoop_price (n : Nat) (cur : Lot) (x : Exchange) (T Z : List Char) (hc : cur.price = none)
    (hx : lotAmount ('{' :: (T ++ Z)) = .ok x Z) :
    lotLoop (n + 1) cur ('{' :: (T ++ Z)) = lotLoop n { cur with price := some x } (Z.dropWhile isSpace) := by
  simp [lotLoop, hc, hx, space0_eq]


theorem length_dropWhile_le' (p : Char → Bool) (l : List Char) : (l.dropWhile p).length ≤ l.length :=
  (List.dropWhile_sublist p).length_le

/-- the lot loop on the printed note (or nothing) -/
theorem lot_note_chain (n : Nat) (cur : Lot) (note : Option String) (Y : List Char) (hc : cur.note = none)
    (hn : ∀ s, note = some s → ∀ c ∈ s.toList, (c == '(' || c == ')' || c == '@') = false)
    (hY : lotStop (Y.dropWhile isSpace))
    (hlen : ((printLotNote note ++ Y).dropWhile isSpace).length < n) :
    lotLoop n cur ((printLotNote note ++ Y).dropWhile isSpace) =
      .ok { cur with note := note } (Y.dropWhile isSpace) := by
  cases note with
  | none =>
    simp only [printLotNote, List.nil_append] at hlen ⊢
    cases n with
    | zero => omega
    | succ m =>
      rw [lotLoop_end m cur _ hY]
      cases cur; simp_all
  | some s =>
    have hdw : (printLotNote (some s) ++ Y).dropWhile isSpace = '(' :: (s.toList ++ ')' :: Y) := by
      simp [printLotNote, List.dropWhile, isSpace]
    rw [hdw] at hlen ⊢
    cases n with
    | zero => omega
    | succ m =>
      rw [lotLoop_note m cur s.toList Y hc (hn s rfl)]
      cases m with
      | zero => simp at hlen
      | succ k =>
        rw [lotLoop_end k _ _ hY]
        simp

/-- the lot loop on the printed date and note -/
theorem lot_date_chain (n : Nat) (cur : Lot) (date : Option Date) (note : Option String) (Y : List Char)
    (hcd : cur.date = none) (hc : cur.note = none)
    (hd : ∀ d, date = some d → wfDate d = true)
    (hn : ∀ s, note = some s → ∀ c ∈ s.toList, (c == '(' || c == ')' || c == '@') = false)
    (hY : lotStop (Y.dropWhile isSpace))
    (hlen : ((printLotDate date ++ (printLotNote note ++ Y)).dropWhile isSpace).length < n) :
    lotLoop n cur ((printLotDate date ++ (printLotNote note ++ Y)).dropWhile isSpace) =
      .ok { cur with date := date, note := note } (Y.dropWhile isSpace) := by
  cases date with
  | none =>
    simp only [printLotDate, List.nil_append] at hlen ⊢
    rw [lot_note_chain n cur note Y hc hn hY hlen]
    cases cur; simp_all
  | some d =>
    have hdw : (printLotDate (some d) ++ (printLotNote note ++ Y)).dropWhile isSpace =
        '[' :: (printDate d ++ ']' :: (printLotNote note ++ Y)) := by
      simp [printLotDate, List.dropWhile, isSpace]
    rw [hdw] at hlen ⊢
    cases n with
    | zero => omega
    | succ m =>
      rw [lotLoop_date m cur d _ hcd (hd d rfl)]
      rw [lot_note_chain m { cur with date := some d } note Y hc hn hY (by
        have := length_dropWhile_le' isSpace (printLotNote note ++ Y)
        simp only [List.length_cons, List.length_append] at hlen this ⊢
        omega)]

def wfPriceP (P : VExpr → Prop) : Option Exchange → Prop
  | some (.total e) => wfVExpr e = true ∧ P e
  | some (.rate e) => wfVExpr e = true ∧ P e
  | none => True

/-- the lot loop on the printed price, date and note -/
theorem lot_price_chain (hE : ExprRT P) (n : Nat) (cur : Lot) (price : Option Exchange) (date : Option Date)
    (note : Option String) (Y : List Char)
    (hcp : cur.price = none) (hcd : cur.date = none) (hc : cur.note = none)
    (hp : wfPriceP P price)
    (hd : ∀ d, date = some d → wfDate d = true)
    (hn : ∀ s, note = some s → ∀ c ∈ s.toList, (c == '(' || c == ')' || c == '@') = false)
    (hY : lotStop (Y.dropWhile isSpace))
    (hlen : ((printLotPrice price ++ (printLotDate date ++ (printLotNote note ++ Y))).dropWhile isSpace).length < n) :
    lotLoop n cur ((printLotPrice price ++ (printLotDate date ++ (printLotNote note ++ Y))).dropWhile isSpace) =
      .ok { price := price, date := date, note := note } (Y.dropWhile isSpace) := by
  cases price with
  | none =>
    simp only [printLotPrice, List.nil_append] at hlen ⊢
    rw [lot_date_chain n cur date note Y hcd hc hd hn hY hlen]
    cases cur; simp_all
  | some x =>
    cases x with
    | rate e =>
      obtain ⟨he, hPe⟩ := hp
      have hdw : (printLotPrice (some (.rate e)) ++ (printLotDate date ++ (printLotNote note ++ Y))).dropWhile isSpace =
          '{' :: ((printVExpr e ++ ['}']) ++ (printLotDate date ++ (printLotNote note ++ Y))) := by
        simp [printLotPrice, List.dropWhile, isSpace]
      rw [hdw] at hlen ⊢
      cases n with
      | zero => omega
      | succ m =>
        have hx := lotAmount_rate hE e he hPe (printLotDate date ++ (printLotNote note ++ Y))
        rw [lotLoop_price m cur (.rate e) _ _ hcp (by simpa using hx)]
        rw [lot_date_chain m { cur with price := some (.rate e) } date note Y hcd hc hd hn hY (by
          have := length_dropWhile_le' isSpace (printLotDate date ++ (printLotNote note ++ Y))
          simp only [List.length_cons, List.length_append] at hlen this ⊢
          omega)]
    | total e =>
      obtain ⟨he, hPe⟩ := hp
      have hdw : (printLotPrice (some (.total e)) ++ (printLotDate date ++ (printLotNote note ++ Y))).dropWhile isSpace =
          '{' :: (('{' :: (printVExpr e ++ ['}', '}'])) ++ (printLotDate date ++ (printLotNote note ++ Y))) := by
        simp [printLotPrice, List.dropWhile, isSpace]
      rw [hdw] at hlen ⊢
      cases n with
      | zero => omega
      | succ m =>
        have hx := lotAmount_total hE e he hPe (printLotDate date ++ (printLotNote note ++ Y))
        rw [lotLoop_price m cur (.total e) _ _ hcp (by simpa using hx)]
        rw [lot_date_chain m { cur with price := some (.total e) } date note Y hcd hc hd hn hY (by
          have := length_dropWhile_le' isSpace (printLotDate date ++ (printLotNote note ++ Y))
          simp only [List.length_cons, List.length_append] at hlen this ⊢
          omega)]

/-- well-formed lot whose price expression satisfies `P` -/
def wfLotP (P : VExpr → Prop) (l : Lot) : Prop := wfLot l = true ∧ wfPriceP P l.price

/-- `posting::lot` reads back a printed lot, whatever blanks precede it, up to the blanks that follow -/
theorem lot_rt (hE : ExprRT P) (l : Lot) (hl : wfLotP P l) (X Y : List Char)
    (hX : X.dropWhile isSpace = (printLot l ++ Y).dropWhile isSpace) (hY : lotStop (Y.dropWhile isSpace)) :
    lot X = .ok l (Y.dropWhile isSpace) := by
  obtain ⟨hw, hp⟩ := hl
  simp only [wfLot, Bool.and_eq_true] at hw
  obtain ⟨⟨_, hd⟩, hn⟩ := hw
  have hd' : ∀ d, l.date = some d → wfDate d = true := by
    intro d e; rw [e] at hd; exact hd
  have hn' : ∀ s, l.note = some s → ∀ c ∈ s.toList, (c == '(' || c == ')' || c == '@') = false := by
    intro s e c hc
    rw [e] at hn
    simp only [List.all_eq_true] at hn
    have := hn c hc
    simpa using this
  simp only [lot, bind_apply, space0_eq, Res.andThen_ok, hX, printLot_eq, List.append_assoc]
  exact lot_price_chain hE _ {} l.price l.date l.note Y rfl rfl rfl hp hd' hn' hY (by omega)


/-! ## cost -/

/-- what follows the amount part of a posting: after blanks, the end of the text, a line end or `=` -/
def amtFollow (Y : List Char) : Bool :=
  match Y.dropWhile isSpace with
  | [] => true
  | c :: _ => c == '\n' || c == '='

theorem amtFollow_exprFollow {Y : List Char} (h : amtFollow Y = true) : exprFollow Y = true := by
  unfold amtFollow at h
  unfold exprFollow
  cases hd : Y.dropWhile isSpace with
  | nil => rfl
  | cons c t =>
    rw [hd] at h
    simp only [Bool.or_eq_true, beq_iff_eq] at h ⊢
    rcases h with h | h <;> simp [h]

theorem amtFollow_lotStop {Y : List Char} (h : amtFollow Y = true) : lotStop (Y.dropWhile isSpace) := by
  unfold amtFollow at h
  intro c r e
  rw [e] at h
  simp only [Bool.or_eq_true, beq_iff_eq] at h
  rcases h with rfl | rfl <;> decide

def wfCostP (P : VExpr → Prop) : Option Exchange → Prop
  | some (.total e) => wfVExpr e = true ∧ P e
  | some (.rate e) => wfVExpr e = true ∧ P e
  | none => True

/-- the `@` / `@@` part of `posting_amount` -/
def costParser : Parser (Option Exchange) :=
  hasPeek (char '@') >>- fun isAt =>
  hasPeek (literal ['@', '@']) >>- fun isDoubleAt =>
  cond isAt (condElse isDoubleAt totalCost rateCost)

theorem cost_rt (hE : ExprRT P) (c : Option Exchange) (hc : wfCostP P c) (Y : List Char) (hY : amtFollow Y = true) :
    ∃ r', costParser ((printCost c ++ Y).dropWhile isSpace) = .ok c r' ∧
      r'.dropWhile isSpace = Y.dropWhile isSpace := by
  cases c with
  | none =>
    refine ⟨Y.dropWhile isSpace, ?_, dropWhile_idem _ _⟩
    simp only [printCost, List.nil_append]
    unfold amtFollow at hY
    cases hd : Y.dropWhile isSpace with
    | nil => simp [costParser, hasPeek, literal, Comb.cond]
    | cons d t =>
      rw [hd] at hY
      simp only [Bool.or_eq_true, beq_iff_eq] at hY
      have hne : d ≠ '@' := by rcases hY with rfl | rfl <;> decide
      have hne' : ¬ ('@' = d) := fun e => hne e.symm
      simp [costParser, hasPeek, literal, Comb.cond, char_cons_ne hne, hne']
  | some x =>
    cases x with
    | rate e =>
      obtain ⟨he, hPe⟩ := hc
      obtain ⟨r', h1, h2⟩ := hE e Y he hPe (amtFollow_exprFollow hY)
      refine ⟨r', ?_, h2⟩
      have hdw : (printCost (some (.rate e)) ++ Y).dropWhile isSpace = '@' :: ' ' :: (printVExpr e ++ Y) := by
        simp [printCost, List.dropWhile, isSpace]
      have hsp : (' ' :: (printVExpr e ++ Y)).dropWhile isSpace = printVExpr e ++ Y := by
        have := dropWhile_of_stop (stop_space_printVExpr hE e he hPe Y)
        simpa [List.dropWhile, isSpace] using this
      rw [hdw]
      simp [costParser, hasPeek, literal, Comb.cond, condElse, rateCost, space0_eq, hsp, h1]
    | total e =>
      obtain ⟨he, hPe⟩ := hc
      obtain ⟨r', h1, h2⟩ := hE e Y he hPe (amtFollow_exprFollow hY)
      refine ⟨r', ?_, h2⟩
      have hdw : (printCost (some (.total e)) ++ Y).dropWhile isSpace = '@' :: '@' :: ' ' :: (printVExpr e ++ Y) := by
        simp [printCost, List.dropWhile, isSpace]
      have hsp : (' ' :: (printVExpr e ++ Y)).dropWhile isSpace = printVExpr e ++ Y := by
        have := dropWhile_of_stop (stop_space_printVExpr hE e he hPe Y)
        simpa [List.dropWhile, isSpace] using this
      rw [hdw]
      simp [costParser, hasPeek, literal, Comb.cond, condElse, totalCost, space0_eq, hsp, h1]

/-! ## posting amount -/

/-- well-formed posting amount whose expressions satisfy `P` -/
def wfPostingAmountP (P : VExpr → Prop) (a : PostingAmount) : Prop :=
  wfPostingAmount a = true ∧ P a.amount ∧ wfPriceP P a.lot.price ∧ wfCostP P a.cost

theorem exprFollow_blank_cons (c : Char) (T : List Char)
    (hc : (c == '\n' || c == '}' || c == '{' || c == '[' || c == '(' || c == '@' || c == '=') = true) :
    exprFollow (' ' :: c :: T) = true := by
  have hs : isSpace c = false := by
    simp only [Bool.or_eq_true, beq_iff_eq] at hc
    rcases hc with ((((((rfl | rfl) | rfl) | rfl) | rfl) | rfl) | rfl) <;> decide
  have hdw : (' ' :: c :: T).dropWhile isSpace = c :: T := by
    rw [List.dropWhile_cons_of_pos (by decide)]
    exact dropWhile_of_stop (by simpa using hs)
  unfold exprFollow
  rw [hdw]
  exact hc

theorem exprFollow_after_amount (l : Lot) (c : Option Exchange) (Y : List Char) (hY : amtFollow Y = true) :
    exprFollow (printLot l ++ (printCost c ++ Y)) = true := by
  rw [printLot_eq]
  cases hp : l.price with
  | some x =>
    cases x <;> simp only [printLotPrice, List.cons_append, List.nil_append, List.append_assoc] <;>
      exact exprFollow_blank_cons _ _ (by decide)
  | none =>
    cases hd : l.date with
    | some d =>
      simp only [printLotPrice, printLotDate, List.cons_append, List.nil_append, List.append_assoc]
      exact exprFollow_blank_cons _ _ (by decide)
    | none =>
      cases hn : l.note with
      | some n =>
        simp only [printLotPrice, printLotDate, printLotNote, List.cons_append, List.nil_append, List.append_assoc]
        exact exprFollow_blank_cons _ _ (by decide)
      | none =>
        simp only [printLotPrice, printLotDate, printLotNote, List.nil_append]
        cases c with
        | none => simpa [printCost] using amtFollow_exprFollow hY
        | some x =>
          cases x <;> simp only [printCost, List.cons_append, List.nil_append, List.append_assoc] <;>
            exact exprFollow_blank_cons _ _ (by decide)

theorem lotStop_cost (c : Option Exchange) (Y : List Char) (hY : amtFollow Y = true) :
    lotStop ((printCost c ++ Y).dropWhile isSpace) := by
  cases c with
  | none => simpa [printCost] using amtFollow_lotStop hY
  | some x =>
    cases x <;>
    · intro d r e
      simp [printCost, List.dropWhile, isSpace] at e
      rw [← e.1]
      decide

theorem bind_assoc' {α β γ : Type} (p : Parser α) (f : α → Parser β) (g : β → Parser γ) :
    ((p >>- f) >>- g) = (p >>- fun a => f a >>- g) := by
  funext i
  simp only [bind_apply]
  cases p i <;> rfl

theorem postingAmount_eq : postingAmount =
    (terminated valueExpr space0 >>- fun amount => lot >>- fun l => costParser >>- fun cost =>
      pure { amount := amount, cost := cost, lot := l }) := by
  unfold postingAmount costParser
  simp only [bind_assoc']

/-- `terminated(posting_amount, space0)` reads back amount, lot and cost -/
theorem postingAmount_rt (hE : ExprRT P) (a : PostingAmount) (ha : wfPostingAmountP P a) (Y : List Char)
    (hY : amtFollow Y = true) :
    terminated postingAmount space0 (printVExpr a.amount ++ (printLot a.lot ++ (printCost a.cost ++ Y))) =
      .ok a (Y.dropWhile isSpace) := by
  obtain ⟨hw, hPa, hPl, hPc⟩ := ha
  simp only [wfPostingAmount, Bool.and_eq_true] at hw
  obtain ⟨⟨hwa, hwl⟩, _⟩ := hw
  have h1 := exprSpace_rt hE a.amount hwa hPa _ (exprFollow_after_amount a.lot a.cost Y hY)
  have h2 := lot_rt hE a.lot ⟨hwl, hPl⟩ ((printLot a.lot ++ (printCost a.cost ++ Y)).dropWhile isSpace)
    (printCost a.cost ++ Y) (dropWhile_idem _ _) (lotStop_cost a.cost Y hY)
  obtain ⟨r', h3, h4⟩ := cost_rt hE a.cost hPc Y hY
  change (postingAmount _).andThen (fun a r => (space0 r).map fun _ => a) = _
  rw [postingAmount_eq]
  simp only [bind_apply, h1, Res.andThen_ok, h2, h3, pure_apply, Res.map_ok, space0_eq, h4]


/-! ## balance assertion -/

def balanceParser : Parser (Option VExpr) := opt (delimited (pair (char '=') space0) valueExpr space0)

theorem balance_some (hE : ExprRT P) (b : VExpr) (hb : wfVExpr b = true) (hP : P b) (M : List Char) :
    balanceParser ('=' :: ' ' :: (printVExpr b ++ '\n' :: M)) = .ok (some b) ('\n' :: M) := by
  obtain ⟨r', h1, h2⟩ := hE b ('\n' :: M) hb hP (by simp [exprFollow, List.dropWhile, isSpace])
  have h2' : r'.dropWhile isSpace = '\n' :: M := by simpa [List.dropWhile, isSpace] using h2
  have hsp : (' ' :: (printVExpr b ++ '\n' :: M)).dropWhile isSpace = printVExpr b ++ '\n' :: M := by
    have := dropWhile_of_stop (stop_space_printVExpr hE b hb hP ('\n' :: M))
    simpa [List.dropWhile, isSpace] using this
  simp [balanceParser, opt, space0_eq, hsp, h1, h2']

theorem balance_none (M : List Char) : balanceParser ('\n' :: M) = .ok none ('\n' :: M) := by
  simp [balanceParser, opt, char_cons_ne]

/-! ## the account as words -/

/-- the conditions of `wfAccount`, on lists -/
structure AccountShape (s : List Char) : Prop where
  ne : s ≠ []
  chars : ∀ c ∈ s, c ≠ '\n' ∧ c ≠ '\r' ∧ c ≠ ';' ∧ c ≠ '\t'
  head : ∀ c t, s = c :: t → c ≠ ' '
  last : s.getLast? ≠ some ' '
  nodbl : noDoubleBlank s = true

theorem noDoubleBlank_tail (c : Char) (t : List Char) (h : noDoubleBlank (c :: t) = true) : noDoubleBlank t = true := by
  unfold noDoubleBlank at h
  split at h
  · cases h
  · rename_i heq; cases heq; exact h
  · rename_i heq; cases heq

theorem noDoubleBlank_two (t : List Char) : noDoubleBlank (' ' :: ' ' :: t) = false := by
  simp [noDoubleBlank]

theorem accountShape_words_aux : ∀ (n : Nat) (s : List Char), s.length ≤ n → AccountShape s →
    ∃ (w0 : List Char) (ws : List (List Char)), s = w0 ++ ws.flatMap (fun wd => ' ' :: wd) ∧ wfWord w0 ∧
      (∀ wd ∈ ws, wfWord wd) ∧ (∀ c t, s = c :: t → ∃ t', w0 = c :: t') := by
  intro n
  induction n with
  | zero =>
    intro s hl h
    have : s = [] := List.length_eq_zero_iff.mp (by omega)
    exact absurd this h.ne
  | succ n ih =>
    intro s hl h
    cases s with
    | nil => exact absurd rfl h.ne
    | cons c t =>
      have hc := h.chars c (by simp)
      have hcb : c ≠ ' ' := h.head c t rfl
      have hstop : isAccountStop c = false := by simp [isAccountStop, hc, hcb]
      cases t with
      | nil =>
        refine ⟨[c], [], by simp, ⟨by simp, by simpa using hstop⟩, by simp, ?_⟩
        intro c' t' e; cases e; exact ⟨[], rfl⟩
      | cons d t' =>
        by_cases hd : d = ' '
        · subst hd
          have hne' : t' ≠ [] := by
            intro e; subst e
            exact h.last (by simp)
          have hsh : AccountShape t' := by
            refine ⟨hne', fun x hx => h.chars x (by simp [hx]), ?_, ?_, ?_⟩
            · intro x r e hx
              subst e; subst hx
              have := noDoubleBlank_tail c _ h.nodbl
              rw [noDoubleBlank_two] at this
              cases this
            · have := h.last
              cases t' with
              | nil => exact absurd rfl hne'
              | cons x r => simpa [List.getLast?_cons_cons] using this
            · exact noDoubleBlank_tail _ _ (noDoubleBlank_tail _ _ h.nodbl)
          obtain ⟨w1, ws, he, hw1, hws, _⟩ := ih t' (by simp at hl; omega) hsh
          refine ⟨[c], w1 :: ws, by simp [he], ⟨by simp, by simpa using hstop⟩, ?_, ?_⟩
          · intro wd hwd
            rcases List.mem_cons.mp hwd with rfl | hwd
            · exact hw1
            · exact hws wd hwd
          · intro c' t'' e; cases e; exact ⟨[], rfl⟩
        · have hsh : AccountShape (d :: t') := by
            refine ⟨by simp, fun x hx => h.chars x (by simp [hx]), ?_, ?_, ?_⟩
            · intro x r e; cases e; exact hd
            · have := h.last
              simpa [List.getLast?_cons_cons] using this
            · exact noDoubleBlank_tail _ _ h.nodbl
          obtain ⟨w1, ws, he, hw1, hws, hh⟩ := ih (d :: t') (by simp at hl ⊢; omega) hsh
          refine ⟨c :: w1, ws, by simp [he], ⟨by simp, ?_⟩, hws, ?_⟩
          · intro x hx
            rcases List.mem_cons.mp hx with rfl | hx
            · exact hstop
            · exact hw1.2 x hx
          · intro c' t'' e; cases e; exact ⟨w1, rfl⟩

theorem wfAccount_shape {s : List Char} (h : wfAccount s = true) : AccountShape s := by
  simp only [wfAccount, Bool.and_eq_true, Bool.not_eq_true', List.all_eq_true, bne_iff_ne, ne_eq] at h
  obtain ⟨⟨⟨⟨h1, h2⟩, h3⟩, h4⟩, h5⟩ := h
  refine ⟨by intro e; simp [e] at h1, ?_, ?_, h4, h5⟩
  · intro c hc
    have := h2 c hc
    simp at this
    exact ⟨this.1.1.1, this.1.1.2, this.1.2, this.2⟩
  · intro c t e hc
    subst e; subst hc
    simp [startTrimmed, isRustWhitespace] at h3

/-- a well-formed account is a sequence of words joined by single blanks -/
theorem wfAccount_words {s : List Char} (h : wfAccount s = true) :
    ∃ (w0 : List Char) (ws : List (List Char)), s = w0 ++ ws.flatMap (fun wd => ' ' :: wd) ∧ wfWord w0 ∧
      (∀ wd ∈ ws, wfWord wd) ∧ startTrimmed w0 = true := by
  obtain ⟨w0, ws, he, h0, hws, hh⟩ := accountShape_words_aux s.length s (by omega) (wfAccount_shape h)
  refine ⟨w0, ws, he, h0, hws, ?_⟩
  simp only [wfAccount, Bool.and_eq_true] at h
  have hst := h.1.1.2
  cases s with
  | nil => simp at h
  | cons c t =>
    obtain ⟨t', e⟩ := hh c t rfl
    rw [e]
    simpa [startTrimmed] using hst


/-! ## the posting line -/

def exprsOfExchange : Option Exchange → List VExpr
  | some (.total e) => [e]
  | some (.rate e) => [e]
  | none => []

/-- the value expressions of a posting: amount, lot price, cost, balance -/
def exprsOfPosting (p : Posting) : List VExpr :=
  (match p.amount with
    | some a => a.amount :: (exprsOfExchange a.lot.price ++ exprsOfExchange a.cost)
    | none => []) ++
  (match p.balance with
    | some b => [b]
    | none => [])

theorem wfPriceP_of (x : Option Exchange) (hw : (match x with | some x => wfExchange x | none => true) = true)
    (hP : ∀ v ∈ exprsOfExchange x, P v) : wfPriceP P x := by
  cases x with
  | none => trivial
  | some x => cases x <;> exact ⟨by simpa [wfExchange] using hw, hP _ (by simp [exprsOfExchange])⟩

theorem wfCostP_of (x : Option Exchange) (hw : (match x with | some x => wfExchange x | none => true) = true)
    (hP : ∀ v ∈ exprsOfExchange x, P v) : wfCostP P x := by
  cases x with
  | none => trivial
  | some x => cases x <;> exact ⟨by simpa [wfExchange] using hw, hP _ (by simp [exprsOfExchange])⟩

/-- the part of `posting` after the account -/
def postingTail (cs : ClearState) (account : String) : Parser Posting :=
  hasPeek lineEndingOrSemi >>- fun shortcut =>
  if shortcut then
    blockMetadata >>- fun md => pure { account := account, clear := cs, metadata := md }
  else
    opt (terminated postingAmount space0) >>- fun amount =>
    balanceParser >>- fun balance =>
    blockMetadata >>- fun md =>
    pure { account := account, clear := cs, amount := amount, balance := balance, metadata := md }

theorem posting_eq : posting =
    (preceded space0 clearState >>- fun cs => postingAccount >>- fun account => postingTail cs account) := rfl

def balancePart (balance : Option VExpr) (j : Nat) : List Char :=
  match balance with
  | some b => spaces j ++ ' ' :: '=' :: ' ' :: printVExpr b
  | none => []

@[simp] theorem balancePart_none (j : Nat) : balancePart none j = [] := rfl
theorem balancePart_some (b : VExpr) (j : Nat) :
    balancePart (some b) j = spaces j ++ ' ' :: '=' :: ' ' :: printVExpr b := rfl

/-- the printed tail of a posting line, with the numbers of blanks as parameters -/
def tailGen (amount : Option PostingAmount) (balance : Option VExpr) (k j : Nat) : List Char :=
  (match amount with
    | some a => spaces k ++ (printVExpr a.amount ++ (printLot a.lot ++ printCost a.cost))
    | none => []) ++ balancePart balance j

theorem getColumn_ge (colsize left padding : Nat) : padding ≤ getColumn colsize left padding := by
  unfold getColumn
  split <;> omega

theorem printPostingTail_eq (w : List Char → Nat) (aw : Nat) (p : Posting) :
    ∃ k j, 2 ≤ k ∧ (p.amount = none → 1 ≤ j) ∧ printPostingTail w aw p = tailGen p.amount p.balance k j := by
  cases ha : p.amount with
  | none =>
    cases hb : p.balance with
    | none => exact ⟨2, 1, by omega, by intro; omega, by simp [printPostingTail, tailGen, ha, hb, balancePart_some]⟩
    | some b =>
      refine ⟨2, getColumn (50 + (w (printVExpr b) - alignVExpr b)) aw 3 - 2, by omega, ?_, ?_⟩
      · intro _
        have := getColumn_ge (50 + (w (printVExpr b) - alignVExpr b)) aw 3
        omega
      · simp [printPostingTail, tailGen, ha, hb, balancePart_some]
  | some a =>
    refine ⟨getColumn 48 (aw + alignVExpr a.amount) 2, 0, getColumn_ge _ _ _, (by intro h; cases h), ?_⟩
    cases hb : p.balance with
    | none => simp [printPostingTail, tailGen, ha, hb, balancePart_some]
    | some b => simp [printPostingTail, tailGen, ha, hb, balancePart_some]

theorem spaces_succ (n : Nat) (X : List Char) : spaces (n + 1) ++ X = ' ' :: (spaces n ++ X) := by
  simp [spaces, List.replicate_succ]

theorem tailGen_follow (amount : Option PostingAmount) (balance : Option VExpr) (k j : Nat) (hk : 2 ≤ k)
    (hj : amount = none → 1 ≤ j) (M : List Char) : AccountFollow (tailGen amount balance k j ++ '\n' :: M) := by
  cases amount with
  | some a =>
    right; left
    obtain ⟨k', rfl⟩ : ∃ k', k = k' + 2 := ⟨k - 2, by omega⟩
    simp only [tailGen, List.append_assoc, spaces_succ]
    exact ⟨_, rfl⟩
  | none =>
    cases balance with
    | none =>
      right; right; left
      exact ⟨'\n', M, by simp [tailGen], by simp⟩
    | some b =>
      right; left
      have := hj rfl
      obtain ⟨j', rfl⟩ : ∃ j', j = j' + 1 := ⟨j - 1, by omega⟩
      simp only [tailGen, balancePart_some, List.nil_append, List.append_assoc, spaces_succ]
      cases j' with
      | zero => exact ⟨_, by simp [spaces]; rfl⟩
      | succ j'' => simp only [spaces_succ]; exact ⟨_, rfl⟩

theorem lineEndingOrSemi_bt (c : Char) (r : List Char) (h1 : c ≠ '\n') (h2 : c ≠ '\r') (h3 : c ≠ ';') :
    lineEndingOrSemi (c :: r) = .bt (c :: r) := by
  have hl : lineEnding (c :: r) = .bt (c :: r) := by
    unfold lineEnding
    split <;> simp_all
  have h3' : ¬ (';' = c) := fun e => h3 e.symm
  simp [lineEndingOrSemi, alt2, hl, literal, h3']

theorem amtFollow_balance (balance : Option VExpr) (j : Nat) (M : List Char) :
    amtFollow (balancePart balance j ++ '\n' :: M) = true := by
  cases balance with
  | none => simp [balancePart, amtFollow, List.dropWhile, isSpace]
  | some b =>
    simp only [balancePart, List.append_assoc, amtFollow, dropWhile_spaces_append]
    simp [List.dropWhile, isSpace]

theorem dropWhile_balance (b : VExpr) (j : Nat) (M : List Char) :
    (balancePart (some b) j ++ '\n' :: M).dropWhile isSpace =
      '=' :: ' ' :: (printVExpr b ++ '\n' :: M) := by
  simp only [balancePart, List.append_assoc, dropWhile_spaces_append]
  simp [List.dropWhile, isSpace]

/-- the rest of the posting line and its metadata lines, after the account and the blanks that follow it -/
theorem postingTail_rt (hE : ExprRT P) (cs : ClearState) (account : String) (amount : Option PostingAmount)
    (balance : Option VExpr) (ms : List Metadata) (k j : Nat) (rest : List Char)
    (ha : ∀ a, amount = some a → wfPostingAmountP P a)
    (hb : ∀ b, balance = some b → wfVExpr b = true ∧ P b)
    (hms : ∀ m ∈ ms, wfMetadata m = true) (hrest : metaStop rest = true) :
    postingTail cs account ((tailGen amount balance k j ++ '\n' :: (ms.flatMap printMetaLine ++ rest)).dropWhile isSpace) =
      .ok { account := account, clear := cs, amount := amount, balance := balance, metadata := ms } rest := by
  have hmd := blockMetadata_rt ms hms rest hrest
  cases amount with
  | none =>
    cases balance with
    | none =>
      have hpk : hasPeek lineEndingOrSemi ('\n' :: (ms.flatMap printMetaLine ++ rest)) =
          .ok true ('\n' :: (ms.flatMap printMetaLine ++ rest)) :=
        hasPeek_ok (a := ()) (r := ms.flatMap printMetaLine ++ rest) (by simp [lineEndingOrSemi, alt2])
      simp only [tailGen, balancePart_none, List.nil_append,
        List.dropWhile_cons_of_neg (show ¬ isSpace '\n' = true by decide)]
      simp only [postingTail, bind_apply, hpk, Res.andThen_ok, if_true, hmd, pure_apply]
    | some b =>
      obtain ⟨hwb, hPb⟩ := hb b rfl
      have hdw := dropWhile_balance b j (ms.flatMap printMetaLine ++ rest)
      simp only [tailGen, List.nil_append] at hdw ⊢
      rw [hdw]
      have hpk : hasPeek lineEndingOrSemi ('=' :: ' ' :: (printVExpr b ++ '\n' :: (ms.flatMap printMetaLine ++ rest))) =
          .ok false ('=' :: ' ' :: (printVExpr b ++ '\n' :: (ms.flatMap printMetaLine ++ rest))) :=
        hasPeek_bt (lineEndingOrSemi_bt _ _ (by decide) (by decide) (by decide))
      have hamt : opt (terminated postingAmount space0)
          ('=' :: ' ' :: (printVExpr b ++ '\n' :: (ms.flatMap printMetaLine ++ rest))) =
          .ok none ('=' :: ' ' :: (printVExpr b ++ '\n' :: (ms.flatMap printMetaLine ++ rest))) := by
        apply opt_bt (q := '=' :: ' ' :: (printVExpr b ++ '\n' :: (ms.flatMap printMetaLine ++ rest)))
        rw [postingAmount_eq]
        simp [valueExpr_bt_of_head '=' _ (by decide)]
      have hbal := balance_some hE b hwb hPb (ms.flatMap printMetaLine ++ rest)
      simp only [postingTail, bind_apply, hpk, Res.andThen_ok, Bool.false_eq_true, if_false, hamt, hbal, hmd,
        pure_apply]
  | some a =>
    have hwa := ha a rfl
    obtain ⟨c, t, hc, hh⟩ := printVExpr_head hE a.amount (by
      have := hwa.1; simp only [wfPostingAmount, Bool.and_eq_true] at this; exact this.1.1) hwa.2.1
    have hY := amtFollow_balance balance j (ms.flatMap printMetaLine ++ rest)
    have hamt := postingAmount_rt hE a hwa _ hY
    have hdw : (tailGen (some a) balance k j ++ '\n' :: (ms.flatMap printMetaLine ++ rest)).dropWhile isSpace =
        printVExpr a.amount ++ (printLot a.lot ++ (printCost a.cost ++
          (balancePart balance j ++ '\n' :: (ms.flatMap printMetaLine ++ rest)))) := by
      simp only [tailGen, List.append_assoc, dropWhile_spaces_append]
      apply dropWhile_of_stop
      rw [hc]
      simpa using exprHeadOk_not_space hh
    rw [hdw]
    have hpk : hasPeek lineEndingOrSemi (printVExpr a.amount ++ (printLot a.lot ++ (printCost a.cost ++
          (balancePart balance j ++ '\n' :: (ms.flatMap printMetaLine ++ rest))))) = .ok false
        (printVExpr a.amount ++ (printLot a.lot ++ (printCost a.cost ++
          (balancePart balance j ++ '\n' :: (ms.flatMap printMetaLine ++ rest))))) := by
      rw [hc]
      apply hasPeek_bt
      exact lineEndingOrSemi_bt c _ (exprHeadOk_ne hh (by decide)) (exprHeadOk_ne hh (by decide))
        (exprHeadOk_ne hh (by decide))
    have hamt' := opt_ok hamt
    simp only [postingTail, bind_apply, hpk, Res.andThen_ok, Bool.false_eq_true, if_false, hamt']
    cases balance with
    | none =>
      simp only [balancePart_none, List.nil_append, List.dropWhile_cons_of_neg (show ¬ isSpace '\n' = true by decide),
        balance_none, bind_apply, Res.andThen_ok, hmd, pure_apply]
    | some b =>
      obtain ⟨hwb, hPb⟩ := hb b rfl
      rw [dropWhile_balance b j]
      simp only [balance_some hE b hwb hPb, bind_apply, Res.andThen_ok, hmd, pure_apply]


/-- a posting line without its indentation -/
def printPostingBody (w : List Char → Nat) (p : Posting) : List Char :=
  printClear p.clear ++ (p.account.toList ++
    (printPostingTail w (w p.account.toList + (printClear p.clear).length) p ++
      '\n' :: p.metadata.flatMap printMetaLine))

theorem printPosting_eq (w : List Char → Nat) (p : Posting) : printPosting w p = indent4 ++ printPostingBody w p := rfl

theorem printPostingBody_head (w : List Char → Nat) (p : Posting) (hp : wfPosting p = true) :
    ∃ c t, printPostingBody w p = c :: t ∧ isSpace c = false ∧ c ≠ '\n' ∧ c ≠ '\r' ∧ c ≠ ';' := by
  simp only [wfPosting, Bool.and_eq_true] at hp
  obtain ⟨⟨⟨⟨hacc, _⟩, _⟩, _⟩, _⟩ := hp
  have hsh := wfAccount_shape hacc
  cases hcl : p.clear with
  | uncleared =>
    cases ha : p.account.toList with
    | nil => exact absurd ha hsh.ne
    | cons c t =>
      have h1 := hsh.chars c (by simp [ha])
      have h2 := hsh.head c t ha
      refine ⟨c, _, by simp [printPostingBody, hcl, printClear, ha]; rfl, ?_, h1.1, h1.2.1, h1.2.2.1⟩
      simp [isSpace, h2, h1.2.2.2]
  | cleared => exact ⟨'*', _, by simp [printPostingBody, hcl, printClear]; rfl, by decide, by decide, by decide, by decide⟩
  | pending => exact ⟨'!', _, by simp [printPostingBody, hcl, printClear]; rfl, by decide, by decide, by decide, by decide⟩

/-- `posting` reads back a printed posting line (after any blanks) with its metadata lines -/
theorem postingBody_rt (hE : ExprRT P) (w : List Char → Nat) (p : Posting) (hp : wfPosting p = true)
    (hP : ∀ v ∈ exprsOfPosting p, P v) (sp : List Char) (hsp : ∀ c ∈ sp, isSpace c = true)
    (rest : List Char) (hrest : metaStop rest = true) :
    posting (sp ++ (printPostingBody w p ++ rest)) = .ok p rest := by
  have hp0 := hp
  obtain ⟨c0, t0, hhead, hc0, _⟩ := printPostingBody_head w p hp0
  simp only [wfPosting, Bool.and_eq_true] at hp
  obtain ⟨⟨⟨⟨hacc, hmark⟩, hamt⟩, hbal⟩, hmeta⟩ := hp
  obtain ⟨w0, ws, hwords, hw0, hws, hst⟩ := wfAccount_words hacc
  -- blanks
  have hsp0 : space0 (sp ++ (printPostingBody w p ++ rest)) = .ok sp (printPostingBody w p ++ rest) :=
    space0_append hsp (by rw [hhead]; simpa using hc0)
  -- the account's first character
  obtain ⟨a0, at0, ha0⟩ : ∃ c t, p.account.toList = c :: t := by
    cases h : p.account.toList with
    | nil => exact absurd h (wfAccount_shape hacc).ne
    | cons c t => exact ⟨c, t, rfl⟩
  have ha0s : isSpace a0 = false := by
    have h1 := (wfAccount_shape hacc).chars a0 (by simp [ha0])
    have h2 := (wfAccount_shape hacc).head a0 at0 ha0
    simp [isSpace, h2, h1.2.2.2]
  obtain ⟨k, j, hk, hj, htail⟩ := printPostingTail_eq w (w p.account.toList + (printClear p.clear).length) p
  -- clear state
  have hclear := clearState_rt p.clear (p.account.toList ++ (tailGen p.amount p.balance k j ++
      '\n' :: (p.metadata.flatMap printMetaLine ++ rest)))
    (by rw [ha0]; simpa using ha0s)
    (by
      intro hu
      rw [hu] at hmark
      simp only [bne_self_eq_false, Bool.false_or] at hmark
      rw [ha0] at hmark ⊢
      simpa [notClearMarkStart, isClearMark] using hmark)
  -- account
  have hfollow := tailGen_follow p.amount p.balance k j hk hj (p.metadata.flatMap printMetaLine ++ rest)
  have hacct := postingAccount_rt w0 ws _ hw0 hws hst hfollow
  rw [← List.append_assoc, ← hwords] at hacct
  -- the rest of the line
  have ha' : ∀ a, p.amount = some a → wfPostingAmountP P a := by
    intro a e
    rw [e] at hamt
    have hw := hamt
    simp only [wfPostingAmount, Bool.and_eq_true] at hw
    have hPs : ∀ v ∈ a.amount :: (exprsOfExchange a.lot.price ++ exprsOfExchange a.cost), P v := by
      intro v hv
      apply hP v
      simp only [exprsOfPosting, e]
      exact List.mem_append_left _ hv
    refine ⟨hamt, hPs _ (by simp), wfPriceP_of _ ?_ (fun v hv => hPs v (by simp [hv])),
      wfCostP_of _ hw.2 (fun v hv => hPs v (by simp [hv]))⟩
    have := hw.1.2
    simp only [wfLot, Bool.and_eq_true] at this
    exact this.1.1
  have hb' : ∀ b, p.balance = some b → wfVExpr b = true ∧ P b := by
    intro b e
    rw [e] at hbal
    refine ⟨hbal, hP b ?_⟩
    simp only [exprsOfPosting, e]
    exact List.mem_append_right _ (by simp)
  have hms : ∀ m ∈ p.metadata, wfMetadata m = true := by
    simpa [List.all_eq_true] using hmeta
  have htl := postingTail_rt hE p.clear (String.ofList p.account.toList) p.amount p.balance p.metadata k j rest
    ha' hb' hms hrest
  have hbody : printPostingBody w p ++ rest = printClear p.clear ++ (p.account.toList ++
      (tailGen p.amount p.balance k j ++ '\n' :: (p.metadata.flatMap printMetaLine ++ rest))) := by
    simp only [printPostingBody, htail, List.append_assoc, List.cons_append]
  rw [posting_eq]
  simp only [bind_apply, preceded_apply, hsp0, Res.andThen_ok]
  rw [hbody]
  simp only [hclear, Res.andThen_ok, bind_apply, hacct, htl]
  simp

/-- **the posting round trip**: `posting` reads back every well-formed printed posting (whose value expressions
satisfy `P`), for every display-width function, before any text that is not a further metadata line -/
theorem posting_rt (hE : ExprRT P) (w : List Char → Nat) (p : Posting) (hp : wfPosting p = true)
    (hP : ∀ v ∈ exprsOfPosting p, P v) (rest : List Char) (hrest : metaStop rest = true) :
    posting (printPosting w p ++ rest) = .ok p rest := by
  rw [printPosting_eq, List.append_assoc]
  exact postingBody_rt hE w p hp hP indent4 (by simp [indent4, isSpace]) rest hrest

end Okane.Unparse
