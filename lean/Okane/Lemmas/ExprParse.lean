import Okane.Model.Unparse
import Okane.Spec.Expr
import Okane.Lemmas.Literal
/-!
# The value-expression parser reads back what the printer writes (C08_parse / C05 `ExprRT`)

Model: `Okane.ExprSyntax` (`valueExpr/unaryExpr/mulExpr/mulLoop/addExpr/addLoop`, `printVExpr`).
Reference trees: `Okane.Spec.AddE/MulE/UnaryE/ValueE` (precedence and left associativity are in the types).

Plan of the file
1. tokens: a number the scanner accepts has the shape `-?[0-9,.]+`, so `pretty_decimal` cuts exactly the printed
   number off whatever follows unless that continues the token; a non-negative number is not printed with a `-`;
2. printing equations of `printExpr` / `printVExpr`;
3. the stratified round trip by mutual structural recursion over `AddE/MulE/UnaryE/ValueE`, for every fuel above an
   explicit depth measure, and that measure is below `parseFuel`;
4. transfer to the parser's own tree type: `wfVExpr v` and `plainV v` give a stratified tree.
-/
set_option linter.unusedSimpArgs false
set_option linter.unusedVariables false
namespace Okane.ExprParse
open Okane Okane.Literal Okane.ExprSyntax Okane.Spec
open Okane.Unparse (wfNumber isCommodityText noPrec wfVExpr wfAdd wfMul wfUnary)

/-! ## 1. tokens -/

/-- `rest` is empty or begins with a character that does not satisfy `p` -/
def stops (p : Char → Bool) : List Char → Bool
  | [] => true
  | c :: _ => !p c

@[simp] theorem stops_nil (p : Char → Bool) : stops p [] = true := rfl
@[simp] theorem stops_cons (p : Char → Bool) (c : Char) (r : List Char) : stops p (c :: r) = !p c := rfl

theorem takeWhile_append_stops {p : Char → Bool} {a rest : List Char} (ha : ∀ c ∈ a, p c = true)
    (hr : stops p rest = true) : (a ++ rest).takeWhile p = a := by
  induction a with
  | nil =>
    cases rest with
    | nil => rfl
    | cons c r => simp at hr; simp [List.takeWhile, hr]
  | cons c a ih =>
    have hc := ha c (by simp)
    simp only [List.cons_append, List.takeWhile, hc]
    rw [ih (fun x hx => ha x (by simp [hx]))]

theorem dropWhile_append_stops {p : Char → Bool} {a rest : List Char} (ha : ∀ c ∈ a, p c = true)
    (hr : stops p rest = true) : (a ++ rest).dropWhile p = rest := by
  induction a with
  | nil =>
    cases rest with
    | nil => rfl
    | cons c r => simp at hr; simp [List.dropWhile, hr]
  | cons c a ih =>
    have hc := ha c (by simp)
    simp only [List.cons_append, List.dropWhile, hc]
    exact ih (fun x hx => ha x (by simp [hx]))

theorem dropWhile_stops {p : Char → Bool} {rest : List Char} (hr : stops p rest = true) : rest.dropWhile p = rest := by
  simpa using dropWhile_append_stops (a := []) (by simp) hr

theorem takeWhile_stops {p : Char → Bool} {rest : List Char} (hr : stops p rest = true) : rest.takeWhile p = [] := by
  simpa using takeWhile_append_stops (a := []) (by simp) hr

theorem stops_dropWhile (p : Char → Bool) (l : List Char) : stops p (l.dropWhile p) = true := by
  induction l with
  | nil => rfl
  | cons c t ih =>
    cases h : p c with
    | true => simpa [List.dropWhile, h] using ih
    | false => simp [List.dropWhile, h]

theorem skipSpaces_stops {rest : List Char} (h : stops isSpace rest = true) : skipSpaces rest = rest :=
  dropWhile_stops h

theorem skipSpaces_idem (l : List Char) : skipSpaces (skipSpaces l) = skipSpaces l :=
  dropWhile_stops (stops_dropWhile isSpace l)

/-! ### accepted literals are `-?[0-9,.]+` -/

theorem step_ok_numChar {st st' : St} {i : Nat} {c : Char} (h : step st i c = .ok st') (hi : ¬ (i = 0 ∧ c = '-')) :
    isNumChar c = true := by
  by_cases hd : c.isDigit = true
  · simp [isNumChar, hd]
  · by_cases h2 : c = ','
    · simp [isNumChar, h2]
    · by_cases h3 : c = '.'
      · simp [isNumChar, h3]
      · obtain ⟨e, he⟩ := C07.step_other st i c (by simpa using hd) h2 h3 hi
        rw [he] at h; cases h

theorem loop_ok_numChars : ∀ (s : List Char) (st st' : St) (i : Nat), i ≠ 0 → loop st i s = .ok st' →
    ∀ c ∈ s, isNumChar c = true := by
  intro s
  induction s with
  | nil => intro _ _ _ _ _ c hc; cases hc
  | cons a t ih =>
    intro st st' i hi h c hc
    simp only [loop] at h
    cases hs : step st i a with
    | ok st1 =>
      rw [hs] at h
      rcases List.mem_cons.mp hc with rfl | hc
      · exact step_ok_numChar hs (by omega)
      · exact ih st1 st' (i + 1) (by omega) h c hc
    | err e => rw [hs] at h; cases h
    | panic p => rw [hs] at h; cases h
    | fuelOut => rw [hs] at h; cases h

/-- an optional minus, then a non-empty run of digits, commas and points -/
def TokenShape (s : List Char) : Prop :=
  (∃ body, s = '-' :: body ∧ body ≠ [] ∧ ∀ c ∈ body, isNumChar c = true) ∨
  (s ≠ [] ∧ ∀ c ∈ s, isNumChar c = true)

theorem scan_ok_shape {s : List Char} {d : PDec} (h : scan s = .ok d) : TokenShape s := by
  cases s with
  | nil =>
    have : scan [] = .err (.unexpectedEnd 0) := by decide
    rw [this] at h; cases h
  | cons a t =>
    by_cases hm : a = '-' ∧ t = []
    · obtain ⟨rfl, rfl⟩ := hm
      have : scan ['-'] = .err (.unexpectedEnd 1) := by decide
      rw [this] at h; cases h
    unfold scan at h
    cases hl : loop {} 0 (a :: t) with
    | ok st =>
      simp only [loop] at hl
      cases hs : step {} 0 a with
      | ok st1 =>
        rw [hs] at hl
        have htl := loop_ok_numChars t st1 st 1 (by omega) hl
        by_cases ha : a = '-'
        · subst ha
          exact Or.inl ⟨t, rfl, fun ht => hm ⟨rfl, ht⟩, htl⟩
        · have hna := step_ok_numChar hs (by simp [ha])
          refine Or.inr ⟨by simp, ?_⟩
          intro c hc
          rcases List.mem_cons.mp hc with rfl | hc
          · exact hna
          · exact htl c hc
      | err e => rw [hs] at hl; cases hl
      | panic p => rw [hs] at hl; cases hl
      | fuelOut => rw [hs] at hl; cases hl
    | err e => rw [hl] at h; cases h
    | panic p => rw [hl] at h; cases h
    | fuelOut => rw [hl] at h; cases h

theorem numChar_ne_minus {c : Char} (h : isNumChar c = true) : c ≠ '-' := by
  intro e; subst e; revert h; decide

/-- `tokenSplit` cuts an accepted literal off whatever follows, if that does not continue the number -/
theorem tokenSplit_shape {s X : List Char} (hs : TokenShape s) (hX : stops isNumChar X = true) :
    tokenSplit (s ++ X) = .ok (s, X) := by
  rcases hs with ⟨body, rfl, hne, hall⟩ | ⟨hne, hall⟩
  · have h1 := takeWhile_append_stops hall hX
    have h2 := dropWhile_append_stops hall hX
    simp [tokenSplit, h1, h2, hne]
  · cases s with
    | nil => exact absurd rfl hne
    | cons b t =>
      have hb : b ≠ '-' := numChar_ne_minus (hall b (by simp))
      have h1 := takeWhile_append_stops hall hX
      have h2 := dropWhile_append_stops hall hX
      simp only [List.cons_append] at h1 h2 ⊢
      simp [tokenSplit, hb, h1, h2]

theorem wfNumber_scan {d : PDec} (h : wfNumber d = true) : scan (printPDec d) = .ok d := by
  simpa [wfNumber] using h

/-- `primitive::pretty_decimal` reads back a printed number -/
theorem prettyDecimal_print {d : PDec} (h : wfNumber d = true) {X : List Char} (hX : stops isNumChar X = true) :
    prettyDecimal (printPDec d ++ X) = .ok d X := by
  simp [prettyDecimal, tokenSplit_shape (scan_ok_shape (wfNumber_scan h)) hX, wfNumber_scan h]

/-- the first character of a printed (accepted) number: `-`, a digit, `,` or `.` -/
theorem printPDec_head {d : PDec} (h : wfNumber d = true) :
    ∃ c cs, printPDec d = c :: cs ∧ (c = '-' ∨ isNumChar c = true) := by
  rcases scan_ok_shape (wfNumber_scan h) with ⟨body, he, _, _⟩ | ⟨hne, hall⟩
  · exact ⟨'-', body, he, Or.inl rfl⟩
  · cases hp : printPDec d with
    | nil => exact absurd hp hne
    | cons c cs => exact ⟨c, cs, rfl, Or.inr (hall c (by simp [hp]))⟩

/-! ### a non-negative number is printed without a sign -/

theorem digitChar_numChar : ∀ k, k < 10 → isNumChar (digitChar k) = true := by decide

theorem mem_digits (n : Nat) : ∀ c ∈ digits n, isNumChar c = true := by
  induction n using Nat.strongRecOn with
  | _ n ih =>
    intro c hc
    rw [digits] at hc
    split at hc
    · simp only [List.mem_singleton] at hc
      subst hc; exact digitChar_numChar n (by assumption)
    · rcases List.mem_append.mp hc with h | h
      · exact ih (n / 10) (by omega) c h
      · simp only [List.mem_singleton] at h
        subst h; exact digitChar_numChar _ (by omega)

theorem mem_digits0 (n : Nat) : ∀ c ∈ digits0 n, isNumChar c = true := by
  intro c hc
  unfold digits0 at hc
  split at hc
  · cases hc
  · exact mem_digits n c hc

theorem mem_padZeros (w : Nat) (ds : List Char) (h : ∀ c ∈ ds, isNumChar c = true) :
    ∀ c ∈ padZeros w ds, isNumChar c = true := by
  intro c hc
  rcases List.mem_append.mp hc with h1 | h1
  · rw [(List.mem_replicate.mp h1).2]; decide
  · exact h c h1

theorem mem_printPlain (d : PDec) (hn : d.neg = false) : ∀ c ∈ printPlain d, isNumChar c = true := by
  intro c hc
  have hch := mem_padZeros d.scale _ (mem_digits0 d.mant)
  simp only [printPlain, List.mem_append, hn] at hc
  rcases hc with (h | h) | h
  · simp at h
  · split at h
    · simp only [List.mem_singleton] at h; rw [h]; decide
    · exact hch c (List.mem_of_mem_take h)
  · split at h
    · cases h
    · rcases List.mem_cons.mp h with h | h
      · rw [h]; decide
      · exact hch c (List.mem_of_mem_drop h)

theorem mem_groupLoop (fuel : Nat) : ∀ (rem : List Char) (scale cp : Nat) (ini : Bool),
    (∀ c ∈ (groupLoop fuel rem scale cp ini).1, c = ',' ∨ c ∈ rem) ∧
    (∀ c ∈ (groupLoop fuel rem scale cp ini).2.1, c ∈ rem) := by
  induction fuel with
  | zero => intro rem scale cp ini; simp [groupLoop]
  | succ fuel ih =>
    intro rem scale cp ini
    rw [groupLoop]
    split
    · have ih' := ih (rem.drop cp) scale 3 false
      constructor
      · intro c hc
        simp only [List.mem_append] at hc
        rcases hc with (h | h) | h
        · split at h
          · cases h
          · simp only [List.mem_singleton] at h; exact Or.inl h
        · exact Or.inr (List.mem_of_mem_take h)
        · rcases ih'.1 c h with h | h
          · exact Or.inl h
          · exact Or.inr (List.mem_of_mem_drop h)
      · intro c hc
        exact List.mem_of_mem_drop (ih'.2 c hc)
    · simp

theorem mem_printComma (d : PDec) (hn : d.neg = false) : ∀ c ∈ printComma d, isNumChar c = true := by
  intro c hc
  have hch := mem_padZeros d.scale _ (mem_digits d.mant)
  simp only [printComma, hn] at hc
  generalize hm : padZeros d.scale (digits d.mant) = mantissa at hc hch
  generalize hcp : (if (mantissa.length - d.scale) % 3 = 0 then 3 else (mantissa.length - d.scale) % 3) = cp at hc
  have hg := mem_groupLoop mantissa.length mantissa d.scale cp true
  generalize groupLoop mantissa.length mantissa d.scale cp true = r at hc hg
  obtain ⟨out, rem, ini⟩ := r
  simp only [List.mem_append] at hc
  rcases hc with ((h | h) | h) | h
  · simp at h
  · rcases hg.1 c h with h | h
    · rw [h]; decide
    · exact hch c h
  · split at h
    · simp only [List.mem_singleton] at h; rw [h]; decide
    · cases h
  · split at h
    · cases h
    · rcases List.mem_cons.mp h with h | h
      · rw [h]; decide
      · exact hch c (hg.2 c h)

/-- a non-negative number is printed with digits, commas and points only -/
theorem mem_printPDec (d : PDec) (hn : d.neg = false) : ∀ c ∈ printPDec d, isNumChar c = true := by
  unfold printPDec
  split
  · exact mem_printComma d hn
  · exact mem_printPlain d hn

/-! ## 2. the text of a stratified tree and the leaf -/

/-- `Display for Amount` once the number has been rescaled: the number, and a blank and the commodity if there is one -/
def amtText (d : PDec) (c : String) : List Char :=
  if c.isEmpty then printPDec d else printPDec d ++ ' ' :: c.toList

mutual
def _root_.Okane.Spec.AddE.text : AddE → List Char
  | .one m => m.text
  | .add l r => l.text ++ ' ' :: '+' :: ' ' :: r.text
  | .sub l r => l.text ++ ' ' :: '-' :: ' ' :: r.text
def _root_.Okane.Spec.MulE.text : MulE → List Char
  | .one u => u.text
  | .mul l r => l.text ++ ' ' :: '*' :: ' ' :: r.text
  | .div l r => l.text ++ ' ' :: '/' :: ' ' :: r.text
def _root_.Okane.Spec.UnaryE.text : UnaryE → List Char
  | .pos v => v.text
  | .neg v => '-' :: v.text
def _root_.Okane.Spec.ValueE.text : ValueE → List Char
  | .amt d c => amtText d c
  | .paren a => '(' :: (a.text ++ [')'])
end

/-- what the parser leaves: `expr::amount` eats the blanks after a number without commodity (`terminated(pretty_decimal,
space0)`), nothing else is consumed beyond the printed text -/
def after (bare : Bool) (rest : List Char) : List Char := if bare then skipSpaces rest else rest

/-- the continuation does not extend the last token: after a bare number no digit, comma or point, and no commodity
character after blanks; after a commodity no commodity character -/
def tokFollow (bare : Bool) (rest : List Char) : Bool :=
  if bare then stops isNumChar rest && stops isCommodityChar (skipSpaces rest) else stops isCommodityChar rest

theorem commodityChar_not_space {c : Char} (h : isCommodityChar c = true) : isSpace c = false := by
  cases hs : isSpace c with
  | false => rfl
  | true =>
    simp [isSpace] at hs
    rcases hs with rfl | rfl <;> exact absurd h (by decide)

theorem numChar_not_space {c : Char} (h : isNumChar c = true) : isSpace c = false := by
  cases hs : isSpace c with
  | false => rfl
  | true =>
    simp [isSpace] at hs
    rcases hs with rfl | rfl <;> exact absurd h (by decide)


theorem after_cons_nonspace (b : Bool) {c : Char} (r : List Char) (h : isSpace c = false) : after b (c :: r) = c :: r := by
  cases b <;> simp [after, skipSpaces, List.dropWhile, h]

theorem skipSpaces_after (b : Bool) (r : List Char) : skipSpaces (after b r) = skipSpaces r := by
  cases b <;> simp [after, skipSpaces_idem]

theorem skipSpaces_cons_space (r : List Char) : skipSpaces (' ' :: r) = skipSpaces r := by
  simp [skipSpaces, List.dropWhile, isSpace]

theorem skipSpaces_cons_nonspace {c : Char} (r : List Char) (h : isSpace c = false) : skipSpaces (c :: r) = c :: r := by
  simp [skipSpaces, List.dropWhile, h]

/-- `expr::amount` reads back a printed amount -/
theorem amount_print {d : PDec} {c : String} (hd : wfNumber d = true) (hc : isCommodityText c.toList = true)
    {rest : List Char} (hf : tokFollow c.isEmpty rest = true) :
    amount (amtText d c ++ rest) = .ok (.amt d c) (after c.isEmpty rest) := by
  by_cases he : c.isEmpty = true
  · have hnil : c.toList = [] := by simpa using he
    have hcs : String.ofList [] = c := by rw [← hnil, String.ofList_toList]
    simp only [tokFollow, he, if_true, Bool.and_eq_true] at hf
    have hpd := prettyDecimal_print hd hf.1
    simp [amtText, he, amount, hpd, commodity, takeWhile_stops hf.2, dropWhile_stops hf.2, hcs, after]
  · simp only [tokFollow, he, Bool.false_eq_true, if_false] at hf
    have hpd := prettyDecimal_print hd (X := ' ' :: (c.toList ++ rest)) (by simp [isNumChar])
    simp only [isCommodityText, List.all_eq_true] at hc
    have hsk : skipSpaces (' ' :: (c.toList ++ rest)) = c.toList ++ rest := by
      rw [skipSpaces_cons_space]
      cases hl : c.toList with
      | nil => exact absurd (by simpa using hl) he
      | cons a t =>
        have := commodityChar_not_space (hc a (by simp [hl]))
        simp [skipSpaces, List.dropWhile, this]
    simp [amtText, he, amount, hpd, hsk, commodity, takeWhile_append_stops hc hf, dropWhile_append_stops hc hf, after]

/-! ## 3. the stratified round trip -/

/-- a literal that may stand as an operand without a sign of its own (`unary_expr` dispatches on `-` before the
number token is tried, so `-1` in operand position is read as the negation of `1`) -/
def _root_.Okane.Spec.ValueE.unsigned : ValueE → Bool
  | .amt d _ => !d.neg
  | .paren _ => true

mutual
/-- printable and re-readable: numbers the scanner reads back, commodities made of commodity characters, no
negative literal as an un-negated operand -/
def _root_.Okane.Spec.AddE.ok : AddE → Bool
  | .one m => m.ok
  | .add l r => l.ok && r.ok
  | .sub l r => l.ok && r.ok
def _root_.Okane.Spec.MulE.ok : MulE → Bool
  | .one u => u.ok
  | .mul l r => l.ok && r.ok
  | .div l r => l.ok && r.ok
def _root_.Okane.Spec.UnaryE.ok : UnaryE → Bool
  | .pos v => v.ok && v.unsigned
  | .neg v => v.ok
def _root_.Okane.Spec.ValueE.ok : ValueE → Bool
  | .amt d c => wfNumber d && isCommodityText c.toList
  | .paren a => a.ok
end

/-- the printed text ends with a number without commodity -/
def _root_.Okane.Spec.ValueE.bare : ValueE → Bool
  | .amt _ c => c.isEmpty
  | .paren _ => false
def _root_.Okane.Spec.UnaryE.bare : UnaryE → Bool
  | .pos v => v.bare
  | .neg v => v.bare
def _root_.Okane.Spec.MulE.bare : MulE → Bool
  | .one u => u.bare
  | .mul _ r => r.bare
  | .div _ r => r.bare
def _root_.Okane.Spec.AddE.bare : AddE → Bool
  | .one m => m.bare
  | .add _ r => r.bare
  | .sub _ r => r.bare

/-- number of operators of the chain (fold iterations) -/
def _root_.Okane.Spec.MulE.cnt : MulE → Nat
  | .one _ => 0
  | .mul l _ => l.cnt + 1
  | .div l _ => l.cnt + 1
def _root_.Okane.Spec.AddE.cnt : AddE → Nat
  | .one _ => 0
  | .add l _ => l.cnt + 1
  | .sub l _ => l.cnt + 1

mutual
/-- fuel with which the parser reaches the end of the tree's text (the fold loops need `cnt + 2` besides) -/
def _root_.Okane.Spec.AddE.need : AddE → Nat
  | .one m => max m.need (m.cnt + 2) + 1
  | .add l r => max l.need (max r.need (r.cnt + 2) + l.cnt + 2)
  | .sub l r => max l.need (max r.need (r.cnt + 2) + l.cnt + 2)
def _root_.Okane.Spec.MulE.need : MulE → Nat
  | .one u => u.need + 1
  | .mul l r => max l.need (r.need + l.cnt + 2)
  | .div l r => max l.need (r.need + l.cnt + 2)
def _root_.Okane.Spec.UnaryE.need : UnaryE → Nat
  | .pos v => v.need + 1
  | .neg v => v.need + 1
def _root_.Okane.Spec.ValueE.need : ValueE → Nat
  | .amt _ _ => 1
  | .paren a => max a.need (a.cnt + 2) + 1
end

/-- the first non-blank character of the continuation is not `*` or `/` -/
def mulStop (rest : List Char) : Bool :=
  match skipSpaces rest with
  | [] => true
  | c :: _ => (mulOp c).isNone
/-- the first non-blank character of the continuation is not `+` or `-` -/
def addStop (rest : List Char) : Bool :=
  match skipSpaces rest with
  | [] => true
  | c :: _ => (addOp c).isNone

/-- the text begins with a character that is not a blank -/
def HeadNS (l : List Char) : Prop := ∃ c cs, l = c :: cs ∧ isSpace c = false

theorem HeadNS.append {l : List Char} (h : HeadNS l) (x : List Char) : HeadNS (l ++ x) := by
  obtain ⟨c, cs, rfl, hc⟩ := h
  exact ⟨c, cs ++ x, rfl, hc⟩

theorem HeadNS.skip {l : List Char} (h : HeadNS l) : skipSpaces l = l := by
  obtain ⟨c, cs, rfl, hc⟩ := h
  exact skipSpaces_cons_nonspace cs hc

theorem amtText_head {d : PDec} (c : String) (h : wfNumber d = true) :
    ∃ a cs, amtText d c = a :: cs ∧ (a = '-' ∨ isNumChar a = true) ∧ (d.neg = false → isNumChar a = true) := by
  obtain ⟨a, cs, he, ha⟩ := printPDec_head h
  have hneg : d.neg = false → isNumChar a = true := fun hn => mem_printPDec d hn a (by simp [he])
  unfold amtText
  split
  · exact ⟨a, cs, he, ha, hneg⟩
  · exact ⟨a, cs ++ ' ' :: c.toList, by simp [he], ha, hneg⟩

theorem head_class {a : Char} (h : a = '-' ∨ isNumChar a = true) : isSpace a = false ∧ a ≠ '(' := by
  rcases h with rfl | h
  · decide
  · refine ⟨numChar_not_space h, ?_⟩
    intro e; subst e; revert h; decide

mutual
theorem addE_head : ∀ (a : AddE), a.ok = true → HeadNS a.text
  | .one m, h => by simp only [AddE.ok] at h; simpa only [AddE.text] using mulE_head m h
  | .add l r, h => by
    simp only [AddE.ok, Bool.and_eq_true] at h; simpa only [AddE.text] using (addE_head l h.1).append _
  | .sub l r, h => by
    simp only [AddE.ok, Bool.and_eq_true] at h; simpa only [AddE.text] using (addE_head l h.1).append _
theorem mulE_head : ∀ (m : MulE), m.ok = true → HeadNS m.text
  | .one u, h => by simp only [MulE.ok] at h; simpa only [MulE.text] using unaryE_head u h
  | .mul l r, h => by
    simp only [MulE.ok, Bool.and_eq_true] at h; simpa only [MulE.text] using (mulE_head l h.1).append _
  | .div l r, h => by
    simp only [MulE.ok, Bool.and_eq_true] at h; simpa only [MulE.text] using (mulE_head l h.1).append _
theorem unaryE_head : ∀ (u : UnaryE), u.ok = true → HeadNS u.text
  | .pos v, h => by
    simp only [UnaryE.ok, Bool.and_eq_true] at h; simpa only [UnaryE.text] using valueE_head v h.1
  | .neg v, h => ⟨'-', v.text, by simp only [UnaryE.text], by decide⟩
theorem valueE_head : ∀ (v : ValueE), v.ok = true → HeadNS v.text
  | .amt d c, h => by
    simp only [ValueE.ok, Bool.and_eq_true] at h
    obtain ⟨a, cs, he, ha, _⟩ := amtText_head c h.1
    exact ⟨a, cs, by simp only [ValueE.text, he], (head_class ha).1⟩
  | .paren a, h => ⟨'(', a.text ++ [')'], by simp only [ValueE.text], by decide⟩
end
--END
/-! ### one step of each parser -/

theorem valueExpr_amount (f : Nat) {c : Char} (cs : List Char) (h : c ≠ '(') :
    valueExpr (f + 1) (c :: cs) = amount (c :: cs) := by
  rw [valueExpr]
  · intro heq; cases heq
  · intro r heq; injection heq with h1 _; exact h h1

theorem valueExpr_paren {f : Nat} {r rest rest' : List Char} {e : Expr}
    (h : addExpr f (skipSpaces r) = .ok e rest) (h2 : skipSpaces rest = ')' :: rest') :
    valueExpr (f + 1) ('(' :: r) = .ok (.paren e) rest' := by
  rw [valueExpr, h]; simp only; rw [h2]; rfl

theorem unaryExpr_neg {f : Nat} {r rest : List Char} {v : VExpr} (h : valueExpr f r = .ok v rest) :
    unaryExpr (f + 1) ('-' :: r) = .ok (.neg (.val v)) rest := by
  rw [unaryExpr, h]

theorem unaryExpr_pos {f : Nat} {c : Char} {cs rest : List Char} {v : VExpr} (hc : c ≠ '-')
    (h : valueExpr f (c :: cs) = .ok v rest) :
    unaryExpr (f + 1) (c :: cs) = .ok (.val v) rest := by
  rw [unaryExpr, h]
  · intro heq; cases heq
  · intro r heq; injection heq with h1 _; exact hc h1
theorem sepOp_after (op : Char → Option BinOp) (b : Bool) (r : List Char) : sepOp op (after b r) = sepOp op r := by
  simp only [sepOp, skipSpaces_after]

theorem sepOp_op (op : Char → Option BinOp) (o : Char) (X : List Char) (hX : HeadNS X) :
    sepOp op (' ' :: o :: ' ' :: X) = if isSpace o then sepOp op (o :: ' ' :: X) else (op o).map fun b => (b, X) := by
  cases ho : isSpace o with
  | true => simp [sepOp, skipSpaces_cons_space]
  | false =>
    simp [sepOp, skipSpaces_cons_space, skipSpaces_cons_nonspace _ ho, hX.skip]

theorem mulLoop_stop (g : Nat) (acc : Expr) (b : Bool) (rest : List Char) (h : mulStop rest = true) :
    ExprSyntax.mulLoop (g + 1) acc (after b rest) = .ok acc (after b rest) := by
  rw [ExprSyntax.mulLoop, sepOp_after]
  have : sepOp mulOp rest = none := by
    unfold mulStop at h
    unfold sepOp
    split at h
    · rename_i heq; rw [heq]
    · rename_i c r heq; rw [heq]; simpa using h
  rw [this]

theorem addLoop_stop (g : Nat) (acc : Expr) (b : Bool) (rest : List Char) (h : addStop rest = true) :
    addLoop (g + 1) acc (after b rest) = .ok acc (after b rest) := by
  rw [addLoop, sepOp_after]
  have : sepOp addOp rest = none := by
    unfold addStop at h
    unfold sepOp
    split at h
    · rename_i heq; rw [heq]
    · rename_i c r heq; rw [heq]; simpa using h
  rw [this]
--END
/-! ### the continuations the printer itself produces are admissible -/

theorem follow_op (b : Bool) (o : Char) (X : List Char) (ho : o = '+' ∨ o = '-' ∨ o = '*' ∨ o = '/') :
    tokFollow b (' ' :: o :: ' ' :: X) = true := by
  rcases ho with rfl | rfl | rfl | rfl <;> cases b <;>
    simp [tokFollow, skipSpaces, List.dropWhile, isSpace, isNumChar] <;> decide

theorem follow_close (b : Bool) (X : List Char) : tokFollow b (')' :: X) = true := by
  cases b <;> simp [tokFollow, skipSpaces, List.dropWhile, isSpace, isNumChar] <;> decide

theorem mulStop_addop (o : Char) (X : List Char) (ho : o = '+' ∨ o = '-') : mulStop (' ' :: o :: ' ' :: X) = true := by
  rcases ho with rfl | rfl <;> simp [mulStop, skipSpaces, List.dropWhile, isSpace, mulOp]

theorem mulStop_close (X : List Char) : mulStop (')' :: X) = true := by
  simp [mulStop, skipSpaces, List.dropWhile, isSpace, mulOp]

theorem addStop_close (X : List Char) : addStop (')' :: X) = true := by
  simp [addStop, skipSpaces, List.dropWhile, isSpace, addOp]

theorem valueE_head_unsigned (v : ValueE) (h : v.ok = true) (hu : v.unsigned = true) :
    ∃ c cs, v.text = c :: cs ∧ c ≠ '-' := by
  cases v with
  | amt d c =>
    simp only [ValueE.ok, Bool.and_eq_true] at h
    simp only [ValueE.unsigned, Bool.not_eq_true'] at hu
    obtain ⟨a, cs, he, _, hn⟩ := amtText_head c h.1
    exact ⟨a, cs, by simp only [ValueE.text, he], numChar_ne_minus (hn hu)⟩
  | paren a => exact ⟨'(', a.text ++ [')'], by simp only [ValueE.text], by decide⟩
--END
/-! ### the parsers on the text of a stratified tree (any sufficient fuel) -/

mutual
/-- `add_expr` on the text of `a`: the first operand and `a.cnt` fold iterations later the loop stands at the end of
the text with the left-nested tree -/
theorem addE_parse : ∀ (a : AddE) (k : Nat) (rest : List Char), a.ok = true → tokFollow a.bare rest = true →
    mulStop rest = true → a.need ≤ k + 1 + a.cnt →
    addExpr (k + 1 + a.cnt) (a.text ++ rest) = addLoop k a.toExpr (after a.bare rest)
  | .one m, k, rest, hok, hf, hms, hn => by
    simp only [AddE.ok] at hok
    simp only [AddE.bare] at hf ⊢
    simp only [AddE.need, AddE.cnt] at hn
    simp only [AddE.text, AddE.toExpr, AddE.cnt, Nat.add_zero]
    obtain ⟨k', rfl⟩ : ∃ k', k = k' + 1 + 1 + m.cnt := ⟨k - 2 - m.cnt, by omega⟩
    rw [addExpr, mulE_parse m (k' + 1) rest hok hf (by omega), mulLoop_stop k' _ _ _ hms]
  | .add l r, k, rest, hok, hf, hms, hn => by
    simp only [AddE.ok, Bool.and_eq_true] at hok
    simp only [AddE.bare] at hf ⊢
    simp only [AddE.need, AddE.cnt] at hn
    simp only [AddE.text, AddE.toExpr, AddE.cnt, List.append_assoc, List.cons_append]
    obtain ⟨k', rfl⟩ : ∃ k', k = k' + 1 + 1 + r.cnt := ⟨k - 2 - r.cnt, by omega⟩
    have e : k' + 1 + 1 + r.cnt + 1 + (l.cnt + 1) = (k' + 1 + 1 + r.cnt + 1) + 1 + l.cnt := by omega
    rw [e, addE_parse l (k' + 1 + 1 + r.cnt + 1) _ hok.1 (follow_op _ '+' _ (by simp)) (mulStop_addop '+' _ (by simp))
      (by omega)]
    rw [addLoop, sepOp_after, sepOp_op _ _ _ ((mulE_head r hok.2).append rest)]
    simp only [isSpace, addOp, Option.map, Char.reduceBEq, Bool.or_self, Bool.false_eq_true, if_false]
    rw [mulE_parse r (k' + 1) rest hok.2 hf (by omega), mulLoop_stop k' _ _ _ hms]
  | .sub l r, k, rest, hok, hf, hms, hn => by
    simp only [AddE.ok, Bool.and_eq_true] at hok
    simp only [AddE.bare] at hf ⊢
    simp only [AddE.need, AddE.cnt] at hn
    simp only [AddE.text, AddE.toExpr, AddE.cnt, List.append_assoc, List.cons_append]
    obtain ⟨k', rfl⟩ : ∃ k', k = k' + 1 + 1 + r.cnt := ⟨k - 2 - r.cnt, by omega⟩
    have e : k' + 1 + 1 + r.cnt + 1 + (l.cnt + 1) = (k' + 1 + 1 + r.cnt + 1) + 1 + l.cnt := by omega
    rw [e, addE_parse l (k' + 1 + 1 + r.cnt + 1) _ hok.1 (follow_op _ '-' _ (by simp)) (mulStop_addop '-' _ (by simp))
      (by omega)]
    rw [addLoop, sepOp_after, sepOp_op _ _ _ ((mulE_head r hok.2).append rest)]
    simp only [isSpace, addOp, Option.map, Char.reduceBEq, Bool.or_self, Bool.false_eq_true, if_false]
    rw [mulE_parse r (k' + 1) rest hok.2 hf (by omega), mulLoop_stop k' _ _ _ hms]
/-- `mul_expr` likewise -/
theorem mulE_parse : ∀ (m : MulE) (k : Nat) (rest : List Char), m.ok = true → tokFollow m.bare rest = true →
    m.need ≤ k + 1 + m.cnt →
    mulExpr (k + 1 + m.cnt) (m.text ++ rest) = ExprSyntax.mulLoop k m.toExpr (after m.bare rest)
  | .one u, k, rest, hok, hf, hn => by
    simp only [MulE.ok] at hok
    simp only [MulE.bare] at hf ⊢
    simp only [MulE.need, MulE.cnt] at hn
    simp only [MulE.text, MulE.toExpr, MulE.cnt, Nat.add_zero]
    rw [mulExpr, unaryE_parse u k rest hok hf (by omega)]
  | .mul l r, k, rest, hok, hf, hn => by
    simp only [MulE.ok, Bool.and_eq_true] at hok
    simp only [MulE.bare] at hf ⊢
    simp only [MulE.need, MulE.cnt] at hn
    simp only [MulE.text, MulE.toExpr, MulE.cnt, List.append_assoc, List.cons_append]
    have e : k + 1 + (l.cnt + 1) = (k + 1) + 1 + l.cnt := by omega
    rw [e, mulE_parse l (k + 1) _ hok.1 (follow_op _ '*' _ (by simp)) (by omega)]
    rw [ExprSyntax.mulLoop, sepOp_after, sepOp_op _ _ _ ((unaryE_head r hok.2).append rest)]
    simp only [isSpace, mulOp, Option.map, Char.reduceBEq, Bool.or_self, Bool.false_eq_true, if_false]
    rw [unaryE_parse r k rest hok.2 hf (by omega)]
  | .div l r, k, rest, hok, hf, hn => by
    simp only [MulE.ok, Bool.and_eq_true] at hok
    simp only [MulE.bare] at hf ⊢
    simp only [MulE.need, MulE.cnt] at hn
    simp only [MulE.text, MulE.toExpr, MulE.cnt, List.append_assoc, List.cons_append]
    have e : k + 1 + (l.cnt + 1) = (k + 1) + 1 + l.cnt := by omega
    rw [e, mulE_parse l (k + 1) _ hok.1 (follow_op _ '/' _ (by simp)) (by omega)]
    rw [ExprSyntax.mulLoop, sepOp_after, sepOp_op _ _ _ ((unaryE_head r hok.2).append rest)]
    simp only [isSpace, mulOp, Option.map, Char.reduceBEq, Bool.or_self, Bool.false_eq_true, if_false]
    rw [unaryE_parse r k rest hok.2 hf (by omega)]
/-- `unary_expr` reads back a (possibly negated) value -/
theorem unaryE_parse : ∀ (u : UnaryE) (f : Nat) (rest : List Char), u.ok = true → tokFollow u.bare rest = true →
    u.need ≤ f → unaryExpr f (u.text ++ rest) = .ok u.toExpr (after u.bare rest)
  | .pos v, f, rest, hok, hf, hn => by
    simp only [UnaryE.ok, Bool.and_eq_true] at hok
    simp only [UnaryE.bare] at hf ⊢
    simp only [UnaryE.need] at hn
    simp only [UnaryE.text, UnaryE.toExpr]
    obtain ⟨g, rfl⟩ : ∃ g, f = g + 1 := ⟨f - 1, by omega⟩
    have hv := valueE_parse v g rest hok.1 hf (by omega)
    obtain ⟨c, cs, he, hc⟩ := valueE_head_unsigned v hok.1 hok.2
    rw [he, List.cons_append] at hv ⊢
    exact unaryExpr_pos hc hv
  | .neg v, f, rest, hok, hf, hn => by
    simp only [UnaryE.ok] at hok
    simp only [UnaryE.bare] at hf ⊢
    simp only [UnaryE.need] at hn
    simp only [UnaryE.text, UnaryE.toExpr, List.cons_append]
    obtain ⟨g, rfl⟩ : ∃ g, f = g + 1 := ⟨f - 1, by omega⟩
    exact unaryExpr_neg (valueE_parse v g rest hok hf (by omega))
/-- `value_expr` reads back an amount or a parenthesised sum -/
theorem valueE_parse : ∀ (v : ValueE) (f : Nat) (rest : List Char), v.ok = true → tokFollow v.bare rest = true →
    v.need ≤ f → valueExpr f (v.text ++ rest) = .ok v.toVExpr (after v.bare rest)
  | .amt d c, f, rest, hok, hf, hn => by
    simp only [ValueE.ok, Bool.and_eq_true] at hok
    simp only [ValueE.bare] at hf ⊢
    simp only [ValueE.need] at hn
    simp only [ValueE.text, ValueE.toVExpr]
    obtain ⟨g, rfl⟩ : ∃ g, f = g + 1 := ⟨f - 1, by omega⟩
    have ha := amount_print hok.1 hok.2 hf
    obtain ⟨a, cs, he, hcl, _⟩ := amtText_head c hok.1
    rw [he, List.cons_append] at ha ⊢
    rw [valueExpr_amount g _ (head_class hcl).2, ha]
  | .paren a, f, rest, hok, hf, hn => by
    simp only [ValueE.ok] at hok
    simp only [ValueE.need] at hn
    simp only [ValueE.text, ValueE.toVExpr, ValueE.bare, after, Bool.false_eq_true, if_false, List.cons_append,
      List.append_assoc, List.nil_append]
    obtain ⟨k', rfl⟩ : ∃ k', f = (k' + 1 + 1 + a.cnt) + 1 := ⟨f - 3 - a.cnt, by omega⟩
    apply valueExpr_paren (rest := ')' :: rest)
    · rw [((addE_head a hok).append _).skip,
        addE_parse a (k' + 1) (')' :: rest) hok (follow_close _ _) (mulStop_close _) (by omega),
        addLoop_stop k' _ _ _ (addStop_close _), after_cons_nonspace _ _ (by decide)]
    · exact skipSpaces_cons_nonspace _ (by decide)
end
--END
/-! ### `parseFuel` suffices -/

mutual
theorem addE_bound : ∀ (a : AddE), a.need ≤ 5 * a.text.length + 4 ∧ 3 * a.cnt ≤ a.text.length
  | .one m => by
    have := mulE_bound m
    simp only [AddE.need, AddE.cnt, AddE.text]; omega
  | .add l r => by
    have := addE_bound l; have := mulE_bound r
    simp only [AddE.need, AddE.cnt, AddE.text, List.length_append, List.length_cons]; omega
  | .sub l r => by
    have := addE_bound l; have := mulE_bound r
    simp only [AddE.need, AddE.cnt, AddE.text, List.length_append, List.length_cons]; omega
theorem mulE_bound : ∀ (m : MulE), m.need ≤ 5 * m.text.length + 3 ∧ 3 * m.cnt ≤ m.text.length
  | .one u => by
    have := unaryE_bound u
    simp only [MulE.need, MulE.cnt, MulE.text]; omega
  | .mul l r => by
    have := mulE_bound l; have := unaryE_bound r
    simp only [MulE.need, MulE.cnt, MulE.text, List.length_append, List.length_cons]; omega
  | .div l r => by
    have := mulE_bound l; have := unaryE_bound r
    simp only [MulE.need, MulE.cnt, MulE.text, List.length_append, List.length_cons]; omega
theorem unaryE_bound : ∀ (u : UnaryE), u.need ≤ 5 * u.text.length + 2
  | .pos v => by
    have := valueE_bound v
    simp only [UnaryE.need, UnaryE.text]; omega
  | .neg v => by
    have := valueE_bound v
    simp only [UnaryE.need, UnaryE.text, List.length_cons]; omega
theorem valueE_bound : ∀ (v : ValueE), v.need ≤ 5 * v.text.length + 1
  | .amt d c => by simp only [ValueE.need]; omega
  | .paren a => by
    have := addE_bound a
    simp only [ValueE.need, ValueE.text, List.length_append, List.length_cons, List.length_nil]; omega
end

/-- the continuation does not extend the last token of the text of `v`: nothing is required after `)` -/
def _root_.Okane.Spec.ValueE.follow (v : ValueE) (rest : List Char) : Bool :=
  match v with
  | .paren _ => true
  | .amt _ c => tokFollow c.isEmpty rest

/-- `paren_expr`, whatever follows the closing parenthesis -/
theorem paren_parse (a : AddE) (f : Nat) (rest : List Char) (hok : a.ok = true)
    (hn : max a.need (a.cnt + 2) + 1 ≤ f) :
    valueExpr f ('(' :: (a.text ++ ')' :: rest)) = .ok (.paren a.toExpr) rest := by
  obtain ⟨k', rfl⟩ : ∃ k', f = (k' + 1 + 1 + a.cnt) + 1 := ⟨f - 3 - a.cnt, by omega⟩
  apply valueExpr_paren (rest := ')' :: rest)
  · rw [((addE_head a hok).append _).skip,
      addE_parse a (k' + 1) (')' :: rest) hok (follow_close _ _) (mulStop_close _) (by omega),
      addLoop_stop k' _ _ _ (addStop_close _), after_cons_nonspace _ _ (by decide)]
  · exact skipSpaces_cons_nonspace _ (by decide)

/-- **the stratified round trip**: `value_expr` (with the fuel the model always passes) reads the text of a
stratified tree back as exactly that tree, leaving the continuation (less the blanks `amount` eats after a number
without commodity) -/
theorem valueE_roundtrip (v : ValueE) (rest : List Char) (hok : v.ok = true) (hf : v.follow rest = true) :
    parseValueExpr (v.text ++ rest) = .ok v.toVExpr (after v.bare rest) := by
  have hb := valueE_bound v
  have hfuel : v.need ≤ parseFuel (v.text ++ rest) := by simp only [parseFuel, List.length_append]; omega
  cases v with
  | amt d c => exact valueE_parse (.amt d c) _ rest hok (by simpa [ValueE.follow, ValueE.bare] using hf) hfuel
  | paren a =>
    simp only [ValueE.ok] at hok
    simp only [ValueE.need] at hfuel
    simp only [ValueE.text, ValueE.toVExpr, ValueE.bare, after, Bool.false_eq_true, if_false, List.cons_append,
      List.append_assoc, List.nil_append] at hfuel ⊢
    exact paren_parse a _ rest hok hfuel

/-- `add_expr` (any sufficient fuel) reads the text of a stratified sum back as its left-nested tree, before any
continuation that neither extends the last token nor continues the sum -/
theorem addE_roundtrip (a : AddE) (f : Nat) (rest : List Char) (hok : a.ok = true) (hf : tokFollow a.bare rest = true)
    (hm : mulStop rest = true) (ha : addStop rest = true) (hfuel : 5 * a.text.length + 5 ≤ f) :
    addExpr f (a.text ++ rest) = .ok a.toExpr (after a.bare rest) := by
  have hb := addE_bound a
  obtain ⟨k, rfl⟩ : ∃ k, f = (k + 1) + 1 + a.cnt := ⟨f - 2 - a.cnt, by omega⟩
  rw [addE_parse a (k + 1) rest hok hf hm (by omega), addLoop_stop k _ _ _ ha]
--END
/-! ## 4. the parser's own tree type -/

/-- an operand that carries no sign of its own -/
def unsignedV : VExpr → Bool
  | .amt d _ => !d.neg
  | .paren _ => true

mutual
/-- no negative literal stands as an un-negated operand (`(-1)` is read back as the negation of `1`; a negative
amount as the whole value expression, and `--1`, are fine) -/
def plainE : Expr → Bool
  | .neg (.val v) => plainV v
  | .neg e => plainE e
  | .bin _ l r => plainE l && plainE r
  | .val v => unsignedV v && plainV v
def plainV : VExpr → Bool
  | .amt _ _ => true
  | .paren e => plainE e
end

theorem unsigned_toVExpr (t : ValueE) : t.unsigned = unsignedV t.toVExpr := by
  cases t <;> rfl

/-- every well-formed plain tree is the image of a stratified tree -/
theorem stratify (n : Nat) :
    (∀ e : Expr, sizeOf e ≤ n → plainE e = true →
      (wfUnary e = true → ∃ u : UnaryE, u.toExpr = e ∧ u.ok = true) ∧
      (wfMul e = true → ∃ m : MulE, m.toExpr = e ∧ m.ok = true) ∧
      (wfAdd e = true → ∃ a : AddE, a.toExpr = e ∧ a.ok = true)) ∧
    (∀ v : VExpr, sizeOf v ≤ n → plainV v = true → wfVExpr v = true → ∃ t : ValueE, t.toVExpr = v ∧ t.ok = true) := by
  induction n with
  | zero =>
    constructor
    · intro e he; cases e <;> simp at he <;> omega
    · intro v hv; cases v <;> simp at hv <;> omega
  | succ n ih =>
    have hV : ∀ v : VExpr, sizeOf v ≤ n + 1 → plainV v = true → wfVExpr v = true →
        ∃ t : ValueE, t.toVExpr = v ∧ t.ok = true := by
      intro v hv hp hw
      cases v with
      | amt d c => exact ⟨.amt d c, rfl, by simpa [ValueE.ok, wfVExpr] using hw⟩
      | paren e =>
        simp only [VExpr.paren.sizeOf_spec] at hv
        simp only [plainV] at hp
        simp only [wfVExpr] at hw
        obtain ⟨a, ha, hok⟩ := (ih.1 e (by omega) hp).2.2 hw
        exact ⟨.paren a, by simp only [ValueE.toVExpr, ha], by simpa only [ValueE.ok] using hok⟩
    refine ⟨?_, hV⟩
    intro e he hp
    have hU : wfUnary e = true → ∃ u : UnaryE, u.toExpr = e ∧ u.ok = true := by
      intro hw
      cases e with
      | neg e' =>
        cases e' with
        | val v =>
          simp only [Expr.neg.sizeOf_spec, Expr.val.sizeOf_spec] at he
          simp only [plainE] at hp
          simp only [wfUnary] at hw
          obtain ⟨t, ht, hok⟩ := ih.2 v (by omega) hp hw
          exact ⟨.neg t, by simp only [UnaryE.toExpr, ht], by simpa only [UnaryE.ok] using hok⟩
        | neg _ => simp [wfUnary] at hw
        | bin _ _ _ => simp [wfUnary] at hw
      | val v =>
        simp only [Expr.val.sizeOf_spec] at he
        simp only [plainE, Bool.and_eq_true] at hp
        simp only [wfUnary] at hw
        obtain ⟨t, ht, hok⟩ := ih.2 v (by omega) hp.2 hw
        refine ⟨.pos t, by simp only [UnaryE.toExpr, ht], ?_⟩
        simp only [UnaryE.ok, hok, unsigned_toVExpr, ht, hp.1, Bool.and_self]
      | bin _ _ _ => simp [wfUnary] at hw
    have hM : wfMul e = true → ∃ m : MulE, m.toExpr = e ∧ m.ok = true := by
      intro hw
      cases e with
      | bin op l r =>
        simp only [Expr.bin.sizeOf_spec] at he
        simp only [plainE, Bool.and_eq_true] at hp
        cases op with
        | mul =>
          simp only [wfMul, Bool.and_eq_true] at hw
          obtain ⟨m, hm, hmo⟩ := (ih.1 l (by omega) hp.1).2.1 hw.1
          obtain ⟨u, hu, huo⟩ := (ih.1 r (by omega) hp.2).1 hw.2
          exact ⟨.mul m u, by simp only [MulE.toExpr, hm, hu], by simp only [MulE.ok, hmo, huo, Bool.and_self]⟩
        | div =>
          simp only [wfMul, Bool.and_eq_true] at hw
          obtain ⟨m, hm, hmo⟩ := (ih.1 l (by omega) hp.1).2.1 hw.1
          obtain ⟨u, hu, huo⟩ := (ih.1 r (by omega) hp.2).1 hw.2
          exact ⟨.div m u, by simp only [MulE.toExpr, hm, hu], by simp only [MulE.ok, hmo, huo, Bool.and_self]⟩
        | add => simp [wfMul] at hw
        | sub => simp [wfMul] at hw
      | neg e' =>
        obtain ⟨u, hu, huo⟩ := hU (by simpa [wfMul] using hw)
        exact ⟨.one u, by simp only [MulE.toExpr, hu], by simpa only [MulE.ok] using huo⟩
      | val v =>
        obtain ⟨u, hu, huo⟩ := hU (by simpa [wfMul] using hw)
        exact ⟨.one u, by simp only [MulE.toExpr, hu], by simpa only [MulE.ok] using huo⟩
    refine ⟨hU, hM, ?_⟩
    intro hw
    cases e with
    | bin op l r =>
      simp only [Expr.bin.sizeOf_spec] at he
      have hp' := hp
      simp only [plainE, Bool.and_eq_true] at hp'
      cases op with
      | add =>
        simp only [wfAdd, Bool.and_eq_true] at hw
        obtain ⟨a, ha, hao⟩ := (ih.1 l (by omega) hp'.1).2.2 hw.1
        obtain ⟨m, hm, hmo⟩ := (ih.1 r (by omega) hp'.2).2.1 hw.2
        exact ⟨.add a m, by simp only [AddE.toExpr, ha, hm], by simp only [AddE.ok, hao, hmo, Bool.and_self]⟩
      | sub =>
        simp only [wfAdd, Bool.and_eq_true] at hw
        obtain ⟨a, ha, hao⟩ := (ih.1 l (by omega) hp'.1).2.2 hw.1
        obtain ⟨m, hm, hmo⟩ := (ih.1 r (by omega) hp'.2).2.1 hw.2
        exact ⟨.sub a m, by simp only [AddE.toExpr, ha, hm], by simp only [AddE.ok, hao, hmo, Bool.and_self]⟩
      | mul =>
        obtain ⟨m, hm, hmo⟩ := hM (by simpa [wfAdd] using hw)
        exact ⟨.one m, by simp only [AddE.toExpr, hm], by simpa only [AddE.ok] using hmo⟩
      | div =>
        obtain ⟨m, hm, hmo⟩ := hM (by simpa [wfAdd] using hw)
        exact ⟨.one m, by simp only [AddE.toExpr, hm], by simpa only [AddE.ok] using hmo⟩
    | neg e' =>
      obtain ⟨m, hm, hmo⟩ := hM (by simpa [wfAdd] using hw)
      exact ⟨.one m, by simp only [AddE.toExpr, hm], by simpa only [AddE.ok] using hmo⟩
    | val v =>
      obtain ⟨m, hm, hmo⟩ := hM (by simpa [wfAdd] using hw)
      exact ⟨.one m, by simp only [AddE.toExpr, hm], by simpa only [AddE.ok] using hmo⟩

theorem stratifyV (v : VExpr) (hw : wfVExpr v = true) (hp : plainV v = true) :
    ∃ t : ValueE, t.toVExpr = v ∧ t.ok = true :=
  (stratify (sizeOf v)).2 v (Nat.le_refl _) hp hw

theorem stratifyA (e : Expr) (hw : wfAdd e = true) (hp : plainE e = true) :
    ∃ a : AddE, a.toExpr = e ∧ a.ok = true :=
  ((stratify (sizeOf e)).1 e (Nat.le_refl _) hp).2.2 hw
--END
/-! ### what the printer writes -/

theorem printExpr_bin (p : String → Nat) (op : BinOp) (l r : Expr) :
    printExpr p (.bin op l r) = printExpr p l ++ ' ' :: opChar op :: ' ' :: printExpr p r := by
  simp [printExpr, printExprA]
theorem printExpr_neg (p : String → Nat) (e : Expr) : printExpr p (.neg e) = '-' :: printExpr p e := by
  simp [printExpr, printExprA]
theorem printExpr_val (p : String → Nat) (v : VExpr) : printExpr p (.val v) = printVExpr p v := by
  simp [printExpr, printVExpr, printExprA]
theorem printVExpr_paren (p : String → Nat) (e : Expr) : printVExpr p (.paren e) = '(' :: (printExpr p e ++ [')']) := by
  simp [printExpr, printVExpr, printVExprA]
theorem printVExpr_amt (p : String → Nat) (d : PDec) (c : String) :
    printVExpr p (.amt d c) = amtText (displayRescale p d c) c := by
  simp [printVExpr, printVExprA, amtText]; split <;> rfl

theorem displayRescale_noPrec (d : PDec) (c : String) : displayRescale noPrec d c = d := by
  simp [displayRescale, noPrec, rescale]

mutual
/-- without declared precisions the printer writes the text of the stratified tree -/
theorem addE_print : ∀ (a : AddE), printExpr noPrec a.toExpr = a.text
  | .one m => by simp only [AddE.toExpr, AddE.text, mulE_print m]
  | .add l r => by simp only [AddE.toExpr, AddE.text, printExpr_bin, opChar, addE_print l, mulE_print r]
  | .sub l r => by simp only [AddE.toExpr, AddE.text, printExpr_bin, opChar, addE_print l, mulE_print r]
theorem mulE_print : ∀ (m : MulE), printExpr noPrec m.toExpr = m.text
  | .one u => by simp only [MulE.toExpr, MulE.text, unaryE_print u]
  | .mul l r => by simp only [MulE.toExpr, MulE.text, printExpr_bin, opChar, mulE_print l, unaryE_print r]
  | .div l r => by simp only [MulE.toExpr, MulE.text, printExpr_bin, opChar, mulE_print l, unaryE_print r]
theorem unaryE_print : ∀ (u : UnaryE), printExpr noPrec u.toExpr = u.text
  | .pos v => by simp only [UnaryE.toExpr, UnaryE.text, printExpr_val, valueE_print v]
  | .neg v => by simp only [UnaryE.toExpr, UnaryE.text, printExpr_neg, printExpr_val, valueE_print v]
theorem valueE_print : ∀ (v : ValueE), printVExpr noPrec v.toVExpr = v.text
  | .amt d c => by simp only [ValueE.toVExpr, ValueE.text, printVExpr_amt, displayRescale_noPrec]
  | .paren a => by simp only [ValueE.toVExpr, ValueE.text, printVExpr_paren, addE_print a]
end

/-! ### the round trip on `VExpr` -/

/-- the printed value expression ends with a number without commodity -/
def bareV : VExpr → Bool
  | .amt _ c => c.isEmpty
  | .paren _ => false

theorem bare_toVExpr (t : ValueE) : t.bare = bareV t.toVExpr := by cases t <;> rfl

/-- the continuation does not extend the last token of the printed `v`: nothing is required after `)`; after a
commodity, no commodity character; after a number without commodity, no digit, comma or point, and no commodity
character after blanks -/
def follow (v : VExpr) (rest : List Char) : Bool :=
  match v with
  | .paren _ => true
  | .amt _ _ => tokFollow (bareV v) rest

/-- what is left after the value expression: `expr::amount` also eats the blanks after a number without commodity -/
def afterV (v : VExpr) (rest : List Char) : List Char := after (bareV v) rest

/-- **C08_parse / ExprRT.**  `value_expr` reads back what `fmt_with_alignment` writes (no declared precisions), for
every well-formed plain tree and every continuation that does not extend its last token. -/
theorem parse_print (v : VExpr) (rest : List Char) (hw : wfVExpr v = true) (hp : plainV v = true)
    (hf : follow v rest = true) :
    parseValueExpr (printVExpr noPrec v ++ rest) = .ok v (afterV v rest) := by
  obtain ⟨t, rfl, hok⟩ := stratifyV v hw hp
  have hf' : t.follow rest = true := by
    cases t with
    | amt d c => simpa [follow, ValueE.toVExpr, bareV, ValueE.follow] using hf
    | paren a => rfl
  rw [valueE_print, afterV, ← bare_toVExpr]
  exact valueE_roundtrip t rest hok hf'
--END
/-! ### a tree-independent admissibility condition (what follows an expression in a posting) -/

/-- the continuation is empty, or its first character is not a digit, comma or point and its first non-blank
character is not a commodity character.  True of everything that follows a value expression in the ledger grammar:
end of input, new-line, `;`, `)`, `}`, `]`, `=`, `@`, and a blank or tab followed by `@`, `=`, `{`, `[`, `(`, `;`, … -/
def ExprFollow (rest : List Char) : Bool := stops isNumChar rest && stops isCommodityChar (skipSpaces rest)

theorem space_not_commodity {c : Char} (h : isSpace c = true) : isCommodityChar c = false := by
  cases hc : isCommodityChar c with
  | false => rfl
  | true => rw [commodityChar_not_space hc] at h; cases h

theorem follow_of_exprFollow (v : VExpr) {rest : List Char} (h : ExprFollow rest = true) : follow v rest = true := by
  simp only [ExprFollow, Bool.and_eq_true] at h
  cases v with
  | paren e => rfl
  | amt d c =>
    simp only [follow, tokFollow]
    split
    · simp [h.1, h.2]
    · cases rest with
      | nil => rfl
      | cons a r =>
        cases ha : isSpace a with
        | true => simp [space_not_commodity ha]
        | false => simpa [skipSpaces_cons_nonspace r ha] using h.2

theorem afterV_cases (v : VExpr) (rest : List Char) : afterV v rest = rest ∨ afterV v rest = skipSpaces rest := by
  unfold afterV after; split <;> simp

theorem skipSpaces_afterV (v : VExpr) (rest : List Char) : skipSpaces (afterV v rest) = skipSpaces rest :=
  skipSpaces_after _ _

/-- the round trip in the form the posting parser uses it (`ExprRT`): whatever admissible text follows, the tree is
read back and the parser stops at the continuation, up to blanks it may have eaten -/
theorem parse_print_follow (v : VExpr) (rest : List Char) (hw : wfVExpr v = true) (hp : plainV v = true)
    (hf : ExprFollow rest = true) :
    ∃ r', parseValueExpr (printVExpr noPrec v ++ rest) = .ok v r' ∧ skipSpaces r' = skipSpaces rest ∧
      (r' = rest ∨ r' = skipSpaces rest) :=
  ⟨afterV v rest, parse_print v rest hw hp (follow_of_exprFollow v hf), skipSpaces_afterV v rest, afterV_cases v rest⟩

/-! ### with declared precisions: the numbers are read back as padded by `display.rs::rescale` -/

mutual
/-- the tree whose numbers are rescaled the way the printer does it (`max(own scale, declared precision)`) -/
def rescaleE (p : String → Nat) : Expr → Expr
  | .neg e => .neg (rescaleE p e)
  | .bin op l r => .bin op (rescaleE p l) (rescaleE p r)
  | .val v => .val (rescaleV p v)
def rescaleV (p : String → Nat) : VExpr → VExpr
  | .paren e => .paren (rescaleE p e)
  | .amt d c => .amt (displayRescale p d c) c
end

mutual
theorem printExpr_rescale (p : String → Nat) : ∀ e : Expr, printExpr p e = printExpr noPrec (rescaleE p e)
  | .neg e => by simp only [rescaleE, printExpr_neg, printExpr_rescale p e]
  | .bin op l r => by simp only [rescaleE, printExpr_bin, printExpr_rescale p l, printExpr_rescale p r]
  | .val v => by simp only [rescaleE, printExpr_val, printVExpr_rescale p v]
theorem printVExpr_rescale (p : String → Nat) : ∀ v : VExpr, printVExpr p v = printVExpr noPrec (rescaleV p v)
  | .paren e => by simp only [rescaleV, printVExpr_paren, printExpr_rescale p e]
  | .amt d c => by simp only [rescaleV, printVExpr_amt, displayRescale_noPrec]
end

mutual
theorem rescaleE_noPrec : ∀ e : Expr, rescaleE noPrec e = e
  | .neg e => by simp only [rescaleE, rescaleE_noPrec e]
  | .bin op l r => by simp only [rescaleE, rescaleE_noPrec l, rescaleE_noPrec r]
  | .val v => by simp only [rescaleE, rescaleV_noPrec v]
theorem rescaleV_noPrec : ∀ v : VExpr, rescaleV noPrec v = v
  | .paren e => by simp only [rescaleV, rescaleE_noPrec e]
  | .amt d c => by simp only [rescaleV, displayRescale_noPrec]
end

/-- the round trip for any table of declared precisions: what is read back is the tree with the numbers as printed
(`rescaleV`; with no declared precision that is the tree itself, `rescaleV_noPrec`) -/
theorem parse_print_prec (p : String → Nat) (v : VExpr) (rest : List Char) (hw : wfVExpr (rescaleV p v) = true)
    (hp : plainV (rescaleV p v) = true) (hf : follow v rest = true) :
    parseValueExpr (printVExpr p v ++ rest) = .ok (rescaleV p v) (afterV v rest) := by
  have h1 : follow (rescaleV p v) rest = follow v rest := by cases v <;> rfl
  have h2 : afterV (rescaleV p v) rest = afterV v rest := by cases v <;> rfl
  rw [printVExpr_rescale, ← h2]
  exact parse_print _ rest hw hp (by rw [h1]; exact hf)
--END
/-! ### the stratified tree is determined by the parser's tree, hence by the text -/

theorem ofExprMul_unary (u : UnaryE) : ofExprMul u.toExpr = (ofExprUnary u.toExpr).map .one := by
  cases u <;> simp [UnaryE.toExpr, ofExprMul]

theorem ofExprAdd_mul (m : MulE) : ofExprAdd m.toExpr = (ofExprMul m.toExpr).map .one := by
  cases m with
  | one u => cases u <;> simp [MulE.toExpr, UnaryE.toExpr, ofExprAdd]
  | mul l r => simp [MulE.toExpr, ofExprAdd]
  | div l r => simp [MulE.toExpr, ofExprAdd]

mutual
/-- `Spec.ofExprAdd` (the reading of a parser tree as a stratified tree) inverts `toExpr` -/
theorem ofExprAdd_toExpr : ∀ a : AddE, ofExprAdd a.toExpr = some a
  | .one m => by simp only [AddE.toExpr, ofExprAdd_mul, ofExprMul_toExpr m, Option.map]
  | .add l r => by simp [AddE.toExpr, ofExprAdd, ofExprAdd_toExpr l, ofExprMul_toExpr r]
  | .sub l r => by simp [AddE.toExpr, ofExprAdd, ofExprAdd_toExpr l, ofExprMul_toExpr r]
theorem ofExprMul_toExpr : ∀ m : MulE, ofExprMul m.toExpr = some m
  | .one u => by simp only [MulE.toExpr, ofExprMul_unary, ofExprUnary_toExpr u, Option.map]
  | .mul l r => by simp [MulE.toExpr, ofExprMul, ofExprMul_toExpr l, ofExprUnary_toExpr r]
  | .div l r => by simp [MulE.toExpr, ofExprMul, ofExprMul_toExpr l, ofExprUnary_toExpr r]
theorem ofExprUnary_toExpr : ∀ u : UnaryE, ofExprUnary u.toExpr = some u
  | .pos v => by simp [UnaryE.toExpr, ofExprUnary, ofVExpr_toVExpr v]
  | .neg v => by simp [UnaryE.toExpr, ofExprUnary, ofVExpr_toVExpr v]
theorem ofVExpr_toVExpr : ∀ v : ValueE, ofVExpr v.toVExpr = some v
  | .amt d c => by simp [ValueE.toVExpr, ofVExpr]
  | .paren a => by simp [ValueE.toVExpr, ofVExpr, ofExprAdd_toExpr a]
end

theorem toVExpr_injective {a b : ValueE} (h : a.toVExpr = b.toVExpr) : a = b := by
  have := ofVExpr_toVExpr a
  rw [h, ofVExpr_toVExpr b] at this
  exact (Option.some.inj this).symm

theorem toExpr_injective {a b : AddE} (h : a.toExpr = b.toExpr) : a = b := by
  have := ofExprAdd_toExpr a
  rw [h, ofExprAdd_toExpr b] at this
  exact (Option.some.inj this).symm

theorem follow_nil (v : ValueE) : v.follow [] = true := by
  cases v with
  | paren a => rfl
  | amt d c => cases h : c.isEmpty <;> simp [ValueE.follow, tokFollow, h, skipSpaces]

/-- **unambiguity of the printed form**: two printable stratified trees with the same text are the same tree — the
text determines how the operators nest -/
theorem text_injective (a b : ValueE) (ha : a.ok = true) (hb : b.ok = true) (h : a.text = b.text) : a = b := by
  have h1 := valueE_roundtrip a [] ha (follow_nil a)
  have h2 := valueE_roundtrip b [] hb (follow_nil b)
  rw [h, h2] at h1
  injection h1 with h1 _
  exact (toVExpr_injective h1).symm

/-! ### why `plainV` is needed: `wfVExpr` alone does not give the round trip -/

/-- the statement with `wfVExpr` as the only hypothesis on the tree -/
def parse_print_wfOnly_stmt : Prop :=
  ∀ (v : VExpr) (rest : List Char), wfVExpr v = true → follow v rest = true →
    parseValueExpr (printVExpr noPrec v ++ rest) = .ok v (afterV v rest)

deriving instance DecidableEq for Expr, VExpr
deriving instance DecidableEq for PRes

/-- `(-1)`: a negative literal as an operand -/
def negOperand : VExpr := .paren (.val (.amt ⟨true, 1, 0, none⟩ ""))

theorem negOperand_wf : wfVExpr negOperand = true := by
  simp only [negOperand, wfVExpr, wfAdd, wfMul, wfUnary]
  decide +kernel

theorem negOperand_reads :
    plainV negOperand = false ∧ printVExpr noPrec negOperand = ['(', '-', '1', ')'] ∧
    parseValueExpr (printVExpr noPrec negOperand) = .ok (.paren (.neg (.val (.amt ⟨false, 1, 0, none⟩ "")))) [] := by
  decide +kernel

theorem not_parse_print_wfOnly : ¬ parse_print_wfOnly_stmt := by
  intro h
  have h1 := h negOperand [] negOperand_wf rfl
  rw [List.append_nil, negOperand_reads.2.2] at h1
  revert h1
  decide
--END
end Okane.ExprParse
