import Okane.Model.Unparse
import Okane.Spec.Expr
import Okane.Lemmas.Literal
/-!
# The value-expression parser reads back what the printer writes (C08_parse / C05 `ExprRT`)

Model: `Okane.ExprSyntax` (`valueExpr/unaryExpr/mulExpr/mulLoop/addExpr/addLoop`, `printVExpr`).
Reference trees: `Okane.Spec.AddE/MulE/UnaryE/ValueE` (precedence and left associativity are in the types).

Plan of the file
1. tokens: a number the scanner accepts has the shape `-?[0-9,.]+`, so `pretty_decimal` cuts exactly the printed
   number off whatever follows unless that continues the token; a non-negative number is not printed with a `-`;
2. printing equations of `printExpr` / `printVExpr`;
3. the stratified round trip by mutual structural recursion over `AddE/MulE/UnaryE/ValueE`, for every fuel above an
   explicit depth measure, and that measure is below `parseFuel`;
4. transfer to the parser's own tree type: `wfVExpr v` and `plainV v` give a stratified tree.
-/
set_option linter.unusedSimpArgs false
set_option linter.unusedVariables false
namespace Okane.ExprParse
open Okane Okane.Literal Okane.ExprSyntax Okane.Spec
open Okane.Unparse (wfNumber isCommodityText noPrec wfVExpr wfAdd wfMul wfUnary)

/-! ## 1. tokens -/

/-- `rest` is empty or begins with a character that does not satisfy `p` -/
def stops (p : Char → Bool) : List Char → Bool
  | [] => true
  | c :: _ => !p c

@[simp] theorem stops_nil (p : Char → Bool) : stops p [] = true := rfl
@[simp] theorem stops_cons (p : Char → Bool) (c : Char) (r : List Char) : stops p (c :: r) = !p c := rfl

theorem takeWhile_append_stops {p : Char → Bool} {a rest : List Char} (ha : ∀ c ∈ a, p c = true)
    (hr : stops p rest = true) : (a ++ rest).takeWhile p = a := by
  induction a with
  | nil =>
    cases rest with
    | nil => rfl
    | cons c r => simp at hr; simp [List.takeWhile, hr]
  | cons c a ih =>
    have hc := ha c (by simp)
    simp only [List.cons_append, List.takeWhile, hc]
    rw [ih (fun x hx => ha x (by simp [hx]))]

theorem dropWhile_append_stops {p : Char → Bool} {a rest : List Char} (ha : ∀ c ∈ a, p c = true)
    (hr : stops p rest = true) : (a ++ rest).dropWhile p = rest := by
  induction a with
  | nil =>
    cases rest with
    | nil => rfl
    | cons c r => simp at hr; simp [List.dropWhile, hr]
  | cons c a ih =>
    have hc := ha c (by simp)
    simp only [List.cons_append, List.dropWhile, hc]
    exact ih (fun x hx => ha x (by simp [hx]))

theorem dropWhile_stops {p : Char → Bool} {rest : List Char} (hr : stops p rest = true) : rest.dropWhile p = rest := by
  simpa using dropWhile_append_stops (a := []) (by simp) hr

theorem takeWhile_stops {p : Char → Bool} {rest : List Char} (hr : stops p rest = true) : rest.takeWhile p = [] := by
  simpa using takeWhile_append_stops (a := []) (by simp) hr

theorem stops_dropWhile (p : Char → Bool) (l : List Char) : stops p (l.dropWhile p) = true := by
  induction l with
  | nil => rfl
  | cons c t ih =>
    cases h : p c with
    | true => simpa [List.dropWhile, h] using ih
    | false => simp [List.dropWhile, h]

theorem skipSpaces_stops {rest : List Char} (h : stops isSpace rest = true) : skipSpaces rest = rest :=
  dropWhile_stops h

theorem skipSpaces_idem (l : List Char) : skipSpaces (skipSpaces l) = skipSpaces l :=
  dropWhile_stops (stops_dropWhile isSpace l)

/-! ### accepted literals are `-?[0-9,.]+` -/

theorem step_ok_numChar {st st' : St} {i : Nat} {c : Char} (h : step st i c = .ok st') (hi : ¬ (i = 0 ∧ c = '-')) :
    isNumChar c = true := by
  by_cases hd : c.isDigit = true
  · simp [isNumChar, hd]
  · by_cases h2 : c = ','
    · simp [isNumChar, h2]
    · by_cases h3 : c = '.'
      · simp [isNumChar, h3]
      · obtain ⟨e, he⟩ := C07.step_other st i c (by simpa using hd) h2 h3 hi
        rw [he] at h; cases h

theorem loop_ok_numChars : ∀ (s : List Char) (st st' : St) (i : Nat), i ≠ 0 → loop st i s = .ok st' →
    ∀ c ∈ s, isNumChar c = true := by
  intro s
  induction s with
  | nil => intro _ _ _ _ _ c hc; cases hc
  | cons a t ih =>
    intro st st' i hi h c hc
    simp only [loop] at h
    cases hs : step st i a with
    | ok st1 =>
      rw [hs] at h
      rcases List.mem_cons.mp hc with rfl | hc
      · exact step_ok_numChar hs (by omega)
      · exact ih st1 st' (i + 1) (by omega) h c hc
    | err e => rw [hs] at h; cases h
    | panic p => rw [hs] at h; cases h
    | fuelOut => rw [hs] at h; cases h

/-- an optional minus, then a non-empty run of digits, commas and points -/
def TokenShape (s : List Char) : Prop :=
  (∃ body, s = '-' :: body ∧ body ≠ [] ∧ ∀ c ∈ body, isNumChar c = true) ∨
  (s ≠ [] ∧ ∀ c ∈ s, isNumChar c = true)

theorem scan_ok_shape {s : List Char} {d : PDec} (h : scan s = .ok d) : TokenShape s := by
  cases s with
  | nil =>
    have : scan [] = .err (.unexpectedEnd 0) := by decide
    rw [this] at h; cases h
  | cons a t =>
    by_cases hm : a = '-' ∧ t = []
    · obtain ⟨rfl, rfl⟩ := hm
      have : scan ['-'] = .err (.unexpectedEnd 1) := by decide
      rw [this] at h; cases h
    unfold scan at h
    cases hl : loop {} 0 (a :: t) with
    | ok st =>
      simp only [loop] at hl
      cases hs : step {} 0 a with
      | ok st1 =>
        rw [hs] at hl
        have htl := loop_ok_numChars t st1 st 1 (by omega) hl
        by_cases ha : a = '-'
        · subst ha
          exact Or.inl ⟨t, rfl, fun ht => hm ⟨rfl, ht⟩, htl⟩
        · have hna := step_ok_numChar hs (by simp [ha])
          refine Or.inr ⟨by simp, ?_⟩
          intro c hc
          rcases List.mem_cons.mp hc with rfl | hc
          · exact hna
          · exact htl c hc
      | err e => rw [hs] at hl; cases hl
      | panic p => rw [hs] at hl; cases hl
      | fuelOut => rw [hs] at hl; cases hl
    | err e => rw [hl] at h; cases h
    | panic p => rw [hl] at h; cases h
    | fuelOut => rw [hl] at h; cases h

theorem numChar_ne_minus {c : Char} (h : isNumChar c = true) : c ≠ '-' := by
  intro e; subst e; revert h; decide

/-- `tokenSplit` cuts an accepted literal off whatever follows, if that does not continue the number -/
theorem tokenSplit_shape {s X : List Char} (hs : TokenShape s) (hX : stops isNumChar X = true) :
    tokenSplit (s ++ X) = .ok (s, X) := by
  rcases hs with ⟨body, rfl, hne, hall⟩ | ⟨hne, hall⟩
  · have h1 := takeWhile_append_stops hall hX
    have h2 := dropWhile_append_stops hall hX
    simp [tokenSplit, h1, h2, hne]
  · cases s with
    | nil => exact absurd rfl hne
    | cons b t =>
      have hb : b ≠ '-' := numChar_ne_minus (hall b (by simp))
      have h1 := takeWhile_append_stops hall hX
      have h2 := dropWhile_append_stops hall hX
      simp only [List.cons_append] at h1 h2 ⊢
      simp [tokenSplit, hb, h1, h2]

theorem wfNumber_scan {d : PDec} (h : wfNumber d = true) : scan (printPDec d) = .ok d := by
  simpa [wfNumber] using h

/-- `primitive::pretty_decimal` reads back a printed number -/
theorem prettyDecimal_print {d : PDec} (h : wfNumber d = true) {X : List Char} (hX : stops isNumChar X = true) :
    prettyDecimal (printPDec d ++ X) = .ok d X := by
  simp [prettyDecimal, tokenSplit_shape (scan_ok_shape (wfNumber_scan h)) hX, wfNumber_scan h]

/-- the first character of a printed (accepted) number: `-`, a digit, `,` or `.` -/
theorem printPDec_head {d : PDec} (h : wfNumber d = true) :
    ∃ c cs, printPDec d = c :: cs ∧ (c = '-' ∨ isNumChar c = true) := by
  rcases scan_ok_shape (wfNumber_scan h) with ⟨body, he, _, _⟩ | ⟨hne, hall⟩
  · exact ⟨'-', body, he, Or.inl rfl⟩
  · cases hp : printPDec d with
    | nil => exact absurd hp hne
    | cons c cs => exact ⟨c, cs, rfl, Or.inr (hall c (by simp [hp]))⟩

/-! ### a non-negative number is printed without a sign -/

theorem digitChar_numChar : ∀ k, k < 10 → isNumChar (digitChar k) = true := by decide

theorem mem_digits (n : Nat) : ∀ c ∈ digits n, isNumChar c = true := by
  induction n using Nat.strongRecOn with
  | _ n ih =>
    intro c hc
    rw [digits] at hc
    split at hc
    · simp only [List.mem_singleton] at hc
      subst hc; exact digitChar_numChar n (by assumption)
    · rcases List.mem_append.mp hc with h | h
      · exact ih (n / 10) (by omega) c h
      · simp only [List.mem_singleton] at h
        subst h; exact digitChar_numChar _ (by omega)

theorem mem_digits0 (n : Nat) : ∀ c ∈ digits0 n, isNumChar c = true := by
  intro c hc
  unfold digits0 at hc
  split at hc
  · cases hc
  · exact mem_digits n c hc

theorem mem_padZeros (w : Nat) (ds : List Char) (h : ∀ c ∈ ds, isNumChar c = true) :
    ∀ c ∈ padZeros w ds, isNumChar c = true := by
  intro c hc
  rcases List.mem_append.mp hc with h1 | h1
  · rw [(List.mem_replicate.mp h1).2]; decide
  · exact h c h1

theorem mem_printPlain (d : PDec) (hn : d.neg = false) : ∀ c ∈ printPlain d, isNumChar c = true := by
  intro c hc
  have hch := mem_padZeros d.scale _ (mem_digits0 d.mant)
  simp only [printPlain, List.mem_append, hn] at hc
  rcases hc with (h | h) | h
  · simp at h
  · split at h
    · simp only [List.mem_singleton] at h; rw [h]; decide
    · exact hch c (List.mem_of_mem_take h)
  · split at h
    · cases h
    · rcases List.mem_cons.mp h with h | h
      · rw [h]; decide
      · exact hch c (List.mem_of_mem_drop h)

theorem mem_groupLoop (fuel : Nat) : ∀ (rem : List Char) (scale cp : Nat) (ini : Bool),
    (∀ c ∈ (groupLoop fuel rem scale cp ini).1, c = ',' ∨ c ∈ rem) ∧
    (∀ c ∈ (groupLoop fuel rem scale cp ini).2.1, c ∈ rem) := by
  induction fuel with
  | zero => intro rem scale cp ini; simp [groupLoop]
  | succ fuel ih =>
    intro rem scale cp ini
    rw [groupLoop]
    split
    · have ih' := ih (rem.drop cp) scale 3 false
      constructor
      · intro c hc
        simp only [List.mem_append] at hc
        rcases hc with (h | h) | h
        · split at h
          · cases h
          · simp only [List.mem_singleton] at h; exact Or.inl h
        · exact Or.inr (List.mem_of_mem_take h)
        · rcases ih'.1 c h with h | h
          · exact Or.inl h
          · exact Or.inr (List.mem_of_mem_drop h)
      · intro c hc
        exact List.mem_of_mem_drop (ih'.2 c hc)
    · simp

theorem mem_printComma (d : PDec) (hn : d.neg = false) : ∀ c ∈ printComma d, isNumChar c = true := by
  intro c hc
  have hch := mem_padZeros d.scale _ (mem_digits d.mant)
  simp only [printComma, hn] at hc
  generalize hm : padZeros d.scale (digits d.mant) = mantissa at hc hch
  generalize hcp : (if (mantissa.length - d.scale) % 3 = 0 then 3 else (mantissa.length - d.scale) % 3) = cp at hc
  have hg := mem_groupLoop mantissa.length mantissa d.scale cp true
  generalize groupLoop mantissa.length mantissa d.scale cp true = r at hc hg
  obtain ⟨out, rem, ini⟩ := r
  simp only [List.mem_append] at hc
  rcases hc with ((h | h) | h) | h
  · simp at h
  · rcases hg.1 c h with h | h
    · rw [h]; decide
    · exact hch c h
  · split at h
    · simp only [List.mem_singleton] at h; rw [h]; decide
    · cases h
  · split at h
    · cases h
    · rcases List.mem_cons.mp h with h | h
      · rw [h]; decide
      · exact hch c (hg.2 c h)

/-- a non-negative number is printed with digits, commas and points only -/
theorem mem_printPDec (d : PDec) (hn : d.neg = false) : ∀ c ∈ printPDec d, isNumChar c = true := by
  unfold printPDec
  split
  · exact mem_printComma d hn
  · exact mem_printPlain d hn

end Okane.ExprParse
