import Okane.Model.Process
import Okane.Lemmas.Amount
/-!
# Book-keeping accepts single-commodity ledgers with explicit amounts (lemmas for C16_accepts / C18_accepts)

The ledgers the importers print have a very regular shape: every posting carries an explicit amount in one
commodity `c` without cost or lot, exactly the postings on the imported account `acct` may carry a balance
assertion, and no `account` / `commodity` directive occurs.  For such ledgers `process` is characterised
completely: it succeeds iff every transaction sums to zero and every assertion equals the running balance.
This file proves the "if" direction, by induction over postings (`loopSyntax`), then transactions
(`processFrom`).
-/
set_option linter.unusedSectionVars false
set_option linter.unusedVariables false
namespace Okane

/-! ## stores without aliases -/

/-- every registered name is canonical -/
def Store.NoAlias (s : Store) : Prop := ∀ n, s.resolve n = none ∨ s.resolve n = some n

theorem Store.noAlias_empty : (({} : Store)).NoAlias := by
  intro n; left; simp [Store.resolve]

theorem Store.ensure_fst (s : Store) (h : s.NoAlias) (n : String) : (s.ensure n).1 = n := by
  unfold Store.ensure
  rcases h n with h1 | h1 <;> simp [h1]

theorem Store.ensure_noAlias (s : Store) (h : s.NoAlias) (n : String) : (s.ensure n).2.NoAlias := by
  unfold Store.ensure
  rcases h n with h1 | h1
  · simp only [h1]
    intro m
    unfold Store.resolve
    simp only [AMap.get?_insert]
    by_cases hm : n = m
    · subst hm; simp
    · simp only [hm, if_false]
      have := h m
      unfold Store.resolve at this
      exact this
  · simp only [h1]; exact h

/-- the part of `ReportContext` the importers' ledgers leave alone -/
structure CtxOK (c : Ctx) : Prop where
  accounts : c.accounts.NoAlias
  commodities : c.commodities.NoAlias
  formatting : c.formatting = []

theorem CtxOK.empty : CtxOK {} := ⟨Store.noAlias_empty, Store.noAlias_empty, rfl⟩

/-! ## the shape of the importers' postings -/

/-- `acct`'s balance in `c` is `x` (and the stored amount is well formed) -/
structure BalOK (bal : Balance String String) (acct c : String) (x : Rat) : Prop where
  wf : AMap.WF (Balance.get bal acct)
  val : Amount.getPart (Balance.get bal acct) c = x

/-- the running value of `acct` after a posting -/
def stepX (acct : String) (x : Rat) (account : String) (v : Rat) : Rat := if account = acct then x + v else x

/-- Postings with an explicit amount in `c`, no cost, no lot; an assertion only on `acct` and equal to the
running balance `x` of `acct` (which starts at `x`). -/
def PostingsOK (acct c : String) : Rat → List Posting → Prop
  | _, [] => True
  | x, p :: ps =>
    ∃ v : PDec, p.amount = some { amount := .amt v c, cost := none, lot := {} } ∧
      (p.balance = none ∨
        (p.account = acct ∧ ∃ b : PDec, p.balance = some (.amt b c) ∧ b.toRat = stepX acct x p.account v.toRat)) ∧
      PostingsOK acct c (stepX acct x p.account v.toRat) ps

/-- value of `acct` after the postings -/
def finalX (acct : String) : Rat → List Posting → Rat
  | x, [] => x
  | x, p :: ps =>
    match p.amount with
    | some { amount := .amt v _, .. } => finalX acct (stepX acct x p.account v.toRat) ps
    | _ => finalX acct x ps

/-- sum of the posted values -/
def sumV : List Posting → Rat
  | [] => 0
  | p :: ps =>
    match p.amount with
    | some { amount := .amt v _, .. } => v.toRat + sumV ps
    | _ => sumV ps

/-- state of the posting loop: nothing omitted so far, the running sum is `s` in `c` and nothing else -/
structure TSOK (ts : TxnState String String) (c : String) (s : Rat) : Prop where
  unfilled : ts.unfilled = none
  wf : AMap.WF ts.balance
  val : Amount.getPart ts.balance c = s
  others : ∀ c', c' ≠ c → Amount.getPart ts.balance c' = 0

/-! ## one posting -/

theorem resolvePosting_simple (ctx : Ctx) (hctx : CtxOK ctx) (c : String) (hc : c ≠ "") (p : Posting) (v : PDec)
    (hamt : p.amount = some { amount := .amt v c, cost := none, lot := {} })
    (hbal : p.balance = none ∨ ∃ b : PDec, p.balance = some (.amt b c)) :
    ∃ ctx', CtxOK ctx' ∧
      resolvePosting ctx p =
        .ok (⟨p.account, some (.plain (.single ⟨v.toRat, c⟩)),
              match p.balance with
              | some (.amt b _) => some (.single ⟨b.toRat, c⟩)
              | _ => none⟩, ctx') := by
  have hce : c.isEmpty = false := by
    cases hh : c.isEmpty with
    | false => rfl
    | true => exact absurd (String.isEmpty_iff.mp hh) hc
  have ha1 := Store.ensure_fst ctx.accounts hctx.accounts p.account
  have ha2 := Store.ensure_noAlias ctx.accounts hctx.accounts p.account
  have hc1 := Store.ensure_fst ctx.commodities hctx.commodities c
  have hc2 := Store.ensure_noAlias ctx.commodities hctx.commodities c
  rcases hbal with hb | ⟨b, hb⟩
  · refine ⟨{ ctx with accounts := (ctx.accounts.ensure p.account).2, commodities := (ctx.commodities.ensure c).2 },
      ⟨ha2, hc2, hctx.formatting⟩, ?_⟩
    unfold resolvePosting
    simp only [hamt, hb]
    simp [resolveAmount, evalPostingAmt, evalMut, evalVExprWith, leafMut, hce, Evaluated.toPosting, Evaluated.toAmount,
      Amount.toPosting, resolveOptExchange, resolveOptBalance, hc1, ha1]
  · have hc3 := Store.ensure_fst (ctx.commodities.ensure c).2 hc2 c
    have hc4 := Store.ensure_noAlias (ctx.commodities.ensure c).2 hc2 c
    refine ⟨{ ctx with accounts := (ctx.accounts.ensure p.account).2,
                       commodities := ((ctx.commodities.ensure c).2.ensure c).2 },
      ⟨ha2, hc4, hctx.formatting⟩, ?_⟩
    unfold resolvePosting
    simp only [hamt, hb]
    simp [resolveAmount, evalPostingAmt, evalMut, evalVExprWith, leafMut, hce, Evaluated.toPosting, Evaluated.toAmount,
      Amount.toPosting, resolveOptExchange, resolveOptBalance, hc1, ha1, hc3]

theorem getPart_single (c c' : String) (v : Rat) :
    Amount.getPart (PostingAmt.toAmount (.single ⟨v, c⟩)) c' = if c = c' then v else 0 := by
  unfold Amount.getPart PostingAmt.toAmount
  simp only [AMap.get?]
  by_cases h : c = c' <;> simp [h]

theorem stepPosting_simple (date : Date) (ts : TxnState String String) (idx : Nat) (acct c : String) (x s : Rat)
    (a : String) (v : Rat) (bexp : Option Rat)
    (hts : TSOK ts c s) (hb : BalOK ts.bal acct c x)
    (hassert : bexp = none ∨ (a = acct ∧ bexp = some (stepX acct x a v))) :
    ∃ ts', stepPosting date ts idx ⟨a, some (.plain (.single ⟨v, c⟩)), bexp.map (fun b => .single ⟨b, c⟩)⟩ = .ok ts' ∧
      TSOK ts' c (s + v) ∧ BalOK ts'.bal acct c (stepX acct x a v) := by
  -- the account's new amount
  have hcur_wf : ∀ acc : String, AMap.WF (Balance.get ts.bal acc) →
      AMap.WF (((Balance.get ts.bal acc).addPosting (.single ⟨v, c⟩)).removeZero) := fun acc h =>
    Amount.WF_removeZero _ (Amount.WF_addPosting _ _ h)
  have hcur_val : Amount.getPart (((Balance.get ts.bal acct).addPosting (.single ⟨v, c⟩)).removeZero) c = x + v := by
    rw [Amount.getPart_removeZero _ (Amount.WF_addPosting _ _ hb.wf), Amount.getPart_addPosting, hb.val, getPart_single]
    simp
  have hproc : processPosting ts.bal date idx ⟨a, some (.plain (.single ⟨v, c⟩)), bexp.map (fun b => .single ⟨b, c⟩)⟩ =
      .ok (some ⟨.single ⟨v, c⟩, none, .single ⟨v, c⟩⟩, none,
           AMap.insert ts.bal a (((Balance.get ts.bal a).addPosting (.single ⟨v, c⟩)).removeZero)) := by
    rcases hassert with h | ⟨ha, h⟩
    · subst h
      simp [processPosting, Balance.addPostingAmount, RAmount.postingAmt, RAmount.convertedAmount,
        RAmount.balanceAmount, RAmount.priceEvent]
    · subst ha
      subst h
      have h0 : x + v - (x + v) = 0 := by grind
      simp only [processPosting, Balance.addPostingAmount, RAmount.postingAmt, Option.map_some,
        Amount.assertBalance, hcur_val, stepX, if_true, h0]
      simp [Amount.isAbsoluteZero, RAmount.convertedAmount, RAmount.balanceAmount, RAmount.priceEvent]
  have hstep : ∃ ts', stepPosting date ts idx ⟨a, some (.plain (.single ⟨v, c⟩)), bexp.map (fun b => .single ⟨b, c⟩)⟩ = .ok ts' ∧
      ts'.unfilled = ts.unfilled ∧ ts'.balance = ts.balance.addPosting (.single ⟨v, c⟩) ∧
      ts'.bal = AMap.insert ts.bal a (((Balance.get ts.bal a).addPosting (.single ⟨v, c⟩)).removeZero) := by
    unfold stepPosting
    rw [hproc]
    exact ⟨_, rfl, rfl, rfl, rfl⟩
  obtain ⟨ts', hs, hunf, hbalance, hbal⟩ := hstep
  refine ⟨ts', hs, ?_, ?_⟩
  · rw [show ts' = { ts' with unfilled := ts'.unfilled } from rfl]
    refine ⟨hunf ▸ hts.unfilled, hbalance ▸ Amount.WF_addPosting _ _ hts.wf, ?_, ?_⟩
    · rw [hbalance]
      simp only [Amount.getPart_addPosting, hts.val, getPart_single, if_true]
    · intro c' hc'
      rw [hbalance]
      simp only [Amount.getPart_addPosting, hts.others c' hc', getPart_single, Ne.symm hc', if_false]
      simp
  · rw [hbal]
    unfold stepX
    by_cases ha : a = acct
    · subst ha
      simp only [if_true]
      refine ⟨?_, ?_⟩
      · simp only [Balance.get, AMap.get?_insert_self, Option.getD_some]
        exact hcur_wf a hb.wf
      · simp only [Balance.get, AMap.get?_insert_self, Option.getD_some]
        exact hcur_val
    · simp only [ha, if_false]
      refine ⟨?_, ?_⟩
      · simp only [Balance.get, AMap.get?_insert_ne _ _ ha]
        exact hb.wf
      · simp only [Balance.get, AMap.get?_insert_ne _ _ ha]
        exact hb.val

/-! ## the posting loop -/

theorem loopSyntax_ok (date : Date) (acct c : String) (hc : c ≠ "") :
    ∀ (ps : List Posting) (ctx : Ctx) (ts : TxnState String String) (idx : Nat) (x s : Rat),
      CtxOK ctx → TSOK ts c s → BalOK ts.bal acct c x → PostingsOK acct c x ps →
      ∃ ctx' ts', loopSyntax date ctx ts idx ps = .ok (ctx', ts') ∧ CtxOK ctx' ∧
        TSOK ts' c (s + sumV ps) ∧ BalOK ts'.bal acct c (finalX acct x ps) := by
  intro ps
  induction ps with
  | nil =>
    intro ctx ts idx x s hctx hts hb _
    exact ⟨ctx, ts, rfl, hctx, by simpa [sumV] using hts, by simpa [finalX] using hb⟩
  | cons p ps ih =>
    intro ctx ts idx x s hctx hts hb hok
    obtain ⟨v, hamt, hbal, hrest⟩ := hok
    have hbal' : p.balance = none ∨ ∃ b : PDec, p.balance = some (.amt b c) := by
      rcases hbal with h | ⟨_, b, h, _⟩
      · exact Or.inl h
      · exact Or.inr ⟨b, h⟩
    obtain ⟨ctx1, hctx1, hres⟩ := resolvePosting_simple ctx hctx c hc p v hamt hbal'
    -- the expected balance handed to the book-keeping core
    have hstep : ∃ ts1, stepPosting date ts idx
        ⟨p.account, some (.plain (.single ⟨v.toRat, c⟩)),
          match p.balance with
          | some (.amt b _) => some (.single ⟨b.toRat, c⟩)
          | _ => none⟩ = .ok ts1 ∧
        TSOK ts1 c (s + v.toRat) ∧ BalOK ts1.bal acct c (stepX acct x p.account v.toRat) := by
      rcases hbal with h | ⟨ha, b, h, hb2⟩
      · have := stepPosting_simple date ts idx acct c x s p.account v.toRat none hts hb (Or.inl rfl)
        simpa [h] using this
      · have := stepPosting_simple date ts idx acct c x s p.account v.toRat (some b.toRat) hts hb
          (Or.inr ⟨ha, by rw [hb2]⟩)
        simpa [h] using this
    obtain ⟨ts1, hs1, hts1, hb1⟩ := hstep
    obtain ⟨ctx', ts', hloop, hctx', hts', hb'⟩ := ih ctx1 ts1 (idx + 1) _ _ hctx1 hts1 hb1 hrest
    refine ⟨ctx', ts', ?_, hctx', ?_, ?_⟩
    · unfold loopSyntax
      rw [hres]
      simp only [hs1]
      exact hloop
    · have : sumV (p :: ps) = v.toRat + sumV ps := by simp [sumV, hamt]
      rw [this]
      have e : s + (v.toRat + sumV ps) = s + v.toRat + sumV ps := by grind
      rw [e]; exact hts'
    · have : finalX acct x (p :: ps) = finalX acct (stepX acct x p.account v.toRat) ps := by simp [finalX, hamt]
      rw [this]; exact hb'

/-! ## one transaction, then the whole ledger -/

theorem getPart_round_noPrec (a : Amount String) (c' : String) :
    Amount.getPart (Amount.round (fun _ => none) a) c' = Amount.getPart a c' := by
  rw [Amount.getPart_round]
  unfold Amount.getPart
  cases AMap.get? a c' <;> simp

theorem addTransactionSyntax_ok (acct c : String) (hc : c ≠ "") (ctx : Ctx) (bal : Balance String String)
    (t : Transaction) (x : Rat) (hctx : CtxOK ctx) (hb : BalOK bal acct c x)
    (hok : PostingsOK acct c x t.posts) (hsum : sumV t.posts = 0) :
    ∃ ctx' r, addTransactionSyntax ctx bal t = .ok (ctx', r) ∧ CtxOK ctx' ∧
      BalOK r.bal acct c (finalX acct x t.posts) := by
  have hts0 : TSOK (⟨[], none, [], bal, [], []⟩ : TxnState String String) c 0 :=
    ⟨rfl, AMap.WF_nil, rfl, fun _ _ => rfl⟩
  obtain ⟨ctx', ts', hloop, hctx', hts', hb'⟩ :=
    loopSyntax_ok t.date acct c hc t.posts ctx ⟨[], none, [], bal, [], []⟩ 0 x 0 hctx hts0 hb hok
  have hprec : ctx'.prec = fun _ => none := by
    funext k
    simp [Ctx.prec, hctx'.formatting]
  have hzero : (Amount.round ctx'.prec ts'.balance).isZero = true := by
    rw [hprec, Amount.isZero_iff_getPart _ (Amount.WF_round _ _ hts'.wf)]
    intro c'
    rw [getPart_round_noPrec]
    by_cases h : c' = c
    · subst h; rw [hts'.val, hsum]; simp
    · exact hts'.others c' h
  refine ⟨ctx', ⟨⟨t.date, ts'.postings⟩, ts'.bal, ts'.events ++ []⟩, ?_, hctx', hb'⟩
  unfold addTransactionSyntax
  rw [hloop]
  simp only [finishTxn, hts'.unfilled, checkBalance, hzero, if_true]
  simp

/-- a ledger of such transactions: every transaction sums to zero and its assertions match the running balance -/
def LedgerOK (acct c : String) : Rat → List Transaction → Prop
  | _, [] => True
  | x, t :: ts => PostingsOK acct c x t.posts ∧ sumV t.posts = 0 ∧ LedgerOK acct c (finalX acct x t.posts) ts

/-- the value of `acct` after the ledger -/
def ledgerX (acct : String) : Rat → List Transaction → Rat
  | x, [] => x
  | x, t :: ts => ledgerX acct (finalX acct x t.posts) ts

theorem processFrom_ok (acct c : String) (hc : c ≠ "") :
    ∀ (ts : List Transaction) (st : ProcState) (i : Nat) (x : Rat),
      CtxOK st.ctx → BalOK st.bal acct c x → LedgerOK acct c x ts →
      ∃ st', processFrom st i (ts.map Entry.txn) = .ok st' ∧ CtxOK st'.ctx ∧ BalOK st'.bal acct c (ledgerX acct x ts) := by
  intro ts
  induction ts with
  | nil =>
    intro st i x hctx hb _
    exact ⟨st, rfl, hctx, hb⟩
  | cons t ts ih =>
    intro st i x hctx hb hok
    obtain ⟨hp, hs, hrest⟩ := hok
    obtain ⟨ctx', r, hadd, hctx', hb'⟩ := addTransactionSyntax_ok acct c hc st.ctx st.bal t x hctx hb hp hs
    obtain ⟨st', hproc, hctx'', hb''⟩ :=
      ih { ctx := ctx', bal := r.bal, txns := st.txns ++ [r.txn], events := st.events ++ r.events } (i + 1) _ hctx' hb' hrest
    refine ⟨st', ?_, hctx'', hb''⟩
    simp only [List.map_cons, processFrom, stepEntry, hadd]
    exact hproc

/-- **Acceptance.**  A ledger of single-commodity transactions that each sum to zero and whose balance
assertions on `acct` equal the running balance is accepted by `process`, and `acct` ends at the running total. -/
theorem process_ok (acct c : String) (hc : c ≠ "") (ts : List Transaction) (hok : LedgerOK acct c 0 ts) :
    ∃ st, process (ts.map Entry.txn) = .ok st ∧
      Amount.getPart (Balance.get st.bal acct) c = ledgerX acct 0 ts := by
  have hb0 : BalOK ([] : Balance String String) acct c 0 := ⟨AMap.WF_nil, rfl⟩
  obtain ⟨st', h, _, hb⟩ := processFrom_ok acct c hc ts {} 0 0 CtxOK.empty hb0 hok
  exact ⟨st', h, hb.val⟩

end Okane
