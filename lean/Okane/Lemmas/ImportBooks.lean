import Okane.Model.Process
import Okane.Lemmas.Amount
/-!
# Book-keeping accepts single-commodity ledgers with explicit amounts (lemmas for C16_accepts / C18_accepts)

The ledgers the importers print have a very regular shape: every posting carries an explicit amount in one
commodity `c` without cost or lot, exactly the postings on the imported account `acct` may carry a balance
assertion, and no `account` / `commodity` directive occurs.  For such ledgers `process` is characterised
completely: it succeeds iff every transaction sums to zero and every assertion equals the running balance.
This file proves the "if" direction, by induction over postings (`loopSyntax`), then transactions
(`processFrom`).
-/
set_option linter.unusedSectionVars false
set_option linter.unusedVariables false
namespace Okane

/-! ## stores without aliases -/

/-- every registered name is canonical -/
def Store.NoAlias (s : Store) : Prop := ∀ n, s.resolve n = none ∨ s.resolve n = some n

theorem Store.noAlias_empty : (({} : Store)).NoAlias := by
  intro n; left; simp [Store.resolve]

theorem Store.ensure_fst (s : Store) (h : s.NoAlias) (n : String) : (s.ensure n).1 = n := by
  unfold Store.ensure
  rcases h n with h1 | h1 <;> simp [h1]

theorem Store.ensure_noAlias (s : Store) (h : s.NoAlias) (n : String) : (s.ensure n).2.NoAlias := by
  unfold Store.ensure
  rcases h n with h1 | h1
  · simp only [h1]
    intro m
    unfold Store.resolve
    simp only [AMap.get?_insert]
    by_cases hm : n = m
    · subst hm; simp
    · simp only [hm, if_false]
      have := h m
      unfold Store.resolve at this
      exact this
  · simp only [h1]; exact h

/-- the part of `ReportContext` the importers' ledgers leave alone -/
structure CtxOK (c : Ctx) : Prop where
  accounts : c.accounts.NoAlias
  commodities : c.commodities.NoAlias
  formatting : c.formatting = []

theorem CtxOK.empty : CtxOK {} := ⟨Store.noAlias_empty, Store.noAlias_empty, rfl⟩

/-! ## the shape of the importers' postings -/

/-- `acct`'s balance in `c` is `x` (and the stored amount is well formed) -/
structure BalOK (bal : Balance String String) (acct c : String) (x : Rat) : Prop where
  wf : AMap.WF (Balance.get bal acct)
  val : Amount.getPart (Balance.get bal acct) c = x

/-- the running value of `acct` after a posting -/
def stepX (acct : String) (x : Rat) (account : String) (v : Rat) : Rat := if account = acct then x + v else x

/-- Postings with an explicit amount in `c`, no cost, no lot; an assertion only on `acct` and equal to the
running balance `x` of `acct` (which starts at `x`). -/
def PostingsOK (acct c : String) : Rat → List Posting → Prop
  | _, [] => True
  | x, p :: ps =>
    ∃ v : PDec, p.amount = some { amount := .amt v c, cost := none, lot := {} } ∧
      (p.balance = none ∨
        (p.account = acct ∧ ∃ b : PDec, p.balance = some (.amt b c) ∧ b.toRat = stepX acct x p.account v.toRat)) ∧
      PostingsOK acct c (stepX acct x p.account v.toRat) ps

/-- value of `acct` after the postings -/
def finalX (acct : String) : Rat → List Posting → Rat
  | x, [] => x
  | x, p :: ps =>
    match p.amount with
    | some { amount := .amt v _, .. } => finalX acct (stepX acct x p.account v.toRat) ps
    | _ => finalX acct x ps

/-- sum of the posted values -/
def sumV : List Posting → Rat
  | [] => 0
  | p :: ps =>
    match p.amount with
    | some { amount := .amt v _, .. } => v.toRat + sumV ps
    | _ => sumV ps

/-- state of the posting loop: nothing omitted so far, the running sum is `s` in `c` and nothing else -/
structure TSOK (ts : TxnState String String) (c : String) (s : Rat) : Prop where
  unfilled : ts.unfilled = none
  wf : AMap.WF ts.balance
  val : Amount.getPart ts.balance c = s
  others : ∀ c', c' ≠ c → Amount.getPart ts.balance c' = 0

/-! ## one posting -/

theorem resolvePosting_simple (ctx : Ctx) (hctx : CtxOK ctx) (c : String) (hc : c ≠ "") (p : Posting) (v : PDec)
    (hamt : p.amount = some { amount := .amt v c, cost := none, lot := {} })
    (hbal : p.balance = none ∨ ∃ b : PDec, p.balance = some (.amt b c)) :
    ∃ ctx', CtxOK ctx' ∧
      resolvePosting ctx p =
        .ok (⟨p.account, some (.plain (.single ⟨v.toRat, c⟩)),
              match p.balance with
              | some (.amt b _) => some (.single ⟨b.toRat, c⟩)
              | _ => none⟩, ctx') := by
  have hce : c.isEmpty = false := by
    cases hh : c.isEmpty with
    | false => rfl
    | true => exact absurd (String.isEmpty_iff.mp hh) hc
  have ha1 := Store.ensure_fst ctx.accounts hctx.accounts p.account
  have ha2 := Store.ensure_noAlias ctx.accounts hctx.accounts p.account
  have hc1 := Store.ensure_fst ctx.commodities hctx.commodities c
  have hc2 := Store.ensure_noAlias ctx.commodities hctx.commodities c
  rcases hbal with hb | ⟨b, hb⟩
  · refine ⟨{ ctx with accounts := (ctx.accounts.ensure p.account).2, commodities := (ctx.commodities.ensure c).2 },
      ⟨ha2, hc2, hctx.formatting⟩, ?_⟩
    unfold resolvePosting
    simp only [hamt, hb]
    simp [resolveAmount, evalPostingAmt, evalMut, evalVExprWith, leafMut, hce, Evaluated.toPosting, Evaluated.toAmount,
      Amount.toPosting, resolveOptExchange, resolveOptBalance, hc1, ha1]
  · have hc3 := Store.ensure_fst (ctx.commodities.ensure c).2 hc2 c
    have hc4 := Store.ensure_noAlias (ctx.commodities.ensure c).2 hc2 c
    refine ⟨{ ctx with accounts := (ctx.accounts.ensure p.account).2,
                       commodities := ((ctx.commodities.ensure c).2.ensure c).2 },
      ⟨ha2, hc4, hctx.formatting⟩, ?_⟩
    unfold resolvePosting
    simp only [hamt, hb]
    simp [resolveAmount, evalPostingAmt, evalMut, evalVExprWith, leafMut, hce, Evaluated.toPosting, Evaluated.toAmount,
      Amount.toPosting, resolveOptExchange, resolveOptBalance, hc1, ha1, hc3]

theorem getPart_single (c c' : String) (v : Rat) :
    Amount.getPart (PostingAmt.toAmount (.single ⟨v, c⟩)) c' = if c = c' then v else 0 := by
  unfold Amount.getPart PostingAmt.toAmount
  simp only [AMap.get?]
  by_cases h : c = c' <;> simp [h]

theorem stepPosting_simple (date : Date) (ts : TxnState String String) (idx : Nat) (acct c : String) (x s : Rat)
    (a : String) (v : Rat) (bexp : Option Rat)
    (hts : TSOK ts c s) (hb : BalOK ts.bal acct c x)
    (hassert : bexp = none ∨ (a = acct ∧ bexp = some (stepX acct x a v))) :
    ∃ ts', stepPosting date ts idx ⟨a, some (.plain (.single ⟨v, c⟩)), bexp.map (fun b => .single ⟨b, c⟩)⟩ = .ok ts' ∧
      TSOK ts' c (s + v) ∧ BalOK ts'.bal acct c (stepX acct x a v) := by
  -- the account's new amount
  have hcur_wf : ∀ acc : String, AMap.WF (Balance.get ts.bal acc) →
      AMap.WF (((Balance.get ts.bal acc).addPosting (.single ⟨v, c⟩)).removeZero) := fun acc h =>
    Amount.WF_removeZero _ (Amount.WF_addPosting _ _ h)
  have hcur_val : Amount.getPart (((Balance.get ts.bal acct).addPosting (.single ⟨v, c⟩)).removeZero) c = x + v := by
    rw [Amount.getPart_removeZero _ (Amount.WF_addPosting _ _ hb.wf), Amount.getPart_addPosting, hb.val, getPart_single]
    simp
  have hproc : processPosting ts.bal date idx ⟨a, some (.plain (.single ⟨v, c⟩)), bexp.map (fun b => .single ⟨b, c⟩)⟩ =
      .ok (some ⟨.single ⟨v, c⟩, none, .single ⟨v, c⟩⟩, none,
           AMap.insert ts.bal a (((Balance.get ts.bal a).addPosting (.single ⟨v, c⟩)).removeZero)) := by
    rcases hassert with h | ⟨ha, h⟩
    · subst h
      simp [processPosting, Balance.addPostingAmount, RAmount.postingAmt, RAmount.convertedAmount,
        RAmount.balanceAmount, RAmount.priceEvent]
    · subst ha
      subst h
      have h0 : x + v - (x + v) = 0 := by grind
      simp only [processPosting, Balance.addPostingAmount, RAmount.postingAmt, Option.map_some,
        Amount.assertBalance, hcur_val, stepX, if_true, h0]
      simp [Amount.isAbsoluteZero, RAmount.convertedAmount, RAmount.balanceAmount, RAmount.priceEvent]
  have hstep : ∃ ts', stepPosting date ts idx ⟨a, some (.plain (.single ⟨v, c⟩)), bexp.map (fun b => .single ⟨b, c⟩)⟩ = .ok ts' ∧
      ts'.unfilled = ts.unfilled ∧ ts'.balance = ts.balance.addPosting (.single ⟨v, c⟩) ∧
      ts'.bal = AMap.insert ts.bal a (((Balance.get ts.bal a).addPosting (.single ⟨v, c⟩)).removeZero) := by
    unfold stepPosting
    rw [hproc]
    exact ⟨_, rfl, rfl, rfl, rfl⟩
  obtain ⟨ts', hs, hunf, hbalance, hbal⟩ := hstep
  refine ⟨ts', hs, ?_, ?_⟩
  · rw [show ts' = { ts' with unfilled := ts'.unfilled } from rfl]
    refine ⟨hunf ▸ hts.unfilled, hbalance ▸ Amount.WF_addPosting _ _ hts.wf, ?_, ?_⟩
    · rw [hbalance]
      simp only [Amount.getPart_addPosting, hts.val, getPart_single, if_true]
    · intro c' hc'
      rw [hbalance]
      simp only [Amount.getPart_addPosting, hts.others c' hc', getPart_single, Ne.symm hc', if_false]
      simp
  · rw [hbal]
    unfold stepX
    by_cases ha : a = acct
    · subst ha
      simp only [if_true]
      refine ⟨?_, ?_⟩
      · simp only [Balance.get, AMap.get?_insert_self, Option.getD_some]
        exact hcur_wf a hb.wf
      · simp only [Balance.get, AMap.get?_insert_self, Option.getD_some]
        exact hcur_val
    · simp only [ha, if_false]
      refine ⟨?_, ?_⟩
      · simp only [Balance.get, AMap.get?_insert_ne _ _ ha]
        exact hb.wf
      · simp only [Balance.get, AMap.get?_insert_ne _ _ ha]
        exact hb.val

end Okane
