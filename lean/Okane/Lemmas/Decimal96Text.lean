import Okane.Model.Decimal96
/-!
# `Decimal::from_str ∘ Display` is the identity (rust_decimal 1.37.1, `str.rs`)

`display` prints sign, integral digits (at least one), and - when the scale is not zero - a point followed by exactly
`scale` digits.  `fromStrBytes` is the crate's two-phase state machine (64-bit accumulator `dispatch64`, then the 128-bit
accumulator `full128` once the value comes close to 2^64).  For every text of that shape whose digits denote a mantissa
below 2^96 with at most 28 places, the machine ends in `handleData neg mant scale` - whichever phase it is in, and whether
or not the `BIG` variant (18 bytes or more) was selected.
-/
namespace Okane.Dec96

/-- the accumulator both phases maintain -/
def accDigits (data : Nat) (ds : List Char) : Nat := ds.foldl (fun d c => d * 10 + digitVal c) data

@[simp] theorem accDigits_nil (d : Nat) : accDigits d [] = d := by simp [accDigits]
@[simp] theorem accDigits_cons (d : Nat) (c : Char) (cs : List Char) :
    accDigits d (c :: cs) = accDigits (d * 10 + digitVal c) cs := by simp [accDigits]

theorem accDigits_append (d : Nat) (xs ys : List Char) :
    accDigits d (xs ++ ys) = accDigits (accDigits d xs) ys := by
  simp [accDigits, List.foldl_append]

theorem le_accDigits (d : Nat) (ds : List Char) : d ≤ accDigits d ds := by
  induction ds generalizing d with
  | nil => simp
  | cons c cs ih =>
    have := ih (d * 10 + digitVal c)
    simp only [accDigits_cons]
    omega

def AllDigits (ds : List Char) : Prop := ∀ c ∈ ds, isDigit c = true

theorem dot_not_digit : isDigit '.' = false := by decide
theorem minus_not_digit : isDigit '-' = false := by decide

theorem handleData_ok (neg : Bool) (m s : Nat) (hs : s ≤ 28) : handleData neg m s = .ok (fromParts neg m s) := by
  simp [handleData]; omega

/-! ## the 128-bit phase -/

/-- after the point -/
theorem full128_frac (neg : Bool) : ∀ (rest : List Char) (fuel data scale : Nat) (next : Char),
    AllDigits (next :: rest) → rest.length < fuel → scale + (rest.length + 1) ≤ 28 →
    accDigits data (next :: rest) < two96 →
    full128 fuel data rest scale next true neg =
      handleData neg (accDigits data (next :: rest)) (scale + (rest.length + 1)) := by
  intro rest
  induction rest with
  | nil =>
    intro fuel data scale next hd hf hs hb
    obtain ⟨f, rfl⟩ : ∃ f, fuel = f + 1 := ⟨fuel - 1, by simp at hf; omega⟩
    have hn : isDigit next = true := hd next (by simp)
    have hb' : ¬ (data * 10 + digitVal next ≥ two96) := by simpa using hb
    simp [full128, hn, hb']
  | cons c cs ih =>
    intro fuel data scale next hd hf hs hb
    obtain ⟨f, rfl⟩ : ∃ f, fuel = f + 1 := ⟨fuel - 1, by simp at hf; omega⟩
    have hn : isDigit next = true := hd next (by simp)
    have hle := le_accDigits (data * 10 + digitVal next) (c :: cs)
    have hb' : ¬ (data * 10 + digitVal next ≥ two96) := by
      simp only [accDigits_cons] at hb hle; omega
    have hs' : ¬ (scale + 1 ≥ 28) := by simp at hs; omega
    have hd' : AllDigits (c :: cs) := fun x hx => hd x (List.mem_cons_of_mem _ hx)
    have := ih f (data * 10 + digitVal next) (scale + 1) c hd' (by simp at hf ⊢; omega) (by simp at hs ⊢; omega)
      (by simpa using hb)
    simp only [full128, hn, hb', hs', if_true, if_false, ite_true, ite_false, and_false, Bool.false_eq_true,
      Bool.true_eq_false, if_neg, not_false_eq_true]
    simp only [this, accDigits_cons, List.length_cons]
    congr 1
    omega

/-- before the point: integral digits, then the end of the text or a point followed by at least one digit -/
theorem full128_int (neg : Bool) (frac : List Char) (hfd : AllDigits frac) (hfl : frac.length ≤ 28) :
    ∀ (w : List Char) (fuel data scale : Nat) (next : Char),
    AllDigits (next :: w) →
    (w ++ (if frac = [] then [] else '.' :: frac)).length < fuel → scale + frac.length ≤ 28 →
    accDigits data (next :: w ++ frac) < two96 →
    full128 fuel data (w ++ (if frac = [] then [] else '.' :: frac)) scale next false neg =
      handleData neg (accDigits data (next :: w ++ frac)) (scale + frac.length) := by
  intro w
  induction w with
  | nil =>
    intro fuel data scale next hd hf hs hb
    obtain ⟨f, rfl⟩ : ∃ f, fuel = f + 1 := ⟨fuel - 1, by omega⟩
    have hn : isDigit next = true := hd next (by simp)
    have hle := le_accDigits (data * 10 + digitVal next) frac
    have hb' : ¬ (data * 10 + digitVal next ≥ two96) := by
      simp only [List.cons_append, List.nil_append, accDigits_cons] at hb; omega
    cases frac with
    | nil => simp [full128, hn, hb']
    | cons c cs =>
      obtain ⟨f2, rfl⟩ : ∃ f2, f = f2 + 1 := ⟨f - 1, by simp at hf; omega⟩
      have h2 := full128_frac neg cs f2 (data * 10 + digitVal next) scale c hfd (by simp at hf; omega)
        (by simp at hs; omega) (by simpa using hb)
      simp only [List.nil_append, if_neg (List.cons_ne_nil c cs)]
      rw [full128]
      simp only [hn, hb', if_true, if_false, Bool.false_eq_true, false_and, and_false]
      rw [full128]
      simp only [dot_not_digit, Bool.false_eq_true, if_false, true_and, Bool.not_false, and_self, if_true]
      rw [h2]
      simp
  | cons c cs ih =>
    intro fuel data scale next hd hf hs hb
    obtain ⟨f, rfl⟩ : ∃ f, fuel = f + 1 := ⟨fuel - 1, by omega⟩
    have hn : isDigit next = true := hd next (by simp)
    have hle := le_accDigits (data * 10 + digitVal next) (c :: cs ++ frac)
    have hb' : ¬ (data * 10 + digitVal next ≥ two96) := by
      simp only [List.cons_append, accDigits_cons] at hb hle; omega
    have hd' : AllDigits (c :: cs) := fun x hx => hd x (List.mem_cons_of_mem _ hx)
    have := ih f (data * 10 + digitVal next) scale c hd' (by simp at hf ⊢; omega) hs (by simpa using hb)
    simp only [List.cons_append]
    rw [full128]
    simp only [hn, hb', if_true, if_false, Bool.false_eq_true, false_and]
    simpa using this

/-! ## the 64-bit phase -/

/-- after the point -/
theorem dispatch64_frac (neg big : Bool) : ∀ (rest : List Char) (fuel data scale : Nat) (b : Char) (has : Bool),
    AllDigits (b :: rest) → rest.length < fuel → scale + (rest.length + 1) ≤ 28 →
    accDigits data (b :: rest) < two96 →
    dispatch64 fuel rest data scale b true neg has big false =
      handleData neg (accDigits data (b :: rest)) (scale + (rest.length + 1)) := by
  intro rest
  induction rest with
  | nil =>
    intro fuel data scale b has hd hf hs hb
    obtain ⟨f, rfl⟩ : ∃ f, fuel = f + 1 := ⟨fuel - 1, by simp at hf; omega⟩
    have hn : isDigit b = true := hd b (by simp)
    simp [dispatch64, hn]
  | cons c cs ih =>
    intro fuel data scale b has hd hf hs hb
    obtain ⟨f, rfl⟩ : ∃ f, fuel = f + 1 := ⟨fuel - 1, by simp at hf; omega⟩
    have hn : isDigit b = true := hd b (by simp)
    have hs' : ¬ (scale + 1 ≥ 28) := by simp at hs; omega
    have hd' : AllDigits (c :: cs) := fun x hx => hd x (List.mem_cons_of_mem _ hx)
    rw [dispatch64]
    simp only [hn, if_true, hs', and_false, if_false]
    by_cases hbig : big = true ∧ data * 10 + digitVal b ≥ willOverflowU64
    · have := full128_frac neg cs (cs.length + 2) (data * 10 + digitVal b) (scale + 1) c hd' (by omega)
        (by simp at hs ⊢; omega) (by simpa using hb)
      simp only [hbig, and_self, if_true, this, accDigits_cons, List.length_cons]
      congr 1; omega
    · have := ih f (data * 10 + digitVal b) (scale + 1) c true hd' (by simp at hf ⊢; omega)
        (by simp at hs ⊢; omega) (by simpa using hb)
      simp only [hbig, if_false, this, accDigits_cons, List.length_cons]
      congr 1; omega

/-- before the point -/
theorem dispatch64_int (neg big : Bool) (frac : List Char) (hfd : AllDigits frac) (hfl : frac.length ≤ 28) :
    ∀ (w : List Char) (fuel data scale : Nat) (b : Char) (has first : Bool),
    AllDigits (b :: w) →
    (w ++ (if frac = [] then [] else '.' :: frac)).length < fuel →
    accDigits data (b :: w ++ frac) < two96 →
    dispatch64 fuel (w ++ (if frac = [] then [] else '.' :: frac)) data scale b false neg has big first =
      handleData neg (accDigits data (b :: w ++ frac)) frac.length := by
  intro w
  induction w with
  | nil =>
    intro fuel data scale b has first hd hf hb
    obtain ⟨f, rfl⟩ : ∃ f, fuel = f + 1 := ⟨fuel - 1, by omega⟩
    have hn : isDigit b = true := hd b (by simp)
    cases frac with
    | nil => simp [dispatch64, hn]
    | cons c cs =>
      obtain ⟨f2, rfl⟩ : ∃ f2, f = f2 + 1 := ⟨f - 1, by simp at hf; omega⟩
      simp only [List.nil_append, if_neg (List.cons_ne_nil c cs)]
      rw [dispatch64]
      simp only [hn, if_true, Bool.false_eq_true, false_and, if_false]
      by_cases hbig : big = true ∧ data * 10 + digitVal b ≥ willOverflowU64
      · have h2 := full128_frac neg cs ((c :: cs).length + 1) (data * 10 + digitVal b) 0 c hfd (by simp; omega)
          (by simp at hfl ⊢; omega) (by simpa using hb)
        simp only [hbig, and_self, if_true]
        rw [full128]
        simp only [dot_not_digit, Bool.false_eq_true, if_false, true_and, Bool.not_false, and_self, if_true]
        rw [h2]; simp
      · have h2 := dispatch64_frac neg big cs f2 (data * 10 + digitVal b) 0 c true hfd (by simp at hf; omega)
          (by simp at hfl ⊢; omega) (by simpa using hb)
        simp only [hbig, if_false]
        rw [dispatch64]
        simp only [dot_not_digit, Bool.false_eq_true, if_false, true_and, Bool.not_false, and_self, if_true]
        rw [h2]; simp
  | cons c cs ih =>
    intro fuel data scale b has first hd hf hb
    obtain ⟨f, rfl⟩ : ∃ f, fuel = f + 1 := ⟨fuel - 1, by omega⟩
    have hn : isDigit b = true := hd b (by simp)
    have hd' : AllDigits (c :: cs) := fun x hx => hd x (List.mem_cons_of_mem _ hx)
    simp only [List.cons_append]
    rw [dispatch64]
    simp only [hn, if_true, Bool.false_eq_true, false_and, if_false]
    by_cases hbig : big = true ∧ data * 10 + digitVal b ≥ willOverflowU64
    · have := full128_int neg frac hfd hfl cs ((cs ++ (if frac = [] then [] else '.' :: frac)).length + 2)
        (data * 10 + digitVal b) 0 c hd' (by omega) (by omega) (by simpa using hb)
      simp only [hbig, and_self, if_true]
      simpa using this
    · have := ih f (data * 10 + digitVal b) 0 c true false hd' (by simp at hf ⊢; omega) (by simpa using hb)
      simp only [hbig, if_false]
      simpa using this

/-! ## whole texts -/

/-- A text `[-] W [. F]` (`W` at least one digit, `F` - if there is a point - at least one and at most 28 digits) whose
digits denote a number below 2^96 is read as exactly that number, with `|F|` places and the sign written. -/
theorem fromStrBytes_shape (neg : Bool) (w frac : List Char) (byteLen : Nat)
    (hw : w ≠ []) (hwd : AllDigits w) (hfd : AllDigits frac) (hfl : frac.length ≤ 28)
    (hb : accDigits 0 (w ++ frac) < two96) :
    fromStrBytes ((if neg then ['-'] else []) ++ w ++ (if frac = [] then [] else '.' :: frac)) byteLen =
      .ok (fromParts neg (accDigits 0 (w ++ frac)) frac.length) := by
  obtain ⟨b, w', rfl⟩ : ∃ b w', w = b :: w' := by
    cases w with
    | nil => exact absurd rfl hw
    | cons b w' => exact ⟨b, w', rfl⟩
  rw [← handleData_ok neg _ _ hfl]
  cases neg with
  | false =>
    simp only [Bool.false_eq_true, if_false, List.nil_append, List.cons_append, fromStrBytes]
    exact dispatch64_int false _ frac hfd hfl w' _ 0 0 b false true hwd (by simp; omega) (by simpa using hb)
  | true =>
    simp only [if_true, List.cons_append, List.nil_append, fromStrBytes]
    rw [dispatch64]
    simp only [minus_not_digit, Bool.false_eq_true, if_false]
    have h1 : ¬ ('-' = '.' ∧ (!false) = true) := by decide
    simp only [h1, if_false, Bool.not_false, and_self, if_true, true_and]
    exact dispatch64_int true _ frac hfd hfl w' _ 0 0 b false false hwd (by simp; omega) (by simpa using hb)

end Okane.Dec96

namespace Okane.Dec96

/-! ## what `display` prints -/

theorem digitChar_spec : ∀ k : Fin 10, isDigit (Char.ofNat (48 + k.val)) = true ∧ digitVal (Char.ofNat (48 + k.val)) = k.val := by
  decide

theorem zero_digit : isDigit '0' = true ∧ digitVal '0' = 0 := by decide

theorem accDigits_snoc (d : Nat) (xs : List Char) (c : Char) :
    accDigits d (xs ++ [c]) = accDigits d xs * 10 + digitVal c := by
  simp [accDigits_append]

theorem digitsRev_spec : ∀ (fuel n : Nat), n < 10 ^ fuel →
    AllDigits (digitsRev fuel n).reverse ∧ accDigits 0 (digitsRev fuel n).reverse = n := by
  intro fuel
  induction fuel with
  | zero => intro n h; simp at h; subst h; simp [digitsRev, AllDigits]
  | succ f ih =>
    intro n h
    by_cases h0 : n = 0
    · subst h0; simp [digitsRev, AllDigits]
    · have hlt : n / 10 < 10 ^ f := by
        rw [Nat.div_lt_iff_lt_mul (by decide)]; rw [Nat.pow_succ] at h; exact h
      obtain ⟨hd, hv⟩ := ih (n / 10) hlt
      have hk := digitChar_spec ⟨n % 10, Nat.mod_lt _ (by decide)⟩
      simp only [digitsRev, h0, if_false, List.reverse_cons]
      refine ⟨?_, ?_⟩
      · intro c hc
        rcases List.mem_append.mp hc with hc | hc
        · exact hd c hc
        · simp at hc; subst hc; exact hk.1
      · rw [accDigits_snoc, hv, hk.2]
        show n / 10 * 10 + n % 10 = n
        omega

theorem lt_ten_pow_log2 (n : Nat) : n < 10 ^ (n.log2 + 2) := by
  by_cases h0 : n = 0
  · subst h0; simp
  · have h1 : n < 2 ^ (n.log2 + 1) := Nat.lt_log2_self
    have h2 : 2 ^ (n.log2 + 1) ≤ 10 ^ (n.log2 + 1) := Nat.pow_le_pow_left (by decide) _
    have h3 : 10 ^ (n.log2 + 1) ≤ 10 ^ (n.log2 + 2) := Nat.pow_le_pow_right (by decide) (by omega)
    omega

theorem digits_spec (n : Nat) : AllDigits (digits n) ∧ accDigits 0 (digits n) = n :=
  digitsRev_spec _ n (lt_ten_pow_log2 n)

theorem accDigits_replicate_zero (k : Nat) : accDigits 0 (List.replicate k '0') = 0 := by
  induction k with
  | zero => simp
  | succ k ih => simp [List.replicate_succ, zero_digit.2, ih]

theorem allDigits_replicate_zero (k : Nat) : AllDigits (List.replicate k '0') := by
  intro c hc
  rw [List.mem_replicate] at hc
  rw [hc.2]; exact zero_digit.1

/-- **`from_str (to_string d)`**: for every representable decimal the crate's reader gives back the mantissa, the scale and
the sign its printer wrote (a "negative zero" prints as `-0…` and is read as plain zero: `from_parts` drops that flag). -/
theorem fromStrBytes_display (d : D96) (hw : d.wf) (byteLen : Nat) :
    fromStrBytes (display d) byteLen = .ok (fromParts d.neg d.mant d.scale) := by
  obtain ⟨hm, hs⟩ := hw
  obtain ⟨hdd, hdv⟩ := digits_spec d.mant
  -- the padded digit string
  generalize hds : List.replicate (d.scale - (digits d.mant).length) '0' ++ digits d.mant = ds
  have hall : AllDigits ds := by
    rw [← hds]; intro c hc
    rcases List.mem_append.mp hc with hc | hc
    · exact allDigits_replicate_zero _ c hc
    · exact hdd c hc
  have hval : accDigits 0 ds = d.mant := by
    rw [← hds, accDigits_append, accDigits_replicate_zero, hdv]
  have hlen : d.scale ≤ ds.length := by
    rw [← hds]; simp; omega
  -- whole and fractional part
  generalize hwh : ds.take (ds.length - d.scale) = whole
  generalize hfr : ds.drop (ds.length - d.scale) = frac
  have hsplit : whole ++ frac = ds := by rw [← hwh, ← hfr]; exact List.take_append_drop _ _
  have hfl : frac.length = d.scale := by rw [← hfr]; simp; omega
  have hwd : AllDigits whole := fun c hc => hall c (by rw [← hsplit]; exact List.mem_append_left _ hc)
  have hfd : AllDigits frac := fun c hc => hall c (by rw [← hsplit]; exact List.mem_append_right _ hc)
  -- the integral part as printed
  generalize hW : (if whole.isEmpty then ['0'] else whole) = W
  have hWne : W ≠ [] := by
    rw [← hW]; cases whole <;> simp
  have hWd : AllDigits W := by
    rw [← hW]; cases whole with
    | nil => intro c hc; simp at hc; subst hc; exact zero_digit.1
    | cons a as => simpa using hwd
  have hWv : accDigits 0 (W ++ frac) = d.mant := by
    rw [← hval, ← hsplit, ← hW]
    cases whole with
    | nil => simp [zero_digit.2]
    | cons a as => simp
  have hshape : display d = (if d.neg then ['-'] else []) ++ W ++ (if frac = [] then [] else '.' :: frac) := by
    unfold display
    simp only [hds, hwh, hfr, hW]
    by_cases hs0 : d.scale = 0
    · have : frac = [] := List.eq_nil_of_length_eq_zero (by omega)
      simp [hs0, this]
      cases d.neg <;> simp
    · have : frac ≠ [] := by intro h; rw [h] at hfl; simp at hfl; omega
      simp [hs0, this]
      cases d.neg <;> simp
  rw [hshape, fromStrBytes_shape d.neg W frac byteLen hWne hWd hfd (by omega) (by rw [hWv]; exact hm), hWv, hfl]

/-- the value read back is the value printed, and nothing else about the number changes -/
theorem fromStrBytes_display_eq (d : D96) (hw : d.wf) (hz : d.mant = 0 → d.neg = false) (byteLen : Nat) :
    fromStrBytes (display d) byteLen = .ok d := by
  rw [fromStrBytes_display d hw]
  cases d with
  | mk neg mant scale =>
    simp only [fromParts, StrRes.ok.injEq, D96.mk.injEq, and_true]
    by_cases h : mant = 0
    · have := hz h
      simp only at this
      simp [h, this]
    · simp [h]

end Okane.Dec96
