import Okane.Lemmas.Decimal96Add
/-!
# `rust_decimal` division: the quotient is correct to half a unit of its last place

Integer level.  `a = ±A/10^sa`, `b = ±B/10^sb`, `B > 0`.  The loop of `div_impl` keeps `A·10^e = q·B + r`, `r < B`, at scale
`σ = sa − sb + e` (`DivInv`).  Whatever way it ends — remainder zero, scale 28 reached, no room left in 96 bits, a carry out
of 96 bits — the result `(m, s)` satisfies `DivPost`: `0 ≤ s ≤ 28`, `m < 2^96`, and for some `x y` with
`s + sb + x = sa + y`:  `2·|m·10^x·B − A·10^y| ≤ B·10^x`, i.e. `|m/10^s − a/b| ≤ ½·10^-s`.
-/
namespace Okane.Dec96

/-- loop invariant of `div_impl` -/
structure DivInv (A B sa sb q r : Nat) (σ : Int) : Prop where
  ex : ∃ e : Nat, σ + sb = sa + e ∧ A * 10 ^ e = q * B + r
  r_lt : r < B
  q_lt : q < 2 ^ 96
  σ_le : σ ≤ 28

/-- what every exit of the loop guarantees (`exact`: the remainder was zero) -/
structure DivPost (A B sa sb m : Nat) (s : Int) : Prop where
  s_nonneg : 0 ≤ s
  s_le : s ≤ 28
  m_lt : m < 2 ^ 96
  ex : ∃ x y : Nat, s + sb + x = sa + y ∧
    2 * (m * 10 ^ x * B) ≤ 2 * (A * 10 ^ y) + B * 10 ^ x ∧ 2 * (A * 10 ^ y) ≤ 2 * (m * 10 ^ x * B) + B * 10 ^ x

theorem digit_cases (n : Nat) (h : n < 10) :
    n = 0 ∨ n = 1 ∨ n = 2 ∨ n = 3 ∨ n = 4 ∨ n = 5 ∨ n = 6 ∨ n = 7 ∨ n = 8 ∨ n = 9 := by omega

/-- `unscale_from_overflow` after a scaling step: `v` is the exact floor quotient, `r2` the remainder. -/
theorem ufo_grow (v r2 B : Nat) (σ : Int) (hσ : 0 ≤ σ - 1) (hr2 : r2 < B) :
    ∃ m, unscaleFromOverflow v σ (r2 != 0) = some (m, σ - 1) ∧ m ≤ v / 10 + 1 ∧
      2 * (m * 10 * B) ≤ 2 * (v * B + r2) + B * 10 ∧ 2 * (v * B + r2) ≤ 2 * (m * 10 * B) + B * 10 := by
  unfold unscaleFromOverflow
  have h1 : ¬ σ - 1 < 0 := by omega
  simp only [h1, if_false]
  have hv := Nat.div_add_mod v 10
  have hrem : v % 10 < 10 := Nat.mod_lt _ (by decide)
  generalize v / 10 = k at hv ⊢
  generalize v % 10 = rem at hv hrem ⊢
  subst hv
  have e1 : ∀ c : Nat, (10 * k + c) * B = 10 * (k * B) + c * B := by intro c; grind
  have e2 : (k + 1) * 10 * B = 10 * (k * B) + 10 * B := by grind
  have e3 : k * 10 * B = 10 * (k * B) := by grind
  refine ⟨_, rfl, ?_, ?_, ?_⟩
  · split <;> omega
  · split <;> rename_i hc <;> simp only [bne_iff_ne, ne_eq] at hc <;>
      rcases digit_cases rem hrem with h | h | h | h | h | h | h | h | h | h <;> subst h <;>
      simp only [e1, e2, e3] <;> omega
  · split <;> rename_i hc <;> simp only [bne_iff_ne, ne_eq] at hc <;>
      rcases digit_cases rem hrem with h | h | h | h | h | h | h | h | h | h <;> subst h <;>
      simp only [e1, e2, e3] <;> omega

/-- `round_up` carried out of 96 bits: the quotient was `2^96 − 1` and is rounded up. -/
theorem ufo_finish (σ : Int) (hσ : 0 ≤ σ - 1) :
    unscaleFromOverflow (2 ^ 96) σ true = some (7922816251426433759354395034, σ - 1) := by
  unfold unscaleFromOverflow
  have h1 : ¬ σ - 1 < 0 := by omega
  simp [h1]

theorem ufo_none (v : Nat) (σ : Int) (st : Bool) (m : Nat) (s : Int) (h : unscaleFromOverflow v σ st = some (m, s)) :
    0 ≤ σ - 1 := by
  unfold unscaleFromOverflow at h
  split at h
  · cases h
  · omega

theorem divFinish_post (A B sa sb q r : Nat) (σ : Int) (inv : DivInv A B sa sb q r σ) (hσ : 0 ≤ σ)
    (m : Nat) (s : Int) (h : divFinish q r B σ = some (m, s)) : DivPost A B sa sb m s := by
  obtain ⟨⟨e, he, hA⟩, hr, hq, hσ28⟩ := inv
  unfold divFinish at h
  split at h
  · rename_i hup
    split at h
    · rename_i hfit
      simp only [Option.some.injEq, Prod.mk.injEq] at h
      obtain ⟨rfl, rfl⟩ := h
      refine ⟨hσ, hσ28, by unfold two96 at hfit; exact hfit, 0, e, by omega, ?_, ?_⟩
      · simp only [Nat.pow_zero, Nat.mul_one]; rw [hA]
        have : (q + 1) * B = q * B + B := by grind
        omega
      · simp only [Nat.pow_zero, Nat.mul_one]; rw [hA]
        have : (q + 1) * B = q * B + B := by grind
        omega
    · rename_i hfit
      have hq1 : q + 1 = 2 ^ 96 := by unfold two96 at hfit; omega
      rw [hq1] at h
      have hs1 := ufo_none _ _ _ _ _ h
      rw [ufo_finish σ hs1] at h
      simp only [Option.some.injEq, Prod.mk.injEq] at h
      obtain ⟨rfl, rfl⟩ := h
      refine ⟨hs1, by omega, by decide, 1, e, by omega, ?_, ?_⟩
      · rw [hA]
        have hqv : q = 2 ^ 96 - 1 := by omega
        subst hqv
        simp only [Nat.pow_one]
        have e1 : 7922816251426433759354395034 * 10 * B = 79228162514264337593543950340 * B := by grind
        rw [e1]; omega
      · rw [hA]
        have hqv : q = 2 ^ 96 - 1 := by omega
        subst hqv
        simp only [Nat.pow_one]
        have e1 : 7922816251426433759354395034 * 10 * B = 79228162514264337593543950340 * B := by grind
        rw [e1]; omega
  · rename_i hup
    simp only [Option.some.injEq, Prod.mk.injEq] at h
    obtain ⟨rfl, rfl⟩ := h
    refine ⟨hσ, hσ28, hq, 0, e, by omega, ?_, ?_⟩
    · simp only [Nat.pow_zero, Nat.mul_one]; rw [hA]; omega
    · simp only [Nat.pow_zero, Nat.mul_one]; rw [hA]; omega

/-- what a pass of the loop must deliver: a result satisfying the postcondition, `Overflow`, or the invariant at a scale
larger by `p`. -/
def StepOK (A B sa sb : Nat) (σ : Int) (p : Nat) : DivStep → Prop
  | .done none => True
  | .done (some (m, s)) => DivPost A B sa sb m s
  | .next q' r' s' => DivInv A B sa sb q' r' s' ∧ s' = σ + p

/-- one scaling step keeps the invariant, or ends in a result satisfying the postcondition (or in `Overflow`). -/
theorem divGrow_spec (A B sa sb q r p : Nat) (σ : Int) (inv : DivInv A B sa sb q r σ) (hp : σ + p ≤ 28)
    (hp9 : p ≤ 9) : StepOK A B sa sb σ p (divGrow q r B p σ) := by
  obtain ⟨⟨e, he, hA⟩, hr, hq, hσ28⟩ := inv
  have hB : 0 < B := by omega
  unfold divGrow
  simp only
  split
  · trivial
  · rename_i hq1
    have hA' : A * 10 ^ (e + p) = (q * 10 ^ p + r * 10 ^ p / B) * B + r * 10 ^ p % B := by
      have hdm := Nat.div_add_mod (r * 10 ^ p) B
      rw [Nat.pow_add, ← Nat.mul_assoc, hA]
      generalize r * 10 ^ p / B = d at hdm ⊢
      generalize r * 10 ^ p % B = f at hdm ⊢
      generalize 10 ^ p = P at hdm ⊢
      grind
    have hr2 : r * 10 ^ p % B < B := Nat.mod_lt _ hB
    have h1 : r * 10 ^ p < B * 10 ^ p := Nat.mul_lt_mul_of_pos_right hr (natpow10_pos p)
    have h2 : r * 10 ^ p / B < 10 ^ p := Nat.div_lt_of_lt_mul h1
    split
    · rename_i hq2
      cases hu : unscaleFromOverflow (q * 10 ^ p + r * 10 ^ p / B) (σ + p) (r * 10 ^ p % B != 0) with
      | none => trivial
      | some ms =>
        obtain ⟨m, s⟩ := ms
        have hs1 := ufo_none _ _ _ _ _ hu
        obtain ⟨m', hm', hle, hb1, hb2⟩ := ufo_grow (q * 10 ^ p + r * 10 ^ p / B) (r * 10 ^ p % B) B (σ + p) hs1 hr2
        rw [hm'] at hu
        simp only [Option.some.injEq, Prod.mk.injEq] at hu
        obtain ⟨rfl, rfl⟩ := hu
        show DivPost A B sa sb m' (σ + p - 1)
        refine ⟨hs1, by omega, ?_, 1, e + p, by omega, ?_, ?_⟩
        · -- v < 2·2^96, so v/10 + 1 < 2^96
          unfold two96 at hq1 hq2
          have hq0 : q ≠ 0 := by
            intro hq0; subst hq0
            simp only [Nat.zero_mul, Nat.zero_add] at hq2
            have : 10 ^ p ≤ 10 ^ 9 := Nat.pow_le_pow_right (by decide) hp9
            omega
          have : 10 ^ p ≤ q * 10 ^ p := Nat.le_mul_of_pos_left _ (by omega)
          omega
        · simp only [Nat.pow_one]; rw [hA']; exact hb1
        · simp only [Nat.pow_one]; rw [hA']; exact hb2
    · rename_i hq2
      exact ⟨⟨⟨e + p, by omega, hA'⟩, hr2, by unfold two96 at hq2; omega, hp⟩, rfl⟩

theorem maxFit_le : ∀ (x q : Nat), maxFit x q ≤ x
  | 0, _ => Nat.le_refl _
  | x + 1, q => by
    unfold maxFit; split
    · exact Nat.le_refl _
    · exact Nat.le_succ_of_le (maxFit_le x q)

theorem findScale_bound (q : Nat) (σ : Int) (s : Nat) (h : findScale q σ = some s) (hσ : σ ≤ 28) :
    σ + s ≤ 28 ∧ (s = 0 → 0 ≤ σ) ∧ s ≤ 9 := by
  unfold findScale at h
  have hf := maxFit_le 9 q
  generalize maxFit 9 q = fit at h hf
  by_cases h19 : σ > 19
  · simp only [h19, if_true] at h
    split at h
    · simp only [Option.some.injEq] at h; omega
    · split at h
      · cases h
      · simp only [Option.some.injEq] at h; omega
  · simp only [h19, if_false] at h
    split at h
    · simp only [Option.some.injEq] at h; omega
    · split at h
      · cases h
      · simp only [Option.some.injEq] at h; omega

/-- a pass of the loop delivers `StepOK` for some number of added places. -/
theorem divStep_spec (A B sa sb q r : Nat) (σ : Int) (inv : DivInv A B sa sb q r σ) :
    ∃ p, StepOK A B sa sb σ p (divStep q r B σ).1 ∧ (0 < p ∨ ∀ q' r' s', (divStep q r B σ).1 ≠ .next q' r' s') := by
  unfold divStep
  split
  · rename_i hr0
    split
    · rename_i hσ
      obtain ⟨⟨e, he, hA⟩, hr, hq, hσ28⟩ := inv
      subst hr0
      refine ⟨0, ?_, Or.inr (by intro _ _ _ h; cases h)⟩
      show DivPost A B sa sb q σ
      refine ⟨hσ, hσ28, hq, 0, e, by omega, ?_, ?_⟩ <;> simp only [Nat.pow_zero, Nat.mul_one] <;> rw [hA] <;> omega
    · rename_i hσ
      have hp : σ + (min 9 (-σ).toNat : Nat) ≤ 28 := by omega
      exact ⟨_, divGrow_spec A B sa sb q r (min 9 (-σ).toNat) σ inv hp (by omega), Or.inl (by omega)⟩
  · rename_i hr0
    split
    · rename_i h28
      refine ⟨0, ?_, Or.inr (by intro _ _ _ h; cases h)⟩
      show StepOK A B sa sb σ 0 (.done (divFinish q r B σ))
      cases hf : divFinish q r B σ with
      | none => trivial
      | some ms => exact divFinish_post A B sa sb q r σ inv (by omega) ms.1 ms.2 hf
    · rename_i h28
      cases hfs : findScale q σ with
      | none => exact ⟨0, trivial, Or.inr (by intro _ _ _ h; cases h)⟩
      | some s =>
        have hb := findScale_bound q σ s hfs inv.σ_le
        simp only
        split
        · rename_i hs0
          refine ⟨0, ?_, Or.inr (by intro _ _ _ h; cases h)⟩
          show StepOK A B sa sb σ 0 (.done (divFinish q r B σ))
          cases hf : divFinish q r B σ with
          | none => trivial
          | some ms => exact divFinish_post A B sa sb q r σ inv (hb.2.1 hs0) ms.1 ms.2 hf
        · rename_i hs0
          exact ⟨s, divGrow_spec A B sa sb q r s σ inv hb.1 hb.2.2, Or.inl (by omega)⟩

/-- the loop: any result satisfies the postcondition. -/
theorem divLoop_post (A B sa sb : Nat) : ∀ (fuel q r : Nat) (σ : Int) (flag : Bool), DivInv A B sa sb q r σ →
    ∀ m s f, divLoop fuel q r B σ flag = some (m, s, f) → DivPost A B sa sb m s
  | 0, _, _, _, _, _, _, _, _, h => by simp [divLoop] at h
  | fuel + 1, q, r, σ, flag, inv, m, s, f, h => by
    unfold divLoop at h
    obtain ⟨p, hs, _⟩ := divStep_spec A B sa sb q r σ inv
    cases hst : divStep q r B σ with
    | mk st fl =>
      rw [hst] at h hs
      simp only at hs
      cases st with
      | done res =>
        cases res with
        | none => simp at h
        | some ms =>
          simp only [Option.map_some, Option.some.injEq, Prod.mk.injEq] at h
          obtain ⟨rfl, rfl, _⟩ := h
          exact hs
      | next q' r' s' =>
        simp only at h
        exact divLoop_post A B sa sb fuel q' r' s' _ hs.1 m s f h

/-! ## `unscale` keeps the value -/

theorem post_unscale_step (A B sa sb m : Nat) (s : Int) (k : Nat) (post : DivPost A B sa sb m s)
    (hs : s ≥ k) (hd : m % 10 ^ k = 0) : DivPost A B sa sb (m / 10 ^ k) (s - k) := by
  obtain ⟨h0, h28, hm, x, y, he, hb1, hb2⟩ := post
  have hpk := natpow10_pos k
  have hmk : m / 10 ^ k * 10 ^ k = m := Nat.div_mul_cancel (Nat.dvd_of_mod_eq_zero hd)
  refine ⟨by omega, by omega, ?_, x + k, y, by omega, ?_, ?_⟩
  · have : m / 10 ^ k ≤ m := Nat.div_le_self _ _
    omega
  · have e1 : m / 10 ^ k * 10 ^ (x + k) * B = m * 10 ^ x * B := by
      rw [Nat.pow_add]
      calc m / 10 ^ k * (10 ^ x * 10 ^ k) * B = (m / 10 ^ k * 10 ^ k) * 10 ^ x * B := by grind
        _ = m * 10 ^ x * B := by rw [hmk]
    have e2 : B * 10 ^ x ≤ B * 10 ^ (x + k) := Nat.mul_le_mul_left _ (Nat.pow_le_pow_right (by decide) (by omega))
    rw [e1]; omega
  · have e1 : m / 10 ^ k * 10 ^ (x + k) * B = m * 10 ^ x * B := by
      rw [Nat.pow_add]
      calc m / 10 ^ k * (10 ^ x * 10 ^ k) * B = (m / 10 ^ k * 10 ^ k) * 10 ^ x * B := by grind
        _ = m * 10 ^ x * B := by rw [hmk]
    have e2 : B * 10 ^ x ≤ B * 10 ^ (x + k) := Nat.mul_le_mul_left _ (Nat.pow_le_pow_right (by decide) (by omega))
    rw [e1]; omega

theorem unscale8_post (A B sa sb : Nat) : ∀ (fuel m : Nat) (s : Int), DivPost A B sa sb m s →
    DivPost A B sa sb (unscale8 fuel m s).1 (unscale8 fuel m s).2
  | 0, _, _, h => h
  | fuel + 1, m, s, h => by
    unfold unscale8
    split
    · rename_i hc
      have := post_unscale_step A B sa sb m s 8 h (by omega) hc.2.2
      exact unscale8_post A B sa sb fuel _ _ this
    · exact h

theorem unscale_post (A B sa sb m : Nat) (s : Int) (h : DivPost A B sa sb m s) :
    DivPost A B sa sb (unscale m s).1 (unscale m s).2 := by
  unfold unscale
  have h8 := unscale8_post A B sa sb 4 m s h
  generalize unscale8 4 m s = p8 at h8
  obtain ⟨m1, s1⟩ := p8
  simp only at h8 ⊢
  have h4 : DivPost A B sa sb
      (if m1 % 16 = 0 ∧ s1 ≥ 4 ∧ m1 % 10 ^ 4 = 0 then (m1 / 10 ^ 4, s1 - 4) else (m1, s1)).1
      (if m1 % 16 = 0 ∧ s1 ≥ 4 ∧ m1 % 10 ^ 4 = 0 then (m1 / 10 ^ 4, s1 - 4) else (m1, s1)).2 := by
    split
    · rename_i hc; exact post_unscale_step A B sa sb m1 s1 4 h8 (by omega) hc.2.2
    · exact h8
  generalize (if m1 % 16 = 0 ∧ s1 ≥ 4 ∧ m1 % 10 ^ 4 = 0 then (m1 / 10 ^ 4, s1 - 4) else (m1, s1)) = p4 at h4
  obtain ⟨m2, s2⟩ := p4
  simp only at h4 ⊢
  have h2 : DivPost A B sa sb
      (if m2 % 4 = 0 ∧ s2 ≥ 2 ∧ m2 % 10 ^ 2 = 0 then (m2 / 10 ^ 2, s2 - 2) else (m2, s2)).1
      (if m2 % 4 = 0 ∧ s2 ≥ 2 ∧ m2 % 10 ^ 2 = 0 then (m2 / 10 ^ 2, s2 - 2) else (m2, s2)).2 := by
    split
    · rename_i hc; exact post_unscale_step A B sa sb m2 s2 2 h4 (by omega) hc.2.2
    · exact h4
  generalize (if m2 % 4 = 0 ∧ s2 ≥ 2 ∧ m2 % 10 ^ 2 = 0 then (m2 / 10 ^ 2, s2 - 2) else (m2, s2)) = p2 at h2
  obtain ⟨m3, s3⟩ := p2
  simp only at h2 ⊢
  split
  · rename_i hc
    have := post_unscale_step A B sa sb m3 s3 1 h2 (by omega) (by simpa using hc.2.2)
    simpa using this
  · exact h2


/-! ## `div_impl`: the postcondition, and its reading over `Rat` -/

/-- every `Ok` result of `div_impl` on well-formed non-zero operands satisfies the postcondition; its sign flag is the XOR of
the operands' (cleared on a zero quotient). -/
theorem divImpl_post (a b r : D96) (ha : a.wf) (ha0 : a.mant ≠ 0) (hb0 : b.mant ≠ 0) (h : divImpl a b = .ok r) :
    ∃ m : Nat, ∃ s : Int, DivPost a.mant b.mant a.scale b.scale m s ∧ r = fromParts (a.neg != b.neg) m s.toNat := by
  unfold divImpl at h
  simp only [hb0, ha0, if_false] at h
  have inv : DivInv a.mant b.mant a.scale b.scale (a.mant / b.mant) (a.mant % b.mant) ((a.scale : Int) - b.scale) := by
    refine ⟨⟨0, by omega, ?_⟩, Nat.mod_lt _ (by omega), ?_, by have := ha.2; omega⟩
    · have := Nat.div_add_mod a.mant b.mant
      simp only [Nat.pow_zero, Nat.mul_one]
      rw [Nat.mul_comm]; omega
    · have : a.mant / b.mant ≤ a.mant := Nat.div_le_self _ _
      have := ha.1; omega
  cases hl : divLoop 64 (a.mant / b.mant) (a.mant % b.mant) b.mant ((a.scale : Int) - b.scale) false with
  | none => rw [hl] at h; cases h
  | some res =>
    obtain ⟨q, scale, flag⟩ := res
    rw [hl] at h
    have post := divLoop_post a.mant b.mant a.scale b.scale 64 _ _ _ _ inv q scale flag hl
    simp only at h
    cases flag
    · simp only [Bool.false_eq_true, if_false, Calc.ok.injEq] at h
      exact ⟨q, scale, post, h.symm⟩
    · simp only [if_true, Calc.ok.injEq] at h
      exact ⟨_, _, unscale_post _ _ _ _ q scale post, h.symm⟩

theorem divImpl_divByZero (a b : D96) : divImpl a b = .divByZero ↔ b.mant = 0 := by
  unfold divImpl
  constructor
  · intro h
    by_cases hb : b.mant = 0
    · exact hb
    · simp only [hb, if_false] at h
      split at h
      · cases h
      · split at h <;> cases h
  · intro h; simp [h]

theorem divImpl_zero (a b : D96) (ha : a.mant = 0) (hb : b.mant ≠ 0) : divImpl a b = .ok zero := by
  unfold divImpl; simp [ha, hb]

/-- half a unit of the last place at scale `s` -/
def halfUlp (s : Nat) : Rat := 1 / (2 * (10 : Rat) ^ s)

theorem natCast_pow10 (k : Nat) : (((10 : Nat) ^ k : Nat) : Rat) = (10 : Rat) ^ k := by
  induction k with
  | zero => simp
  | succ k ih => rw [Nat.pow_succ, Rat.natCast_mul, ih, Rat.pow_succ]; rfl

theorem rat_bound_upper (m A B s sa sb x y : Nat) (hB : 0 < B) (he : s + sb + x = sa + y)
    (h1 : 2 * (m * 10 ^ x * B) ≤ 2 * (A * 10 ^ y) + B * 10 ^ x) :
    (m : Rat) / 10 ^ s ≤ ((A : Rat) / 10 ^ sa) / ((B : Rat) / 10 ^ sb) + halfUlp s := by
  unfold halfUlp
  have hBr : (0 : Rat) < (B : Rat) := by exact_mod_cast hB
  have ps := pow10_pos s
  have psa := pow10_pos sa
  have psb := pow10_pos sb
  have px := pow10_pos x
  have hP : (0 : Rat) < 2 * 10 ^ s * B * 10 ^ sa * 10 ^ x :=
    Rat.mul_pos (Rat.mul_pos (Rat.mul_pos (Rat.mul_pos (by decide) ps) hBr) psa) px
  apply Rat.le_of_mul_le_mul_right _ hP
  have hpow : (10 : Rat) ^ sb * 10 ^ s * 10 ^ x = 10 ^ sa * 10 ^ y := by
    rw [← pow10_add, ← pow10_add, ← pow10_add]; congr 1; omega
  have h2 := Nat.mul_le_mul_left (10 ^ sa) h1
  have h3 : (((10 ^ sa * (2 * (m * 10 ^ x * B)) : Nat)) : Rat) ≤ ((10 ^ sa * (2 * (A * 10 ^ y) + B * 10 ^ x) : Nat) : Rat) :=
    Rat.natCast_le_natCast.mpr h2
  simp only [Rat.natCast_mul, Rat.natCast_add, natCast_pow10] at h3
  have e1 : (m : Rat) / 10 ^ s * (2 * 10 ^ s * B * 10 ^ sa * 10 ^ x) = 10 ^ sa * (2 * (m * 10 ^ x * B)) := by
    have := pow10_ne_zero s
    grind
  have e2 : ((A : Rat) / 10 ^ sa / ((B : Rat) / 10 ^ sb) + 1 / (2 * 10 ^ s)) * (2 * 10 ^ s * B * 10 ^ sa * 10 ^ x)
      = 2 * A * (10 ^ sb * 10 ^ s * 10 ^ x) + B * 10 ^ sa * 10 ^ x := by
    have := pow10_ne_zero s
    have := pow10_ne_zero sa
    have := pow10_ne_zero sb
    have : (B : Rat) ≠ 0 := by grind
    grind
  rw [e1, e2, hpow]
  grind

theorem rat_bound_lower (m A B s sa sb x y : Nat) (hB : 0 < B) (he : s + sb + x = sa + y)
    (h1 : 2 * (A * 10 ^ y) ≤ 2 * (m * 10 ^ x * B) + B * 10 ^ x) :
    ((A : Rat) / 10 ^ sa) / ((B : Rat) / 10 ^ sb) ≤ (m : Rat) / 10 ^ s + halfUlp s := by
  unfold halfUlp
  have hBr : (0 : Rat) < (B : Rat) := by exact_mod_cast hB
  have ps := pow10_pos s
  have psa := pow10_pos sa
  have psb := pow10_pos sb
  have px := pow10_pos x
  have hP : (0 : Rat) < 2 * 10 ^ s * B * 10 ^ sa * 10 ^ x :=
    Rat.mul_pos (Rat.mul_pos (Rat.mul_pos (Rat.mul_pos (by decide) ps) hBr) psa) px
  apply Rat.le_of_mul_le_mul_right _ hP
  have hpow : (10 : Rat) ^ sb * 10 ^ s * 10 ^ x = 10 ^ sa * 10 ^ y := by
    rw [← pow10_add, ← pow10_add, ← pow10_add]; congr 1; omega
  have h2 := Nat.mul_le_mul_left (10 ^ sa) h1
  have h3 : (((10 ^ sa * (2 * (A * 10 ^ y)) : Nat)) : Rat) ≤ ((10 ^ sa * (2 * (m * 10 ^ x * B) + B * 10 ^ x) : Nat) : Rat) :=
    Rat.natCast_le_natCast.mpr h2
  simp only [Rat.natCast_mul, Rat.natCast_add, natCast_pow10] at h3
  have e1 : ((m : Rat) / 10 ^ s + 1 / (2 * 10 ^ s)) * (2 * 10 ^ s * B * 10 ^ sa * 10 ^ x)
      = 10 ^ sa * (2 * (m * 10 ^ x * B)) + B * 10 ^ sa * 10 ^ x := by
    have := pow10_ne_zero s
    grind
  have e2 : ((A : Rat) / 10 ^ sa / ((B : Rat) / 10 ^ sb)) * (2 * 10 ^ s * B * 10 ^ sa * 10 ^ x)
      = 2 * A * (10 ^ sb * 10 ^ s * 10 ^ x) := by
    have := pow10_ne_zero s
    have := pow10_ne_zero sa
    have := pow10_ne_zero sb
    have : (B : Rat) ≠ 0 := by grind
    grind
  rw [e1, e2, hpow]
  grind

theorem val_eq_sgnR (d : D96) : val d = sgnR d.neg * ((d.mant : Rat) / (10 : Rat) ^ d.scale) := by
  unfold val D96.int sgnR sgn
  cases d.neg <;> simp [Rat.intCast_neg, Rat.neg_mul, Rat.div_def, Rat.intCast_natCast]

/-- **`/`, `checked_div`: correct to half a unit of the last place.** Whenever the crate returns a quotient for well-formed
operands, it is well-formed and differs from the exact quotient `val a / val b` by at most `½·10^-scale` of ITS OWN scale
(the scale is whatever the algorithm ended with: up to 28 places, fewer if 96 bits were exhausted first, trailing zeros
partly stripped). `DivByZero` is reported exactly for a zero divisor. -/
theorem div_bound (a b r : D96) (ha : a.wf) (h : divImpl a b = .ok r) :
    r.wf ∧ b.mant ≠ 0 ∧ val a / val b - halfUlp r.scale ≤ val r ∧ val r ≤ val a / val b + halfUlp r.scale := by
  have hb0 : b.mant ≠ 0 := by
    intro hb0; rw [(divImpl_divByZero a b).mpr hb0] at h; cases h
  have hh : (0 : Rat) ≤ halfUlp r.scale := by
    unfold halfUlp
    have := pow10_pos r.scale
    have h2 : (0 : Rat) < 2 * 10 ^ r.scale := Rat.mul_pos (by decide) this
    rw [Rat.div_def, Rat.one_mul]
    exact Rat.le_of_lt (Rat.inv_pos.mpr h2)
  by_cases ha0 : a.mant = 0
  · rw [divImpl_zero a b ha0 hb0] at h
    cases h
    refine ⟨zero_wf, hb0, ?_, ?_⟩ <;> rw [val_of_mant_zero a ha0, val_zero] <;> simp only [Rat.div_def, Rat.zero_mul] <;> grind
  · obtain ⟨m, s, post, hr⟩ := divImpl_post a b r ha ha0 hb0 h
    obtain ⟨h0, h28, hm, x, y, he, hb1, hb2⟩ := post
    subst hr
    have hs : ((s.toNat : Nat) : Int) = s := Int.toNat_of_nonneg h0
    have he' : s.toNat + b.scale + x = a.scale + y := by omega
    have hB : 0 < b.mant := by omega
    have up := rat_bound_upper m a.mant b.mant s.toNat a.scale b.scale x y hB he' hb1
    have lo := rat_bound_lower m a.mant b.mant s.toNat a.scale b.scale x y hB he' hb2
    refine ⟨⟨hm, by simp; omega⟩, hb0, ?_, ?_⟩
    all_goals
      rw [val_eq_sgnR a, val_eq_sgnR b]
      unfold val
      rw [fromParts_int, fromParts_scale]
      generalize ((a.mant : Rat) / 10 ^ a.scale) = X at up lo ⊢
      generalize ((b.mant : Rat) / 10 ^ b.scale) = Y at up lo ⊢
      generalize halfUlp s.toNat = hu at up lo ⊢
      have em : ((sgn (a.neg != b.neg) * (m : Int) : Int) : Rat) / 10 ^ s.toNat
          = sgnR (a.neg != b.neg) * ((m : Rat) / 10 ^ s.toNat) := by
        cases (a.neg != b.neg) <;> simp [sgn, sgnR, Rat.neg_mul, Rat.div_def, Rat.intCast_natCast]
      rw [em]
      generalize ((m : Rat) / 10 ^ s.toNat) = M at up lo ⊢
      have eq : sgnR a.neg * X / (sgnR b.neg * Y) = sgnR (a.neg != b.neg) * (X / Y) := by
        cases a.neg <;> cases b.neg <;> simp [sgnR] <;> grind
      rw [eq]
      generalize X / Y = T at up lo ⊢
      cases (a.neg != b.neg) <;> simp [sgnR] <;> grind

end Okane.Dec96
