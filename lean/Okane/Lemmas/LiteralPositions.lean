import Okane.Lemmas.ParseTotalGrammar
import Okane.Model.PriceDbFile
import Okane.Generated.ParamsTie
/-!
# C07_positions — the number token handed to the literal scanner is maximal, in every syntactic position

`primitive::pretty_decimal` is `(opt(one_of('-')), take_while(1.., [0-9,.])).take().try_map(str::parse)`;
the model of its token extent is `Literal.tokenSplit` (`Model/Literal.lean`), the model of `str::parse` is
`Literal.scan` (C07).  This file proves, for ALL inputs:

* `tokenSplit_ok_iff` — `tokenSplit inp = .ok (tok, rest)` **iff** `inp = tok ++ rest`, `tok` is an optional `-`
  followed by a non-empty run over `[0-9,.]`, and `rest` does not begin with a character of `[0-9,.]`
  (maximal munch); `tokenSplit_maximal`: every other token that starts at `inp` is a prefix of the one taken;
  `tokenSplit_sign`: the minus sign is part of the token exactly when the input starts with one.
* `tokenSplit_error_iff` — `tokenSplit` fails **iff** no token at all starts at `inp`.
* `prettyDecimal_uses_tokenSplit`, `amount_uses_tokenSplit`, `parseAmount_uses_tokenSplit` — `pretty_decimal` /
  `expr::amount` succeed iff `scan` accepts exactly that maximal token; the `PDec` in the tree is its result.
* `exprs_use_tokenSplit` (the six mutually recursive functions of `parse/expr.rs`) and the grammar rules above them
  (`lotAmount`, `lot`, `totalCost`, `rateCost`, `postingAmount`, `posting`, `transaction`, `commodityDeclaration`
  — the `format` sub-directive —, `parseLedgerEntry`, `priceDbEntry`): **every** `PDec` of the tree they return is
  `scan tok` for a `tok` that `tokenSplit` cut out at some position of the consumed text (`ReadsIn`).
* `parseLedgerRun_uses_tokenSplit`, `parseEntries_uses_tokenSplit`, `parsePriceDb_uses_tokenSplit` — the same for
  whole texts: every numeric literal of every entry is the scan of a maximal token of the text.
* `maximal_token_rejected` / `no_short_read` — consequence: where the text has `12,50 USD`, the only literal the
  parser can read there is `12,50` (which C07 rejects); it can never read `12` and go on with `,50`.
-/
namespace Okane.LiteralPositions
open Okane Okane.Literal

/-! ## the token alphabet -/

/-- a non-empty run over the token alphabet `[0-9,.]` -/
def NumRun (run : List Char) : Prop := run ≠ [] ∧ ∀ c ∈ run, isNumChar c = true

/-- a number token: an optional minus sign and a non-empty run over `[0-9,.]` -/
def IsToken (tok : List Char) : Prop := ∃ run, NumRun run ∧ (tok = '-' :: run ∨ tok = run)

/-- `rest` does not begin with a character of `[0-9,.]` -/
def NoNumHead (rest : List Char) : Prop := ∀ c r, rest = c :: r → isNumChar c = false

/-- the alphabet of the model is the alphabet the Rust source spells out now (`tools/probe_source.py`) -/
theorem isNumChar_source (c : Char) :
    isNumChar c = (c.isDigit || Params.numberTokenExtra.toList.contains c || Params.numberTokenExtra2.toList.contains c) :=
  ParamsTie.numberToken_tie c

theorem minus_not_numChar : isNumChar '-' = false := by decide

theorem numChar_ne_minus {c : Char} (h : isNumChar c = true) : c ≠ '-' := by
  intro hc; subst hc; simp [minus_not_numChar] at h

theorem takeWhile_all {p : Char → Bool} : ∀ (l : List Char), ∀ c ∈ l.takeWhile p, p c = true := by
  intro l
  induction l with
  | nil => intro c hc; simp at hc
  | cons a l ih =>
    intro c hc
    by_cases ha : p a = true
    · simp only [List.takeWhile, ha, List.mem_cons] at hc
      rcases hc with rfl | hc
      · exact ha
      · exact ih c hc
    · simp [List.takeWhile, ha] at hc

theorem noNumHead_dropWhile (l : List Char) : NoNumHead (l.dropWhile isNumChar) := by
  induction l with
  | nil => intro c r h; simp at h
  | cons a l ih =>
    by_cases ha : isNumChar a = true
    · simpa [List.dropWhile, ha] using ih
    · intro c r h
      simp only [List.dropWhile, ha] at h
      injection h with h1 h2
      subst h1
      simpa using ha

theorem takeWhile_run {run rest : List Char} (hr : ∀ c ∈ run, isNumChar c = true) (hn : NoNumHead rest) :
    (run ++ rest).takeWhile isNumChar = run := by
  induction run with
  | nil =>
    cases rest with
    | nil => rfl
    | cons c r => simp [hn c r rfl]
  | cons c a ih =>
    have hc : isNumChar c = true := hr c (by simp)
    simp only [List.cons_append, List.takeWhile, hc]
    rw [ih (fun d hd => hr d (by simp [hd]))]

theorem dropWhile_run {run rest : List Char} (hr : ∀ c ∈ run, isNumChar c = true) (hn : NoNumHead rest) :
    (run ++ rest).dropWhile isNumChar = rest := by
  induction run with
  | nil =>
    cases rest with
    | nil => rfl
    | cons c r => simp [hn c r rfl]
  | cons c a ih =>
    have hc : isNumChar c = true := hr c (by simp)
    simp only [List.cons_append, List.dropWhile, hc]
    exact ih (fun d hd => hr d (by simp [hd]))

/-- a run of token characters at the head of a text is a prefix of the longest such run -/
theorem run_prefix_takeWhile : ∀ {run rest : List Char}, (∀ c ∈ run, isNumChar c = true) →
    run <+: (run ++ rest).takeWhile isNumChar := by
  intro run
  induction run with
  | nil => intro rest _; exact List.nil_prefix
  | cons c a ih =>
    intro rest hr
    have hc : isNumChar c = true := hr c (by simp)
    simp only [List.cons_append, List.takeWhile, hc]
    exact List.cons_prefix_cons.2 ⟨rfl, ih (fun d hd => hr d (by simp [hd]))⟩

/-! ## `tokenSplit` -/

/-- `tokenSplit` on an input that starts with a minus sign -/
theorem tokenSplit_minus (r : List Char) :
    tokenSplit ('-' :: r) = if (r.takeWhile isNumChar).isEmpty then .error r
      else .ok ('-' :: r.takeWhile isNumChar, r.dropWhile isNumChar) := by
  simp [tokenSplit]

/-- `tokenSplit` on an input that does not start with a minus sign -/
theorem tokenSplit_plain {inp : List Char} (h : ∀ r, inp ≠ '-' :: r) :
    tokenSplit inp = if (inp.takeWhile isNumChar).isEmpty then .error inp
      else .ok (inp.takeWhile isNumChar, inp.dropWhile isNumChar) := by
  unfold tokenSplit
  split
  rename_i sign body heq
  split at heq
  · exact absurd rfl (h _)
  · injection heq with h1 h2
    subst h1; subst h2
    simp

/-- **maximal munch, soundness half**: what `tokenSplit` returns is a split of the input into a token
(optional `-`, then a non-empty run over `[0-9,.]`) and a rest that does not go on with a token character. -/
theorem tokenSplit_ok_shape {inp tok rest : List Char} (h : tokenSplit inp = .ok (tok, rest)) :
    inp = tok ++ rest ∧ IsToken tok ∧ NoNumHead rest := by
  by_cases hm : ∃ r, inp = '-' :: r
  · obtain ⟨r, rfl⟩ := hm
    rw [tokenSplit_minus] at h
    split at h
    · cases h
    · rename_i hne
      injection h with h
      injection h with h1 h2
      subst h1; subst h2
      refine ⟨by simp [List.takeWhile_append_dropWhile], ⟨_, ⟨?_, takeWhile_all r⟩, .inl rfl⟩, noNumHead_dropWhile r⟩
      intro he; rw [he] at hne; simp at hne
  · have hm' : ∀ r, inp ≠ '-' :: r := fun r hr => hm ⟨r, hr⟩
    rw [tokenSplit_plain hm'] at h
    split at h
    · cases h
    · rename_i hne
      injection h with h
      injection h with h1 h2
      subst h1; subst h2
      refine ⟨by simp [List.takeWhile_append_dropWhile], ⟨_, ⟨?_, takeWhile_all inp⟩, .inr rfl⟩, noNumHead_dropWhile inp⟩
      intro he; rw [he] at hne; simp at hne

/-- **maximal munch, completeness half**: a split of the input into a token and a rest that does not go on with a
token character IS what `tokenSplit` returns. -/
theorem tokenSplit_of_shape {tok rest : List Char} (ht : IsToken tok) (hr : NoNumHead rest) :
    tokenSplit (tok ++ rest) = .ok (tok, rest) := by
  obtain ⟨run, ⟨hne, hall⟩, h | h⟩ := ht
  · subst h
    rw [List.cons_append, tokenSplit_minus, takeWhile_run hall hr, dropWhile_run hall hr]
    cases run with
    | nil => exact absurd rfl hne
    | cons c cs => rfl
  · subst h
    have hm : ∀ r, tok ++ rest ≠ '-' :: r := by
      intro r he
      cases tok with
      | nil => exact absurd rfl hne
      | cons c cs =>
        simp only [List.cons_append, List.cons.injEq] at he
        exact numChar_ne_minus (hall c (by simp)) he.1
    rw [tokenSplit_plain hm, takeWhile_run hall hr, dropWhile_run hall hr]
    cases tok with
    | nil => exact absurd rfl hne
    | cons c cs => rfl

/-- **C07_positions, token extent**: `tokenSplit inp = .ok (tok, rest)` iff `inp = tok ++ rest`, `tok` is an optional
minus sign followed by a non-empty run over `[0-9,.]`, and `rest` does not begin with a character of `[0-9,.]`. -/
theorem tokenSplit_ok_iff (inp tok rest : List Char) :
    tokenSplit inp = .ok (tok, rest) ↔ inp = tok ++ rest ∧ IsToken tok ∧ NoNumHead rest := by
  constructor
  · exact tokenSplit_ok_shape
  · rintro ⟨rfl, ht, hr⟩
    exact tokenSplit_of_shape ht hr

/-- the token is unique: two maximal tokens at the same position are the same -/
theorem token_unique {tok rest tok' rest' : List Char} (h : tok ++ rest = tok' ++ rest')
    (ht : IsToken tok) (hr : NoNumHead rest) (ht' : IsToken tok') (hr' : NoNumHead rest') : tok = tok' ∧ rest = rest' := by
  have h1 := tokenSplit_of_shape ht hr
  have h2 := tokenSplit_of_shape ht' hr'
  rw [h, h2] at h1
  injection h1 with h1
  injection h1 with h3 h4
  exact ⟨h3.symm, h4.symm⟩

/-- **maximality**: every token that starts at `inp` (whatever follows it) is a prefix of the token `tokenSplit` takes;
in particular no shorter token is ever handed to the literal scanner. -/
theorem tokenSplit_maximal {inp tok rest tok' rest' : List Char} (h : tokenSplit inp = .ok (tok, rest))
    (ht' : IsToken tok') (he : inp = tok' ++ rest') : tok' <+: tok := by
  obtain ⟨run', ⟨hne', hall'⟩, h' | h'⟩ := ht'
  · subst h'; subst he
    rw [List.cons_append, tokenSplit_minus] at h
    split at h
    · cases h
    · injection h with h
      injection h with h1 h2
      subst h1
      exact List.cons_prefix_cons.2 ⟨rfl, run_prefix_takeWhile hall'⟩
  · subst h'; subst he
    have hm : ∀ r, tok' ++ rest' ≠ '-' :: r := by
      intro r he
      cases tok' with
      | nil => exact absurd rfl hne'
      | cons c cs =>
        simp only [List.cons_append, List.cons.injEq] at he
        exact numChar_ne_minus (hall' c (by simp)) he.1
    rw [tokenSplit_plain hm] at h
    split at h
    · cases h
    · injection h with h
      injection h with h1 h2
      subst h1
      exact run_prefix_takeWhile hall'

/-- the minus sign belongs to the token exactly when the input starts with one -/
theorem tokenSplit_sign {inp tok rest : List Char} (h : tokenSplit inp = .ok (tok, rest)) :
    (∃ r, inp = '-' :: r) ↔ ∃ run, tok = '-' :: run := by
  obtain ⟨rfl, ht, _⟩ := tokenSplit_ok_shape h
  constructor
  · rintro ⟨r, hr⟩
    obtain ⟨run, ⟨hne, hall⟩, h' | h'⟩ := ht
    · exact ⟨run, h'⟩
    · subst h'
      cases tok with
      | nil => exact absurd rfl hne
      | cons c cs =>
        simp only [List.cons_append, List.cons.injEq] at hr
        exact absurd hr.1 (numChar_ne_minus (hall c (by simp)))
  · rintro ⟨run, rfl⟩
    exact ⟨run ++ rest, rfl⟩

/-- **C07_positions, failure**: `tokenSplit` fails iff no token at all starts at the input. -/
theorem tokenSplit_error_iff (inp : List Char) :
    (∃ pos, tokenSplit inp = .error pos) ↔ ¬ ∃ tok rest, inp = tok ++ rest ∧ IsToken tok := by
  constructor
  · rintro ⟨pos, hp⟩ ⟨tok, rest, he, ht⟩
    -- a token starts here: its maximal extension is what `tokenSplit` returns
    obtain ⟨run, ⟨hne, hall⟩, h | h⟩ := ht
    · subst h; subst he
      rw [List.cons_append, tokenSplit_minus] at hp
      have hpre := run_prefix_takeWhile (rest := rest) hall
      split at hp
      · rename_i hemp
        rw [List.isEmpty_iff.1 hemp] at hpre
        exact hne (List.prefix_nil.1 hpre)
      · cases hp
    · subst h; subst he
      have hm : ∀ r, tok ++ rest ≠ '-' :: r := by
        intro r he
        cases tok with
        | nil => exact absurd rfl hne
        | cons c cs =>
          simp only [List.cons_append, List.cons.injEq] at he
          exact numChar_ne_minus (hall c (by simp)) he.1
      rw [tokenSplit_plain hm] at hp
      have hpre := run_prefix_takeWhile (rest := rest) hall
      split at hp
      · rename_i hemp
        rw [List.isEmpty_iff.1 hemp] at hpre
        exact hne (List.prefix_nil.1 hpre)
      · cases hp
  · intro hno
    cases h : tokenSplit inp with
    | error pos => exact ⟨pos, rfl⟩
    | ok p =>
      obtain ⟨tok, rest⟩ := p
      obtain ⟨h1, h2, _⟩ := tokenSplit_ok_shape h
      exact absurd ⟨tok, rest, h1, h2⟩ hno

/-- where the failure is reported: after the minus sign, if there is one -/
theorem tokenSplit_error_pos {inp pos : List Char} (h : tokenSplit inp = .error pos) :
    (inp = '-' :: pos ∨ (inp = pos ∧ ∀ r, inp ≠ '-' :: r)) ∧ NoNumHead pos := by
  by_cases hm : ∃ r, inp = '-' :: r
  · obtain ⟨r, rfl⟩ := hm
    rw [tokenSplit_minus] at h
    split at h
    · rename_i hemp
      injection h with h; subst h
      refine ⟨.inl rfl, ?_⟩
      intro c r' hr
      subst hr
      by_cases hc : isNumChar c = true
      · simp [List.takeWhile, hc] at hemp
      · simpa using hc
    · cases h
  · have hm' : ∀ r, inp ≠ '-' :: r := fun r hr => hm ⟨r, hr⟩
    rw [tokenSplit_plain hm'] at h
    split at h
    · rename_i hemp
      injection h with h; subst h
      refine ⟨.inr ⟨rfl, hm'⟩, ?_⟩
      intro c r' hr
      subst hr
      by_cases hc : isNumChar c = true
      · simp [List.takeWhile, hc] at hemp
      · simpa using hc
    · cases h

example : tokenSplit "12,50 USD".toList = .ok ("12,50".toList, " USD".toList) := by rfl
example : tokenSplit "-1,234.5.6)".toList = .ok ("-1,234.5.6".toList, ")".toList) := by rfl
example : tokenSplit "5-3".toList = .ok ("5".toList, "-3".toList) := by rfl
example : tokenSplit "-USD".toList = .error "USD".toList := by rfl
example : IsToken "12,50".toList := ⟨_, ⟨by simp, by decide⟩, .inr rfl⟩

/-! ## `pretty_decimal` and `expr::amount`: the scanner is handed exactly the maximal token -/

open _root_.Okane.ExprSyntax (skipSpaces isCommodityChar)

/-- **`pretty_decimal` uses `tokenSplit`**: it succeeds with `d`, leaving `rest`, iff `tokenSplit` cuts the input into
`(tok, rest)` and `scan tok = d`. -/
theorem prettyDecimal_uses_tokenSplit (inp : List Char) (d : PDec) (rest : List Char) :
    ExprSyntax.prettyDecimal inp = .ok d rest ↔ ∃ tok, tokenSplit inp = .ok (tok, rest) ∧ scan tok = .ok d := by
  cases ht : tokenSplit inp with
  | error pos => simp [ExprSyntax.prettyDecimal, ht]
  | ok p =>
    obtain ⟨tok, rest0⟩ := p
    cases hs : scan tok with
    | ok d0 =>
      simp only [ExprSyntax.prettyDecimal, ht, hs, ExprSyntax.PRes.ok.injEq, Except.ok.injEq, Prod.mk.injEq]
      constructor
      · rintro ⟨rfl, rfl⟩; exact ⟨tok, ⟨rfl, rfl⟩, hs⟩
      · rintro ⟨tok', ⟨rfl, rfl⟩, h2⟩
        rw [hs] at h2
        injection h2 with h2
        exact ⟨h2, rfl⟩
    | err e =>
      simp only [ExprSyntax.prettyDecimal, ht, hs, Except.ok.injEq, Prod.mk.injEq]
      constructor
      · intro h; cases h
      · rintro ⟨tok', ⟨rfl, rfl⟩, h2⟩; rw [hs] at h2; cases h2
    | panic e =>
      simp only [ExprSyntax.prettyDecimal, ht, hs, Except.ok.injEq, Prod.mk.injEq]
      constructor
      · intro h; cases h
      · rintro ⟨tok', ⟨rfl, rfl⟩, h2⟩; rw [hs] at h2; cases h2
    | fuelOut =>
      simp only [ExprSyntax.prettyDecimal, ht, hs, Except.ok.injEq, Prod.mk.injEq]
      constructor
      · intro h; cases h
      · rintro ⟨tok', ⟨rfl, rfl⟩, h2⟩; rw [hs] at h2; cases h2

/-- the same, with the token described rather than computed: the literal read at `inp` is the scan of THE maximal
token that starts there. -/
theorem prettyDecimal_ok_iff (inp : List Char) (d : PDec) (rest : List Char) :
    ExprSyntax.prettyDecimal inp = .ok d rest ↔
      ∃ tok, inp = tok ++ rest ∧ IsToken tok ∧ NoNumHead rest ∧ scan tok = .ok d := by
  rw [prettyDecimal_uses_tokenSplit]
  constructor
  · rintro ⟨tok, h1, h2⟩
    obtain ⟨h3, h4, h5⟩ := tokenSplit_ok_shape h1
    exact ⟨tok, h3, h4, h5, h2⟩
  · rintro ⟨tok, rfl, h4, h5, h2⟩
    exact ⟨tok, tokenSplit_of_shape h4 h5, h2⟩

/-- **no short read**: when the scanner rejects the maximal token, `pretty_decimal` fails as a whole (with the stream
reset to the start of the token) — it never falls back to a shorter token. -/
theorem prettyDecimal_rejects {inp tok rest : List Char} (ht : tokenSplit inp = .ok (tok, rest))
    (hs : ∀ d, scan tok ≠ .ok d) : ExprSyntax.prettyDecimal inp = .fail inp := by
  cases h : scan tok with
  | ok d => exact absurd h (hs d)
  | err e => simp only [ExprSyntax.prettyDecimal, ht, h]
  | panic e => simp only [ExprSyntax.prettyDecimal, ht, h]
  | fuelOut => simp only [ExprSyntax.prettyDecimal, ht, h]

/-- `pretty_decimal` fails where no token starts -/
theorem prettyDecimal_no_token {inp pos : List Char} (ht : tokenSplit inp = .error pos) :
    ExprSyntax.prettyDecimal inp = .fail pos := by
  simp only [ExprSyntax.prettyDecimal, ht]

/-- `pretty_decimal` never runs out of fuel (it has none) -/
theorem prettyDecimal_ne_fuelOut (inp : List Char) : ExprSyntax.prettyDecimal inp ≠ .fuelOut := by
  unfold ExprSyntax.prettyDecimal
  split
  · intro h; cases h
  · split <;> intro h <;> cases h

/-- **`expr::amount` uses `tokenSplit`** (posting amount, cost, lot price, balance assertion all reach it through
`value_expr`): it succeeds iff `scan` accepts the maximal token; the `PDec` of the tree is that result, the commodity is
what follows the blanks after the token. -/
theorem amount_uses_tokenSplit (inp : List Char) (v : VExpr) (r : List Char) :
    ExprSyntax.amount inp = .ok v r ↔ ∃ tok rest d, tokenSplit inp = .ok (tok, rest) ∧ scan tok = .ok d ∧
      v = .amt d (String.ofList ((skipSpaces rest).takeWhile isCommodityChar)) ∧
      r = (skipSpaces rest).dropWhile isCommodityChar := by
  unfold ExprSyntax.amount
  cases hp : ExprSyntax.prettyDecimal inp with
  | ok d rest =>
    obtain ⟨tok, h1, h2⟩ := (prettyDecimal_uses_tokenSplit inp d rest).1 hp
    simp only [ExprSyntax.commodity, ExprSyntax.PRes.ok.injEq]
    constructor
    · rintro ⟨rfl, rfl⟩; exact ⟨tok, rest, d, h1, h2, rfl, rfl⟩
    · rintro ⟨tok', rest', d', h1', h2', rfl, rfl⟩
      rw [h1] at h1'
      injection h1' with h1'
      injection h1' with h3 h4
      subst h3; subst h4
      rw [h2] at h2'
      injection h2' with h2'
      subst h2'
      exact ⟨rfl, rfl⟩
  | fail pos =>
    constructor
    · intro h; cases h
    · rintro ⟨tok', rest', d', h1', h2', _, _⟩
      have := (prettyDecimal_uses_tokenSplit inp d' rest').2 ⟨tok', h1', h2'⟩
      rw [hp] at this; cases this
  | fuelOut => exact absurd hp (prettyDecimal_ne_fuelOut inp)

/-- **`Parse.amount` uses `tokenSplit`** (the `format` sub-directive of `commodity` and the rate of a price-db line) -/
theorem parseAmount_uses_tokenSplit (inp : List Char) (d : PDec) (c : String) (r : List Char) :
    Parse.amount inp = .ok (d, c) r ↔ ∃ tok rest, tokenSplit inp = .ok (tok, rest) ∧ scan tok = .ok d ∧
      c = String.ofList ((skipSpaces rest).takeWhile isCommodityChar) ∧
      r = (skipSpaces rest).dropWhile isCommodityChar := by
  unfold Parse.amount
  cases hp : ExprSyntax.prettyDecimal inp with
  | ok d0 rest =>
    obtain ⟨tok, h1, h2⟩ := (prettyDecimal_uses_tokenSplit inp d0 rest).1 hp
    simp only [ExprSyntax.commodity, Comb.Res.ok.injEq, Prod.mk.injEq]
    constructor
    · rintro ⟨⟨rfl, rfl⟩, rfl⟩; exact ⟨tok, rest, h1, h2, rfl, rfl⟩
    · rintro ⟨tok', rest', h1', h2', rfl, rfl⟩
      rw [h1] at h1'
      injection h1' with h1'
      injection h1' with h3 h4
      subst h3; subst h4
      rw [h2] at h2'
      injection h2' with h2'
      subst h2'
      exact ⟨⟨rfl, rfl⟩, rfl⟩
  | fail pos =>
    constructor
    · intro h; cases h
    · rintro ⟨tok', rest', h1', h2', _, _⟩
      have := (prettyDecimal_uses_tokenSplit inp d rest').2 ⟨tok', h1', h2'⟩
      rw [hp] at this; cases this
  | fuelOut => exact absurd hp (prettyDecimal_ne_fuelOut inp)

/-- **no short read, at the level of `expr::amount`**: if the maximal token at `inp` is not a literal `scan` accepts,
`amount` fails at `inp`; whatever a shorter prefix of the token would have meant is irrelevant. -/
theorem amount_rejects {inp tok rest : List Char} (ht : tokenSplit inp = .ok (tok, rest))
    (hs : ∀ d, scan tok ≠ .ok d) : ExprSyntax.amount inp = .fail inp ∧ Parse.amount inp = .bt inp := by
  have h := prettyDecimal_rejects ht hs
  simp [ExprSyntax.amount, Parse.amount, h]

/-- `12,50 USD` is not read as `12` followed by something: the token is `12,50`, the scanner rejects it (C07: an
incomplete group), and both `amount` parsers fail at the start of the token. -/
example : tokenSplit "12,50 USD".toList = .ok ("12,50".toList, " USD".toList) ∧
    scan "12,50".toList = .err (.unexpectedEnd 5) ∧
    ExprSyntax.amount "12,50 USD".toList = .fail "12,50 USD".toList ∧
    Parse.amount "12,50 USD".toList = .bt "12,50 USD".toList := by
  have h1 : tokenSplit "12,50 USD".toList = .ok ("12,50".toList, " USD".toList) := by rfl
  have h2 : scan "12,50".toList = .err (.unexpectedEnd 5) := by decide +kernel
  have h3 := amount_rejects h1 (by rw [h2]; intro d h; cases h)
  exact ⟨h1, h2, h3.1, h3.2⟩

/-- while `12.50 USD` is read, and its literal is the scan of the whole token `12.50` -/
example : ∃ tok rest d, tokenSplit "12.50 USD".toList = .ok (tok, rest) ∧ scan tok = .ok d ∧ tok = "12.50".toList ∧
    d = ⟨false, 1250, 2, none⟩ :=
  ⟨"12.50".toList, " USD".toList, ⟨false, 1250, 2, none⟩, by rfl, by decide +kernel, rfl, rfl⟩

/-! ## every literal of a parsed tree is the scan of a maximal token of the text -/

/-- the decimal `d` was read between the input `i` and the rest `r` of a successful run: at some position `a` of `i`
`tokenSplit` cut out `(tok, b)` — so `tok` is THE maximal token at `a` (`tokenSplit_ok_iff`) —, the end `b` of the
token is still before `r`, and `d = scan tok`. -/
def ReadsIn (i r : List Char) (d : PDec) : Prop :=
  ∃ a tok b, a <:+ i ∧ r <:+ b ∧ tokenSplit a = .ok (tok, b) ∧ scan tok = .ok d

theorem ReadsIn.mono {i r i' r' : List Char} {d : PDec} (h : ReadsIn i' r' d) (hi : i' <:+ i) (hr : r <:+ r') :
    ReadsIn i r d := by
  obtain ⟨a, tok, b, h1, h2, h3, h4⟩ := h
  exact ⟨a, tok, b, h1.trans hi, hr.trans h2, h3, h4⟩

/-- what `ReadsIn` says in words: the input is `pre ++ tok ++ mid ++ r` with `tok` an optional minus sign and a
non-empty run over `[0-9,.]`, not followed by a character of `[0-9,.]`, and `d` is what the scanner makes of `tok`. -/
theorem ReadsIn.spelled {i r : List Char} {d : PDec} (h : ReadsIn i r d) :
    ∃ pre tok mid, i = pre ++ (tok ++ (mid ++ r)) ∧ IsToken tok ∧ NoNumHead (mid ++ r) ∧ scan tok = .ok d := by
  obtain ⟨a, tok, b, ⟨pre, h1⟩, ⟨mid, h2⟩, h3, h4⟩ := h
  obtain ⟨h5, h6, h7⟩ := tokenSplit_ok_shape h3
  subst h2
  exact ⟨pre, tok, mid, by rw [← h1, h5], h6, h7, h4⟩

/-- the literals of a value expression, in the order they are written -/
def numsE : Expr → List PDec
  | .neg e => numsE e
  | .bin _ l r => numsE l ++ numsE r
  | .val (.paren e) => numsE e
  | .val (.amt d _) => [d]

/-- the literals of a `ValueExpr` -/
def numsV : VExpr → List PDec
  | .paren e => numsE e
  | .amt d _ => [d]

@[simp] theorem numsE_val (v : VExpr) : numsE (.val v) = numsV v := by cases v <;> rfl
@[simp] theorem numsE_neg (e : Expr) : numsE (.neg e) = numsE e := rfl
@[simp] theorem numsE_bin (o : BinOp) (l r : Expr) : numsE (.bin o l r) = numsE l ++ numsE r := rfl
@[simp] theorem numsV_paren (e : Expr) : numsV (.paren e) = numsE e := rfl
@[simp] theorem numsV_amt (d : PDec) (c : String) : numsV (.amt d c) = [d] := rfl

/-- `expr::amount`: the rest is a suffix of the input, and the one literal of the tree was read there -/
theorem amount_reads {inp : List Char} {v : VExpr} {r : List Char} (h : ExprSyntax.amount inp = .ok v r) :
    r <:+ inp ∧ ∀ d ∈ numsV v, ReadsIn inp r d := by
  obtain ⟨tok, rest, d, h1, h2, rfl, rfl⟩ := (amount_uses_tokenSplit inp v r).1 h
  have hs : (skipSpaces rest).dropWhile isCommodityChar <:+ rest :=
    (List.dropWhile_suffix _).trans (ExprSyntax.skipSpaces_suffix rest)
  refine ⟨hs.trans (ExprSyntax.tokenSplit_ok h1).1, ?_⟩
  intro d' hd'
  simp only [numsV_amt, List.mem_singleton] at hd'
  subst hd'
  exact ⟨inp, tok, rest, List.suffix_refl _, hs, h1, h2⟩

/-- the statement proved by induction on the fuel for the six functions of `parse/expr.rs` -/
def ExprReads (f : Nat) : Prop :=
  (∀ inp v r, ExprSyntax.valueExpr f inp = .ok v r → r <:+ inp ∧ ∀ d ∈ numsV v, ReadsIn inp r d) ∧
  (∀ inp e r, ExprSyntax.unaryExpr f inp = .ok e r → r <:+ inp ∧ ∀ d ∈ numsE e, ReadsIn inp r d) ∧
  (∀ inp e r, ExprSyntax.mulExpr f inp = .ok e r → r <:+ inp ∧ ∀ d ∈ numsE e, ReadsIn inp r d) ∧
  (∀ inp e r, ExprSyntax.addExpr f inp = .ok e r → r <:+ inp ∧ ∀ d ∈ numsE e, ReadsIn inp r d) ∧
  (∀ i0 inp l e r, inp <:+ i0 → (∀ d ∈ numsE l, ReadsIn i0 inp d) → ExprSyntax.mulLoop f l inp = .ok e r →
    r <:+ inp ∧ ∀ d ∈ numsE e, ReadsIn i0 r d) ∧
  (∀ i0 inp l e r, inp <:+ i0 → (∀ d ∈ numsE l, ReadsIn i0 inp d) → ExprSyntax.addLoop f l inp = .ok e r →
    r <:+ inp ∧ ∀ d ∈ numsE e, ReadsIn i0 r d)

theorem exprReads_zero : ExprReads 0 := by
  refine ⟨?_, ?_, ?_, ?_, ?_, ?_⟩ <;> intros <;> simp_all [ExprSyntax.valueExpr, ExprSyntax.unaryExpr,
    ExprSyntax.mulExpr, ExprSyntax.addExpr, ExprSyntax.mulLoop, ExprSyntax.addLoop]

theorem valueExpr_reads_step {f : Nat} (ih : ExprReads f) (inp : List Char) (v : VExpr) (r : List Char)
    (h : ExprSyntax.valueExpr (f + 1) inp = .ok v r) : r <:+ inp ∧ ∀ d ∈ numsV v, ReadsIn inp r d := by
  unfold ExprSyntax.valueExpr at h
  split at h
  · cases h
  · rename_i r0
    split at h
    · rename_i e rest he
      split at h
      · rename_i rest' hr
        injection h with h1 h2
        subst h1; subst h2
        obtain ⟨h3, h4⟩ := ih.2.2.2.1 _ _ _ he
        have h5 : rest' <:+ rest := (List.suffix_cons _ _).trans (hr ▸ ExprSyntax.skipSpaces_suffix rest)
        have h6 : skipSpaces r0 <:+ '(' :: r0 := (ExprSyntax.skipSpaces_suffix r0).trans (List.suffix_cons _ _)
        exact ⟨h5.trans (h3.trans h6), fun d hd => (h4 d (by simpa using hd)).mono h6 h5⟩
      · cases h
    · cases h
    · cases h
  · exact amount_reads h

theorem unaryExpr_reads_step {f : Nat} (ih : ExprReads f) (inp : List Char) (e : Expr) (r : List Char)
    (h : ExprSyntax.unaryExpr (f + 1) inp = .ok e r) : r <:+ inp ∧ ∀ d ∈ numsE e, ReadsIn inp r d := by
  unfold ExprSyntax.unaryExpr at h
  split at h
  · cases h
  · rename_i r0
    split at h
    · rename_i v rest hv
      injection h with h1 h2
      subst h1; subst h2
      obtain ⟨h3, h4⟩ := ih.1 _ _ _ hv
      exact ⟨h3.trans (List.suffix_cons _ _), fun d hd => (h4 d (by simpa using hd)).mono (List.suffix_cons _ _)
        (List.suffix_refl _)⟩
    · cases h
    · cases h
  · split at h
    · rename_i v rest hv
      injection h with h1 h2
      subst h1; subst h2
      obtain ⟨h3, h4⟩ := ih.1 _ _ _ hv
      exact ⟨h3, fun d hd => h4 d (by simpa using hd)⟩
    · cases h
    · cases h

theorem mulLoop_reads_step {f : Nat} (ih : ExprReads f) (i0 inp : List Char) (l e : Expr) (r : List Char)
    (hi : inp <:+ i0) (hl : ∀ d ∈ numsE l, ReadsIn i0 inp d) (h : ExprSyntax.mulLoop (f + 1) l inp = .ok e r) :
    r <:+ inp ∧ ∀ d ∈ numsE e, ReadsIn i0 r d := by
  unfold ExprSyntax.mulLoop at h
  split at h
  · injection h with h1 h2
    subst h1; subst h2
    exact ⟨List.suffix_refl _, hl⟩
  · rename_i op r1 hsep
    have hs := (ExprSyntax.sepOp_some hsep).1
    split at h
    · rename_i e1 rest he
      obtain ⟨h3, h4⟩ := ih.2.1 _ _ _ he
      obtain ⟨h5, h6⟩ := ih.2.2.2.2.1 i0 rest (.bin op l e1) e r (h3.trans (hs.trans hi)) (by
        intro d hd
        simp only [numsE_bin, List.mem_append] at hd
        rcases hd with hd | hd
        · exact (hl d hd).mono (List.suffix_refl _) (h3.trans hs)
        · exact (h4 d hd).mono (hs.trans hi) (List.suffix_refl _)) h
      exact ⟨h5.trans (h3.trans hs), h6⟩
    · injection h with h1 h2
      subst h1; subst h2
      exact ⟨List.suffix_refl _, hl⟩
    · cases h

theorem addLoop_reads_step {f : Nat} (ih : ExprReads f) (i0 inp : List Char) (l e : Expr) (r : List Char)
    (hi : inp <:+ i0) (hl : ∀ d ∈ numsE l, ReadsIn i0 inp d) (h : ExprSyntax.addLoop (f + 1) l inp = .ok e r) :
    r <:+ inp ∧ ∀ d ∈ numsE e, ReadsIn i0 r d := by
  unfold ExprSyntax.addLoop at h
  split at h
  · injection h with h1 h2
    subst h1; subst h2
    exact ⟨List.suffix_refl _, hl⟩
  · rename_i op r1 hsep
    have hs := (ExprSyntax.sepOp_some hsep).1
    split at h
    · rename_i e1 rest he
      obtain ⟨h3, h4⟩ := ih.2.2.1 _ _ _ he
      obtain ⟨h5, h6⟩ := ih.2.2.2.2.2 i0 rest (.bin op l e1) e r (h3.trans (hs.trans hi)) (by
        intro d hd
        simp only [numsE_bin, List.mem_append] at hd
        rcases hd with hd | hd
        · exact (hl d hd).mono (List.suffix_refl _) (h3.trans hs)
        · exact (h4 d hd).mono (hs.trans hi) (List.suffix_refl _)) h
      exact ⟨h5.trans (h3.trans hs), h6⟩
    · injection h with h1 h2
      subst h1; subst h2
      exact ⟨List.suffix_refl _, hl⟩
    · cases h

theorem mulExpr_reads_step {f : Nat} (ih : ExprReads f) (inp : List Char) (e : Expr) (r : List Char)
    (h : ExprSyntax.mulExpr (f + 1) inp = .ok e r) : r <:+ inp ∧ ∀ d ∈ numsE e, ReadsIn inp r d := by
  unfold ExprSyntax.mulExpr at h
  split at h
  · rename_i l rest hl
    obtain ⟨h3, h4⟩ := ih.2.1 _ _ _ hl
    obtain ⟨h5, h6⟩ := ih.2.2.2.2.1 inp rest l e r h3 h4 h
    exact ⟨h5.trans h3, h6⟩
  · cases h
  · cases h

theorem addExpr_reads_step {f : Nat} (ih : ExprReads f) (inp : List Char) (e : Expr) (r : List Char)
    (h : ExprSyntax.addExpr (f + 1) inp = .ok e r) : r <:+ inp ∧ ∀ d ∈ numsE e, ReadsIn inp r d := by
  unfold ExprSyntax.addExpr at h
  split at h
  · rename_i l rest hl
    obtain ⟨h3, h4⟩ := ih.2.2.1 _ _ _ hl
    obtain ⟨h5, h6⟩ := ih.2.2.2.2.2 inp rest l e r h3 h4 h
    exact ⟨h5.trans h3, h6⟩
  · cases h
  · cases h

/-- **the value-expression parser uses `tokenSplit`**: for every fuel and every input, every literal in the tree that
`value_expr` / `unary_expr` / `mul_expr` / `add_expr` (and the two fold loops) return was read from a maximal token
inside the consumed text. -/
theorem exprs_use_tokenSplit : ∀ f, ExprReads f := by
  intro f
  induction f with
  | zero => exact exprReads_zero
  | succ f ih =>
    exact ⟨valueExpr_reads_step ih, unaryExpr_reads_step ih, mulExpr_reads_step ih, addExpr_reads_step ih,
      mulLoop_reads_step ih, addLoop_reads_step ih⟩

/-- `value_expr` as the ledger grammar calls it -/
theorem valueExpr_uses_tokenSplit {i : List Char} {v : VExpr} {r : List Char} (h : Parse.valueExpr i = .ok v r) :
    r <:+ i ∧ ∀ d ∈ numsV v, ReadsIn i r d := by
  unfold Parse.valueExpr at h
  cases hp : ExprSyntax.parseValueExpr i with
  | ok v' r' =>
    rw [hp] at h
    simp only [Parse.ofPRes, Comb.Res.ok.injEq] at h
    obtain ⟨rfl, rfl⟩ := h
    exact (exprs_use_tokenSplit _).1 _ _ _ hp
  | fail p => rw [hp] at h; cases h
  | fuelOut => rw [hp] at h; cases h

/-! ## the ledger grammar: `Reads` -/

section Grammar
open Okane.Comb Okane.Parse
variable {α β γ : Type}

/-- a successful result on `i`: the rest is a suffix of `i`, and every literal of the value is either one of `extra`
(read earlier in the enclosing sequence, between `i0` and `i`) or was read between `i` and the rest -/
def OkReads (extra : List PDec) (sp : α → List PDec) (i : List Char) (res : Res α) : Prop :=
  ∀ a r, res = .ok a r → r <:+ i ∧ ∀ d ∈ sp a, d ∈ extra ∨ ReadsIn i r d

/-- every literal (`sp`) of what `p` returns was read from a maximal token between `p`'s input and its rest -/
def Reads (sp : α → List PDec) (p : Parser α) : Prop := ∀ i, OkReads [] sp i (p i)

theorem Reads.ok {sp : α → List PDec} {p : Parser α} (h : Reads sp p) {i r : List Char} {a : α} (hp : p i = .ok a r) :
    r <:+ i ∧ ∀ d ∈ sp a, ReadsIn i r d := by
  obtain ⟨h1, h2⟩ := h i a r hp
  exact ⟨h1, fun d hd => (h2 d hd).elim (fun h => by simp at h) id⟩

theorem reads_of_safe {k : Nat} {p : Parser α} (hp : Safe k p) : Reads (fun _ => []) p := by
  intro i a r h
  have := hp.good i
  rw [h] at this
  exact ⟨this.1, by simp⟩

theorem okReads_bind {extra : List PDec} {sp : α → List PDec} {sq : β → List PDec} {p : Parser α} {f : α → Parser β}
    {i : List Char} (hp : Reads sp p) (hf : ∀ a r1, r1 <:+ i → OkReads (extra ++ sp a) sq r1 (f a r1)) :
    OkReads extra sq i ((p >>- f) i) := by
  intro b r h
  simp only [Comb.bind] at h
  cases hpi : p i with
  | ok a r1 =>
    rw [hpi] at h
    simp only [Res.andThen_ok] at h
    obtain ⟨h1, h2⟩ := hp i a r1 hpi
    obtain ⟨h3, h4⟩ := hf a r1 h1 b r h
    refine ⟨h3.trans h1, fun s hs => ?_⟩
    rcases h4 s hs with h5 | h5
    · rcases List.mem_append.1 h5 with h6 | h6
      · exact .inl h6
      · rcases h2 s h6 with h7 | h7
        · simp at h7
        · exact .inr (h7.mono (List.suffix_refl _) h3)
    · exact .inr (h5.mono h1 (List.suffix_refl _))
  | bt _ => rw [hpi] at h; cases h
  | cut _ => rw [hpi] at h; cases h
  | panic _ => rw [hpi] at h; cases h
  | fuel => rw [hpi] at h; cases h

theorem okReads_pure {extra : List PDec} {sq : β → List PDec} (b : β) (i : List Char) (h : ∀ s ∈ sq b, s ∈ extra) :
    OkReads extra sq i (pure b i) := by
  intro b' r hb
  simp only [Comb.pure, Res.ok.injEq] at hb
  obtain ⟨rfl, rfl⟩ := hb
  exact ⟨List.suffix_refl _, fun s hs => .inl (h s hs)⟩

theorem reads_bind {sp : α → List PDec} {sq : β → List PDec} {p : Parser α} {f : α → Parser β}
    (hp : Reads sp p) (hf : ∀ a r1, OkReads ([] ++ sp a) sq r1 (f a r1)) : Reads sq (p >>- f) :=
  fun _ => okReads_bind hp fun a r1 _ => hf a r1

theorem Reads.congr {sp sq : α → List PDec} {p : Parser α} (h : Reads sp p) (he : ∀ a, ∀ s ∈ sq a, s ∈ sp a) :
    Reads sq p := by
  intro i a r ha
  obtain ⟨h1, h2⟩ := h i a r ha
  exact ⟨h1, fun s hs => h2 s (he a s hs)⟩

theorem reads_map {sp : α → List PDec} {sq : β → List PDec} {p : Parser α} (g : α → β) (h : Reads sp p)
    (he : ∀ a, ∀ s ∈ sq (g a), s ∈ sp a) : Reads sq (Comb.map g p) := by
  intro i b r hb
  simp only [Comb.map] at hb
  cases hp : p i with
  | ok a r1 =>
    rw [hp] at hb
    simp only [Res.map_ok, Res.ok.injEq] at hb
    obtain ⟨rfl, rfl⟩ := hb
    obtain ⟨h1, h2⟩ := h i a r1 hp
    exact ⟨h1, fun s hs => h2 s (he a s hs)⟩
  | bt _ => rw [hp] at hb; cases hb
  | cut _ => rw [hp] at hb; cases hb
  | panic _ => rw [hp] at hb; cases hb
  | fuel => rw [hp] at hb; cases hb

theorem reads_terminated {k : Nat} {sp : α → List PDec} {p : Parser α} {q : Parser γ} (h : Reads sp p)
    (hq : Safe k q) : Reads sp (terminated p q) := by
  refine reads_bind h fun a r1 => ?_
  intro b r hb
  simp only [Comb.map] at hb
  cases hq1 : q r1 with
  | ok c r2 =>
    rw [hq1] at hb
    simp only [Res.map_ok, Res.ok.injEq] at hb
    obtain ⟨rfl, rfl⟩ := hb
    have := hq.good r1
    rw [hq1] at this
    exact ⟨this.1, fun s hs => .inl (by simpa using hs)⟩
  | bt _ => rw [hq1] at hb; cases hb
  | cut _ => rw [hq1] at hb; cases hb
  | panic _ => rw [hq1] at hb; cases hb
  | fuel => rw [hq1] at hb; cases hb

theorem reads_preceded {k : Nat} {sp : α → List PDec} {p : Parser α} {q : Parser γ} (hq : Safe k q)
    (h : Reads sp p) : Reads sp (preceded q p) := by
  refine reads_bind (reads_of_safe hq) fun a r1 => ?_
  intro b r hb
  obtain ⟨h1, h2⟩ := h r1 b r hb
  exact ⟨h1, fun s hs => (h2 s hs).elim (fun h => by simp at h) .inr⟩

theorem reads_delimited {k m : Nat} {sp : α → List PDec} {p : Parser α} {l : Parser β} {q : Parser γ}
    (hl : Safe k l) (h : Reads sp p) (hq : Safe m q) : Reads sp (delimited l p q) :=
  reads_preceded hl (reads_terminated h hq)

theorem reads_opt {sp : α → List PDec} {p : Parser α} (h : Reads sp p) :
    Reads (fun o => (o.map sp).getD []) (opt p) := by
  intro i o r ho
  simp only [opt] at ho
  cases hp : p i with
  | ok a r1 =>
    rw [hp] at ho
    simp only [Res.ok.injEq] at ho
    obtain ⟨rfl, rfl⟩ := ho
    simpa using h i a r1 hp
  | bt _ =>
    rw [hp] at ho
    simp only [Res.ok.injEq] at ho
    obtain ⟨rfl, rfl⟩ := ho
    exact ⟨List.suffix_refl _, by simp⟩
  | cut _ => rw [hp] at ho; cases ho
  | panic _ => rw [hp] at ho; cases ho
  | fuel => rw [hp] at ho; cases ho

theorem reads_cond {sp : α → List PDec} {p : Parser α} (b : Bool) (h : Reads sp p) :
    Reads (fun o => (o.map sp).getD []) (cond b p) := by
  unfold Comb.cond
  split
  · exact reads_map some h (by intro a s hs; simpa using hs)
  · intro i o r ho
    simp only [Comb.pure, Res.ok.injEq] at ho
    obtain ⟨rfl, rfl⟩ := ho
    exact ⟨List.suffix_refl _, by simp⟩

theorem reads_cutErr {sp : α → List PDec} {p : Parser α} (h : Reads sp p) : Reads sp (cutErr p) := by
  intro i a r ha
  simp only [cutErr] at ha
  cases hp : p i with
  | ok a' r1 => rw [hp] at ha; exact h i a r (by rw [hp]; exact ha)
  | bt _ => rw [hp] at ha; cases ha
  | cut _ => rw [hp] at ha; cases ha
  | panic _ => rw [hp] at ha; cases ha
  | fuel => rw [hp] at ha; cases ha

theorem reads_alt2 {sp : α → List PDec} {p q : Parser α} (hp : Reads sp p) (hq : Reads sp q) : Reads sp (p <|| q) := by
  intro i a r ha
  simp only [alt2] at ha
  cases h : p i with
  | ok a' r1 => rw [h] at ha; exact hp i a r (by rw [h]; exact ha)
  | bt _ => rw [h] at ha; exact hq i a r ha
  | cut _ => rw [h] at ha; cases ha
  | panic _ => rw [h] at ha; cases ha
  | fuel => rw [h] at ha; cases ha

theorem reads_repeat0Loop {sp : α → List PDec} {p : Parser α} (h : Reads sp p) :
    ∀ (n : Nat) (i0 i : List Char) (acc : List α), i <:+ i0 →
      (∀ x ∈ acc, ∀ s ∈ sp x, ReadsIn i0 i s) →
      ∀ l r, repeat0Loop p n i acc = .ok l r → r <:+ i ∧ ∀ x ∈ l, ∀ s ∈ sp x, ReadsIn i0 r s := by
  intro n
  induction n with
  | zero => intro i0 i acc _ _ l r hl; cases hl
  | succ n ih =>
    intro i0 i acc hi hacc l r hl
    simp only [repeat0Loop] at hl
    cases hp : p i with
    | ok a r1 =>
      rw [hp] at hl
      simp only at hl
      obtain ⟨h1, h2⟩ := h i a r1 hp
      split at hl
      · cases hl
      · obtain ⟨h3, h4⟩ := ih i0 r1 (acc ++ [a]) (h1.trans hi) (by
          intro x hx s hs
          rcases List.mem_append.1 hx with hx | hx
          · exact (hacc x hx s hs).mono (List.suffix_refl _) h1
          · simp only [List.mem_singleton] at hx
            subst hx
            rcases h2 s hs with h5 | h5
            · simp at h5
            · exact h5.mono hi (List.suffix_refl _)) l r hl
        exact ⟨h3.trans h1, h4⟩
    | bt _ =>
      rw [hp] at hl
      simp only [Res.ok.injEq] at hl
      obtain ⟨rfl, rfl⟩ := hl
      exact ⟨List.suffix_refl _, hacc⟩
    | cut _ => rw [hp] at hl; cases hl
    | panic _ => rw [hp] at hl; cases hl
    | fuel => rw [hp] at hl; cases hl

theorem reads_repeat0 {sp : α → List PDec} {p : Parser α} (h : Reads sp p) :
    Reads (fun l => l.flatMap sp) (repeat0 p) := by
  intro i l r hl
  obtain ⟨h1, h2⟩ := reads_repeat0Loop h (i.length + 1) i i [] (List.suffix_refl _) (by simp) l r hl
  refine ⟨h1, fun s hs => ?_⟩
  obtain ⟨x, hx, hsx⟩ := List.mem_flatMap.1 hs
  exact .inr (h2 x hx s hsx)

/-! ### the literals of the syntax tree -/

def numsX : Exchange → List PDec
  | .total v => numsV v
  | .rate v => numsV v
def numsLot (l : Lot) : List PDec := (l.price.map numsX).getD []
def numsPA (a : PostingAmount) : List PDec := numsV a.amount ++ numsLot a.lot ++ (a.cost.map numsX).getD []
def numsPosting (p : Posting) : List PDec := (p.amount.map numsPA).getD [] ++ (p.balance.map numsV).getD []
def numsTxn (t : Transaction) : List PDec := t.posts.flatMap numsPosting
def numsCD : CommodityDetail → List PDec
  | .format d _ => [d]
  | _ => []
/-- every numeric literal of a ledger entry: amounts, costs, lot prices and balance assertions of the postings of a
transaction, and the `format` sub-directives of a `commodity` declaration (no other entry carries a number) -/
def numsEntry : Entry → List PDec
  | .txn t => numsTxn t
  | .commodity _ ds => ds.flatMap numsCD
  | _ => []

/-! ### the rules -/

/-- `value_expr` (posting amount, cost, lot price, balance assertion) -/
theorem reads_valueExpr : Reads numsV Parse.valueExpr := by
  intro i v r h
  obtain ⟨h1, h2⟩ := valueExpr_uses_tokenSplit h
  exact ⟨h1, fun d hd => .inr (h2 d hd)⟩

/-- `expr::amount` as called by the `format` sub-directive and by the price-db line -/
theorem reads_amount : Reads (fun vc => [vc.1]) Parse.amount := by
  intro i vc r h
  obtain ⟨d, c⟩ := vc
  obtain ⟨tok, rest, h1, h2, rfl, rfl⟩ := (parseAmount_uses_tokenSplit i d c r).1 h
  have hs : (skipSpaces rest).dropWhile isCommodityChar <:+ rest :=
    (List.dropWhile_suffix _).trans (ExprSyntax.skipSpaces_suffix rest)
  refine ⟨hs.trans (ExprSyntax.tokenSplit_ok h1).1, fun d' hd' => .inr ?_⟩
  simp only [List.mem_singleton] at hd'
  subst hd'
  exact ⟨i, tok, rest, List.suffix_refl _, hs, h1, h2⟩

/-- `{…}` / `{{…}}`: the lot price -/
theorem lotAmount_uses_tokenSplit : Reads numsX lotAmount := by
  unfold lotAmount
  refine reads_bind (reads_of_safe (k := 0) (by safe_tac)) fun isTotal r1 => ?_
  split
  · intro b r hb
    exact (reads_map Exchange.total (reads_delimited (k := 2) (m := 2) (by safe_tac) reads_valueExpr (by safe_tac))
      (by intro a s hs; simpa [numsX] using hs)) r1 b r hb
  · intro b r hb
    exact (reads_map Exchange.rate (reads_delimited (k := 1) (m := 1) (by safe_tac) reads_valueExpr (by safe_tac))
      (by intro a s hs; simpa [numsX] using hs)) r1 b r hb

/-- the `loop` of `posting::lot` -/
theorem reads_lotLoop : ∀ (n : Nat) (l : Lot) (i0 i : List Char), i <:+ i0 → (∀ s ∈ numsLot l, ReadsIn i0 i s) →
    ∀ l' r, lotLoop n l i = .ok l' r → r <:+ i ∧ ∀ s ∈ numsLot l', ReadsIn i0 r s := by
  intro n
  induction n with
  | zero => intro l i0 i _ _ l' r h; cases h
  | succ n ih =>
    intro l i0 i hi hl l' r h
    -- one round: a bracketed form `p` (literals `sp`), blanks, then the loop again with `upd`
    have round : ∀ {β : Type} (p : Parser β) (sp : β → List PDec) (upd : β → Lot), Reads sp p →
        (∀ b, ∀ s ∈ numsLot (upd b), s ∈ sp b ∨ s ∈ numsLot l) →
        (p >>- fun b => space0 >>- fun _ => lotLoop n (upd b)) i = .ok l' r →
        r <:+ i ∧ ∀ s ∈ numsLot l', ReadsIn i0 r s := by
      intro β p sp upd hp hupd hrun
      simp only [Comb.bind] at hrun
      cases hpi : p i with
      | ok b r1 =>
        rw [hpi] at hrun
        simp only [Res.andThen_ok] at hrun
        simp only [Comb.bind] at hrun
        obtain ⟨h1, h2⟩ := hp i b r1 hpi
        have hs0 := (safe_space0 (Nat.le_refl 0)).good r1
        cases hsp : space0 r1 with
        | ok u r2 =>
          rw [hsp] at hrun hs0
          simp only [Res.andThen_ok] at hrun
          obtain ⟨h3, _⟩ := hs0
          obtain ⟨h4, h5⟩ := ih (upd b) i0 r2 (h3.trans (h1.trans hi)) (by
            intro s hs
            rcases hupd b s hs with h6 | h6
            · rcases h2 s h6 with h7 | h7
              · simp at h7
              · exact h7.mono hi h3
            · exact (hl s h6).mono (List.suffix_refl _) (h3.trans h1)) l' r hrun
          exact ⟨h4.trans (h3.trans h1), h5⟩
        | bt _ => rw [hsp] at hrun; cases hrun
        | cut _ => rw [hsp] at hrun; cases hrun
        | panic _ => rw [hsp] at hrun; cases hrun
        | fuel => rw [hsp] at hrun; cases hrun
      | bt _ => rw [hpi] at hrun; cases hrun
      | cut _ => rw [hpi] at hrun; cases hrun
      | panic _ => rw [hpi] at hrun; cases hrun
      | fuel => rw [hpi] at hrun; cases hrun
    unfold lotLoop at h
    split at h
    · split at h
      · exact round lotAmount numsX _ lotAmount_uses_tokenSplit
          (fun b s hs => by simp [numsLot] at hs; exact .inl hs) h
      · cases h
    · split at h
      · refine round _ (fun _ => []) _ (reads_of_safe (k := 1) (by safe_tac)) (fun b s hs => ?_) h
        right; simpa [numsLot] using hs
      · cases h
    · split at h
      · refine round _ (fun _ => []) _ (reads_of_safe (k := 1) (by safe_tac)) (fun b s hs => ?_) h
        right; simpa [numsLot] using hs
      · cases h
    · simp only [Res.ok.injEq] at h
      obtain ⟨rfl, rfl⟩ := h
      exact ⟨List.suffix_refl _, hl⟩

/-- `posting::lot` -/
theorem lot_uses_tokenSplit : Reads numsLot lot := by
  unfold lot
  refine reads_bind (reads_of_safe (safe_space0 (Nat.le_refl 0))) fun _ r1 => ?_
  intro l r h
  obtain ⟨h1, h2⟩ := reads_lotLoop (r1.length + 1) {} r1 r1 (List.suffix_refl _) (by simp [numsLot]) l r h
  exact ⟨h1, fun s hs => .inr (h2 s hs)⟩

/-- `@@ total` -/
theorem totalCost_uses_tokenSplit : Reads numsX totalCost := by
  unfold totalCost
  exact reads_map _ (reads_preceded (k := 2) (by safe_tac) reads_valueExpr) (by intro a s hs; simpa [numsX] using hs)

/-- `@ rate` -/
theorem rateCost_uses_tokenSplit : Reads numsX rateCost := by
  unfold rateCost
  exact reads_map _ (reads_preceded (k := 1) (by safe_tac) reads_valueExpr) (by intro a s hs; simpa [numsX] using hs)

theorem cost_uses_tokenSplit (b : Bool) : Reads numsX (condElse b totalCost rateCost) := by
  unfold condElse
  split
  · exact totalCost_uses_tokenSplit
  · exact rateCost_uses_tokenSplit

/-- `posting::posting_amount`: the amount, the lot price and the cost -/
theorem postingAmount_uses_tokenSplit : Reads numsPA postingAmount := by
  unfold postingAmount
  intro i
  refine okReads_bind (reads_terminated reads_valueExpr (safe_space0 (Nat.le_refl 0))) fun amount r1 _ => ?_
  refine okReads_bind lot_uses_tokenSplit fun l r2 _ => ?_
  refine okReads_bind (reads_of_safe (k := 0) (by safe_tac)) fun isAt r3 _ => ?_
  refine okReads_bind (reads_of_safe (k := 0) (by safe_tac)) fun isDoubleAt r4 _ => ?_
  refine okReads_bind (reads_cond isAt (cost_uses_tokenSplit isDoubleAt)) fun cost r5 _ => ?_
  refine okReads_pure _ _ fun s hs => ?_
  cases cost <;> simp [numsPA] at hs ⊢ <;> grind

/-- `posting::posting`: amount, lot price, cost and balance assertion -/
theorem posting_uses_tokenSplit : Reads numsPosting posting := by
  unfold posting
  intro i
  refine okReads_bind (reads_of_safe (k := 0) (by safe_tac)) fun cs r1 _ => ?_
  refine okReads_bind (reads_of_safe safe_postingAccount) fun account r2 _ => ?_
  refine okReads_bind (reads_of_safe (k := 0) (by safe_tac)) fun shortcut r3 _ => ?_
  split
  · refine okReads_bind (reads_of_safe safe_blockMetadata) fun md r4 _ => ?_
    refine okReads_pure _ _ fun s hs => ?_
    simp [numsPosting] at hs
  · refine okReads_bind (reads_opt (reads_terminated postingAmount_uses_tokenSplit (safe_space0 (Nat.le_refl 0))))
      fun amount r4 _ => ?_
    refine okReads_bind (reads_opt (reads_delimited (k := 1) (m := 0) (by safe_tac) reads_valueExpr (by safe_tac)))
      fun balance r5 _ => ?_
    refine okReads_bind (reads_of_safe safe_blockMetadata) fun md r6 _ => ?_
    refine okReads_pure _ _ fun s hs => ?_
    cases balance <;> cases amount <;> simp [numsPosting] at hs ⊢ <;> grind

/-- `transaction::transaction`: the literals of all its postings -/
theorem transaction_uses_tokenSplit : Reads numsTxn transaction := by
  unfold transaction
  intro i
  refine okReads_bind (reads_of_safe safe_date) fun d r1 _ => ?_
  refine okReads_bind (reads_of_safe (k := 0) (by safe_tac)) fun ed r2 _ => ?_
  refine okReads_bind (reads_of_safe (k := 0) (by safe_tac)) fun isShortest r3 _ => ?_
  refine okReads_bind (reads_of_safe (k := 0) (by safe_tac)) fun _ r4 _ => ?_
  refine okReads_bind (reads_of_safe safe_clearState) fun cs r5 _ => ?_
  refine okReads_bind (reads_of_safe (k := 0) (by safe_tac)) fun code r6 _ => ?_
  refine okReads_bind (reads_of_safe (k := 0) (by safe_tac)) fun payee r7 _ => ?_
  refine okReads_bind (reads_of_safe safe_blockMetadata) fun md r8 _ => ?_
  refine okReads_bind (sp := fun l => l.flatMap numsPosting)
    (reads_repeat0 (reads_preceded (k := 1) (by safe_tac) (reads_cutErr posting_uses_tokenSplit)))
    fun posts r9 _ => ?_
  refine okReads_pure _ _ fun s hs => ?_
  simp only [numsTxn] at hs
  simp [hs]

/-- one detail line of a `commodity` declaration; only `format` carries a number -/
theorem commodityDetail_uses_tokenSplit : Reads numsCD
    (Comb.map CommodityDetail.comment detailComment <|| Comb.map CommodityDetail.note detailNote
      <|| Comb.map CommodityDetail.alias detailAlias
      <|| Comb.map (fun (d, c) => CommodityDetail.format d c)
            (delimited (pair space1 (pair (literal kwFormat) space1)) amount lineEndingOrEof)) := by
  refine reads_alt2 ?_ (reads_alt2 ?_ (reads_alt2 ?_ ?_))
  · exact reads_map _ (reads_of_safe safe_detailComment) (by intro a s hs; simp [numsCD] at hs)
  · exact reads_map _ (reads_of_safe safe_detailNote) (by intro a s hs; simp [numsCD] at hs)
  · exact reads_map _ (reads_of_safe safe_detailAlias) (by intro a s hs; simp [numsCD] at hs)
  · exact reads_map _ (reads_delimited (k := 8) (m := 0) (by safe_tac) reads_amount (by safe_tac))
      (by intro a s hs; simpa [numsCD] using hs)

/-- `directive::commodity_declaration`: the `format` sub-directives -/
theorem commodityDeclaration_uses_tokenSplit : Reads numsEntry commodityDeclaration := by
  unfold commodityDeclaration
  intro i
  refine okReads_bind (reads_of_safe (k := 10) (by safe_tac)) fun name r1 _ => ?_
  refine okReads_bind (sp := fun l => l.flatMap numsCD) (reads_repeat0 commodityDetail_uses_tokenSplit)
    fun details r2 _ => ?_
  refine okReads_pure _ _ fun s hs => ?_
  simp only [numsEntry] at hs
  simp [hs]

theorem reads_dispatch {sp : α → List PDec} {arms : Char → Parser α} (h : ∀ c, Reads sp (arms c)) :
    Reads sp (dispatch arms) := by
  intro i a r ha
  cases i with
  | nil => cases ha
  | cons c rest => exact h c (c :: rest) a r ha

theorem reads_ite {sp : α → List PDec} {p q : Parser α} (b : Prop) [Decidable b] (hp : Reads sp p) (hq : Reads sp q) :
    Reads sp (if b then p else q) := by
  split
  · exact hp
  · exact hq

/-- `parse_ledger_entry`: every numeric literal of the entry it returns was read from a maximal token inside the text
the entry consumed -/
theorem parseLedgerEntry_uses_tokenSplit : Reads numsEntry parseLedgerEntry := by
  unfold parseLedgerEntry
  refine reads_dispatch fun c => ?_
  refine reads_ite _ (reads_alt2 ?_ ?_) (reads_ite _ commodityDeclaration_uses_tokenSplit (reads_ite _ ?_ (reads_ite _ ?_
    (reads_ite _ ?_ (reads_ite _ ?_ ?_)))))
  · refine reads_preceded (k := 0) (by safe_tac) (reads_cutErr ?_)
    unfold accountDeclaration
    intro i
    refine okReads_bind (reads_of_safe (k := 8) (by safe_tac)) fun name r1 _ => ?_
    refine okReads_bind (reads_of_safe (k := 0) (by safe_tac)) fun details r2 _ => ?_
    exact okReads_pure _ _ fun s hs => by simp [numsEntry] at hs
  · refine reads_preceded (k := 0) (by safe_tac) (reads_cutErr ?_)
    unfold applyTag
    intro i
    refine okReads_bind (reads_of_safe (k := 10) (by safe_tac)) fun key r1 _ => ?_
    refine okReads_bind (reads_of_safe (k := 0) (by safe_tac)) fun v r2 _ => ?_
    exact okReads_pure _ _ fun s hs => by simp [numsEntry] at hs
  · exact reads_map _ (reads_of_safe (k := 13) (by safe_tac)) (by intro a s hs; simp [numsEntry] at hs)
  · exact reads_map _ (reads_of_safe (k := 8) (by safe_tac)) (by intro a s hs; simp [numsEntry] at hs)
  · exact reads_map _ (reads_of_safe (k := 1) (by safe_tac)) (by intro a s hs; simp [numsEntry] at hs)
  · exact reads_map _ transaction_uses_tokenSplit (by intro a s hs; simpa [numsEntry] using hs)
  · intro i a r ha
    cases ha

/-- `price::price_db_entry`: the rate of a `P` line -/
theorem priceDbEntry_uses_tokenSplit : Reads (fun x => [x.rate]) PriceDbFile.priceDbEntry := by
  unfold PriceDbFile.priceDbEntry
  intro i
  refine okReads_bind (reads_of_safe (k := 2) (by safe_tac)) fun _ r1 _ => ?_
  refine okReads_bind (reads_of_safe safe_date) fun d r2 _ => ?_
  refine okReads_bind (reads_of_safe (k := 1) (by safe_tac)) fun _ r3 _ => ?_
  refine okReads_bind (reads_of_safe (k := 0) (by unfold PriceDbFile.commodity; safe_tac)) fun t r4 _ => ?_
  refine okReads_bind (reads_of_safe (k := 1) (by safe_tac)) fun _ r5 _ => ?_
  refine okReads_bind reads_amount fun vc r6 _ => ?_
  refine okReads_bind (reads_of_safe (k := 1) (by safe_tac)) fun _ r7 _ => ?_
  refine okReads_pure _ _ fun s hs => ?_
  simpa using hs

/-! ### whole texts: `ParsedIter` -/

/-- where an entry delivered by `ParsedIter` comes from: the entry parser ran at the suffix `i1` of the text and left
`r`; the recorded span is `[|whole| − |i1|, |whole| − |r|)` in bytes; every literal of the entry was read from a maximal
token between `i1` and `r`. -/
def DeliveredAt (sp : α → List PDec) (p : Parser α) (whole : List Char) (x : Nat × Nat × α) : Prop :=
  ∃ i1 r, r <:+ i1 ∧ i1 <:+ whole ∧ x.1 = utf8Len whole - utf8Len i1 ∧ x.2.1 = utf8Len whole - utf8Len r ∧
    p i1 = .ok x.2.2 r ∧ ∀ d ∈ sp x.2.2, ReadsIn i1 r d

theorem parsedIter_reads {sp : α → List PDec} {p : Parser α} {sep : Parser Unit} {k : Nat} (hp : Reads sp p)
    (hsep : Safe k sep) (whole : List Char) : ∀ (n : Nat) (i : List Char) (acc : List (Nat × Nat × α)), i <:+ whole →
    ∀ x ∈ (parsedIter p sep whole n i acc).1, x ∈ acc ∨ DeliveredAt sp p whole x := by
  intro n
  induction n with
  | zero => intro i acc _ x hx; exact .inl (by simpa [parsedIter] using hx)
  | succ n ih =>
    intro i acc hi x hx
    unfold parsedIter at hx
    dsimp only at hx
    cases hs : sep i with
    | ok u i1 =>
      rw [hs] at hx
      dsimp only at hx
      have hs1 := hsep.good i
      rw [hs] at hs1
      split at hx
      · exact .inl hx
      · cases hpi : p i1 with
        | ok e r =>
          rw [hpi] at hx
          dsimp only at hx
          obtain ⟨h1, h2⟩ := hp.ok hpi
          rcases ih r _ (h1.trans (hs1.1.trans hi)) x hx with h3 | h3
          · rcases List.mem_append.1 h3 with h4 | h4
            · exact .inl h4
            · simp only [List.mem_singleton] at h4
              subst h4
              exact .inr ⟨i1, r, h1, hs1.1.trans hi, rfl, rfl, hpi, h2⟩
          · exact .inr h3
        | bt pos => rw [hpi] at hx; dsimp only at hx; revert hx; cases parseErrorNew whole i pos _ <;> exact fun hx => .inl hx
        | cut pos => rw [hpi] at hx; dsimp only at hx; revert hx; cases parseErrorNew whole i pos _ <;> exact fun hx => .inl hx
        | panic s => rw [hpi] at hx; exact .inl hx
        | fuel => rw [hpi] at hx; exact .inl hx
    | bt pos => rw [hs] at hx; dsimp only at hx; revert hx; cases parseErrorNew whole i pos _ <;> exact fun hx => .inl hx
    | cut pos => rw [hs] at hx; dsimp only at hx; revert hx; cases parseErrorNew whole i pos _ <;> exact fun hx => .inl hx
    | panic s => rw [hs] at hx; exact .inl hx
    | fuel => rw [hs] at hx; exact .inl hx

/-- **every entry `parse_ledger` delivers** (also those delivered before an error): the entry parser ran at a suffix `i1`
of the text, the recorded span is that stretch of the text, and every numeric literal of the entry is `scan` of a maximal
token inside that stretch. -/
theorem parseLedgerRun_uses_tokenSplit (t : List Char) (x : Parsed) (hx : x ∈ (parseLedgerRun t).1) :
    ∃ i1 r, r <:+ i1 ∧ i1 <:+ t ∧ x.start = utf8Len t - utf8Len i1 ∧ x.stop = utf8Len t - utf8Len r ∧
      parseLedgerEntry i1 = .ok x.entry r ∧ ∀ d ∈ numsEntry x.entry, ReadsIn i1 r d := by
  have he : (parseLedgerRun t).1 =
      (parsedIter parseLedgerEntry verticalSpaces t (t.length + 1) t []).1.map (fun (s, u, e) => ⟨s, u, e⟩) := by
    simp only [parseLedgerRun]
  rw [he] at hx
  obtain ⟨y, hy, rfl⟩ := List.mem_map.1 hx
  rcases parsedIter_reads parseLedgerEntry_uses_tokenSplit safe_verticalSpaces t _ t [] (List.suffix_refl _) y hy with h | h
  · simp at h
  · exact h

/-- **C07_positions for a whole ledger text**: if `parse_ledger` accepts the text, every numeric literal of every entry of
the tree (posting amounts, costs, lot prices, balance assertions — through all operators and parentheses of their value
expressions — and `format` sub-directives) was read between the start of the text and its end from a maximal token. -/
theorem parseEntries_uses_tokenSplit (t : List Char) (es : List Entry) (h : parseEntries t = .ok es) :
    ∀ e ∈ es, ∀ d ∈ numsEntry e, ReadsIn t [] d := by
  intro e he d hd
  unfold parseEntries parseLedger at h
  cases hr : parseLedgerRun t with
  | mk ps en =>
    rw [hr] at h
    cases en with
    | done =>
      simp only [Outcome.map', Outcome.ok.injEq] at h
      subst h
      obtain ⟨x, hx, rfl⟩ := List.mem_map.1 he
      obtain ⟨i1, r, h1, h2, _, _, _, h6⟩ := parseLedgerRun_uses_tokenSplit t x (by rw [hr]; exact hx)
      exact (h6 d hd).mono h2 (List.nil_suffix)
    | error e => simp [Outcome.map'] at h
    | panic s => simp [Outcome.map'] at h
    | fuelOut => simp [Outcome.map'] at h

/-- the same, for every record of a price-db file -/
theorem parsePriceDb_uses_tokenSplit (t : List Char) (rs : List PriceDbFile.PriceRec)
    (h : PriceDbFile.parsePriceDb t = .ok rs) : ∀ x ∈ rs, ReadsIn t [] x.rate := by
  intro x hx
  unfold PriceDbFile.parsePriceDb at h
  cases hr : PriceDbFile.parsePriceDbRun t with
  | mk ps en =>
    rw [hr] at h
    cases en with
    | done =>
      simp only [Outcome.ok.injEq] at h
      subst h
      obtain ⟨y, hy, rfl⟩ := List.mem_map.1 hx
      have hy' : y ∈ (parsedIter PriceDbFile.priceDbEntry PriceDbFile.newlines t (t.length + 1) t []).1 := by
        have : PriceDbFile.parsePriceDbRun t =
            parsedIter PriceDbFile.priceDbEntry PriceDbFile.newlines t (t.length + 1) t [] := rfl
        rw [← this, hr]; exact hy
      rcases parsedIter_reads priceDbEntry_uses_tokenSplit (k := 0) (by unfold PriceDbFile.newlines; safe_tac)
        t _ t [] (List.suffix_refl _) y hy' with h1 | h1
      · simp at h1
      · obtain ⟨i1, r, _, h2, _, _, _, h6⟩ := h1
        exact (h6 _ (by simp)).mono h2 (List.nil_suffix)
    | error e => cases h
    | panic s => cases h
    | fuelOut => cases h

end Grammar

/-! ## the consequence: a literal of the tree is the whole maximal token, never a part of it -/

/-- **C07_positions** (spelled out): for every literal `d` in the tree of an accepted ledger text there is a place in
the text, `t = pre ++ tok ++ post`, where `tok` is an optional minus sign followed by a non-empty run over `[0-9,.]`,
`post` does not go on with a character of `[0-9,.]`, and `d = scan tok`.  So `d` is subject to C07 as a whole token:
where the text says `12,50 USD`, the tree cannot contain `12`. -/
theorem C07_positions_ledger (t : List Char) (es : List Entry) (h : Parse.parseEntries t = .ok es) :
    ∀ e ∈ es, ∀ d ∈ numsEntry e, ∃ pre tok post, t = pre ++ (tok ++ post) ∧ IsToken tok ∧ NoNumHead post ∧
      scan tok = .ok d := by
  intro e he d hd
  obtain ⟨pre, tok, mid, h1, h2, h3, h4⟩ := (parseEntries_uses_tokenSplit t es h e he d hd).spelled
  exact ⟨pre, tok, mid, by simpa using h1, h2, by simpa using h3, h4⟩

theorem C07_positions_priceDb (t : List Char) (rs : List PriceDbFile.PriceRec)
    (h : PriceDbFile.parsePriceDb t = .ok rs) :
    ∀ x ∈ rs, ∃ pre tok post, t = pre ++ (tok ++ post) ∧ IsToken tok ∧ NoNumHead post ∧ scan tok = .ok x.rate := by
  intro x hx
  obtain ⟨pre, tok, mid, h1, h2, h3, h4⟩ := (parsePriceDb_uses_tokenSplit t rs h x hx).spelled
  exact ⟨pre, tok, mid, by simpa using h1, h2, by simpa using h3, h4⟩

/-- **no short read**: a token that starts where a maximal token `tok` starts and is a proper prefix of it is never
what the scanner is handed — whatever `tokenSplit` returns at that position is `tok` itself. -/
theorem no_short_read {tok rest tok' rest' : List Char} (ht : IsToken tok) (hr : NoNumHead rest)
    (h : tokenSplit (tok ++ rest) = .ok (tok', rest')) : tok' = tok ∧ rest' = rest := by
  rw [tokenSplit_of_shape ht hr] at h
  injection h with h
  injection h with h1 h2
  exact ⟨h1.symm, h2.symm⟩

/-- non-vacuity: a ledger with `12.50 USD` parses, and the literal in its tree is the scan of the whole token `12.50` -/
example : (match Parse.parseEntries "2024/01/01 x\n a  12.50 USD\n b\n".toList with
    | .ok es => es.flatMap numsEntry == [(⟨false, 1250, 2, none⟩ : PDec)]
    | _ => false) = true := by decide +kernel

/-- the same ledger with `12,50 USD` is rejected as a whole: the posting amount is not read as `12` -/
example : (match Parse.parseEntries "2024/01/01 x\n a  12,50 USD\n b\n".toList with
    | .err _ => true
    | _ => false) = true := by decide +kernel

end Okane.LiteralPositions
