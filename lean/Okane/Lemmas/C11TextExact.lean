import Okane.Lemmas.C11TextAppend
/-!
# `EntryBoundary` is exactly the condition (C11 at the level of texts)

`entryBoundary_iff`: for ledgers `a` (without carriage returns, ending with a line feed) and `b`,
`parse_ledger (a ++ b)` reads `ea ++ eb` **if and only if** the cut is an `EntryBoundary`.

The new direction: when `b` starts with a comment prefix, `a` does not end with a blank line and the last entry of `a` is a
comment, that comment runs to the very end of `a` (`topComment` stops in front of a line that is no comment line; everything
after it is eaten by the separator, so it would be a blank tail), and in `a ++ b` it goes on through the first comment of
`b`: the joined text has one entry less than `ea ++ eb` (`iterE_merge`).
-/
namespace Okane.Parse
open Okane Okane.Comb

variable {α : Type}

/-! ## what the separator eats is blank -/

theorem lineEnding_ok_shape {u x : List Char} (h : lineEnding u = .ok () x) : u = '\n' :: x ∨ u = '\r' :: '\n' :: x := by
  unfold lineEnding at h
  split at h
  · simp only [Res.ok.injEq, true_and] at h; subst h; exact Or.inl rfl
  · simp only [Res.ok.injEq, true_and] at h; subst h; exact Or.inr rfl
  · cases h

/-- one element of the separator, on a text without carriage returns: a blank line, or blanks up to the end of the text -/
theorem vsE_ok_shape {u x : List Char} (h : vsE u = .ok () x) (hcr : '\r' ∉ u) :
    ∃ ws, (∀ c ∈ ws, isSpace c = true) ∧ (u = ws ++ '\n' :: x ∨ (u = ws ∧ x = [])) := by
  simp only [vsE, alt2] at h
  cases hl : lineEnding u with
  | ok y x' =>
    rw [hl] at h
    simp only [Res.ok.injEq, true_and] at h
    subst h
    rcases lineEnding_ok_shape hl with h | h
    · exact ⟨[], by simp, Or.inl (by simpa using h)⟩
    · exfalso; apply hcr; rw [h]; simp
  | bt q =>
    rw [hl] at h
    simp only [void, Comb.map, pair, Comb.bind] at h
    cases hs : space1 u with
    | ok ws s' =>
      rw [hs] at h
      simp only [Res.andThen_ok, Comb.map, alt2] at h
      have hws : ws = u.takeWhile isSpace ∧ s' = u.dropWhile isSpace := by
        cases u with
        | nil => simp [space1, takeWhile1] at hs
        | cons c r =>
          simp only [space1, takeWhile1] at hs
          split at hs
          · simp only [Res.ok.injEq] at hs; exact ⟨hs.1.symm, hs.2.symm⟩
          · cases hs
      have hu : u = ws ++ s' := by rw [hws.1, hws.2]; exact (List.takeWhile_append_dropWhile).symm
      have hsp : ∀ c ∈ ws, isSpace c = true := by rw [hws.1]; exact fun c hc => mem_takeWhile_true hc
      cases hle : lineEnding s' with
      | ok y x' =>
        rw [hle] at h
        simp only [Res.map_ok, Res.ok.injEq, true_and] at h
        subst h
        rcases lineEnding_ok_shape hle with h' | h'
        · exact ⟨ws, hsp, Or.inl (by rw [hu, h'])⟩
        · exfalso; apply hcr; rw [hu, h']; simp
      | bt q' =>
        rw [hle] at h
        simp only at h
        cases s' with
        | nil =>
          simp only [eof, Res.map_ok, Res.ok.injEq, true_and] at h
          exact ⟨ws, hsp, Or.inr ⟨by simpa using hu, h.symm⟩⟩
        | cons d y => simp [eof] at h
      | cut q' => rw [hle] at h; simp at h
      | panic s => rw [hle] at h; cases h
      | fuel => rw [hle] at h; cases h
    | bt q' => rw [hs] at h; simp at h
    | cut q' => rw [hs] at h; simp at h
    | panic s => rw [hs] at h; cases h
    | fuel => rw [hs] at h; cases h
  | cut q => rw [hl] at h; cases h
  | panic s => rw [hl] at h; cases h
  | fuel => rw [hl] at h; cases h

theorem vsLoop_blank : ∀ (n : Nat) (u : List Char) (acc l : List Unit), '\r' ∉ u →
    repeat0Loop vsE n u acc = .ok l [] → ∀ c ∈ u, c = '\n' ∨ isSpace c = true := by
  intro n
  induction n with
  | zero => intro u acc l _ h; simp [repeat0Loop] at h
  | succ n ih =>
    intro u acc l hcr h
    simp only [repeat0Loop] at h
    cases he : vsE u with
    | ok y x =>
      rw [he] at h
      simp only at h
      split at h
      · cases h
      · obtain ⟨ws, hws, hu | ⟨hu, _⟩⟩ := vsE_ok_shape he hcr
        · have hx := ih x _ l (fun hm => hcr (by rw [hu]; simp [hm])) h
          intro c hc
          rw [hu] at hc
          rcases List.mem_append.1 hc with h1 | h1
          · exact Or.inr (hws c h1)
          · rcases List.mem_cons.1 h1 with h2 | h2
            · exact Or.inl h2
            · exact hx c h2
        · intro c hc; rw [hu] at hc; exact Or.inr (hws c hc)
    | bt q =>
      rw [he] at h
      simp only [Res.ok.injEq] at h
      rw [h.2]; simp
    | cut q => rw [he] at h; cases h
    | panic s => rw [he] at h; cases h
    | fuel => rw [he] at h; cases h

/-- a text that ends with a line feed, holds no carriage return, and is eaten by the separator is a run of blank lines -/
theorem blankTail_of_sep {r : List Char} (h : verticalSpaces r = .ok () []) (hcr : '\r' ∉ r)
    (hlast : ∀ c, r.getLast? = some c → c = '\n') : BlankTail r := by
  rw [verticalSpaces_def] at h
  cases hl : repeat0Loop vsE (r.length + 1) r [] with
  | ok l r' =>
    rw [hl] at h
    simp only [Res.map_ok, Res.ok.injEq, true_and] at h
    subst h
    exact ⟨vsLoop_blank _ r [] l hcr hl, hlast⟩
  | bt q => rw [hl] at h; cases h
  | cut q => rw [hl] at h; cases h
  | panic s => rw [hl] at h; cases h
  | fuel => rw [hl] at h; cases h


/-! ## where a top-level comment stops -/

theorem lineEndingOrEof_ok_shape {u x : List Char} (h : lineEndingOrEof u = .ok () x) :
    (u = [] ∧ x = []) ∨ u = '\n' :: x ∨ u = '\r' :: '\n' :: x := by
  simp only [lineEndingOrEof, alt2] at h
  cases hl : lineEnding u with
  | ok y x' =>
    rw [hl] at h
    simp only [Res.ok.injEq, true_and] at h
    subst h
    exact Or.inr (lineEnding_ok_shape hl)
  | bt q =>
    rw [hl] at h
    simp only at h
    cases u with
    | nil => simp only [eof, Res.ok.injEq, true_and] at h; exact Or.inl ⟨rfl, h.symm⟩
    | cons d y => simp [eof] at h
  | cut q => rw [hl] at h; cases h
  | panic s => rw [hl] at h; cases h
  | fuel => rw [hl] at h; cases h

/-- a comment line ends with a line feed, or at the end of the text -/
theorem commentLine_rest {i x r : List Char} (h : commentLine i = .ok x r) : r = [] ∨ ∃ pre, i = pre ++ '\n' :: r := by
  have hsafe1 := (safe_takeWhile1 isCommentPrefix (Nat.le_refl 1)).good i
  simp only [commentLine, delimited, preceded, terminated, Comb.bind] at h
  cases h1 : takeWhile1 isCommentPrefix i with
  | ok p i2 =>
    rw [h1] at h hsafe1
    simp only [Res.andThen_ok, Comb.bind] at h
    have hsafe2 := (safe_tillLineEnding (Nat.le_refl 0)).good i2
    cases h2 : tillLineEnding i2 with
    | ok y i3 =>
      rw [h2] at h hsafe2
      simp only [Res.andThen_ok, Comb.map] at h
      cases h3 : lineEndingOrEof i3 with
      | ok z r' =>
        rw [h3] at h
        simp only [Res.map_ok, Res.ok.injEq] at h
        obtain ⟨_, rfl⟩ := h
        obtain ⟨pre, hpre⟩ := hsafe2.1.trans hsafe1.1
        rcases lineEndingOrEof_ok_shape h3 with ⟨_, h'⟩ | h' | h'
        · exact Or.inl h'
        · exact Or.inr ⟨pre, by rw [← hpre, h']⟩
        · exact Or.inr ⟨pre ++ ['\r'], by rw [← hpre, h']; simp⟩
      | bt q => rw [h3] at h; cases h
      | cut q => rw [h3] at h; cases h
      | panic s => rw [h3] at h; cases h
      | fuel => rw [h3] at h; cases h
    | bt q => rw [h2] at h; cases h
    | cut q => rw [h2] at h; cases h
    | panic s => rw [h2] at h; cases h
    | fuel => rw [h2] at h; cases h
  | bt q => rw [h1] at h; cases h
  | cut q => rw [h1] at h; cases h
  | panic s => rw [h1] at h; cases h
  | fuel => rw [h1] at h; cases h

theorem commentLoop_rest : ∀ (n : Nat) (i : List Char) (acc l : List (List Char)) (r : List Char),
    repeat0Loop commentLine n i acc = .ok l r → r = i ∨ r = [] ∨ ∃ pre, i = pre ++ '\n' :: r := by
  intro n
  induction n with
  | zero => intro i acc l r h; simp [repeat0Loop] at h
  | succ n ih =>
    intro i acc l r h
    simp only [repeat0Loop] at h
    cases he : commentLine i with
    | ok x r1 =>
      rw [he] at h
      simp only at h
      split at h
      · cases h
      · rcases ih r1 _ l r h with h1 | h1 | ⟨pre', h1⟩
        · subst h1
          rcases commentLine_rest he with h2 | h2
          · exact Or.inr (Or.inl h2)
          · exact Or.inr (Or.inr h2)
        · exact Or.inr (Or.inl h1)
        · rcases commentLine_rest he with h2 | ⟨pre, h2⟩
          · rw [h2] at h1; cases pre' <;> cases h1
          · exact Or.inr (Or.inr ⟨pre ++ '\n' :: pre', by rw [h2, h1]; simp⟩)
    | bt q => rw [he] at h; simp only [Res.ok.injEq] at h; exact Or.inl h.2.symm
    | cut q => rw [he] at h; cases h
    | panic s => rw [he] at h; cases h
    | fuel => rw [he] at h; cases h

theorem topComment_eq (i : List Char) : topComment i = (((repeat1 commentLine) i).map
    (fun ls => String.ofList (ls.flatMap fun l => l ++ ['\n']))).map Entry.comment := rfl

/-- what a top-level comment leaves starts after a line feed (or is nothing) -/
theorem topComment_rest {i : List Char} {e : Entry} {r : List Char} (h : topComment i = .ok e r) :
    r = [] ∨ ∃ pre, i = pre ++ '\n' :: r := by
  rw [topComment_eq] at h
  simp only [repeat1] at h
  cases he : commentLine i with
  | ok x r1 =>
    rw [he] at h
    simp only at h
    cases hl : repeat0Loop commentLine (r1.length + 1) r1 [x] with
    | ok l r' =>
      rw [hl] at h
      simp only [Res.map_ok, Res.ok.injEq] at h
      obtain ⟨_, rfl⟩ := h
      rcases commentLoop_rest _ _ _ _ _ hl with h1 | h1 | ⟨pre', h1⟩
      · subst h1; exact commentLine_rest he
      · exact Or.inl h1
      · rcases commentLine_rest he with h2 | ⟨pre, h2⟩
        · rw [h2] at h1; cases pre' <;> cases h1
        · exact Or.inr ⟨pre ++ '\n' :: pre', by rw [h2, h1]; simp⟩
    | bt q => rw [hl] at h; cases h
    | cut q => rw [hl] at h; cases h
    | panic s => rw [hl] at h; cases h
    | fuel => rw [hl] at h; cases h
  | bt q => rw [he] at h; cases h
  | cut q => rw [he] at h; cases h
  | panic s => rw [he] at h; cases h
  | fuel => rw [he] at h; cases h

/-! ## only the comment arm yields a comment -/

theorem bind2_pure_shape {β γ : Type} {p : Parser β} {q : β → Parser γ} {F : β → γ → Entry} {i : List Char} {e : Entry}
    {r : List Char} (h : (p >>- fun x => q x >>- fun y => Comb.pure (F x y)) i = .ok e r) : ∃ x y, e = F x y := by
  simp only [Comb.bind] at h
  cases h1 : p i with
  | ok x i2 =>
    rw [h1] at h
    simp only [Res.andThen_ok, Comb.bind] at h
    cases h2 : q x i2 with
    | ok y i3 => rw [h2] at h; simp only [Res.andThen_ok, Comb.pure, Res.ok.injEq] at h; exact ⟨x, y, h.1.symm⟩
    | bt _ => rw [h2] at h; cases h
    | cut _ => rw [h2] at h; cases h
    | panic _ => rw [h2] at h; cases h
    | fuel => rw [h2] at h; cases h
  | bt _ => rw [h1] at h; cases h
  | cut _ => rw [h1] at h; cases h
  | panic _ => rw [h1] at h; cases h
  | fuel => rw [h1] at h; cases h

theorem map_shape {β : Type} {p : Parser β} {f : β → Entry} {i : List Char} {e : Entry} {r : List Char}
    (h : Comb.map f p i = .ok e r) : ∃ x, e = f x := by
  simp only [Comb.map] at h
  cases h1 : p i with
  | ok x i2 => rw [h1] at h; simp only [Res.map_ok, Res.ok.injEq] at h; exact ⟨x, h.1.symm⟩
  | bt _ => rw [h1] at h; cases h
  | cut _ => rw [h1] at h; cases h
  | panic _ => rw [h1] at h; cases h
  | fuel => rw [h1] at h; cases h

theorem preceded_cutErr_ok {β γ : Type} {p : Parser β} {q : Parser γ} {i : List Char} {e : γ} {r : List Char}
    (h : preceded p (cutErr q) i = .ok e r) : ∃ i', q i' = .ok e r := by
  simp only [preceded, Comb.bind] at h
  cases h1 : p i with
  | ok x i2 =>
    rw [h1] at h
    simp only [Res.andThen_ok, cutErr] at h
    cases h2 : q i2 with
    | ok y i3 => rw [h2] at h; exact ⟨i2, by rw [h2]; exact h⟩
    | bt _ => rw [h2] at h; cases h
    | cut _ => rw [h2] at h; cases h
    | panic _ => rw [h2] at h; cases h
    | fuel => rw [h2] at h; cases h
  | bt _ => rw [h1] at h; cases h
  | cut _ => rw [h1] at h; cases h
  | panic _ => rw [h1] at h; cases h
  | fuel => rw [h1] at h; cases h

/-- an entry that is a comment was read by the comment arm: the text starts with a comment prefix -/
theorem comment_of_parseLedgerEntry {c : Char} {x : List Char} {s : String} {r : List Char}
    (h : parseLedgerEntry (c :: x) = .ok (.comment s) r) : isCommentPrefix c = true := by
  cases hc : isCommentPrefix c with
  | true => rfl
  | false =>
    exfalso
    rw [parseLedgerEntry_cons] at h
    simp only [hc, Bool.false_eq_true, if_false] at h
    split at h
    · -- account / apply tag
      simp only [alt2] at h
      split at h
      · rename_i q hq
        obtain ⟨i', h'⟩ := preceded_cutErr_ok h
        obtain ⟨k, v, hk⟩ := bind2_pure_shape (F := fun k v => Entry.applyTag (String.ofList k) v) h'
        cases hk
      · rename_i hq
        obtain ⟨i', h'⟩ := preceded_cutErr_ok h
        obtain ⟨n, d, hk⟩ := bind2_pure_shape (F := fun n d => Entry.account n d) h'
        cases hk
    · split at h
      · obtain ⟨n, d, hk⟩ := bind2_pure_shape (F := fun n d => Entry.commodity n d) h
        cases hk
      · split at h
        · obtain ⟨y, hy⟩ := map_shape (f := fun _ => Entry.endApplyTag) h
          cases hy
        · split at h
          · obtain ⟨y, hy⟩ := map_shape h
            cases hy
          · split at h
            · obtain ⟨y, hy⟩ := map_shape h
              cases hy
            · simp [Comb.fail] at h


/-! ## a comment that runs to the end of the first part goes on into the second -/

/-- a loop whose element ends a line, no blank tail: a run that uses up the first part goes on into the second part like a
run over the second part alone (up to the values collected) -/
theorem repeat0Loop_ext_end {C : Ctx} {p : Parser α} (hp : Loc C .mid .bol p) (hs : Safe 1 p) (hz0 : C.z = []) :
    ∀ (n m : Nat) (u : List Char) (acc l : List α), C.At .bol u → u.length < n → (u ++ C.t).length < m →
      repeat0Loop p n u acc = .ok l [] →
        (repeat0Loop p m (u ++ C.t) acc).map (fun _ => ()) =
          (repeat0Loop p (C.t.length + 1) C.t []).map (fun _ => ()) := by
  intro n
  induction n with
  | zero => intro m u acc l _ h; omega
  | succ n ih =>
    intro m u acc l hu hn hm h
    obtain ⟨m, rfl⟩ : ∃ m', m = m' + 1 := ⟨m - 1, by omega⟩
    rcases hu with hu | hu
    · rw [hz0] at hu
      subst hu
      rw [List.nil_append]
      exact repeat0Loop_void hs _ _ _ _ _ (by simpa using hm) (Nat.lt_succ_self _)
    · have h1 := hp.ext u hu
      have h2 := hs.good u
      simp only [repeat0Loop] at h ⊢
      cases he : p u with
      | ok x r' =>
        rw [he] at h h1 h2
        simp only [Res.ext_ok] at h1
        obtain ⟨h3, h4⟩ := h2
        simp only at h
        rw [if_neg (by omega)] at h
        rw [h1]
        simp only [List.length_append] at hm ⊢
        rw [if_neg (by omega)]
        exact ih m r' _ l (hp.post u x r' hu he) (by omega) (by simp only [List.length_append]; omega) h
      | bt q =>
        rw [he] at h
        simp only [Res.ok.injEq] at h
        exact absurd h.2 hu.ne_nil
      | cut q => rw [he] at h; cases h
      | panic s => rw [he] at h; cases h
      | fuel => rw [he] at h; cases h

theorem map_void_ok {β : Type} {x : Res β} {r : List Char} (h : x.map (fun _ => ()) = .ok () r) : ∃ v, x = .ok v r := by
  cases x with
  | ok v r' => simp only [Res.map_ok, Res.ok.injEq, true_and] at h; exact ⟨v, by rw [h]⟩
  | bt q => cases h
  | cut q => cases h
  | panic s => cases h
  | fuel => cases h

/-- **the merge**: a top-level comment that uses up the first part reads on through the first comment of the second part -/
theorem topComment_merge {C : Ctx} (hz0 : C.z = []) {i1 : List Char} {e e1 : Entry} {rb : List Char} (hu : C.Mid i1)
    (h : topComment i1 = .ok e []) (hb : topComment C.t = .ok e1 rb) : ∃ e2, topComment (i1 ++ C.t) = .ok e2 rb := by
  have hsafe : Safe 1 commentLine := by unfold commentLine; safe_tac
  -- the second part alone: its first comment line, then the loop
  have hbl : ∃ v, repeat0Loop commentLine (C.t.length + 1) C.t [] = .ok v rb := by
    rw [topComment_eq] at hb
    simp only [repeat1] at hb
    have hg := hsafe.good C.t
    cases he : commentLine C.t with
    | ok y rb1 =>
      rw [he] at hb hg
      simp only at hb
      obtain ⟨hg1, hg2⟩ := hg
      cases hl : repeat0Loop commentLine (rb1.length + 1) rb1 [y] with
      | ok l r' =>
        rw [hl] at hb
        simp only [Res.map_ok, Res.ok.injEq] at hb
        obtain ⟨_, rfl⟩ := hb
        apply map_void_ok
        simp only [repeat0Loop, he]
        rw [if_neg (by omega)]
        rw [repeat0Loop_void hsafe _ (rb1.length + 1) rb1 _ [y] (by omega) (Nat.lt_succ_self _), hl]
        rfl
      | bt q => rw [hl] at hb; cases hb
      | cut q => rw [hl] at hb; cases hb
      | panic s => rw [hl] at hb; cases hb
      | fuel => rw [hl] at hb; cases hb
    | bt q => rw [he] at hb; cases hb
    | cut q => rw [he] at hb; cases hb
    | panic s => rw [he] at hb; cases hb
    | fuel => rw [he] at hb; cases hb
  obtain ⟨v, hv⟩ := hbl
  rw [topComment_eq] at h
  rw [topComment_eq]
  simp only [repeat1] at h ⊢
  have h1 := (loc_commentLine (C := C)).ext i1 hu
  cases he : commentLine i1 with
  | ok x r1 =>
    rw [he] at h h1
    simp only [Res.ext_ok] at h1
    rw [h1]
    simp only at h ⊢
    cases hl : repeat0Loop commentLine (r1.length + 1) r1 [x] with
    | ok l r' =>
      rw [hl] at h
      simp only [Res.map_ok, Res.ok.injEq] at h
      obtain ⟨_, rfl⟩ := h
      have := repeat0Loop_ext_end loc_commentLine hsafe hz0 _ ((r1 ++ C.t).length + 1) r1 [x] l
        ((loc_commentLine (C := C)).post i1 x r1 hu he) (Nat.lt_succ_self _) (Nat.lt_succ_self _) hl
      rw [hv] at this
      obtain ⟨v2, hv2⟩ := map_void_ok this
      rw [hv2]
      exact ⟨_, rfl⟩
    | bt q => rw [hl] at h; cases h
    | cut q => rw [hl] at h; cases h
    | panic s => rw [hl] at h; cases h
    | fuel => rw [hl] at h; cases h
  | bt q => rw [he] at h; cases h
  | cut q => rw [he] at h; cases h
  | panic s => rw [he] at h; cases h
  | fuel => rw [he] at h; cases h


/-! ## the run over the joined text in the merging case -/

/-- more fuel does not change a complete run -/
theorem iterE_mono {p : Parser α} (j : Nat) : ∀ (m : Nat) (i : List Char) (a l : List α),
    iterE p verticalSpaces m i a = some l → iterE p verticalSpaces (m + j) i a = some l := by
  intro m
  induction m with
  | zero => intro i a l h; simp [iterE] at h
  | succ m ihm =>
    intro i a l h
    have e3 : m + 1 + j = (m + j) + 1 := by omega
    rw [e3]
    simp only [iterE] at h ⊢
    cases hs' : verticalSpaces i with
    | ok x' i1' =>
      rw [hs'] at h
      simp only at h ⊢
      split
      · rename_i hemp; simpa [hemp] using h
      · rename_i hemp
        simp only [hemp] at h
        cases hp' : p i1' with
        | ok e r => rw [hp'] at h; exact ihm r _ l h
        | bt q => rw [hp'] at h; simp at h
        | cut q => rw [hp'] at h; simp at h
        | panic s => rw [hp'] at h; simp at h
        | fuel => rw [hp'] at h; simp at h
    | bt q => rw [hs'] at h; cases h
    | cut q => rw [hs'] at h; cases h
    | panic s => rw [hs'] at h; cases h
    | fuel => rw [hs'] at h; cases h

/-- one step of the run -/
theorem iterE_step {p : Parser α} {sep : Parser Unit} (m : Nat) {i i1 : List Char} {acc : List α} {e : α} {r : List Char}
    (hs : sep i = .ok () i1) (hne : i1.isEmpty = false) (hp : p i1 = .ok e r) :
    iterE p sep (m + 1) i acc = iterE p sep m r (acc ++ [e]) := by
  rw [iterE]
  simp only [hs, hne, hp, Bool.false_eq_true, if_false]

/-- a complete run only appends to the entries collected so far -/
theorem iterE_length {p : Parser α} : ∀ (n : Nat) (i : List Char) (acc l : List α),
    iterE p verticalSpaces n i acc = some l → acc.length ≤ l.length := by
  intro n i acc l h
  have := iterE_acc p verticalSpaces n i acc []
  rw [List.append_nil, h] at this
  cases hx : iterE p verticalSpaces n i [] with
  | none => rw [hx] at this; cases this
  | some l' =>
    rw [hx] at this
    simp only [Option.map_some, Option.some.injEq] at this
    rw [this]; simp

/-- **the joined text in the merging case**: the second part starts with a comment (its first entry, read up to `rb`), the first
part does not end with a blank line, and its last entry is a comment.  The run over the joined text has ONE ENTRY LESS. -/
theorem iterE_merge (C : Ctx) (hz0 : C.z = []) (a : List Char) (hnb : ¬ EndsBlankLine a) (hcr : '\r' ∉ a)
    (hnl : ∀ c, a.getLast? = some c → c = '\n') (k' : Nat) (e1 : Entry) (rb : List Char) (eb' : List Entry)
    (hbe : topComment C.t = .ok e1 rb)
    (hbrest : iterE parseLedgerEntry verticalSpaces k' rb [] = some eb') :
    ∀ (n : Nat) (u : List Char) (acc l : List Entry), C.At .bol u → u <:+ a →
      iterE parseLedgerEntry verticalSpaces n u acc = some l → l ≠ acc → (∃ s, l.getLast? = some (.comment s)) →
        ∃ L, iterE parseLedgerEntry verticalSpaces (n + (k' + 1)) (u ++ C.t) acc = some L ∧
          L.length = l.length + eb'.length := by
  intro n
  induction n with
  | zero => intro u acc l _ _ h; simp [iterE] at h
  | succ n ih =>
    intro u acc l hu hua h hne hlast
    simp only [iterE] at h
    cases hs : verticalSpaces u with
    | ok x i1 =>
      rw [hs] at h
      simp only at h
      obtain ⟨h1, h2⟩ := verticalSpaces_append C hu hs
      by_cases he : i1.isEmpty = true
      · simp only [he, if_true, Option.some.injEq] at h
        exact absurd h.symm hne
      · simp only [he] at h
        have hne1 : i1 ≠ [] := by intro h'; apply he; simp [h']
        have hsuf := (safe_verticalSpaces.good u)
        rw [hs] at hsuf
        have hmid : C.Mid i1 := Ctx.mid_of_suffix hu hsuf.1 hne1 (verticalSpaces_rest hs)
        have hne' : (i1 ++ C.t).isEmpty = false := by
          cases i1 with
          | nil => exact absurd rfl hne1
          | cons c x => rfl
        have e1' : n + 1 + (k' + 1) = (n + (k' + 1)) + 1 := by omega
        cases hpe : parseLedgerEntry i1 with
        | ok e r =>
          rw [hpe] at h
          simp only at h
          have hgood := safe_parseLedgerEntry.good i1
          rw [hpe] at hgood
          obtain ⟨hpost, hext⟩ := entry_ext (C := C) hmid hpe
          -- is `e` the last entry of the first part?
          by_cases hl : l = acc ++ [e]
          · -- yes: it is the comment, and it uses up the first part
            obtain ⟨s, hs'⟩ := hlast
            have hes : e = .comment s := by
              rw [hl] at hs'
              simpa using hs'
            subst hes
            obtain ⟨c, x', hcx⟩ : ∃ c x', i1 = c :: x' := by
              cases i1 with
              | nil => exact absurd rfl hne1
              | cons c x' => exact ⟨c, x', rfl⟩
            subst hcx
            have hcp := comment_of_parseLedgerEntry hpe
            rw [parseLedgerEntry_comment hcp] at hpe
            have hr : r = [] := by
              apply Classical.byContradiction
              intro hr0
              rcases topComment_rest hpe with hr | ⟨pre, hpre⟩
              · exact hr0 hr
              · exfalso
                · -- what is left is eaten by the separator: a blank tail
                  have hsep : verticalSpaces r = .ok () [] := by
                    cases n with
                    | zero => simp [iterE] at h
                    | succ n' =>
                      simp only [iterE] at h
                      cases hs2 : verticalSpaces r with
                      | ok y i2 =>
                        rw [hs2] at h
                        simp only at h
                        by_cases he2 : i2.isEmpty = true
                        · have : i2 = [] := by simpa using he2
                          rw [this]
                        · exfalso
                          simp only [he2] at h
                          cases hp2 : parseLedgerEntry i2 with
                          | ok e' r' =>
                            rw [hp2] at h
                            have := iterE_length _ _ _ _ h
                            rw [hl] at this
                            simp at this
                          | bt q => rw [hp2] at h; simp at h
                          | cut q => rw [hp2] at h; simp at h
                          | panic s => rw [hp2] at h; simp at h
                          | fuel => rw [hp2] at h; simp at h
                      | bt q => rw [hs2] at h; cases h
                      | cut q => rw [hs2] at h; cases h
                      | panic s => rw [hs2] at h; cases h
                      | fuel => rw [hs2] at h; cases h
                  obtain ⟨p0, hp0⟩ := (hsuf.1.trans hua)
                  have hra : a = (p0 ++ pre) ++ '\n' :: r := by rw [← hp0, hpre]; simp
                  have hbt : BlankTail r := by
                    refine blankTail_of_sep hsep (fun hm => hcr (by rw [hra]; simp [hm])) ?_
                    intro c hc
                    apply hnl c
                    rw [hra]
                    cases r with
                    | nil => exact absurd rfl hr0
                    | cons y ys =>
                      rw [show (p0 ++ pre) ++ '\n' :: y :: ys = ((p0 ++ pre) ++ ['\n']) ++ y :: ys by simp,
                        getLast?_append_cons]
                      exact hc
                  exact hnb ⟨p0 ++ pre, r, hra, hr0, hbt⟩
            subst hr
            obtain ⟨e2, he2⟩ := topComment_merge hz0 hmid hpe hbe
            have hp2 : parseLedgerEntry ((c :: x') ++ C.t) = .ok e2 rb := by
              rw [List.cons_append, parseLedgerEntry_comment hcp, ← List.cons_append]; exact he2
            refine ⟨acc ++ [e2] ++ eb', ?_, by rw [hl]; simp; omega⟩
            rw [e1', iterE_step _ (h1 hne1) hne' hp2]
            have := iterE_acc parseLedgerEntry verticalSpaces k' rb (acc ++ [e2]) []
            rw [List.append_nil, hbrest] at this
            simp only [Option.map_some] at this
            have e4 : n + (k' + 1) = k' + (n + 1) := by omega
            rw [e4]
            exact iterE_mono (n + 1) k' rb _ _ this
          · -- no: go on (it leaves something of the first part)
            have hr : r ≠ [] := by
              intro hr
              subst hr
              exact hl (iterE_nil _ n _ l h)
            have hx := hext (Or.inl hr)
            obtain ⟨L, hL1, hL2⟩ := ih r (acc ++ [e]) l hpost (hgood.1.trans (hsuf.1.trans hua)) h hl hlast
            refine ⟨L, ?_, hL2⟩
            rw [e1', iterE_step _ (h1 hne1) hne' hx]
            exact hL1
        | bt q => rw [hpe] at h; simp at h
        | cut q => rw [hpe] at h; simp at h
        | panic s => rw [hpe] at h; simp at h
        | fuel => rw [hpe] at h; simp at h
    | bt q => rw [hs] at h; cases h
    | cut q => rw [hs] at h; cases h
    | panic s => rw [hs] at h; cases h
    | fuel => rw [hs] at h; cases h


/-! ## the characterisation -/

/-- **the joined text has one entry less** when the last entry of `a` is a comment that is followed at once by a comment of `b` -/
theorem parseEntries_merge {a b : List Char} {ea eb : List Entry} (ha : parseEntries a = .ok ea)
    (hb : parseEntries b = .ok eb) (hnl : ∃ a', a = a' ++ ['\n']) (hcr : '\r' ∉ a)
    (hb0 : ¬ NoCommentStart b) (hnb : ¬ EndsBlankLine a) (hlast : ∃ s, ea.getLast? = some (.comment s)) :
    ∃ L, parseEntries (a ++ b) = .ok L ∧ L.length + 1 = ea.length + eb.length := by
  obtain ⟨a', ha'⟩ := hnl
  -- the second part starts with a comment prefix
  obtain ⟨c, x, hbx, hcp⟩ : ∃ c x, b = c :: x ∧ isCommentPrefix c = true := by
    apply Classical.byContradiction
    intro h
    apply hb0
    intro c r hbr
    cases hc : isCommentPrefix c with
    | false => rfl
    | true => exact absurd ⟨c, r, hbr, hc⟩ h
  have hfol := follows_of_ledger hb
  -- the run over `b`: its first entry is that comment
  have hv : vsE b = .bt b := by
    have h1 : c ≠ '\n' := by intro h; rw [h] at hcp; cases hcp
    have h2 : c ≠ '\r' := by intro h; rw [h] at hcp; cases hcp
    have h3 : isSpace c = false := by
      simp only [isCommentPrefix, Bool.or_eq_true, beq_iff_eq] at hcp
      rcases hcp with (((rfl | rfl) | rfl) | rfl) | rfl <;> rfl
    have hl : lineEnding (c :: x) = .bt (c :: x) := by
      unfold lineEnding
      split <;> simp_all
    rw [hbx]
    simp [vsE, alt2, hl, pair, void, Comb.map, Comb.bind, space1, takeWhile1, h3]
  have hvs : verticalSpaces b = .ok () b := by
    rw [verticalSpaces_def]
    simp [repeat0Loop, hv]
  rw [parseEntries_eq_iterE] at ha hb
  have hbne : b.isEmpty = false := by rw [hbx]; rfl
  have hb' := hb
  rw [iterE] at hb'
  simp only [hvs, hbne, Bool.false_eq_true, if_false] at hb'
  have htop : parseLedgerEntry b = topComment b := by rw [hbx]; exact parseLedgerEntry_comment hcp x
  rw [htop] at hb'
  cases hbe : topComment b with
  | ok e1 rb =>
    rw [hbe] at hb'
    simp only [List.nil_append] at hb'
    have hacc := iterE_acc parseLedgerEntry verticalSpaces b.length rb [e1] []
    rw [List.append_nil, hb'] at hacc
    cases hrest : iterE parseLedgerEntry verticalSpaces b.length rb [] with
    | none => rw [hrest] at hacc; cases hacc
    | some eb' =>
      rw [hrest] at hacc
      simp only [Option.map_some, Option.some.injEq] at hacc
      let C : Ctx := ⟨[], b, blankTail_nil, Or.inr hfol⟩
      have hne : ea ≠ [] := by
        obtain ⟨s, hs⟩ := hlast
        intro h; rw [h] at hs; cases hs
      obtain ⟨L, hL1, hL2⟩ := iterE_merge C rfl a hnb hcr (by rw [ha']; simp) b.length e1 rb eb' hbe hrest
        (a.length + 1) a [] ea (Or.inr ⟨a', ha'⟩) (List.suffix_refl a) ha hne hlast
      refine ⟨L, ?_, by rw [hL2, hacc]; simp; omega⟩
      rw [parseEntries_eq_iterE, ← hL1]
      exact iterE_fuel safe_parseLedgerEntry safe_verticalSpaces _ _ _ _ (Nat.lt_succ_self _)
        (by simp only [List.length_append]; omega)
  | bt q => rw [hbe] at hb'; cases hb'
  | cut q => rw [hbe] at hb'; cases hb'
  | panic s => rw [hbe] at hb'; cases hb'
  | fuel => rw [hbe] at hb'; cases hb'

/-- **`EntryBoundary` is exactly the condition**, for ledgers `a` (no carriage returns, ending with a line feed) and `b`:
`parse_ledger (a ++ b)` reads the entries of `a` followed by the entries of `b` if and only if the cut is an entry boundary. -/
theorem entryBoundary_iff {a b : List Char} {ea eb : List Entry} (ha : parseEntries a = .ok ea)
    (hb : parseEntries b = .ok eb) (hnl : ∃ a', a = a' ++ ['\n']) (hcr : '\r' ∉ a) :
    parseEntries (a ++ b) = .ok (ea ++ eb) ↔ EntryBoundary a ea b := by
  constructor
  · intro hj
    apply Classical.byContradiction
    intro hnot
    have hb0 : ¬ NoCommentStart b := fun h => hnot (Or.inr (Or.inr ⟨hnl, Or.inl h⟩))
    have hnb : ¬ EndsBlankLine a := fun h => hnot (Or.inr (Or.inr ⟨hnl, Or.inr (Or.inl h)⟩))
    have hlast : ∃ s, ea.getLast? = some (.comment s) := by
      apply Classical.byContradiction
      intro h
      exact hnot (Or.inr (Or.inr ⟨hnl, Or.inr (Or.inr fun s hs => h ⟨s, hs⟩)⟩))
    obtain ⟨L, hL1, hL2⟩ := parseEntries_merge ha hb hnl hcr hb0 hnb hlast
    rw [hj] at hL1
    simp only [Outcome.ok.injEq] at hL1
    rw [← hL1] at hL2
    simp at hL2
  · exact parseEntries_append_at ha hb

/-- a text whose last line holds a character that is no blank does not end with a blank line -/
theorem not_endsBlankLine {a0 : List Char} {c : Char} (h1 : c ≠ '\n') (h2 : isSpace c = false) :
    ¬ EndsBlankLine (a0 ++ [c, '\n']) := by
  rintro ⟨a', z, hz, hne, hbt⟩
  obtain ⟨z', hz'⟩ : ∃ z', z = z' ++ ['\n'] := by
    cases hl : z.getLast? with
    | none => exact absurd (List.getLast?_eq_none_iff.1 hl) hne
    | some d =>
      have := hbt.2 d hl
      subst this
      exact getLast?_eq_some_iff'.1 hl
  subst hz'
  have e : a0 ++ [c] = a' ++ '\n' :: z' := by
    have h : (a0 ++ [c]) ++ ['\n'] = (a' ++ '\n' :: z') ++ ['\n'] := by simpa using hz
    exact List.append_cancel_right h
  have hc : c ∈ ('\n' :: z') := by
    have h := congrArg List.getLast? e
    rw [List.getLast?_concat, getLast?_append_cons] at h
    exact List.mem_of_getLast? h.symm
  rcases List.mem_cons.1 hc with h | h
  · exact h1 h
  · rcases hbt.1 c (by simp [h]) with h' | h'
    · exact h1 h'
    · rw [h2] at h'; cases h'

/-- the instance behind `boundary_needed_comment`, now as a theorem about every such pair of ledgers -/
example : ∃ L, parseEntries ("; x\n".toList ++ "; y\n".toList) = .ok L ∧ L.length + 1 = 1 + 1 := by
  have ha : entryCount "; x\n".toList = .ok 1 := by decide +kernel
  have hb : entryCount "; y\n".toList = .ok 1 := by decide +kernel
  obtain ⟨ea, h1, l1⟩ := ok_of_entryCount ha
  obtain ⟨eb, h2, l2⟩ := ok_of_entryCount hb
  have hlast : ∃ s, ea.getLast? = some (.comment s) := by
    have hc : postingCounts "; x\n".toList = .ok [] ∧ (parseEntries "; x\n".toList).map' (fun es => es.map fun e =>
        match e with | .comment _ => true | _ => false) = .ok [true] := by decide +kernel
    rw [h1] at hc
    simp only [Outcome.map', Outcome.ok.injEq] at hc
    match ea, l1, hc.2 with
    | [.comment s], _, _ => exact ⟨s, rfl⟩
  obtain ⟨L, hL1, hL2⟩ := parseEntries_merge h1 h2 ⟨"; x".toList, by decide⟩ (by decide)
    (fun h => absurd (h ';' _ rfl) (by decide))
    (not_endsBlankLine (a0 := "; ".toList) (c := 'x') (by decide) (by decide))
    hlast
  exact ⟨L, hL1, by rw [hL2, l1, l2]⟩

end Okane.Parse
