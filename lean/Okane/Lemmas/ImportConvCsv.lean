import Okane.Model.ImportCsv
import Okane.Lemmas.ImportConvTxn
/-!
# The conversion block of `csv::import`: what it leaves in the `Txn`, and when the result is consistent

* `Dec.absRat_mul`, `Dec.div_exact`: the computed secondary amount (`amount × rate`, `amount ÷ rate`) has exactly
  the magnitude the book-keeping will require, the division provided it is exact.
* `applyConversion_spec`: the rate map and transferred amount after the block.
* `ConvConsistent`: the condition on the row's figures, by conversion mode; `applyConversion_convRow`: under it the
  transaction is a `Txn.ConvRow`.
-/
set_option linter.unusedSectionVars false
set_option linter.unusedVariables false
namespace Okane
namespace Import

/-! ## decimal arithmetic -/

theorem pow10_ne_zero (s : Nat) : (10 : Rat) ^ s ≠ 0 := by
  have : (0 : Rat) < 10 ^ s := Rat.pow_pos (by decide)
  grind

theorem pow10_add (s t : Nat) : (10 : Rat) ^ (s + t) = 10 ^ s * 10 ^ t := by grind

theorem Dec.absRat_of_mant_zero (d : Dec) (h : d.mant = 0) : d.absRat = 0 := by
  unfold Dec.absRat
  rw [h, Rat.div_def]
  simp

theorem Dec.absRat_eq_zero_iff (d : Dec) : d.absRat = 0 ↔ d.mant = 0 := by
  constructor
  · intro h
    unfold Dec.absRat at h
    have h1 := pow10_ne_zero d.scale
    have h2 : (d.mant : Rat) = 0 := by grind
    exact_mod_cast h2
  · exact Dec.absRat_of_mant_zero d

theorem Dec.toRat_eq_zero_iff (d : Dec) : d.toRat = 0 ↔ d.mant = 0 := by
  rw [← Dec.absRat_eq_zero_iff, Dec.toRat_eq]
  cases d.neg <;> simp <;> grind

theorem Dec.toRat_of_pos (d : Dec) (h : d.neg = false) : d.toRat = d.absRat := by
  rw [Dec.toRat_eq, h]; simp

/-- `amount × rate`: the magnitudes multiply exactly -/
theorem Dec.absRat_mul (a b : Dec) : (Dec.mul a b).absRat = a.absRat * b.absRat := by
  unfold Dec.mul
  by_cases h : a.mant = 0 ∨ b.mant = 0
  · simp only [h, if_true]
    rcases h with h | h
    · rw [Dec.absRat_of_mant_zero a h]; simp [Dec.absRat, Rat.div_def]
    · rw [Dec.absRat_of_mant_zero b h]; simp [Dec.absRat, Rat.div_def]
  · simp only [h, if_false]
    unfold Dec.absRat
    simp only
    have h1 := pow10_ne_zero a.scale
    have h2 := pow10_ne_zero b.scale
    rw [pow10_add, Rat.natCast_mul]
    grind

theorem exactAt_spec (num den : Nat) : ∀ (fuel s0 : Nat) (m s : Nat), Dec.exactAt num den fuel s0 = some (m, s) →
    (num * 10 ^ s) % den = 0 ∧ m = (num * 10 ^ s) / den := by
  intro fuel
  induction fuel with
  | zero =>
    intro s0 m s h
    unfold Dec.exactAt at h
    split at h
    · simp only [Option.some.injEq, Prod.mk.injEq] at h
      obtain ⟨h1, h2⟩ := h
      subst h2
      exact ⟨by assumption, h1.symm⟩
    · simp at h
  | succ n ih =>
    intro s0 m s h
    unfold Dec.exactAt at h
    split at h
    · simp only [Option.some.injEq, Prod.mk.injEq] at h
      obtain ⟨h1, h2⟩ := h
      subst h2
      exact ⟨by assumption, h1.symm⟩
    · exact ih _ _ _ h

/-- `amount ÷ rate`, when rust_decimal's quotient is exact: quotient × rate = amount, in magnitude -/
theorem Dec.div_exact (a r q : Dec) (h : Dec.div a r = .ok (q, false)) :
    r.mant ≠ 0 ∧ q.absRat * r.absRat = a.absRat := by
  unfold Dec.div at h
  by_cases hr : r.mant = 0
  · simp [hr] at h
  · refine ⟨hr, ?_⟩
    simp only [hr, if_false] at h
    by_cases ha : a.mant = 0
    · simp only [ha, if_true, Outcome.ok.injEq, Prod.mk.injEq, and_true] at h
      subst h
      rw [Dec.absRat_of_mant_zero a ha]
      simp [Dec.absRat, Rat.div_def]
    · simp only [ha, if_false] at h
      split at h
      · rename_i m s hex
        simp only [Outcome.ok.injEq, Prod.mk.injEq, and_true] at h
        subst h
        obtain ⟨hmod, hm⟩ := exactAt_spec _ _ _ _ _ _ hex
        have hdvd : (r.mant * 10 ^ a.scale) ∣ (a.mant * 10 ^ r.scale * 10 ^ s) := Nat.dvd_of_mod_eq_zero hmod
        have hnat : m * (r.mant * 10 ^ a.scale) = a.mant * 10 ^ r.scale * 10 ^ s := by
          rw [hm]; exact Nat.div_mul_cancel hdvd
        have hrat : (m : Rat) * ((r.mant : Rat) * (10 : Rat) ^ a.scale) = (a.mant : Rat) * (10 : Rat) ^ r.scale * (10 : Rat) ^ s := by
          exact_mod_cast congrArg (fun n : Nat => (n : Rat)) hnat
        unfold Dec.absRat
        simp only
        have h1 := pow10_ne_zero a.scale
        have h2 := pow10_ne_zero r.scale
        have h3 := pow10_ne_zero s
        grind
      · simp at h

/-! ## the conversion block -/

/-- **What the conversion block leaves in the transaction.**  One rate, keyed by the commodity it prices
(`price_of_primary`: the row's commodity, in units of the secondary; `price_of_secondary`: the other way round),
and the transferred amount in the secondary commodity — the statement's figure (`extract`) or the computed one. -/
theorem applyConversion_spec (base txn : Txn) (conv : Conversion) (amount : Dec) (commodity : String)
    (rate : Option Dec) (sa : Option Dec) (scField : Option String) (i : Bool)
    (hr : base.rates = [])
    (h : applyConversion base conv amount commodity rate sa scField = .ok (txn, i)) :
    ∃ r sc tr, rate = some r ∧ conv.commodity.or scField = some sc ∧ sc ≠ commodity ∧
      txn = { base with
              rates := (match conv.rate with
                        | .priceOfPrimary => [(commodity, ⟨r, sc⟩)]
                        | .priceOfSecondary => [(sc, ⟨r, commodity⟩)]),
              transferredAmount := some ⟨tr, sc⟩ } ∧
      (conv.amount = .extract → sa = some tr) ∧
      (conv.amount = .compute → conv.rate = .priceOfPrimary → tr = Dec.mul amount r) ∧
      (conv.amount = .compute → conv.rate = .priceOfSecondary → Dec.div amount r = .ok (tr, i)) := by
  unfold applyConversion at h
  cases rate with
  | none => simp at h
  | some r =>
    simp only at h
    cases hsc : conv.commodity.or scField with
    | none => simp [hsc] at h
    | some sc =>
      simp only [hsc] at h
      cases hrm : conv.rate with
      | priceOfPrimary =>
        simp only [hrm] at h
        unfold Txn.addRate at h
        by_cases hne : sc = commodity
        · simp [hne] at h
        · simp only [hne, if_false, hr, AMap.get?_nil, AMap.insert] at h
          cases ham : conv.amount with
          | extract =>
            simp only [ham] at h
            cases sa with
            | none => simp at h
            | some tr =>
              simp only [Outcome.ok.injEq, Prod.mk.injEq] at h
              obtain ⟨ht, _⟩ := h
              exact ⟨r, sc, tr, rfl, rfl, hne, by rw [← ht]; rfl, by simp, by simp, by simp⟩
          | compute =>
            simp only [ham, Outcome.ok.injEq, Prod.mk.injEq] at h
            obtain ⟨ht, _⟩ := h
            exact ⟨r, sc, Dec.mul amount r, rfl, rfl, hne, by rw [← ht]; rfl, by simp, by simp, by simp⟩
      | priceOfSecondary =>
        simp only [hrm] at h
        cases hdiv : Dec.div amount r with
        | err e => simp [hdiv] at h
        | panic s => simp [hdiv] at h
        | fuelOut => simp [hdiv] at h
        | ok qf =>
          obtain ⟨q, flag⟩ := qf
          simp only [hdiv] at h
          unfold Txn.addRate at h
          by_cases hne : commodity = sc
          · simp [hne] at h
          · simp only [hne, if_false, hr, AMap.get?_nil, AMap.insert] at h
            cases ham : conv.amount with
            | extract =>
              simp only [ham] at h
              cases sa with
              | none => simp at h
              | some tr =>
                simp only [Outcome.ok.injEq, Prod.mk.injEq] at h
                obtain ⟨ht, _⟩ := h
                exact ⟨r, sc, tr, rfl, rfl, Ne.symm hne, by rw [← ht]; rfl, by simp, by simp, by simp⟩
            | compute =>
              simp only [ham, Outcome.ok.injEq, Prod.mk.injEq] at h
              obtain ⟨ht, hi⟩ := h
              subst hi
              exact ⟨r, sc, q, rfl, rfl, Ne.symm hne, by rw [← ht]; rfl, by simp, by simp, fun _ _ => hdiv⟩

/-- **The consistency condition on a CSV row with a conversion**, by mode.  `amount` is the row's (signed) amount,
`r` its rate, `sa` its secondary amount, `inexact` whether the importer's division was inexact.
* the rate is not zero (the book-keeping rejects `@ 0`);
* `extract`, `price_of_primary`:   `|secondary| = rate × |amount|` exactly;
* `extract`, `price_of_secondary`: `|amount| = rate × |secondary|` exactly;
* `compute`: the rate is positive, and for `price_of_secondary` the quotient `amount ÷ rate` is exact. -/
def ConvConsistent (conv : Conversion) (amount r : Dec) (sa : Option Dec) (inexact : Bool) : Prop :=
  r.mant ≠ 0 ∧
  match conv.amount, conv.rate with
  | .extract, .priceOfPrimary => ∀ tr, sa = some tr → tr.absRat = r.toRat * amount.absRat
  | .extract, .priceOfSecondary => ∀ tr, sa = some tr → amount.absRat = r.toRat * tr.absRat
  | .compute, .priceOfPrimary => r.neg = false
  | .compute, .priceOfSecondary => r.neg = false ∧ inexact = false

/-- **A consistently converted CSV row is a `Txn.ConvRow`.** -/
theorem applyConversion_convRow (base txn : Txn) (conv : Conversion) (amount : Dec) (commodity : String)
    (rate : Option Dec) (sa : Option Dec) (scField : Option String) (i : Bool)
    (hbase : base.amount = ⟨amount, commodity⟩) (hr : base.rates = [])
    (h : applyConversion base conv amount commodity rate sa scField = .ok (txn, i))
    (hscne : ∀ sc, conv.commodity.or scField = some sc → sc ≠ "")
    (hcons : ∀ r, rate = some r → ConvConsistent conv amount r sa i) :
    txn.ConvRow commodity ∧ txn.amount = base.amount ∧ txn.charges = base.charges ∧ txn.balance = base.balance ∧
      txn.destAccount = base.destAccount ∧ txn.date = base.date := by
  obtain ⟨r, sc, tr, hrate, hsc, hne, htxn, hext, hcp, hcs⟩ := applyConversion_spec base txn conv amount commodity
    rate sa scField i hr h
  obtain ⟨hrm, hmode⟩ := hcons r hrate
  have hrne : r.toRat ≠ 0 := fun h0 => hrm ((Dec.toRat_eq_zero_iff r).1 h0)
  refine ⟨⟨sc, tr, r, hscne sc hsc, hne, hrne, by rw [htxn]; simp [hbase], by rw [htxn], ?_⟩,
    by rw [htxn], by rw [htxn], by rw [htxn], by rw [htxn], by rw [htxn]⟩
  have hamt : txn.amount.value = amount := by rw [htxn]; simp [hbase]
  cases hrmode : conv.rate with
  | priceOfPrimary =>
    left
    refine ⟨by rw [htxn]; simp [hrmode, AMap.get?], by rw [htxn]; simp [hrmode, AMap.get?, Ne.symm hne], ?_⟩
    rw [hamt]
    cases ham : conv.amount with
    | extract =>
      simp only [ham, hrmode] at hmode
      exact hmode tr (hext ham)
    | compute =>
      simp only [ham, hrmode] at hmode
      rw [hcp ham hrmode, Dec.absRat_mul, Dec.toRat_of_pos r hmode]
      grind
  | priceOfSecondary =>
    right
    refine ⟨by rw [htxn]; simp [hrmode, AMap.get?, hne], by rw [htxn]; simp [hrmode, AMap.get?], ?_⟩
    rw [hamt]
    cases ham : conv.amount with
    | extract =>
      simp only [ham, hrmode] at hmode
      exact hmode tr (hext ham)
    | compute =>
      simp only [ham, hrmode] at hmode
      obtain ⟨hpos, hi⟩ := hmode
      have hd := hcs ham hrmode
      rw [hi] at hd
      obtain ⟨_, hq⟩ := Dec.div_exact amount r tr hd
      rw [Dec.toRat_of_pos r hpos, ← hq]
      grind

end Import
end Okane
