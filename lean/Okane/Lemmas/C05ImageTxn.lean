import Okane.Lemmas.C05ImagePosting
/-!
# Image lemmas for C05, part 6: transactions

`transaction_image`: the header (date, effective date, clear mark, code, payee), its metadata and its postings.
The payee may begin with `(` when no code was read: `paren_str` fails exactly when the `(` is not closed on its line, the
text `(abc` becomes the payee, it holds no `)` (`parenStr_bt`), and that is what `wfPayee` asks of such a payee.  No
hypothesis on the text is needed for this.
-/
set_option linter.unusedSimpArgs false
set_option linter.unusedVariables false
namespace Okane.C05Image
open Okane Okane.Comb Okane.Parse Okane.Unparse Okane.ExprParse

/-! ## pieces of the header -/

theorem dropWhile_nil_all {p : Char → Bool} : ∀ {l : List Char}, l.dropWhile p = [] → ∀ c ∈ l, p c = true := by
  intro l
  induction l with
  | nil => intro _ c hc; simp at hc
  | cons d t ih =>
    intro h c hc
    by_cases hd : p d = true
    · simp only [List.dropWhile, hd] at h
      rcases List.mem_cons.mp hc with rfl | hc
      · exact hd
      · exact ih h c hc
    · simp [List.dropWhile, hd] at h

/-- `paren_str` followed by blanks can only fail after `(` when the `(` is not closed on its line: no `)` follows text
without `)`, CR, LF -/
theorem parenStr_bt {t z : List Char} (h : terminated parenStr space0 ('(' :: t) = .bt z) :
    ∀ a b, t = a ++ ')' :: b → (∀ x ∈ a, isParenStrStop x = false) → False := by
  intro a b e ha
  subst e
  have ht := takeTill0_append (p := isParenStrStop) (a := a) (rest := ')' :: b) ha (by intro x r e; cases e; rfl)
  simp [parenStr, paren, ht, space0, takeWhile0] at h

/-- a list that holds `)` splits at its first `)` -/
theorem split_first_close : ∀ {l : List Char}, ')' ∈ l → ∃ a b, l = a ++ ')' :: b ∧ ')' ∉ a := by
  intro l
  induction l with
  | nil => intro h; cases h
  | cons c t ih =>
    intro h
    by_cases hc : c = ')'
    · subst hc; exact ⟨[], t, rfl, by simp⟩
    · have ht : ')' ∈ t := by
        rcases List.mem_cons.mp h with e | h
        · exact absurd e.symm hc
        · exact h
      obtain ⟨a, b, rfl, ha⟩ := ih ht
      refine ⟨c :: a, b, rfl, ?_⟩
      intro hm
      rcases List.mem_cons.mp hm with e | hm
      · exact hc e.symm
      · exact ha hm

theorem lineEndingOrEof_stop {r r' : List Char} {u : Unit} (h : lineEndingOrEof r = .ok u r') : Stop isSpace r := by
  unfold lineEndingOrEof at h
  rcases alt2_ok_iff.1 h with h1 | ⟨_, h1⟩
  · rcases lineEnding_ok_iff.1 h1 with rfl | rfl <;> simp [isSpace]
  · rw [(eof_ok_iff.1 h1).1]; simp

/-- after the dates: either the line ends / metadata follows directly, or blanks are skipped -/
theorem header_start {r2 r2' r3 : List Char} {b : Bool} {u : Option (List Char)}
    (hp : hasPeek (lineEndingOrEof <|| void (char ';')) r2 = .ok b r2') (hc : cond (!b) space1 r2' = .ok u r3) :
    Stop isSpace r3 ∧ r3 <:+ r2 := by
  obtain ⟨rfl, hb⟩ := hasPeek_ok_iff.1 hp
  rcases hb with ⟨rfl, a, r', ha⟩ | ⟨rfl, _⟩
  · rcases cond_ok_iff.1 hc with ⟨hf, _⟩ | ⟨_, _, rfl⟩
    · simp at hf
    · refine ⟨?_, List.suffix_refl _⟩
      rcases alt2_ok_iff.1 ha with h1 | ⟨_, h1⟩
      · exact lineEndingOrEof_stop h1
      · obtain ⟨c, hc'⟩ := void_ok_iff.1 h1
        rw [(char_ok_iff.1 hc').2]; simp [isSpace]
  · rcases cond_ok_iff.1 hc with ⟨_, a, ha, _⟩ | ⟨hf, _⟩
    · exact ⟨(space1_ok ha).2.2.2, (safe_space1 (Nat.le_refl 1)).suffix ha⟩
    · simp at hf

theorem safe_edPart : Safe 0 (opt (preceded (char '=') date)) := by safe_tac
theorem safe_codePart : Safe 0 (opt (terminated parenStr space0)) := by safe_tac
theorem safe_payeePart : Safe 0 (opt (map trimEnd tillLineEndingOrSemi)) := by safe_tac
theorem safe_postItem : Safe 1 (preceded (pair (takeWhile1 isSpace) (Comb.not lineEndingOrEof)) (cutErr posting)) := by
  safe_tac

/-- the payee, given what precedes it -/
theorem payee_image {r3 r4 r5 r6 : List Char} {cs : ClearState} {code payee : Option (List Char)}
    (hstop3 : Stop isSpace r3) (hcs : clearState r3 = .ok cs r4)
    (hcode : opt (terminated parenStr space0) r4 = .ok code r5)
    (hpayee : opt (map trimEnd tillLineEndingOrSemi) r5 = .ok payee r6) :
    let s := payee.getD []
    (s.all (fun c => !(c == ';' || c == '\r' || c == '\n')) && notBlankStart s && endTrimmed s &&
      (code.isSome || ((cs != .uncleared || notClearMarkStart s) && (s.head? != some '(' || !s.contains ')')))) = true ∧
    (∀ c, code = some c → wfCode c = true) := by
  intro s
  -- the position after the clear mark does not begin with a blank
  have hstop4 : Stop isSpace r4 := by
    rcases clearState_ok hcs with ⟨_, rfl, _⟩ | ⟨_, h⟩
    · exact hstop3
    · exact h
  -- the code
  have hcodeP : (∀ c, code = some c → wfCode c = true ∧ Stop isSpace r5) ∧
      (code = none → r5 = r4 ∧ ∀ t, r4 = '(' :: t →
        ∀ a b, t = a ++ ')' :: b → (∀ x ∈ a, isParenStrStop x = false) → False) := by
    rcases opt_ok_iff.1 hcode with ⟨c, hc, rfl⟩ | ⟨⟨z, hz⟩, rfl, rfl⟩
    · refine ⟨?_, fun h => by cases h⟩
      intro c' hc'
      simp only [Option.some.injEq] at hc'
      subst hc'
      obtain ⟨j, _, hps, hsp⟩ := terminated_ok_iff.1 hc
      refine ⟨?_, (space0_ok hsp).2.2⟩
      unfold parenStr paren at hps
      obtain ⟨_, _, _, _, _, htt, _⟩ := delimited_ok_iff.1 hps
      simp only [wfCode, List.all_eq_true]
      intro x hx
      have := (takeTill0_ok htt).2.1 x hx
      simpa using this
    · refine ⟨fun c h => (by cases h), fun _ => ⟨rfl, ?_⟩⟩
      intro t e
      subst e
      exact parenStr_bt hz
  have hstop5 : Stop isSpace r5 := by
    cases hcd : code with
    | none => rw [(hcodeP.2 hcd).1]; exact hstop4
    | some c => exact (hcodeP.1 c hcd).2
  refine ⟨?_, fun c hc => (hcodeP.1 c hc).1⟩
  rcases opt_ok_iff.1 hpayee with ⟨p, hp, rfl⟩ | ⟨_, rfl, _⟩
  · obtain ⟨l, hl, rfl⟩ := map_ok_iff.1 hp
    unfold tillLineEndingOrSemi at hl
    obtain ⟨hr5, hlne, hlall, _⟩ := takeTill1_ok hl
    have hstopl : Stop isSpace l := by
      intro c t e
      exact hstop5 c (t ++ r6) (by rw [hr5, e]; rfl)
    simp only [s, Option.getD_some, Bool.and_eq_true, List.all_eq_true]
    refine ⟨⟨⟨?_, trimEnd_notBlankStart hstopl⟩, trimEnd_endTrimmed l⟩, ?_⟩
    · intro c hc
      simp [hlall c (mem_trimEnd hc)]
    · cases hcd : code with
      | some c => rfl
      | none =>
        obtain ⟨h54, hnop⟩ := hcodeP.2 hcd
        simp only [Option.isSome_none, Bool.false_or, Bool.and_eq_true]
        cases hte : trimEnd l with
        | nil => simp [notClearMarkStart]
        | cons c t =>
          obtain ⟨t', hl'⟩ := trimEnd_head hte
          have hr4 : r4 = c :: (t' ++ r6) := by rw [← h54, hr5, hl']; rfl
          constructor
          · rcases clearState_ok hcs with ⟨rfl, hr43, hhead⟩ | ⟨hne, _⟩
            · obtain ⟨h1, h2⟩ := hhead c (t' ++ r6) (by rw [← hr43, hr4])
              simp [notClearMarkStart, h1, h2]
            · cases cs <;> simp_all
          · -- a payee that begins with `(` holds no `)`: otherwise the code would have been read
            by_cases hc : c = '('
            · subst hc
              simp only [List.head?_cons, bne_self_eq_false, Bool.false_or, Bool.not_eq_true']
              cases hcon : ('(' :: t).contains ')' with
              | false => rfl
              | true =>
                exfalso
                have hmem : ')' ∈ t := by
                  have := List.contains_iff_mem.mp hcon
                  rcases List.mem_cons.mp this with e | h
                  · cases e
                  · exact h
                -- `t` is the payee without its first character, `t'` the untrimmed one
                have hmem' : ')' ∈ t' := by
                  have : ')' ∈ trimEnd l := by rw [hte]; exact List.mem_cons_of_mem _ hmem
                  have := mem_trimEnd this
                  rw [hl'] at this
                  rcases List.mem_cons.mp this with e | h
                  · cases e
                  · exact h
                obtain ⟨a, b, hab, ha⟩ := split_first_close hmem'
                refine hnop (t' ++ r6) hr4 a (b ++ r6) (by rw [hab]; simp) ?_
                intro x hx
                have hxl : x ∈ l := by rw [hl', hab]; simp [hx]
                have h1 := hlall x hxl
                simp only [Bool.or_eq_false_iff, beq_eq_false_iff_ne] at h1
                have h2 : x ≠ ')' := fun e => ha (e ▸ hx)
                simp [isParenStrStop, h2, h1.1.2, h1.2]
            · simp [hc]
  · simp [s, notBlankStart, endTrimmed, notClearMarkStart]

/-! ## the transaction -/

/-- **image of `transaction::transaction`** -/
theorem transaction_image {i r : List Char} {t : Transaction} (hi : TextOK i) (h : transaction i = .ok t r) :
    wfTransaction { t with posts := t.posts.map canonPosting } = true ∧
    ∀ v ∈ exprsOfTransaction { t with posts := t.posts.map canonPosting }, plainV v = true := by
  rw [transaction_eq] at h
  simp only [bind_ok_iff, pure_ok_iff] at h
  obtain ⟨d, r1, hd, ed, r2, hed, isShortest, r2', hpk, u, r3, hcond, cs, r4, hcs, code, r5, hcode, payee, r6, hpayee,
    md, r7, hmd, posts, r8, hposts, rfl, _⟩ := h
  have hok1 : TextOK r1 := hi.suffix (safe_date.suffix hd)
  have hok2 : TextOK r2 := hok1.suffix (safe_edPart.suffix hed)
  obtain ⟨hstop3, hsuf3⟩ := header_start hpk hcond
  have hok3 : TextOK r3 := hok2.suffix hsuf3
  have hok4 : TextOK r4 := hok3.suffix (safe_clearState.suffix hcs)
  have hok5 : TextOK r5 := hok4.suffix (safe_codePart.suffix hcode)
  have hok6 : TextOK r6 := hok5.suffix (safe_payeePart.suffix hpayee)
  have hok7 : TextOK r7 := hok6.suffix (safe_blockMetadata.suffix hmd)
  obtain ⟨hpay, hcodeOK⟩ := payee_image hstop3 hcs hcode hpayee
  have hmdOK := blockMetadata_image hok6 hmd
  obtain ⟨hsteps, _⟩ := repeat0_ok hposts
  have hpostsOK := (Steps.forall
    (Q := fun p => wfPosting (canonPosting p) = true ∧ ∀ v ∈ exprsOfPosting (canonPosting p), plainV v = true)
    (S := TextOK)
    (fun j p r hj hp => by
      refine ⟨?_, hj.suffix (safe_postItem.suffix hp)⟩
      obtain ⟨_, j1, hpre, hcut⟩ := preceded_ok_iff.1 hp
      have hsuf : j1 <:+ j := by
        obtain ⟨j0, h1, h2⟩ := pair_ok_iff.1 hpre
        rw [(not_ok_iff.1 h2).1]
        exact (safe_takeWhile1 isSpace (Nat.le_refl 1)).suffix h1
      exact posting_image (hj.suffix hsuf) (cutErr_ok_iff.1 hcut))
    hsteps hok7).1
  constructor
  · simp only [wfTransaction, wfPayee, Bool.and_eq_true, List.all_eq_true, String.toList_ofList, Option.isSome_map]
    refine ⟨⟨⟨⟨⟨date_image hd, ?_⟩, ?_⟩, ?_⟩, hmdOK⟩, ?_⟩
    · cases ed with
      | none => rfl
      | some e =>
        rcases opt_ok_iff.1 hed with ⟨a, ha, he⟩ | ⟨_, he, _⟩
        · simp only [Option.some.injEq] at he
          subst he
          obtain ⟨_, _, _, hdt⟩ := preceded_ok_iff.1 ha
          exact date_image hdt
        · cases he
    · cases code with
      | none => rfl
      | some c =>
        have := hcodeOK c rfl
        simpa using this
    · simpa only [Bool.and_eq_true, List.all_eq_true] using hpay
    · intro p hp
      obtain ⟨p', hp', rfl⟩ := List.mem_map.mp hp
      exact (hpostsOK p' hp').1
  · intro v hv
    simp only [exprsOfTransaction, List.mem_flatMap] at hv
    obtain ⟨p, hp, hvp⟩ := hv
    obtain ⟨p', hp', rfl⟩ := List.mem_map.mp hp
    exact (hpostsOK p' hp').2 v hvp

example : (match transaction "2024/01/02=2024/01/03 ! (c1) Shop  ; :a:b:\n ; k: v\n A:B  -1 USD\n C\n".toList with
    | .ok t [] => t ==
        { date := ⟨2024, 1, 2⟩, effectiveDate := some ⟨2024, 1, 3⟩, clear := .pending, code := some "c1", payee := "Shop",
          metadata := [.wordTags ["a", "b"], .keyValue "k" (.text "v")],
          posts := [{ account := "A:B", amount := some { amount := .amt ⟨true, 1, 0, none⟩ "USD" } }, { account := "C" }] }
    | _ => false) = true := by decide +kernel

end Okane.C05Image
